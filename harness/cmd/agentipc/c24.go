// C24 driver: puts TLC-generated msgpack objects on the wire of a real AgentIPC one by one and
// records, per object, the replies received and the effects observed on the real agent.
package main

import (
	"bytes"

	"github.com/hashicorp/go-msgpack/v2/codec"
	"sort"
	"strings"
	"sync/atomic"
	"time"

	"github.com/hashicorp/serf/serf"

	"verif/harness/internal/h"
	"verif/harness/internal/quiet"
)

const rightKey = "s3cret-key"

type c24run struct {
	e        *env
	c        *client
	keyed    bool
	tags     map[string]string
	dials    int32
	handlers int
	logh     int
	left     bool
}

func newC24(keyed bool, id int) *c24run {
	key := ""
	if keyed {
		key = rightKey
	}
	e, err := newEnv(envOpts{name: "self", authKey: key, encrypt: true, gossip: 25 * time.Millisecond, queryMult: 1})
	if err != nil {
		h.Die("env: %v", err)
	}
	e.addMember("m1", 1, map[string]string{"role": "a"})
	e.addMember("m2", 1, nil)
	e.takeBroadcasts()
	c, err := dial(e)
	if err != nil {
		h.Die("dial: %v", err)
	}
	if !poll(2*time.Second, func() bool { return e.ipc.VerifClients() == 1 }) {
		h.Die("connection not registered")
	}
	r := &c24run{e: e, c: c, keyed: keyed}
	r.tags = copyTags(e.ag.Serf().LocalMember().Tags)
	r.handlers = e.ag.VerifHandlers()
	r.logh = e.ipc.VerifLogHandlers()
	return r
}

func copyTags(m map[string]string) map[string]string {
	o := map[string]string{}
	for k, v := range m {
		o[k] = v
	}
	return o
}

func sameTags(a, b map[string]string) bool {
	if len(a) != len(b) {
		return false
	}
	for k, v := range a {
		if w, ok := b[k]; !ok || w != v {
			return false
		}
	}
	return true
}

// validBody is the well-formed body of cmd (v: right/wrong variant for handshake and auth).
func validBody(cmd string, v int, seq int) interface{} {
	switch cmd {
	case "handshake":
		switch v {
		case 1:
			return map[string]interface{}{"Version": 1}
		case 0:
			return map[string]interface{}{"Version": 0}
		case 2:
			return map[string]interface{}{"Version": 2}
		}
		return map[string]interface{}{"Version": 2147483647}
	case "auth":
		if v == 1 {
			return map[string]interface{}{"AuthKey": rightKey}
		}
		if v == 2 {
			return map[string]interface{}{"AuthKey": ""}
		}
		return map[string]interface{}{"AuthKey": "wrong-key"}
	case "event":
		return map[string]interface{}{"Name": "deploy", "Payload": []byte{byte(seq)}, "Coalesce": false}
	case "force-leave":
		return map[string]interface{}{"Node": "m1", "Prune": false}
	case "join":
		return map[string]interface{}{"Existing": []string{"127.0.0.200:7946"}, "Replay": false}
	case "members-filtered":
		return map[string]interface{}{"Tags": map[string]string{}, "Status": "alive", "Name": "m.*"}
	case "stream":
		return map[string]interface{}{"Type": "user"}
	case "monitor":
		return map[string]interface{}{"LogLevel": "debug"}
	case "stop":
		return map[string]interface{}{"Stop": 99999}
	case "query":
		return map[string]interface{}{"Name": "uptime", "Payload": []byte{1}, "Timeout": int64(10 * time.Millisecond), "RequestAck": true}
	case "respond":
		return map[string]interface{}{"ID": 99999, "Payload": []byte{1}}
	case "install-key", "use-key", "remove-key":
		return map[string]interface{}{"Key": "AQIDBAUGBwgJCgsMDQ4PEQ=="}
	case "tags":
		return map[string]interface{}{"Tags": map[string]string{"x": "v" + strings.Repeat("i", seq%7) + string(rune('a'+seq%26))}, "DeleteTags": []string{}}
	case "get-coordinate":
		return map[string]interface{}{"Node": "m1"}
	}
	return map[string]interface{}{}
}

var streamKinds = map[string]bool{"qrec": true, "log": true, "uev": true, "mev": true, "qev": true}

// observe collects what happened since the previous object.
func (r *c24run) observe() map[string]interface{} {
	eff := map[string]bool{}
	for _, b := range r.e.takeBroadcasts() {
		s := quiet.Summarize(b)
		switch s.T {
		case quiet.TUserEvent:
			eff["event"] = true
		case quiet.TQuery:
			if strings.HasPrefix(s.Node, serf.InternalQueryPrefix) {
				eff["keys"] = true
			} else {
				eff["query"] = true
			}
		case quiet.TLeave:
			if s.Node == "self" {
				eff["leave"] = true
			} else {
				eff["fleave"] = true
			}
		}
	}
	if st := r.e.ag.Serf().State(); st != serf.SerfAlive {
		if !r.left {
			eff["leave"] = true
		}
		r.left = true
	}
	if now := copyTags(r.e.ag.Serf().LocalMember().Tags); !sameTags(now, r.tags) {
		eff["tags"] = true
		r.tags = now
	}
	if d := atomic.LoadInt32(&r.e.dials); d != r.dials {
		eff["join"] = true
		r.dials = d
	}
	if n := r.e.ag.VerifHandlers(); n != r.handlers {
		if n > r.handlers {
			eff["reg"] = true
		}
		r.handlers = n
	}
	if n := r.e.ipc.VerifLogHandlers(); n != r.logh {
		if n > r.logh {
			eff["reg"] = true
		}
		r.logh = n
	}
	rep := []map[string]interface{}{}
	srec := 0
	for _, f := range r.c.take() {
		if streamKinds[f.Kind] {
			srec++
			continue
		}
		er := 0
		if f.Err != "" {
			er = 1
		}
		rep = append(rep, map[string]interface{}{"seq": int(f.Seq), "err": er, "kind": f.Kind})
	}
	effs := []string{}
	for k := range eff {
		effs = append(effs, k)
	}
	sort.Strings(effs)
	return map[string]interface{}{"rep": rep, "eff": effs, "srec": srec, "closed": r.c.isClosed()}
}

func (r *c24run) nonStreamFrames() int {
	r.c.mu.Lock()
	defer r.c.mu.Unlock()
	n := 0
	for _, f := range r.c.frames {
		if !streamKinds[f.Kind] {
			n++
		}
	}
	return n
}

func (r *c24run) step(st h.Step) map[string]interface{} {
	switch st.A() {
	case "hdr":
		_ = r.c.header(wireCmd(st.Str("cmd")), uint64(st.Int("seq")))
	case "body":
		_ = r.c.send(validBody(st.Str("cmd"), st.Int("v"), lastSeq(r)))
	case "junk":
		_ = r.c.send(7)
	case "batch":
		// PIPELINING: all objects are encoded first and handed to the connection with ONE write, before anything
		// is read: the server's bufio.Reader takes the whole batch in with the read that gets the first header
		var buf bytes.Buffer
		enc := codec.NewEncoder(&buf, msgpackHandle())
		for _, x := range st.List("objs") {
			o := h.Step(x.(map[string]interface{}))
			var err error
			switch o.A() {
			case "hdr":
				err = enc.Encode(map[string]interface{}{"Command": wireCmd(o.Str("cmd")), "Seq": uint64(o.Int("seq"))})
			case "body":
				err = enc.Encode(validBody(o.Str("cmd"), o.Int("v"), lastSeq(r)))
			case "junk":
				err = enc.Encode(7)
			default:
				h.Die("c24: unknown object %q in a batch", o.A())
			}
			if err != nil {
				h.Die("c24: encode: %v", err)
			}
		}
		if buf.Len() > 3500 {
			h.Die("c24: batch of %d bytes does not fit the server's read buffer", buf.Len())
		}
		_ = r.c.writeRaw(buf.Bytes())
	case "close":
		r.c.close()
		// positive barrier: the server side of the connection is gone, nothing more can happen for it
		poll(5*time.Second, func() bool { return r.e.ipc.VerifClients() == 0 })
		return r.observe()
	default:
		h.Die("c24: unknown action %q", st.A())
	}
	// await what the model expects (bounded), never conclude from silence alone: the final close
	// line is a real barrier
	w, reg, cl := st.Int("w"), st.Int("reg"), st.Int("cl")
	poll(2*time.Second, func() bool { return r.nonStreamFrames() >= w || r.c.isClosed() })
	if reg == 1 {
		h0, l0 := r.handlers, r.logh
		poll(2*time.Second, func() bool { return r.e.ag.VerifHandlers() > h0 || r.e.ipc.VerifLogHandlers() > l0 })
	}
	if cl == 1 {
		poll(2*time.Second, func() bool { return r.c.isClosed() })
	}
	return r.observe()
}

var seqCounter int

func lastSeq(r *c24run) int { seqCounter++; return seqCounter }

func wireCmd(c string) string {
	if c == "bogus" {
		return "no-such-command"
	}
	return c
}

func runC24(scheds []h.Schedule, tr *h.Tracer) {
	for _, s := range scheds {
		if len(s.Steps) == 0 || s.Steps[0].A() != "conf" {
			h.Die("c24: schedule %d does not start with conf", s.ID)
		}
		r := newC24(s.Steps[0].Bool("keyed"), s.ID)
		tr.Reset(s.ID, nil)
		tr.Step(s.Steps[0], map[string]interface{}{"rep": []int{}, "eff": []string{}, "srec": 0, "closed": false})
		closed := false
		for _, st := range s.Steps[1:] {
			tr.Step(st, r.step(st))
			if st.A() == "close" {
				closed = true
				break
			}
		}
		if !closed {
			r.c.close()
		}
		r.e.close()
	}
}
