// Environment shared by the agentipc drivers: a REAL agent.Agent (agent.Create + Start) whose serf
// configuration is the quiet one of harness/internal/quiet.NewNode (in-process transport, nothing
// happens unless the harness makes it happen), a REAL agent.AgentIPC on an in-memory pipe listener
// and a RAW msgpack client (header {Command, Seq} then body, as client/rpc_client.go does, but
// without its safety rails: any object can be put on the wire in any order).
package main

import (
	"bufio"
	"bytes"
	"errors"
	"fmt"
	"io"
	"net"
	"reflect"
	"sort"
	"strings"
	"sync"
	"sync/atomic"
	"time"

	"github.com/hashicorp/go-msgpack/v2/codec"
	"github.com/hashicorp/memberlist"
	"github.com/hashicorp/serf/cmd/serf/command/agent"
	"github.com/hashicorp/serf/serf"

	"verif/harness/internal/h"
	"verif/harness/internal/quiet"
)

// ---------------------------------------------------------------------------- pipe listener

type pipeAddr struct{ s string }

func (a pipeAddr) Network() string { return "verifpipe" }
func (a pipeAddr) String() string  { return a.s }

type pipeConn struct {
	net.Conn
	remote pipeAddr
}

func (c pipeConn) RemoteAddr() net.Addr { return c.remote }

// pipeListener hands out the server ends of net.Pipe() pairs.  net.Pipe is synchronous and
// unbuffered: a server write completes only when the client has read it, so a client that does not
// read really is a slow client for the server.
type pipeListener struct {
	ch     chan net.Conn
	closed chan struct{}
	once   sync.Once
	n      int32
}

func newPipeListener() *pipeListener {
	return &pipeListener{ch: make(chan net.Conn), closed: make(chan struct{})}
}
func (l *pipeListener) Accept() (net.Conn, error) {
	select {
	case c := <-l.ch:
		return c, nil
	case <-l.closed:
		return nil, errors.New("listener closed")
	}
}
func (l *pipeListener) Close() error   { l.once.Do(func() { close(l.closed) }); return nil }
func (l *pipeListener) Addr() net.Addr { return pipeAddr{"verif-ipc"} }
func (l *pipeListener) Dial() (net.Conn, error) {
	c1, c2 := net.Pipe()
	id := atomic.AddInt32(&l.n, 1)
	select {
	case l.ch <- pipeConn{Conn: c2, remote: pipeAddr{fmt.Sprintf("client-%d", id)}}:
		return c1, nil
	case <-l.closed:
		return nil, errors.New("listener closed")
	}
}

// ---------------------------------------------------------------------------- delegate recorder

type recDelegate struct {
	memberlist.Delegate
	mu    sync.Mutex
	taken [][]byte
}

func (r *recDelegate) GetBroadcasts(overhead, limit int) [][]byte {
	msgs := r.Delegate.GetBroadcasts(overhead, limit)
	r.mu.Lock()
	for _, m := range msgs {
		r.taken = append(r.taken, append([]byte(nil), m...))
	}
	r.mu.Unlock()
	return msgs
}

// ---------------------------------------------------------------------------- event recorder

// evRecorder is an agent.EventHandler registered by the harness: ground truth of what the agent's
// event loop dispatched, in order.
type evRecorder struct {
	mu  sync.Mutex
	evs []serf.Event
}

func (r *evRecorder) HandleEvent(e serf.Event) {
	r.mu.Lock()
	r.evs = append(r.evs, e)
	r.mu.Unlock()
}
func (r *evRecorder) count() int {
	r.mu.Lock()
	defer r.mu.Unlock()
	return len(r.evs)
}

// ---------------------------------------------------------------------------- environment

type envOpts struct {
	name      string
	authKey   string
	tagsFile  string
	tags      map[string]string
	encrypt   bool          // give the node a keyring (key commands then have something to change)
	gossip    time.Duration // memberlist GossipInterval (default 1h); the default query timeout derives from it
	queryMult int
	logLevel  string
}

type env struct {
	opts   envOpts
	net    *quiet.Net
	tr     *quiet.Transport
	ag     *agent.Agent
	ipc    *agent.AgentIPC
	lis    *pipeListener
	conf   *serf.Config
	aconf  *agent.Config
	del    memberlist.Delegate      // serf's delegate
	evd    memberlist.EventDelegate // serf's event delegate
	rec    *recDelegate
	evrec  *evRecorder
	logBuf *quiet.SyncBuf
	dials  int32
	others []*quiet.Transport

	pumpMu   sync.Mutex
	pumped   [][]byte
	pumpStop chan struct{}
	pumpDone chan struct{}
}

// quietSerfConfig mirrors quiet.NewNode setting by setting; the Serf itself is created by agent.Start.
func quietSerfConfig(name string, tr *quiet.Transport, lb io.Writer) *serf.Config {
	conf := serf.DefaultConfig()
	conf.Init()
	conf.NodeName = name
	mc := memberlist.DefaultLANConfig()
	mc.Name = name
	mc.Transport = tr
	mc.BindAddr = tr.IP.String()
	mc.BindPort = tr.Port
	mc.AdvertiseAddr = tr.IP.String()
	mc.AdvertisePort = tr.Port
	mc.ProbeInterval = time.Hour
	mc.GossipInterval = time.Hour
	mc.PushPullInterval = 0
	mc.RetransmitMult = 1
	mc.EnableCompression = false
	mc.GossipVerifyOutgoing = false
	mc.TCPTimeout = 2 * time.Second
	mc.DeadNodeReclaimTime = 0
	mc.LogOutput = lb
	conf.MemberlistConfig = mc
	conf.LogOutput = lb
	conf.ReapInterval = time.Hour
	conf.ReconnectInterval = time.Hour
	conf.ReconnectTimeout = 24 * time.Hour
	conf.TombstoneTimeout = 48 * time.Hour
	conf.BroadcastTimeout = 20 * time.Millisecond
	conf.LeavePropagateDelay = time.Millisecond
	conf.CoalescePeriod = 0
	conf.UserCoalescePeriod = 0
	conf.QueueCheckInterval = time.Hour
	conf.DisableCoordinates = true
	conf.RecentIntentTimeout = 24 * time.Hour
	conf.ValidateNodeNames = false
	return conf
}

var testKey = []byte{1, 2, 3, 4, 5, 6, 7, 8, 9, 10, 11, 12, 13, 14, 15, 16}

func newEnv(o envOpts) (*env, error) {
	e := &env{opts: o, net: quiet.NewNet(), logBuf: &quiet.SyncBuf{}}
	e.net.Capture = false
	// nothing travels: the node's own loop-back packets (its ack to its own query) are cut too
	e.net.Cut = func(from, to string) bool { return true }
	e.tr = e.net.NewTransport(o.name)
	e.tr.DialGate = func(to string) { atomic.AddInt32(&e.dials, 1) }
	e.conf = quietSerfConfig(o.name, e.tr, e.logBuf)
	if o.gossip > 0 {
		e.conf.MemberlistConfig.GossipInterval = o.gossip
	}
	if o.queryMult > 0 {
		e.conf.QueryTimeoutMult = o.queryMult
	}
	if o.encrypt {
		kr, err := memberlist.NewKeyring(nil, testKey)
		if err != nil {
			return nil, err
		}
		e.conf.MemberlistConfig.Keyring = kr
	}
	e.aconf = agent.DefaultConfig()
	e.aconf.NodeName = o.name
	e.aconf.TagsFile = o.tagsFile
	e.aconf.EnableCompression = false
	if o.tags != nil {
		e.conf.Tags = o.tags
	}
	lw := agent.NewLogWriter(512)
	logOut := io.MultiWriter(e.logBuf, lw)
	e.conf.MemberlistConfig.LogOutput = logOut
	ag, err := agent.Create(e.aconf, e.conf, logOut)
	if err != nil {
		return nil, err
	}
	e.ag = ag
	e.evrec = &evRecorder{}
	ag.RegisterEventHandler(e.evrec)
	if err := ag.Start(); err != nil {
		return nil, err
	}
	mc := e.conf.MemberlistConfig
	e.del = mc.Delegate
	e.evd = mc.Events
	e.rec = &recDelegate{Delegate: mc.Delegate}
	mc.Delegate = e.rec // memberlist reads config.Delegate dynamically
	e.lis = newPipeListener()
	e.ipc = agent.NewAgentIPC(ag, o.authKey, e.lis, logOut, lw, false)
	e.pumpStop = make(chan struct{})
	e.pumpDone = make(chan struct{})
	go e.pump()
	// serf.Create announces the local node (member-join of itself); it is not part of any schedule: wait
	// until the agent's event loop has dispatched it
	if !poll(10*time.Second, func() bool { return e.evrec.count() >= 1 }) {
		return nil, errors.New("the agent did not dispatch the start-up member-join")
	}
	return e, nil
}

// pump keeps emptying the broadcast queues through the real GetBroadcasts: Leave, force-leave and
// SetTags block until their broadcast has been handed out.
func (e *env) pump() {
	defer close(e.pumpDone)
	for {
		select {
		case <-e.pumpStop:
			return
		default:
		}
		e.drainOnce()
		time.Sleep(150 * time.Microsecond)
	}
}

func (e *env) drainOnce() {
	// atomic with respect to takeBroadcasts: what was taken from the queues is in e.pumped when this returns
	e.pumpMu.Lock()
	defer e.pumpMu.Unlock()
	for {
		got := e.rec.GetBroadcasts(3, 1<<20)
		if len(got) == 0 {
			break
		}
	}
	e.rec.mu.Lock()
	out := e.rec.taken
	e.rec.taken = nil
	e.rec.mu.Unlock()
	e.pumped = append(e.pumped, out...)
}

// takeBroadcasts returns everything queued for broadcast since the last call.
func (e *env) takeBroadcasts() [][]byte {
	e.drainOnce()
	e.pumpMu.Lock()
	out := e.pumped
	e.pumped = nil
	e.pumpMu.Unlock()
	return out
}

func (e *env) close() {
	close(e.pumpStop)
	<-e.pumpDone
	e.ipc.Shutdown()
	_ = e.ag.Shutdown()
}

// encodeTags mirrors serf's tag encoding (magic byte 255 + msgpack map).
func encodeTags(tags map[string]string) []byte {
	var buf bytes.Buffer
	buf.WriteByte(255)
	hd := codec.MsgpackHandle{}
	if err := codec.NewEncoder(&buf, &hd).Encode(tags); err != nil {
		panic(err)
	}
	return buf.Bytes()
}

func (e *env) mlNode(name string, tr *quiet.Transport, tags map[string]string) *memberlist.Node {
	var meta []byte
	if tags != nil {
		meta = encodeTags(tags)
	}
	return &memberlist.Node{Name: name, Addr: tr.IP, Port: uint16(tr.Port), Meta: meta,
		PMin: memberlist.ProtocolVersionMin, PMax: memberlist.ProtocolVersionMax, PCur: memberlist.ProtocolVersion2Compatible,
		DMin: serf.ProtocolVersionMin, DMax: serf.ProtocolVersionMax, DCur: serf.ProtocolVersionMax}
}

// addMember makes name a member with the given status (1 alive, 2 leaving, 3 left, 4 failed) through
// serf's memberlist event delegate and leave intents in the real wire format.
func (e *env) addMember(name string, status int, tags map[string]string) {
	tr := e.net.NewTransport(name)
	e.others = append(e.others, tr)
	nd := e.mlNode(name, tr, tags)
	e.evd.NotifyJoin(nd)
	switch status {
	case 2:
		e.del.NotifyMsg(quiet.Encode(quiet.TLeave, quiet.MsgLeave{LTime: 50, Node: name}))
	case 3:
		e.del.NotifyMsg(quiet.Encode(quiet.TLeave, quiet.MsgLeave{LTime: 50, Node: name}))
		e.evd.NotifyLeave(nd)
	case 4:
		e.evd.NotifyLeave(nd)
	}
}

// ---------------------------------------------------------------------------- raw client

// gatedConn lets the harness stop reading (slow client).
type gatedConn struct {
	net.Conn
	mu      sync.Mutex
	cond    *sync.Cond
	stalled bool
}

func (g *gatedConn) Read(p []byte) (int, error) {
	for {
		g.mu.Lock()
		for g.stalled {
			g.cond.Wait()
		}
		g.mu.Unlock()
		n, err := g.Conn.Read(p)
		if n == 0 && err != nil {
			if ne, ok := err.(net.Error); ok && ne.Timeout() {
				continue // kicked out of a pending Read by setStalled(true)
			}
		}
		return n, err
	}
}

// setStalled(true) takes effect at once: a Read that is already pending is interrupted through the read
// deadline, so not a single further byte is taken from the server until setStalled(false).
func (g *gatedConn) setStalled(v bool) {
	g.mu.Lock()
	g.stalled = v
	if v {
		_ = g.Conn.SetReadDeadline(time.Unix(1, 0))
	} else {
		_ = g.Conn.SetReadDeadline(time.Time{})
	}
	g.mu.Unlock()
	g.cond.Broadcast()
}

// frame is one reply header together with the body object that followed it (nil if none).
type frame struct {
	Seq  uint64
	Err  string
	Body map[string]interface{}
	Kind string // "", members, join, coord, keys, stats, qrec, log, uev, mev, qev, other
}

type client struct {
	conn      *gatedConn
	enc       *codec.Encoder
	mu        sync.Mutex
	frames    []frame
	closed    bool   // reader saw EOF / error
	decodeErr string // a decoding error other than the end of the connection
	closing   bool   // the harness itself is closing the connection
	rdDone    chan struct{}
	wmu       sync.Mutex
}

func msgpackHandle() *codec.MsgpackHandle {
	hd := &codec.MsgpackHandle{WriteExt: true}
	hd.TimeNotBuiltin = true
	hd.RawToString = true
	hd.MapType = reflect.TypeOf(map[string]interface{}(nil))
	return hd
}

func isHeader(m map[string]interface{}) bool {
	if len(m) != 2 {
		return false
	}
	_, a := m["Seq"]
	_, b := m["Error"]
	return a && b
}

func kindOf(m map[string]interface{}) string {
	has := func(k string) bool { _, ok := m[k]; return ok }
	switch {
	case has("Members") && has("Event"):
		return "mev"
	case has("Members"):
		return "members"
	case has("Num"):
		return "join"
	case has("Coord"):
		return "coord"
	case has("Messages"):
		return "keys"
	case has("Type") && has("From"):
		return "qrec"
	case has("Log"):
		return "log"
	case has("Event") && has("ID"):
		return "qev"
	case has("Event"):
		return "uev"
	case has("agent") || has("runtime"):
		return "stats"
	}
	return "other"
}

func toU64(v interface{}) uint64 {
	switch x := v.(type) {
	case uint64:
		return x
	case int64:
		return uint64(x)
	case int:
		return uint64(x)
	case uint32:
		return uint64(x)
	case int32:
		return uint64(x)
	case uint8:
		return uint64(x)
	case int8:
		return uint64(x)
	case uint16:
		return uint64(x)
	case int16:
		return uint64(x)
	}
	return 0
}

func toStr(v interface{}) string {
	switch x := v.(type) {
	case string:
		return x
	case []byte:
		return string(x)
	}
	return ""
}

func dial(e *env) (*client, error) {
	c, err := e.lis.Dial()
	if err != nil {
		return nil, err
	}
	g := &gatedConn{Conn: c}
	g.cond = sync.NewCond(&g.mu)
	cl := &client{conn: g, rdDone: make(chan struct{})}
	cl.enc = codec.NewEncoder(g, msgpackHandle())
	go cl.readLoop()
	return cl, nil
}

// readLoop decodes msgpack objects one by one; an object with exactly the keys {Seq, Error} is a
// reply header, any other object is the body of the header before it.  The server sends header and
// body in one buffered write: a header with nothing buffered behind it has no body (net.Pipe hands
// over one write per read).  A body without a header and a decoding error before the connection
// ended are recorded as garbled input (frames of kind "orphan", decodeErr).
func (c *client) readLoop() {
	defer close(c.rdDone)
	br := bufio.NewReaderSize(c.conn, 1<<16)
	dec := codec.NewDecoder(br, msgpackHandle())
	var pending *frame
	publish := func(f frame) {
		c.mu.Lock()
		c.frames = append(c.frames, f)
		c.mu.Unlock()
	}
	for {
		var v interface{}
		if err := dec.Decode(&v); err != nil {
			if pending != nil {
				publish(*pending)
			}
			c.mu.Lock()
			c.closed = true
			if err != io.EOF && !errors.Is(err, io.ErrClosedPipe) && !strings.Contains(err.Error(), "closed pipe") && !c.closing {
				c.decodeErr = err.Error()
			}
			c.mu.Unlock()
			return
		}
		m, _ := v.(map[string]interface{})
		if m != nil && isHeader(m) {
			if pending != nil {
				publish(*pending) // two headers in one write: the first one had no body
			}
			pending = &frame{Seq: toU64(m["Seq"]), Err: toStr(m["Error"])}
			if br.Buffered() == 0 {
				publish(*pending)
				pending = nil
			}
			continue
		}
		if pending != nil && m != nil {
			pending.Body = m
			pending.Kind = kindOf(m)
			publish(*pending)
			pending = nil
			continue
		}
		if pending != nil {
			publish(*pending)
			pending = nil
		}
		publish(frame{Kind: "orphan", Body: map[string]interface{}{"orphan": v}})
	}
}

// send puts one msgpack object on the wire (bounded: the server may have gone away).
func (c *client) send(obj interface{}) error {
	c.wmu.Lock()
	defer c.wmu.Unlock()
	_ = c.conn.Conn.SetWriteDeadline(time.Now().Add(10 * time.Second))
	return c.enc.Encode(obj)
}

// writeRaw hands pre-encoded bytes to the connection with a single Write.
func (c *client) writeRaw(b []byte) error {
	c.wmu.Lock()
	defer c.wmu.Unlock()
	_ = c.conn.Conn.SetWriteDeadline(time.Now().Add(10 * time.Second))
	_, err := c.conn.Conn.Write(b)
	return err
}

func (c *client) header(cmd string, seq uint64) error {
	return c.send(map[string]interface{}{"Command": cmd, "Seq": seq})
}

func (c *client) nframes() int {
	c.mu.Lock()
	defer c.mu.Unlock()
	return len(c.frames)
}

func (c *client) isClosed() bool {
	c.mu.Lock()
	defer c.mu.Unlock()
	return c.closed
}

// take returns the frames received since the last call.  A header whose body may still be in flight
// is only handed out once complete() says so; callers wait with awaitFrames first.
func (c *client) take() []frame {
	c.mu.Lock()
	defer c.mu.Unlock()
	out := c.frames
	c.frames = nil
	return out
}

// awaitFrames waits (bounded) until n frames are there or the connection is closed.
func (c *client) awaitFrames(n int, d time.Duration) bool {
	deadline := time.Now().Add(d)
	for {
		c.mu.Lock()
		ok := len(c.frames) >= n
		cl := c.closed
		c.mu.Unlock()
		if ok {
			return true
		}
		if cl || time.Now().After(deadline) {
			return false
		}
		time.Sleep(50 * time.Microsecond)
	}
}

func (c *client) close() {
	c.mu.Lock()
	c.closing = true
	c.mu.Unlock()
	c.conn.setStalled(false)
	_ = c.conn.Conn.Close()
	<-c.rdDone
}

// call: header + body, waits for one frame with that seq; used for set-up steps (handshake, auth).
func (c *client) call(cmd string, seq uint64, body interface{}) (frame, error) {
	if err := c.header(cmd, seq); err != nil {
		return frame{}, err
	}
	if body != nil {
		if err := c.send(body); err != nil {
			return frame{}, err
		}
	}
	deadline := time.Now().Add(5 * time.Second)
	for time.Now().Before(deadline) {
		c.mu.Lock()
		for i, f := range c.frames {
			if f.Seq == seq {
				c.frames = append(c.frames[:i:i], c.frames[i+1:]...)
				c.mu.Unlock()
				return f, nil
			}
		}
		cl := c.closed
		c.mu.Unlock()
		if cl {
			return frame{}, errors.New("connection closed")
		}
		time.Sleep(50 * time.Microsecond)
	}
	return frame{}, errors.New("no reply")
}

func (c *client) handshake(seq uint64) error {
	f, err := c.call("handshake", seq, map[string]interface{}{"Version": 1})
	if err != nil {
		return err
	}
	if f.Err != "" {
		return errors.New(f.Err)
	}
	return nil
}

func sortedKeys(m map[string]string) []string {
	ks := make([]string, 0, len(m))
	for k := range m {
		ks = append(ks, k)
	}
	sort.Strings(ks)
	return ks
}

func poll(d time.Duration, f func() bool) bool {
	deadline := time.Now().Add(d)
	for {
		if f() {
			return true
		}
		if time.Now().After(deadline) {
			return false
		}
		time.Sleep(100 * time.Microsecond)
	}
}

var _ = h.Die
