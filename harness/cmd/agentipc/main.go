// Drivers of the agentipc family (C24, C25, C26, C30): read TLC-generated schedules (NDJSON), run
// them against a REAL agent.Agent + agent.AgentIPC through a raw msgpack client, write the trace.
package main

import (
	"flag"
	"fmt"

	"verif/harness/internal/h"
)

func main() {
	mode := flag.String("mode", "", "c24 | stream | query | filter | tags")
	in := flag.String("in", "", "schedules ndjson")
	out := flag.String("out", "", "trace ndjson")
	flag.StringVar(&gateLabel, "gate", "", "yield label in front of the select of queryResponseStream.Stream")
	flag.StringVar(&scratchDir, "scratch", "", "scratch directory (tags files)")
	flag.Parse()
	scheds, err := h.ReadSchedules(*in)
	if err != nil {
		h.Die("%v", err)
	}
	tr, err := h.NewTracer(*out)
	if err != nil {
		h.Die("%v", err)
	}
	switch *mode {
	case "c24":
		runC24(scheds, tr)
	case "filter":
		runFilter(scheds, tr)
	case "tags":
		runTags(scheds, tr)
	case "stream":
		runStreams(scheds, tr)
	case "query":
		runQuery(scheds, tr)
	default:
		h.Die("unknown mode %q", *mode)
	}
	if err := tr.Close(); err != nil {
		h.Die("%v", err)
	}
	fmt.Println("ok")
}

var gateLabel, scratchDir string
