// C25 driver, query stream part: one `query` RPC on a real agent; acks / responses are injected through
// serf's delegate (NotifyMsg, real wire format); the stream loop (queryResponseStream.Stream) is the
// yield-instrumented copy and is held in front of its select by a gate, so that the order of
// {ack arrives, response arrives, deadline passes / QueryResponse closes, loop iterates, client reads}
// is the one the TLC-generated schedule says.
package main

import (
	"fmt"
	"runtime"
	"strings"
	"sync"
	"time"

	"github.com/hashicorp/serf/cmd/serf/command/agent"
	"github.com/hashicorp/serf/serf"

	"verif/harness/internal/h"
	"verif/harness/internal/quiet"
)

const queryTimeout = 300 * time.Millisecond
const querySeq = 7

type gateT struct {
	mu      sync.Mutex
	on      bool
	arrive  chan struct{}
	release chan struct{}
}

var gate gateT

func installGate() {
	if gateLabel == "" {
		h.Die("query mode needs -gate <label>")
	}
	agent.VerifYield = func(label string) {
		if label != gateLabel {
			return
		}
		gate.mu.Lock()
		on, arr, rel := gate.on, gate.arrive, gate.release
		gate.mu.Unlock()
		if !on {
			return
		}
		arr <- struct{}{}
		<-rel
	}
}

// loopState inspects the goroutine dump: "select" = the stream loop is blocked in ITS select, "send" = it is
// blocked writing to the client (net.Pipe write), "" = running, held at the gate, or gone.
func loopState() string {
	buf := make([]byte, 1<<20)
	n := runtime.Stack(buf, true)
	for _, g := range strings.Split(string(buf[:n]), "\n\n") {
		if !strings.Contains(g, "queryResponseStream).Stream") {
			continue
		}
		if strings.Contains(g, "net.(*pipe).write") {
			return "send"
		}
		if strings.HasPrefix(g, "goroutine ") && strings.Contains(g[:strings.Index(g, "\n")], "[select") &&
			!strings.Contains(g, "main.installGate") {
			return "select"
		}
		return ""
	}
	return ""
}

type queryRun struct {
	e       *env
	c       *client
	t0      time.Time
	lt      uint64
	id      uint32
	atGate  bool
	expired bool
	done    bool
	late    bool
}

func newQueryRun() *queryRun {
	e, err := newEnv(envOpts{name: "self"})
	if err != nil {
		h.Die("env: %v", err)
	}
	c, err := dial(e)
	if err != nil {
		h.Die("dial: %v", err)
	}
	if err := c.handshake(100000); err != nil {
		h.Die("handshake: %v", err)
	}
	gate.mu.Lock()
	gate.on = true
	gate.arrive = make(chan struct{}, 256)
	gate.release = make(chan struct{})
	gate.mu.Unlock()
	return &queryRun{e: e, c: c}
}

func (r *queryRun) awaitGate(d time.Duration) bool {
	if r.atGate {
		return true
	}
	select {
	case <-gate.arrive:
		r.atGate = true
		return true
	case <-time.After(d):
		return false
	}
}

func (r *queryRun) drainGate() {
	select {
	case <-gate.arrive:
		r.atGate = true
	default:
	}
}

func (r *queryRun) observe(replyErr int) map[string]interface{} {
	recs := []map[string]interface{}{}
	bad := 0
	for _, f := range r.c.take() {
		if f.Seq != querySeq {
			bad++
			continue
		}
		if f.Kind != "qrec" {
			if f.Kind != "" || f.Body != nil {
				bad++
			}
			continue
		}
		n, p := 0, 0
		if from := toStr(f.Body["From"]); from != "" {
			n = 99
			fmt.Sscanf(from, "node%d", &n)
		}
		if pl := toStr(f.Body["Payload"]); pl != "" {
			p = 99
			fmt.Sscanf(pl, "p%d", &p)
		}
		k := toStr(f.Body["Type"])
		if k == "done" {
			r.done = true
		}
		recs = append(recs, map[string]interface{}{"k": k, "n": n, "p": p})
	}
	return map[string]interface{}{"recs": recs, "err": replyErr, "badseq": bad}
}

// qframes counts the query records received and not yet taken.
func (r *queryRun) qframes() int {
	r.c.mu.Lock()
	defer r.c.mu.Unlock()
	n := 0
	for _, f := range r.c.frames {
		if f.Kind == "qrec" {
			n++
		}
	}
	return n
}

func (r *queryRun) hasDone() bool {
	r.c.mu.Lock()
	defer r.c.mu.Unlock()
	for _, f := range r.c.frames {
		if f.Kind == "qrec" && toStr(f.Body["Type"]) == "done" {
			return true
		}
	}
	return false
}

func (r *queryRun) checkTime() {
	if !r.expired && time.Since(r.t0) > queryTimeout-50*time.Millisecond {
		r.late = true
	}
}

func (r *queryRun) step(st h.Step) map[string]interface{} {
	w := st.Int("w")
	r.drainGate()
	switch st.A() {
	case "query":
		r.e.takeBroadcasts()
		r.t0 = time.Now()
		_ = r.c.header("query", querySeq)
		_ = r.c.send(map[string]interface{}{"Name": "deploy", "Payload": []byte("x"), "Timeout": int64(queryTimeout),
			"RequestAck": st.Bool("ack")})
		if !r.c.awaitFrames(1, 5*time.Second) {
			h.Die("query: no reply")
		}
		fr := r.c.take()
		er := 0
		if len(fr) != 1 || fr[0].Seq != querySeq || fr[0].Kind != "" {
			h.Die("query: unexpected reply %+v", fr)
		}
		if fr[0].Err != "" {
			er = 1
		}
		// the query's Lamport time and ID, from the broadcast queue
		found := false
		poll(2*time.Second, func() bool {
			for _, b := range r.e.takeBroadcasts() {
				if s := quiet.Summarize(b); s.T == quiet.TQuery {
					r.lt, r.id, found = s.LTime, s.ID, true
				}
			}
			return found
		})
		if !found {
			h.Die("query: no query broadcast queued")
		}
		if !r.awaitGate(5 * time.Second) {
			h.Die("query: the stream loop did not reach the gate %q", gateLabel)
		}
		return r.observe(er)
	case "ack", "resp":
		r.checkTime()
		m := quiet.MsgQueryResponse{LTime: r.lt, ID: r.id, From: fmt.Sprintf("node%d", st.Int("n"))}
		if st.A() == "ack" {
			m.Flags = quiet.FlagAck
		} else {
			m.Payload = []byte(fmt.Sprintf("p%d", st.Int("p")))
		}
		r.e.del.NotifyMsg(quiet.Encode(quiet.TQueryResponse, m))
		r.atGate = false || r.atGate
	case "step":
		r.checkTime()
		if r.atGate {
			select {
			case gate.release <- struct{}{}:
				r.atGate = false
			case <-time.After(2 * time.Second):
				h.Die("step: loop announced at the gate does not take the release")
			}
		}
	case "expire":
		time.Sleep(time.Until(r.t0.Add(queryTimeout + 5*time.Millisecond)))
		// positive: the QueryResponse has been deregistered and closed by serf's timer
		if !poll(3*time.Second, func() bool { return !r.e.ag.Serf().VerifQueryOpen(serf.LamportTime(r.lt)) }) {
			h.Die("expire: query still registered")
		}
		time.Sleep(time.Millisecond)
		r.expired = true
	case "stall":
		r.c.conn.setStalled(true)
	case "unstall":
		r.c.conn.setStalled(false)
	case "end":
		r.c.conn.setStalled(false)
		gate.mu.Lock()
		gate.on = false
		gate.mu.Unlock()
		close(gate.release)
		r.atGate = false
		r.expired = true
		if !poll(queryTimeout+5*time.Second, func() bool { return r.done || r.hasDone() }) {
			// no completion record within the deadline plus 5 s: recorded as observed (the monitor judges)
		}
		time.Sleep(2 * time.Millisecond)
		return r.observe(0)
	default:
		h.Die("query: unknown action %q", st.A())
	}
	// Positive waits, independent of which select case the model guessed: first the records the model expects
	// (or the loop being back at the gate: its iteration is over, possibly a silent one), then until the loop
	// is observably quiescent: back at the gate, blocked in its select, blocked in Send, or finished.
	if w > 0 {
		// the loop is back at the gate as soon as the client has READ the record's bytes, i.e. possibly a moment
		// before the client has decoded the frame: after the gate token the frame gets 50 ms more
		var tokenAt time.Time
		poll(2*time.Second, func() bool {
			r.drainGate()
			if r.qframes() >= w {
				return true
			}
			if r.atGate {
				if tokenAt.IsZero() {
					tokenAt = time.Now()
				}
				return time.Since(tokenAt) > 50*time.Millisecond
			}
			return false
		})
	}
	if st.A() != "query" && st.A() != "stall" {
		poll(2*time.Second, func() bool {
			r.drainGate()
			return r.atGate || r.done || r.hasDone() || loopState() != ""
		})
	}
	// the step must be over well before the query's real deadline, otherwise the schedule's order of
	// "expire" relative to the other steps is not the one that was executed: the attempt is repeated
	if !r.expired && time.Since(r.t0) > queryTimeout-30*time.Millisecond {
		r.late = true
	}
	return r.observe(0)
}

func (r *queryRun) finish(ended bool) {
	if !ended {
		r.c.conn.setStalled(false)
		gate.mu.Lock()
		gate.on = false
		gate.mu.Unlock()
		close(gate.release)
		// let the loop of this trace run out before the next trace installs its gate
		poll(queryTimeout+3*time.Second, func() bool { return r.hasDone() || r.done })
	}
	r.c.close()
	r.e.close()
}

func runQuery(scheds []h.Schedule, tr *h.Tracer) {
	installGate()
	for _, s := range scheds {
		var lines []map[string]interface{}
		for attempt := 0; ; attempt++ {
			lines = lines[:0]
			r := newQueryRun()
			ended := false
			for _, st := range s.Steps {
				lines = append(lines, r.step(st))
				if st.A() == "end" {
					ended = true
					break
				}
			}
			r.finish(ended)
			if !r.late {
				break
			}
			if attempt >= 4 {
				// the machine is too slow for this schedule right now: not executed as written, so not recorded
				fmt.Printf("skipped-late %d\n", s.ID)
				lines = nil
				break
			}
		}
		if lines == nil {
			continue
		}
		tr.Reset(s.ID, nil)
		for i, o := range lines {
			tr.Step(s.Steps[i], o)
		}
	}
}
