// C25 driver, connection part: requests (stream, monitor, stop, members, query) interleaved with events
// reaching the agent (user events, member notifications, queries from the network) on one
// connection of a real AgentIPC; records every frame the raw client receives.
package main

import (
	"fmt"
	"os"
	"runtime"
	"strconv"
	"strings"
	"time"

	"github.com/hashicorp/memberlist"

	"verif/harness/internal/h"
	"verif/harness/internal/quiet"
)

var filterStrings = map[int]string{1: "*", 2: "user", 3: "user:u1", 4: "member-join", 5: "query", 6: "query:q1",
	7: "user:u1,member-failed", 8: "bogus"}

type streamRun struct {
	e            *env
	c            *client
	nodes        map[int]*memberlist.Node
	qlt          uint64
	hand         int
	logh         int
	sawDecodeErr bool
}

// sendRequest puts one request (header and body) of the connection part on the wire.
func (r *streamRun) sendRequest(st h.Step) {
	seq := uint64(st.Int("seq"))
	switch st.A() {
	case "stream":
		_ = r.c.header("stream", seq)
		_ = r.c.send(map[string]interface{}{"Type": filterStrings[st.Int("f")]})
	case "monitor":
		_ = r.c.header("monitor", seq)
		_ = r.c.send(map[string]interface{}{"LogLevel": "debug"})
	case "stop":
		_ = r.c.header("stop", seq)
		_ = r.c.send(map[string]interface{}{"Stop": uint64(st.Int("stop"))})
	case "members":
		_ = r.c.header("members", seq)
	default:
		h.Die("stream: unknown request %q", st.A())
	}
}

// serverSenders counts the server goroutines that are inside IPCClient.Send (writing to the pipe or waiting
// for the connection's write lock).
func serverSenders() int {
	buf := make([]byte, 1<<20)
	n := runtime.Stack(buf, true)
	c := 0
	for _, g := range strings.Split(string(buf[:n]), "\n\n") {
		if strings.Contains(g, "(*IPCClient).Send") {
			c++
		}
	}
	return c
}

func newStreamRun() *streamRun {
	e, err := newEnv(envOpts{name: "self"})
	if err != nil {
		h.Die("env: %v", err)
	}
	c, err := dial(e)
	if err != nil {
		h.Die("dial: %v", err)
	}
	if err := c.handshake(100000); err != nil {
		h.Die("handshake: %v", err)
	}
	return &streamRun{e: e, c: c, nodes: map[int]*memberlist.Node{}, qlt: 1000,
		hand: e.ag.VerifHandlers(), logh: e.ipc.VerifLogHandlers()}
}

func atoi(s string) int { n, _ := strconv.Atoi(s); return n }

func nameID(s string) int {
	if len(s) >= 2 {
		return atoi(s[1:])
	}
	return 0
}

// emit makes one event reach the agent through the real paths.
func (r *streamRun) emit(k string, n, id int) {
	switch k {
	case "user":
		if err := r.e.ag.UserEvent(fmt.Sprintf("u%d", n), []byte(strconv.Itoa(id)), false); err != nil {
			h.Die("UserEvent: %v", err)
		}
	case "member-join":
		tr := r.e.net.NewTransport(fmt.Sprintf("n%d", id))
		nd := r.e.mlNode(fmt.Sprintf("n%d", id), tr, nil)
		r.nodes[id] = nd
		r.e.evd.NotifyJoin(nd)
	case "member-failed":
		nd := r.nodes[id]
		if nd == nil {
			h.Die("member-failed for unknown node %d", id)
		}
		r.e.evd.NotifyLeave(nd)
	case "query":
		r.qlt++
		r.e.del.NotifyMsg(quiet.Encode(quiet.TQuery, quiet.MsgQuery{LTime: r.qlt, ID: uint32(id), Addr: []byte{127, 0, 9, 9}, Port: 7946,
			SourceNode: "far", Timeout: 20 * time.Millisecond, Name: fmt.Sprintf("q%d", n), Payload: []byte(strconv.Itoa(id))}))
	default:
		h.Die("emit: unknown event kind %q", k)
	}
}

func (r *streamRun) nonLogFrames() int {
	r.c.mu.Lock()
	defer r.c.mu.Unlock()
	n := 0
	for _, f := range r.c.frames {
		if f.Kind != "log" {
			n++
		}
	}
	return n
}

func (r *streamRun) hasDone(seq uint64) bool {
	r.c.mu.Lock()
	defer r.c.mu.Unlock()
	for _, f := range r.c.frames {
		if f.Kind == "qrec" && f.Seq == seq && toStr(f.Body["Type"]) == "done" {
			return true
		}
	}
	return false
}

func (r *streamRun) observe() map[string]interface{} {
	rep := []map[string]interface{}{}
	recs := []map[string]interface{}{}
	logs := map[int]bool{}
	garbled := 0
	r.c.mu.Lock()
	if r.c.decodeErr != "" && !r.sawDecodeErr {
		r.sawDecodeErr = true
		garbled++
	}
	r.c.mu.Unlock()
	for _, f := range r.c.take() {
		rec := func(k string, n, id int) {
			recs = append(recs, map[string]interface{}{"seq": int(f.Seq), "k": k, "n": n, "id": id})
		}
		switch f.Kind {
		case "orphan":
			garbled++
		case "log":
			logs[int(f.Seq)] = true
		case "uev":
			rec(toStr(f.Body["Event"]), nameID(toStr(f.Body["Name"])), atoi(toStr(f.Body["Payload"])))
		case "qev":
			rec(toStr(f.Body["Event"]), nameID(toStr(f.Body["Name"])), atoi(toStr(f.Body["Payload"])))
		case "mev":
			id := 0
			if ms, _ := f.Body["Members"].([]interface{}); len(ms) == 1 {
				m, _ := ms[0].(map[string]interface{})
				id = nameID(toStr(m["Name"]))
			}
			rec(toStr(f.Body["Event"]), 0, id)
		case "qrec":
			n := 0
			if toStr(f.Body["From"]) != "" {
				n = 1
			}
			rec(toStr(f.Body["Type"]), n, 0)
		default:
			er := 0
			if f.Err != "" {
				er = 1
			}
			rep = append(rep, map[string]interface{}{"seq": int(f.Seq), "err": er, "kind": f.Kind})
		}
	}
	ls := []int{}
	for s := range logs {
		ls = append(ls, s)
	}
	return map[string]interface{}{"rep": rep, "recs": recs, "logs": ls, "closed": r.c.isClosed(), "garbled": garbled}
}

func (r *streamRun) step(st h.Step) map[string]interface{} {
	seq := uint64(0)
	evBase, evWant := r.e.evrec.count(), 0
	if st.A() != "emit" && st.A() != "burst" && st.A() != "close" && st.A() != "slow" {
		seq = uint64(st.Int("seq"))
	}
	switch st.A() {
	case "stream", "monitor", "stop", "members":
		r.sendRequest(st)
	case "slow":
		// SLOW READER: nothing is read while the events reach the agent and a request is sent; every sender of
		// the connection (stream goroutines, the request handler) is then inside Send while a write is in flight
		r.c.conn.setStalled(true)
		for _, x := range st.List("evs") {
			ev := h.Step(x.(map[string]interface{}))
			r.emit(ev.Str("k"), ev.Int("n"), ev.Int("id"))
			evWant++
		}
		if !poll(5*time.Second, func() bool { return r.e.evrec.count() >= evBase+evWant }) {
			fmt.Fprintf(os.Stderr, "driver: stream: the agent dispatched %d of %d events (recorded as observed)\n", r.e.evrec.count()-evBase, evWant)
		}
		evWant = 0
		before := serverSenders()
		r.sendRequest(st.Rec("req"))
		// the handler has reached Send (bounded wait; the monitors judge whatever happens)
		poll(300*time.Millisecond, func() bool { return serverSenders() > before })
		r.c.conn.setStalled(false)
	case "query":
		_ = r.c.header("query", seq)
		_ = r.c.send(map[string]interface{}{"Name": fmt.Sprintf("q%d", st.Int("n")), "Payload": []byte(strconv.Itoa(st.Int("id"))),
			"Timeout": int64(15 * time.Millisecond), "RequestAck": false})
		evWant = 1 // the agent sees its own query as an event
	case "emit":
		for _, x := range st.List("evs") {
			ev := h.Step(x.(map[string]interface{}))
			r.emit(ev.Str("k"), ev.Int("n"), ev.Int("id"))
			evWant++
		}
	case "burst":
		// slow client: nothing is read while m events reach the agent
		m := st.Int("m")
		base := r.e.evrec.count()
		r.c.conn.setStalled(true)
		for i := 1; i <= m; i++ {
			r.emit("user", st.Int("n"), st.Int("id")+i)
		}
		if !poll(10*time.Second, func() bool { return r.e.evrec.count() >= base+m }) {
			fmt.Fprintf(os.Stderr, "driver: burst: the agent dispatched %d of %d events (recorded as observed)\n", r.e.evrec.count()-base, m)
		}
		time.Sleep(2 * time.Millisecond)
		r.c.conn.setStalled(false)
		// read until nothing has arrived for a while (the count is not known in advance)
		last, lastT := -1, time.Now()
		poll(10*time.Second, func() bool {
			n := r.c.nframes()
			if n != last {
				last, lastT = n, time.Now()
				return false
			}
			return time.Since(lastT) > 30*time.Millisecond
		})
		return r.observe()
	case "close":
		r.c.close()
		poll(5*time.Second, func() bool { return r.e.ipc.VerifClients() == 0 })
		return r.observe()
	default:
		h.Die("stream: unknown action %q", st.A())
	}
	w := st.Int("w")
	// the events of this step have been dispatched by the agent's event loop (ground truth recorder): a stream
	// registered by a later step cannot see them
	// (a shortfall is not a harness fault: e.g. a request the server never processed because the connection is
	// wedged; it is recorded as observed and the monitors judge the frames)
	if evWant > 0 && !poll(3*time.Second, func() bool { return r.e.evrec.count() >= evBase+evWant || r.c.isClosed() }) {
		fmt.Fprintf(os.Stderr, "driver: stream: the agent dispatched %d of %d events (recorded as observed)\n", r.e.evrec.count()-evBase, evWant)
	}
	poll(2*time.Second, func() bool { return r.nonLogFrames() >= w || r.c.isClosed() })
	if st.A() == "query" {
		// the query stream ends with its done record (zero-value records may precede it)
		poll(3*time.Second, func() bool { return r.hasDone(seq) || r.c.isClosed() })
	}
	if st.Int("reg") == 1 {
		// the handler is registered after the reply has been sent (deferred): wait for it
		poll(2*time.Second, func() bool { return r.e.ag.VerifHandlers() > r.hand || r.e.ipc.VerifLogHandlers() > r.logh })
	}
	r.hand, r.logh = r.e.ag.VerifHandlers(), r.e.ipc.VerifLogHandlers()
	return r.observe()
}

func runStreams(scheds []h.Schedule, tr *h.Tracer) {
	for _, s := range scheds {
		r := newStreamRun()
		tr.Reset(s.ID, nil)
		closed := false
		for _, st := range s.Steps {
			tr.Step(st, r.step(st))
			if st.A() == "close" {
				closed = true
				break
			}
		}
		if !closed {
			r.c.close()
		}
		r.e.close()
	}
}

var _ = strings.HasPrefix
