// C30 driver: `tags` RPCs on a real agent that has a tags file; after every edit the effective tags
// (Serf LocalMember) are compared with what the agent's own loader (agent.Create with the same tags
// file) restores.
package main

import (
	"encoding/json"
	"fmt"
	"math/rand"
	"os"
	"path/filepath"
	"strings"
	"time"

	"github.com/hashicorp/serf/cmd/serf/command/agent"

	"verif/harness/internal/h"
	"verif/harness/internal/quiet"
)

// concrete keys: all two bytes long (the model's size formula assumes 3 encoded bytes per key)
var keyPool = [][]string{
	{"k1", "k2", "k3"},
	{"ü", "\"=", "k3"},
	{"a=", "é", "\\/"},
}

// filler alphabets for long values (valid UTF-8, JSON-escaped characters included)
var fillers = []string{"x", "é", "<&>", " z", "\"\\"}

type tagsRun struct {
	e     *env
	c     *client
	keys  []string
	vals  map[int]string // value id -> concrete
	byVal map[string]int
	file  string
	seq   uint64
}

func makeValue(id int, rng *rand.Rand) string {
	small := []string{"x", "y", "\"", "<", "\n", "7"}
	switch id {
	case 1:
		return small[rng.Intn(3)*2]
	case 2:
		return small[rng.Intn(3)*2+1]
	}
	n := 249
	if id == 4 {
		n = 250
	}
	f := fillers[rng.Intn(len(fillers))]
	s := fmt.Sprintf("v%d:", id)
	for len(s)+len(f) <= n {
		s += f
	}
	s += strings.Repeat("_", n-len(s))
	return s
}

func newTagsRun(id int, rng *rand.Rand) *tagsRun {
	r := &tagsRun{vals: map[int]string{}, byVal: map[string]int{}}
	r.keys = keyPool[rng.Intn(len(keyPool))]
	for v := 1; v <= 4; v++ {
		r.vals[v] = makeValue(v, rng)
		r.byVal[r.vals[v]] = v
	}
	r.file = filepath.Join(scratchDir, fmt.Sprintf("tags-%d-%d.json", os.Getpid(), id))
	// the tags file the agent starts from: {key1: value 1}, written the way the agent writes it
	init, _ := json.MarshalIndent(map[string]string{r.keys[0]: r.vals[1]}, "", "  ")
	if err := os.WriteFile(r.file, init, 0600); err != nil {
		h.Die("tags file: %v", err)
	}
	e, err := newEnv(envOpts{name: "self", tagsFile: r.file})
	if err != nil {
		h.Die("env: %v", err)
	}
	r.e = e
	c, err := dial(e)
	if err != nil {
		h.Die("dial: %v", err)
	}
	r.c = c
	r.seq = 1
	if err := c.handshake(r.seq); err != nil {
		h.Die("handshake: %v", err)
	}
	// start-up sanity: the loader restored {key1: value 1}
	t := e.ag.Serf().LocalMember().Tags
	if len(t) != 1 || t[r.keys[0]] != r.vals[1] {
		h.Die("tags: agent started with %v", t)
	}
	return r
}

func (r *tagsRun) abstract(m map[string]string) []int {
	out := make([]int, len(r.keys))
	known := 0
	for i, k := range r.keys {
		if v, ok := m[k]; ok {
			known++
			if id, ok := r.byVal[v]; ok {
				out[i] = id
			} else {
				out[i] = 99
			}
		}
	}
	if known != len(m) { // a key outside the domain
		out[0] = 98
	}
	return out
}

// reload runs the agent's own loader on the tags file: agent.Create with a fresh configuration.
func (r *tagsRun) reload() (map[string]string, bool) {
	nt := quiet.NewNet()
	tr := nt.NewTransport("reload")
	lb := &quiet.SyncBuf{}
	conf := quietSerfConfig("reload", tr, lb)
	ac := agent.DefaultConfig()
	ac.NodeName = "reload"
	ac.TagsFile = r.file
	if _, err := agent.Create(ac, conf, lb); err != nil {
		return nil, false
	}
	return conf.Tags, true
}

func (r *tagsRun) step(st h.Step) map[string]interface{} {
	set, del := st.Ints("set"), st.Ints("del")
	tags := map[string]string{}
	dels := []string{}
	for i, k := range r.keys {
		if i < len(set) && set[i] != 0 {
			tags[k] = r.vals[set[i]]
		}
		if i < len(del) && del[i] == 1 {
			dels = append(dels, k)
		}
	}
	r.seq++
	f, err := r.c.call("tags", r.seq, map[string]interface{}{"Tags": tags, "DeleteTags": dels})
	if err != nil {
		h.Die("tags: no reply: %v", err)
	}
	er := 0
	if f.Err != "" {
		er = 1
	}
	eff := r.e.ag.Serf().LocalMember().Tags
	loaded, ok := r.reload()
	return map[string]interface{}{"err": er, "tags": r.abstract(eff), "file": r.abstract(loaded), "fileok": ok,
		"cfgeq": sameTags(eff, r.e.ag.SerfConfig().Tags)}
}

func runTags(scheds []h.Schedule, tr *h.Tracer) {
	for _, s := range scheds {
		rng := rand.New(rand.NewSource(h.Seed()*104729 + int64(s.ID)))
		r := newTagsRun(s.ID, rng)
		tr.Reset(s.ID, nil)
		for _, st := range s.Steps {
			tr.Step(st, r.step(st))
		}
		r.c.close()
		r.e.close()
		_ = os.Remove(r.file)
	}
}

var _ = time.Now
