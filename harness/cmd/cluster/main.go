// Driver for the cluster family (C02 agreement, C03/C02 step clauses on multi-node histories):
// NN real, quiet Serf nodes; gossip delivery, push/pull, memberlist notifications and lifecycle
// operations are executed exactly in the order of a TLC-generated schedule; afterwards the driver
// closes the history (sync phase: every delivery, merge and truthful notification until nothing
// changes) and declares "quiet".  Every step is logged with every node's projected state.
package main

import (
	"flag"
	"fmt"
	"math/rand"
	"sort"
	"strings"
	"time"

	"github.com/hashicorp/serf/serf"

	"verif/harness/internal/h"
	"verif/harness/internal/quiet"
)

var pool = []string{"node-a", "node b", "n\tc", "alive: x", "ünï", "#hash", "leave", "a", "A", "node-a ", "x/y:1"}

type msg [4]int // ty, node, lt, prune

type cluster struct {
	net     *quiet.Net
	nodes   []*quiet.Node
	names   []string
	up      []bool
	cached  []map[string]interface{} // last observation of a node (kept after it went down)
	refutes []int                    // refutation log lines seen so far per node
	ml      []map[int]bool
	linked  []map[int]bool
	poolSet map[msg]bool
	leaving map[int]chan struct{} // node blocked inside Serf.Leave -> closed when the call returned
	formed  bool
}

func (c *cluster) id(name string) int {
	for i, n := range c.names {
		if n == name {
			return i
		}
	}
	return 99
}

func newCluster(nn int, formed bool, rng *rand.Rand) *cluster {
	c := &cluster{net: quiet.NewNet(), formed: formed, poolSet: map[msg]bool{}, leaving: map[int]chan struct{}{}}
	p := rng.Perm(len(pool))
	for i := 0; i < nn; i++ {
		c.names = append(c.names, pool[p[i]])
	}
	for i := 0; i < nn; i++ {
		nd, err := quiet.NewNode(c.net, c.names[i], nil, func(cf *serf.Config) {
			cf.ValidateNodeNames = false
			cf.BroadcastTimeout = 3 * time.Second // Serf.Leave stays blocked until the harness hands its broadcast out (or 3 s pass)
		})
		if err != nil {
			h.Die("create: %v", err)
		}
		c.nodes = append(c.nodes, nd)
		c.up = append(c.up, true)
		c.cached = append(c.cached, nil)
		c.refutes = append(c.refutes, 0)
		c.ml = append(c.ml, map[int]bool{})
		c.linked = append(c.linked, map[int]bool{})
	}
	if formed {
		// every node broadcasts its join at time 1, everybody learns everybody at time 1
		for i := 0; i < nn; i++ {
			_ = c.nodes[i].Serf.VerifBroadcastJoin()
			c.nodes[i].Drain()
			c.poolSet[msg{1, i, 1, 0}] = true
		}
		for n := 0; n < nn; n++ {
			for x := 0; x < nn; x++ {
				if x == n {
					continue
				}
				c.nodes[n].Ev.NotifyJoin(c.nodes[n].MLNode(c.names[x], c.nodes[x].Tr, nil))
				c.nodes[n].Del.NotifyMsg(quiet.Encode(quiet.TJoin, quiet.MsgJoin{LTime: 1, Node: c.names[x]}))
				c.nodes[n].Drain()
				c.ml[n][x] = true
				c.linked[n][x] = true
			}
		}
	}
	return c
}

func (c *cluster) summarize(raw [][]byte) []msg {
	out := []msg{}
	for _, b := range raw {
		s := quiet.Summarize(b)
		switch s.T {
		case quiet.TJoin:
			out = append(out, msg{1, c.id(s.Node), int(s.LTime), 0})
		case quiet.TLeave:
			p := 0
			if s.Prune {
				p = 1
			}
			out = append(out, msg{2, c.id(s.Node), int(s.LTime), p})
		default:
			out = append(out, msg{9, 0, 0, 0})
		}
	}
	return out
}

func sortMsgs(m []msg) [][]int {
	sort.Slice(m, func(i, j int) bool {
		for k := 0; k < 4; k++ {
			if m[i][k] != m[j][k] {
				return m[i][k] < m[j][k]
			}
		}
		return false
	})
	out := [][]int{}
	for _, x := range m {
		out = append(out, []int{x[0], x[1], x[2], x[3]})
	}
	return out
}

func (c *cluster) observeNode(i int) map[string]interface{} {
	if !c.up[i] && c.cached[i] != nil {
		o := map[string]interface{}{}
		for k, v := range c.cached[i] {
			o[k] = v
		}
		o["up"] = false
		return o
	}
	nn := len(c.names)
	d := c.nodes[i].Serf.VerifDump()
	mem := make([]map[string]int, nn)
	ints := make([]map[string]int, nn)
	for k := range mem {
		mem[k] = map[string]int{"st": 0, "lt": 0}
		ints[k] = map[string]int{"ty": 0, "lt": 0}
	}
	for _, m := range d.Members {
		if k := c.id(m.Name); k < nn {
			mem[k] = map[string]int{"st": m.Status, "lt": int(m.LTime)}
		}
	}
	for _, in := range d.Intents {
		if k := c.id(in.Name); k < nn {
			ty := 1
			if in.Type == 0 {
				ty = 2
			}
			ints[k] = map[string]int{"ty": ty, "lt": int(in.LTime)}
		}
	}
	ids := func(names []string) []int {
		out := []int{}
		for _, n := range names {
			out = append(out, c.id(n))
		}
		return out
	}
	o := map[string]interface{}{"up": true, "clock": int(d.Clock), "sstate": d.State, "mem": mem,
		"failed": ids(d.Failed), "left": ids(d.Left), "intents": ints}
	c.cached[i] = o
	return o
}

func (c *cluster) observe(q []msg) map[string]interface{} {
	nodes := []interface{}{}
	for i := range c.nodes {
		nodes = append(nodes, c.observeNode(i))
	}
	for _, m := range q {
		c.poolSet[m] = true
	}
	return map[string]interface{}{"nodes": nodes, "q": sortMsgs(q)}
}

// newRefutes: refutation goroutines node i spawned since the last call (serf logs the decision
// synchronously inside the handler, before the `go` statement).
func (c *cluster) newRefutes(i int) int {
	n := strings.Count(c.nodes[i].LogBuf.String(), "Refuting an older leave intent")
	d := n - c.refutes[i]
	c.refutes[i] = n
	return d
}

// collect drains node i's queues, waiting (bounded) for w refutation joins to show up.
func (c *cluster) collect(i, w int) []msg {
	got := c.summarize(c.nodes[i].Drain())
	deadline := time.Now().Add(2 * time.Second)
	count := func() int {
		k := 0
		for _, m := range got {
			if m[0] == 1 && m[1] == i {
				k++
			}
		}
		return k
	}
	for count() < w && time.Now().Before(deadline) {
		time.Sleep(200 * time.Microsecond)
		got = append(got, c.summarize(c.nodes[i].Drain())...)
	}
	return got
}

func (c *cluster) pump(i int, f func()) []msg {
	done := make(chan struct{})
	go func() { f(); close(done) }()
	var got []msg
	for {
		select {
		case <-done:
			return append(got, c.summarize(c.nodes[i].Drain())...)
		default:
			got = append(got, c.summarize(c.nodes[i].Drain())...)
			time.Sleep(100 * time.Microsecond)
		}
	}
}

// release hands out node n's queued broadcasts until its blocked Serf.Leave call has returned.
func (c *cluster) release(n int, done chan struct{}) []msg {
	var got []msg
	for {
		select {
		case <-done:
			delete(c.leaving, n)
			return append(got, c.summarize(c.nodes[n].Drain())...)
		default:
			got = append(got, c.summarize(c.nodes[n].Drain())...)
			time.Sleep(100 * time.Microsecond)
		}
	}
}

func (c *cluster) sstate(i int) int {
	if c.cached[i] == nil {
		return 0
	}
	return c.cached[i]["sstate"].(int)
}

func (c *cluster) truthful(x int) bool { return c.up[x] && c.sstate(x) < 2 }

// step executes one action; returns the action record as executed (w observed) and the observation.
func (c *cluster) step(st h.Step) (h.Step, map[string]interface{}) {
	act := h.Step{}
	for k, v := range st {
		act[k] = v
	}
	var q []msg
	switch st.A() {
	case "deliver":
		n := st.Int("n")
		name := c.names[st.Int("x")]
		lt := uint64(st.Int("lt"))
		if st.Int("ty") == 1 {
			c.nodes[n].Del.NotifyMsg(quiet.Encode(quiet.TJoin, quiet.MsgJoin{LTime: lt, Node: name}))
		} else {
			c.nodes[n].Del.NotifyMsg(quiet.Encode(quiet.TLeave, quiet.MsgLeave{LTime: lt, Node: name, Prune: st.Int("prune") == 1}))
		}
		w := c.newRefutes(n)
		act["w"] = w
		q = c.collect(n, w)
	case "pushpull":
		n, m := st.Int("n"), st.Int("m")
		buf := c.nodes[m].Del.LocalState(false)
		c.nodes[n].Del.MergeRemoteState(buf, false)
		w := c.newRefutes(n)
		act["w"] = w
		q = c.collect(n, w)
	case "mljoin":
		n, x := st.Int("n"), st.Int("x")
		c.nodes[n].Ev.NotifyJoin(c.nodes[n].MLNode(c.names[x], c.nodes[x].Tr, nil))
		c.ml[n][x] = true
		act["w"] = c.newRefutes(n)
		q = c.collect(n, 0)
	case "mlleave":
		n, x := st.Int("n"), st.Int("x")
		c.nodes[n].Ev.NotifyLeave(c.nodes[n].MLNode(c.names[x], c.nodes[x].Tr, nil))
		delete(c.ml[n], x)
		act["w"] = c.newRefutes(n)
		q = c.collect(n, 0)
	case "forceleave":
		n := st.Int("n")
		name := c.names[st.Int("x")]
		q = c.pump(n, func() {
			if st.Int("prune") == 1 {
				_ = c.nodes[n].Serf.RemoveFailedNodePrune(name)
			} else {
				_ = c.nodes[n].Serf.RemoveFailedNode(name)
			}
		})
		w := c.newRefutes(n)
		act["w"] = w
		if w > 0 {
			q = append(q, c.collect(n, w)...)
		}
	case "leave":
		n := st.Int("n")
		q = c.pump(n, func() { _ = c.nodes[n].Serf.Leave() })
	case "leave1":
		// the call blocks after queueing its broadcast; nothing is drained so it stays blocked
		n := st.Int("n")
		done := make(chan struct{})
		c.leaving[n] = done
		go func() { _ = c.nodes[n].Serf.Leave(); close(done) }()
		deadline := time.Now().Add(2 * time.Second)
		for time.Now().Before(deadline) {
			if c.nodes[n].Serf.State() != serf.SerfAlive && c.nodes[n].Serf.Stats()["intent_queue"] != "0" {
				break
			}
			select {
			case <-done: // ran straight through (nobody alive): the model will not conform, which is reported
				deadline = time.Now()
			default:
			}
			time.Sleep(200 * time.Microsecond)
		}
	case "leave2":
		n := st.Int("n")
		done := c.leaving[n]
		if done == nil {
			h.Die("leave2 without leave1 on node %d", n)
		}
		q = c.release(n, done)
	case "crash":
		n := st.Int("n")
		c.observeNode(n) // cache the last state
		_ = c.nodes[n].Serf.Shutdown()
		c.up[n] = false
	case "rejoin":
		// the crashed node comes back under the same name and address with empty state and joins m at once
		n := st.Int("n")
		nd, err := quiet.NewNode(c.net, c.names[n], c.net.Reuse(c.nodes[n].Tr), func(cf *serf.Config) {
			cf.ValidateNodeNames = false
			cf.BroadcastTimeout = 3 * time.Second
		})
		if err != nil {
			h.Die("restart: %v", err)
		}
		c.nodes[n] = nd
		c.up[n] = true
		c.cached[n] = nil
		c.refutes[n] = 0
		c.ml[n] = map[int]bool{}
		fallthrough
	case "join":
		n, m := st.Int("n"), st.Int("m")
		_, err := c.nodes[n].Serf.Join([]string{c.nodes[m].Tr.Addr()}, false)
		if err != nil {
			h.Die("join failed: %v", err)
		}
		// the accepting side merges in its own goroutine: wait (bounded) until it lists the joiner alive
		for deadline := time.Now().Add(2 * time.Second); time.Now().Before(deadline); time.Sleep(200 * time.Microsecond) {
			ok := false
			for _, mem := range c.nodes[m].Serf.Members() {
				if mem.Name == c.names[n] && mem.Status == serf.StatusAlive {
					ok = true
				}
			}
			if ok {
				break
			}
		}
		wn, wm := c.newRefutes(n), c.newRefutes(m)
		q = append(c.collect(n, wn+1), c.collect(m, wm)...)
		grp := map[int]bool{n: true, m: true}
		for x := range c.linked[n] {
			grp[x] = true
		}
		for x := range c.linked[m] {
			grp[x] = true
		}
		for a := range grp {
			for b := range grp {
				if a != b {
					c.linked[a][b] = true
				}
			}
		}
		c.ml[n][m] = true
		c.ml[m][n] = true
	case "sync", "quiet", "synced":
	default:
		h.Die("unknown action %q", st.A())
	}
	return act, c.observe(q)
}

// closure: the sync phase, executed for real until a whole round changes nothing.
func (c *cluster) closure(emit func(h.Step), deliver bool) bool {
	nn := len(c.nodes)
	// views: statuses and lists (status times keep growing through push/pull of left members)
	fingerprint := func() string {
		var sb strings.Builder
		for i := range c.nodes {
			o := c.observeNode(i)
			fmt.Fprint(&sb, o["up"], o["sstate"], "|")
			for _, m := range o["mem"].([]map[string]int) {
				fmt.Fprint(&sb, m["st"], ",")
			}
			f := append([]int(nil), o["failed"].([]int)...)
			l := append([]int(nil), o["left"].([]int)...)
			sort.Ints(f)
			sort.Ints(l)
			fmt.Fprint(&sb, f, l, ";")
		}
		return sb.String()
	}
	stable := 0
	for round := 0; round < 14; round++ {
		before := fingerprint()
		queued := false
		do := func(st h.Step) {
			pre := len(c.poolSet)
			emit(st)
			if len(c.poolSet) != pre {
				queued = true
			}
		}
		for n := 0; n < nn; n++ {
			if c.up[n] && c.sstate(n) == 1 {
				do(h.Step{"a": "leave2", "n": n})
			}
		}
		for n := 0; n < nn; n++ {
			if !c.up[n] {
				continue
			}
			for x := 0; x < nn; x++ {
				if x == n || !c.linked[n][x] {
					continue
				}
				if c.ml[n][x] && !c.truthful(x) {
					do(h.Step{"a": "mlleave", "n": n, "x": x, "w": 0})
				} else if !c.ml[n][x] && c.truthful(x) {
					do(h.Step{"a": "mljoin", "n": n, "x": x, "w": 0})
				}
			}
		}
		var msgs []msg
		for m := range c.poolSet {
			msgs = append(msgs, m)
		}
		sort.Slice(msgs, func(i, j int) bool {
			for k := 0; k < 4; k++ {
				if msgs[i][k] != msgs[j][k] {
					return msgs[i][k] < msgs[j][k]
				}
			}
			return false
		})
		for n := 0; n < nn; n++ {
			if !c.up[n] {
				continue
			}
			for _, m := range msgs {
				if m[0] == 9 || !deliver {
					continue
				}
				do(h.Step{"a": "deliver", "n": n, "ty": m[0], "x": m[1], "lt": m[2], "prune": m[3], "w": 0})
			}
			for m := 0; m < nn; m++ {
				if m != n && c.up[m] && c.linked[n][m] {
					do(h.Step{"a": "pushpull", "n": n, "m": m, "w": 0})
				}
			}
		}
		if !queued && fingerprint() == before {
			stable++
			if stable >= 2 { // two full rounds without any view change or new message
				return true
			}
		} else {
			stable = 0
		}
	}
	return false
}

func main() {
	in := flag.String("in", "", "schedules ndjson")
	out := flag.String("out", "", "trace ndjson")
	nn := flag.Int("nn", 3, "nodes")
	formed := flag.Bool("formed", true, "start from a formed cluster")
	flag.Parse()
	scheds, err := h.ReadSchedules(*in)
	if err != nil {
		h.Die("%v", err)
	}
	tr, err := h.NewTracer(*out)
	if err != nil {
		h.Die("%v", err)
	}
	notQuiet := 0
	for _, s := range scheds {
		rng := rand.New(rand.NewSource(h.Seed()*1000003 + int64(s.ID)))
		c := newCluster(*nn, *formed, rng)
		tr.Reset(s.ID, nil)
		emit := func(st h.Step) {
			act, obs := c.step(st)
			tr.Step(act, obs)
		}
		synced := false
		for _, st := range s.Steps {
			if st.A() == "quiet" || st.A() == "synced" {
				continue
			}
			if st.A() == "sync" {
				synced = true
			}
			emit(st)
		}
		if !synced {
			emit(h.Step{"a": "sync"})
		}
		// first with every undelivered gossip message lost for good (state sync only), then with everything delivered
		if c.closure(emit, false) {
			emit(h.Step{"a": "synced"})
		}
		if c.closure(emit, true) {
			emit(h.Step{"a": "quiet"})
		} else {
			notQuiet++
		}
		for i, nd := range c.nodes {
			if c.up[i] {
				_ = nd.Serf.Shutdown()
			}
		}
	}
	if err := tr.Close(); err != nil {
		h.Die("%v", err)
	}
	fmt.Printf("{\"not_quiet\": %d}\n", notQuiet)
}
