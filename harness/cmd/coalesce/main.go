// Driver for the coalescer family (C17, C18): executes TLC-generated schedules on the real
// memberEventCoalescer / userEventCoalescer / coalesceLoop and records what they put on the channel.
package main

import (
	"flag"
	"fmt"
	"math/rand"
	"sort"
	"strconv"
	"time"

	"github.com/hashicorp/serf/serf"

	"verif/harness/internal/h"
)

var kinds = []serf.EventType{0, serf.EventMemberJoin, serf.EventMemberLeave, serf.EventMemberFailed,
	serf.EventMemberUpdate, serf.EventMemberReap}

func kindOf(t serf.EventType) int {
	for i := 1; i < len(kinds); i++ {
		if kinds[i] == t {
			return i
		}
	}
	return 0
}

// hostile-ish concrete names; which abstract name gets which is decided per schedule by the seed
var pool = []string{"node-a", "node b", "n\tc", "alive: x", "ünï", "#hash", "leave", "a", "A", "node-a "}

func pickNames(rng *rand.Rand, n int) []string {
	p := rng.Perm(len(pool))
	out := make([]string, n+1)
	for i := 1; i <= n; i++ {
		out[i] = pool[p[i-1]]
	}
	return out
}

func main() {
	mode := flag.String("mode", "member", "member | user | userloop")
	in := flag.String("in", "", "schedules ndjson")
	out := flag.String("out", "", "trace ndjson")
	nn := flag.Int("n", 2, "number of abstract names")
	flag.Parse()
	scheds, err := h.ReadSchedules(*in)
	if err != nil {
		h.Die("%v", err)
	}
	tr, err := h.NewTracer(*out)
	if err != nil {
		h.Die("%v", err)
	}
	for _, s := range scheds {
		rng := rand.New(rand.NewSource(h.Seed()*1000003 + int64(s.ID)))
		names := pickNames(rng, *nn)
		tr.Reset(s.ID, nil)
		switch *mode {
		case "member":
			runMember(s, names, tr)
		case "user":
			runUser(s, names, tr, false)
		case "userloop":
			runUser(s, names, tr, true)
		default:
			h.Die("bad mode")
		}
	}
	if err := tr.Close(); err != nil {
		h.Die("%v", err)
	}
}

func idx(names []string, name string) int {
	for i := 1; i < len(names); i++ {
		if names[i] == name {
			return i
		}
	}
	return 0
}

func runMember(s h.Schedule, names []string, tr *h.Tracer) {
	c := serf.VerifNewMemberCoalescer()
	for _, st := range s.Steps {
		switch st.A() {
		case "coalesce":
			var ms []serf.Member
			for _, n := range st.Ints("ms") {
				ms = append(ms, serf.Member{Name: names[n]})
			}
			e := serf.MemberEvent{Type: kinds[st.Int("k")], Members: ms}
			if !c.Handle(e) {
				h.Die("member coalescer does not handle %v", e)
			}
			c.Coalesce(e)
			tr.Step(st, map[string]interface{}{"out": [][]int{}})
		case "flush":
			ch := make(chan serf.Event, 1024)
			c.Flush(ch)
			close(ch)
			pairs := [][]int{}
			for ev := range ch {
				me, ok := ev.(serf.MemberEvent)
				if !ok {
					pairs = append(pairs, []int{0, 0})
					continue
				}
				for _, m := range me.Members {
					pairs = append(pairs, []int{idx(names, m.Name), kindOf(me.Type)})
				}
			}
			sort.Slice(pairs, func(i, j int) bool {
				if pairs[i][0] != pairs[j][0] {
					return pairs[i][0] < pairs[j][0]
				}
				return pairs[i][1] < pairs[j][1]
			})
			tr.Step(st, map[string]interface{}{"out": pairs})
		default:
			h.Die("unknown action %q", st.A())
		}
	}
}

func mkEvent(st h.Step, names []string) serf.Event {
	id := st.Int("id")
	switch st.Int("cls") {
	case 1, 2:
		return serf.UserEvent{LTime: serf.LamportTime(st.Int("lt")), Name: names[st.Int("u")],
			Payload: []byte(strconv.Itoa(id)), Coalesce: st.Int("cls") == 1}
	case 3:
		return serf.MemberEvent{Type: serf.EventMemberJoin, Members: []serf.Member{{Name: "id:" + strconv.Itoa(id)}}}
	default:
		return &serf.Query{LTime: serf.LamportTime(st.Int("lt")), Name: names[st.Int("u")], Payload: []byte(strconv.Itoa(id))}
	}
}

// eventID recovers the id a fed event carries; 0 if it is not one of ours or was altered.
func eventID(e serf.Event, names []string) (id int, u int) {
	switch v := e.(type) {
	case serf.UserEvent:
		n, err := strconv.Atoi(string(v.Payload))
		if err != nil {
			return 0, 0
		}
		return n, idx(names, v.Name)
	case serf.MemberEvent:
		if len(v.Members) == 1 && len(v.Members[0].Name) > 3 {
			n, _ := strconv.Atoi(v.Members[0].Name[3:])
			return n, 0
		}
	case *serf.Query:
		n, _ := strconv.Atoi(string(v.Payload))
		return n, idx(names, v.Name)
	}
	return 0, 0
}

type fedRec struct {
	ev serf.Event
}

func sameEvent(a, b serf.Event) bool {
	switch x := a.(type) {
	case serf.UserEvent:
		y, ok := b.(serf.UserEvent)
		return ok && x.LTime == y.LTime && x.Name == y.Name && string(x.Payload) == string(y.Payload) && x.Coalesce == y.Coalesce
	case serf.MemberEvent:
		y, ok := b.(serf.MemberEvent)
		return ok && x.Type == y.Type && len(x.Members) == len(y.Members) && x.Members[0].Name == y.Members[0].Name
	case *serf.Query:
		y, ok := b.(*serf.Query)
		return ok && x == y
	}
	return false
}

func runUser(s h.Schedule, names []string, tr *h.Tracer, loop bool) {
	nu := len(names) - 1
	emptyFl := func() [][]int {
		fl := make([][]int, nu)
		for i := range fl {
			fl[i] = []int{}
		}
		return fl
	}
	fed := map[int]serf.Event{}
	// identify an output event; an event that is not byte-for-byte what was fed counts as id 0
	ident := func(e serf.Event) (int, int) {
		id, u := eventID(e, names)
		if orig, ok := fed[id]; !ok || !sameEvent(orig, e) {
			return 0, u
		}
		return id, u
	}
	if !loop {
		c := serf.VerifNewUserCoalescer()
		for _, st := range s.Steps {
			switch st.A() {
			case "feed":
				e := mkEvent(st, names)
				fed[st.Int("id")] = e
				pass := []int{}
				if !c.Handle(e) { // coalesceLoop: unhandled events go straight to outCh
					id, _ := ident(e)
					pass = append(pass, id)
				} else {
					c.Coalesce(e)
				}
				tr.Step(st, map[string]interface{}{"pass": pass, "fl": emptyFl()})
			case "flush":
				ch := make(chan serf.Event, 4096)
				c.Flush(ch)
				close(ch)
				fl := emptyFl()
				pass := []int{}
				for e := range ch {
					id, u := ident(e)
					if u == 0 {
						pass = append(pass, id)
					} else {
						fl[u-1] = append(fl[u-1], id)
					}
				}
				tr.Step(st, map[string]interface{}{"pass": pass, "fl": fl})
			default:
				h.Die("unknown action %q", st.A())
			}
		}
		return
	}
	// loop mode: the real coalesceLoop with timers that never fire; one flush, at shutdown.
	outCh := make(chan serf.Event, 4096)
	shutdownCh := make(chan struct{})
	inCh := serf.VerifCoalescedEventCh(outCh, shutdownCh, time.Hour, time.Hour, serf.VerifNewUserCoalescer())
	marker := 0
	// everything the loop emitted for the event just fed precedes the marker's pass-through
	sync := func() []serf.Event {
		marker++
		name := fmt.Sprintf("marker-%d", marker)
		inCh <- serf.MemberEvent{Type: serf.EventMemberReap, Members: []serf.Member{{Name: name}}}
		var got []serf.Event
		deadline := time.After(10 * time.Second)
		for {
			select {
			case e := <-outCh:
				if me, ok := e.(serf.MemberEvent); ok && me.Type == serf.EventMemberReap && len(me.Members) == 1 && me.Members[0].Name == name {
					return got
				}
				got = append(got, e)
			case <-deadline:
				h.Die("coalesceLoop did not pass the marker through within 10s")
			}
		}
	}
	for _, st := range s.Steps {
		switch st.A() {
		case "feed":
			e := mkEvent(st, names)
			fed[st.Int("id")] = e
			inCh <- e
			pass := []int{}
			for _, g := range sync() {
				id, _ := ident(g)
				pass = append(pass, id)
			}
			tr.Step(st, map[string]interface{}{"pass": pass, "fl": emptyFl()})
		case "flush":
			close(shutdownCh)
			fl := emptyFl()
			pass := []int{}
			// positive expectations are awaited; the flush itself is a tight loop, so 300ms of
			// silence after the last output ends the collection
			timer := time.NewTimer(150 * time.Millisecond)
		collect:
			for {
				select {
				case e := <-outCh:
					id, u := ident(e)
					if u == 0 {
						pass = append(pass, id)
					} else {
						fl[u-1] = append(fl[u-1], id)
					}
					if !timer.Stop() {
						<-timer.C
					}
					timer.Reset(150 * time.Millisecond)
				case <-timer.C:
					break collect
				}
			}
			tr.Step(st, map[string]interface{}{"pass": pass, "fl": fl})
			return // the loop has exited
		}
	}
	close(shutdownCh)
}
