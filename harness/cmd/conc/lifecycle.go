//go:build c34

// C34: Join / Leave / Shutdown / State of a real quiet serf node under the cooperative scheduler.
package main

import (
	"encoding/json"
	"fmt"
	"strings"
	"time"

	"github.com/hashicorp/serf/serf"

	"verif/harness/internal/concx"
	"verif/harness/internal/h"
	"verif/harness/internal/quiet"
)

type lcOp struct {
	Op string `json:"op"` // join | leave | shutdown | state
}

type lcScen struct {
	Prog [][]lcOp `json:"prog"`
	Peer bool     `json:"peer"` // a second node exists and was joined before the run; join ops target it
}

func classify(err error) string {
	if err == nil {
		return "nil"
	}
	m := err.Error()
	switch {
	case strings.Contains(m, "can't Join after Leave or Shutdown"):
		return "refused"
	case strings.Contains(m, "Leave already in progress"):
		return "inprogress"
	case strings.Contains(m, "Leave called after Shutdown"):
		return "aftershutdown"
	}
	return "other"
}

func init() {
	builders["C34"] = func(raw json.RawMessage) concx.Scenario {
		var sc lcScen
		if err := json.Unmarshal(raw, &sc); err != nil {
			h.Die("bad C34 scenario: %v", err)
		}
		noop := func(string) {}
		fast := func(c *serf.Config) {
			c.BroadcastTimeout = 2 * time.Millisecond
			c.LeavePropagateDelay = time.Millisecond
		}
		return func(s *concx.S) (func(concx.Step), func(concx.Result)) {
			serf.VerifYield, serf.VerifYieldBlocked = noop, noop
			nw := quiet.NewNet()
			nw.Capture = false
			n1, err := quiet.NewNode(nw, "n1", nil, fast)
			if err != nil {
				h.Die("node: %v", err)
			}
			var n2 *quiet.Node
			target := []string{}
			if sc.Peer {
				n2, err = quiet.NewNode(nw, "n2", nil, fast)
				if err != nil {
					h.Die("node: %v", err)
				}
				target = []string{n2.Tr.Addr()}
				if _, err := n1.Serf.Join(target, false); err != nil {
					h.Die("setup join: %v", err)
				}
			}
			serf.VerifYield, serf.VerifYieldBlocked = s.Yield, s.YieldBlocked
			nt := len(sc.Prog)
			inv := make([]bool, nt+1)
			fin := make([]bool, nt+1)
			ret := make([]string, nt+1)
			rv := make([]int, nt+1)
			do := func(o lcOp) (r string, v int) {
				v = -1
				defer func() {
					if p := recover(); p != nil {
						if strings.Contains(fmt.Sprint(p), "leave after shutdown") {
							r = "panic_ml"
						} else {
							r = "panic_other"
						}
					}
				}()
				switch o.Op {
				case "join":
					_, err := n1.Serf.Join(target, false)
					return classify(err), -1
				case "leave":
					return classify(n1.Serf.Leave()), -1
				case "shutdown":
					return classify(n1.Serf.Shutdown()), -1
				case "state":
					return "nil", int(n1.Serf.State())
				}
				return "other", -1
			}
			for ti, ops := range sc.Prog {
				ti, ops := ti+1, ops
				s.Go(fmt.Sprintf("t%d", ti), func() {
					for _, o := range ops {
						inv[ti] = true
						ret[ti], rv[ti] = do(o)
						fin[ti] = true
						s.Yield("op-done")
					}
				})
			}
			obs := func(t int) map[string]interface{} {
				raw, jl := n1.Serf.VerifStateRaw()
				x := map[string]interface{}{"raw": raw, "jl": jl}
				o := map[string]interface{}{"st": n1.Serf.VerifStateSample(), "inv": false, "fin": false, "ret": "", "rv": -1, "panic": "", "x": x}
				if t > 0 && t <= nt {
					o["inv"], o["fin"] = inv[t], fin[t]
					if fin[t] {
						o["ret"], o["rv"] = ret[t], rv[t]
					}
					inv[t], fin[t] = false, false
				}
				return o
			}
			emit(map[string]interface{}{"k": "reset", "extra": map[string]interface{}{"prog": sc.Prog, "peer": sc.Peer}, "obs": obs(0)})
			s.OnGrant = func(st concx.Step) {
				emit(map[string]interface{}{"k": "grant", "t": st.Thread, "c": st.Choice, "n": st.Alts})
			}
			onStep := func(st concx.Step) {
				emit(map[string]interface{}{"k": "step", "act": stepAct(st), "obs": obs(st.Thread)})
			}
			finish := func(r concx.Result) {
				dead := r.Deadlock || r.Hung || r.Aborted
				emit(map[string]interface{}{"k": "ending"})
				final := obs(0)
				s.Stop()
				serf.VerifYield, serf.VerifYieldBlocked = noop, noop
				if !dead {
					n1.Serf.Shutdown()
				}
				if n2 != nil {
					n2.Serf.Shutdown()
				}
				emit(map[string]interface{}{"k": "end", "act": map[string]interface{}{"a": "end", "dead": r.Deadlock, "hung": r.Hung || r.Aborted}, "obs": final})
			}
			return onStep, finish
		}
	}
}
