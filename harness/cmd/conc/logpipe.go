//go:build c29

// C29: GatedWriter + logWriter of cmd/serf/command/agent under the cooperative scheduler.
package main

import (
	"encoding/json"
	"fmt"
	"strconv"
	"strings"

	"github.com/hashicorp/serf/cmd/serf/command/agent"

	"verif/harness/internal/concx"
	"verif/harness/internal/h"
)

type lpOp struct {
	Op string `json:"op"` // gw: gate write of line v | fl: Flush | rw: ring (logWriter) write of line v | reg: RegisterHandler
	V  int    `json:"v"`
}

type lpScen struct {
	Prog [][]lpOp `json:"prog"`
	N    int      `json:"n"` // ring size
}

// recorder is the underlying output of the gate: it records the lines it receives, in order.
type recorder struct{ out []int }

func lineOf(p []byte) int {
	n, err := strconv.Atoi(strings.TrimSuffix(string(p), "\n"))
	if err != nil {
		return -1
	}
	return n
}

func (r *recorder) Write(p []byte) (int, error) {
	r.out = append(r.out, lineOf(p))
	return len(p), nil
}

// monitor is the attached log handler.
type monitor struct{ got []int }

func (m *monitor) HandleLog(s string) {
	if s == "" {
		m.got = append(m.got, 0)
		return
	}
	m.got = append(m.got, lineOf([]byte(s)))
}

func copyInts(a []int) []int { return append([]int{}, a...) }

func init() {
	builders["C29"] = func(raw json.RawMessage) concx.Scenario {
		var sc lpScen
		if err := json.Unmarshal(raw, &sc); err != nil {
			h.Die("bad C29 scenario: %v", err)
		}
		if sc.N < 1 {
			sc.N = 1
		}
		return func(s *concx.S) (func(concx.Step), func(concx.Result)) {
			rec := &recorder{}
			gate := &agent.GatedWriter{Writer: rec}
			ring := agent.NewLogWriter(sc.N)
			mon := &monitor{}
			agent.VerifYield = s.Yield
			agent.VerifYieldBlocked = s.YieldBlocked
			nt := len(sc.Prog)
			inv := make([]bool, nt+1)
			fin := make([]bool, nt+1)
			for ti, ops := range sc.Prog {
				ti, ops := ti+1, ops
				s.Go(fmt.Sprintf("t%d", ti), func() {
					for _, o := range ops {
						inv[ti] = true
						line := []byte(strconv.Itoa(o.V) + "\n")
						switch o.Op {
						case "gw":
							gate.Write(line)
						case "fl":
							gate.Flush()
						case "rw":
							ring.Write(line)
						case "reg":
							ring.RegisterHandler(mon)
						}
						fin[ti] = true
						s.Yield("op-done")
					}
				})
			}
			obs := func(t int) map[string]interface{} {
				fl, nbuf, lk := gate.VerifPeek()
				logs, idx, nh, rl := ring.VerifPeek()
				li := make([]int, len(logs))
				for i, s := range logs {
					if s != "" {
						li[i] = lineOf([]byte(s))
					}
				}
				x := map[string]interface{}{"fl": fl, "nbuf": nbuf, "lk": lk, "logs": li, "idx": idx, "reg": nh > 0, "rl": rl}
				o := map[string]interface{}{"out": copyInts(rec.out), "mon": copyInts(mon.got), "inv": false, "fin": false, "panic": "", "x": x}
				if t > 0 {
					o["inv"], o["fin"] = inv[t], fin[t]
					inv[t], fin[t] = false, false
				}
				return o
			}
			emit(map[string]interface{}{"k": "reset", "extra": map[string]interface{}{"prog": sc.Prog, "n": sc.N}, "obs": obs(0)})
			s.OnGrant = func(st concx.Step) {
				emit(map[string]interface{}{"k": "grant", "t": st.Thread, "c": st.Choice, "n": st.Alts})
			}
			onStep := func(st concx.Step) {
				emit(map[string]interface{}{"k": "step", "act": stepAct(st), "obs": obs(st.Thread)})
			}
			finish := func(r concx.Result) {
				emit(map[string]interface{}{"k": "ending"})
				agent.VerifYield = func(string) {}
				agent.VerifYieldBlocked = func(string) {}
				emit(map[string]interface{}{"k": "end", "act": map[string]interface{}{"a": "end", "dead": r.Deadlock, "hung": r.Hung || r.Aborted}, "obs": obs(0)})
			}
			return onStep, finish
		}
	}
}
