// Driver of the "conc" family (C28 RPC client, C29 agent log pipe, C34 Serf lifecycle).
//
// Parent mode (default): reads scenarios (NDJSON), explores each under the cooperative scheduler
// (depth-first with a preemption bound, then seeded random schedules) and writes one trace per
// schedule: a reset line, one line per scheduling step with the observed shared state, an end line.
// The schedules themselves run in CHILD processes (same binary, -child): a panic in a goroutine of
// the code under test (the RPC client's listener) kills the process, as it would kill a real
// program.  The child reports every grant before it happens, so when it dies the parent knows which
// thread's step was fatal, writes that step with obs.panic = <message>, and continues the
// exploration from the next depth-first prefix in a fresh child.
package main

import (
	"bufio"
	"bytes"
	"encoding/json"
	"flag"
	"fmt"
	"os"
	"os/exec"
	"regexp"
	"strconv"
	"strings"
	"syscall"

	"verif/harness/internal/concx"
	"verif/harness/internal/h"
)

type scen struct {
	ID   int             `json:"id"`
	Scen json.RawMessage `json:"scen"`
	IDs  []int           `json:"ids"` // replay only: thread ids of the granted steps
}

var recFile *os.File
var childEnv []string

// emit appends one protocol record to the record file with a single write (the process may die at
// any moment; the parent reads the file afterwards).
func emit(rec map[string]interface{}) {
	b, err := json.Marshal(rec)
	if err != nil {
		panic(err)
	}
	b = append(b, '\n')
	if _, err := recFile.Write(b); err != nil {
		panic(err)
	}
}

func stepAct(st concx.Step) map[string]interface{} {
	return map[string]interface{}{"a": "step", "t": st.Thread, "c": st.Choice, "n": st.Alts, "w": st.Woke, "to": st.To}
}

// builder returns, for a scenario, the concx.Scenario that runs it once and emits its records.
type builder func(raw json.RawMessage) concx.Scenario

var builders = map[string]builder{}

func ints(s string) []int {
	var res []int
	for _, p := range strings.Split(s, ",") {
		if p == "" {
			continue
		}
		n, err := strconv.Atoi(p)
		if err != nil {
			h.Die("bad int list %q", s)
		}
		res = append(res, n)
	}
	return res
}

func join(a []int) string {
	s := make([]string, len(a))
	for i, x := range a {
		s[i] = strconv.Itoa(x)
	}
	return strings.Join(s, ",")
}

func main() {
	prop := flag.String("prop", "", "C28 | C29 | C34")
	in := flag.String("in", "", "scenarios ndjson")
	outp := flag.String("out", "", "trace ndjson")
	maxpre := flag.Int("maxpre", 2, "preemption bound of the depth-first enumeration")
	budget := flag.Int("budget", 200, "depth-first schedules per scenario with the bound -maxpre")
	budget1 := flag.Int("budget1", 300, "depth-first schedules per scenario with at most one preemption (run first)")
	nrand := flag.Int("random", 10, "additional random schedules per scenario")
	replay := flag.Bool("replay", false, "scenarios carry ids: replay exactly those schedules")
	child := flag.Bool("child", false, "child mode")
	cscen := flag.String("scen", "", "child: scenario json")
	cmode := flag.String("mode", "dfs", "child: dfs | random | replay")
	cprefix := flag.String("prefix", "", "child: depth-first prefix")
	cids := flag.String("ids", "", "child: thread ids to replay")
	cstart := flag.Int("rstart", 0, "child: first random index")
	csid := flag.Int("sid", 0, "child: scenario id (seeds)")
	crec := flag.String("rec", "", "child: record file")
	procs := flag.Int("procs", 2, "GOMAXPROCS of the children (cross-P goroutine hand-offs dominate the cost of a step)")
	flag.Parse()
	if builders[*prop] == nil {
		h.Die("unknown -prop %q", *prop)
	}
	if *child {
		f, err := os.OpenFile(*crec, os.O_CREATE|os.O_WRONLY|os.O_TRUNC, 0o644)
		if err != nil {
			h.Die("%v", err)
		}
		recFile = f
		childMain(*prop, []byte(*cscen), *cmode, ints(*cprefix), ints(*cids), *budget, *maxpre, *cstart, *nrand, *csid)
		return
	}
	childEnv = append(os.Environ(), "GOMAXPROCS="+strconv.Itoa(*procs))
	parentMain(*prop, *in, *outp, *maxpre, *budget1, *budget, *nrand, *replay)
}

func childMain(prop string, raw []byte, mode string, prefix, ids []int, budget, maxpre, rstart, nrand, sid int) {
	sc := builders[prop](raw)
	switch mode {
	case "dfs":
		n := 0
		exhaustive := false
		var next []int
		for n < budget {
			res := concx.RunPrefix(sc, prefix, maxpre)
			n++
			np, ok := concx.NextPrefix(res.Granted())
			if !ok {
				exhaustive = true
				next = nil
				break
			}
			prefix, next = np, np
		}
		emit(map[string]interface{}{"k": "done", "n": n, "exhaustive": exhaustive, "next": next})
	case "random":
		n := 0
		for i := rstart; i < nrand; i++ {
			concx.RunRandom(sc, h.Seed()*7919+int64(sid)*131+int64(i))
			n++
		}
		emit(map[string]interface{}{"k": "done", "n": n, "exhaustive": false, "next": nil})
	case "replay":
		concx.RunReplay(sc, ids)
		emit(map[string]interface{}{"k": "done", "n": 1, "exhaustive": false, "next": nil})
	}
}

var panicRe = regexp.MustCompile(`(?m)^(panic|fatal error): (.*)$`)

type curSched struct {
	granted []concx.Step
	lastObs map[string]interface{}
	grant   map[string]interface{}
	ending  bool
}

type parent struct {
	prop      string
	recPath   string
	tr        *h.Tracer
	traceID   int
	schedules int
	crashes   int
	dfsDone   int
	hung      int
	maxpre    int
	nrand     int
}

func cloneObs(o map[string]interface{}) map[string]interface{} {
	c := map[string]interface{}{}
	for k, v := range o {
		c[k] = v
	}
	return c
}

// runChild runs one child; returns (done record or nil if it crashed, the schedule in progress at the crash, panic text).
func (p *parent) runChild(s scen, args []string) (map[string]interface{}, *curSched, string) {
	self, _ := os.Executable()
	full := append([]string{"-child", "-rec", p.recPath, "-prop", p.prop, "-scen", string(s.Scen), "-sid", strconv.Itoa(s.ID),
		"-maxpre", strconv.Itoa(p.maxpre), "-random", strconv.Itoa(p.nrand)}, args...)
	cmd := exec.Command(self, full...)
	cmd.Env = childEnv
	cmd.SysProcAttr = &syscall.SysProcAttr{Pdeathsig: syscall.SIGKILL} // no orphans if the parent is killed (timeouts)
	var stderr bytes.Buffer
	cmd.Stderr = &stderr
	werr := cmd.Run()
	rf, err := os.Open(p.recPath)
	if err != nil {
		h.Die("child wrote no records: %v %v\n%s", err, werr, tail(stderr.String(), 3000))
	}
	defer rf.Close()
	rd := bufio.NewReaderSize(rf, 1<<20)
	var cur *curSched
	var done map[string]interface{}
	for {
		line, err := rd.ReadBytes('\n')
		if len(line) > 1 {
			var rec map[string]interface{}
			if json.Unmarshal(line, &rec) == nil {
				switch rec["k"] {
				case "reset":
					cur = &curSched{}
					extra, _ := rec["extra"].(map[string]interface{})
					if extra == nil {
						extra = map[string]interface{}{}
					}
					extra["sid"] = s.ID
					p.tr.Reset(p.traceID, extra)
					p.traceID++
					cur.lastObs, _ = rec["obs"].(map[string]interface{})
				case "grant":
					cur.grant = rec
				case "step":
					if cur == nil {
						break
					}
					act, _ := rec["act"].(map[string]interface{})
					obs, _ := rec["obs"].(map[string]interface{})
					p.tr.Step(act, obs)
					cur.lastObs = obs
					if w, _ := act["w"].(bool); !w {
						cur.granted = append(cur.granted, concx.Step{Thread: h.ToInt(act["t"]), Choice: h.ToInt(act["c"]), Alts: h.ToInt(act["n"])})
					}
					cur.grant = nil
				case "ending":
					if cur != nil {
						cur.ending = true
					}
				case "end":
					if cur == nil {
						break
					}
					act, _ := rec["act"].(map[string]interface{})
					obs, _ := rec["obs"].(map[string]interface{})
					p.tr.Step(act, obs)
					if d, _ := act["dead"].(bool); d {
						p.hung++
					}
					p.schedules++
					cur = nil
				case "done":
					done = rec
				}
			}
		}
		if err != nil {
			break
		}
	}
	if done != nil && werr == nil {
		return done, nil, ""
	}
	msg := "process died"
	if m := panicRe.FindStringSubmatch(stderr.String()); m != nil {
		msg = m[2]
	} else if werr != nil && cur == nil {
		h.Die("child failed outside a schedule: %v\n%s", werr, tail(stderr.String(), 3000))
	}
	if cur == nil {
		h.Die("child died outside a schedule: %v\n%s", werr, tail(stderr.String(), 3000))
	}
	return nil, cur, msg
}

func tail(s string, n int) string {
	if len(s) > n {
		return s[len(s)-n:]
	}
	return s
}

// crashLines writes the fatal step (or the fatal end) of a schedule whose process died.
func (p *parent) crashLines(cur *curSched, msg string) {
	obs := cloneObs(cur.lastObs)
	obs["panic"] = msg
	obs["inv"] = false
	obs["fin"] = false
	if cur.ending || cur.grant == nil {
		p.tr.Step(map[string]interface{}{"a": "end", "dead": false, "hung": false}, obs)
	} else {
		g := cur.grant
		p.tr.Step(map[string]interface{}{"a": "step", "t": g["t"], "c": g["c"], "n": g["n"], "w": false, "to": "panic"}, obs)
		cur.granted = append(cur.granted, concx.Step{Thread: h.ToInt(g["t"]), Choice: h.ToInt(g["c"]), Alts: h.ToInt(g["n"])})
	}
	p.schedules++
	p.crashes++
}

func parentMain(prop, in, outp string, maxpre, budget1, budget, nrand int, replay bool) {
	data, err := os.ReadFile(in)
	if err != nil {
		h.Die("%v", err)
	}
	tr, err := h.NewTracer(outp)
	if err != nil {
		h.Die("%v", err)
	}
	p := &parent{prop: prop, tr: tr, maxpre: maxpre, nrand: nrand, recPath: outp + ".rec"}
	defer os.Remove(p.recPath)
	dec := json.NewDecoder(bytes.NewReader(data))
	nscen, complete := 0, 0
	for dec.More() {
		var s scen
		if err := dec.Decode(&s); err != nil {
			h.Die("%v", err)
		}
		nscen++
		if replay {
			done, cur, msg := p.runChild(s, []string{"-mode", "replay", "-ids", join(s.IDs)})
			if done == nil {
				p.crashLines(cur, msg)
			}
			continue
		}
		// depth-first, continued across crashes: first every schedule with at most one preemption (a
		// switch at every point of every thread), then the wider bound with the rest of the budget
		allExh := true
		type phase struct{ pre, budget int }
		phases := []phase{{1, budget1}}
		if maxpre != 1 {
			phases = append(phases, phase{maxpre, budget})
		}
		for _, ph := range phases {
			if ph.budget <= 0 {
				continue
			}
			p.maxpre = ph.pre
			prefix := []int{}
			remaining := ph.budget
			exhaustive := false
			for remaining > 0 {
				before := p.schedules
				done, cur, msg := p.runChild(s, []string{"-mode", "dfs", "-prefix", join(prefix), "-budget", strconv.Itoa(remaining)})
				if done != nil {
					exhaustive, _ = done["exhaustive"].(bool)
					remaining -= p.schedules - before
					break
				}
				p.crashLines(cur, msg)
				remaining -= p.schedules - before
				np, ok := concx.NextPrefix(cur.granted)
				if !ok {
					exhaustive = true
					break
				}
				prefix = np
			}
			if !exhaustive {
				allExh = false
			}
			p.dfsDone += ph.budget - remaining
		}
		if allExh {
			complete++
		}
		// random schedules
		start := 0
		for start < nrand {
			before := p.schedules
			done, cur, msg := p.runChild(s, []string{"-mode", "random", "-rstart", strconv.Itoa(start)})
			if done != nil {
				break
			}
			p.crashLines(cur, msg)
			start += p.schedules - before
		}
	}
	if err := tr.Close(); err != nil {
		h.Die("%v", err)
	}
	json.NewEncoder(os.Stdout).Encode(map[string]int{"scenarios": nscen, "schedules": p.schedules, "dfs_complete": complete,
		"crashes": p.crashes, "hung": p.hung})
}

var _ = fmt.Sprintf
