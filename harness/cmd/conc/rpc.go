//go:build c28

// C28: the real client.RPCClient against a scripted loopback server speaking the msgpack protocol.
// Setup (handshake, subscriptions) runs unmanaged; then the yield hooks are installed, the server
// feeds a wake-up header plus the scenario's pre-fed records, the client's own listen goroutine is
// adopted at its first yield (thread 1) and the user threads (Stop / Close / feed) are threads 2...
package main

import (
	"bufio"
	"bytes"
	"encoding/json"
	"fmt"
	"net"
	"sort"
	"sync"
	"sync/atomic"
	"syscall"
	"time"
	"unsafe"

	"github.com/hashicorp/go-msgpack/v2/codec"
	"github.com/hashicorp/serf/client"

	"verif/harness/internal/concx"
	"verif/harness/internal/h"
)

type rpcOp struct {
	Op string `json:"op"` // stop (subscription h) | close | feed (record ty for subscription h)
	H  int    `json:"h"`
	Ty string `json:"ty"` // rec | ack | resp | done
}

type rpcRec struct {
	H  int    `json:"h"`
	Ty string `json:"ty"`
}

type rpcScen struct {
	Subs []string  `json:"subs"` // stream | monitor | query
	Pre  []rpcRec  `json:"pre"`
	Prog [][]rpcOp `json:"prog"`
}

var mh = &codec.MsgpackHandle{WriteExt: true}

func inq(c *net.TCPConn) int {
	rc, err := c.SyscallConn()
	if err != nil {
		return 0
	}
	n := int32(0)
	rc.Control(func(fd uintptr) {
		syscall.Syscall(syscall.SYS_IOCTL, fd, uintptr(0x541B), uintptr(unsafe.Pointer(&n))) // FIONREAD
	})
	return int(n)
}

type busyReader struct {
	c    net.Conn
	busy *int32
}

func (b *busyReader) Read(p []byte) (int, error) {
	n, err := b.c.Read(p)
	if n > 0 {
		atomic.StoreInt32(b.busy, 1)
	}
	return n, err
}

type srvConn struct {
	c    *net.TCPConn
	busy int32
	wmu  sync.Mutex
}

func (sc *srvConn) write(objs ...interface{}) error {
	var buf bytes.Buffer
	enc := codec.NewEncoder(&buf, mh)
	for _, o := range objs {
		if err := enc.Encode(o); err != nil {
			return err
		}
	}
	sc.wmu.Lock()
	defer sc.wmu.Unlock()
	_, err := sc.c.Write(buf.Bytes())
	return err
}

// serve answers every request with an empty-error header (handshake, stream, monitor, query, stop).
func (sc *srvConn) serve() {
	br := bufio.NewReader(&busyReader{c: sc.c, busy: &sc.busy})
	dec := codec.NewDecoder(br, mh)
	for {
		var hdr struct {
			Command string
			Seq     uint64
		}
		if br.Buffered() == 0 {
			atomic.StoreInt32(&sc.busy, 0)
		}
		if err := dec.Decode(&hdr); err != nil {
			atomic.StoreInt32(&sc.busy, 0)
			return
		}
		var body interface{}
		if err := dec.Decode(&body); err != nil {
			atomic.StoreInt32(&sc.busy, 0)
			return
		}
		sc.write(map[string]interface{}{"Seq": hdr.Seq, "Error": ""})
	}
}

func recObjs(seq uint64, kind, ty string) []interface{} {
	hdr := map[string]interface{}{"Seq": seq, "Error": ""}
	switch kind {
	case "stream":
		return []interface{}{hdr, map[string]interface{}{"Event": "user", "LTime": 1, "Name": "e", "Payload": []byte("p"), "Coalesce": false}}
	case "monitor":
		return []interface{}{hdr, map[string]interface{}{"Log": "a log line"}}
	default:
		switch ty {
		case "ack":
			return []interface{}{hdr, map[string]interface{}{"Type": "ack", "From": "n1", "Payload": []byte{}}}
		case "resp":
			return []interface{}{hdr, map[string]interface{}{"Type": "response", "From": "n1", "Payload": []byte("r")}}
		default:
			return []interface{}{hdr, map[string]interface{}{"Type": "done", "From": "", "Payload": []byte{}}}
		}
	}
}

var rpcLn net.Listener

type sub struct {
	kind   string
	seq    uint64
	evCh   chan map[string]interface{}
	logCh  chan string
	ackCh  chan string
	respCh chan client.NodeResponse
	closed [2]bool
	got    [2]int
}

func (sb *sub) drain() {
	for {
		progressed := false
		switch sb.kind {
		case "stream":
			if !sb.closed[0] {
				select {
				case _, ok := <-sb.evCh:
					if ok {
						sb.got[0]++
					} else {
						sb.closed[0] = true
					}
					progressed = true
				default:
				}
			}
		case "monitor":
			if !sb.closed[0] {
				select {
				case _, ok := <-sb.logCh:
					if ok {
						sb.got[0]++
					} else {
						sb.closed[0] = true
					}
					progressed = true
				default:
				}
			}
		case "query":
			if !sb.closed[0] {
				select {
				case _, ok := <-sb.ackCh:
					if ok {
						sb.got[0]++
					} else {
						sb.closed[0] = true
					}
					progressed = true
				default:
				}
			}
			if !sb.closed[1] {
				select {
				case _, ok := <-sb.respCh:
					if ok {
						sb.got[1]++
					} else {
						sb.closed[1] = true
					}
					progressed = true
				default:
				}
			}
		}
		if !progressed {
			return
		}
	}
}

func init() {
	builders["C28"] = func(raw json.RawMessage) concx.Scenario {
		var sc rpcScen
		if err := json.Unmarshal(raw, &sc); err != nil {
			h.Die("bad C28 scenario: %v", err)
		}
		if rpcLn == nil {
			ln, err := net.Listen("tcp", "127.0.0.1:0")
			if err != nil {
				h.Die("listen: %v", err)
			}
			rpcLn = ln
		}
		noop := func(string) {}
		return func(s *concx.S) (func(concx.Step), func(concx.Result)) {
			client.VerifYield, client.VerifYieldBlocked = noop, noop
			accepted := make(chan *srvConn, 1)
			go func() {
				c, err := rpcLn.Accept()
				if err != nil {
					h.Die("accept: %v", err)
				}
				srv := &srvConn{c: c.(*net.TCPConn)}
				accepted <- srv
				srv.serve()
			}()
			cl, err := client.ClientFromConfig(&client.Config{Addr: rpcLn.Addr().String(), Timeout: 5 * time.Second})
			if err != nil {
				h.Die("client: %v", err)
			}
			srv := <-accepted
			subs := make([]*sub, len(sc.Subs))
			for i, k := range sc.Subs {
				sb := &sub{kind: k, seq: uint64(i + 2)}
				switch k {
				case "stream":
					sb.evCh = make(chan map[string]interface{}, 64)
					hd, err := cl.Stream("*", sb.evCh)
					if err != nil || uint64(hd) != sb.seq {
						h.Die("stream setup: %v handle=%d", err, hd)
					}
				case "monitor":
					sb.logCh = make(chan string, 64)
					hd, err := cl.Monitor("DEBUG", sb.logCh)
					if err != nil || uint64(hd) != sb.seq {
						h.Die("monitor setup: %v handle=%d", err, hd)
					}
				case "query":
					sb.ackCh = make(chan string, 64)
					sb.respCh = make(chan client.NodeResponse, 64)
					if err := cl.Query(&client.QueryParam{Name: "q", RequestAck: true, AckCh: sb.ackCh, RespCh: sb.respCh}); err != nil {
						h.Die("query setup: %v", err)
					}
				default:
					h.Die("unknown subscription kind %q", k)
				}
				subs[i] = sb
			}
			// managed phase
			s.Adopt, s.AdoptDaemon = true, true
			conn := cl.VerifConn()
			s.Pending = func(s *concx.S) bool {
				if atomic.LoadInt32(&srv.busy) != 0 || inq(srv.c) > 0 {
					return true
				}
				return s.RTBlocked(1) && inq(conn) > 0 && s.RTState(1) == "IO wait"
			}
			client.VerifYield, client.VerifYieldBlocked = s.Yield, s.YieldBlocked
			feed := func(r rpcRec) {
				sb := subs[r.H-1]
				srv.write(recObjs(sb.seq, sb.kind, r.Ty)...)
			}
			// wake-up header for an unknown sequence number, then the pre-fed records, in one write
			objs := []interface{}{map[string]interface{}{"Seq": uint64(999999), "Error": ""}}
			for _, r := range sc.Pre {
				sb := subs[r.H-1]
				objs = append(objs, recObjs(sb.seq, sb.kind, r.Ty)...)
			}
			srv.write(objs...)
			if !s.WaitThreads(1, 3*time.Second) {
				h.Die("the client's listener never reached a yield")
			}
			nt := len(sc.Prog)
			inv := make([]bool, nt+2)
			fin := make([]bool, nt+2)
			for ui, ops := range sc.Prog {
				ti, ops := ui+2, ops
				s.Go(fmt.Sprintf("u%d", ti), func() {
					for _, o := range ops {
						inv[ti] = true
						switch o.Op {
						case "stop":
							cl.Stop(client.StreamHandle(subs[o.H-1].seq))
						case "close":
							cl.Close()
						case "feed":
							feed(rpcRec{H: o.H, Ty: o.Ty})
						}
						fin[ti] = true
						s.Yield("op-done")
					}
				})
			}
			obs := func(t int) map[string]interface{} {
				cls := make([][]bool, len(subs))
				got := make([][]int, len(subs))
				for i, sb := range subs {
					sb.drain()
					cls[i] = []bool{sb.closed[0], sb.closed[1]}
					got[i] = []int{sb.got[0], sb.got[1]}
				}
				seqs, dl, sl, shut := cl.VerifPeek()
				regs, ncb := []int{}, 0
				for _, q := range seqs {
					if q >= 2 && int(q) < 2+len(subs) {
						regs = append(regs, int(q)-1)
					} else {
						ncb++
					}
				}
				sort.Ints(regs)
				x := map[string]interface{}{"subs": regs, "ncb": ncb, "dl": dl, "sl": sl, "shut": shut}
				o := map[string]interface{}{"cl": cls, "got": got, "inv": false, "fin": false, "panic": "", "x": x}
				if t > 1 && t < len(inv) {
					o["inv"], o["fin"] = inv[t], fin[t]
					inv[t], fin[t] = false, false
				}
				return o
			}
			emit(map[string]interface{}{"k": "reset", "extra": map[string]interface{}{"subs": sc.Subs, "pre": sc.Pre, "prog": sc.Prog}, "obs": obs(0)})
			s.OnGrant = func(st concx.Step) {
				emit(map[string]interface{}{"k": "grant", "t": st.Thread, "c": st.Choice, "n": st.Alts})
			}
			onStep := func(st concx.Step) {
				emit(map[string]interface{}{"k": "step", "act": stepAct(st), "obs": obs(st.Thread)})
			}
			finish := func(r concx.Result) {
				dead := r.Deadlock || r.Hung || r.Aborted
				lg := s.GidOf(1)
				emit(map[string]interface{}{"k": "ending"})
				if dead {
					conn.Close()
					srv.c.Close()
					s.Stop()
				} else {
					s.Stop()
					cl.Close()
					for i := 0; i < 20000 && !s.GoroutineGone(lg); i++ {
						time.Sleep(50 * time.Microsecond)
					}
					srv.c.Close()
				}
				client.VerifYield, client.VerifYieldBlocked = noop, noop
				emit(map[string]interface{}{"k": "end", "act": map[string]interface{}{"a": "end", "dead": r.Deadlock, "hung": r.Hung || r.Aborted}, "obs": obs(0)})
			}
			return onStep, finish
		}
	}
}
