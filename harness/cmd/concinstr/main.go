// concinstr: the "conc" family's variant of cmd/instrument.  Identical, plus -rmw: an assignment
// `x = append(x, ...)` is split into `tmp := x; verifYield(..); x = append(tmp, ...)`, i.e. the load and the
// store of the (unsynchronised) read-modify-write become separate scheduling steps -- an execution the Go
// memory model allows for racy code and what the compiled statement does anyway.
//
// instrument: writes a copy of a Go source file of /repo in which every statement of the selected
// functions (function literals included) is preceded by verifYield("<func>#<n>"), and, with -locks,
// x.Lock()/x.RLock() statements become cooperative TryLock loops.  The copy replaces the original
// through `go build -overlay`, so whatever the working tree currently contains is what gets
// instrumented.  verifYield / verifYieldBlocked are defined by a hook file added to the package.
package main

import (
	"flag"
	"fmt"
	"go/ast"
	"go/parser"
	"go/printer"
	"go/token"
	"os"
	"strings"
)

var locks bool
var rmw bool

func main() {
	in := flag.String("in", "", "source file")
	out := flag.String("out", "", "instrumented copy")
	funcs := flag.String("funcs", "*", "comma separated function / Type.Method names, or *")
	require := flag.String("require", "", "comma separated names that must exist (exit 4 otherwise)")
	flag.BoolVar(&locks, "locks", false, "rewrite Lock/RLock into cooperative loops")
	flag.BoolVar(&rmw, "rmw", false, "split x = append(x, ...) into load / yield / store")
	flag.Parse()
	fset := token.NewFileSet()
	f, err := parser.ParseFile(fset, *in, nil, parser.ParseComments)
	if err != nil {
		fmt.Fprintln(os.Stderr, err)
		os.Exit(4)
	}
	want := map[string]bool{}
	for _, n := range strings.Split(*funcs, ",") {
		if n != "" {
			want[n] = true
		}
	}
	found := map[string]bool{}
	for _, d := range f.Decls {
		fd, ok := d.(*ast.FuncDecl)
		if !ok || fd.Body == nil {
			continue
		}
		name := fd.Name.Name
		if fd.Recv != nil && len(fd.Recv.List) == 1 {
			t := fd.Recv.List[0].Type
			if s, ok := t.(*ast.StarExpr); ok {
				t = s.X
			}
			if id, ok := t.(*ast.Ident); ok {
				name = id.Name + "." + name
			}
		}
		found[name] = true
		if !want["*"] && !want[name] {
			continue
		}
		c := &ctx{fn: name}
		c.block(fd.Body)
	}
	for _, n := range strings.Split(*require, ",") {
		if n != "" && !found[n] {
			fmt.Fprintf(os.Stderr, "instrument: function %s not found in %s\n", n, *in)
			os.Exit(4)
		}
	}
	// comments carry positions that no longer match; drop free-floating ones except build tags
	var keep []*ast.CommentGroup
	for _, cg := range f.Comments {
		if cg.End() < f.Package {
			keep = append(keep, cg)
		}
	}
	f.Comments = keep
	w, err := os.Create(*out)
	if err != nil {
		fmt.Fprintln(os.Stderr, err)
		os.Exit(4)
	}
	defer w.Close()
	if err := printer.Fprint(w, fset, f); err != nil {
		fmt.Fprintln(os.Stderr, err)
		os.Exit(4)
	}
}

type ctx struct {
	fn string
	n  int
}

func (c *ctx) yield() ast.Stmt {
	c.n++
	return &ast.ExprStmt{X: &ast.CallExpr{
		Fun:  ast.NewIdent("verifYield"),
		Args: []ast.Expr{&ast.BasicLit{Kind: token.STRING, Value: fmt.Sprintf("%q", fmt.Sprintf("%s#%d", c.fn, c.n))}},
	}}
}

func (c *ctx) block(b *ast.BlockStmt) {
	if b == nil {
		return
	}
	b.List = c.list(b.List)
}

func (c *ctx) list(in []ast.Stmt) []ast.Stmt {
	var out []ast.Stmt
	for _, s := range in {
		out = append(out, c.stmt(s)...)
	}
	return out
}

// lockLoop: `x.Lock()` -> `for !x.TryLock() { verifYieldBlocked("..") }`
func (c *ctx) lockLoop(s ast.Stmt) ast.Stmt {
	if !locks {
		return nil
	}
	es, ok := s.(*ast.ExprStmt)
	if !ok {
		return nil
	}
	call, ok := es.X.(*ast.CallExpr)
	if !ok || len(call.Args) != 0 {
		return nil
	}
	sel, ok := call.Fun.(*ast.SelectorExpr)
	if !ok {
		return nil
	}
	try := ""
	switch sel.Sel.Name {
	case "Lock":
		try = "TryLock"
	case "RLock":
		try = "TryRLock"
	default:
		return nil
	}
	c.n++
	return &ast.ForStmt{
		Cond: &ast.UnaryExpr{Op: token.NOT, X: &ast.CallExpr{Fun: &ast.SelectorExpr{X: sel.X, Sel: ast.NewIdent(try)}}},
		Body: &ast.BlockStmt{List: []ast.Stmt{&ast.ExprStmt{X: &ast.CallExpr{
			Fun:  ast.NewIdent("verifYieldBlocked"),
			Args: []ast.Expr{&ast.BasicLit{Kind: token.STRING, Value: fmt.Sprintf("%q", fmt.Sprintf("%s#%d:lock", c.fn, c.n))}},
		}}}},
	}
}

func (c *ctx) stmt(s ast.Stmt) []ast.Stmt {
	if ls, ok := s.(*ast.LabeledStmt); ok {
		switch ls.Stmt.(type) {
		case *ast.ForStmt, *ast.RangeStmt, *ast.SwitchStmt, *ast.TypeSwitchStmt, *ast.SelectStmt:
			y := c.yield()
			c.inner(ls.Stmt)
			return []ast.Stmt{y, ls}
		default:
			// goto target: the label moves onto the yield so that every jump passes through it
			y := c.yield()
			rest := c.stmtNoYield(ls.Stmt)
			ls.Stmt = y
			return append([]ast.Stmt{ls}, rest...)
		}
	}
	y := c.yield()
	return append([]ast.Stmt{y}, c.stmtNoYield(s)...)
}

func exprString(e ast.Expr) string {
	var sb strings.Builder
	printer.Fprint(&sb, token.NewFileSet(), e)
	return sb.String()
}

// rmwSplit: `x = append(x, a...)` -> `verifTmpN := x; verifYield(".."); x = append(verifTmpN, a...)`
func (c *ctx) rmwSplit(s ast.Stmt) []ast.Stmt {
	if !rmw {
		return nil
	}
	as, ok := s.(*ast.AssignStmt)
	if !ok || as.Tok != token.ASSIGN || len(as.Lhs) != 1 || len(as.Rhs) != 1 {
		return nil
	}
	call, ok := as.Rhs[0].(*ast.CallExpr)
	if !ok || len(call.Args) < 1 {
		return nil
	}
	if id, ok := call.Fun.(*ast.Ident); !ok || id.Name != "append" {
		return nil
	}
	if _, ok := as.Lhs[0].(*ast.SelectorExpr); !ok {
		return nil
	}
	if exprString(as.Lhs[0]) != exprString(call.Args[0]) {
		return nil
	}
	c.n++
	tmp := ast.NewIdent(fmt.Sprintf("verifTmp%d", c.n))
	load := &ast.AssignStmt{Lhs: []ast.Expr{tmp}, Tok: token.DEFINE, Rhs: []ast.Expr{call.Args[0]}}
	y := &ast.ExprStmt{X: &ast.CallExpr{
		Fun:  ast.NewIdent("verifYield"),
		Args: []ast.Expr{&ast.BasicLit{Kind: token.STRING, Value: fmt.Sprintf("%q", fmt.Sprintf("%s#%d:rmw", c.fn, c.n))}},
	}}
	call.Args[0] = ast.NewIdent(tmp.Name)
	return []ast.Stmt{load, y, as}
}

func (c *ctx) stmtNoYield(s ast.Stmt) []ast.Stmt {
	if l := c.lockLoop(s); l != nil {
		return []ast.Stmt{l}
	}
	if r := c.rmwSplit(s); r != nil {
		return r
	}
	c.inner(s)
	return []ast.Stmt{s}
}

// inner instruments nested blocks and function literals of s.
func (c *ctx) inner(s ast.Stmt) {
	switch v := s.(type) {
	case *ast.BlockStmt:
		c.block(v)
	case *ast.IfStmt:
		c.exprs(v.Cond)
		if v.Init != nil {
			c.inner(v.Init)
		}
		c.block(v.Body)
		if v.Else != nil {
			c.inner(v.Else)
		}
	case *ast.ForStmt:
		c.block(v.Body)
	case *ast.RangeStmt:
		c.block(v.Body)
	case *ast.SwitchStmt:
		for _, cc := range v.Body.List {
			cl := cc.(*ast.CaseClause)
			cl.Body = c.list(cl.Body)
		}
	case *ast.TypeSwitchStmt:
		for _, cc := range v.Body.List {
			cl := cc.(*ast.CaseClause)
			cl.Body = c.list(cl.Body)
		}
	case *ast.SelectStmt:
		for _, cc := range v.Body.List {
			cl := cc.(*ast.CommClause)
			cl.Body = c.list(cl.Body)
		}
	case *ast.LabeledStmt:
		c.inner(v.Stmt)
	case *ast.ExprStmt:
		c.exprs(v.X)
	case *ast.AssignStmt:
		for _, e := range v.Rhs {
			c.exprs(e)
		}
	case *ast.GoStmt:
		c.exprs(v.Call)
	case *ast.DeferStmt:
		c.exprs(v.Call)
	case *ast.ReturnStmt:
		for _, e := range v.Results {
			c.exprs(e)
		}
	case *ast.DeclStmt:
		ast.Inspect(v, func(n ast.Node) bool {
			if fl, ok := n.(*ast.FuncLit); ok {
				c.block(fl.Body)
				return false
			}
			return true
		})
	case *ast.SendStmt:
		c.exprs(v.Value)
	}
}

// exprs instruments the bodies of function literals appearing in e.
func (c *ctx) exprs(e ast.Expr) {
	if e == nil {
		return
	}
	ast.Inspect(e, func(n ast.Node) bool {
		if fl, ok := n.(*ast.FuncLit); ok {
			c.block(fl.Body)
			return false
		}
		return true
	})
}
