package main

// C06: small concurrent programs (local UserEvent / Query calls, incoming user events / queries through
// NotifyMsg) run on a real quiet Serf node whose UserEvent, Query, registerQueryResponse, handleUserEvent
// and handleQuery are yield-instrumented, under every schedule the cooperative scheduler enumerates.
// After each scheduling step: both clocks, what came out of the event pipeline, and -- when the thread's
// current call returned -- the Lamport time carried by the broadcast the call queued.

import (
	"encoding/json"
	"fmt"
	"os"
	"strconv"
	"strings"
	"time"

	"github.com/hashicorp/serf/serf"

	"verif/harness/internal/h"
	"verif/harness/internal/quiet"
	"verif/harness/internal/sched"
)

type cop struct {
	Op string `json:"op"`
	LT int    `json:"lt"`
	X  int    `json:"x"`
}
type cprog struct {
	B  int     `json:"b"`
	Th [][]cop `json:"th"`
}
type cprogram struct {
	ID      int   `json:"id"`
	Prog    cprog `json:"prog"`
	Choices []int `json:"choices"` // replay: the scheduler's choice at every step of one schedule
	MaxPre  *int  `json:"maxpre"`  // per-program preemption bound / schedule budget (default: the flags)
	Budget  *int  `json:"budget"`
}

// segment: consecutive steps of one thread within one call, merged into one trace line (nobody else ran
// in between, so the intermediate values were visible to no one)
type segment struct {
	t      int
	n      int
	ec, qc int
	dl     [][]int
	fin    bool
	lt     int
	ch     []int
}

// exploreFocused: depth-first enumeration of the schedules with at most maxPre preemptions in which a thread is
// preempted only where it matters for the clocks: while it is inside a LamportClock method (before the load, the
// comparison, the CAS, the add), right after it left one, at the start and at the end of a call.  Between two
// consecutive shared accesses of a thread all preemption points are equivalent, and the other shared accesses of the
// instrumented functions (locks, buffers) directly follow or precede a clock access, so this keeps one representative
// per class while the number of schedules stays small enough for a second preemption.
func exploreFocused(sc sched.Scenario, maxPre, budget int) (int, bool) {
	type cp struct{ choice, alts int }
	forced := []int{}
	n := 0
	for n < budget {
		s := sched.New()
		onStep, finish := sc(s)
		lastID := 0
		after := map[int]bool{} // thread -> its last step was inside a LamportClock method
		var cps []cp
		preempts := 0
		interesting := func(t *sched.Thread) bool {
			return strings.HasPrefix(t.Label, "LamportClock.") || t.Label == "op-done" || t.Label == "start" || after[t.ID]
		}
		stale := map[int]bool{} // threads whose TryLock just failed and nothing has changed since: retrying is a no-op
		res := s.Run(func(step int, elig []*sched.Thread) int {
			lastElig := elig[0].ID == lastID
			var cand []int
			for i, t := range elig {
				if !stale[t.ID] || (i == 0 && lastElig) {
					cand = append(cand, i)
				}
			}
			if len(cand) == 0 {
				for i := range elig {
					cand = append(cand, i)
				}
			}
			allowed := len(cand)
			if lastElig && (preempts >= maxPre || !interesting(elig[0])) {
				allowed = 1
			}
			if allowed <= 1 {
				return cand[0]
			}
			c := 0
			if len(cps) < len(forced) {
				c = forced[len(cps)]
			}
			if c >= allowed {
				c = 0
			}
			cps = append(cps, cp{c, allowed})
			if lastElig && c != 0 {
				preempts++
			}
			return cand[c]
		}, -1, func(st sched.Step) {
			lastID = st.Thread
			after[st.Thread] = strings.HasPrefix(st.From, "LamportClock.")
			if strings.HasSuffix(st.To, ":lock") {
				stale[st.Thread] = true
			} else {
				for k := range stale {
					delete(stale, k)
				}
			}
			onStep(st)
		})
		finish(res)
		n++
		i := len(cps) - 1
		for ; i >= 0; i-- {
			if cps[i].choice+1 < cps[i].alts {
				break
			}
		}
		if i < 0 {
			return n, true
		}
		forced = forced[:0]
		for k := 0; k < i; k++ {
			forced = append(forced, cps[k].choice)
		}
		forced = append(forced, cps[i].choice+1)
	}
	return n, false
}

func xname(x int) string { return "c-" + strconv.Itoa(x) }
func xof(name string) int {
	if strings.HasPrefix(name, "c-") {
		if v, err := strconv.Atoi(name[2:]); err == nil {
			return v
		}
	}
	return 99
}

type cnode struct {
	n    *quiet.Node
	mark int
}

// drain: deliveries up to a marker (the pipeline goroutines are not managed by the scheduler and run freely)
func (c *cnode) drain() [][]int {
	c.mark++
	name := "__verif_marker_" + strconv.Itoa(c.mark)
	c.n.Serf.VerifInnerEventCh() <- serf.UserEvent{Name: name}
	out := [][]int{}
	deadline := time.After(10 * time.Second)
	for {
		select {
		case e := <-c.n.Events:
			switch v := e.(type) {
			case serf.UserEvent:
				if v.Name == name {
					return out
				}
				out = append(out, []int{1, down(uint64(v.LTime)), xof(v.Name)})
			case *serf.Query:
				out = append(out, []int{2, down(uint64(v.LTime)), xof(v.Name)})
			}
		case <-deadline:
			h.Die("event pipeline did not deliver the marker within 10s")
		}
	}
}

func conc(in, out, dir string, nc, maxpre, budget, nrand int) {
	f, err := os.ReadFile(in)
	if err != nil {
		h.Die("%v", err)
	}
	tr, err := h.NewTracer(out)
	if err != nil {
		h.Die("%v", err)
	}
	dec := json.NewDecoder(strings.NewReader(string(f)))
	traceID := 0
	total, complete, progs, odd := 0, 0, 0, 0
	for dec.More() {
		var p cprogram
		if err := dec.Decode(&p); err != nil {
			h.Die("%v", err)
		}
		progs++
		sc := func(s *sched.S) (func(sched.Step), func(sched.Result)) {
			// On a loaded machine a granted thread may not be scheduled by the OS for a long time; the default
			// watchdog (100ms) would then declare it blocked in the runtime and let another thread run concurrently.
			s.Watchdog = 20 * time.Second
			// scheduler hooks off while the node is created (memberlist goroutines start here)
			serf.VerifYield = func(string) {}
			serf.VerifYieldBlocked = func(string) {}
			net := quiet.NewNet()
			net.Capture = false
			nd, err := quiet.NewNode(net, "self", nil, func(c *serf.Config) {
				c.EventBuffer = p.Prog.B
				c.QueryBuffer = p.Prog.B
			})
			if err != nil {
				h.Die("create: %v", err)
			}
			cn := &cnode{n: nd}
			_ = cn.drain()
			serf.VerifYield = s.Yield
			serf.VerifYieldBlocked = s.YieldBlocked
			done := map[int]bool{}      // thread -> its current call returned (set by the thread itself)
			curName := map[int]string{} // thread -> name of its current local call
			for ti, ops := range p.Prog.Th {
				ti, ops := ti, ops
				s.Go(fmt.Sprintf("t%d", ti+1), func() {
					for i, o := range ops {
						name := xname(100 + 10*(ti+1) + i)
						switch o.Op {
						case "uev":
							curName[ti+1] = name
							if err := nd.Serf.UserEvent(name, []byte("p"), false); err != nil {
								h.Die("UserEvent: %v", err)
							}
						case "lq":
							curName[ti+1] = name
							if _, err := nd.Serf.Query(name, []byte("p"), &serf.QueryParam{Timeout: time.Hour}); err != nil {
								h.Die("Query: %v", err)
							}
						case "ev":
							curName[ti+1] = ""
							nd.Del.NotifyMsg(quiet.Encode(quiet.TUserEvent, quiet.MsgUserEvent{LTime: up(o.LT), Name: xname(o.X), Payload: []byte("p")}))
						case "qry":
							curName[ti+1] = ""
							nd.Del.NotifyMsg(quiet.Encode(quiet.TQuery, quiet.MsgQuery{LTime: up(o.LT), ID: uint32(o.X),
								Addr: []byte(nd.Tr.IP.To4()), Port: uint16(nd.Tr.Port), SourceNode: "peer", Timeout: time.Second,
								Name: xname(o.X), Payload: []byte("p")}))
						}
						done[ti+1] = true // only the running thread touches the maps
						s.Yield("op-done")
					}
				})
			}
			tr.Reset(traceID, map[string]interface{}{"prog": p.Prog, "pid": p.ID})
			traceID++
			queued := map[string]int{} // name -> Lamport time of the queued broadcast
			var seg *segment
			flush := func() {
				if seg == nil {
					return
				}
				tr.Step(map[string]interface{}{"a": "step", "t": seg.t, "n": seg.n},
					map[string]interface{}{"ec": seg.ec, "qc": seg.qc, "dl": seg.dl, "fin": seg.fin, "lt": seg.lt, "ch": seg.ch})
				seg = nil
			}
			onStep := func(st sched.Step) {
				if seg != nil && (seg.t != st.Thread || seg.fin) {
					flush()
				}
				if seg == nil {
					seg = &segment{t: st.Thread, dl: [][]int{}, lt: -1, ch: []int{}}
				}
				d := nd.Serf.VerifEventsDump()
				seg.n++
				seg.ec, seg.qc = down(d.EventClock), down(d.QueryClock)
				seg.dl = append(seg.dl, cn.drain()...)
				seg.ch = append(seg.ch, st.Choice)
				if done[st.Thread] && st.To == "op-done" {
					delete(done, st.Thread)
					seg.fin = true
					for _, b := range nd.Drain() {
						if len(b) == 0 {
							continue
						}
						switch int(b[0]) {
						case quiet.TUserEvent:
							var m quiet.MsgUserEvent
							if quiet.Decode(b, &m) == nil {
								queued[m.Name] = down(m.LTime)
							}
						case quiet.TQuery:
							var m quiet.MsgQuery
							if quiet.Decode(b, &m) == nil {
								queued[m.Name] = down(m.LTime)
							}
						}
					}
					if nm := curName[st.Thread]; nm != "" {
						if lt, ok := queued[nm]; ok {
							seg.lt = lt
						} else {
							odd++ // a local call returned without queueing its message
						}
					}
				}
			}
			return onStep, func(r sched.Result) {
				flush()
				serf.VerifYield = func(string) {}
				serf.VerifYieldBlocked = func(string) {}
				_ = nd.Serf.Shutdown()
				if r.Deadlock || r.Hung {
					h.Die("events scenario deadlocked/hung: %+v", r)
				}
			}
		}
		if p.Choices != nil {
			// replay of one recorded schedule
			s := sched.New()
			onStep, finish := sc(s)
			res := s.Run(func(step int, elig []*sched.Thread) int {
				if step < len(p.Choices) {
					return p.Choices[step]
				}
				return 0
			}, -1, onStep)
			finish(res)
			total++
			continue
		}
		mp, bd := maxpre, budget
		if p.MaxPre != nil {
			mp = *p.MaxPre
		}
		if p.Budget != nil {
			bd = *p.Budget
		}
		ns, all := exploreFocused(sc, mp, bd)
		total += ns
		if all {
			complete++
		}
		st2 := sched.Random(sc, nrand, h.Seed()*7919+int64(p.ID), false)
		total += st2.Schedules
	}
	serf.VerifYield = func(string) {}
	serf.VerifYieldBlocked = func(string) {}
	if err := tr.Close(); err != nil {
		h.Die("%v", err)
	}
	json.NewEncoder(os.Stdout).Encode(map[string]int{"programs": progs, "schedules": total, "dfs_complete": complete, "odd": odd})
}
