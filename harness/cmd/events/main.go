// Driver for the events family (C05, C14, user-event/query half of C04; C06 in conc.go):
// applies TLC-generated inputs to one real, quiet Serf node (gossip through NotifyMsg, state sync
// through MergeRemoteState, local UserEvent/Query calls, Shutdown/crash + serf.Create on the same
// snapshot) and records after every input the de-duplication state, what came out of the event
// pipeline and what was queued for broadcast.
package main

import (
	"bufio"
	"flag"
	"fmt"
	"io"
	"math/rand"
	"os"
	"path/filepath"
	"sort"
	"strconv"
	"strings"
	"time"

	"github.com/hashicorp/serf/serf"

	"verif/harness/internal/h"
	"verif/harness/internal/quiet"
)

var max uint64 // model MAX (stands for 2^64-1)

// gap embedding of the model range 0..MAX into uint64 (MAX |-> 2^64-1)
func up(v int) uint64 {
	if uint64(v) <= max/2 {
		return uint64(v)
	}
	return ^uint64(0) - (max - uint64(v))
}
func down(x uint64) int {
	if x <= max/2 {
		return int(x)
	}
	if d := ^uint64(0) - x; d < max-max/2 {
		return int(max - d)
	}
	return 99999 // inside the gap: the model's constants are chosen so that this never happens
}

type content struct {
	name    string
	payload []byte
}

var namePool = []string{"deploy", "deploy ", "Deploy", "restart", "r", "ünï", "a:b", "x\ty"}
var payloadPool = [][]byte{[]byte("x"), []byte("y"), []byte("xx"), {0}, {0, 0}, []byte("{\"a\":1}")}

// contents: k -> <<name, payload>>; neighbours share the name or the payload so that the
// duplicate test has to look at both.
func contents(nc int, rng *rand.Rand) []content {
	np := rng.Perm(len(namePool))
	pp := rng.Perm(len(payloadPool))
	out := []content{{}}
	for k := 1; k <= nc; k++ {
		var c content
		switch k % 3 {
		case 1:
			c = content{namePool[np[0]], payloadPool[pp[(k/3)%len(pp)]]}
		case 2:
			c = content{namePool[np[0]], payloadPool[pp[(k/3+1)%len(pp)]]}
		default:
			c = content{namePool[np[1+(k/3)%(len(np)-1)]], payloadPool[pp[0]]}
		}
		out = append(out, c)
	}
	return out
}

type run struct {
	net      *quiet.Net
	n        *quiet.Node
	name     string
	b        int // Config.EventBuffer
	bq       int // Config.QueryBuffer (drawn independently)
	dir      string
	snap     string
	nsnap    int
	cont     []content
	mark     int
	qids     map[uint32]int // raw id of a locally issued query -> 100 + order of appearance
	nlq      int
	re, rq   int // what the snapshot file held at the last restart (-1: nothing)
	withSnap bool
	npeer    int
}

func (r *run) create() {
	nd, err := quiet.NewNode(r.net, r.name, nil, func(c *serf.Config) {
		c.EventBuffer = r.b
		c.QueryBuffer = r.bq
		if r.withSnap {
			c.SnapshotPath = r.snap
		}
		c.RejoinAfterLeave = false
	})
	if err != nil {
		h.Die("create: %v", err)
	}
	r.n = nd
	// serf.Create announces the local node; not part of any step
	_ = r.events()
}

// prefill pads a fresh snapshot file with comment lines (skipped by the snapshotter's replay) up to `below` bytes
// under the compaction limit of 128 KiB, so that the lines the schedule makes the snapshotter append cross it.
func prefill(path string, below int) {
	const limit = 128 * 1024
	var sb strings.Builder
	line := "# verif padding " + strings.Repeat("x", 47) + "\n" // 64 bytes
	for sb.Len()+len(line) <= limit-below {
		sb.WriteString(line)
	}
	if rest := limit - below - sb.Len(); rest >= 2 {
		sb.WriteString("#" + strings.Repeat("y", rest-2) + "\n")
	}
	if err := os.WriteFile(path, []byte(sb.String()), 0644); err != nil {
		h.Die("prefill: %v", err)
	}
}

func newRun(b, bq, nc int, withSnap bool, fill int, dir string, id int, rng *rand.Rand) *run {
	r := &run{net: quiet.NewNet(), b: b, bq: bq, withSnap: withSnap, dir: dir, qids: map[uint32]int{}, re: -1, rq: -1}
	r.net.Capture = false
	r.name = "self-" + strconv.Itoa(rng.Intn(1000))
	r.cont = contents(nc, rng)
	r.snap = filepath.Join(dir, fmt.Sprintf("snap-%d-0", id))
	_ = os.Remove(r.snap)
	if withSnap && fill > 0 {
		prefill(r.snap, fill)
	}
	r.create()
	return r
}

func (r *run) cid(name string, payload []byte) int {
	for k := 1; k < len(r.cont); k++ {
		if r.cont[k].name == name && string(r.cont[k].payload) == string(payload) {
			return k
		}
	}
	return 99
}

func (r *run) qid(raw uint32) int {
	if raw < 100 {
		return int(raw)
	}
	if v, ok := r.qids[raw]; ok {
		return v
	}
	v := 100 + len(r.qids)
	r.qids[raw] = v
	return v
}

// events drains the event pipeline (snapshotter tee, internal-query filter) up to a marker pushed
// through its head; returns the deliveries [kind, lt, id] in order.
func (r *run) events() [][]int {
	r.mark++
	name := "__verif_marker_" + strconv.Itoa(r.mark)
	r.n.Serf.VerifInnerEventCh() <- serf.UserEvent{Name: name}
	out := [][]int{}
	deadline := time.After(10 * time.Second)
	for {
		select {
		case e := <-r.n.Events:
			switch v := e.(type) {
			case serf.UserEvent:
				if v.Name == name {
					return out
				}
				out = append(out, []int{1, down(uint64(v.LTime)), r.cid(v.Name, v.Payload)})
			case *serf.Query:
				id := 98
				if strings.HasPrefix(v.Name, "q-") {
					id, _ = strconv.Atoi(v.Name[2:])
				} else if strings.HasPrefix(v.Name, "lq-") {
					k, _ := strconv.Atoi(v.Name[3:])
					id = 100 + k
				}
				out = append(out, []int{2, down(uint64(v.LTime)), id})
			}
		case <-deadline:
			h.Die("event pipeline did not deliver the marker within 10s")
		}
	}
}

func (r *run) queued(raw [][]byte) [][]int {
	out := [][]int{}
	for _, b := range raw {
		if len(b) == 0 {
			continue
		}
		switch int(b[0]) {
		case quiet.TUserEvent:
			var m quiet.MsgUserEvent
			if quiet.Decode(b, &m) == nil {
				out = append(out, []int{1, down(m.LTime), r.cid(m.Name, m.Payload)})
				continue
			}
		case quiet.TQuery:
			var m quiet.MsgQuery
			if quiet.Decode(b, &m) == nil {
				out = append(out, []int{2, down(m.LTime), r.qid(m.ID)})
				continue
			}
		}
		out = append(out, []int{9, 0, int(b[0])})
	}
	sort.Slice(out, func(i, j int) bool {
		for k := 0; k < 3; k++ {
			if out[i][k] != out[j][k] {
				return out[i][k] < out[j][k]
			}
		}
		return false
	})
	return out
}

type slot struct {
	LT int   `json:"lt"`
	Xs []int `json:"xs"`
}

func (r *run) state() map[string]interface{} {
	d := r.n.Serf.VerifEventsDump()
	eb := make([]slot, 0, r.b)
	for _, s := range d.EventBuf {
		sl := slot{LT: -1, Xs: []int{}}
		if !s.Nil {
			sl.LT = down(s.LTime)
			for _, e := range s.Events {
				sl.Xs = append(sl.Xs, r.cid(e.Name, e.Payload))
			}
		}
		eb = append(eb, sl)
	}
	qb := make([]slot, 0, r.bq)
	for _, s := range d.QueryBuf {
		sl := slot{LT: -1, Xs: []int{}}
		if !s.Nil {
			sl.LT = down(s.LTime)
			for _, id := range s.IDs {
				sl.Xs = append(sl.Xs, r.qid(id))
			}
		}
		qb = append(qb, sl)
	}
	ji := 0
	if d.JoinIgnore {
		ji = 1
	}
	return map[string]interface{}{
		"ec": down(d.EventClock), "emin": down(d.EventMin), "ebuf": eb,
		"qc": down(d.QueryClock), "qmin": down(d.QueryMin), "qbuf": qb,
		"re": r.re, "rq": r.rq, "ji": ji,
	}
}

func (r *run) observe(q [][]byte) map[string]interface{} {
	rb := r.queued(q) // first: assigns the numbers of local query ids
	o := r.state()
	o["dl"] = r.events()
	o["rb"] = rb
	return o
}

// observeFiltered: like observe, but membership broadcasts (the join intent Serf.Join queues) are not listed
func (r *run) observeFiltered(q [][]byte) map[string]interface{} {
	var keep [][]byte
	for _, b := range q {
		if len(b) > 0 && (int(b[0]) == quiet.TUserEvent || int(b[0]) == quiet.TQuery) {
			keep = append(keep, b)
		}
	}
	return r.observe(keep)
}

// realJoin: a second real quiet node on the same network is brought into the state the action describes (event
// clock, query clock, event buffer) by feeding it, then the node under test calls the real Serf.Join on it:
// memberlist's push/pull hands the peer's LocalState to MergeRemoteState(isJoin = true).
func (r *run) realJoin(st h.Step) {
	r.npeer++
	peer, err := quiet.NewNode(r.net, fmt.Sprintf("peer-%d", r.npeer), nil, func(c *serf.Config) {
		c.EventBuffer = 64
		c.QueryBuffer = 64
	})
	if err != nil {
		h.Die("peer: %v", err)
	}
	for _, s := range st.List("evs") {
		sr := h.Step(s.(map[string]interface{}))
		for _, k := range sr.Ints("ks") {
			peer.Del.NotifyMsg(r.userEventMsg(sr.Int("lt"), k))
		}
	}
	peer.Del.MergeRemoteState(quiet.Encode(quiet.TPushPull, quiet.MsgPushPull{StatusLTimes: map[string]uint64{}, LeftMembers: []string{},
		EventLTime: up(st.Int("elt")), QueryLTime: up(st.Int("qlt"))}), false)
	pp, err := peer.PushPullState(false)
	if err != nil {
		h.Die("peer state: %v", err)
	}
	got := 0
	for _, e := range pp.Events {
		if e != nil {
			got += len(e.Events)
		}
	}
	want := 0
	for _, s := range st.List("evs") {
		want += len(h.Step(s.(map[string]interface{})).Ints("ks"))
	}
	if down(pp.EventLTime) != st.Int("elt") || down(pp.QueryLTime) != st.Int("qlt") || got != want {
		h.Die("peer could not be brought into the state of %v: event clock %d query clock %d events %d", st,
			down(pp.EventLTime), down(pp.QueryLTime), got)
	}
	n, err := r.n.Serf.Join([]string{peer.Tr.Addr()}, st.Int("ign") == 1)
	if err != nil || n != 1 {
		h.Die("Join: n=%d err=%v", n, err)
	}
	_ = peer.Serf.Shutdown()
}

// recorded reads what the snapshot file holds: the last event-clock / query-clock lines.
func recorded(path string) (int, int) {
	re, rq := -1, -1
	f, err := os.Open(path)
	if err != nil {
		return re, rq
	}
	defer f.Close()
	sc := bufio.NewScanner(f)
	sc.Buffer(make([]byte, 1<<16), 1<<24)
	for sc.Scan() {
		ln := sc.Text()
		switch {
		case strings.HasPrefix(ln, "event-clock: "):
			if v, err := strconv.ParseUint(ln[len("event-clock: "):], 10, 64); err == nil {
				re = down(v)
			}
		case strings.HasPrefix(ln, "query-clock: "):
			if v, err := strconv.ParseUint(ln[len("query-clock: "):], 10, 64); err == nil {
				rq = down(v)
			}
		case ln == "leave":
			re, rq = -1, -1
		}
	}
	// a compaction writes the clocks it holds, 0 when nothing was recorded: the same as no line at all
	if re == 0 {
		re = -1
	}
	if rq == 0 {
		rq = -1
	}
	return re, rq
}

func copyFile(src, dst string) {
	in, err := os.Open(src)
	if err != nil {
		h.Die("crash copy: %v", err)
	}
	defer in.Close()
	out, err := os.Create(dst)
	if err != nil {
		h.Die("crash copy: %v", err)
	}
	if _, err := io.Copy(out, in); err != nil {
		h.Die("crash copy: %v", err)
	}
	out.Close()
}

func (r *run) userEventMsg(lt, k int) []byte {
	c := r.cont[k]
	return quiet.Encode(quiet.TUserEvent, quiet.MsgUserEvent{LTime: up(lt), Name: c.name, Payload: c.payload})
}

func (r *run) queryMsg(lt, id, nb, flt int) []byte {
	m := quiet.MsgQuery{LTime: up(lt), ID: uint32(id), Addr: []byte(r.n.Tr.IP.To4()), Port: uint16(r.n.Tr.Port),
		SourceNode: "peer", Timeout: time.Second, Name: "q-" + strconv.Itoa(id), Payload: []byte("p")}
	if nb == 1 {
		m.Flags |= quiet.FlagNoBroadcast
	}
	if flt == 1 {
		m.Filters = [][]byte{quiet.EncodeFilter(0, []string{"someone-else"})}
	}
	return quiet.Encode(quiet.TQuery, m)
}

func (r *run) pushPull(st h.Step) []byte {
	m := quiet.MsgPushPull{LTime: 0, StatusLTimes: map[string]uint64{}, LeftMembers: []string{},
		EventLTime: up(st.Int("elt")), QueryLTime: up(st.Int("qlt"))}
	m.Events = append(m.Events, nil) // senders ship their whole buffer, empty slots included
	for _, s := range st.List("evs") {
		sr := h.Step(s.(map[string]interface{}))
		ue := &quiet.UserEvents{LTime: up(sr.Int("lt"))}
		for _, k := range sr.Ints("ks") {
			ue.Events = append(ue.Events, quiet.UserEventRec{Name: r.cont[k].name, Payload: r.cont[k].payload})
		}
		m.Events = append(m.Events, ue)
	}
	return quiet.Encode(quiet.TPushPull, m)
}

func (r *run) step(st h.Step) map[string]interface{} {
	switch st.A() {
	case "ev":
		r.n.Del.NotifyMsg(r.userEventMsg(st.Int("lt"), st.Int("k")))
	case "qry":
		r.n.Del.NotifyMsg(r.queryMsg(st.Int("lt"), st.Int("id"), st.Int("nb"), st.Int("flt")))
	case "merge":
		// ign = 1: the merge happens inside the window of a Serf.Join(ignoreOld = true) (flag set and cleared as Join
		// does); ign = 0: the flag is left as the node itself keeps it
		buf := r.pushPull(st)
		if st.Int("ign") == 1 {
			r.n.Serf.VerifSetJoinIgnore(true)
		}
		r.n.Del.MergeRemoteState(buf, st.Int("join") == 1)
		if st.Int("ign") == 1 {
			r.n.Serf.VerifSetJoinIgnore(false)
		}
	case "join":
		r.realJoin(st)
		return r.observeFiltered(r.n.Drain())
	case "uev":
		c := r.cont[st.Int("k")]
		if err := r.n.Serf.UserEvent(c.name, c.payload, false); err != nil {
			h.Die("UserEvent: %v", err)
		}
	case "lq":
		name := "lq-" + strconv.Itoa(r.nlq)
		r.nlq++
		if _, err := r.n.Serf.Query(name, []byte("p"), &serf.QueryParam{Timeout: time.Hour}); err != nil {
			h.Die("Query: %v", err)
		}
	case "restart":
		if !r.withSnap {
			h.Die("restart without a snapshot")
		}
		_ = r.events() // everything delivered so far has left the pipeline (and reached the snapshotter's queue)
		old := r.n
		if st.Int("crash") == 1 {
			// crash: the next incarnation sees the file as it is on disk now (unflushed lines are lost)
			r.nsnap++
			next := r.snap[:strings.LastIndex(r.snap, "-")+1] + strconv.Itoa(r.nsnap)
			copyFile(r.snap, next)
			r.snap = next
		}
		if err := old.Serf.Shutdown(); err != nil {
			h.Die("shutdown: %v", err)
		}
		r.re, r.rq = recorded(r.snap)
		r.create()
	default:
		h.Die("unknown action %q", st.A())
	}
	return r.observe(r.n.Drain())
}

func main() {
	mode := flag.String("mode", "seq", "seq | conc")
	in := flag.String("in", "", "schedules / programs ndjson")
	out := flag.String("out", "", "trace ndjson")
	nc := flag.Int("nc", 3, "event contents")
	m := flag.Int("max", 23, "model MAX")
	dir := flag.String("dir", "", "scratch directory for snapshot files")
	maxpre := flag.Int("maxpre", 2, "conc: preemption bound")
	budget := flag.Int("budget", 200, "conc: schedules per program (DFS)")
	nrand := flag.Int("random", 20, "conc: additional random schedules per program")
	flag.Parse()
	max = uint64(*m)
	if *mode == "conc" {
		conc(*in, *out, *dir, *nc, *maxpre, *budget, *nrand)
		return
	}
	scheds, err := h.ReadSchedules(*in)
	if err != nil {
		h.Die("%v", err)
	}
	tr, err := h.NewTracer(*out)
	if err != nil {
		h.Die("%v", err)
	}
	for _, s := range scheds {
		rng := rand.New(rand.NewSource(h.Seed()*1000003 + int64(s.ID)))
		// the first record of a schedule is the configuration {"a":"cfg","b":buffer size}
		if len(s.Steps) == 0 || s.Steps[0].A() != "cfg" {
			h.Die("schedule %d does not start with a cfg record", s.ID)
		}
		b := s.Steps[0].Int("b")
		snap := s.Steps[0].Int("snap")
		fill := 0
		if _, ok := s.Steps[0]["fill"]; ok {
			fill = s.Steps[0].Int("fill")
		}
		bq := b
		if _, ok := s.Steps[0]["bq"]; ok {
			bq = s.Steps[0].Int("bq")
		}
		r := newRun(b, bq, *nc, snap == 1, fill, *dir, s.ID, rng)
		tr.Reset(s.ID, map[string]interface{}{"b": b, "bq": bq, "snap": snap})
		for _, st := range s.Steps[1:] {
			tr.Step(st, r.step(st))
		}
		_ = r.n.Serf.Shutdown()
		for i := 0; i <= r.nsnap; i++ {
			_ = os.Remove(r.snap[:strings.LastIndex(r.snap, "-")+1] + strconv.Itoa(i))
		}
	}
	if err := tr.Close(); err != nil {
		h.Die("%v", err)
	}
	fmt.Println("ok")
}
