package main

// C20: TLC-generated sequences of completed pings on a real quiet node with coordinates enabled, through
// serf's pingDelegate.NotifyPingComplete (which calls coordinate.Client.Update and fills the cache).  The
// floating-point clauses are evaluated on the real client's coordinate after every step.

import (
	"fmt"
	"math"
	"time"

	metrics "github.com/armon/go-metrics"
	"github.com/hashicorp/memberlist"
	"github.com/hashicorp/serf/coordinate"
	"github.com/hashicorp/serf/serf"

	"verif/harness/internal/h"
	"verif/harness/internal/quiet"
)

const coordDim = 8

func baseCoord(v int) *coordinate.Coordinate {
	c := &coordinate.Coordinate{Vec: make([]float64, coordDim), Error: 0.3, Adjustment: 0.0001, Height: 0.0002}
	switch v % 8 {
	case 0: // a plausible LAN peer
		for i := range c.Vec {
			c.Vec[i] = float64((v*7+i*13)%11-5) * 1e-3
		}
	case 1: // the origin itself (distance 0 from a fresh client: random unit vector path)
		c.Height = 10.0e-6
		c.Error = 1.5
	case 2: // far away, WAN scale
		for i := range c.Vec {
			c.Vec[i] = float64((v+i)%5-2) * 0.08
		}
		c.Error = 0
	case 3: // 10^4 seconds
		c.Vec[v%coordDim] = 1e4
		c.Height = 1e4
		c.Error = 1.5
	case 4: // denormals and tiny values
		for i := range c.Vec {
			c.Vec[i] = 5e-324 * float64(i+1)
		}
		c.Height = 1e-300
		c.Error = 1e-320
	case 5: // height below the minimum, zero error
		c.Height = 0
		c.Error = 0
		c.Vec[0] = 1e-7
	case 6: // large adjustment
		c.Adjustment = -5
		c.Vec[1] = 0.01
	case 7:
		c.Adjustment = 1e6
		c.Error = 1e-9
		c.Vec[2] = -0.02
	}
	return c
}

// coordOf concretizes a coordinate class; fv selects among several adversarial variants
func coordOf(cc string, fv int) *coordinate.Coordinate {
	c := baseCoord(fv)
	bad := func(x float64) {
		switch (fv / 8) % 4 {
		case 0:
			c.Vec[fv%coordDim] = x
		case 1:
			c.Error = x
		case 2:
			c.Adjustment = x
		case 3:
			c.Height = x
		}
	}
	switch cc {
	case "valid":
	case "nan":
		bad(math.NaN())
	case "posinf":
		bad(math.Inf(1))
	case "neginf":
		bad(math.Inf(-1))
	case "wrongdim":
		switch fv % 4 {
		case 0:
			c.Vec = nil
		case 1:
			c.Vec = c.Vec[:coordDim-1]
		case 2:
			c.Vec = append(c.Vec, 0.001)
		case 3:
			c.Vec = make([]float64, 1)
		}
	case "huge":
		hv := []float64{math.MaxFloat64, 1e308, 1e200, 1e155, -math.MaxFloat64, 1e160}[fv%6]
		switch (fv / 6) % 5 {
		case 0:
			c.Vec[fv%coordDim] = hv
		case 1:
			for i := range c.Vec {
				c.Vec[i] = hv
			}
		case 2:
			c.Height = math.Abs(hv)
		case 3:
			c.Adjustment = hv
		case 4:
			c.Error = math.Abs(hv)
		}
	case "negerr":
		c.Error = []float64{-1, -1e-12, -1.5, -1e300, -0.3, math.Copysign(0, -1) - 1e-300}[fv%6]
	default:
		h.Die("coordinate class %q", cc)
	}
	return c
}

func rttOf(rc string, rv int) time.Duration {
	switch rc {
	case "neg":
		return []time.Duration{-1, -time.Millisecond, -time.Hour, math.MinInt64}[rv%4]
	case "zero":
		return 0
	case "ok":
		return []time.Duration{1, time.Microsecond, 3 * time.Millisecond, 80 * time.Millisecond, time.Second, 10 * time.Second}[rv%6]
	case "big":
		return []time.Duration{10*time.Second + 1, 11 * time.Second, time.Hour, math.MaxInt64}[rv%4]
	}
	h.Die("rtt class %q", rc)
	return 0
}

func pingPayload(c *coordinate.Coordinate) []byte {
	m := &mp{}
	m.raw(serf.PingVersion)
	m.mapn(4)
	m.str("Vec")
	if c.Vec == nil {
		m.nilv()
	} else {
		m.arr(len(c.Vec))
		for _, x := range c.Vec {
			m.f64(x)
		}
	}
	m.str("Error")
	m.f64(c.Error)
	m.str("Adjustment")
	m.f64(c.Adjustment)
	m.str("Height")
	m.f64(c.Height)
	return m.b
}

func finite(x float64) bool { return !math.IsNaN(x) && !math.IsInf(x, 0) }

// sameCoord compares bit for bit (NaN equals NaN, -0 differs from +0)
func sameCoord(a, b *coordinate.Coordinate) bool {
	if a == nil || b == nil {
		return a == b
	}
	if len(a.Vec) != len(b.Vec) {
		return false
	}
	for i := range a.Vec {
		if math.Float64bits(a.Vec[i]) != math.Float64bits(b.Vec[i]) {
			return false
		}
	}
	return math.Float64bits(a.Error) == math.Float64bits(b.Error) && math.Float64bits(a.Adjustment) == math.Float64bits(b.Adjustment) &&
		math.Float64bits(a.Height) == math.Float64bits(b.Height)
}

// rttIDs: identity of every concrete round-trip sample (spec/Coord.tla RttId): neg 0..3, zero 4, ok 5..10, big 11..14
var rttIDs = func() map[uint64]int {
	m := map[uint64]int{}
	base := map[string]int{"neg": 0, "zero": 4, "ok": 5, "big": 11}
	size := map[string]int{"neg": 4, "zero": 1, "ok": 6, "big": 4}
	for rc, b := range base {
		for rv := 0; rv < size[rc]; rv++ {
			m[math.Float64bits(rttOf(rc, rv).Seconds())] = b + rv
		}
	}
	return m
}()

func sameFloats(a, b []float64) bool {
	if len(a) != len(b) {
		return false
	}
	for i := range a {
		if math.Float64bits(a[i]) != math.Float64bits(b[i]) {
			return false
		}
	}
	return true
}

// sameClientState: the complete client state, bit for bit
func sameClientState(a, b coordinate.VerifClientState) bool {
	if !sameCoord(a.Coord, b.Coord) || !sameCoord(a.Origin, b.Origin) || a.AdjIndex != b.AdjIndex || a.Resets != b.Resets ||
		!sameFloats(a.AdjSamples, b.AdjSamples) || len(a.Latency) != len(b.Latency) {
		return false
	}
	for k, v := range a.Latency {
		w, ok := b.Latency[k]
		if !ok || !sameFloats(v, w) {
			return false
		}
	}
	return true
}

func runCoord(in, out string) {
	scheds, err := h.ReadSchedules(in)
	if err != nil {
		h.Die("%v", err)
	}
	tr, err := h.NewTracer(out)
	if err != nil {
		h.Die("%v", err)
	}
	cfg := coordinate.DefaultConfig()
	net := quiet.NewNet()
	// the ping delegate swallows Update's error; what it shows is the serf.coordinate.rejected counter
	sink := metrics.NewInmemSink(24*time.Hour, 48*time.Hour)
	mcfg := metrics.DefaultConfig("verif")
	mcfg.EnableHostname, mcfg.EnableRuntimeMetrics = false, false
	if _, err := metrics.NewGlobal(mcfg, sink); err != nil {
		h.Die("metrics: %v", err)
	}
	rejected := func() int {
		total := 0
		for _, iv := range sink.Data() {
			iv.RLock()
			for k, v := range iv.Counters {
				if len(k) >= len("verif.serf.coordinate.rejected") && k[:len("verif.serf.coordinate.rejected")] == "verif.serf.coordinate.rejected" {
					total += v.Count
				}
			}
			iv.RUnlock()
		}
		return total
	}
	np := 0
	for _, s := range scheds {
		for _, st := range s.Steps {
			if p := st.Int("p"); p > np {
				np = p
			}
		}
	}
	for _, s := range scheds {
		tr.Reset(s.ID, nil)
		n, err := quiet.NewNode(net, fmt.Sprintf("c-%d", s.ID), nil, func(c *serf.Config) { c.DisableCoordinates = false })
		if err != nil {
			h.Die("%v", err)
		}
		ping := n.Conf.MemberlistConfig.Ping
		if ping == nil {
			h.Die("no ping delegate")
		}
		client := n.Serf.VerifCoordClient()
		if client == nil {
			h.Die("no coordinate client")
		}
		peers := make([]*memberlist.Node, np+1)
		ptr := net.NewTransport("peers")
		for i := 1; i <= np; i++ {
			peers[i] = n.MLNode(fmt.Sprintf("peer-%d", i), ptr, nil)
		}
		for _, st := range s.Steps {
			p := st.Int("p")
			sent := coordOf(st.Str("cc"), st.Int("fv"))
			rtt := rttOf(st.Str("rc"), st.Int("rv"))
			before, _ := n.Serf.GetCoordinate()
			stBefore := client.VerifState()
			cachedBefore, hadBefore := n.Serf.GetCachedCoordinate(peers[p].Name)
			rejBefore := rejected()
			ping.NotifyPingComplete(peers[p], rtt, pingPayload(sent))
			after, _ := n.Serf.GetCoordinate()
			stAfter := client.VerifState()
			cachedAfter, hasAfter := n.Serf.GetCachedCoordinate(peers[p].Name)
			cu := hadBefore == hasAfter && (!hasAfter || cachedBefore == cachedAfter) // same entry object as before
			cs := hasAfter && cachedAfter != cachedBefore && sameCoord(cachedAfter, sent)
			cache := make([]int, np)
			for i := 1; i <= np; i++ {
				if _, ok := n.Serf.GetCachedCoordinate(peers[i].Name); ok {
					cache[i-1] = 1
				}
			}
			own, ownOK := n.Serf.GetCachedCoordinate(n.Name)
			acc := b2i(rejected() == rejBefore) // every payload here decodes, so "not rejected" = Update returned no error
			win := make([][]int, np)
			for i := 1; i <= np; i++ {
				win[i-1] = []int{}
				for _, x := range stAfter.Latency[peers[i].Name] {
					id, ok := rttIDs[math.Float64bits(x)]
					if !ok {
						id = 99
					}
					win[i-1] = append(win[i-1], id)
				}
			}
			obs := map[string]interface{}{
				"acc": acc, "same": b2i(sameCoord(before, after)), "cache": cache, "cs": b2i(cs), "cu": b2i(cu),
				"st": b2i(sameClientState(stBefore, stAfter)), "win": win,
				"fin":  b2i(after.IsValid() && finite(after.Error) && finite(after.Height)),
				"dim":  b2i(len(after.Vec) == int(cfg.Dimensionality) && ownOK && len(own.Vec) == int(cfg.Dimensionality)),
				"hmin": b2i(after.Height >= cfg.HeightMin), "elo": b2i(after.Error >= 0), "ehi": b2i(after.Error <= cfg.VivaldiErrorMax),
			}
			tr.Step(st, obs)
		}
		n.Serf.Shutdown()
	}
	if err := tr.Close(); err != nil {
		h.Die("%v", err)
	}
}
