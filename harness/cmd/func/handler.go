package main

// C27: the real agent.ScriptEventHandler running /bin/sh scripts that dump their environment
// (/proc/$$/environ) and standard input into files of the scratch directory; queries are real *serf.Query
// values obtained from a real quiet node, so that the reply is captured on the transport.

import (
	"bytes"
	"fmt"
	"log"
	"math"
	"net"
	"os"
	"path/filepath"
	"sort"
	"strconv"
	"strings"
	"time"

	"github.com/hashicorp/serf/cmd/serf/command/agent"
	"github.com/hashicorp/serf/serf"

	"verif/harness/internal/h"
	"verif/harness/internal/quiet"
)

var hsyms = map[int]string{1: "a", 2: "\t", 3: "\n", 4: "\\", 5: "=", 6: ",", 7: "t", 8: "n", 9: "A", 10: "-", 11: "_", 12: "7",
	13: "role", 14: "ROLE"}

func hconc(v interface{}) string {
	l, _ := v.([]interface{})
	var sb strings.Builder
	for _, x := range l {
		s, ok := hsyms[h.ToInt(x)]
		if !ok {
			h.Die("no such symbol %v", x)
		}
		sb.WriteString(s)
	}
	return sb.String()
}

func habs(s string) []int {
	out := []int{}
	for len(s) > 0 {
		switch {
		case strings.HasPrefix(s, "role"):
			out = append(out, 13)
			s = s[4:]
			continue
		case strings.HasPrefix(s, "ROLE"):
			out = append(out, 14)
			s = s[4:]
			continue
		}
		c := 99
		for k, v := range hsyms {
			if len(v) == 1 && v[0] == s[0] {
				c = k
			}
		}
		out = append(out, c)
		s = s[1:]
	}
	return out
}

var evNames = []string{"", "deploy", "load-x", "d", "de", "deploy-prod"}
var memberTypes = map[string]serf.EventType{"member-join": serf.EventMemberJoin, "member-leave": serf.EventMemberLeave,
	"member-failed": serf.EventMemberFailed, "member-update": serf.EventMemberUpdate, "member-reap": serf.EventMemberReap}
var addrClasses = map[int]net.IP{1: net.IPv4(10, 1, 2, 3), 2: net.ParseIP("fe80::1"), 3: nil}

func tagsOf(v interface{}) map[string]string {
	m := map[string]string{}
	l, _ := v.([]interface{})
	for _, p := range l {
		pp := p.([]interface{})
		m[hconc(pp[0])] = hconc(pp[1])
	}
	return m
}

type handlerEnv struct {
	dir    string
	net    *quiet.Net
	nodes  map[int]*quiet.Node // by QueryResponseSizeLimit
	origin *quiet.Transport
	seq    uint32
}

func (e *handlerEnv) node(limit int) *quiet.Node {
	if n := e.nodes[limit]; n != nil {
		return n
	}
	n, err := quiet.NewNode(e.net, fmt.Sprintf("hnode-%d", limit), nil, func(c *serf.Config) { c.QueryResponseSizeLimit = limit })
	if err != nil {
		h.Die("%v", err)
	}
	e.nodes[limit] = n
	return n
}

// realQuery makes the node receive a query from the network and returns the *serf.Query its application sees
func (e *handlerEnv) realQuery(limit int, name string, payload []byte, ltime uint64) *serf.Query {
	n := e.node(limit)
	e.seq++
	q := quiet.MsgQuery{LTime: ltime, ID: e.seq, Addr: e.origin.IP.To4(), Port: uint16(e.origin.Port), SourceNode: "origin",
		Timeout: time.Minute, Name: name, Payload: payload}
	for len(n.Events) > 0 {
		<-n.Events
	}
	n.Del.NotifyMsg(quiet.Encode(quiet.TQuery, &q))
	deadline := time.After(10 * time.Second)
	for {
		select {
		case ev := <-n.Events:
			if qq, ok := ev.(*serf.Query); ok {
				return qq
			}
		case <-deadline:
			h.Die("the node did not deliver the query %q (ltime %d)", name, ltime)
		}
	}
}

func ltimeOf(c int) uint64 {
	if c == 99 {
		return math.MaxUint64
	}
	return uint64(c)
}

func ltimeClass(s string) int {
	u, err := strconv.ParseUint(s, 10, 64)
	switch {
	case err != nil:
		return -1
	case u == math.MaxUint64:
		return 99
	case u < 90:
		return int(u)
	}
	return -2
}

func pattern(n int) []byte {
	const al = "0123456789abcdefghijklmnopqrstuvwxyz"
	b := make([]byte, n)
	for i := range b {
		b[i] = al[(i*7+i/36)%36]
	}
	return b
}

func renderSpec(v interface{}) (string, bool) {
	items, _ := v.([]interface{})
	if len(items) == 0 {
		return "", false
	}
	var parts []string
	for _, it := range items {
		r := h.Step(it.(map[string]interface{}))
		s := r.Str("t")
		if n := r.Int("n"); n != 0 {
			s += ":" + evNames[n]
		}
		parts = append(parts, s)
	}
	return strings.Join(parts, ","), true
}

func (e *handlerEnv) run(id int, st h.Step) map[string]interface{} {
	d := filepath.Join(e.dir, fmt.Sprintf("h%d", id))
	if err := os.MkdirAll(d, 0o755); err != nil {
		h.Die("%v", err)
	}
	defer os.RemoveAll(d)
	ep := st.Str("ep")
	if ep == "reload" {
		return e.runReload(d, st)
	}
	// the script (must not contain '=' when there is no filter part)
	script := fmt.Sprintf("cat /proc/$$/environ > %s/env.$$; cat > %s/stdin.$$", d, d)
	limit := 1024
	var pat []byte
	if ep == "response" {
		limit = st.Int("limit")
		pat = pattern(st.Int("N"))
		pf := filepath.Join(d, "out")
		if err := os.WriteFile(pf, pat, 0o644); err != nil {
			h.Die("%v", err)
		}
		half := len(pat) / 2
		var emit string
		switch st.Str("stream") {
		case "stdout":
			emit = "cat " + pf
		case "stderr":
			emit = "cat " + pf + " >&2"
		case "both":
			emit = fmt.Sprintf("head -c %d %s; tail -c +%d %s >&2", half, pf, half+1, pf)
		}
		script = fmt.Sprintf(": > %s/env.$$; cat > /dev/null; %s; exit %d", d, emit, st.Int("exit"))
	}
	spec, has := renderSpec(st["spec"])
	hs := script
	if has {
		hs = spec + "=" + script
	}
	self := serf.Member{Name: hconc(st["self"]), Tags: tagsOf(st["tags"])}
	var logbuf bytes.Buffer
	handler := &agent.ScriptEventHandler{SelfFunc: func() serf.Member { return self }, Scripts: agent.ParseEventScript(hs),
		Logger: log.New(&logbuf, "", 0)}
	// the event
	ev := st.Rec("ev")
	name := evNames[ev.Int("n")]
	if ep != "filter" {
		name = hconc(st["ename"])
	}
	payload := []byte(hconc(st["payload"]))
	var event serf.Event
	switch t := ev.Str("t"); t {
	case "user":
		event = serf.UserEvent{LTime: serf.LamportTime(ltimeOf(st.Int("lt"))), Name: name, Payload: payload}
	case "query":
		event = e.realQuery(limit, name, payload, ltimeOf(st.Int("lt")))
	default:
		me := serf.MemberEvent{Type: memberTypes[t]}
		ms, _ := st["members"].([]interface{})
		for _, m := range ms {
			r := h.Step(m.(map[string]interface{}))
			me.Members = append(me.Members, serf.Member{Name: hconc(r["name"]), Addr: addrClasses[r.Int("addr")], Tags: tagsOf(r["tags"])})
		}
		event = me
	}
	e.net.TakePackets()
	handler.HandleEvent(event)

	envFiles, _ := filepath.Glob(filepath.Join(d, "env.*"))
	obs := map[string]interface{}{"count": len(envFiles)}
	switch ep {
	case "filter":
		return obs
	case "response":
		obs["sent"], obs["len"], obs["tail"] = 0, 0, 1
		for _, p := range e.net.TakePackets() {
			if p.To != "origin" {
				continue
			}
			for _, um := range quiet.UserMsgs(p.Buf) {
				if len(um) > 0 && um[0] == quiet.TQueryResponse {
					var r quiet.MsgQueryResponse
					if quiet.Decode(um, &r) != nil {
						continue
					}
					obs["sent"] = h.ToInt(obs["sent"]) + 1
					obs["len"] = len(r.Payload)
					obs["tail"] = b2i(len(r.Payload) <= len(pat) && bytes.Equal(r.Payload, pat[len(pat)-len(r.Payload):]))
				}
			}
		}
		return obs
	}
	if len(envFiles) != 1 {
		// monitors only look at count in this case; keep the record shape
		return fillHandlerObs(obs, ep)
	}
	pid := strings.TrimPrefix(filepath.Base(envFiles[0]), "env.")
	envRaw, _ := os.ReadFile(envFiles[0])
	stdinRaw, _ := os.ReadFile(filepath.Join(d, "stdin."+pid))
	switch ep {
	case "env":
		env := map[string]string{}
		for _, kv := range strings.Split(string(envRaw), "\x00") {
			if i := strings.IndexByte(kv, '='); i >= 0 && strings.HasPrefix(kv, "SERF_") {
				env[kv[:i]] = kv[i+1:]
			}
		}
		opt := func(k string) []interface{} {
			if v, ok := env[k]; ok {
				return []interface{}{1, habs(v)}
			}
			return []interface{}{0, []int{}}
		}
		optI := func(k string) []interface{} {
			if v, ok := env[k]; ok {
				return []interface{}{1, ltimeClass(v)}
			}
			return []interface{}{0, 0}
		}
		obs["event"] = env["SERF_EVENT"]
		obs["selfname"], obs["selfrole"] = habs(env["SERF_SELF_NAME"]), habs(env["SERF_SELF_ROLE"])
		var keys []string
		for k := range env {
			if strings.HasPrefix(k, "SERF_TAG_") {
				keys = append(keys, k)
			}
		}
		sort.Strings(keys)
		tv := []interface{}{}
		for _, k := range keys {
			tv = append(tv, []interface{}{habs(strings.TrimPrefix(k, "SERF_TAG_")), habs(env[k])})
		}
		obs["tagvars"] = tv
		obs["uev"], obs["ult"], obs["qn"], obs["qlt"] = opt("SERF_USER_EVENT"), optI("SERF_USER_LTIME"), opt("SERF_QUERY_NAME"), optI("SERF_QUERY_LTIME")
	case "members":
		s := string(stdinRaw)
		obs["trail"] = b2i(s == "" || strings.HasSuffix(s, "\n"))
		s = strings.TrimSuffix(s, "\n")
		lines := []interface{}{}
		if s != "" || len(stdinRaw) > 0 {
			for _, ln := range strings.Split(s, "\n") {
				fields := []interface{}{}
				for _, f := range strings.Split(ln, "\t") {
					switch f {
					case "10.1.2.3":
						fields = append(fields, []int{101})
					case "fe80::1":
						fields = append(fields, []int{102})
					case "<nil>":
						fields = append(fields, []int{103})
					default:
						fields = append(fields, habs(f))
					}
				}
				lines = append(lines, fields)
			}
		}
		obs["lines"] = lines
	case "payload":
		obs["stdin"] = habs(string(stdinRaw))
	}
	return obs
}

// runReload: a history of configuration reloads and events on ONE ScriptEventHandler, driven the way the agent does
// it: Scripts = config.EventScripts() at start, UpdateScripts(newConfig.EventScripts()) on reload.  Handler i of the
// configuration given at step u touches the marker file ran.<u>.<i>.<pid>.
func (e *handlerEnv) runReload(d string, st h.Step) map[string]interface{} {
	self := serf.Member{Name: "self", Tags: map[string]string{}}
	var logbuf bytes.Buffer
	var handler *agent.ScriptEventHandler
	hist, _ := st["hist"].([]interface{})
	runs := make([]interface{}, len(hist))
	for j, raw := range hist {
		step := h.Step(raw.(map[string]interface{}))
		runs[j] = [][]int{}
		switch step.Str("op") {
		case "init", "update":
			cfg := &agent.Config{}
			specs, _ := step["specs"].([]interface{})
			if step.Int("nilh") == 0 {
				cfg.EventHandlers = []string{}
			}
			for i, sp := range specs {
				script := fmt.Sprintf(": > %s/ran.%d.%d.$$", d, j+1, i+1)
				if spec, has := renderSpec(sp); has {
					script = spec + "=" + script
				}
				cfg.EventHandlers = append(cfg.EventHandlers, script)
			}
			if step.Str("op") == "init" {
				handler = &agent.ScriptEventHandler{SelfFunc: func() serf.Member { return self }, Scripts: cfg.EventScripts(),
					Logger: log.New(&logbuf, "", 0)}
			} else {
				handler.UpdateScripts(cfg.EventScripts())
			}
		case "event":
			ev := step.Rec("ev")
			var event serf.Event
			if ev.Str("t") == "user" {
				event = serf.UserEvent{LTime: serf.LamportTime(j), Name: evNames[ev.Int("n")], Payload: []byte("p")}
			} else {
				event = serf.MemberEvent{Type: memberTypes[ev.Str("t")], Members: []serf.Member{{Name: "m", Addr: addrClasses[1]}}}
			}
			handler.HandleEvent(event)
			files, _ := filepath.Glob(filepath.Join(d, "ran.*"))
			count := map[[2]int]int{}
			for _, f := range files {
				var u, i, pid int
				if n, _ := fmt.Sscanf(filepath.Base(f), "ran.%d.%d.%d", &u, &i, &pid); n == 3 {
					count[[2]int{u, i}]++
				}
				os.Remove(f)
			}
			var keys [][2]int
			for k := range count {
				keys = append(keys, k)
			}
			sort.Slice(keys, func(a, b int) bool {
				return keys[a][0] < keys[b][0] || (keys[a][0] == keys[b][0] && keys[a][1] < keys[b][1])
			})
			rs := [][]int{}
			for _, k := range keys {
				rs = append(rs, []int{k[0], k[1], count[k]})
			}
			runs[j] = rs
		default:
			h.Die("reload step %q", step.Str("op"))
		}
	}
	return map[string]interface{}{"runs": runs, "count": 0}
}

func fillHandlerObs(obs map[string]interface{}, ep string) map[string]interface{} {
	none, noneI := []interface{}{0, []int{}}, []interface{}{0, 0}
	switch ep {
	case "env":
		obs["event"], obs["selfname"], obs["selfrole"], obs["tagvars"] = "", []int{}, []int{}, []interface{}{}
		obs["uev"], obs["ult"], obs["qn"], obs["qlt"] = none, noneI, none, noneI
	case "members":
		obs["trail"], obs["lines"] = 0, []interface{}{}
	case "payload":
		obs["stdin"] = []int{}
	}
	return obs
}

func runHandler(in, out, dir string) {
	scheds, err := h.ReadSchedules(in)
	if err != nil {
		h.Die("%v", err)
	}
	tr, err := h.NewTracer(out)
	if err != nil {
		h.Die("%v", err)
	}
	e := &handlerEnv{dir: dir, net: quiet.NewNet(), nodes: map[int]*quiet.Node{}}
	e.origin = e.net.NewTransport("origin")
	for _, s := range scheds {
		tr.Reset(s.ID, nil)
		for k, st := range s.Steps {
			tr.Step(st, e.run(s.ID*1000+k, st))
		}
	}
	if err := tr.Close(); err != nil {
		h.Die("%v", err)
	}
}
