// Driver for the "func" family (C09, C20, C21, C27, C31, C32): executes TLC-generated input vectors on
// the real code and records input + observed output, one NDJSON line per judged evaluation.
package main

import (
	"flag"

	"verif/harness/internal/h"
)

func main() {
	mode := flag.String("mode", "", "merge | tags | shapes | shapes-child | coord | rtt | handler")
	in := flag.String("in", "", "vectors ndjson (schedules)")
	out := flag.String("out", "", "trace ndjson")
	dir := flag.String("dir", "", "scratch directory for files the real code reads/writes")
	flag.Parse()
	switch *mode {
	case "merge":
		runMerge(*in, *out, *dir)
	case "tags":
		runTags(*in, *out, *dir)
	case "shapes":
		runShapes(*in, *out, *dir)
	case "shapes-child":
		runShapesChild(*in, *out, *dir)
	case "coord":
		runCoord(*in, *out)
	case "rtt":
		runRTT(*in, *out)
	case "handler":
		runHandler(*in, *out, *dir)
	default:
		h.Die("bad -mode %q", *mode)
	}
}
