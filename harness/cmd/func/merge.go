package main

// C31: every TLC-generated vector assigns, per KIND, three abstract source values; every exported field of
// agent.Config (found by reflection) takes the triple of its kind, concretized with field-specific values
// so that cross-field mix-ups show.  The real MergeConfig / DecodeConfig / ReadConfigPaths run on them; the
// results are projected back to abstract values, one trace line per field.

import (
	"encoding/json"
	"fmt"
	"os"
	"path/filepath"
	"reflect"
	"sort"
	"strings"
	"time"

	"github.com/hashicorp/serf/cmd/serf/command/agent"

	"verif/harness/internal/h"
)

// the field table: kind of every setting.  A field of agent.Config missing here (or an entry without
// field) stops the driver with exit code 4: the check is then inconclusive until the table is updated.
var mergeKinds = map[string]string{
	"NodeName": "ov", "Role": "ov", "DisableCoordinates": "or", "Tags": "map", "TagsFile": "ov",
	"BindAddr": "ov", "AdvertiseAddr": "ov", "EncryptKey": "ov", "KeyringFile": "ov", "LogLevel": "ov",
	"RPCAddr": "ov", "RPCAuthKey": "ov", "Protocol": "ov", "ReplayOnJoin": "or",
	"QueryResponseSizeLimit": "ov", "QuerySizeLimit": "ov", "UserEventSizeLimit": "ov",
	"StartJoin": "list", "EventHandlers": "list", "Profile": "ov", "SnapshotPath": "ov",
	"LeaveOnTerm": "or", "SkipLeaveOnInt": "or", "Discover": "ov",
	"MDNS.Interface": "ov", "MDNS.DisableIPv4": "or", "MDNS.DisableIPv6": "or", "Interface": "ov",
	"ReconnectIntervalRaw": "raw", "ReconnectInterval": "ov", "ReconnectTimeoutRaw": "raw", "ReconnectTimeout": "ov",
	"TombstoneTimeoutRaw": "raw", "TombstoneTimeout": "ov", "DisableNameResolution": "or", "EnableSyslog": "or",
	"SyslogFacility": "ov", "RetryJoin": "list", "RetryMaxAttempts": "ov", "RetryIntervalRaw": "raw",
	"RetryInterval": "ov", "RejoinAfterLeave": "or", "EnableCompression": "lw", "StatsiteAddr": "ov",
	"StatsdAddr": "ov", "BroadcastTimeoutRaw": "raw", "BroadcastTimeout": "ov", "ValidateNodeNames": "or",
	"MsgpackUseNewTimeFormat": "or",
}

type cfgField struct {
	path  string   // Go path, e.g. MDNS.Interface
	index []int    // reflect index path
	keys  []string // JSON key path ("" last element: no own key, see rawOf)
	kind  string
	typ   reflect.Type
	n     int // ordinal, makes concrete values field-specific
	rawOf string
}

var durType = reflect.TypeOf(time.Duration(0))

func walkConfig(t reflect.Type, prefix string, index []int, keys []string, out *[]cfgField) {
	for i := 0; i < t.NumField(); i++ {
		sf := t.Field(i)
		if sf.PkgPath != "" {
			continue
		}
		key := sf.Tag.Get("mapstructure")
		if key == "" {
			key = sf.Name
		}
		idx := append(append([]int{}, index...), i)
		ks := append(append([]string{}, keys...), key)
		if sf.Type.Kind() == reflect.Struct {
			walkConfig(sf.Type, prefix+sf.Name+".", idx, ks, out)
			continue
		}
		*out = append(*out, cfgField{path: prefix + sf.Name, index: idx, keys: ks, typ: sf.Type})
	}
}

func configFields() []cfgField {
	var fs []cfgField
	walkConfig(reflect.TypeOf(agent.Config{}), "", nil, nil, &fs)
	var problems []string
	seen := map[string]bool{}
	byPath := map[string]*cfgField{}
	for i := range fs {
		f := &fs[i]
		f.n = i + 1
		seen[f.path] = true
		byPath[f.path] = f
		k, ok := mergeKinds[f.path]
		if !ok {
			problems = append(problems, "field "+f.path+" of agent.Config is not assigned to a kind")
			continue
		}
		f.kind = k
		okType := false
		switch k {
		case "ov":
			okType = f.typ.Kind() == reflect.String || f.typ.Kind() == reflect.Int || f.typ == durType
		case "or", "lw":
			okType = f.typ.Kind() == reflect.Bool
		case "map":
			okType = f.typ == reflect.TypeOf(map[string]string{})
		case "list":
			okType = f.typ == reflect.TypeOf([]string{})
		case "raw":
			okType = f.typ.Kind() == reflect.String
		}
		if !okType {
			problems = append(problems, fmt.Sprintf("field %s has type %v, which does not fit kind %s", f.path, f.typ, k))
		}
	}
	for p := range mergeKinds {
		if !seen[p] {
			problems = append(problems, "table entry "+p+" has no field in agent.Config")
		}
	}
	// a duration whose key is "-" is written in files through its <name>Raw sibling
	for i := range fs {
		f := &fs[i]
		if f.typ == durType && f.keys[len(f.keys)-1] == "-" {
			raw, ok := byPath[f.path+"Raw"]
			if !ok {
				problems = append(problems, "duration "+f.path+" has no Raw sibling")
				continue
			}
			f.keys = raw.keys
			raw.rawOf = f.path
		}
	}
	if len(problems) > 0 {
		sort.Strings(problems)
		fmt.Fprintln(os.Stderr, "FIELD-TABLE: "+strings.Join(problems, "; "))
		os.Exit(4)
	}
	return fs
}

var tagKeys = []string{"role", "dc=\"x\" ü"}

func concStr(f *cfgField, v int) string {
	if v == 0 {
		return ""
	}
	if v == 2 {
		return fmt.Sprintf("%s#2 \"q\\\t,ü", f.path)
	}
	return fmt.Sprintf("%s#%d", f.path, v)
}

func concInt(f *cfgField, v int) int {
	if v == 0 {
		return 0
	}
	return 1000 + 10*f.n + v
}

func concDur(f *cfgField, v int) time.Duration {
	if v == 0 {
		return 0
	}
	return time.Duration(10*f.n+v)*time.Millisecond + time.Duration(v)*time.Hour
}

// conc sets field f of c to the concretization of the abstract value v
func conc(c *agent.Config, f *cfgField, v interface{}) {
	fv := reflect.ValueOf(c).Elem().FieldByIndex(f.index)
	switch f.kind {
	case "ov", "raw":
		n := h.ToInt(v)
		switch {
		case f.typ == durType:
			fv.SetInt(int64(concDur(f, n)))
		case f.typ.Kind() == reflect.Int:
			fv.SetInt(int64(concInt(f, n)))
		default:
			fv.SetString(concStr(f, n))
		}
	case "or", "lw":
		fv.SetBool(h.ToInt(v) == 1)
	case "map":
		m := v.([]interface{})
		if h.ToInt(m[0]) == 1 {
			fv.Set(reflect.Zero(f.typ))
			return
		}
		mm := map[string]string{}
		for i, k := range tagKeys {
			if x := h.ToInt(m[i+1]); x != 0 {
				mm[k] = concStr(f, x)
			}
		}
		fv.Set(reflect.ValueOf(mm))
	case "list":
		l := v.([]interface{})
		// lists are built with SPARE CAPACITY (like a list grown by append, or the result of an earlier merge):
		// code that appends onto an input's slice then writes into the input's backing array
		spare := listSpare
		if len(l) == 0 && spare == 0 {
			fv.Set(reflect.Zero(f.typ))
			return
		}
		ss := make([]string, len(l), len(l)+spare)
		for i, x := range l {
			ss[i] = concStr(f, h.ToInt(x))
		}
		fv.Set(reflect.ValueOf(ss))
	}
}

// listSpare: spare capacity given to every list of the sources built next (0 or 4, alternating per vector)
var listSpare int

// fullEqual is reflect.DeepEqual, except that slices are compared over their whole CAPACITY: a write past len
// into the backing array of an input is a modification of memory the input owns
func fullEqual(p, q reflect.Value) bool {
	if p.Kind() == reflect.Slice {
		if p.IsNil() != q.IsNil() || p.Len() != q.Len() || p.Cap() != q.Cap() {
			return false
		}
		return reflect.DeepEqual(p.Slice(0, p.Cap()).Interface(), q.Slice(0, q.Cap()).Interface())
	}
	return reflect.DeepEqual(p.Interface(), q.Interface())
}

func absStr(f *cfgField, s string) int {
	for v := 0; v <= 2; v++ {
		if s == concStr(f, v) {
			return v
		}
	}
	return 9
}

// abs projects field f of c back to an abstract value (9 = a value no source of this field had)
func abs(c *agent.Config, f *cfgField) interface{} {
	fv := reflect.ValueOf(c).Elem().FieldByIndex(f.index)
	switch f.kind {
	case "ov", "raw":
		for v := 0; v <= 2; v++ {
			switch {
			case f.typ == durType:
				if time.Duration(fv.Int()) == concDur(f, v) {
					return v
				}
			case f.typ.Kind() == reflect.Int:
				if int(fv.Int()) == concInt(f, v) {
					return v
				}
			default:
				if fv.String() == concStr(f, v) {
					return v
				}
			}
		}
		return 9
	case "or", "lw":
		if fv.Bool() {
			return 1
		}
		return 0
	case "map":
		res := []int{0, 0, 0}
		if fv.IsNil() {
			res[0] = 1
		}
		m := fv.Interface().(map[string]string)
		known := 0
		for i, k := range tagKeys {
			if s, ok := m[k]; ok {
				known++
				res[i+1] = absStr(f, s)
				if res[i+1] == 0 {
					res[i+1] = 9 // key present with an empty value
				}
			}
		}
		if known != len(m) {
			res[1] = 9
		}
		return res
	case "list":
		l := fv.Interface().([]string)
		res := make([]int, len(l))
		for i, s := range l {
			res[i] = absStr(f, s)
			if res[i] == 0 {
				res[i] = 9
			}
		}
		return res
	}
	return 9
}

type mergeVec map[string][]interface{} // kind -> [x, y, z]

// switch independence (focus "hot"): the bool field hotField takes the triple hotTriple, every other field the
// triple of its kind
var hotField string
var hotTriple []interface{}

func (v mergeVec) of(f *cfgField) []interface{} {
	if hotField != "" && f.path == hotField {
		return hotTriple
	}
	return v[f.kind]
}

func vecOf(st h.Step) mergeVec {
	v := mergeVec{}
	for _, k := range []string{"ov", "or", "lw", "map", "list"} {
		l := st.List(k)
		if len(l) != 3 {
			h.Die("vector lacks kind %s: %v", k, st)
		}
		v[k] = l
	}
	v["raw"] = v["ov"]
	return v
}

func buildConfig(fs []cfgField, v mergeVec, src int) *agent.Config {
	c := &agent.Config{}
	for i := range fs {
		conc(c, &fs[i], v.of(&fs[i])[src])
	}
	return c
}

func setPath(m map[string]interface{}, keys []string, val interface{}) {
	for _, k := range keys[:len(keys)-1] {
		sub, ok := m[k].(map[string]interface{})
		if !ok {
			sub = map[string]interface{}{}
			m[k] = sub
		}
		m = sub
	}
	m[keys[len(keys)-1]] = val
}

// jsonOf renders source src of the vector as a configuration file.  Unset values are left out or written
// as explicit zero values, alternating with (field ordinal + salt).
func jsonOf(fs []cfgField, v mergeVec, src int, salt int) []byte {
	m := map[string]interface{}{}
	for i := range fs {
		f := &fs[i]
		a := v.of(f)[src]
		explicit := (f.n+salt)%2 == 0
		switch f.kind {
		case "raw":
			continue
		case "ov":
			n := h.ToInt(a)
			switch {
			case f.typ == durType:
				if n != 0 {
					setPath(m, f.keys, concDur(f, n).String())
				}
			case f.typ.Kind() == reflect.Int:
				if n != 0 || explicit {
					setPath(m, f.keys, concInt(f, n))
				}
			default:
				if n != 0 || explicit {
					setPath(m, f.keys, concStr(f, n))
				}
			}
		case "or", "lw":
			if h.ToInt(a) == 1 || explicit {
				setPath(m, f.keys, h.ToInt(a) == 1)
			}
		case "map":
			mm := a.([]interface{})
			if h.ToInt(mm[0]) == 1 {
				continue
			}
			tags := map[string]interface{}{}
			for j, k := range tagKeys {
				if x := h.ToInt(mm[j+1]); x != 0 {
					tags[k] = concStr(f, x)
				}
			}
			setPath(m, f.keys, tags)
		case "list":
			l := a.([]interface{})
			if len(l) == 0 && !explicit {
				continue
			}
			ss := make([]string, len(l))
			for j, x := range l {
				ss[j] = concStr(f, h.ToInt(x))
			}
			setPath(m, f.keys, ss)
		}
	}
	b, err := json.Marshal(m)
	if err != nil {
		h.Die("json: %v", err)
	}
	return b
}

// a configuration that sets every "ov" string to a value no source has; it sits in files that
// ReadConfigPaths must ignore (not *.json, or inside a sub-directory)
func noiseJSON(fs []cfgField) []byte {
	m := map[string]interface{}{}
	for i := range fs {
		f := &fs[i]
		if f.kind == "ov" && f.typ.Kind() == reflect.String {
			setPath(m, f.keys, "NOISE")
		}
		if f.kind == "or" {
			setPath(m, f.keys, true)
		}
	}
	b, _ := json.Marshal(m)
	return b
}

func b2i(b bool) int {
	if b {
		return 1
	}
	return 0
}

func runMerge(in, out, dir string) {
	fs := configFields()
	scheds, err := h.ReadSchedules(in)
	if err != nil {
		h.Die("%v", err)
	}
	tr, err := h.NewTracer(out)
	if err != nil {
		h.Die("%v", err)
	}
	write := func(p string, b []byte) {
		if err := os.MkdirAll(filepath.Dir(p), 0o755); err != nil {
			h.Die("%v", err)
		}
		if err := os.WriteFile(p, b, 0o644); err != nil {
			h.Die("%v", err)
		}
	}
	for _, s := range scheds {
		tr.Reset(s.ID, nil)
		for _, st := range s.Steps {
			v := vecOf(st)
			// focus "hot": the vector is run once per bool field of agent.Config, that field taking the "hot" triple
			hots := []string{""}
			if st.Str("focus") == "hot" {
				hots = nil
				for i := range fs {
					if fs[i].kind == "or" || fs[i].kind == "lw" {
						hots = append(hots, fs[i].path)
					}
				}
				hotTriple = st.List("hot")
				if len(hotTriple) != 3 {
					h.Die("hot vector without hot triple: %v", st)
				}
			}
			for hi, hname := range hots {
				hotField = hname
				vd := filepath.Join(dir, fmt.Sprintf("v%d-%d", s.ID, hi))
				listSpare = 4 * (s.ID % 2)
				mk := func(i int) *agent.Config { return buildConfig(fs, v, i) }
				// pairwise merge; inputs compared with identically built copies afterwards
				a, b := mk(0), mk(1)
				ab := agent.MergeConfig(a, b)
				// left and right nesting on fresh inputs
				la, lb, lc := mk(0), mk(1), mk(2)
				l := agent.MergeConfig(agent.MergeConfig(la, lb), lc)
				r := agent.MergeConfig(mk(0), agent.MergeConfig(mk(1), mk(2)))
				// a HISTORY of merges with a shared left operand: base = x+y, then base+z and base+x.  Every earlier
				// result and input is projected again only after the last merge (see the field loop below).
				hd, hf := mk(0), mk(1)
				hbase := agent.MergeConfig(hd, hf)
				hx := agent.MergeConfig(hbase, mk(2))
				hy := agent.MergeConfig(hbase, mk(0))
				// files
				names := []string{"f-a.json", "f-b.json", "f-c.json"}
				var paths []string
				for i, n := range names {
					p := filepath.Join(vd, n)
					write(p, jsonOf(fs, v, i, s.ID+i))
					paths = append(paths, p)
				}
				fcfg, err := agent.ReadConfigPaths(paths)
				if err != nil {
					h.Die("ReadConfigPaths(files) failed on generated files: %v", err)
				}
				dd := filepath.Join(vd, "d")
				for i, n := range []string{"10-a.json", "20-b.json", "30-c.json"} {
					write(filepath.Join(dd, n), jsonOf(fs, v, i, s.ID+i+1))
				}
				write(filepath.Join(dd, "15-noise.txt"), noiseJSON(fs))
				write(filepath.Join(dd, "40-noise.json.bak"), noiseJSON(fs))
				write(filepath.Join(dd, "25-sub.json", "x.json"), noiseJSON(fs))
				dcfg, err := agent.ReadConfigPaths([]string{dd})
				if err != nil {
					h.Die("ReadConfigPaths(dir) failed on generated files: %v", err)
				}
				os.RemoveAll(vd)
				a0, b0, c0 := mk(0), mk(1), mk(2)
				for i := range fs {
					f := &fs[i]
					if hotField != "" && f.kind != "or" && f.kind != "lw" {
						continue // switch-independence vectors: only the switches are judged
					}
					same := func(p, q *agent.Config) int {
						return b2i(fullEqual(reflect.ValueOf(p).Elem().FieldByIndex(f.index), reflect.ValueOf(q).Elem().FieldByIndex(f.index)))
					}
					act := map[string]interface{}{"a": "field", "f": f.path, "k": f.kind,
						"x": v.of(f)[0], "y": v.of(f)[1], "z": v.of(f)[2]}
					obs := map[string]interface{}{"una": same(a, a0), "unb": same(b, b0),
						"un3": []int{same(la, a0), same(lb, b0), same(lc, c0)}, "unh": []int{same(hd, a0), same(hf, b0)}}
					if f.kind == "raw" {
						obs["ab"], obs["l"], obs["r"], obs["fs"], obs["dir"] = 0, 0, 0, 0, 0
						obs["hb"], obs["hx"], obs["hy"] = 0, 0, 0
					} else {
						obs["ab"], obs["l"], obs["r"], obs["fs"], obs["dir"] = abs(ab, f), abs(l, f), abs(r, f), abs(fcfg, f), abs(dcfg, f)
						obs["hb"], obs["hx"], obs["hy"] = abs(hbase, f), abs(hx, f), abs(hy, f)
					}
					tr.Step(act, obs)
				}
			}
			hotField = ""
		}
	}
	if err := tr.Close(); err != nil {
		h.Die("%v", err)
	}
}
