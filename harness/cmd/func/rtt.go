package main

// C21: the real Coordinate.DistanceTo on the exact lattice (result must equal the TLA+ integer model, in
// lattice units) and on seeded floats per magnitude class (only non-negativity and symmetry are judged).

import (
	"math"
	"math/rand"
	"time"

	"github.com/hashicorp/serf/coordinate"

	"verif/harness/internal/h"
)

// distance calls DistanceTo; err: 0 none, 1 panic with DimensionalityConflictError, 2 any other panic
func distance(a, b *coordinate.Coordinate) (d time.Duration, err int) {
	defer func() {
		if r := recover(); r != nil {
			if _, ok := r.(coordinate.DimensionalityConflictError); ok {
				err = 1
			} else {
				err = 2
			}
		}
	}()
	return a.DistanceTo(b), 0
}

func latticeCoord(v []int, hgt, adj int, unit float64) *coordinate.Coordinate {
	c := &coordinate.Coordinate{Vec: make([]float64, len(v)), Error: 1.5, Height: float64(hgt) * unit, Adjustment: float64(adj) * unit}
	for i, x := range v {
		c.Vec[i] = float64(x) * unit
	}
	return c
}

func capAbs(d time.Duration, lim int64) int {
	x := int64(d)
	if x < 0 {
		x = -x
	}
	if x < 0 || x > lim { // x < 0: MinInt64
		x = lim
	}
	return int(x)
}

func rttExact(st h.Step) map[string]interface{} {
	sc := st.Int("sc")
	if sc < -9 || sc > 10 {
		h.Die("scale exponent %d out of range", sc)
	}
	unit := math.Ldexp(1, sc)            // seconds
	unitNs := int64(math.Ldexp(1e9, sc)) // whole nanoseconds for sc >= -9
	c1 := latticeCoord(st.Ints("v1"), st.Int("h1"), st.Int("a1"), unit)
	c2 := latticeCoord(st.Ints("v2"), st.Int("h2"), st.Int("a2"), unit)
	d12, e1 := distance(c1, c2)
	d21, e2 := distance(c2, c1)
	obs := map[string]interface{}{"ab": 0, "ba": 0, "rem": 0, "err": 0, "neg": 0, "dns": 0}
	if e1 != 0 || e2 != 0 {
		if e1 == 1 && e2 == 1 {
			obs["err"] = 1
		} else {
			obs["err"] = 2
		}
		return obs
	}
	q12, q21 := int64(d12)/unitNs, int64(d21)/unitNs
	if q12 > 1<<30 || q12 < -(1<<30) || q21 > 1<<30 || q21 < -(1<<30) {
		obs["rem"] = 1
		q12, q21 = 0, 0
	}
	obs["ab"], obs["ba"] = q12, q21
	if int64(d12)%unitNs != 0 || int64(d21)%unitNs != 0 {
		obs["rem"] = 1
	}
	obs["neg"] = b2i(d12 < 0 || d21 < 0)
	obs["dns"] = capAbs(d12-d21, 1000)
	return obs
}

var magnitudes = map[string]float64{"zero": 0, "ns": 1e-9, "ms": 1e-3, "s": 1, "max": 1e4}

func floatCoord(rng *rand.Rand, m float64) *coordinate.Coordinate {
	c := &coordinate.Coordinate{Vec: make([]float64, 8), Error: rng.Float64() * 1.5, Height: rng.Float64() * m}
	for i := range c.Vec {
		c.Vec[i] = (rng.Float64()*2 - 1) * m
	}
	return c
}

func rttFloat(st h.Step, rng *rand.Rand) map[string]interface{} {
	obs := map[string]interface{}{"ab": 0, "ba": 0, "rem": 0, "err": 0, "neg": 0, "dns": 0}
	worst := 0
	for k := 0; k < 40; k++ {
		c1, c2 := floatCoord(rng, magnitudes[st.Str("m1")]), floatCoord(rng, magnitudes[st.Str("m2")])
		raw := 0.0
		for i := range c1.Vec {
			raw += (c1.Vec[i] - c2.Vec[i]) * (c1.Vec[i] - c2.Vec[i])
		}
		raw = math.Sqrt(raw) + c1.Height + c2.Height
		switch st.Str("ac") {
		case "none":
		case "small":
			c1.Adjustment, c2.Adjustment = (rng.Float64()-0.5)*1e-3, (rng.Float64()-0.5)*1e-3
		case "cancel": // the adjusted distance lands within a few ulps of zero
			c1.Adjustment = (rng.Float64() - 0.5) * 2 * (raw + 1e-3)
			c2.Adjustment = -(raw + c1.Adjustment)
			switch k % 3 {
			case 1:
				c2.Adjustment = math.Nextafter(c2.Adjustment, math.Inf(1))
			case 2:
				c2.Adjustment = math.Nextafter(c2.Adjustment, math.Inf(-1))
			}
		case "negbig":
			c1.Adjustment, c2.Adjustment = -rng.Float64()*1e6, -rng.Float64()*1e9
		case "posbig":
			c1.Adjustment, c2.Adjustment = rng.Float64()*1e6, rng.Float64()*1e9
		case "huge":
			c1.Adjustment, c2.Adjustment = rng.Float64()*1e6, 1e10*(1+rng.Float64()*1e5)
		default:
			h.Die("adjustment class %q", st.Str("ac"))
		}
		d12, e1 := distance(c1, c2)
		d21, e2 := distance(c2, c1)
		if e1 != 0 || e2 != 0 {
			obs["err"] = 2
			continue
		}
		if d12 < 0 || d21 < 0 {
			obs["neg"] = 1
		}
		if x := capAbs(d12-d21, 1000); x > worst {
			worst = x
		}
	}
	obs["dns"] = worst
	return obs
}

// rttBound: ordinary coordinates (raw distance exactly 6 s) whose adjustments bring the adjusted distance to the
// boundary of the seconds -> Duration conversion: d0 = Duration(MaxInt64).Seconds() (d0*1e9 is exactly 2^63) and its
// -2..+2 ulp neighbours.  The split of the adjustment between the two coordinates is the class `ac`.
func rttBound(st h.Step) map[string]interface{} {
	d0 := time.Duration(math.MaxInt64).Seconds()
	targets := []float64{d0, d0, d0, d0, d0}
	targets[1] = math.Nextafter(d0, 0)
	targets[0] = math.Nextafter(targets[1], 0)
	targets[3] = math.Nextafter(d0, math.Inf(1))
	targets[4] = math.Nextafter(targets[3], math.Inf(1))
	if d0*1e9 != 9223372036854775808.0 {
		h.Die("harness: d0*1e9 is not 2^63")
	}
	obs := map[string]interface{}{"ab": 0, "ba": 0, "rem": 0, "err": 0, "neg": 0, "dns": 0}
	bnd := make([]int, len(targets))
	worst := 0
	for k, target := range targets {
		c1 := &coordinate.Coordinate{Vec: []float64{0, 0, 0}, Error: 0.5, Height: 0.5}
		c2 := &coordinate.Coordinate{Vec: []float64{3, 4, 0}, Error: 0.5, Height: 0.5}
		total := target - 6
		switch st.Str("ac") {
		case "split0":
			c1.Adjustment, c2.Adjustment = 0, total
		case "split1":
			c1.Adjustment, c2.Adjustment = total, 0
		case "split2":
			c1.Adjustment = 1024
			c2.Adjustment = total - 1024
		case "split3":
			c1.Adjustment = total / 2
			c2.Adjustment = total - c1.Adjustment
		default:
			h.Die("split class %q", st.Str("ac"))
		}
		if 6+(c1.Adjustment+c2.Adjustment) != target || (6+c1.Adjustment)+c2.Adjustment != target {
			h.Die("harness: split %s does not reach the target %v exactly", st.Str("ac"), target)
		}
		d12, e1 := distance(c1, c2)
		d21, e2 := distance(c2, c1)
		if e1 != 0 || e2 != 0 {
			obs["err"] = 2
			continue
		}
		if d12 < 0 || d21 < 0 {
			obs["neg"] = 1
			bnd[k] = -1
		} else {
			diff := int64(math.MaxInt64) - int64(d12)
			if diff > 1<<30 {
				diff = 1 << 30
			}
			bnd[k] = int(diff)
		}
		if x := capAbs(d12-d21, 1000); x > worst {
			worst = x
		}
	}
	obs["dns"] = worst
	obs["bnd"] = bnd
	return obs
}

func runRTT(in, out string) {
	scheds, err := h.ReadSchedules(in)
	if err != nil {
		h.Die("%v", err)
	}
	tr, err := h.NewTracer(out)
	if err != nil {
		h.Die("%v", err)
	}
	for _, s := range scheds {
		tr.Reset(s.ID, nil)
		rng := rand.New(rand.NewSource(h.Seed()*1000003 + int64(s.ID)))
		for _, st := range s.Steps {
			if st.Str("ep") == "exact" {
				tr.Step(st, rttExact(st))
			} else if st.Str("ep") == "bound" {
				tr.Step(st, rttBound(st))
			} else {
				tr.Step(st, rttFloat(st, rng))
			}
		}
	}
	if err := tr.Close(); err != nil {
		h.Die("%v", err)
	}
}
