package main

// C09: concretization of the MsgShapes inputs and their execution on real quiet nodes in child processes.
//
// parent (-mode shapes):       reads the vectors, runs children over batches, bisects on a crash, writes the trace
// child  (-mode shapes-child): executes inputs one after the other on real nodes; progress goes to an
//                              unbuffered file so that the parent knows where the process died

import (
	"bufio"
	"bytes"
	"encoding/binary"
	"encoding/json"
	"fmt"
	"math"
	"net"
	"os"
	"os/exec"
	"path/filepath"
	"strings"
	"time"

	"github.com/hashicorp/memberlist"
	"github.com/hashicorp/serf/serf"

	"verif/harness/internal/h"
	"verif/harness/internal/quiet"
)

// ---------------------------------------------------------------- a minimal msgpack writer (lets us lie)

type mp struct{ b []byte }

func (m *mp) raw(b ...byte) { m.b = append(m.b, b...) }
func (m *mp) nilv()         { m.raw(0xc0) }
func (m *mp) boolv(v bool) {
	if v {
		m.raw(0xc3)
	} else {
		m.raw(0xc2)
	}
}
func (m *mp) be(n int, v uint64) {
	var t [8]byte
	binary.BigEndian.PutUint64(t[:], v)
	m.raw(t[8-n:]...)
}
func (m *mp) uintv(u uint64) {
	if u < 128 {
		m.raw(byte(u))
		return
	}
	m.raw(0xcf)
	m.be(8, u)
}
func (m *mp) intv(i int64) {
	if i >= 0 {
		m.uintv(uint64(i))
		return
	}
	m.raw(0xd3)
	m.be(8, uint64(i))
}
func (m *mp) f64(x float64) { m.raw(0xcb); m.be(8, math.Float64bits(x)) }
func (m *mp) str(s string) {
	n := len(s)
	switch {
	case n < 32:
		m.raw(0xa0 | byte(n))
	case n < 256:
		m.raw(0xd9, byte(n))
	case n < 65536:
		m.raw(0xda)
		m.be(2, uint64(n))
	default:
		m.raw(0xdb)
		m.be(4, uint64(n))
	}
	m.raw([]byte(s)...)
}
func (m *mp) bin(b []byte) {
	n := len(b)
	switch {
	case n < 256:
		m.raw(0xc4, byte(n))
	case n < 65536:
		m.raw(0xc5)
		m.be(2, uint64(n))
	default:
		m.raw(0xc6)
		m.be(4, uint64(n))
	}
	m.raw(b...)
}
func (m *mp) arr(n int) {
	switch {
	case n < 16:
		m.raw(0x90 | byte(n))
	case n < 65536:
		m.raw(0xdc)
		m.be(2, uint64(n))
	default:
		m.raw(0xdd)
		m.be(4, uint64(n))
	}
}
func (m *mp) mapn(n int) {
	switch {
	case n < 16:
		m.raw(0x80 | byte(n))
	case n < 65536:
		m.raw(0xde)
		m.be(2, uint64(n))
	default:
		m.raw(0xdf)
		m.be(4, uint64(n))
	}
}

// ---------------------------------------------------------------- environment of one node

const (
	cfgKeyring = 1
	cfgCoords  = 2
)

type okMerge struct{}

func (okMerge) NotifyMerge([]*serf.Member) error { return nil }

type openQuery struct {
	lt uint64
	id uint32
}

type env struct {
	dir     string
	cfg     int
	net     *quiet.Net
	n       *quiet.Node
	peer    *quiet.Transport
	ctr     uint64               // unique ids / names / Lamport times
	queries map[string]openQuery // open queries of the node by context (resp family)
	qLTime  uint64               // the query of the context used last
	qID     uint32
	nProbes int
}

var envSeq int

func newEnv(dir string, cfg int) *env {
	envSeq++
	e := &env{dir: dir, cfg: cfg, net: quiet.NewNet(), ctr: 100}
	name := fmt.Sprintf("node-%d", envSeq)
	opt := func(c *serf.Config) {
		c.Merge = okMerge{}
		c.DisableCoordinates = cfg&cfgCoords == 0
		c.Tags = map[string]string{"role": "web", "dc": "x"}
		if cfg&cfgKeyring != 0 {
			key := bytes.Repeat([]byte{byte(envSeq)}, 32)
			kr, err := memberlist.NewKeyring(nil, key)
			if err != nil {
				h.Die("keyring: %v", err)
			}
			c.MemberlistConfig.Keyring = kr
			c.KeyringFile = filepath.Join(dir, fmt.Sprintf("keyring-%d-%d.json", os.Getpid(), envSeq))
		}
	}
	n, err := quiet.NewNode(e.net, name, nil, opt)
	if err != nil {
		h.Die("cannot create node: %v", err)
	}
	e.n = n
	e.peer = e.net.NewTransport("peer")
	n.Ev.NotifyJoin(n.MLNode("peer", e.peer, []byte{0xff, 0x80}))
	return e
}

func (e *env) close() {
	n := e.n
	go func() {
		defer func() { recover() }()
		n.Serf.Shutdown()
	}()
}

func (e *env) next() uint64 { e.ctr++; return e.ctr }

// probe: Members() answers and lists the node itself alive; a user event issued now is delivered
func (e *env) probe() (members, served int) {
	e.nProbes++
	if e.nProbes%64 == 0 {
		e.n.Drain()
		e.net.TakePackets()
	}
	mch := make(chan []serf.Member, 1)
	go func() { mch <- e.n.Serf.Members() }()
	select {
	case ms := <-mch:
		for _, m := range ms {
			if m.Name == e.n.Name && m.Status == serf.StatusAlive {
				members = 1
			}
		}
	case <-time.After(10 * time.Second):
	}
	want := fmt.Sprintf("probe-%d", e.next())
	if err := e.n.Serf.UserEvent("verif-probe", []byte(want), false); err != nil {
		return members, 0
	}
	deadline := time.After(10 * time.Second)
	for {
		select {
		case ev := <-e.n.Events:
			if ue, ok := ev.(serf.UserEvent); ok && ue.Name == "verif-probe" && string(ue.Payload) == want {
				return members, 1
			}
		case <-deadline:
			return members, 0
		}
	}
}

// ---------------------------------------------------------------- field-wise message construction

type fdef struct {
	name  string
	typ   string // uint str bytes bool filters liststr mapuint events
	valid func(m *mp)
}

func validEvents(m *mp, lt uint64, payload []byte) {
	m.arr(1)
	m.mapn(2)
	m.str("LTime")
	m.uintv(lt)
	m.str("Events")
	m.arr(1)
	m.mapn(2)
	m.str("Name")
	m.str("pp-event")
	m.str("Payload")
	if payload == nil {
		m.nilv()
	} else {
		m.bin(payload)
	}
}

func (e *env) fields(kind string) []fdef {
	u := func(v uint64) func(*mp) { return func(m *mp) { m.uintv(v) } }
	s := func(v string) func(*mp) { return func(m *mp) { m.str(v) } }
	b := func(v []byte) func(*mp) { return func(m *mp) { m.bin(v) } }
	lt := e.next()
	switch kind {
	case "leave":
		return []fdef{{"LTime", "uint", u(lt)}, {"Node", "str", s("ghost")}, {"Prune", "bool", func(m *mp) { m.boolv(lt%2 == 0) }}}
	case "join":
		return []fdef{{"LTime", "uint", u(lt)}, {"Node", "str", s("ghost")}}
	case "user":
		return []fdef{{"LTime", "uint", u(lt)}, {"Name", "str", s("ev")}, {"Payload", "bytes", b([]byte(fmt.Sprintf("p%d", lt)))},
			{"CC", "bool", func(m *mp) { m.boolv(false) }}}
	case "query":
		return []fdef{{"LTime", "uint", u(lt)}, {"ID", "uint", u(lt & 0xffffffff)}, {"Addr", "bytes", b(e.peer.IP.To4())},
			{"Port", "uint", u(uint64(e.peer.Port))}, {"SourceNode", "str", s("peer")}, {"Filters", "filters", func(m *mp) { m.arr(0) }},
			{"Flags", "uint", u(1)}, {"RelayFactor", "uint", u(0)}, {"Timeout", "uint", u(uint64(10 * time.Second))},
			{"Name", "str", s("plainq")}, {"Payload", "bytes", b([]byte("qp"))}}
	case "resp":
		e.ensureQuery("ack")
		return []fdef{{"LTime", "uint", u(e.qLTime)}, {"ID", "uint", u(uint64(e.qID))}, {"From", "str", s(fmt.Sprintf("from-%d", lt))},
			{"Flags", "uint", u(0)}, {"Payload", "bytes", b([]byte("answer"))}}
	case "pushpull":
		return []fdef{{"LTime", "uint", u(lt)},
			{"StatusLTimes", "mapuint", func(m *mp) { m.mapn(2); m.str("ghost2"); m.uintv(lt); m.str("peer"); m.uintv(lt) }},
			{"LeftMembers", "liststr", func(m *mp) { m.arr(1); m.str("ghost2") }},
			{"EventLTime", "uint", u(lt)},
			{"Events", "events", func(m *mp) { validEvents(m, lt, []byte(fmt.Sprintf("pp%d", lt))) }},
			{"QueryLTime", "uint", u(lt)}}
	}
	h.Die("no such message kind %q", kind)
	return nil
}

func nodeFilter(names ...string) []byte {
	m := &mp{}
	m.raw(0)
	m.arr(len(names))
	for _, n := range names {
		m.str(n)
	}
	return m.b
}

func tagFilter(tag, expr string) []byte {
	m := &mp{}
	m.raw(1)
	m.mapn(2)
	m.str("Tag")
	m.str(tag)
	m.str("Expr")
	m.str(expr)
	return m.b
}

// writeShape writes the value of one field under a shape; false = the field is left out
func writeShape(m *mp, f fdef, shape string) bool {
	switch shape {
	case "valid":
		f.valid(m)
	case "absent":
		return false
	case "nil":
		m.nilv()
	case "empty":
		switch f.typ {
		case "uint":
			m.uintv(0)
		case "str":
			m.str("")
		case "bytes":
			m.bin(nil)
		case "bool":
			m.boolv(false)
		case "mapuint":
			m.mapn(0)
		default:
			m.arr(0)
		}
	case "one":
		switch f.typ {
		case "uint":
			m.uintv(1)
		case "str":
			m.str("a")
		case "bytes":
			m.bin([]byte{1})
		case "bool":
			m.boolv(true)
		case "filters":
			m.arr(1)
			m.bin([]byte{0})
		case "liststr":
			m.arr(1)
			m.str("a")
		case "events":
			m.arr(1)
			m.nilv()
		case "mapuint":
			m.mapn(1)
			m.str("a")
			m.uintv(1)
		}
	case "wrong":
		switch f.typ {
		case "uint", "bool", "filters", "liststr", "events":
			m.str("x")
		case "str":
			m.uintv(7)
		case "bytes":
			m.mapn(0)
		case "mapuint":
			m.arr(1)
			m.uintv(1)
		}
	case "big":
		switch f.typ {
		case "uint":
			m.uintv(math.MaxUint64)
		case "str":
			m.str(strings.Repeat("A", 70000))
		case "bytes":
			m.bin(bytes.Repeat([]byte{0xff}, 70000))
		case "bool":
			m.uintv(1 << 40)
		case "filters":
			m.arr(3000)
			for i := 0; i < 3000; i++ {
				m.bin(tagFilter("role", ".*"))
			}
		case "liststr":
			m.arr(5000)
			for i := 0; i < 5000; i++ {
				m.str(fmt.Sprintf("g%d", i))
			}
		case "events":
			m.arr(600)
			for i := 0; i < 600; i++ {
				m.mapn(2)
				m.str("LTime")
				m.uintv(uint64(1000 + i))
				m.str("Events")
				m.arr(1)
				m.mapn(2)
				m.str("Name")
				m.str("bulk")
				m.str("Payload")
				m.bin([]byte(fmt.Sprintf("%d", i)))
			}
		case "mapuint":
			m.mapn(5000)
			for i := 0; i < 5000; i++ {
				m.str(fmt.Sprintf("g%d", i))
				m.uintv(uint64(i))
			}
		}
	case "lie":
		switch f.typ {
		case "uint":
			m.raw(0xcf, 0x01, 0x02)
		case "str":
			m.raw(0xdb, 0xff, 0xff, 0xff, 0xf0, 'a', 'b', 'c')
		case "bytes":
			m.raw(0xc6, 0xff, 0xff, 0xff, 0xf0, 'a', 'b', 'c')
		case "bool":
			m.raw(0xc1)
		case "mapuint":
			m.raw(0xdf, 0xff, 0xff, 0xff, 0xf0)
		default:
			m.raw(0xdd, 0xff, 0xff, 0xff, 0xf0)
		}
	default:
		h.Die("no such shape %q", shape)
	}
	return true
}

// encodeFields: msgpack map of the fields; lying fields go last so that the rest is still parsed
func encodeFields(fs []fdef, dev map[int]string) []byte {
	type item struct{ key, val []byte }
	var items, liars []item
	for i, f := range fs {
		shape := "valid"
		if s, ok := dev[i+1]; ok {
			shape = s
		}
		v := &mp{}
		if !writeShape(v, f, shape) {
			continue
		}
		k := &mp{}
		k.str(f.name)
		if shape == "lie" {
			liars = append(liars, item{k.b, v.b})
		} else {
			items = append(items, item{k.b, v.b})
		}
	}
	items = append(items, liars...)
	m := &mp{}
	m.mapn(len(items))
	for _, it := range items {
		m.raw(it.key...)
		m.raw(it.val...)
	}
	return m.b
}

func devOf(st h.Step) map[int]string {
	d := map[int]string{}
	if f := st.Int("f"); f != 0 {
		d[f] = st.Str("s")
	}
	if f := st.Int("f2"); f != 0 {
		d[f] = st.Str("s2")
	}
	return d
}

var typeBytes = map[string]int{"leave": 0, "join": 1, "pushpull": 2, "user": 3, "query": 4, "resp": 5, "conflictresp": 6,
	"keyreq": 7, "keyresp": 8, "relay": 9, "unknown10": 10, "unknown255": 255}

// ensureQuery: the node has an OPEN query of its own of the given context, so that replies reach the depths of
// handleQueryResponse (sendAck / sendResponse, the key manager's and the conflict resolver's reply loops):
//
//	ack      Serf.Query with RequestAck        noack   Serf.Query without RequestAck (no ack channel, no ack set)
//	closed   Serf.Query, then Close            key     KeyManager.ListKeys in flight (internal _serf_list-keys)
//	conflict name conflict resolution in flight (internal _serf_conflict, started by NotifyConflict)
func (e *env) ensureQuery(ctx string) {
	if e.queries == nil {
		e.queries = map[string]openQuery{}
	}
	if q, ok := e.queries[ctx]; ok {
		e.qLTime, e.qID = q.lt, q.id
		return
	}
	e.n.Drain()
	name := "verif-open-" + ctx
	switch ctx {
	case "ack", "noack", "closed":
		qr, err := e.n.Serf.Query(name, []byte("x"), &serf.QueryParam{RequestAck: ctx == "ack", Timeout: time.Hour})
		if err != nil {
			h.Die("cannot start a query: %v", err)
		}
		if ctx == "closed" {
			qr.Close()
		}
	case "key":
		name = "_serf_list-keys"
		go func() {
			defer func() { recover() }()
			e.n.Serf.KeyManager().ListKeys()
		}()
	case "conflict":
		name = "_serf_conflict"
		e.n.Conf.MemberlistConfig.Conflict.NotifyConflict(e.n.MLNode(e.n.Name, e.n.Tr, nil), e.n.MLNode(e.n.Name, e.peer, nil))
	default:
		h.Die("query context %q", ctx)
	}
	// the query shows up in the node's broadcast queue (bounded polling: the internal ones start in goroutines)
	deadline := time.Now().Add(10 * time.Second)
	for {
		for _, b := range e.n.Drain() {
			if len(b) > 0 && b[0] == quiet.TQuery {
				var q quiet.MsgQuery
				if quiet.Decode(b, &q) == nil && q.Name == name {
					e.queries[ctx] = openQuery{q.LTime, q.ID}
					e.qLTime, e.qID = q.LTime, q.ID
					return
				}
			}
		}
		if time.Now().After(deadline) {
			h.Die("did not see the node's own %s query in its broadcast queue", ctx)
		}
		time.Sleep(200 * time.Microsecond)
	}
}

func (e *env) respMsg(lt uint64, id uint32, from string, flags uint32, payload []byte, nilPayload bool) []byte {
	m := &mp{}
	m.raw(quiet.TQueryResponse)
	if payload == nil && !nilPayload { // Payload field absent
		m.mapn(4)
	} else {
		m.mapn(5)
	}
	m.str("LTime")
	m.uintv(lt)
	m.str("ID")
	m.uintv(uint64(id))
	m.str("From")
	m.str(from)
	m.str("Flags")
	m.uintv(uint64(flags))
	if payload == nil && !nilPayload {
		return m.b
	}
	m.str("Payload")
	if nilPayload {
		m.nilv()
	} else {
		m.bin(payload)
	}
	return m.b
}

func keyReqPayload(key []byte) []byte {
	m := &mp{}
	m.raw(7)
	m.mapn(1)
	m.str("Key")
	m.bin(key)
	return m.b
}

func (e *env) queryMsg(name string, payload []byte, filters [][]byte, flags uint32, relay uint8) []byte {
	lt := e.next()
	q := quiet.MsgQuery{LTime: lt, ID: uint32(lt), Addr: e.peer.IP.To4(), Port: uint16(e.peer.Port), SourceNode: "peer",
		Filters: filters, Flags: flags, RelayFactor: relay, Timeout: 10 * time.Second, Name: name, Payload: payload}
	return quiet.Encode(quiet.TQuery, &q)
}

var qnames = map[string]string{"plain": "plainq", "ping": "_serf_ping", "conflict": "_serf_conflict", "install-key": "_serf_install-key",
	"use-key": "_serf_use-key", "remove-key": "_serf_remove-key", "list-keys": "_serf_list-keys", "unknown": "_serf_bogus"}

func (e *env) qpayload(c string) []byte {
	switch c {
	case "empty":
		return []byte{}
	case "typebyte":
		return []byte{7}
	case "garbage":
		return []byte{7, 0xc1, 0xff, 0x00}
	case "validkey":
		return keyReqPayload(bytes.Repeat([]byte{0x42}, 32))
	case "shortkey":
		return keyReqPayload([]byte{1, 2, 3, 4, 5})
	case "ownname":
		return []byte(e.n.Name)
	case "othername":
		return []byte("peer")
	case "big":
		return bytes.Repeat([]byte{0xff}, 2000)
	}
	h.Die("payload class %q", c)
	return nil
}

func (e *env) qfilters(c string) [][]byte {
	switch c {
	case "none":
		return nil
	case "emptyfilter":
		return [][]byte{{}}
	case "typeonly":
		return [][]byte{{1}}
	case "unknowntype":
		return [][]byte{{7, 0x90}}
	case "badnode":
		return [][]byte{{0, 0xc1}}
	case "badtag":
		return [][]byte{{1, 0xc1}}
	case "badregex":
		return [][]byte{tagFilter("role", "(")}
	case "nodematch":
		return [][]byte{nodeFilter("zzz", e.n.Name)}
	case "nodemiss":
		return [][]byte{nodeFilter("zzz")}
	case "tagmatch":
		return [][]byte{tagFilter("role", "^w.b$"), tagFilter("nosuchtag", ".*")}
	case "tagmiss":
		return [][]byte{tagFilter("role", "^nomatch$")}
	}
	h.Die("filter class %q", c)
	return nil
}

func relayHeader(ip []byte, port int, zone, name string) []byte {
	m := &mp{}
	m.mapn(2)
	m.str("DestAddr")
	m.mapn(3)
	m.str("IP")
	m.bin(ip)
	m.str("Port")
	m.intv(int64(port))
	m.str("Zone")
	m.str(zone)
	m.str("DestName")
	m.str(name)
	return m.b
}

func (e *env) relayMsg(body, dest string) []byte {
	m := &mp{}
	m.raw(quiet.TRelay)
	switch body { // header-only classes
	case "nohdr":
		return m.b
	case "hdrnil":
		m.nilv()
		return m.b
	case "hdrwrong":
		m.str("x")
		return m.b
	case "hdrlie":
		m.raw(0xdf, 0xff, 0xff, 0xff, 0xf0)
		return m.b
	case "addrwrong":
		m.mapn(2)
		m.str("DestAddr")
		m.str("x")
		m.str("DestName")
		m.uintv(3)
		m.raw(e.respMsg(1, 1, "x", 0, nil, false)...)
		return m.b
	}
	switch dest {
	case "peer":
		m.raw(relayHeader(e.peer.IP.To4(), e.peer.Port, "", "peer")...)
	case "unknown":
		m.raw(relayHeader([]byte{10, 9, 9, 9}, 1, "", "nobody")...)
	case "zero":
		m.raw(relayHeader(nil, 0, "", "")...)
	case "badip":
		m.raw(relayHeader([]byte{1, 2, 3}, 70000, "zone%", "x")...)
	case "self":
		m.raw(relayHeader(e.n.Tr.IP.To4(), e.n.Tr.Port, "", e.n.Name)...)
	default:
		h.Die("dest class %q", dest)
	}
	switch body {
	case "none":
	case "onebyte":
		m.raw(5)
	case "resp":
		m.raw(e.respMsg(e.next(), 7, "peer", 0, []byte("r"), false)...)
	case "garbage":
		m.raw(0xff, 0xc1, 0x00)
	case "nested":
		in := &mp{}
		in.raw(quiet.TRelay)
		in.raw(relayHeader(e.peer.IP.To4(), e.peer.Port, "", "peer")...)
		in.raw(e.respMsg(e.next(), 7, "peer", 0, []byte("r"), false)...)
		m.raw(in.b...)
	case "user":
		lt := e.next()
		m.raw(quiet.Encode(quiet.TUserEvent, &quiet.MsgUserEvent{LTime: lt, Name: "relayed", Payload: []byte(fmt.Sprintf("r%d", lt))})...)
	default:
		h.Die("body class %q", body)
	}
	return m.b
}

func coordPayload(c string) []byte {
	m := &mp{}
	vec := []float64{0.001, -0.002, 0.003, 0, 0, 0.0005, 0, -0.001}
	errv, adj, height := 0.5, 0.001, 0.001
	switch c {
	case "empty":
		return nil
	case "veronly":
		return []byte{1}
	case "badver":
		m.raw(2)
	case "garbage":
		return []byte{1, 0xc1, 0xff}
	case "wrongtype":
		m.raw(1)
		m.mapn(2)
		m.str("Vec")
		m.str("x")
		m.str("Error")
		m.str("y")
		return m.b
	case "lie":
		m.raw(1)
		m.mapn(1)
		m.str("Vec")
		m.raw(0xdd, 0xff, 0xff, 0xff, 0xf0)
		return m.b
	default:
		m.raw(1)
	}
	switch c {
	case "vecnil":
		vec = nil
	case "vecwrongdim":
		vec = vec[:3]
	case "vecnan":
		vec[2] = math.NaN()
	case "vecinf":
		vec[0] = math.Inf(-1)
	case "vechuge":
		for i := range vec {
			vec[i] = 1e308
		}
	case "vecbig":
		vec = make([]float64, 100000)
	case "errnan":
		errv = math.NaN()
	case "errneg":
		errv = -5
	case "heightneg":
		height = -1e9
	case "adjinf":
		adj = math.Inf(1)
	}
	m.mapn(4)
	m.str("Vec")
	if vec == nil {
		m.nilv()
	} else {
		m.arr(len(vec))
		for _, x := range vec {
			m.f64(x)
		}
	}
	m.str("Error")
	m.f64(errv)
	m.str("Adjustment")
	m.f64(adj)
	m.str("Height")
	m.f64(height)
	return m.b
}

func metaBytes(c string) []byte {
	switch c {
	case "empty":
		return nil
	case "onebyte":
		return []byte{0x41}
	case "magiconly":
		return []byte{0xff}
	case "magicbad":
		return []byte{0xff, 0xc1}
	case "magicarray":
		return []byte{0xff, 0x91, 0x01}
	case "magicnil":
		return []byte{0xff, 0xc0}
	case "magiclie":
		return []byte{0xff, 0xdf, 0xff, 0xff, 0xff, 0xf0}
	case "role":
		return []byte("webserver")
	case "valid", "oversized":
		m := &mp{}
		m.raw(0xff)
		m.mapn(2)
		m.str("role")
		m.str("x")
		m.str("dc")
		if c == "oversized" {
			m.str(strings.Repeat("y", 600))
		} else {
			m.str("y")
		}
		return m.b
	}
	h.Die("meta class %q", c)
	return nil
}

func (e *env) nodeOf(nameC, addrC string, meta []byte) *memberlist.Node {
	var name string
	switch nameC {
	case "normal":
		name = fmt.Sprintf("m-%d", e.next())
	case "empty":
		name = ""
	case "hostile":
		name = "a\nb\x00\xff=,\t"
	case "long":
		name = strings.Repeat("n", 300)
	case "self":
		name = e.n.Name
	}
	nd := e.n.MLNode(name, e.peer, meta)
	k := e.next()
	switch addrC {
	case "v4":
		nd.Addr = net.IPv4(10, 1, byte(k>>8), byte(k)).To4()
	case "v6":
		nd.Addr = net.ParseIP("fe80::1")
	case "nil":
		nd.Addr = nil
	case "three":
		nd.Addr = net.IP{1, 2, 3}
	}
	return nd
}

// validEncoding: the byte strings whose every proper prefix is fed to the node (family "trunc")
func (e *env) validEncoding(kind string) []byte {
	switch kind {
	case "leave", "join", "user", "resp":
		return append([]byte{byte(typeBytes[kind])}, encodeFields(e.fields(kind), nil)...)
	case "query":
		return e.queryMsg("plainq", []byte("payload"), [][]byte{nodeFilter(e.n.Name), tagFilter("role", "w")}, 1, 1)
	case "relay":
		return e.relayMsg("resp", "peer")
	case "pushpull":
		return append([]byte{2}, encodeFields(e.fields("pushpull"), nil)...)
	case "ping":
		return coordPayload("valid")
	case "meta":
		return metaBytes("valid")
	case "keyquery":
		return keyReqPayload(bytes.Repeat([]byte{0x42}, 32))
	case "filter":
		return tagFilter("role", "^web$")
	}
	h.Die("no valid encoding %q", kind)
	return nil
}

// ---------------------------------------------------------------- executing one input

type shapeObs struct {
	Alive   int    `json:"alive"`
	Members int    `json:"members"`
	Served  int    `json:"served"`
	N       int    `json:"n"`
	Msg     string `json:"msg"`
}

// awaitPackets: bounded wait for positive evidence that the asynchronous part of an input has run
func (e *env) awaitPackets(want int, max time.Duration) {
	got := 0
	deadline := time.Now().Add(max)
	for {
		got += len(e.net.TakePackets())
		if got >= want || time.Now().After(deadline) {
			return
		}
		time.Sleep(200 * time.Microsecond)
	}
}

// feed runs the concrete calls of one input; calls counts the delegate calls made
func (e *env) feed(st h.Step, obs *shapeObs) {
	min := func(m, s int) {
		if m < obs.Members {
			obs.Members = m
		}
		if s < obs.Served {
			obs.Served = s
		}
	}
	d := e.n.Del
	switch st.Str("ep") {
	case "msg":
		kind := st.Str("kind")
		tb := typeBytes[kind]
		if c := st.Str("c1"); c != "ok" {
			tb = typeBytes[c]
		}
		buf := []byte{byte(tb)}
		if kind != "none" {
			buf = append(buf, encodeFields(e.fields(kind), devOf(st))...)
		}
		d.NotifyMsg(buf)
		obs.N = 1
	case "query":
		flags, relay := uint32(0), uint8(0)
		switch st.Str("fl") {
		case "ack":
			flags = 1
		case "ackrelay":
			flags, relay = 1, 1
		case "nobcast":
			flags = 2
		}
		e.net.TakePackets()
		d.NotifyMsg(e.queryMsg(qnames[st.Str("c1")], e.qpayload(st.Str("c2")), e.qfilters(st.Str("c3")), flags, relay))
		obs.N = 1
		pass := map[string]bool{"none": true, "nodematch": true, "tagmatch": true}[st.Str("c3")]
		if pass {
			want := 0
			if flags&1 != 0 {
				want++
			}
			switch st.Str("c1") {
			case "install-key", "use-key", "remove-key", "list-keys":
				want++
			case "conflict":
				if st.Str("c2") != "ownname" {
					want++
				}
			}
			if st.Str("c1") != "plain" {
				e.awaitPackets(want, 100*time.Millisecond)
			}
		}
	case "relay":
		c1 := st.Str("c1")
		d.NotifyMsg(e.relayMsg(c1, st.Str("c2")))
		obs.N = 1
	case "resp":
		e.ensureQuery(st.Str("kind"))
		lt, id := e.qLTime, e.qID
		switch st.Str("c3") {
		case "wrongid":
			id++
		case "wrongltime":
			lt += 1000
		}
		var pl []byte
		nilp := false
		switch st.Str("c1") {
		case "absent":
			pl = nil
		case "empty":
			pl = []byte{}
		case "nil":
			nilp = true
		case "one":
			pl = []byte{1}
		case "big":
			pl = bytes.Repeat([]byte{0xfe}, 5000)
		case "conflictresp":
			pl = []byte{6, 0xc1, 0x00}
		case "keyresp":
			pl = []byte{8, 0x91, 0xc0}
		}
		from := map[string]string{"peer": fmt.Sprintf("peer-%d", e.next()), "empty": "", "self": e.n.Name, "dup": "dup"}[st.Str("c2")]
		flags := uint32(0)
		if st.Str("fl") == "ack" {
			flags = 1
		}
		msg := e.respMsg(lt, id, from, flags, pl, nilp)
		d.NotifyMsg(msg)
		obs.N = 1
		if st.Str("c2") == "dup" {
			d.NotifyMsg(msg)
			obs.N = 2
		}
	case "merge":
		fs := e.fields("pushpull")
		lt := e.next()
		switch st.Str("c2") {
		case "nilentry":
			fs[4].valid = func(m *mp) {
				m.arr(2)
				m.nilv()
				in := &mp{}
				validEvents(in, lt, []byte("x"))
				m.raw(in.b[1:]...)
			}
		case "nilpayload":
			fs[4].valid = func(m *mp) { validEvents(m, lt, nil) }
		case "maxltime":
			for _, i := range []int{0, 3, 5} {
				fs[i].valid = func(m *mp) { m.uintv(math.MaxUint64) }
			}
			fs[4].valid = func(m *mp) { validEvents(m, math.MaxUint64, []byte("x")) }
		case "noevents":
			fs = append(fs[:4], fs[5:]...)
		case "dup":
			fs[4].valid = func(m *mp) {
				in := &mp{}
				validEvents(in, lt, []byte("same"))
				m.arr(2)
				m.raw(in.b[1:]...)
				m.raw(in.b[1:]...)
			}
		case "leftunknown":
			fs[2].valid = func(m *mp) { m.arr(2); m.str("nobody"); m.str(e.n.Name) }
		}
		var buf []byte
		switch st.Str("c1") {
		case "ok":
			buf = append([]byte{2}, encodeFields(fs, devOf(st))...)
		case "emptybuf":
			buf = nil
		case "wrongtype":
			buf = append([]byte{1}, encodeFields(fs, nil)...)
		case "typeonly":
			buf = []byte{2}
		case "garbage":
			buf = []byte{2, 0xc1, 0xff}
		}
		d.MergeRemoteState(buf, st.Str("fl") == "join")
		obs.N = 1
	case "ping":
		p := e.n.Conf.MemberlistConfig.Ping
		if p == nil {
			h.Die("ping input on a node without coordinates")
		}
		rtt := map[string]time.Duration{"neg": -time.Second, "zero": 0, "ok": 5 * time.Millisecond, "huge": 20 * time.Second}[st.Str("c2")]
		p.NotifyPingComplete(e.n.MLNode("peer", e.peer, nil), rtt, coordPayload(st.Str("c1")))
		obs.N = 1
	case "meta":
		nd := e.nodeOf(st.Str("c3"), st.Str("fl"), metaBytes(st.Str("c2")))
		mc := e.n.Conf.MemberlistConfig
		switch st.Str("c1") {
		case "join":
			e.n.Ev.NotifyJoin(nd)
		case "update":
			e.n.Ev.NotifyJoin(e.n.MLNode(nd.Name, e.peer, nil))
			e.n.Ev.NotifyUpdate(nd)
		case "leave":
			e.n.Ev.NotifyJoin(e.n.MLNode(nd.Name, e.peer, nil))
			if e.ctr%2 == 0 {
				nd.State = memberlist.StateLeft
			} else {
				nd.State = memberlist.StateDead
			}
			e.n.Ev.NotifyLeave(nd)
		case "merge":
			mc.Merge.NotifyMerge([]*memberlist.Node{e.n.MLNode("peer", e.peer, nil), nd})
		case "alive":
			mc.Alive.NotifyAlive(nd)
		case "conflict":
			existing := e.n.MLNode(nd.Name, e.n.Tr, nil)
			mc.Conflict.NotifyConflict(existing, nd)
		}
		obs.N = 1
	case "trunc":
		kind := st.Str("kind")
		enc := e.validEncoding(kind)
		from := 0
		if kind == "keyquery" || kind == "filter" {
			from = 1 // the zero-length payload / filter are inputs of the query family
		}
		for cut := from; cut < len(enc); cut++ {
			pre := enc[:cut]
			switch kind {
			case "pushpull":
				d.MergeRemoteState(pre, cut%2 == 0)
			case "ping":
				e.n.Conf.MemberlistConfig.Ping.NotifyPingComplete(e.n.MLNode("peer", e.peer, nil), 5*time.Millisecond, pre)
			case "meta":
				e.n.Ev.NotifyJoin(e.nodeOf("normal", "v4", pre))
			case "keyquery":
				e.net.TakePackets()
				d.NotifyMsg(e.queryMsg("_serf_install-key", pre, nil, 0, 0))
				e.awaitPackets(1, 100*time.Millisecond)
			case "filter":
				d.NotifyMsg(e.queryMsg("plainq", []byte("x"), [][]byte{pre}, 0, 0))
			default:
				d.NotifyMsg(pre)
			}
			obs.N++
			m, s := e.probe()
			min(m, s)
		}
	default:
		h.Die("no such entry point %q", st.Str("ep"))
	}
}

// ---------------------------------------------------------------- child

type shapeItem struct {
	I   int    `json:"i"`
	Act h.Step `json:"act"`
}

type shapeProgress struct {
	I   int       `json:"i"`
	Ph  string    `json:"ph"`
	Obs *shapeObs `json:"obs,omitempty"`
}

func runShapesChild(in, out, dir string) {
	linger := 150 * time.Millisecond
	if v := os.Getenv("VERIF_LINGER_MS"); v != "" {
		var ms int
		fmt.Sscanf(v, "%d", &ms)
		linger = time.Duration(ms) * time.Millisecond
	}
	f, err := os.Open(in)
	if err != nil {
		h.Die("%v", err)
	}
	var items []shapeItem
	sc := bufio.NewScanner(f)
	sc.Buffer(make([]byte, 1<<20), 1<<26)
	for sc.Scan() {
		var it shapeItem
		if err := json.Unmarshal(sc.Bytes(), &it); err != nil {
			h.Die("%v", err)
		}
		items = append(items, it)
	}
	f.Close()
	o, err := os.OpenFile(out, os.O_CREATE|os.O_WRONLY|os.O_APPEND, 0o644)
	if err != nil {
		h.Die("%v", err)
	}
	emit := func(p shapeProgress) {
		b, _ := json.Marshal(p)
		o.Write(append(b, '\n')) // unbuffered: survives the death of the process
	}
	envs := map[int]*env{}
	for _, it := range items {
		cfg := it.Act.Int("cfg")
		e := envs[cfg]
		if e == nil {
			e = newEnv(dir, cfg)
			envs[cfg] = e
		}
		emit(shapeProgress{I: it.I, Ph: "s"})
		obs := &shapeObs{Alive: 1, Members: 1, Served: 1}
		func() {
			// a panic in the goroutine that calls a delegate method is what kills a real node: memberlist calls
			// the delegates without recover.  Recovered here only to save the cost of a process per known crash.
			defer func() {
				if r := recover(); r != nil {
					obs.Alive = 0
					obs.Msg = fmt.Sprintf("panic in the calling goroutine: %v", r)
				}
			}()
			e.feed(it.Act, obs)
		}()
		if obs.Alive == 1 {
			if it.Act.Str("ep") != "trunc" {
				obs.Members, obs.Served = e.probe()
			}
		} else {
			e.close() // state after a panic is arbitrary: continue on a fresh node
			delete(envs, cfg)
		}
		if len(obs.Msg) > 300 {
			obs.Msg = obs.Msg[:300]
		}
		emit(shapeProgress{I: it.I, Ph: "d", Obs: obs})
	}
	time.Sleep(linger) // lets goroutines spawned by the last inputs run; the parent re-runs suspects alone
	emit(shapeProgress{I: -1, Ph: "end"})
	o.Close()
	os.Exit(0)
}

// ---------------------------------------------------------------- parent

type childResult struct {
	done    map[int]*shapeObs
	started []int
	ended   bool
	rc      int
	stderr  string
}

func runChild(dir string, items []shapeItem, lingerMs int, tag string) childResult {
	self, err := os.Executable()
	if err != nil {
		h.Die("%v", err)
	}
	inP := filepath.Join(dir, "batch-"+tag+".ndjson")
	outP := filepath.Join(dir, "progress-"+tag+".ndjson")
	os.Remove(outP)
	var buf bytes.Buffer
	for _, it := range items {
		b, _ := json.Marshal(it)
		buf.Write(b)
		buf.WriteByte('\n')
	}
	if err := os.WriteFile(inP, buf.Bytes(), 0o644); err != nil {
		h.Die("%v", err)
	}
	cmd := exec.Command(self, "-mode", "shapes-child", "-in", inP, "-out", outP, "-dir", dir)
	cmd.Env = append(os.Environ(), fmt.Sprintf("VERIF_LINGER_MS=%d", lingerMs))
	var stderr bytes.Buffer
	cmd.Stderr = &stderr
	if err := cmd.Start(); err != nil {
		h.Die("cannot start child: %v", err)
	}
	waitCh := make(chan error, 1)
	go func() { waitCh <- cmd.Wait() }()
	res := childResult{done: map[int]*shapeObs{}}
	select {
	case err := <-waitCh:
		if err != nil {
			res.rc = 1
			if ee, ok := err.(*exec.ExitError); ok {
				res.rc = ee.ExitCode()
			}
		}
	case <-time.After(10 * time.Minute):
		cmd.Process.Kill() // only the process started here
		<-waitCh
		h.Die("child process hung (killed after 10 minutes); stderr: %s", tail(stderr.String(), 2000))
	}
	res.stderr = stderr.String()
	if res.rc == 3 {
		h.Die("child: %s", tail(res.stderr, 2000))
	}
	pf, err := os.Open(outP)
	if err == nil {
		sc := bufio.NewScanner(pf)
		sc.Buffer(make([]byte, 1<<20), 1<<26)
		for sc.Scan() {
			var p shapeProgress
			if json.Unmarshal(sc.Bytes(), &p) != nil {
				continue
			}
			switch p.Ph {
			case "s":
				res.started = append(res.started, p.I)
			case "d":
				res.done[p.I] = p.Obs
			case "end":
				res.ended = true
			}
		}
		pf.Close()
	}
	os.Remove(inP)
	os.Remove(outP)
	return res
}

func tail(s string, n int) string {
	if len(s) > n {
		return s[len(s)-n:]
	}
	return s
}

func panicLine(stderr string) string {
	for _, l := range strings.Split(stderr, "\n") {
		if strings.HasPrefix(l, "panic:") || strings.HasPrefix(l, "fatal error:") {
			if len(l) > 300 {
				l = l[:300]
			}
			return l
		}
	}
	return tail(strings.TrimSpace(stderr), 200)
}

func runShapes(in, out, dir string) {
	scheds, err := h.ReadSchedules(in)
	if err != nil {
		h.Die("%v", err)
	}
	var items []shapeItem
	for _, s := range scheds {
		if len(s.Steps) != 1 {
			h.Die("shapes: one input per schedule expected")
		}
		items = append(items, shapeItem{I: len(items), Act: s.Steps[0]})
	}
	results := make([]*shapeObs, len(items))
	crashes, children := 0, 0
	pos := 0
	for pos < len(items) {
		end := pos + 1500
		if end > len(items) {
			end = len(items)
		}
		batch := items[pos:end]
		children++
		r := runChild(dir, batch, 150, "b")
		for i, o := range r.done {
			results[i] = o
		}
		if r.rc == 0 && r.ended {
			pos = end
			continue
		}
		// the process died.  Suspects: the input in flight, then the ones before it (a goroutine spawned by an
		// earlier input may have panicked later).  Each suspect runs alone in a fresh process with a long linger.
		crashes++
		last := pos - 1
		if len(r.started) > 0 {
			last = r.started[len(r.started)-1]
		}
		culprit := -1
		var msg string
		for c := last; c >= pos && c > last-12; c-- {
			children++
			solo := runChild(dir, []shapeItem{items[c]}, 600, "s")
			if !(solo.rc == 0 && solo.ended) {
				culprit, msg = c, panicLine(solo.stderr)
				break
			}
		}
		if culprit < 0 {
			// not reproducible by any single input: report the input in flight, marked as sequence dependent
			culprit, msg = last, "not reproduced alone; process died with: "+panicLine(r.stderr)
			if culprit < pos {
				h.Die("child died before starting any input: %s", tail(r.stderr, 2000))
			}
		}
		results[culprit] = &shapeObs{Alive: 0, N: 1, Msg: msg}
		fmt.Fprintf(os.Stderr, "crash: input %d %v: %s\n", culprit, items[culprit].Act, msg)
		pos = culprit + 1
	}
	tr, err := h.NewTracer(out)
	if err != nil {
		h.Die("%v", err)
	}
	for i, it := range items {
		if results[i] == nil {
			h.Die("no result for input %d", i)
		}
		tr.Reset(scheds[i].ID, nil)
		tr.Step(it.Act, results[i])
	}
	if err := tr.Close(); err != nil {
		h.Die("%v", err)
	}
	fmt.Fprintf(os.Stderr, "shapes: %d inputs, %d child processes, %d process deaths\n", len(items), children, crashes)
}
