package main

func runCoord(in, out string)        {}
func runHandler(in, out, dir string) {}
