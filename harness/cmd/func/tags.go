package main

// C32: tag codec through real quiet nodes (encode at A: Config.Tags / SetTags -> NodeMeta; decode at B:
// NotifyJoin / NotifyUpdate -> Members()), the metadata size gate, user events / queries / replies across
// two real nodes, and the relay branch of NotifyMsg with capture on the transport.

import (
	"bytes"
	"fmt"
	"net"
	"strings"
	"time"

	"github.com/hashicorp/go-msgpack/v2/codec"
	"github.com/hashicorp/serf/serf"

	"verif/harness/internal/h"
	"verif/harness/internal/quiet"
)

var symBytes = []byte{0xff, 'a', 0x00}
var tagKeyNames = []string{"role", "", "\xffk"}

func concSyms(v interface{}) []byte {
	l, _ := v.([]interface{})
	out := make([]byte, len(l))
	for i, x := range l {
		out[i] = symBytes[h.ToInt(x)]
	}
	return out
}

func absBytes(b []byte) []int {
	out := make([]int, len(b))
	for i, c := range b {
		out[i] = 9
		for s, sb := range symBytes {
			if sb == c {
				out[i] = s
			}
		}
	}
	return out
}

func concTags(v interface{}) map[string]string {
	t := v.([]interface{})
	m := map[string]string{}
	for i, o := range t {
		p := o.([]interface{})
		if h.ToInt(p[0]) == 1 {
			m[tagKeyNames[i]] = string(concSyms(p[1]))
		}
	}
	return m
}

func absTags(m map[string]string) []interface{} {
	res := make([]interface{}, len(tagKeyNames))
	known := 0
	for i, k := range tagKeyNames {
		if v, ok := m[k]; ok {
			known++
			res[i] = []interface{}{1, absBytes([]byte(v))}
		} else {
			res[i] = []interface{}{0, []int{}}
		}
	}
	if known != len(m) { // a key nobody set
		res[0] = []interface{}{1, []int{9}}
	}
	return res
}

type tagEnv struct {
	net        *quiet.Net
	recv       map[int]*quiet.Node       // receivers by protocol version
	a          map[int]*quiet.Node       // long-lived senders by protocol version (events)
	qa, qb, qc *quiet.Node               // query family: origin, responder, relay (set per input from qnodes)
	qnodes     map[string][3]*quiet.Node // by via ("-" / "named")
	rnodes     [2]*quiet.Node            // relay family, via "named": forwarder, destination
	seq        int
	names      int
	uses       map[int]int
	evRecv     map[int]*quiet.Node
}

func withPV(pv int, tags map[string]string) quiet.Opt {
	return func(c *serf.Config) {
		c.ProtocolVersion = uint8(pv)
		c.Tags = tags
	}
}

var errPanicked = fmt.Errorf("panicked")

// node creates a quiet node; a panic inside serf.Create / memberlist.Create (metadata that does not fit) is
// returned as errPanicked
func (e *tagEnv) node(prefix string, pv int, tags map[string]string) (n *quiet.Node, err error) {
	e.names++
	defer func() {
		if r := recover(); r != nil {
			n, err = nil, errPanicked
		}
	}()
	return quiet.NewNode(e.net, fmt.Sprintf("%s-%d", prefix, e.names), nil, withPV(pv, tags))
}

func setTags(n *quiet.Node, tags map[string]string) (err error) {
	defer func() {
		if r := recover(); r != nil {
			err = errPanicked
		}
	}()
	return n.Serf.SetTags(tags)
}

// namedNode: a node whose memberlist requires node names on every address it sends to
func (e *tagEnv) namedNode(prefix string) *quiet.Node {
	e.names++
	n, err := quiet.NewNode(e.net, fmt.Sprintf("%s-%d", prefix, e.names), nil, withPV(5, nil),
		func(c *serf.Config) { c.MemberlistConfig.RequireNodeNames = true })
	if err != nil {
		h.Die("%v", err)
	}
	return n
}

func (e *tagEnv) receiver(pv int) *quiet.Node {
	e.uses[pv]++
	if n := e.recv[pv]; n != nil {
		if e.uses[pv]%256 != 0 {
			return n
		}
		shutdown(n) // keeps the member list of the receiver short
	}
	n, err := e.node("recv", pv, nil)
	if err != nil {
		h.Die("receiver: %v", err)
	}
	e.recv[pv] = n
	return n
}

func nodeMeta(n *quiet.Node, limit int) (meta []byte, panicked bool) {
	defer func() {
		if r := recover(); r != nil {
			panicked = true
		}
	}()
	return n.Del.NodeMeta(limit), false
}

func memberTags(b *quiet.Node, name string) (map[string]string, bool) {
	for _, m := range b.Serf.Members() {
		if m.Name == name {
			return m.Tags, true
		}
	}
	return nil, false
}

func shutdown(n *quiet.Node) {
	if n != nil {
		n.Serf.Shutdown()
	}
}

func (e *tagEnv) runTagsInput(st h.Step) map[string]interface{} {
	pv, tags := st.Int("pv"), concTags(st["tags"])
	b := e.receiver(st.Int("pvb"))
	obs := map[string]interface{}{"ok": 0, "seen": absTags(nil)}
	var a *quiet.Node
	var err error
	switch st.Str("via") {
	case "create":
		a, err = e.node("a", pv, tags)
		if err != nil {
			return obs
		}
		defer shutdown(a)
		meta, p := nodeMeta(a, 512)
		if p {
			return obs
		}
		b.Ev.NotifyJoin(b.MLNode(a.Name, a.Tr, meta))
	case "settags":
		a, err = e.node("a", pv, map[string]string{"role": "init", "other": "x"})
		if err != nil {
			h.Die("cannot create node: %v", err)
		}
		defer shutdown(a)
		meta0, _ := nodeMeta(a, 512)
		b.Ev.NotifyJoin(b.MLNode(a.Name, a.Tr, meta0))
		if err := setTags(a, tags); err != nil {
			return obs
		}
		meta, p := nodeMeta(a, 512)
		if p {
			return obs
		}
		b.Ev.NotifyUpdate(b.MLNode(a.Name, a.Tr, meta))
	}
	got, ok := memberTags(b, a.Name)
	if !ok {
		return obs
	}
	obs["ok"] = 1
	obs["seen"] = absTags(got)
	return obs
}

// sizedTags: a tag map whose encoding under protocol pv has exactly L bytes
func sizedTags(pv, L int) map[string]string {
	if pv < 3 {
		return map[string]string{"role": strings.Repeat("a", L)}
	}
	for hdr := 1; hdr <= 3; hdr++ {
		n := L - 6 - hdr
		if n < 0 {
			continue
		}
		ok := (hdr == 1 && n < 32) || (hdr == 2 && n >= 32 && n < 256) || (hdr == 3 && n >= 256)
		if ok {
			return map[string]string{"pad": strings.Repeat("a", n)}
		}
	}
	h.Die("no tag map of encoded length %d", L)
	return nil
}

func (e *tagEnv) runSizeInput(st h.Step) map[string]interface{} {
	pv, L := st.Int("pv"), st.Int("L")
	tags := sizedTags(pv, L)
	obs := map[string]interface{}{"ok": 0, "len": 0}
	var a *quiet.Node
	var err error
	switch st.Str("via") {
	case "create":
		a, err = e.node("s", pv, tags)
		if err == errPanicked { // accepted by serf's own check, then memberlist refused the metadata by panicking
			obs["ok"], obs["len"] = 1, 100000
			return obs
		}
		if err != nil {
			return obs
		}
		defer shutdown(a)
	case "settags":
		a, err = e.node("s", pv, nil)
		if err != nil {
			h.Die("cannot create node: %v", err)
		}
		defer shutdown(a)
		if err := setTags(a, tags); err != nil {
			// rejected: the node must still produce its old, fitting metadata
			if meta, p := nodeMeta(a, 512); err == errPanicked || p || len(meta) > 512 {
				obs["ok"], obs["len"] = 1, 100000 // "accepted" in effect: metadata does not fit any more
			}
			return obs
		}
	}
	meta, _ := nodeMeta(a, 1<<20)
	obs["ok"], obs["len"] = 1, len(meta)
	if len(meta) != L {
		h.Die("harness: sized tags for pv %d have %d bytes, wanted %d", pv, len(meta), L)
	}
	return obs
}

func (e *tagEnv) sender(pv int) *quiet.Node {
	if n := e.a[pv]; n != nil {
		return n
	}
	n, err := e.node("send", pv, nil)
	if err != nil {
		h.Die("sender: %v", err)
	}
	e.a[pv] = n
	return n
}

func (e *tagEnv) runEventInput(st h.Step) map[string]interface{} {
	// one receiver per sender: the senders' Lamport clocks are independent here, and a receiver rightly drops
	// an event it has already seen with the same time, name and payload
	a, b := e.sender(st.Int("pv")), e.evRecv[st.Int("pv")]
	if b == nil {
		var err error
		if b, err = e.node("evrecv", 5, nil); err != nil {
			h.Die("%v", err)
		}
		e.evRecv[st.Int("pv")] = b
	}
	name, payload := string(concSyms(st["s1"])), concSyms(st["s2"])
	a.Drain()
	obs := map[string]interface{}{"n": 0, "name": []int{}, "payload": []int{}, "cc": 0}
	if err := a.Serf.UserEvent(name, payload, st.Int("cc") == 1); err != nil {
		return obs
	}
	var raw []byte
	for _, m := range a.Drain() {
		if len(m) > 0 && m[0] == quiet.TUserEvent {
			raw = m
		}
	}
	if raw == nil {
		return obs
	}
	for len(b.Events) > 0 {
		<-b.Events
	}
	b.Del.NotifyMsg(raw)
	deadline := time.After(5 * time.Second)
	for {
		select {
		case ev := <-b.Events:
			if ue, ok := ev.(serf.UserEvent); ok {
				obs["n"] = 1
				obs["name"], obs["payload"], obs["cc"] = absBytes([]byte(ue.Name)), absBytes(ue.Payload), b2i(ue.Coalesce)
				return obs
			}
		case <-deadline:
			return obs
		}
	}
}

type relayHdr struct {
	DestAddr net.UDPAddr
	DestName string
}

func relayEnvelope(dest *quiet.Transport, destName string, inner []byte) []byte {
	buf := bytes.NewBuffer(nil)
	buf.WriteByte(quiet.TRelay)
	hd := codec.MsgpackHandle{}
	if err := codec.NewEncoder(buf, &hd).Encode(relayHdr{DestAddr: net.UDPAddr{IP: dest.IP, Port: dest.Port}, DestName: destName}); err != nil {
		h.Die("%v", err)
	}
	buf.Write(inner)
	return buf.Bytes()
}

// forwarded: the user messages node `from` sent to `to` since the last TakePackets, waiting (bounded) for one
func (e *tagEnv) forwarded(from, to string, wait time.Duration, want func([]byte) bool) [][]byte {
	var res [][]byte
	deadline := time.Now().Add(wait)
	for {
		for _, p := range e.net.TakePackets() {
			if p.From == from && p.To == to {
				for _, um := range quiet.UserMsgs(p.Buf) {
					if want(um) {
						res = append(res, um)
					}
				}
			}
		}
		if len(res) > 0 || time.Now().After(deadline) {
			return res
		}
		time.Sleep(200 * time.Microsecond)
	}
}

func (e *tagEnv) runRelayInput(st h.Step) map[string]interface{} {
	named := st.Str("via") == "named"
	b, a := e.receiver(5), e.sender(5)
	destName := string(concSyms(st["s2"]))
	wait := 5 * time.Second
	if named {
		if e.rnodes[0] == nil {
			e.rnodes = [2]*quiet.Node{e.namedNode("rfwd"), e.namedNode("rdst")}
		}
		b, a = e.rnodes[0], e.rnodes[1]
		destName = a.Name
		wait = 1500 * time.Millisecond
	}
	e.seq++
	inner := quiet.Encode(quiet.TQueryResponse, &quiet.MsgQueryResponse{LTime: uint64(1000000 + e.seq), ID: uint32(e.seq),
		From: "x", Payload: concSyms(st["s1"])})
	env := relayEnvelope(a.Tr, destName, inner)
	b.Drain()
	e.net.TakePackets()
	b.Del.NotifyMsg(env)
	got := e.forwarded(b.Name, a.Name, wait, func(um []byte) bool { return len(um) > 0 && um[0] == quiet.TQueryResponse })
	same := 0
	if len(got) > 0 && bytes.Equal(got[0], inner) {
		same = 1
	}
	return map[string]interface{}{"same": same, "n": len(got)}
}

func (e *tagEnv) runQueryInput(st h.Step) map[string]interface{} {
	via := st.Str("via")
	named := via == "named"
	if e.qnodes == nil {
		e.qnodes = map[string][3]*quiet.Node{}
	}
	if _, ok := e.qnodes[via]; !ok {
		var ns [3]*quiet.Node
		for i := range ns {
			if named {
				ns[i] = e.namedNode("qn")
			} else {
				var err error
				if ns[i], err = e.node("q", 5, nil); err != nil {
					h.Die("%v", err)
				}
			}
		}
		// B knows A and C as members (needed by relayResponse)
		ns[1].Ev.NotifyJoin(ns[1].MLNode(ns[0].Name, ns[0].Tr, nil))
		ns[1].Ev.NotifyJoin(ns[1].MLNode(ns[2].Name, ns[2].Tr, nil))
		e.qnodes[via] = ns
	}
	e.qa, e.qb, e.qc = e.qnodes[via][0], e.qnodes[via][1], e.qnodes[via][2]
	a, b := e.qa, e.qb
	wait := 5 * time.Second
	if named {
		// the direct reply B -> A is lost on the transport (still captured): only the relayed copy can arrive
		wait = 1500 * time.Millisecond
		e.net.Drop = func(from, to string, buf []byte) bool {
			if from != b.Name || to != a.Name {
				return false
			}
			for _, um := range quiet.UserMsgs(buf) {
				if len(um) > 0 && um[0] == quiet.TQueryResponse {
					return true
				}
			}
			return false
		}
		defer func() { e.net.Drop = nil }()
	}
	name, payload, reply := string(concSyms(st["s1"])), concSyms(st["s2"]), concSyms(st["s3"])
	obs := map[string]interface{}{"name": []int{9}, "payload": []int{9}, "reply": []int{9}, "replies": 0, "same": 0}
	a.Drain()
	qr, err := a.Serf.Query(name, payload, &serf.QueryParam{RelayFactor: 1, Timeout: 30 * time.Second})
	if err != nil {
		return obs
	}
	defer qr.Close()
	var raw []byte
	for _, m := range a.Drain() {
		if len(m) > 0 && m[0] == quiet.TQuery {
			raw = m
		}
	}
	if raw == nil {
		return obs
	}
	for len(b.Events) > 0 {
		<-b.Events
	}
	e.net.TakePackets()
	b.Del.NotifyMsg(raw)
	var q *serf.Query
	deadline := time.After(5 * time.Second)
WAIT:
	for {
		select {
		case ev := <-b.Events:
			if qq, ok := ev.(*serf.Query); ok {
				q = qq
				break WAIT
			}
		case <-deadline:
			return obs
		}
	}
	obs["name"], obs["payload"] = absBytes([]byte(q.Name)), absBytes(q.Payload)
	if err := q.Respond(reply); err != nil {
		return obs
	}
	// the reply at the origin
	select {
	case r, ok := <-qr.ResponseCh():
		if ok && r.From == b.Name {
			obs["replies"] = 1
			obs["reply"] = absBytes(r.Payload)
		}
	case <-time.After(wait):
	}
	// bytes on the wire: direct reply B->A, envelope B->relay, forwarded relay->A
	var direct, envelope, fwd []byte
	var relayName string
	end := time.Now().Add(wait)
	isResp := func(um []byte) bool { return len(um) > 0 && um[0] == quiet.TQueryResponse }
	for {
		for _, p := range e.net.TakePackets() {
			for _, um := range quiet.UserMsgs(p.Buf) {
				switch {
				case p.From == b.Name && len(um) > 0 && um[0] == quiet.TRelay:
					envelope, relayName = um, p.To
				case p.From == b.Name && p.To == a.Name && isResp(um) && direct == nil:
					direct = um
				case p.From != b.Name && p.To == a.Name && isResp(um):
					fwd = um
				case p.From == b.Name && p.To == a.Name && isResp(um) && relayName == a.Name:
					fwd = um // the origin itself was picked as relay and forwarded to itself
				}
			}
		}
		if (direct != nil && envelope != nil && fwd != nil) || time.Now().After(end) {
			break
		}
		time.Sleep(200 * time.Microsecond)
	}
	if direct != nil && envelope != nil && fwd != nil && bytes.Equal(fwd, direct) && bytes.HasSuffix(envelope, direct) {
		obs["same"] = 1
	}
	return obs
}

func runTags(in, out, dir string) {
	scheds, err := h.ReadSchedules(in)
	if err != nil {
		h.Die("%v", err)
	}
	tr, err := h.NewTracer(out)
	if err != nil {
		h.Die("%v", err)
	}
	e := &tagEnv{net: quiet.NewNet(), recv: map[int]*quiet.Node{}, a: map[int]*quiet.Node{}, uses: map[int]int{}, evRecv: map[int]*quiet.Node{}}
	for _, s := range scheds {
		tr.Reset(s.ID, nil)
		for _, st := range s.Steps {
			var obs map[string]interface{}
			switch st.Str("ep") {
			case "tags":
				obs = e.runTagsInput(st)
			case "size":
				obs = e.runSizeInput(st)
			case "event":
				obs = e.runEventInput(st)
			case "query":
				obs = e.runQueryInput(st)
			case "relay":
				obs = e.runRelayInput(st)
			default:
				h.Die("no such ep %q", st.Str("ep"))
			}
			tr.Step(st, obs)
			e.net.TakePackets()
		}
	}
	if err := tr.Close(); err != nil {
		h.Die("%v", err)
	}
}
