// Driver for C19: runs small concurrent programs of Time/Increment/Witness calls on the real
// (yield-instrumented) LamportClock under every schedule the cooperative scheduler enumerates, and
// records after each scheduling step the counter and, when a call returned in that step, its result.
package main

import (
	"encoding/json"
	"flag"
	"fmt"
	"os"

	"github.com/hashicorp/serf/serf"

	"verif/harness/internal/h"
	"verif/harness/internal/sched"
)

type op struct {
	Op string `json:"op"`
	V  int    `json:"v"`
}
type program struct {
	ID   int    `json:"id"`
	Prog [][]op `json:"prog"`
}

var max uint64

// gap embedding of the model range 0..MAX into uint64 (MAX |-> 2^64-1)
func up(v int) uint64 {
	if uint64(v) <= max/2 {
		return uint64(v)
	}
	return ^uint64(0) - (max - uint64(v))
}
func down(x uint64) int {
	if x <= max/2 {
		return int(x)
	}
	if d := ^uint64(0) - x; d < max-max/2 {
		return int(max - d)
	}
	return 99999
}

func main() {
	in := flag.String("in", "", "programs ndjson")
	out := flag.String("out", "", "trace ndjson")
	m := flag.Int("max", 31, "model MAX")
	maxpre := flag.Int("maxpre", 2, "preemption bound for the exhaustive enumeration")
	budget := flag.Int("budget", 200, "schedules per program (DFS), then random")
	nrand := flag.Int("random", 20, "additional random schedules per program")
	flag.Parse()
	max = uint64(*m)
	f, err := os.ReadFile(*in)
	if err != nil {
		h.Die("%v", err)
	}
	tr, err := h.NewTracer(*out)
	if err != nil {
		h.Die("%v", err)
	}
	dec := json.NewDecoder(bytesReader(f))
	traceID := 0
	total, exhaustive, progs := 0, 0, 0
	for dec.More() {
		var p program
		if err := dec.Decode(&p); err != nil {
			h.Die("%v", err)
		}
		progs++
		sc := func(s *sched.S) (func(sched.Step), func(sched.Result)) {
			clock := new(serf.LamportClock)
			serf.VerifYield = s.Yield
			serf.VerifYieldBlocked = s.YieldBlocked
			type fin struct {
				ret int
			}
			pending := map[int]*fin{}
			for ti, ops := range p.Prog {
				ti, ops := ti, ops
				s.Go(fmt.Sprintf("t%d", ti+1), func() {
					for _, o := range ops {
						r := 0
						switch o.Op {
						case "time":
							r = down(uint64(clock.Time()))
						case "inc":
							r = down(uint64(clock.Increment()))
						case "wit":
							clock.Witness(serf.LamportTime(up(o.V)))
						}
						pending[ti+1] = &fin{ret: r} // only the running thread touches the map
						s.Yield("op-done")
					}
				})
			}
			tr.Reset(traceID, map[string]interface{}{"prog": p.Prog, "pid": p.ID})
			traceID++
			onStep := func(st sched.Step) {
				obs := map[string]interface{}{"c": down(uint64(clock.Time0())), "fin": false, "ret": 0, "at": st.To}
				if fp := pending[st.Thread]; fp != nil && st.To == "op-done" {
					obs["fin"] = true
					obs["ret"] = fp.ret
					delete(pending, st.Thread)
				}
				tr.Step(map[string]interface{}{"a": "step", "t": st.Thread}, obs)
			}
			return onStep, func(r sched.Result) {
				if r.Deadlock || r.Hung {
					h.Die("lamport scenario deadlocked/hung: %+v", r)
				}
			}
		}
		st := sched.Explore(sc, *maxpre, *budget, h.Seed(), false)
		total += st.Schedules
		if st.Exhaustive {
			exhaustive++
		}
		if !st.Exhaustive || *maxpre >= 0 {
			st2 := sched.Random(sc, *nrand, h.Seed()*7919+int64(p.ID), false)
			total += st2.Schedules
		}
	}
	serf.VerifYield = func(string) {}
	if err := tr.Close(); err != nil {
		h.Die("%v", err)
	}
	json.NewEncoder(os.Stdout).Encode(map[string]int{"programs": progs, "schedules": total, "dfs_complete": exhaustive})
}
