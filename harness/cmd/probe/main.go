package main

import (
	"fmt"

	"github.com/hashicorp/serf/serf"
)

func main() {
	var c serf.LamportClock
	c.Witness(5)
	fmt.Println(c.Time())
}
