package main

// C07: programs of operations (spec/QueryReply.tla) executed on a real quiet Serf node.
//
//	query k   n.Serf.Query(name, payload, &QueryParam{RequestAck: true, Timeout: T_k})
//	reply     n.Del.NotifyMsg(<messageQueryResponse in wire format>)  (LTime, ID of query idr or an id no
//	          query has, From = responder name, ack flag; payload = tag)
//	dl k      the (virtual) clock passes Deadline() of query k
//	timer k   the body given to time.AfterFunc by registerQueryResponse for query k runs
//	recv k    the application drains AckCh()/ResponseCh() of query k without blocking
//
// Virtual-time build (default): serf/serf.go and serf/query.go are yield-instrumented copies of the working
// tree in which time.AfterFunc / time.Now are routed to the hooks of hooks/serf_queryflow, so the harness
// owns the clock and runs the unchanged timer body itself.  "pre" operations run one after another on the
// driver's goroutine; "threads" run under the cooperative scheduler (one managed goroutine at a time, from
// yield to yield), every schedule being one trace.
//
// Real-time build (-realtime): unchanged files, real clock, real timers; only sequential programs in which
// every "dl k" is directly followed by "timer k" (= wait until the query has really timed out).

import (
	"encoding/json"
	"fmt"
	"math/rand"
	"strings"
	"sync/atomic"
	"time"

	"github.com/hashicorp/serf/serf"

	"verif/harness/internal/quiet"
	"verif/harness/internal/sched"
)

type opRec struct {
	Op   string `json:"op"`
	K    int    `json:"k"`
	LT   int    `json:"lt"`
	Idr  int    `json:"idr"`
	From int    `json:"from"`
	Ack  int    `json:"ack"`
	Tag  int    `json:"tag"`
}

var noOp = opRec{Op: "none"}

type c07prog struct {
	ID      int       `json:"id"`
	Pre     []opRec   `json:"pre"`
	Threads [][]opRec `json:"threads"`
	Budget  int       `json:"budget"` // schedules to enumerate (0: the -budget flag)
}

type rcvRec struct {
	K          int     `json:"k"`
	Ack        []int   `json:"ack"`
	Resp       [][]int `json:"resp"`
	AckClosed  bool    `json:"ackClosed"`
	RespClosed bool    `json:"respClosed"`
}

func noRcv() rcvRec { return rcvRec{Ack: []int{}, Resp: [][]int{}} }

type qinfo struct {
	resp    *serf.QueryResponse
	body    func()
	timeout time.Duration
	dlDone  bool
}

type world struct {
	n        *quiet.Node
	realtime bool
	nq, nn   int
	q        []*qinfo // 1-based
	names    []string // 1-based responder names
	base     time.Time
	vnow     int64
	seen     map[*serf.QueryResponse]bool
	bogusID  uint32
	// effects of the operation being executed
	rcv rcvRec
	pan int
	// skipped: a real-time schedule was overtaken by the clock
	overtaken bool
	// abort: the schedule is being abandoned (threads spinning on a lock nobody will release)
	abort bool
}

type abortSentinel struct{}

var cur *world

func init() {
	serf.VerifNow = func() time.Time {
		w := cur
		if w == nil || w.realtime {
			return time.Now()
		}
		return w.base.Add(time.Duration(atomic.LoadInt64(&w.vnow)))
	}
	serf.VerifAfterFunc = func(d time.Duration, f func()) *time.Timer {
		w := cur
		if w == nil || w.realtime {
			return time.AfterFunc(d, f)
		}
		w.onArm(d, f)
		return nil
	}
}

var namePool = []string{"resp-a", "resp b", "r\tc", "ünï", "#4", "Resp-A"}

func newWorld(p *c07prog, realtime bool, rng *rand.Rand) *world {
	w := &world{realtime: realtime, nq: *fNQ, nn: *fNN, seen: map[*serf.QueryResponse]bool{}, rcv: noRcv()}
	w.base = time.Unix(1_700_000_000, 0)
	net := quiet.NewNet()
	net.Capture = false
	net.Cut = func(from, to string) bool { return true } // nothing is delivered: the node hears only the harness
	nd, err := quiet.NewNode(net, fmt.Sprintf("self-%d", rng.Intn(1000)), nil)
	if err != nil {
		die("create: %v", err)
	}
	w.n = nd
	perm := rng.Perm(len(namePool))
	w.names = []string{""}
	for i := 0; i < w.nn; i++ {
		w.names = append(w.names, namePool[perm[i]])
	}
	// deadlines pass in the order of the program's dl operations: timeout of the r-th one = unit * base^(r+1)
	w.q = make([]*qinfo, w.nq+1)
	rank := map[int]int{}
	visit := func(ops []opRec) {
		for _, o := range ops {
			if o.Op == "dl" || o.Op == "expire" {
				if _, ok := rank[o.K]; !ok {
					rank[o.K] = len(rank)
				}
			}
		}
	}
	visit(p.Pre)
	for _, t := range p.Threads {
		visit(t)
	}
	for k := 1; k <= w.nq; k++ {
		r, ok := rank[k]
		if !ok {
			r = len(rank) + k + 3
		}
		var d time.Duration
		if realtime {
			d = 15 * time.Millisecond
			for i := 0; i < r; i++ {
				d *= 3
			}
			if !ok {
				d = time.Hour + time.Duration(k)*time.Minute
			}
		} else {
			d = time.Second
			for i := 0; i <= r; i++ {
				d *= 4
			}
		}
		w.q[k] = &qinfo{timeout: d}
	}
	cur = w
	return w
}

func (w *world) close() {
	cur = nil
	_ = w.n.Serf.Shutdown()
}

// onArm is called (virtual-time build) from inside registerQueryResponse, under queryLock, right after
// the map store: it captures the timer body and the QueryResponse just registered.
func (w *world) onArm(d time.Duration, f func()) {
	for k := 1; k <= w.nq; k++ {
		if w.q[k].timeout == d {
			w.q[k].body = f
			for _, e := range w.n.Serf.VerifQFOpenUnlocked() {
				if !w.seen[e.Resp] {
					w.seen[e.Resp] = true
					if w.q[k].resp == nil {
						w.q[k].resp = e.Resp
					}
				}
			}
			return
		}
	}
	die("timer armed with an unknown timeout %v", d)
}

func (w *world) nodeID(name string) int {
	for i := 1; i < len(w.names); i++ {
		if w.names[i] == name {
			return i
		}
	}
	return 99
}

func (w *world) queryOf(r *serf.QueryResponse) int {
	for k := 1; k <= w.nq; k++ {
		if w.q[k].resp == r {
			return k
		}
	}
	return 99
}

func (w *world) ready(o opRec) bool {
	switch o.Op {
	case "reply":
		return o.Idr == 0 || w.q[o.Idr].resp != nil
	case "dl", "recv", "expire":
		return w.q[o.K].resp != nil
	case "timer":
		return w.q[o.K].dlDone
	}
	return true
}

func panicCode(r interface{}) int {
	s := fmt.Sprint(r)
	switch {
	case strings.Contains(s, "close of closed channel"):
		return 1
	case strings.Contains(s, "send on closed channel"):
		return 2
	}
	return 9
}

// execOp runs one whole operation on the calling goroutine.
func (w *world) execOp(o opRec) {
	defer func() {
		if r := recover(); r != nil {
			if _, ok := r.(abortSentinel); ok {
				return
			}
			w.pan = panicCode(r)
		}
	}()
	switch o.Op {
	case "query":
		qi := w.q[o.K]
		resp, err := w.n.Serf.Query("verif-q", []byte{byte(o.K)}, &serf.QueryParam{RequestAck: true, Timeout: qi.timeout})
		if err != nil {
			die("Query: %v", err)
		}
		if qi.resp == nil {
			qi.resp = resp
			w.seen[resp] = true
		} else if qi.resp != resp {
			die("query %d: the registered QueryResponse is not the one Query() returned", o.K)
		}
		for j := 1; j <= w.nq; j++ {
			if j != o.K && w.q[j].resp != nil && w.q[j].resp.VerifID() == resp.VerifID() {
				die("two queries drew the same random id (probability 2^-31): rerun")
			}
		}
	case "reply":
		var id uint32
		if o.Idr == 0 {
			id = w.bogus()
		} else {
			id = w.q[o.Idr].resp.VerifID()
		}
		var flags uint32
		if o.Ack == 1 {
			flags = quiet.FlagAck
		}
		w.n.Del.NotifyMsg(quiet.Encode(quiet.TQueryResponse, quiet.MsgQueryResponse{
			LTime: uint64(o.LT), ID: id, From: w.names[o.From], Flags: flags, Payload: []byte{byte(o.Tag >> 8), byte(o.Tag)}}))
	case "dl":
		qi := w.q[o.K]
		if w.realtime {
			for !time.Now().After(qi.resp.Deadline()) {
				time.Sleep(200 * time.Microsecond)
			}
			if !qi.resp.Finished() {
				die("Finished() false after the deadline")
			}
		} else {
			v := int64(qi.resp.Deadline().Sub(w.base)) + 1
			if v > atomic.LoadInt64(&w.vnow) {
				atomic.StoreInt64(&w.vnow, v)
			}
		}
		qi.dlDone = true
	case "timer":
		qi := w.q[o.K]
		if w.realtime {
			// the real timer fires by itself: wait (bounded) until its body has run to the end
			deadline := time.Now().Add(5 * time.Second)
			for time.Now().Before(deadline) {
				if qi.resp.VerifQFState(false).Closed {
					break
				}
				time.Sleep(100 * time.Microsecond)
			}
			w.n.Serf.VerifQFOpen(false) // the body holds queryLock until it is done
		} else if qi.body != nil {
			qi.body()
		}
	case "expire": // real-time runs: the deadline passes and the real timer fires right behind it
		if !w.realtime {
			die("expire is a real-time operation")
		}
		w.execOp(opRec{Op: "dl", K: o.K})
		w.execOp(opRec{Op: "timer", K: o.K})
	case "recv":
		w.rcv = w.drain(o.K)
	default:
		die("unknown operation %q", o.Op)
	}
}

func (w *world) bogus() uint32 {
	if w.bogusID == 0 {
		w.bogusID = 0x5eadbeef
	}
	for {
		clash := false
		for k := 1; k <= w.nq; k++ {
			if w.q[k].resp != nil && w.q[k].resp.VerifID() == w.bogusID {
				clash = true
			}
		}
		if !clash {
			return w.bogusID
		}
		w.bogusID++
	}
}

// drain is the application: it reads both channels of query k until they would block or are closed.
func (w *world) drain(k int) rcvRec {
	r := noRcv()
	r.K = k
	resp := w.q[k].resp
	if ch := resp.AckCh(); ch != nil {
	ACK:
		for {
			select {
			case v, ok := <-ch:
				if !ok {
					r.AckClosed = true
					break ACK
				}
				r.Ack = append(r.Ack, w.nodeID(v))
			default:
				break ACK
			}
		}
	}
RESP:
	for {
		select {
		case v, ok := <-resp.ResponseCh():
			if !ok {
				r.RespClosed = true
				break RESP
			}
			tag := -1
			if len(v.Payload) == 2 {
				tag = int(v.Payload[0])<<8 | int(v.Payload[1])
			}
			r.Resp = append(r.Resp, []int{w.nodeID(v.From), tag})
		default:
			break RESP
		}
	}
	return r
}

type qObs struct {
	St     int   `json:"st"`
	LT     int   `json:"lt"`
	Locked bool  `json:"locked"`
	Acks   []int `json:"acks"`
	Resps  []int `json:"resps"`
	Closed bool  `json:"closed"`
	NA     int   `json:"na"`
	NR     int   `json:"nr"`
}

type c07Obs struct {
	Clock   int     `json:"clock"`
	QLocked bool    `json:"qlocked"`
	Open    [][]int `json:"open"`
	Q       []qObs  `json:"q"`
	Rcv     rcvRec  `json:"rcv"`
	Beg     opRec   `json:"beg"`
	Fin     opRec   `json:"fin"`
	Pan     int     `json:"pan"`
}

// observe projects the node's state.  try=true (scheduler runs): never blocks, flags what a parked
// thread has locked.
func (w *world) observe(try bool, beg, fin opRec) c07Obs {
	o := c07Obs{Clock: int(w.n.Serf.VerifQueryClock()), Open: [][]int{}, Beg: beg, Fin: fin, Rcv: w.rcv, Pan: w.pan}
	w.rcv = noRcv()
	w.pan = 0
	locked, entries := w.n.Serf.VerifQFOpen(try)
	o.QLocked = locked
	for _, e := range entries {
		o.Open = append(o.Open, []int{int(e.LTime), w.queryOf(e.Resp)})
	}
	for k := 1; k <= w.nq; k++ {
		qo := qObs{Acks: []int{}, Resps: []int{}}
		if r := w.q[k].resp; r != nil {
			st := r.VerifQFState(try)
			qo.St, qo.LT, qo.Locked, qo.Closed, qo.NA, qo.NR = 2, int(st.LTime), st.Locked, st.Closed, st.NAck, st.NResp
			for _, n := range st.Acks {
				qo.Acks = append(qo.Acks, w.nodeID(n))
			}
			for _, n := range st.Responses {
				qo.Resps = append(qo.Resps, w.nodeID(n))
			}
			if st.Cap != 1 {
				die("channel capacity %d, the model assumes 1 (memberlist.NumMembers of a single node)", st.Cap)
			}
		}
		o.Q = append(o.Q, qo)
	}
	return o
}

type opAct struct {
	A string `json:"a"`
	O opRec  `json:"o"`
}
type stepAct struct {
	A string `json:"a"`
	T int    `json:"t"`
}

// macro executes one whole operation on the driver's goroutine and logs it.
func (w *world) macro(tr *tracer, o opRec) {
	if w.realtime {
		// the schedule must stay ahead of the real clock: give up (no verdict) when a deadline that the
		// schedule has not passed yet is about to pass by itself
		for k := 1; k <= w.nq; k++ {
			if qi := w.q[k]; qi.resp != nil && !qi.dlDone && time.Until(qi.resp.Deadline()) < 5*time.Millisecond {
				w.overtaken = true
				return
			}
		}
	}
	w.execOp(o)
	if w.realtime {
		// ... and must still be ahead after the operation: otherwise what it did raced the real timer
		for k := 1; k <= w.nq; k++ {
			if qi := w.q[k]; qi.resp != nil && !qi.dlDone && time.Until(qi.resp.Deadline()) < time.Millisecond {
				w.overtaken = true
				return
			}
		}
	}
	tr.step(opAct{A: "op", O: o}, w.observe(false, o, o))
}

func c07CrashLine(last traceLine, code int) []byte {
	// the last observation with the panic recorded; the operation is unknown to the model (divergence)
	obs, _ := last.Obs.(map[string]interface{})
	if obs == nil {
		return nil
	}
	obs["pan"] = code
	obs["beg"] = noOp
	obs["fin"] = noOp
	obs["rcv"] = noRcv()
	b, _ := json.Marshal(traceLine{Act: opAct{A: "op", O: opRec{Op: "crash"}}, Obs: obs})
	return append(b, '\n')
}

func runC07(inputs []json.RawMessage, tr *tracer) summary {
	sum := summary{}
	traceID := 0
	for idx := *fSkip; idx < len(inputs); idx++ {
		var p c07prog
		if err := json.Unmarshal(inputs[idx], &p); err != nil {
			die("%v", err)
		}
		progress(*fOut, idx)
		sum["programs"]++
		if len(p.Threads) == 0 {
			rng := rand.New(rand.NewSource(seed()*1000003 + int64(p.ID)))
			w := newWorld(&p, *fRealtime, rng)
			serf.VerifYield = func(string) {}
			serf.VerifYieldBlocked = func(string) {}
			tr.flush()
			tr.reset(*fIDBase+p.ID, map[string]interface{}{"prog": [][]opRec{}, "pid": p.ID})
			for _, o := range p.Pre {
				w.macro(tr, o)
				if w.overtaken {
					break
				}
				if *fRealtime {
					tr.flush()
				}
			}
			if w.overtaken {
				sum["overtaken"]++
			}
			w.close()
			sum["schedules"]++
			tr.flush()
			continue
		}
		if *fRealtime {
			die("real-time mode runs sequential programs only")
		}
		sc := func(s *sched.S) (func(sched.Step), func(sched.Result)) {
			rng := rand.New(rand.NewSource(seed()*1000003 + int64(p.ID)))
			w := newWorld(&p, false, rng)
			serf.VerifYield = s.Yield
			serf.VerifYieldBlocked = func(l string) {
				if w.abort {
					panic(abortSentinel{})
				}
				s.YieldBlocked(l)
			}
			tr.reset(*fIDBase+traceID, map[string]interface{}{"prog": p.Threads, "pid": p.ID})
			traceID++
			for _, o := range p.Pre {
				w.macro(tr, o)
			}
			nt := len(p.Threads)
			begF := make([]opRec, nt+1)
			finF := make([]opRec, nt+1)
			for t := range begF {
				begF[t], finF[t] = noOp, noOp
			}
			for ti, ops := range p.Threads {
				ti, ops := ti+1, ops
				s.Go(fmt.Sprintf("t%d", ti), func() {
					for _, o := range ops {
						for !w.ready(o) {
							if w.abort {
								return
							}
							s.YieldBlocked("wait")
						}
						begF[ti] = o
						w.execOp(o)
						finF[ti] = o
						s.Yield("op-done")
					}
				})
			}
			// consecutive steps of one thread are merged into one line, cut when an operation returns
			type pend struct {
				t        int
				beg, fin opRec
				obs      c07Obs
			}
			var pd *pend
			flushPd := func() {
				if pd != nil {
					pd.obs.Beg, pd.obs.Fin = pd.beg, pd.fin
					tr.step(stepAct{A: "step", T: pd.t}, pd.obs)
					sum["lines"]++
					pd = nil
				}
			}
			nsteps := 0
			onStep := func(st sched.Step) {
				sum["steps"]++
				if nsteps++; nsteps > 6000 && !w.abort {
					// threads spinning on a lock that will not be released (e.g. after a panic inside a critical
					// section): abandon the schedule, what was logged so far stays
					w.abort = true
					sum["abandoned"]++
				}
				if nsteps > 60000 {
					die("program %d: a schedule exceeded 60000 steps", p.ID)
				}
				// a step that only failed to take a lock, or found its operation not ready yet, changed nothing
				if st.To == "wait" || strings.HasSuffix(st.To, ":lock") {
					return
				}
				if pd != nil && pd.t != st.Thread {
					flushPd()
				}
				if pd == nil {
					pd = &pend{t: st.Thread, beg: noOp, fin: noOp}
					pd.obs.Rcv = noRcv()
				}
				if begF[st.Thread].Op != "none" {
					pd.beg = begF[st.Thread]
					begF[st.Thread] = noOp
				}
				keepRcv, keepPan := pd.obs.Rcv, pd.obs.Pan
				pd.obs = w.observe(true, noOp, noOp)
				if pd.obs.Rcv.K == 0 {
					pd.obs.Rcv = keepRcv
				}
				if pd.obs.Pan == 0 {
					pd.obs.Pan = keepPan
				}
				if finF[st.Thread].Op != "none" {
					pd.fin = finF[st.Thread]
					finF[st.Thread] = noOp
					flushPd()
				}
			}
			return onStep, func(r sched.Result) {
				flushPd()
				if r.Deadlock {
					sum["deadlocks"]++
				}
				if r.Hung {
					sum["hung"]++
				}
				if !r.Deadlock && !r.Hung && !w.abort {
					// the application reads what is left
					for k := 1; k <= w.nq; k++ {
						if w.q[k].resp != nil {
							w.macro(tr, opRec{Op: "recv", K: k})
						}
					}
				}
				w.close()
				tr.flush()
			}
		}
		budget := p.Budget
		if budget == 0 {
			budget = *fBudget
		}
		sum["schedules"] += explorePrio(sc, len(p.Threads), budget, seed()*7919+int64(p.ID))
		st2 := sched.Random(sc, *fRandom, seed()*104729+int64(p.ID), false)
		sum["schedules"] += st2.Schedules
	}
	serf.VerifYield = func(string) {}
	serf.VerifYieldBlocked = func(string) {}
	return sum
}

// explorePrio enumerates schedules by thread priorities with change points (the PCT scheme, made systematic):
// the runnable thread of highest priority runs until it finishes or blocks; at a change point the running
// thread drops to the lowest priority.  Priority orders: the given order, its reverse, their rotations, then
// seeded random ones; change points: none, then one (occasionally two) at seeded positions.  A thread that is
// only waiting for another one's progress ("wait") is never preferred over one that can make progress.
// This reaches every "X runs up to a point, then everybody else, then X continues" interleaving with a
// handful of runs per point, which a depth-first enumeration of the same budget does not.
func explorePrio(sc sched.Scenario, nt, budget int, sd int64) int {
	rng := rand.New(rand.NewSource(sd))
	var perms [][]int
	id := make([]int, nt)
	rev := make([]int, nt)
	for i := range id {
		id[i] = i + 1
		rev[i] = nt - i
	}
	for r := 0; r < nt; r++ {
		perms = append(perms, append(append([]int{}, id[r:]...), id[:r]...))
		perms = append(perms, append(append([]int{}, rev[r:]...), rev[:r]...))
	}
	runOne := func(prio []int, cps map[int]bool) int {
		pr := append([]int{}, prio...)
		s := sched.New()
		onStep, finish := sc(s)
		lastT := 0
		lastRan := map[int]int{}
		nstep, progressAt := 0, 0
		stuck := func(label string) bool { return label == "wait" || strings.HasSuffix(label, ":lock") }
		res := s.Run(func(step int, elig []*sched.Thread) int {
			if cps[step] && lastT != 0 {
				for i, t := range pr {
					if t == lastT {
						pr = append(append(pr[:i:i], pr[i+1:]...), t)
						break
					}
				}
			}
			best, bestRank, bestWait := 0, 1<<30, true
			for i, t := range elig {
				rank := 1 << 29
				for j, x := range pr {
					if x == t.ID {
						rank = j
					}
				}
				// a thread that failed to take a lock, or waits for another one's progress, tries again only
				// after some thread has made real progress since (several such threads would otherwise keep
				// each other "eligible" for ever while the thread they depend on never runs)
				wait := stuck(t.Label) && progressAt <= lastRan[t.ID]
				if (bestWait && !wait) || (bestWait == wait && rank < bestRank) {
					best, bestRank, bestWait = i, rank, wait
				}
			}
			return best
		}, -1, func(st sched.Step) {
			lastT = st.Thread
			nstep++
			lastRan[st.Thread] = nstep
			if !stuck(st.To) {
				progressAt = nstep + 1
			}
			onStep(st)
		})
		finish(res)
		return len(res.Steps)
	}
	n := 0
	length := runOne(id, nil)
	n++
	for r := 0; n < budget; r++ {
		var prio []int
		if r < len(perms) {
			prio = perms[r]
		} else if r%3 == 0 {
			prio = make([]int, nt)
			for i, x := range rng.Perm(nt) {
				prio[i] = x + 1
			}
		} else {
			prio = perms[r%len(perms)]
		}
		cps := map[int]bool{}
		if r >= 2 {
			cps[rng.Intn(length+1)] = true
			if r%4 == 3 {
				cps[rng.Intn(length+1)] = true
			}
		}
		runOne(prio, cps)
		n++
	}
	return n
}
