package main

// C22 / C23 (spec/KeyOps.tla): cluster key operations on real quiet Serf nodes.
//
//	keyring   a node with a memberlist Keyring and a KeyringFile receives the real internal queries
//	          _serf_install-key / _serf_use-key / _serf_remove-key (wire format, through NotifyMsg); the step
//	          is complete when its reply packet shows up on the transport; after every step the file is loaded
//	          through the agent's own loader (agent.Create with KeyringFile) and compared with the live ring.
//	keyagg    KeyManager.ListKeys / InstallKey / UseKey / RemoveKey on the first node of a quiet cluster with
//	          the wanted number of memberlist members; the internal query is read off the broadcast queue and
//	          the per-node replies of the input are injected for its (LTime, ID).
//	keytrunc  a node holding N keys answers a real _serf_list-keys query under a given
//	          QueryResponseSizeLimit; the reply packet is captured on the transport.

import (
	"bytes"
	"encoding/base64"
	"encoding/json"
	"fmt"
	"io"
	"math/rand"
	"os"
	"path/filepath"
	"regexp"
	"sort"
	"strconv"
	"strings"
	"sync"
	"time"

	"github.com/hashicorp/go-msgpack/v2/codec"
	"github.com/hashicorp/memberlist"
	"github.com/hashicorp/serf/cmd/serf/command/agent"
	"github.com/hashicorp/serf/serf"

	"verif/harness/internal/quiet"
)

const (
	msgKeyRequest  = 7
	msgKeyResponse = 8
)

type keyRequest struct{ Key []byte }
type nodeKeyResponse struct {
	Result     bool
	Message    string
	Keys       []string
	PrimaryKey string
}

func mpack(t byte, v interface{}) []byte {
	buf := bytes.NewBuffer(nil)
	buf.WriteByte(t)
	h := codec.MsgpackHandle{}
	if err := codec.NewEncoder(buf, &h).Encode(v); err != nil {
		panic(err)
	}
	return buf.Bytes()
}

func munpack(b []byte, v interface{}) error {
	h := codec.MsgpackHandle{}
	return codec.NewDecoder(bytes.NewReader(b), &h).Decode(v)
}

// encQuery: a serf query message as another node would send it.
func encQuery(name string, lt uint64, id uint32, asker *quiet.Transport, payload []byte) []byte {
	return quiet.Encode(quiet.TQuery, quiet.MsgQuery{LTime: lt, ID: id, Addr: []byte(asker.IP.To4()), Port: uint16(asker.Port),
		SourceNode: asker.Name, Timeout: time.Minute, Name: name, Payload: payload})
}

// awaitReply polls the captured packets for the query response with the given id sent to the asker.
// stop() may report that no reply will come (positive evidence, e.g. an error line in the node's log).
func awaitReply(net *quiet.Net, asker *quiet.Transport, id uint32, stop func() bool) (raw []byte, resp quiet.MsgQueryResponse, ok bool) {
	raw, resp, ok, timedOut := awaitReplyT(net, asker, id, stop)
	if timedOut {
		die("no reply and no evidence that none will come for query id %d within 10s", id)
	}
	return raw, resp, ok
}

// awaitReplyT: as awaitReply, but a timeout is reported to the caller (what the node under test does or fails
// to do is an observation, not a harness fault).
func awaitReplyT(net *quiet.Net, asker *quiet.Transport, id uint32, stop func() bool) (raw []byte, resp quiet.MsgQueryResponse, ok, timedOut bool) {
	deadline := time.Now().Add(10 * time.Second)
	for time.Now().Before(deadline) {
		for _, p := range net.TakePackets() {
			if p.ToAddr != asker.Addr() {
				continue
			}
			for _, m := range quiet.UserMsgs(p.Buf) {
				if len(m) > 0 && m[0] == quiet.TQueryResponse {
					var r quiet.MsgQueryResponse
					if quiet.Decode(m, &r) == nil && r.ID == id {
						return m, r, true, false
					}
				}
			}
		}
		if stop != nil && stop() {
			// one more look: the reply may have been sent just before the evidence appeared
			for _, p := range net.TakePackets() {
				for _, m := range quiet.UserMsgs(p.Buf) {
					if len(m) > 0 && m[0] == quiet.TQueryResponse && p.ToAddr == asker.Addr() {
						var r quiet.MsgQueryResponse
						if quiet.Decode(m, &r) == nil && r.ID == id {
							return m, r, true, false
						}
					}
				}
			}
			return nil, resp, false, false
		}
		time.Sleep(50 * time.Microsecond)
	}
	return nil, resp, false, true
}

// ---------------------------------------------------------------------------------------------- keyring (C22)

type kopStep struct {
	A  string `json:"a"`
	Op string `json:"op"`
	K  int    `json:"k"`
}
type keyringInput struct {
	ID    int       `json:"id"`
	Init  []int     `json:"init"`
	Steps []kopStep `json:"steps"`
}

func keyBytes(k int) []byte {
	n := map[int]int{1: 16, 2: 24, 3: 32, 4: 15, 5: 33}[k]
	b := make([]byte, n)
	for i := range b {
		b[i] = byte(0x10*k + i)
	}
	return b
}

func keyID(b []byte) int {
	for k := 1; k <= 5; k++ {
		if bytes.Equal(b, keyBytes(k)) {
			return k
		}
	}
	return 99
}

type loadObs struct {
	OK   bool  `json:"ok"`
	Keys []int `json:"keys"`
}
type kringObs struct {
	Ring []int   `json:"ring"`
	Load loadObs `json:"load"`
	Res  bool    `json:"res"`
	FChg bool    `json:"fchg"`
	Rep  bool    `json:"rep"` // the request was answered with a decodable key response (API calls: returned)
}

// loadKeyring is the next start of the agent: agent.Create with KeyringFile runs the agent's loader and leaves
// the keyring in the serf configuration.
func loadKeyring(path string) (lo loadObs, ring *memberlist.Keyring) {
	lo.Keys = []int{}
	sc := serf.DefaultConfig()
	ac := agent.DefaultConfig()
	ac.KeyringFile = path
	if _, err := agent.Create(ac, sc, io.Discard); err != nil {
		return lo, nil
	}
	ring = sc.MemberlistConfig.Keyring
	if ring == nil {
		return lo, nil
	}
	lo.OK = true
	for _, k := range ring.GetKeys() {
		lo.Keys = append(lo.Keys, keyID(k))
	}
	return lo, ring
}

func ringIDs(r *memberlist.Keyring) []int {
	out := []int{}
	for _, k := range r.GetKeys() {
		out = append(out, keyID(k))
	}
	return out
}

func runKeyring(inputs []json.RawMessage, tr *tracer) summary {
	sum := summary{}
	dir := filepath.Join(*fScratch, "keyring")
	os.MkdirAll(dir, 0o755)
	for idx := *fSkip; idx < len(inputs); idx++ {
		var in keyringInput
		if err := json.Unmarshal(inputs[idx], &in); err != nil {
			die("%v", err)
		}
		progress(*fOut, idx)
		path := filepath.Join(dir, fmt.Sprintf("ring-%d.json", in.ID))
		// the operator's initial keyring file, loaded by the agent at start
		var enc []string
		for _, k := range in.Init {
			enc = append(enc, base64.StdEncoding.EncodeToString(keyBytes(k)))
		}
		fb, _ := json.MarshalIndent(enc, "", "  ")
		if err := os.WriteFile(path, fb, 0o600); err != nil {
			die("%v", err)
		}
		// The start of the node is an observed step like any other: if the agent's loader refuses the file, that
		// is recorded (and judged by the reload clause); the node is then started on the same keys directly.
		lo, ring := loadKeyring(path)
		if ring == nil {
			var raw [][]byte
			for _, k := range in.Init {
				raw = append(raw, keyBytes(k))
			}
			var kerr error
			if ring, kerr = memberlist.NewKeyring(raw, raw[0]); kerr != nil {
				die("harness keyring: %v", kerr)
			}
		}
		net := quiet.NewNet()
		net.Cut = func(from, to string) bool { return true }
		nd, err := quiet.NewNode(net, "ring-node", nil, func(c *serf.Config) {
			c.KeyringFile = path
			c.MemberlistConfig.Keyring = ring
			c.MemberlistConfig.GossipVerifyIncoming = false
		})
		if err != nil {
			die("create: %v", err)
		}
		asker := net.NewTransport("asker")
		tr.reset(in.ID, map[string]interface{}{"kind": "keyring", "init": in.Init})
		tr.step(map[string]interface{}{"a": "kinit"}, kringObs{Ring: ringIDs(ring), Load: lo, Res: true, Rep: true})
		for si, st := range in.Steps {
			before, _ := os.ReadFile(path)
			res, replied := false, true
			if st.K == 7 {
				km := nd.Serf.KeyManager()
				var err error
				switch st.Op {
				case "install":
					_, err = km.InstallKey("not base64 %%%")
				case "use":
					_, err = km.UseKey("not base64 %%%")
				case "remove":
					_, err = km.RemoveKey("not base64 %%%")
				}
				res = err == nil
			} else {
				var payload []byte
				if st.Op == "list" {
					payload = mpack(msgKeyRequest, keyRequest{})
				} else if st.K == 6 {
					payload = []byte{msgKeyRequest, 0xc1, 0xff, 0x00}
				} else if st.K == 8 {
					payload = []byte{}
				} else {
					payload = mpack(msgKeyRequest, keyRequest{Key: keyBytes(st.K)})
				}
				id := uint32(100000 + si)
				qname := "_serf_" + st.Op + "-key"
				if st.Op == "list" {
					qname = "_serf_list-keys"
				}
				nd.Del.NotifyMsg(encQuery(qname, uint64(si+1), id, asker, payload))
				_, r, ok, _ := awaitReplyT(net, asker, id, nil)
				var kr nodeKeyResponse
				if !ok || len(r.Payload) < 1 || r.Payload[0] != msgKeyResponse || munpack(r.Payload[1:], &kr) != nil {
					replied = false // no (decodable) answer within 10s: observed, not judged as a rejection
				}
				res = replied && kr.Result
			}
			after, _ := os.ReadFile(path)
			lo, _ := loadKeyring(path)
			tr.step(st, kringObs{Ring: ringIDs(ring), Load: lo, Res: res, FChg: !bytes.Equal(before, after), Rep: replied})
			sum["steps"]++
			nd.Drain()
		}
		_ = nd.Serf.Shutdown()
		os.Remove(path)
		tr.flush()
		sum["schedules"]++
	}
	return sum
}

// ---------------------------------------------------------------------------------------------- keyagg (C23)

type aggReply struct {
	Kind int   `json:"kind"`
	Keys []int `json:"keys"`
	PK   int   `json:"pk"`
}
type aggInput struct {
	ID int        `json:"id"`
	A  string     `json:"a"`
	Op string     `json:"op"`
	NN int        `json:"nn"`
	RS []aggReply `json:"rs"`
}
type aggObs struct {
	NN   int     `json:"nn"`
	NR   int     `json:"nr"`
	NE   int     `json:"ne"`
	Err  bool    `json:"err"`
	NMsg int     `json:"nmsg"`
	Keys [][]int `json:"keys"`
	PKs  [][]int `json:"pks"`
	Late bool    `json:"late"`
}

func aggKeyName(k int) string {
	if k == 0 {
		return ""
	}
	return "key-" + strconv.Itoa(k)
}
func aggKeyID(s string) int {
	if s == "" {
		return 0
	}
	if strings.HasPrefix(s, "key-") {
		if n, err := strconv.Atoi(s[4:]); err == nil {
			return n
		}
	}
	return 99
}

type cluster struct {
	net   *quiet.Net
	a     *quiet.Node
	extra []*quiet.Node
}

func mkCluster(k int, tag string) *cluster {
	c := &cluster{net: quiet.NewNet()}
	c.net.Capture = false
	var err error
	c.a, err = quiet.NewNode(c.net, "agg-"+tag, nil, func(sc *serf.Config) {
		sc.MemberlistConfig.GossipInterval = 10 * time.Millisecond // DefaultQueryTimeout = GossipInterval * QueryTimeoutMult * ceil(log10(N+1))
		sc.QueryTimeoutMult = 6
	})
	if err != nil {
		die("create: %v", err)
	}
	for i := 1; i < k; i++ {
		n, err := quiet.NewNode(c.net, fmt.Sprintf("peer-%s-%d", tag, i), nil)
		if err != nil {
			die("create: %v", err)
		}
		if _, err := n.Serf.Join([]string{c.a.Tr.Addr()}, true); err != nil {
			die("join: %v", err)
		}
		c.extra = append(c.extra, n)
	}
	deadline := time.Now().Add(10 * time.Second)
	for c.a.Serf.Memberlist().NumMembers() != k {
		if time.Now().After(deadline) {
			die("cluster of %d did not form (%d members)", k, c.a.Serf.Memberlist().NumMembers())
		}
		time.Sleep(time.Millisecond)
	}
	// from now on nothing is delivered: the first node hears only the harness
	c.net.Cut = func(from, to string) bool { return true }
	c.a.Drain()
	return c
}

func (c *cluster) shutdown() {
	_ = c.a.Serf.Shutdown()
	for _, n := range c.extra {
		_ = n.Serf.Shutdown()
	}
}

// realSilentFailure is the reply payload a real node sends when it cannot decode a key request: the real
// handler (handleUseKey) is given a corrupt request and its reply is captured on the transport.  At the pinned
// commit and since: Result = false with an EMPTY message.
var realSilentFailure []byte

func captureSilentFailure() {
	net := quiet.NewNet()
	net.Cut = func(from, to string) bool { return true }
	nd, err := quiet.NewNode(net, "silent-failure-node", nil)
	if err != nil {
		die("create: %v", err)
	}
	asker := net.NewTransport("asker")
	nd.Del.NotifyMsg(encQuery("_serf_use-key", 1, 424242, asker, []byte{msgKeyRequest, 0xc1, 0xff, 0x00}))
	_, r, ok, _ := awaitReplyT(net, asker, 424242, nil)
	var kr nodeKeyResponse
	if ok && len(r.Payload) > 1 && r.Payload[0] == msgKeyResponse && munpack(r.Payload[1:], &kr) == nil && !kr.Result && kr.Message == "" {
		realSilentFailure = r.Payload
	} else {
		// this tree's handlers answer differently: fall back to the encoding of the same class of reply
		realSilentFailure = mpack(msgKeyResponse, nodeKeyResponse{Result: false})
	}
	_ = nd.Serf.Shutdown()
}

func aggPayload(r aggReply) []byte {
	switch r.Kind {
	case 7: // failed, no message: what a real handler answers to a request it cannot decode
		return realSilentFailure
	case 1, 2, 3:
		kr := nodeKeyResponse{Result: r.Kind != 3, PrimaryKey: aggKeyName(r.PK)}
		if r.Kind == 2 {
			kr.Message = "note from the node"
		}
		if r.Kind == 3 {
			kr.Message = "the node failed"
		}
		for _, k := range r.Keys {
			kr.Keys = append(kr.Keys, aggKeyName(k))
		}
		return mpack(msgKeyResponse, kr)
	case 4: // well-formed body behind a wrong type byte
		return mpack(msgKeyRequest, nodeKeyResponse{Result: true})
	case 5: // right type byte, body that does not decode
		return []byte{msgKeyResponse, 0xc1, 0xff, 0x00, 0x13}
	}
	return []byte{}
}

func runAggOne(c *cluster, in aggInput) aggObs {
	km := c.a.Serf.KeyManager()
	type result struct {
		r   *serf.KeyResponse
		err error
	}
	done := make(chan result, 1)
	valid := base64.StdEncoding.EncodeToString(keyBytes(1))
	c.a.Drain()
	go func() {
		var r *serf.KeyResponse
		var err error
		switch in.Op {
		case "list":
			r, err = km.ListKeys()
		case "install":
			r, err = km.InstallKey(valid)
		case "use":
			r, err = km.UseKey(valid)
		case "remove":
			r, err = km.RemoveKey(valid)
		default:
			die("unknown key operation %q", in.Op)
		}
		done <- result{r, err}
	}()
	// the internal query appears in the broadcast queue
	var lt uint64
	var id uint32
	found := false
	deadline := time.Now().Add(10 * time.Second)
	for !found {
		for _, b := range c.a.Drain() {
			s := quiet.Summarize(b)
			if s.T == quiet.TQuery && strings.HasPrefix(s.Node, "_serf_") {
				lt, id, found = s.LTime, s.ID, true
			}
		}
		if !found {
			if time.Now().After(deadline) {
				die("the key query was not broadcast")
			}
			time.Sleep(20 * time.Microsecond)
		}
	}
	var qr *serf.QueryResponse
	_, open := c.a.Serf.VerifQFOpen(false)
	for _, e := range open {
		if e.LTime == lt {
			qr = e.Resp
		}
	}
	late := qr == nil
	for i, r := range in.RS {
		if qr != nil && qr.Finished() {
			late = true
		}
		c.a.Del.NotifyMsg(quiet.Encode(quiet.TQueryResponse, quiet.MsgQueryResponse{LTime: lt, ID: id, From: fmt.Sprintf("member-%d", i+1), Payload: aggPayload(r)}))
	}
	// Finished() still false after the last injection: every reply arrived in time (a query that has
	// returned early because everybody answered is still open until its timer fires)
	if qr != nil && len(in.RS) > 0 && qr.Finished() {
		late = true
	}
	var res result
	select {
	case res = <-done:
	case <-time.After(20 * time.Second):
		die("key operation did not return within 20s")
	}
	o := aggObs{NN: res.r.NumNodes, NR: res.r.NumResp, NE: res.r.NumErr, Err: res.err != nil, NMsg: len(res.r.Messages), Keys: [][]int{}, PKs: [][]int{}, Late: late}
	for k, n := range res.r.Keys {
		o.Keys = append(o.Keys, []int{aggKeyID(k), n})
	}
	for k, n := range res.r.PrimaryKeys {
		o.PKs = append(o.PKs, []int{aggKeyID(k), n})
	}
	less := func(x [][]int) func(i, j int) bool { return func(i, j int) bool { return x[i][0] < x[j][0] } }
	sort.Slice(o.Keys, less(o.Keys))
	sort.Slice(o.PKs, less(o.PKs))
	return o
}

func runKeyAgg(inputs []json.RawMessage, tr *tracer) summary {
	sum := summary{}
	ins := []aggInput{}
	for idx := *fSkip; idx < len(inputs); idx++ {
		var in aggInput
		if err := json.Unmarshal(inputs[idx], &in); err != nil {
			die("%v", err)
		}
		ins = append(ins, in)
	}
	progress(*fOut, *fSkip)
	captureSilentFailure()
	// independent inputs: a few workers, each with its own clusters (one per member count)
	const workers = 6
	obs := make([]aggObs, len(ins))
	var wg sync.WaitGroup
	for w := 0; w < workers; w++ {
		wg.Add(1)
		go func(w int) {
			defer wg.Done()
			cl := map[int]*cluster{}
			for i := w; i < len(ins); i += workers {
				in := ins[i]
				c := cl[in.NN]
				if c == nil {
					c = mkCluster(in.NN, fmt.Sprintf("%d-%d", w, in.NN))
					cl[in.NN] = c
				}
				o := runAggOne(c, in)
				for try := 0; o.Late && try < 3; try++ { // overtaken by the query timeout: not an observation, run again
					o = runAggOne(c, in)
				}
				obs[i] = o
			}
			for _, c := range cl {
				c.shutdown()
			}
		}(w)
	}
	wg.Wait()
	for i, in := range ins {
		tr.reset(in.ID, map[string]interface{}{"kind": "agg"})
		if obs[i].Late {
			sum["late"]++
			continue
		}
		tr.step(in, obs[i])
		sum["evaluations"]++
	}
	return sum
}

// ---------------------------------------------------------------------------------------------- keytrunc (C23)

type truncInput struct {
	ID    int    `json:"id"`
	A     string `json:"a"`
	N     int    `json:"n"`
	KC    int    `json:"kc"`
	NL    int    `json:"nl"`
	Limit int    `json:"limit"`
}
type truncObs struct {
	Sent   bool `json:"sent"`
	Size   int  `json:"size"`
	NK     int  `json:"nk"`
	Prefix bool `json:"prefix"`
	MI     int  `json:"mi"`
	MN     int  `json:"mn"`
	Res    bool `json:"res"`
}

var truncRe = regexp.MustCompile(`showing first (\d+) of (\d+) keys`)

func runKeyTrunc(inputs []json.RawMessage, tr *tracer) summary {
	sum := summary{}
	var nd *quiet.Node
	var net *quiet.Net
	var asker *quiet.Transport
	var keys []string
	curN, curKC, uses := -1, -1, 0
	rng := rand.New(rand.NewSource(seed()))
	idc := uint32(100000)
	for idx := *fSkip; idx < len(inputs); idx++ {
		var in truncInput
		if err := json.Unmarshal(inputs[idx], &in); err != nil {
			die("%v", err)
		}
		progress(*fOut, idx)
		if in.N != curN || in.KC != curKC || uses > 300 {
			if nd != nil {
				_ = nd.Serf.Shutdown()
			}
			curN, curKC, uses = in.N, in.KC, 0
			kb := map[int]int{24: 16, 32: 24, 44: 32}[in.KC]
			if kb == 0 {
				die("key characters %d", in.KC)
			}
			var ring *memberlist.Keyring
			keys = nil
			if in.N > 0 {
				var raw [][]byte
				for i := 0; i < in.N; i++ {
					b := make([]byte, kb)
					rng.Read(b)
					b[0] = byte(i) // distinct
					b[1] = byte(i >> 8)
					raw = append(raw, b)
					keys = append(keys, base64.StdEncoding.EncodeToString(b))
				}
				var err error
				ring, err = memberlist.NewKeyring(raw, raw[0])
				if err != nil {
					die("keyring: %v", err)
				}
			}
			net = quiet.NewNet()
			net.Cut = func(from, to string) bool { return true }
			name := "trunc-node-name-padding"[:in.NL]
			var err error
			nd, err = quiet.NewNode(net, name, nil, func(c *serf.Config) {
				c.MemberlistConfig.Keyring = ring
				c.MemberlistConfig.GossipVerifyIncoming = false
			})
			if err != nil {
				die("create: %v", err)
			}
			asker = net.NewTransport("asker")
		}
		uses++
		nd.Conf.QueryResponseSizeLimit = in.Limit
		idc++
		id := idc
		mark := len(nd.LogBuf.String())
		nd.Del.NotifyMsg(encQuery("_serf_list-keys", 5, id, asker, mpack(msgKeyRequest, keyRequest{})))
		polls := 0
		raw, r, ok := awaitReply(net, asker, id, func() bool {
			// positive evidence that no reply will be sent: the handler's error line
			if polls++; polls%20 != 0 {
				return false
			}
			l := nd.LogBuf.String()[mark:]
			return strings.Contains(l, "Failed to truncate response") || strings.Contains(l, "Failed to respond to key query")
		})
		o := truncObs{Sent: ok, MI: -1, MN: -1, Prefix: true}
		if ok {
			var kr nodeKeyResponse
			if len(r.Payload) < 1 || r.Payload[0] != msgKeyResponse || munpack(r.Payload[1:], &kr) != nil {
				die("undecodable key response")
			}
			o.Size, o.NK, o.Res = len(raw), len(kr.Keys), kr.Result
			for i, k := range kr.Keys {
				if i >= len(keys) || keys[i] != k {
					o.Prefix = false
				}
			}
			if m := truncRe.FindStringSubmatch(kr.Message); m != nil {
				o.MI, _ = strconv.Atoi(m[1])
				o.MN, _ = strconv.Atoi(m[2])
			}
			sum["replies"]++
		} else {
			sum["no_reply"]++
		}
		tr.reset(in.ID, map[string]interface{}{"kind": "trunc"})
		tr.step(in, o)
		nd.Drain()
		sum["evaluations"]++
	}
	if nd != nil {
		_ = nd.Serf.Shutdown()
	}
	return sum
}

// keyCrashLine: a crash of the code under test in a key mode is never a verdict of C22/C23 (a panic on a malformed
// request belongs to property C09); the input is recorded as crashed and skipped.
func keyCrashLine(last traceLine, idx, code int, input json.RawMessage) []byte {
	return nil
}
