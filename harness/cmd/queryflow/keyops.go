package main

import "encoding/json"

func keyCrashLine(last traceLine, idx, code int, input json.RawMessage) []byte { return nil }
func runKeyring(inputs []json.RawMessage, tr *tracer) summary               { return summary{} }
func runKeyAgg(inputs []json.RawMessage, tr *tracer) summary                { return summary{} }
func runKeyTrunc(inputs []json.RawMessage, tr *tracer) summary              { return summary{} }
