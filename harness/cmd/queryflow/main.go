// Driver of the queryflow family:
//
//	-mode c07      query reply routing (spec/QueryReply.tla): programs of whole operations executed on a real
//	               quiet Serf node, sequentially and/or as threads under the cooperative scheduler
//	-mode keyring  C22 (spec/KeyOps.tla, keyring part): sequences of real internal key queries, keyring file
//	               reloaded through the agent's loader after every step
//	-mode keyagg   C23 aggregation: real KeyManager operations with injected per-node replies
//	-mode keytrunc C23 truncation: real _serf_list-keys queries against a node holding N keys
//
// The process re-executes itself as a child that does the work, so that a crash of the code under test
// (panic on another goroutine) loses one input, not the run: the parent records the crash and restarts the
// child behind the offending input.
package main

import (
	"bytes"
	"encoding/json"
	"flag"
	"fmt"
	"os"
	"os/exec"
	"strconv"
	"strings"
)

var (
	fMode     = flag.String("mode", "", "c07 | keyring | keyagg | keytrunc")
	fIn       = flag.String("in", "", "inputs (ndjson)")
	fOut      = flag.String("out", "", "trace (ndjson)")
	fScratch  = flag.String("scratch", "", "scratch directory")
	fChild    = flag.Bool("child", false, "internal: do the work")
	fSkip     = flag.Int("skip", 0, "internal: first input to process")
	fRealtime = flag.Bool("realtime", false, "c07: unchanged files, real clock and timers")
	fBudget   = flag.Int("budget", 200, "c07: schedules per program (priority orders x change points)")
	fRandom   = flag.Int("random", 20, "c07: additional random schedules per program")
	fNQ       = flag.Int("nq", 2, "c07: number of queries of the model (NQ)")
	fNN       = flag.Int("nn", 2, "c07: number of responder names of the model (NN)")
	fIDBase   = flag.Int("idbase", 0, "added to every trace id (several runs validated as one file)")
)

type summary map[string]int

func (s summary) add(o summary) {
	for k, v := range o {
		s[k] += v
	}
}

func main() {
	flag.Parse()
	if *fChild {
		child()
		return
	}
	inputs := readNDJSON(*fIn)
	total := summary{}
	var parts []string
	skip := 0
	for round := 0; skip < len(inputs); round++ {
		part := fmt.Sprintf("%s.part%d", *fOut, round)
		prog := part + ".progress"
		os.Remove(prog)
		args := []string{"-child", "-skip", strconv.Itoa(skip), "-out", part}
		flag.Visit(func(f *flag.Flag) {
			if f.Name != "out" && f.Name != "skip" && f.Name != "child" {
				args = append(args, "-"+f.Name+"="+f.Value.String())
			}
		})
		cmd := exec.Command(os.Args[0], args...)
		var stdout, stderr bytes.Buffer
		cmd.Stdout = &stdout
		cmd.Stderr = &stderr
		err := cmd.Run()
		parts = append(parts, part)
		if err == nil {
			var s summary
			lines := strings.Split(strings.TrimSpace(stdout.String()), "\n")
			if json.Unmarshal([]byte(lines[len(lines)-1]), &s) != nil {
				die("child printed no summary: %s", stdout.String())
			}
			total.add(s)
			break
		}
		if ee, ok := err.(*exec.ExitError); ok && ee.ExitCode() == 3 {
			// the driver itself gave up (h.Die): not a crash of the code under test
			fmt.Fprint(os.Stderr, stderr.String())
			os.Exit(3)
		}
		// the child died: which input was it working on?
		pb, _ := os.ReadFile(prog)
		cur, perr := strconv.Atoi(strings.TrimSpace(string(pb)))
		if perr != nil || cur < skip {
			fmt.Fprint(os.Stderr, stderr.String())
			die("child died before its first input (%v)", err)
		}
		code := crashCode(stderr.String())
		total["crashes"]++
		total["crash_code_"+strconv.Itoa(code)]++
		fixPartial(part, cur, code, inputs[cur])
		tail := stderr.String()
		if len(tail) > 1500 {
			tail = tail[:1500]
		}
		fmt.Fprintf(os.Stderr, "driver: child crashed on input %d (code %d): %s\n", cur, code, tail)
		skip = cur + 1
	}
	out, err := os.Create(*fOut)
	if err != nil {
		die("%v", err)
	}
	for _, p := range parts {
		b, _ := os.ReadFile(p)
		out.Write(b)
		os.Remove(p)
		os.Remove(p + ".progress")
	}
	out.Close()
	json.NewEncoder(os.Stdout).Encode(total)
}

// crashCode classifies the panic message of a dead child: 1 close of closed channel, 2 send on closed
// channel, 9 anything else.
func crashCode(stderr string) int {
	switch {
	case strings.Contains(stderr, "close of closed channel"):
		return 1
	case strings.Contains(stderr, "send on closed channel"):
		return 2
	}
	return 9
}

// fixPartial drops a trailing incomplete line of the part file and appends the crash marker of the mode.
func fixPartial(part string, idx, code int, input json.RawMessage) {
	b, _ := os.ReadFile(part)
	if i := bytes.LastIndexByte(b, '\n'); i >= 0 {
		b = b[:i+1]
	} else {
		b = nil
	}
	var last traceLine
	lines := bytes.Split(bytes.TrimSpace(b), []byte("\n"))
	if len(lines) > 0 && len(lines[len(lines)-1]) > 0 {
		_ = json.Unmarshal(lines[len(lines)-1], &last)
	}
	var extra []byte
	switch *fMode {
	case "c07":
		extra = c07CrashLine(last, code)
	default:
		extra = keyCrashLine(last, idx, code, input)
	}
	b = append(b, extra...)
	os.WriteFile(part, b, 0o644)
}

func progress(path string, idx int) {
	os.WriteFile(path+".progress", []byte(strconv.Itoa(idx)), 0o644)
}

func child() {
	inputs := readNDJSON(*fIn)
	tr := newTracer(*fOut)
	var s summary
	switch *fMode {
	case "c07":
		s = runC07(inputs, tr)
	case "keyring":
		s = runKeyring(inputs, tr)
	case "keyagg":
		s = runKeyAgg(inputs, tr)
	case "keytrunc":
		s = runKeyTrunc(inputs, tr)
	default:
		die("unknown mode %q", *fMode)
	}
	tr.close()
	json.NewEncoder(os.Stdout).Encode(s)
}
