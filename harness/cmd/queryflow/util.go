package main

import (
	"bufio"
	"encoding/json"
	"fmt"
	"os"
	"strconv"
)

// tracer: NDJSON trace writer (same line format as h.Tracer) that can be flushed after every input, so
// that a supervising parent process can pick up what a crashed child had written.
type tracer struct {
	f *os.File
	w *bufio.Writer
}

func newTracer(path string) *tracer {
	f, err := os.Create(path)
	if err != nil {
		die("%v", err)
	}
	return &tracer{f: f, w: bufio.NewWriterSize(f, 1<<20)}
}

type traceLine struct {
	Act interface{} `json:"act"`
	Obs interface{} `json:"obs"`
}

func (t *tracer) reset(id int, extra map[string]interface{}) {
	act := map[string]interface{}{"a": "reset", "id": id}
	for k, v := range extra {
		act[k] = v
	}
	t.emit(traceLine{Act: act, Obs: 0})
}

func (t *tracer) step(act, obs interface{}) { t.emit(traceLine{Act: act, Obs: obs}) }

func (t *tracer) emit(l traceLine) {
	b, err := json.Marshal(l)
	if err != nil {
		panic(err)
	}
	t.w.Write(b)
	t.w.WriteByte('\n')
}

func (t *tracer) flush() { t.w.Flush() }

func (t *tracer) close() {
	t.w.Flush()
	t.f.Close()
}

func seed() int64 {
	n, _ := strconv.ParseInt(os.Getenv("VERIF_SEED"), 10, 64)
	return n
}

func die(format string, a ...interface{}) {
	fmt.Fprintf(os.Stderr, "driver: "+format+"\n", a...)
	os.Exit(3)
}

// readNDJSON decodes every line of a file into raw messages.
func readNDJSON(path string) []json.RawMessage {
	f, err := os.Open(path)
	if err != nil {
		die("%v", err)
	}
	defer f.Close()
	var res []json.RawMessage
	sc := bufio.NewScanner(f)
	sc.Buffer(make([]byte, 1<<20), 1<<28)
	for sc.Scan() {
		if len(sc.Bytes()) == 0 {
			continue
		}
		res = append(res, append(json.RawMessage(nil), sc.Bytes()...))
	}
	if sc.Err() != nil {
		die("%v", sc.Err())
	}
	return res
}
