package main

import (
	"strconv"
	"strings"

	"github.com/hashicorp/serf/serf"

	"verif/harness/internal/h"
	"verif/harness/internal/quiet"
)

// render turns the regex AST of spec/Regex.tla into Go regexp syntax (every operand parenthesised with
// a non-capturing group, so precedence never matters).
func renderRe(x interface{}) string {
	t := x.([]interface{})
	g := func(i int) string { return "(?:" + renderRe(t[i]) + ")" }
	switch t[0].(string) {
	case "lit":
		return t[1].(string)
	case "any":
		return "."
	case "cat":
		return g(1) + g(2)
	case "alt":
		return g(1) + "|" + g(2)
	case "star":
		return g(1) + "*"
	case "opt":
		return g(1) + "?"
	}
	h.Die("unknown regex node %v", t[0])
	return ""
}

func renderPat(p h.Step) string {
	s := "(?:" + renderRe(p["re"]) + ")"
	if p.Bool("bol") {
		s = "^" + s
	}
	if p.Bool("eol") {
		s += "$"
	}
	return s
}

var badPatterns = []string{"(", "a**", "[a", "*a", "a{2,1}", "\\"}
var unknownTypes = []byte{2, 255, 7, 128}

func nodeToken(t string) string {
	switch t {
	case "self":
		return selfName
	case "selfx":
		return selfName + "x"
	case "sel":
		return selfName[:len(selfName)-1]
	case "SELF":
		return strings.ToUpper(selfName)
	}
	return "other-" + t
}

func tagName(t int) string { return "t" + strconv.Itoa(t) }

// buildFilter encodes one filter record of spec/QueryFilter.tla; the second result is the pattern text.
func buildFilter(f h.Step) ([]byte, string) {
	switch f.Str("k") {
	case "node":
		names := []string{}
		for _, x := range f.List("names") {
			names = append(names, nodeToken(x.(string)))
		}
		return quiet.EncodeFilter(0, names), ""
	case "tag":
		pat := renderPat(f.Rec("pat"))
		return quiet.EncodeFilter(1, quiet.FilterTag{Tag: tagName(f.Int("tag")), Expr: pat}), pat
	case "badre":
		pat := badPatterns[f.Int("ty")%len(badPatterns)]
		return quiet.EncodeFilter(1, quiet.FilterTag{Tag: tagName(f.Int("tag")), Expr: pat}), pat
	case "garbage":
		if f.Int("ty") == 0 {
			return []byte{0, 0x92, 0xa6, 'n', 'o'}, "" // list of two strings, cut inside the first
		}
		return []byte{1, 0x82, 0xa3, 'T', 'a', 'g', 0xa2, 't', '1', 0xa4, 'E', 'x'}, "" // struct cut inside a key
	case "unknown":
		body := quiet.EncodeFilter(0, []string{selfName})
		body[0] = unknownTypes[f.Int("ty")%len(unknownTypes)]
		return body, ""
	case "empty":
		return []byte{}, ""
	}
	h.Die("unknown filter kind %q", f.Str("k"))
	return nil, ""
}

func runC08(scheds []h.Schedule, tr *tracer) {
	for _, s := range scheds {
		tr.Reset(s.ID, nil)
		var r *rig
		for _, st := range s.Steps {
			switch st.A() {
			case "boot":
				tags := map[string]string{}
				for _, x := range st.List("tags") {
					t := h.Step(x.(map[string]interface{}))
					tags[tagName(t.Int("t"))] = joinLetters(t.List("v"))
				}
				r = newRig(func(c *serf.Config) { c.Tags = tags })
				tr.Step(st, map[string]interface{}{"deliv": 0, "ack": 0, "rebro": 0, "panic": false, "stray": 0, "pats": []string{}})
			case "deliver":
				if r == nil {
					h.Die("deliver before boot in schedule %d", s.ID)
				}
				tr.Step(st, r.deliverC08(st))
			default:
				h.Die("c08: unknown action %q", st.A())
			}
		}
		if r != nil {
			r.close()
		}
	}
}

// wireID concretises model ids: the boundary values of the uint32 wire field have their own model ids.
func wireID(id int) uint32 {
	switch id {
	case 900:
		return 0xFFFFFFFF
	case 901:
		return 0x80000000
	}
	return uint32(id)
}

func (r *rig) deliverC08(st h.Step) map[string]interface{} {
	lt, id := st.Int("lt"), wireID(st.Int("id"))
	name := joinLetters(st.List("name"))
	var flags uint32
	if st.Bool("ack") {
		flags |= quiet.FlagAck
	}
	if st.Bool("nb") {
		flags |= quiet.FlagNoBroadcast
	}
	for _, b := range st.Ints("xf") { // undefined flag bits
		flags |= 1 << uint(b)
	}
	filters := [][]byte{}
	pats := []string{}
	for _, x := range st.List("fs") {
		b, p := buildFilter(h.Step(x.(map[string]interface{})))
		filters = append(filters, b)
		if p != "" {
			pats = append(pats, p)
		}
	}
	panicked := r.notify(r.queryMsgID(lt, id, name, flags, 0, filters))

	deliv := 0
	for _, e := range r.events() {
		if q, ok := e.(*serf.Query); ok && q.Name == name && uint64(q.LTime) == uint64(lt) {
			deliv++
		}
	}
	ack, stray := 0, 0
	for _, w := range r.sent() {
		var m quiet.MsgQueryResponse
		if int(w.msg[0]) == quiet.TQueryResponse && quiet.Decode(w.msg, &m) == nil && w.to == "origin" &&
			m.Flags&quiet.FlagAck != 0 && m.LTime == uint64(lt) && m.ID == id && m.From == selfName {
			ack++
		} else if int(w.msg[0]) != quiet.TQuery { // a piggybacked re-broadcast is counted from the queue drain
			stray++
		}
	}
	rebro := 0
	for _, b := range r.n.Drain() {
		s := quiet.Summarize(b)
		if s.T == quiet.TQuery && s.LTime == uint64(lt) && s.ID == id {
			rebro++
		} else {
			stray++
		}
	}
	return map[string]interface{}{"deliv": deliv, "ack": ack, "rebro": rebro, "panic": panicked, "stray": stray, "pats": pats}
}
