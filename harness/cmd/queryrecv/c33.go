package main

import (
	"bytes"
	"net"
	"strings"
	"time"

	"github.com/hashicorp/go-msgpack/v2/codec"
	"github.com/hashicorp/serf/serf"

	"verif/harness/internal/h"
	"verif/harness/internal/quiet"
)

// Mirror encoders.  Their results are compared with what the node really queued / sent whenever that is
// observable (calibration at start-up and on every accepted vector); a mismatch is a machinery error.

func encEvent(lt uint64, name string, payload []byte) int {
	return len(quiet.Encode(quiet.TUserEvent, quiet.MsgUserEvent{LTime: lt, Name: name, Payload: payload, CC: false}))
}

func (r *rig) encQuery(lt uint64, name string, payload []byte, timeout time.Duration) int {
	local := r.n.Serf.Memberlist().LocalNode()
	return len(quiet.Encode(quiet.TQuery, quiet.MsgQuery{LTime: lt, ID: 0x7fffffff, Addr: local.Addr, Port: local.Port,
		SourceNode: local.Name, Filters: nil, Flags: 0, RelayFactor: 0, Timeout: timeout, Name: name, Payload: payload}))
}

func encResp(lt uint64, id uint32, payload []byte) []byte {
	return quiet.Encode(quiet.TQueryResponse, quiet.MsgQueryResponse{LTime: lt, ID: id, From: selfName, Flags: 0, Payload: payload})
}

type relayHeader struct {
	DestAddr net.UDPAddr
	DestName string
}

// encRelay mirrors serf's encodeRelayMessage: type byte, header, then the wrapped message.
func encRelay(addr net.UDPAddr, name string, inner []byte) int {
	buf := bytes.NewBuffer(nil)
	buf.WriteByte(uint8(quiet.TRelay))
	hd := codec.MsgpackHandle{}
	if err := codec.NewEncoder(buf, &hd).Encode(relayHeader{DestAddr: addr, DestName: name}); err != nil {
		h.Die("relay header: %v", err)
	}
	return buf.Len() + len(inner)
}

// fit finds the payload length for which size(p) == target (size is non-decreasing in p).
func fit(size func(p int) int, target int) (int, bool) {
	lo, hi := 0, target+8
	for lo < hi {
		mid := (lo + hi) / 2
		if size(mid) < target {
			lo = mid + 1
		} else {
			hi = mid
		}
	}
	return lo, size(lo) == target
}

func blob(n int) []byte {
	if n == 0 {
		return []byte{}
	}
	return bytes.Repeat([]byte{'x'}, n)
}

func obs33() map[string]interface{} {
	return map[string]interface{}{"raw": 0, "enc": 0, "renc": 0, "err": false, "deliv": 0, "queued": 0, "sent": 0,
		"relayed": 0, "maxmsg": 0, "dclock": 0, "errtext": "", "n": 0}
}

func runC33(scheds []h.Schedule, tr *tracer) {
	for _, s := range scheds {
		tr.Reset(s.ID, nil)
		for _, st := range s.Steps {
			switch st.A() {
			case "event":
				tr.Step(st, c33Event(st))
			case "query":
				tr.Step(st, c33Query(st))
			case "respond":
				tr.Step(st, c33Respond(st))
			default:
				h.Die("c33: unknown action %q", st.A())
			}
		}
	}
}

func c33Event(st h.Step) map[string]interface{} {
	cfg, at, nl := st.Int("cfg"), st.Int("at"), st.Int("nl")
	create := cfg
	if create > serf.UserEventSizeLimit {
		create = serf.UserEventSizeLimit // Create refuses more; the field is raised afterwards
	}
	r := newRig(func(c *serf.Config) { c.UserEventSizeLimit = create })
	defer r.close()
	r.n.Conf.UserEventSizeLimit = cfg
	before := r.n.Serf.VerifDump()

	var name string
	var payload []byte
	if st.Str("anchor") == "raw" {
		n := nl
		if n > at {
			n = at
		}
		name, payload = strings.Repeat("n", n), blob(at-n)
	} else {
		ok := false
		for _, n := range []int{nl, nl + 1, nl + 2, nl - 1, nl - 2, 0, 1, 2, 3} {
			if n < 0 {
				continue
			}
			nm := strings.Repeat("n", n)
			p, hit := fit(func(p int) int { return encEvent(before.EventClock, nm, blob(p)) }, at)
			if hit {
				name, payload, ok = nm, blob(p), true
				break
			}
		}
		if !ok {
			h.Die("cannot realise an encoded user event of %d bytes", at)
		}
	}
	o := obs33()
	o["n"] = len(name)
	o["raw"] = len(name) + len(payload)
	o["enc"] = encEvent(before.EventClock, name, payload)

	err := r.n.Serf.UserEvent(name, payload, false)
	if err != nil {
		o["err"], o["errtext"] = true, err.Error()
	}
	deliv := 0
	for _, e := range r.events() {
		if u, ok := e.(serf.UserEvent); ok && u.Name == name && len(u.Payload) == len(payload) {
			deliv++
		}
	}
	queued, maxmsg := 0, 0
	msgs := r.n.Drain()
	for _, w := range r.sent() {
		msgs = append(msgs, w.msg)
	}
	for _, b := range msgs {
		if len(b) > 0 && int(b[0]) == quiet.TUserEvent {
			queued++
			if len(b) > maxmsg {
				maxmsg = len(b)
			}
			if len(b) != o["enc"].(int) {
				h.Die("mirror encoder disagrees with serf: user event is %d bytes, predicted %d", len(b), o["enc"])
			}
		}
	}
	after := r.n.Serf.VerifDump()
	o["deliv"], o["queued"], o["maxmsg"], o["dclock"] = deliv, queued, maxmsg, int(after.EventClock-before.EventClock)
	return o
}

func c33Query(st h.Step) map[string]interface{} {
	cfg, at, nl := st.Int("cfg"), st.Int("at"), st.Int("nl")
	r := newRig(func(c *serf.Config) { c.QuerySizeLimit = cfg })
	defer r.close()
	before := r.n.Serf.VerifDump()
	timeout := 30 * time.Second
	var name string
	var payload []byte
	ok := false
	for _, n := range []int{nl, nl + 1, nl + 2, nl - 1, 1, 2, 3} {
		if n < 0 {
			continue
		}
		nm := strings.Repeat("q", n)
		p, hit := fit(func(p int) int { return r.encQuery(before.QueryClock, nm, blob(p), timeout) }, at)
		if hit {
			name, payload, ok = nm, blob(p), true
			break
		}
	}
	if !ok {
		h.Die("cannot realise an encoded query of %d bytes", at)
	}
	o := obs33()
	o["n"] = len(name)
	o["enc"] = at
	resp, err := r.n.Serf.Query(name, payload, &serf.QueryParam{Timeout: timeout})
	if err != nil {
		o["err"], o["errtext"] = true, err.Error()
	} else {
		defer resp.Close()
	}
	deliv := 0
	for _, e := range r.events() {
		if q, ok := e.(*serf.Query); ok && q.Name == name {
			deliv++
		}
	}
	queued, maxmsg := 0, 0
	msgs := r.n.Drain()
	for _, w := range r.sent() {
		msgs = append(msgs, w.msg)
	}
	for _, b := range msgs {
		if len(b) > 0 && int(b[0]) == quiet.TQuery {
			queued++
			if len(b) > maxmsg {
				maxmsg = len(b)
			}
			// the random query id is encoded in 1..5 bytes; the mirror assumed 5
			if len(b) > at || len(b) < at-4 {
				h.Die("mirror encoder disagrees with serf: query is %d bytes, predicted %d", len(b), at)
			}
			o["enc"] = len(b)
		}
	}
	after := r.n.Serf.VerifDump()
	o["deliv"], o["queued"], o["maxmsg"], o["dclock"] = deliv, queued, maxmsg, int(after.QueryClock-before.QueryClock)
	return o
}

func c33Respond(st h.Step) map[string]interface{} {
	cfg, at, k, mem := st.Int("cfg"), st.Int("at"), st.Int("k"), st.Int("mem")
	r := newRig(func(c *serf.Config) { c.QueryResponseSizeLimit = cfg })
	defer r.close()
	if mem > 0 {
		peer := r.net.NewTransport("peer")
		r.n.Ev.NotifyJoin(r.n.MLNode("peer", peer, nil))
		r.events()
		r.n.Drain()
	}
	const lt, id = 3, 77
	if r.notify(r.queryMsg(lt, id, "q", 0, k, nil)) {
		h.Die("c33: query delivery panicked")
	}
	var q *serf.Query
	for _, e := range r.events() {
		if x, ok := e.(*serf.Query); ok {
			q = x
		}
	}
	if q == nil {
		h.Die("c33: the query did not reach the application")
	}
	r.n.Drain()
	r.sent()
	dest := net.UDPAddr{IP: r.origin.IP, Port: r.origin.Port}
	size := func(p int) int {
		inner := encResp(lt, id, blob(p))
		if st.Str("anchor") == "relay" {
			return encRelay(dest, "origin", inner)
		}
		return len(inner)
	}
	p, hit := fit(size, at)
	if !hit {
		h.Die("cannot realise a response of %d bytes (%s)", at, st.Str("anchor"))
	}
	inner := encResp(lt, id, blob(p))
	o := obs33()
	o["n"] = p
	o["enc"] = len(inner)
	if k >= 1 {
		o["renc"] = encRelay(dest, "origin", inner)
	}
	if err := q.Respond(blob(p)); err != nil {
		o["err"], o["errtext"] = true, err.Error()
	}
	sent, relayed, maxmsg := 0, 0, 0
	for _, w := range r.sent() {
		switch int(w.msg[0]) {
		case quiet.TQueryResponse:
			if w.to == "origin" {
				sent++
			}
			if len(w.msg) != o["enc"].(int) {
				h.Die("mirror encoder disagrees with serf: response is %d bytes, predicted %d", len(w.msg), o["enc"])
			}
		case quiet.TRelay:
			relayed++
			if len(w.msg) != o["renc"].(int) {
				h.Die("mirror encoder disagrees with serf: relay is %d bytes, predicted %d", len(w.msg), o["renc"])
			}
		default:
			continue
		}
		if len(w.msg) > maxmsg {
			maxmsg = len(w.msg)
		}
	}
	o["sent"], o["relayed"], o["maxmsg"] = sent, relayed, maxmsg
	return o
}
