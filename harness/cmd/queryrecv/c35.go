package main

import (
	"math/rand"
	"strconv"

	"github.com/hashicorp/serf/serf"

	"verif/harness/internal/h"
	"verif/harness/internal/quiet"
)

func memberName(i int) string {
	if i == 0 {
		return selfName
	}
	return "m" + strconv.Itoa(i)
}

func nameIndex(name string) int {
	switch name {
	case selfName:
		return 0
	case "origin":
		return 98
	}
	if len(name) > 1 && name[0] == 'm' {
		if i, err := strconv.Atoi(name[1:]); err == nil {
			return i
		}
	}
	return 99
}

func runC35(scheds []h.Schedule, tr *tracer, runs int) {
	for _, s := range scheds {
		tr.Reset(s.ID, nil)
		rand.Seed(h.Seed()*1000003 + int64(s.ID)) // serf's relay choice uses the global source
		for _, st := range s.Steps {
			if st.A() != "relay" {
				h.Die("c35: unknown action %q", st.A())
			}
			if st.Str("via") == "pick" {
				tr.Step(st, c35Pick(st, runs))
			} else {
				tr.Step(st, c35Node(st, runs))
			}
		}
	}
}

func c35Pick(st h.Step, runs int) map[string]interface{} {
	var members []serf.Member
	for _, x := range st.List("mem") {
		m := h.Step(x.(map[string]interface{}))
		members = append(members, serf.Member{Name: memberName(m.Int("nm")), Status: serf.MemberStatus(m.Int("st")),
			ProtocolMax: uint8(m.Int("pm"))})
	}
	out := []map[string]interface{}{}
	for i := 0; i < runs; i++ {
		rel := []int{}
		for _, m := range serf.VerifKRandomMembers(st.Int("k"), members, selfName) {
			rel = append(rel, nameIndex(m.Name))
		}
		out = append(out, map[string]interface{}{"direct": 0, "relays": rel, "path": "pick"})
	}
	return map[string]interface{}{"runs": out}
}

func c35Node(st h.Step, runs int) map[string]interface{} {
	r := newRig()
	defer r.close()
	k := st.Int("k")
	want := map[string][2]int{}
	for _, x := range st.List("mem") {
		m := h.Step(x.(map[string]interface{}))
		name := memberName(m.Int("nm"))
		t := r.net.NewTransport(name)
		ml := r.n.MLNode(name, t, nil)
		ml.PMax = uint8(m.Int("pm"))
		r.n.Ev.NotifyJoin(ml)
		switch m.Int("st") {
		case 2: // leaving: a leave intent newer than the join
			r.notify(quiet.Encode(quiet.TLeave, quiet.MsgLeave{LTime: 10, Node: name}))
		case 3: // left: intent, then memberlist reports it gone
			r.notify(quiet.Encode(quiet.TLeave, quiet.MsgLeave{LTime: 10, Node: name}))
			r.n.Ev.NotifyLeave(ml)
		case 4: // failed: memberlist reports it gone without an intent
			r.n.Ev.NotifyLeave(ml)
		}
		want[name] = [2]int{m.Int("st"), m.Int("pm")}
	}
	// the table must be what the vector says, or the run means nothing
	got := r.n.Serf.Members()
	if len(got) != len(want)+1 {
		h.Die("c35: member table has %d entries, want %d", len(got), len(want)+1)
	}
	for _, m := range got {
		if m.Name == selfName {
			if m.Status != serf.StatusAlive || m.ProtocolMax < 5 {
				h.Die("c35: unexpected local member %+v", m)
			}
			continue
		}
		w, ok := want[m.Name]
		if !ok || int(m.Status) != w[0] || int(m.ProtocolMax) != w[1] {
			h.Die("c35: member %s is status %d pmax %d, want %v", m.Name, m.Status, m.ProtocolMax, w)
		}
	}
	r.events()
	r.n.Drain()
	r.sent()

	classify := func(path string) map[string]interface{} {
		direct := 0
		rel := []int{}
		for _, w := range r.sent() {
			switch int(w.msg[0]) {
			case quiet.TQueryResponse:
				if w.to == "origin" {
					direct++
				} else {
					rel = append(rel, 97) // a bare response sent to somebody else
				}
			case quiet.TRelay:
				rel = append(rel, nameIndex(w.to))
			}
		}
		return map[string]interface{}{"direct": direct, "relays": rel, "path": path}
	}
	out := []map[string]interface{}{}
	for i := 0; len(out) < runs; i++ {
		lt, id := i+1, 1000+i
		if r.notify(r.queryMsg(lt, id, "q", quiet.FlagAck, k, nil)) {
			h.Die("c35: query delivery panicked")
		}
		var q *serf.Query
		for _, e := range r.events() {
			if x, ok := e.(*serf.Query); ok {
				q = x
			}
		}
		out = append(out, classify("ack"))
		if q == nil {
			h.Die("c35: the query did not reach the application")
		}
		if len(out) < runs {
			if err := q.Respond([]byte("x")); err != nil {
				h.Die("c35: Respond: %v", err)
			}
			out = append(out, classify("respond"))
		}
		r.n.Drain()
	}
	return map[string]interface{}{"runs": out}
}
