package main

import (
	"fmt"
	"math/rand"
	"regexp"
	"strconv"
	"strings"
	"sync"
	"time"

	"github.com/hashicorp/serf/serf"

	"verif/harness/internal/h"
	"verif/harness/internal/quiet"
)

var voteLine = regexp.MustCompile(`(majority|minority) in name conflict resolution(?:, quiting)? \[(\d+) / (\d+)\]`)

type lateErr struct{ why string }

func (e lateErr) Error() string { return e.why }

func runC36(scheds []h.Schedule, tr *tracer, par int, timeout time.Duration) {
	type res struct {
		obs []map[string]interface{}
	}
	results := make([]res, len(scheds))
	var wg sync.WaitGroup
	sem := make(chan struct{}, par)
	for i := range scheds {
		wg.Add(1)
		sem <- struct{}{}
		go func(i int) {
			defer wg.Done()
			defer func() { <-sem }()
			s := scheds[i]
			for _, st := range s.Steps {
				if st.A() != "conflict" {
					h.Die("c36: unknown action %q", st.A())
				}
				rng := rand.New(rand.NewSource(h.Seed()*1000003 + int64(s.ID)))
				var o map[string]interface{}
				var err error
				t := timeout
				for attempt := 0; attempt < 4; attempt++ {
					o, err = c36Vector(st, rng, t)
					if err == nil {
						break
					}
					if _, late := err.(lateErr); !late {
						h.Die("c36: schedule %d: %v", s.ID, err)
					}
					t *= 4 // the query closed before every reply was in: run again with more room
				}
				if err != nil {
					h.Die("c36: schedule %d: replies could not be injected in time: %v", s.ID, err)
				}
				results[i].obs = append(results[i].obs, o)
			}
		}(i)
	}
	wg.Wait()
	for i, s := range scheds {
		tr.Reset(s.ID, nil)
		for j, st := range s.Steps {
			tr.Step(st, results[i].obs[j])
		}
	}
}

func replyPayload(kind string, n *quiet.Node, other *quiet.Transport) []byte {
	port := uint16(n.Tr.Port)
	member := func(ip []byte, p uint16) []byte {
		return quiet.Encode(quiet.TConflictResponse, serf.Member{Name: selfName, Addr: ip, Port: p,
			Tags: map[string]string{}, Status: serf.StatusAlive, ProtocolMax: 5, DelegateMax: 5})
	}
	switch kind {
	case "match4":
		return member(n.Tr.IP.To4(), port)
	case "match16":
		return member(n.Tr.IP.To16(), port)
	case "addr":
		return member(other.IP.To4(), port)
	case "port":
		return member(n.Tr.IP.To4(), port+1)
	case "nil":
		return quiet.Encode(quiet.TConflictResponse, (*serf.Member)(nil))
	case "wrongtype":
		b := member(n.Tr.IP.To4(), port)
		b[0] = byte(quiet.TKeyResponse)
		return b
	case "undecodable":
		return []byte{byte(quiet.TConflictResponse), 0x86, 0xa4, 'N', 'a', 'm', 'e', 0xa6, 'n', 'o'}
	case "typeonly":
		return []byte{byte(quiet.TConflictResponse)}
	case "empty":
		return []byte{}
	}
	h.Die("c36: unknown reply kind %q", kind)
	return nil
}

func c36Vector(st h.Step, rng *rand.Rand, timeout time.Duration) (map[string]interface{}, error) {
	own, enabled := st.Bool("own"), st.Bool("enabled")
	net := quiet.NewNet()
	n, err := quiet.NewNode(net, selfName, nil, func(c *serf.Config) {
		c.EnableNameConflictResolution = enabled
		c.QueryTimeoutMult = 1
		c.MemberlistConfig.GossipInterval = timeout // default query timeout = GossipInterval * mult * ceil(log10(N+1))
	})
	if err != nil {
		return nil, fmt.Errorf("create: %v", err)
	}
	defer n.Serf.Shutdown()
	other := net.NewTransport("other")
	name := selfName
	if !own {
		name = "somebody-else"
	}
	obs := map[string]interface{}{"query": false, "shutdown": false, "valid": 0, "matching": 0, "order": []string{}, "timeout_ms": int(timeout / time.Millisecond)}
	n.Conf.MemberlistConfig.Conflict.NotifyConflict(n.MLNode(name, n.Tr, nil), n.MLNode(name, other, nil))

	// the conflict query shows up on the broadcast queue
	findQuery := func(wait time.Duration) (uint64, uint32, bool) {
		deadline := time.Now().Add(wait)
		for {
			for _, b := range n.Drain() {
				s := quiet.Summarize(b)
				if s.T == quiet.TQuery && s.Node == "_serf_conflict" {
					return s.LTime, s.ID, true
				}
			}
			if time.Now().After(deadline) {
				return 0, 0, false
			}
			time.Sleep(200 * time.Microsecond)
		}
	}
	if !(own && enabled) {
		// nothing should start; look for as long as a resolution would have taken
		_, _, found := findQuery(2*timeout + 20*time.Millisecond)
		obs["query"] = found
		obs["shutdown"] = n.Serf.State() == serf.SerfShutdown
		return obs, nil
	}
	lt, id, found := findQuery(5 * time.Second)
	if !found {
		return nil, fmt.Errorf("no conflict query was broadcast within 5s")
	}
	obs["query"] = true

	kinds := []string{}
	for _, x := range st.List("replies") {
		kinds = append(kinds, x.(string))
	}
	rng.Shuffle(len(kinds), func(i, j int) { kinds[i], kinds[j] = kinds[j], kinds[i] })
	obs["order"] = kinds
	open := func() (serf.VerifOpenQuery, bool) {
		for _, q := range n.Serf.VerifOpenQueries() {
			if q.LTime == lt && q.ID == id {
				return q, true
			}
		}
		return serf.VerifOpenQuery{}, false
	}
	for i, kind := range kinds {
		msg := quiet.Encode(quiet.TQueryResponse, quiet.MsgQueryResponse{LTime: lt, ID: id, From: "peer" + strconv.Itoa(i),
			Flags: 0, Payload: replyPayload(kind, n, other)})
		n.Del.NotifyMsg(msg)
		// the response channel holds one entry per known member (one here): wait until the vote
		// counter has taken this reply before sending the next
		deadline := time.Now().Add(2 * time.Second)
		for {
			q, ok := open()
			if !ok || q.Closed {
				return nil, lateErr{fmt.Sprintf("query closed after %d of %d replies", i, len(kinds))}
			}
			if q.Got != i+1 {
				return nil, lateErr{fmt.Sprintf("reply %d was not accepted (got %d)", i+1, q.Got)}
			}
			if q.Pending == 0 {
				break
			}
			if time.Now().After(deadline) {
				return nil, fmt.Errorf("vote counter did not take reply %d within 2s", i+1)
			}
			time.Sleep(100 * time.Microsecond)
		}
	}
	// the outcome is logged when the query times out
	deadline := time.Now().Add(timeout + 10*time.Second)
	var m []string
	for m == nil {
		m = voteLine.FindStringSubmatch(n.LogBuf.String())
		if m == nil {
			if time.Now().After(deadline) {
				return nil, fmt.Errorf("no resolution outcome logged; log:\n%s", n.LogBuf.String())
			}
			time.Sleep(500 * time.Microsecond)
		}
	}
	obs["matching"], _ = strconv.Atoi(m[2])
	obs["valid"], _ = strconv.Atoi(m[3])
	if m[1] == "minority" { // Shutdown follows the log line
		deadline = time.Now().Add(5 * time.Second)
		for n.Serf.State() != serf.SerfShutdown && time.Now().Before(deadline) {
			time.Sleep(200 * time.Microsecond)
		}
	}
	obs["shutdown"] = n.Serf.State() == serf.SerfShutdown
	if strings.Count(n.LogBuf.String(), "in name conflict resolution") != 1 {
		return nil, fmt.Errorf("more than one resolution outcome logged")
	}
	return obs, nil
}
