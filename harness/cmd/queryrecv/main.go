// Driver for the queryrecv family (C08 filters/ack/rebroadcast, C33 size limits, C35 relay choice,
// C36 name-conflict vote): executes TLC-generated vectors on real, quiet Serf nodes and records what
// the node did (event channel, transport packets, broadcast queues, State()).
//
//go:debug randseednop=0
package main

import (
	"bufio"
	"encoding/json"
	"flag"
	"fmt"
	"os"
	"strconv"
	"strings"
	"time"

	"github.com/hashicorp/serf/serf"

	"verif/harness/internal/h"
	"verif/harness/internal/quiet"
)

const selfName = "node-a"

// rig is one quiet node plus an "origin" endpoint queries pretend to come from.
type rig struct {
	net    *quiet.Net
	n      *quiet.Node
	origin *quiet.Transport
	mark   int
}

func newRig(opts ...quiet.Opt) *rig {
	r := &rig{net: quiet.NewNet()}
	r.origin = r.net.NewTransport("origin")
	nd, err := quiet.NewNode(r.net, selfName, nil, opts...)
	if err != nil {
		h.Die("create: %v", err)
	}
	r.n = nd
	r.events() // serf.Create announces the local node
	r.net.TakePackets()
	r.n.Drain()
	return r
}

func (r *rig) close() { _ = r.n.Serf.Shutdown() }

// events drains the event pipeline up to a marker pushed through its head (serfQueries.inCh) and
// returns what reached the application before the marker.
func (r *rig) events() []serf.Event {
	r.mark++
	name := "__verif_marker_" + strconv.Itoa(r.mark)
	r.n.Serf.VerifInnerEventCh() <- serf.UserEvent{Name: name}
	var out []serf.Event
	deadline := time.After(10 * time.Second)
	for {
		select {
		case e := <-r.n.Events:
			if u, ok := e.(serf.UserEvent); ok && u.Name == name {
				return out
			}
			out = append(out, e)
		case <-deadline:
			h.Die("event pipeline did not deliver the marker within 10s")
		}
	}
}

// sent returns the serf messages the node put on the transport since the last call, with destination.
type wire struct {
	to  string // transport name ("" unknown)
	msg []byte
}

func (r *rig) sent() []wire {
	var out []wire
	for _, p := range r.net.TakePackets() {
		if p.From != selfName {
			continue
		}
		for _, m := range quiet.UserMsgs(p.Buf) {
			if len(m) > 0 {
				out = append(out, wire{to: p.To, msg: m})
			}
		}
	}
	return out
}

// notify hands a raw serf message to the node's memberlist delegate; reports a panic instead of dying.
func (r *rig) notify(msg []byte) (panicked bool) {
	defer func() {
		if x := recover(); x != nil {
			panicked = true
		}
	}()
	r.n.Del.NotifyMsg(msg)
	return false
}

func (r *rig) queryMsg(lt, id int, name string, flags uint32, k int, filters [][]byte) []byte {
	return r.queryMsgID(lt, uint32(id), name, flags, k, filters)
}

func (r *rig) queryMsgID(lt int, id uint32, name string, flags uint32, k int, filters [][]byte) []byte {
	return quiet.Encode(quiet.TQuery, quiet.MsgQuery{LTime: uint64(lt), ID: id, Addr: r.origin.IP,
		Port: uint16(r.origin.Port), SourceNode: "origin", Filters: filters, Flags: flags, RelayFactor: uint8(k),
		Timeout: 30 * time.Second, Name: name, Payload: []byte("p")})
}

func joinLetters(xs []interface{}) string {
	var b strings.Builder
	for _, x := range xs {
		b.WriteString(x.(string))
	}
	return b.String()
}

// tracer is h.Tracer plus Flush and append mode: the trace is complete up to the last finished schedule
// even if the process dies later (a crash inside a serf goroutine cannot be recovered from here), and the
// orchestrator resumes after the schedule that killed it.
type tracer struct {
	f *os.File
	w *bufio.Writer
}

func newTracer(path string, appendTo bool) (*tracer, error) {
	flags := os.O_CREATE | os.O_WRONLY | os.O_TRUNC
	if appendTo {
		flags = os.O_CREATE | os.O_WRONLY | os.O_APPEND
	}
	f, err := os.OpenFile(path, flags, 0o644)
	if err != nil {
		return nil, err
	}
	return &tracer{f: f, w: bufio.NewWriterSize(f, 1<<20)}, nil
}

func (t *tracer) emit(act, obs interface{}) {
	b, err := json.Marshal(map[string]interface{}{"act": act, "obs": obs})
	if err != nil {
		panic(err)
	}
	t.w.Write(b)
	t.w.WriteByte('\n')
}

// Reset starts the trace of schedule id; everything before it is on disk.
func (t *tracer) Reset(id int, _ map[string]interface{}) {
	t.w.Flush()
	t.emit(map[string]interface{}{"a": "reset", "id": id}, 0)
	t.w.Flush()
}
func (t *tracer) Step(act, obs interface{}) { t.emit(act, obs) }
func (t *tracer) Close() error {
	if err := t.w.Flush(); err != nil {
		return err
	}
	return t.f.Close()
}

func main() {
	mode := flag.String("mode", "", "c08 | c33 | c35 | c36")
	in := flag.String("in", "", "schedules ndjson")
	out := flag.String("out", "", "trace ndjson")
	runs := flag.Int("runs", 20, "c35: replies per vector")
	par := flag.Int("par", 8, "c36: vectors in flight")
	tmo := flag.Int("timeout", 40, "c36: conflict query timeout in ms")
	from := flag.Int("from", 0, "skip schedules with an id below this and append to the trace (resume after a crash)")
	flag.Parse()
	all, err := h.ReadSchedules(*in)
	if err != nil {
		h.Die("%v", err)
	}
	var scheds []h.Schedule
	for _, s := range all {
		if s.ID >= *from {
			scheds = append(scheds, s)
		}
	}
	tr, err := newTracer(*out, *from > 0)
	if err != nil {
		h.Die("%v", err)
	}
	switch *mode {
	case "c08":
		runC08(scheds, tr)
	case "c33":
		runC33(scheds, tr)
	case "c35":
		runC35(scheds, tr, *runs)
	case "c36":
		runC36(scheds, tr, *par, time.Duration(*tmo)*time.Millisecond)
	default:
		h.Die("unknown mode %q", *mode)
	}
	if err := tr.Close(); err != nil {
		h.Die("%v", err)
	}
	fmt.Println("ok")
}
