// Driver for C01: runs TLC-generated fault scenarios on 3-5 REAL Serf nodes over REAL memberlist
// (fast timers) on the in-process transport (partitions = cut links), heals the network, waits for
// the real cluster to become quiet and records every running node's final view.
package main

import (
	"flag"
	"fmt"
	"math/rand"
	"sort"
	"strings"
	"sync"
	"time"

	"github.com/hashicorp/serf/serf"

	"verif/harness/internal/h"
	"verif/harness/internal/quiet"
)

type world struct {
	net    *quiet.Net
	names  []string
	nodes  []*quiet.Node
	trs    []*quiet.Transport
	state  []int // 0 never started, 1 running, 2 left, 3 dead
	mu     sync.Mutex
	side   map[string]bool // partition: names on side A; nil = whole
	stable time.Duration
}

var snapDir string

func fast(c *serf.Config) {
	m := c.MemberlistConfig
	m.ProbeInterval = 40 * time.Millisecond
	m.ProbeTimeout = 15 * time.Millisecond
	m.GossipInterval = 10 * time.Millisecond
	m.PushPullInterval = 200 * time.Millisecond
	m.SuspicionMult = 2
	m.SuspicionMaxTimeoutMult = 2
	m.RetransmitMult = 3
	m.TCPTimeout = 300 * time.Millisecond
	m.IndirectChecks = 1
	c.ReconnectInterval = 100 * time.Millisecond
	c.ReapInterval = 200 * time.Millisecond // the reaper runs; tombstone / reconnect timeouts stay at 24h / 48h
	c.BroadcastTimeout = 500 * time.Millisecond
	c.LeavePropagateDelay = 60 * time.Millisecond
	c.ValidateNodeNames = false
}

func newWorld(nn int, rng *rand.Rand, stable time.Duration) *world {
	w := &world{net: quiet.NewNet(), stable: stable}
	w.net.Capture = false
	for i := 0; i < nn; i++ {
		w.names = append(w.names, fmt.Sprintf("n%d-%d", i, rng.Intn(1000)))
		w.nodes = append(w.nodes, nil)
		w.trs = append(w.trs, nil)
		w.state = append(w.state, 0)
	}
	w.net.Cut = func(from, to string) bool {
		w.mu.Lock()
		defer w.mu.Unlock()
		if w.side == nil {
			return false
		}
		return w.side[from] != w.side[to]
	}
	return w
}

func (w *world) start(x int) error {
	var tr *quiet.Transport
	if w.trs[x] != nil {
		tr = w.net.Reuse(w.trs[x])
	} else {
		tr = w.net.NewTransport(w.names[x])
	}
	nd, err := quiet.NewNode(w.net, w.names[x], tr, fast, func(c *serf.Config) {
		if snapDir != "" {
			c.SnapshotPath = fmt.Sprintf("%s/snap-%p-%d", snapDir, w, x)
			c.RejoinAfterLeave = false
		}
	})
	if err != nil {
		return err
	}
	w.trs[x] = tr
	w.nodes[x] = nd
	w.state[x] = 1
	// nobody reads the event channel in this driver: drain it
	go func(ch chan serf.Event) {
		for range ch {
		}
	}(nd.Events)
	return nil
}

func (w *world) views() [][]int {
	nn := len(w.names)
	v := make([][]int, nn)
	for n := 0; n < nn; n++ {
		v[n] = make([]int, nn)
		if w.state[n] != 1 {
			continue
		}
		for _, m := range w.nodes[n].Serf.Members() {
			for x, name := range w.names {
				if name == m.Name {
					v[n][x] = int(m.Status)
				}
			}
		}
	}
	return v
}

func (w *world) do(st h.Step) {
	switch st.A() {
	case "start":
		if err := w.start(st.Int("x")); err != nil {
			h.Die("start: %v", err)
		}
	case "join":
		x, y := st.Int("x"), st.Int("y")
		var err error
		for i := 0; i < 5; i++ {
			if _, err = w.nodes[x].Serf.Join([]string{w.trs[y].Addr()}, false); err == nil {
				break
			}
			time.Sleep(50 * time.Millisecond)
		}
		if err != nil {
			h.Die("join %d->%d failed: %v", x, y, err)
		}
	case "leave":
		x := st.Int("x")
		_ = w.nodes[x].Serf.Leave()
		_ = w.nodes[x].Serf.Shutdown()
		w.state[x] = 2
	case "crash":
		x := st.Int("x")
		_ = w.nodes[x].Serf.Shutdown()
		w.state[x] = 3
	case "partition":
		side := map[string]bool{}
		for i, b := range st.Ints("s") {
			if b == 1 {
				side[w.names[i]] = true
			}
		}
		w.mu.Lock()
		w.side = side
		w.mu.Unlock()
	case "heal":
		w.mu.Lock()
		w.side = nil
		w.mu.Unlock()
	case "wait":
	default:
		h.Die("unknown op %q", st.A())
	}
	time.Sleep(250 * time.Millisecond) // let the cluster react between operations
}

// quiesce: heal, then wait until no running node's view changed for w.stable (cap 40s).
func (w *world) quiesce() ([][]int, bool) {
	w.mu.Lock()
	w.side = nil
	w.mu.Unlock()
	key := func(v [][]int) string { return fmt.Sprint(v) }
	last := key(w.views())
	since := time.Now()
	deadline := time.Now().Add(40 * time.Second)
	for time.Now().Before(deadline) {
		time.Sleep(50 * time.Millisecond)
		k := key(w.views())
		if k != last {
			last = k
			since = time.Now()
			continue
		}
		if time.Since(since) >= w.stable {
			return w.views(), true
		}
	}
	return w.views(), false
}

func main() {
	in := flag.String("in", "", "scenarios ndjson")
	out := flag.String("out", "", "trace ndjson")
	nn := flag.Int("nn", 3, "nodes")
	par := flag.Int("par", 8, "scenarios run concurrently")
	stableMs := flag.Int("stable", 1500, "quiet = no view change for this many ms")
	flag.StringVar(&snapDir, "snapdir", "", "if set, every node keeps a snapshot file under this directory")
	flag.Parse()
	scheds, err := h.ReadSchedules(*in)
	if err != nil {
		h.Die("%v", err)
	}
	type result struct {
		id    int
		lines []struct {
			act h.Step
			obs interface{}
		}
		quiet bool
	}
	results := make([]*result, len(scheds))
	sem := make(chan struct{}, *par)
	var wg sync.WaitGroup
	for i, s := range scheds {
		wg.Add(1)
		sem <- struct{}{}
		go func(i int, s h.Schedule) {
			defer wg.Done()
			defer func() { <-sem }()
			rng := rand.New(rand.NewSource(h.Seed()*1000003 + int64(s.ID)))
			w := newWorld(*nn, rng, time.Duration(*stableMs)*time.Millisecond)
			r := &result{id: s.ID}
			for _, st := range s.Steps {
				w.do(st)
				r.lines = append(r.lines, struct {
					act h.Step
					obs interface{}
				}{st, map[string]interface{}{"views": w.views()}})
			}
			v, ok := w.quiesce()
			r.quiet = ok
			if ok {
				r.lines = append(r.lines, struct {
					act h.Step
					obs interface{}
				}{h.Step{"a": "quiet"}, map[string]interface{}{"views": v}})
			}
			for x, nd := range w.nodes {
				if w.state[x] == 1 {
					_ = nd.Serf.Shutdown()
				}
			}
			results[i] = r
		}(i, s)
	}
	wg.Wait()
	tr, err := h.NewTracer(*out)
	if err != nil {
		h.Die("%v", err)
	}
	notQuiet := []string{}
	sort.Slice(results, func(i, j int) bool { return results[i].id < results[j].id })
	for _, r := range results {
		tr.Reset(r.id, nil)
		for _, l := range r.lines {
			tr.Step(l.act, l.obs)
		}
		if !r.quiet {
			notQuiet = append(notQuiet, fmt.Sprint(r.id))
		}
	}
	if err := tr.Close(); err != nil {
		h.Die("%v", err)
	}
	fmt.Printf("{\"not_quiet\": [%s]}\n", strings.Join(notQuiet, ","))
}
