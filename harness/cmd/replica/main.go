// Driver for the open single-replica family (C02 step clauses, C03, C04 intents, C15):
// applies TLC-generated inputs to one real, quiet Serf node through its memberlist delegates and
// public API and records the projected state after every input.
package main

import (
	"flag"
	"fmt"
	"os"
	"strings"
	"math/rand"
	"sort"
	"strconv"
	"sync"
	"time"

	"github.com/hashicorp/serf/serf"

	"verif/harness/internal/h"
	"verif/harness/internal/quiet"
	"verif/harness/internal/sched"
)

var pool = []string{"node-b", "node c", "n\td", "alive: x", "ünï", "#hash", "leave", "b", "B", "node-b ", "x/y:1"}

// per-member reap control through serf's ReconnectTimeoutOverride: the base timeout passed in tells
// which list is being reaped (failed: ReconnectTimeout, left: TombstoneTimeout).
type reapCtl struct {
	mu      sync.Mutex
	failed  map[string]bool
	left    map[string]bool
	recon   time.Duration
	tomb    time.Duration
}

func (r *reapCtl) ReconnectTimeout(m *serf.Member, timeout time.Duration) time.Duration {
	r.mu.Lock()
	defer r.mu.Unlock()
	if timeout == r.recon && r.failed[m.Name] {
		return 0
	}
	if timeout == r.tomb && r.left[m.Name] {
		return 0
	}
	return timeout
}

var raceMode bool     // C16: the two steps after {"a":"par"} run concurrently under the cooperative scheduler (handlers instrumented)
var raceBudget int
var slowConsumer bool // C16: no coalescing, application channel of capacity 1 that nobody reads until the end
var pipeline bool   // C16 mode: coalescers + snapshot on, observe emitted (log) vs received (EventCh)
var scratchDir string

type run struct {
	refLog int
	upd    int
	logPos int
	n     *quiet.Node
	net   *quiet.Net
	names []string // id -> concrete name (0 = self)
	trs   []*quiet.Transport
	reap  *reapCtl
	mark  int
}

func (r *run) id(name string) int {
	for i, n := range r.names {
		if n == name {
			return i
		}
	}
	return 99
}

func newRun(nn int, rng *rand.Rand) *run {
	r := &run{net: quiet.NewNet()}
	p := rng.Perm(len(pool))
	r.names = []string{"self-" + strconv.Itoa(rng.Intn(1000))}
	for i := 1; i < nn; i++ {
		r.names = append(r.names, pool[p[i-1]])
	}
	r.reap = &reapCtl{failed: map[string]bool{}, left: map[string]bool{}, recon: 24 * time.Hour, tomb: 48 * time.Hour}
	var small chan serf.Event
	nd, err := quiet.NewNode(r.net, r.names[0], nil, func(c *serf.Config) {
		c.ReapInterval = 3 * time.Millisecond
		c.ReconnectTimeoutOverride = r.reap
		c.ValidateNodeNames = false
		if pipeline {
			c.CoalescePeriod = 40 * time.Millisecond
			c.QuiescentPeriod = 20 * time.Millisecond
			c.UserCoalescePeriod = 40 * time.Millisecond
			c.UserQuiescentPeriod = 20 * time.Millisecond
			c.SnapshotPath = fmt.Sprintf("%s/snap-%d-%d", scratchDir, rng.Int63(), time.Now().UnixNano())
			if raceMode {
				c.CoalescePeriod, c.QuiescentPeriod, c.UserCoalescePeriod, c.UserQuiescentPeriod = 0, 0, 0, 0
				c.ReapInterval = time.Hour
			}
			if slowConsumer {
				c.CoalescePeriod, c.QuiescentPeriod, c.UserCoalescePeriod, c.UserQuiescentPeriod = 0, 0, 0, 0
				small = make(chan serf.Event, 1)
				c.EventCh = small
			}
		}
	})
	if err != nil {
		h.Die("create: %v", err)
	}
	r.n = nd
	if small != nil {
		nd.Events = small
	}
	r.trs = []*quiet.Transport{nd.Tr}
	for i := 1; i < nn; i++ {
		r.trs = append(r.trs, r.net.NewTransport(r.names[i]))
	}
	if pipeline {
		return r
	}
	// serf.Create announces the local node (EventMemberJoin for itself); not part of any step
	if ev := r.events(); len(ev) != 1 || ev[0][0] != 1 || ev[0][1] != 0 {
		h.Die("unexpected events at start-up: %v", ev)
	}
	return r
}

// events drains the event pipeline up to a marker pushed through its head.
func (r *run) events() [][]int {
	r.mark++
	name := "__verif_marker_" + strconv.Itoa(r.mark)
	r.n.Serf.VerifInnerEventCh() <- serf.UserEvent{Name: name}
	out := [][]int{}
	deadline := time.After(10 * time.Second)
	for {
		select {
		case e := <-r.n.Events:
			switch v := e.(type) {
			case serf.UserEvent:
				if v.Name == name {
					return out
				}
			case serf.MemberEvent:
				k := 0
				switch v.Type {
				case serf.EventMemberJoin:
					k = 1
				case serf.EventMemberLeave:
					k = 2
				case serf.EventMemberFailed:
					k = 3
				case serf.EventMemberUpdate:
					k = 4
				case serf.EventMemberReap:
					k = 5
				}
				for _, m := range v.Members {
					out = append(out, []int{k, r.id(m.Name)})
				}
			}
		case <-deadline:
			h.Die("event pipeline did not deliver the marker within 10s")
		}
	}
}

// emittedSince parses the member events serf logged (synchronously, inside the handlers) since the last call.
func (r *run) emittedSince() [][]int {
	all := r.n.LogBuf.String()
	chunk := all[r.logPos:]
	r.logPos = len(all)
	out := [][]int{}
	for _, line := range strings.Split(chunk, "\n") {
		i := strings.Index(line, "serf: EventMember")
		if i < 0 {
			continue
		}
		rest := line[i+len("serf: EventMember"):]
		k, withAddr := 0, true
		switch {
		case strings.HasPrefix(rest, "Join: "):
			k, rest = 1, rest[len("Join: "):]
		case strings.HasPrefix(rest, "Leave (forced): "):
			k, rest = 2, rest[len("Leave (forced): "):]
		case strings.HasPrefix(rest, "Leave: "):
			k, rest = 2, rest[len("Leave: "):]
		case strings.HasPrefix(rest, "Failed: "):
			k, rest = 3, rest[len("Failed: "):]
		case strings.HasPrefix(rest, "Update: "):
			k, rest, withAddr = 4, rest[len("Update: "):], false
		case strings.HasPrefix(rest, "Reap (forced): "):
			k, rest = 5, rest[len("Reap (forced): "):]
		case strings.HasPrefix(rest, "Reap: "):
			k, rest, withAddr = 5, rest[len("Reap: "):], false
		default:
			continue
		}
		name := rest
		if withAddr {
			if j := strings.LastIndex(rest, " "); j >= 0 {
				name = rest[:j]
			}
		}
		out = append(out, []int{r.id(name), k})
	}
	return out
}

// receivedNow drains what the application channel holds right now.
func (r *run) receivedNow() [][]int {
	out := [][]int{}
	for {
		select {
		case e := <-r.n.Events:
			if v, ok := e.(serf.MemberEvent); ok {
				k := map[serf.EventType]int{serf.EventMemberJoin: 1, serf.EventMemberLeave: 2, serf.EventMemberFailed: 3,
					serf.EventMemberUpdate: 4, serf.EventMemberReap: 5}[v.Type]
				for _, m := range v.Members {
					out = append(out, []int{r.id(m.Name), k})
				}
			}
		default:
			return out
		}
	}
}

func (r *run) summarize(raw [][]byte) [][]int {
	out := [][]int{}
	for _, b := range raw {
		s := quiet.Summarize(b)
		switch s.T {
		case quiet.TJoin:
			out = append(out, []int{1, r.id(s.Node), int(s.LTime), 0})
		case quiet.TLeave:
			p := 0
			if s.Prune {
				p = 1
			}
			out = append(out, []int{2, r.id(s.Node), int(s.LTime), p})
		default:
			out = append(out, []int{9, 0, 0, 0})
		}
	}
	sort.Slice(out, func(i, j int) bool {
		for k := 0; k < 4; k++ {
			if out[i][k] != out[j][k] {
				return out[i][k] < out[j][k]
			}
		}
		return false
	})
	return out
}

func (r *run) observe(queued [][]byte) map[string]interface{} {
	nn := len(r.names)
	ev := r.events()
	d := r.n.Serf.VerifDump()
	mem := make([]map[string]int, nn)
	ints := make([]map[string]int, nn)
	for i := range mem {
		mem[i] = map[string]int{"st": 0, "lt": 0}
		ints[i] = map[string]int{"ty": 0, "lt": 0}
	}
	for _, m := range d.Members {
		if i := r.id(m.Name); i < nn {
			mem[i] = map[string]int{"st": m.Status, "lt": int(m.LTime)}
		}
	}
	for _, in := range d.Intents {
		if i := r.id(in.Name); i < nn {
			ty := 1
			if in.Type == 0 {
				ty = 2
			}
			ints[i] = map[string]int{"ty": ty, "lt": int(in.LTime)}
		}
	}
	ids := func(names []string) []int {
		out := []int{}
		for _, n := range names {
			out = append(out, r.id(n))
		}
		return out
	}
	// the public API's view
	st := r.n.Serf.Stats()
	nf, _ := strconv.Atoi(st["failed"])
	nl, _ := strconv.Atoi(st["left"])
	cf, cl, dup := 0, 0, 0
	seen := map[string]bool{}
	for _, m := range r.n.Serf.Members() {
		if seen[m.Name] {
			dup++
		}
		seen[m.Name] = true
		switch m.Status {
		case serf.StatusFailed:
			cf++
		case serf.StatusLeft:
			cl++
		}
	}
	return map[string]interface{}{
		"clock": int(d.Clock), "sstate": d.State, "mem": mem, "failed": ids(d.Failed), "left": ids(d.Left),
		"intents": ints, "out": r.summarize(queued), "ev": ev,
		"api": map[string]int{"nf": nf, "nl": nl, "cf": cf, "cl": cl, "dup": dup},
	}
}

// newRefutes: refutation goroutines spawned since the last call (serf logs the decision synchronously inside the
// handler, before the `go` statement), so the driver does not depend on the model's hint.
func (r *run) newRefutes() int {
	n := strings.Count(r.n.LogBuf.String(), "Refuting an older leave intent")
	d := n - r.refLog
	r.refLog = n
	return d
}

// awaitRefutes waits (bounded) until w join intents about the local node have been queued.
func (r *run) awaitRefutes(w int, got [][]byte) [][]byte {
	deadline := time.Now().Add(1 * time.Second)
	count := func() int {
		c := 0
		for _, b := range got {
			s := quiet.Summarize(b)
			if s.T == quiet.TJoin && s.Node == r.names[0] {
				c++
			}
		}
		return c
	}
	for count() < w && time.Now().Before(deadline) {
		time.Sleep(200 * time.Microsecond)
		got = append(got, r.n.Drain()...)
	}
	return got
}

// pump runs f in a goroutine and keeps draining the broadcast queues until it returns (Leave and
// force-leave block until their broadcast has been handed out).
func (r *run) pump(f func()) [][]byte {
	done := make(chan struct{})
	go func() { f(); close(done) }()
	var got [][]byte
	for {
		select {
		case <-done:
			return append(got, r.n.Drain()...)
		default:
			got = append(got, r.n.Drain()...)
			time.Sleep(100 * time.Microsecond)
		}
	}
}

func (r *run) step(st h.Step) map[string]interface{} {
	var q [][]byte
	switch st.A() {
	case "mljoin":
		x := st.Int("x")
		r.n.Ev.NotifyJoin(r.n.MLNode(r.names[x], r.trs[x], nil))
		q = r.n.Drain()
	case "mlleave":
		x := st.Int("x")
		r.n.Ev.NotifyLeave(r.n.MLNode(r.names[x], r.trs[x], nil))
		q = r.n.Drain()
	case "mlupdate":
		x := st.Int("x")
		r.upd++
		meta := []byte(fmt.Sprintf("role-%d", r.upd)) // protocol < 3 style meta: decoded as the role tag
		r.n.Ev.NotifyUpdate(r.n.MLNode(r.names[x], r.trs[x], meta))
		q = r.n.Drain()
	case "msg":
		name := r.names[st.Int("x")]
		lt := uint64(st.Int("lt"))
		if st.Int("ty") == 1 {
			r.n.Del.NotifyMsg(quiet.Encode(quiet.TJoin, quiet.MsgJoin{LTime: lt, Node: name}))
		} else {
			r.n.Del.NotifyMsg(quiet.Encode(quiet.TLeave, quiet.MsgLeave{LTime: lt, Node: name, Prune: st.Int("prune") == 1}))
		}
		w := r.newRefutes()
		st["w"] = w
		q = r.awaitRefutes(w, r.n.Drain())
	case "merge":
		pp := st.Rec("pp")
		m := quiet.MsgPushPull{LTime: uint64(pp.Int("lt")), StatusLTimes: map[string]uint64{}, LeftMembers: []string{}}
		for i, e := range pp.List("ent") {
			er := h.Step(e.(map[string]interface{}))
			if er.Int("p") == 1 {
				m.StatusLTimes[r.names[i]] = uint64(er.Int("lt"))
			}
			if er.Int("left") == 1 {
				m.LeftMembers = append(m.LeftMembers, r.names[i])
			}
		}
		r.n.Del.MergeRemoteState(quiet.Encode(quiet.TPushPull, m), false)
		w := r.newRefutes()
		st["w"] = w
		q = r.awaitRefutes(w, r.n.Drain())
	case "forceleave":
		name := r.names[st.Int("x")]
		q = r.pump(func() {
			if st.Int("prune") == 1 {
				_ = r.n.Serf.RemoveFailedNodePrune(name)
			} else {
				_ = r.n.Serf.RemoveFailedNode(name)
			}
		})
		w := r.newRefutes()
		st["w"] = w
		q = r.awaitRefutes(w, q)
	case "bjoin":
		_ = r.n.Serf.VerifBroadcastJoin()
		q = r.n.Drain()
	case "leave":
		q = r.pump(func() { _ = r.n.Serf.Leave() })
	case "reap":
		fset, lset := map[string]bool{}, map[string]bool{}
		for _, x := range st.Ints("f") {
			fset[r.names[x]] = true
		}
		for _, x := range st.Ints("l") {
			lset[r.names[x]] = true
		}
		want := func() bool { // everything the schedule expires and the node lists is gone
			d := r.n.Serf.VerifDump()
			for _, n := range d.Failed {
				if fset[n] {
					return false
				}
			}
			for _, n := range d.Left {
				if lset[n] {
					return false
				}
			}
			return true
		}
		r.reap.mu.Lock()
		r.reap.failed, r.reap.left = fset, lset
		r.reap.mu.Unlock()
		time.Sleep(12 * time.Millisecond) // at least a few passes of the 3ms reaper
		deadline := time.Now().Add(1 * time.Second)
		for !want() && time.Now().Before(deadline) {
			time.Sleep(time.Millisecond)
		}
		r.reap.mu.Lock()
		r.reap.failed = map[string]bool{}
		r.reap.left = map[string]bool{}
		r.reap.mu.Unlock()
		q = r.n.Drain()
	case "expire":
		var names []string
		gone := map[string]bool{}
		for _, x := range st.Ints("s") {
			names = append(names, r.names[x])
			gone[r.names[x]] = true
		}
		r.n.Serf.VerifAgeIntents(names, 72*time.Hour) // RecentIntentTimeout is 24h here
		deadline := time.Now().Add(1 * time.Second)
		for time.Now().Before(deadline) { // the 3ms reaper's reapIntents pass
			left := false
			for _, in := range r.n.Serf.VerifDump().Intents {
				left = left || gone[in.Name]
			}
			if !left {
				break
			}
			time.Sleep(time.Millisecond)
		}
		q = r.n.Drain()
	default:
		h.Die("unknown action %q", st.A())
	}
	if pipeline {
		if p := st.Int("p"); p > 0 {
			time.Sleep(time.Duration(p) * time.Millisecond)
		}
		if slowConsumer { // the application does not read yet
			return map[string]interface{}{"em": r.emittedSince(), "rc": [][]int{}, "drained": false}
		}
		return map[string]interface{}{"em": r.emittedSince(), "rc": r.receivedNow(), "drained": false}
	}
	return r.observe(q)
}

// finalPipeline waits until the application channel has been silent for 10 coalesce periods.
func (r *run) finalPipeline() map[string]interface{} {
	rc := [][]int{}
	silent := time.Now()
	for time.Since(silent) < 400*time.Millisecond {
		got := r.receivedNow()
		if len(got) > 0 {
			rc = append(rc, got...)
			silent = time.Now()
		}
		time.Sleep(5 * time.Millisecond)
	}
	st := make([]int, len(r.names)) // status the node reports per member id (0 = not listed)
	for _, m := range r.n.Serf.VerifDump().Members {
		if i := r.id(m.Name); i < len(st) {
			st[i] = m.Status
		}
	}
	return map[string]interface{}{"em": r.emittedSince(), "rc": rc, "drained": true, "st": st}
}

func main() {
	in := flag.String("in", "", "schedules ndjson")
	out := flag.String("out", "", "trace ndjson")
	nn := flag.Int("nn", 3, "number of names (self included)")
	flag.BoolVar(&raceMode, "race", false, "C16: with -pipeline, run the two steps after the par marker concurrently under every schedule")
	flag.IntVar(&raceBudget, "racebudget", 40, "schedules per program in -race mode")
	flag.BoolVar(&slowConsumer, "slow", false, "C16: with -pipeline, no coalescing and a capacity-1 application channel read only at the end")
	flag.BoolVar(&pipeline, "pipeline", false, "C16: observe the event pipeline (coalescing + snapshot on)")
	flag.StringVar(&scratchDir, "dir", os.TempDir(), "scratch directory for snapshots")
	flag.Parse()
	scheds, err := h.ReadSchedules(*in)
	if err != nil {
		h.Die("%v", err)
	}
	tr, err := h.NewTracer(*out)
	if err != nil {
		h.Die("%v", err)
	}
	if raceMode {
		runRaces(scheds, *nn, tr)
		if err := tr.Close(); err != nil {
			h.Die("%v", err)
		}
		fmt.Println("ok")
		return
	}
	for _, s := range scheds {
		rng := rand.New(rand.NewSource(h.Seed()*1000003 + int64(s.ID)))
		r := newRun(*nn, rng)
		tr.Reset(s.ID, nil)
		for _, st := range s.Steps {
			tr.Step(st, r.step(st))
		}
		if pipeline {
			tr.Step(h.Step{"a": "final"}, r.finalPipeline())
		}
		_ = r.n.Serf.Shutdown()
	}
	if err := tr.Close(); err != nil {
		h.Die("%v", err)
	}
	fmt.Println("ok")
}

// ---- C16 handler races: the membership handlers of serf.go are yield-instrumented; two inputs about one member are
// delivered by two threads under every schedule with at most two preemptions (budgeted), the event pipeline runs freely.

// raceStep delivers one input without any waiting (the scheduler must not see the thread block).
func (r *run) raceStep(st h.Step) {
	switch st.A() {
	case "mljoin":
		x := st.Int("x")
		r.n.Ev.NotifyJoin(r.n.MLNode(r.names[x], r.trs[x], nil))
	case "mlleave":
		x := st.Int("x")
		r.n.Ev.NotifyLeave(r.n.MLNode(r.names[x], r.trs[x], nil))
	case "msg":
		name := r.names[st.Int("x")]
		lt := uint64(st.Int("lt"))
		if st.Int("ty") == 1 {
			r.n.Del.NotifyMsg(quiet.Encode(quiet.TJoin, quiet.MsgJoin{LTime: lt, Node: name}))
		} else {
			r.n.Del.NotifyMsg(quiet.Encode(quiet.TLeave, quiet.MsgLeave{LTime: lt, Node: name, Prune: st.Int("prune") == 1}))
		}
	default:
		h.Die("race step %q not supported", st.A())
	}
}

// drainToMarker reads the application channel up to a marker pushed through the head of the pipeline.
func (r *run) drainToMarker() [][]int {
	r.mark++
	name := "__verif_marker_" + strconv.Itoa(r.mark)
	r.n.Serf.VerifInnerEventCh() <- serf.UserEvent{Name: name}
	out := [][]int{}
	deadline := time.After(10 * time.Second)
	for {
		select {
		case e := <-r.n.Events:
			switch v := e.(type) {
			case serf.UserEvent:
				if v.Name == name {
					return out
				}
			case serf.MemberEvent:
				k := map[serf.EventType]int{serf.EventMemberJoin: 1, serf.EventMemberLeave: 2, serf.EventMemberFailed: 3,
					serf.EventMemberUpdate: 4, serf.EventMemberReap: 5}[v.Type]
				for _, m := range v.Members {
					out = append(out, []int{r.id(m.Name), k})
				}
			}
		case <-deadline:
			h.Die("event pipeline did not deliver the marker within 10s")
		}
	}
}

func runRaces(scheds []h.Schedule, nn int, tr *h.Tracer) {
	traceID := 0
	total := 0
	for _, s := range scheds {
		s := s
		split := -1
		for i, st := range s.Steps {
			if st.A() == "par" {
				split = i
			}
		}
		if split < 0 || len(s.Steps) != split+3 {
			h.Die("race schedule %d: need a par marker followed by exactly two steps", s.ID)
		}
		sc := func(sch *sched.S) (func(sched.Step), func(sched.Result)) {
			rng := rand.New(rand.NewSource(h.Seed()*1000003 + int64(s.ID)))
			r := newRun(nn, rng)
			serf.VerifYield = sch.Yield
			serf.VerifYieldBlocked = sch.YieldBlocked
			tr.Reset(traceID, map[string]interface{}{"prog": s.ID})
			traceID++
			for _, st := range s.Steps[:split] { // sequential prefix, from this (unmanaged) goroutine: yields return at once
				r.raceStep(st)
				tr.Step(st, map[string]interface{}{"em": r.emittedSince(), "rc": r.drainToMarker(), "drained": false})
			}
			a, b := s.Steps[split+1], s.Steps[split+2]
			sch.Go("a", func() { r.raceStep(a) })
			sch.Go("b", func() { r.raceStep(b) })
			return func(sched.Step) {}, func(res sched.Result) {
				serf.VerifYield = func(string) {}
				serf.VerifYieldBlocked = func(string) {}
				if !res.Deadlock && !res.Hung {
					st := make([]int, len(r.names))
					rc := r.drainToMarker()
					for _, m := range r.n.Serf.VerifDump().Members {
						if i := r.id(m.Name); i < len(st) {
							st[i] = m.Status
						}
					}
					tr.Step(h.Step{"a": "race", "p": a, "q": b}, map[string]interface{}{"em": r.emittedSince(), "rc": rc, "drained": true, "st": st})
				}
				_ = r.n.Serf.Shutdown()
			}
		}
		st := sched.Explore(sc, 2, raceBudget, h.Seed(), false)
		total += st.Schedules
	}
	fmt.Printf("{\"schedules\": %d}\n", total)
}
