// snaprewrite: writes a copy of serf/snapshot.go (of the CURRENT working tree) in which the file
// operations, the buffered writer and the time source are redirected to the shim defined in
// /verif/hooks/serf_snapshot/zz_verif_fs.go.  The copy replaces the original through `go build -overlay`.
//
//	os.OpenFile -> verifOpenFile   os.Remove -> verifRemove   os.Rename -> verifRename   os.File -> verifFile
//	bufio.NewWriter -> verifNewWriter   bufio.Writer -> verifBufWriter
//	time.Now -> verifNow   time.Since -> verifSince   time.NewTicker -> verifNewTicker
//
// Exit 4 (the check turns it into "inconclusive", never a verdict) when something that must be
// intercepted is not there (-require) or when the file uses a file-system / time facility the shim
// does not know (the interception would be incomplete).
package main

import (
	"flag"
	"fmt"
	"go/ast"
	"go/parser"
	"go/printer"
	"go/token"
	"os"
	"sort"
	"strconv"
	"strings"
)

var rewrite = map[string]string{
	"os.OpenFile":     "verifOpenFile",
	"os.Remove":       "verifRemove",
	"os.Rename":       "verifRename",
	"os.File":         "verifFile",
	"bufio.NewWriter": "verifNewWriter",
	"bufio.Writer":    "verifBufWriter",
	"time.Now":        "verifNow",
	"time.Since":      "verifSince",
	"time.NewTicker":  "verifNewTicker",
}

// selectors of the three packages that may stay as they are
var allowed = map[string]bool{
	"os.O_RDWR": true, "os.O_APPEND": true, "os.O_CREATE": true, "os.O_TRUNC": true, "os.O_WRONLY": true,
	"os.O_RDONLY": true, "os.O_EXCL": true, "os.O_SYNC": true, "os.FileMode": true, "os.ModePerm": true,
	"os.IsNotExist": true, "os.IsExist": true, "os.ErrNotExist": true, "os.PathError": true,
	"bufio.NewReader": true, "bufio.Reader": true, "bufio.NewScanner": true, "bufio.Scanner": true,
	"bufio.NewReaderSize": true,
	"time.Duration": true, "time.Time": true, "time.Millisecond": true, "time.Second": true, "time.Minute": true,
	"time.Microsecond": true, "time.Nanosecond": true, "time.Hour": true, "time.After": true,
}

func main() {
	in := flag.String("in", "", "serf/snapshot.go of the working tree")
	out := flag.String("out", "", "rewritten copy")
	require := flag.String("require", "os.OpenFile,os.File,bufio.NewWriter,bufio.Writer,time.Now,time.NewTicker",
		"comma separated selectors that must occur")
	loopFn := flag.String("loop", "stream", "method whose top-level for/select loop gets idle/busy hooks (\"\" = none)")
	flag.Parse()
	fset := token.NewFileSet()
	f, err := parser.ParseFile(fset, *in, nil, parser.ParseComments)
	if err != nil {
		fmt.Fprintln(os.Stderr, "snaprewrite:", err)
		os.Exit(4)
	}
	// local names of the imports we care about
	local := map[string]string{} // local package name -> import path
	for _, im := range f.Imports {
		p, _ := strconv.Unquote(im.Path.Value)
		name := p[strings.LastIndex(p, "/")+1:]
		if im.Name != nil {
			name = im.Name.Name
		}
		local[name] = p
		switch p {
		case "io/ioutil", "syscall", "golang.org/x/sys/unix", "io/fs", "path/filepath":
			fmt.Fprintf(os.Stderr, "snaprewrite: %s imports %s; file operations through it cannot be intercepted\n", *in, p)
			os.Exit(4)
		}
	}
	for _, pkg := range []string{"os", "bufio", "time"} {
		if p, ok := local[pkg]; ok && p != pkg {
			fmt.Fprintf(os.Stderr, "snaprewrite: local name %s is bound to %s\n", pkg, p)
			os.Exit(4)
		}
	}
	counts := map[string]int{}
	var unknown []string
	replaceExpr := func(e ast.Expr) ast.Expr {
		se, ok := e.(*ast.SelectorExpr)
		if !ok {
			return e
		}
		x, ok := se.X.(*ast.Ident)
		if !ok || x.Obj != nil { // x.Obj != nil: a local variable shadows the package name
			return e
		}
		if x.Name != "os" && x.Name != "bufio" && x.Name != "time" {
			return e
		}
		if _, imported := local[x.Name]; !imported {
			return e
		}
		key := x.Name + "." + se.Sel.Name
		if to, ok := rewrite[key]; ok {
			counts[key]++
			return &ast.Ident{NamePos: se.Pos(), Name: to}
		}
		if !allowed[key] {
			unknown = append(unknown, fmt.Sprintf("%s at %s", key, fset.Position(se.Pos())))
		}
		return e
	}
	rewriteAll(f, replaceExpr)
	// anything of the three packages left in a slot rewriteAll does not know is flagged, never ignored
	ast.Inspect(f, func(n ast.Node) bool {
		se, ok := n.(*ast.SelectorExpr)
		if !ok {
			return true
		}
		x, ok := se.X.(*ast.Ident)
		if !ok || x.Obj != nil {
			return true
		}
		if _, imported := local[x.Name]; !imported || (x.Name != "os" && x.Name != "bufio" && x.Name != "time") {
			return true
		}
		key := x.Name + "." + se.Sel.Name
		if _, ok := rewrite[key]; ok || !allowed[key] {
			unknown = append(unknown, fmt.Sprintf("%s at %s", key, fset.Position(se.Pos())))
		}
		return true
	})
	if len(unknown) > 0 {
		fmt.Fprintf(os.Stderr, "snaprewrite: %s uses facilities the shim does not intercept: %s\n", *in, strings.Join(unknown, "; "))
		os.Exit(4)
	}
	for _, r := range strings.Split(*require, ",") {
		if r != "" && counts[r] == 0 {
			fmt.Fprintf(os.Stderr, "snaprewrite: %s not found in %s (source was refactored?)\n", r, *in)
			os.Exit(4)
		}
	}
	// the stream loop: verifLoopIdle(s) before its select, verifLoopBusy(s) first in every case, so that the
	// driver knows exactly when the loop has taken and finished everything it was given (no sleeps, no guessing)
	if *loopFn != "" {
		ni, nb := hookLoop(f, *loopFn)
		if ni != 1 || nb < 2 {
			fmt.Fprintf(os.Stderr, "snaprewrite: method %s with a top-level `for { select { ... } }` not found in %s (idle hooks %d, case hooks %d)\n",
				*loopFn, *in, ni, nb)
			os.Exit(4)
		}
		counts["loop.idle"], counts["loop.case"] = ni, nb
	}
	// drop imports that are no longer referenced
	used := map[string]bool{}
	ast.Inspect(f, func(n ast.Node) bool {
		if se, ok := n.(*ast.SelectorExpr); ok {
			if x, ok := se.X.(*ast.Ident); ok && x.Obj == nil {
				used[x.Name] = true
			}
		}
		return true
	})
	for _, d := range f.Decls {
		gd, ok := d.(*ast.GenDecl)
		if !ok || gd.Tok != token.IMPORT {
			continue
		}
		var keep []ast.Spec
		for _, sp := range gd.Specs {
			im := sp.(*ast.ImportSpec)
			p, _ := strconv.Unquote(im.Path.Value)
			name := p[strings.LastIndex(p, "/")+1:]
			if im.Name != nil {
				name = im.Name.Name
			}
			if (p == "os" || p == "bufio" || p == "time") && !used[name] {
				continue
			}
			keep = append(keep, sp)
		}
		gd.Specs = keep
	}
	w, err := os.Create(*out)
	if err != nil {
		fmt.Fprintln(os.Stderr, "snaprewrite:", err)
		os.Exit(4)
	}
	if err := (&printer.Config{Mode: printer.UseSpaces | printer.TabIndent, Tabwidth: 8}).Fprint(w, fset, f); err != nil {
		fmt.Fprintln(os.Stderr, "snaprewrite:", err)
		os.Exit(4)
	}
	w.Close()
	var ks []string
	for k, v := range counts {
		ks = append(ks, fmt.Sprintf("%s=%d", k, v))
	}
	sort.Strings(ks)
	fmt.Println(strings.Join(ks, " "))
}

// hookLoop instruments the first top-level `for { ... select { ... } ... }` of the given method.
func hookLoop(f *ast.File, name string) (idle, cases int) {
	for _, d := range f.Decls {
		fd, ok := d.(*ast.FuncDecl)
		if !ok || fd.Body == nil || fd.Name.Name != name || fd.Recv == nil || len(fd.Recv.List) != 1 || len(fd.Recv.List[0].Names) != 1 {
			continue
		}
		recv := fd.Recv.List[0].Names[0].Name
		call := func(fn string) ast.Stmt {
			return &ast.ExprStmt{X: &ast.CallExpr{Fun: ast.NewIdent(fn), Args: []ast.Expr{ast.NewIdent(recv)}}}
		}
		for _, st := range fd.Body.List {
			if ls, ok := st.(*ast.LabeledStmt); ok {
				st = ls.Stmt
			}
			fs, ok := st.(*ast.ForStmt)
			if !ok || fs.Cond != nil || fs.Init != nil || fs.Post != nil {
				continue
			}
			for i, bs := range fs.Body.List {
				inner := bs
				if ls, ok := inner.(*ast.LabeledStmt); ok {
					inner = ls.Stmt
				}
				sel, ok := inner.(*ast.SelectStmt)
				if !ok {
					continue
				}
				for _, c := range sel.Body.List {
					cc := c.(*ast.CommClause)
					cc.Body = append([]ast.Stmt{call("verifLoopBusy")}, cc.Body...)
					cases++
				}
				body := append([]ast.Stmt{}, fs.Body.List[:i]...)
				body = append(body, call("verifLoopIdle"))
				body = append(body, fs.Body.List[i:]...)
				fs.Body.List = body
				idle++
				return
			}
		}
	}
	return
}

// rewriteAll applies fn to every expression slot of the file (post-order).
func rewriteAll(f *ast.File, fn func(ast.Expr) ast.Expr) {
	var fix func(e *ast.Expr)
	fix = func(e *ast.Expr) {
		if *e != nil {
			*e = fn(*e)
		}
	}
	ast.Inspect(f, func(n ast.Node) bool {
		switch v := n.(type) {
		case *ast.Field:
			fix(&v.Type)
		case *ast.StarExpr:
			fix(&v.X)
		case *ast.CallExpr:
			fix(&v.Fun)
			for i := range v.Args {
				fix(&v.Args[i])
			}
		case *ast.SelectorExpr:
			fix(&v.X)
		case *ast.ValueSpec:
			fix(&v.Type)
			for i := range v.Values {
				fix(&v.Values[i])
			}
		case *ast.TypeSpec:
			fix(&v.Type)
		case *ast.AssignStmt:
			for i := range v.Rhs {
				fix(&v.Rhs[i])
			}
		case *ast.CompositeLit:
			fix(&v.Type)
			for i := range v.Elts {
				fix(&v.Elts[i])
			}
		case *ast.KeyValueExpr:
			fix(&v.Value)
		case *ast.UnaryExpr:
			fix(&v.X)
		case *ast.BinaryExpr:
			fix(&v.X)
			fix(&v.Y)
		case *ast.ParenExpr:
			fix(&v.X)
		case *ast.ReturnStmt:
			for i := range v.Results {
				fix(&v.Results[i])
			}
		case *ast.ArrayType:
			fix(&v.Elt)
		case *ast.MapType:
			fix(&v.Key)
			fix(&v.Value)
		case *ast.ChanType:
			fix(&v.Value)
		case *ast.TypeAssertExpr:
			fix(&v.Type)
		case *ast.DeferStmt, *ast.GoStmt, *ast.ExprStmt:
			// their CallExpr children are visited
		case *ast.IndexExpr:
			fix(&v.X)
			fix(&v.Index)
		}
		return true
	})
}
