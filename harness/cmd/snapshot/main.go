// Driver for the snapshot family (C10..C13): executes TLC-generated schedules on the REAL
// serf.Snapshotter (built with the file-operation shim overlay, see hooks/serf_snapshot and
// harness/cmd/snaprewrite) and records, per input, one trace line for the input, one per operation
// boundary (with the in-memory state read at that boundary and the state a fresh NewSnapshotter
// recovers from the directory image captured there = the process-crash image) and one completion line.
//
//	-mode run    supervisor: runs the schedules in child processes; a child killed by a Go panic
//	             (the stream goroutine is the snapshotter's own, a panic there kills the process) yields
//	             a {"a":"panic"} line for the schedule in progress and the next child continues after it
//	-mode child  executes schedules [from, ...) and appends to the trace
package main

import (
	"bufio"
	"bytes"
	"encoding/json"
	"flag"
	"fmt"
	"io"
	"log"
	"math/rand"
	"net"
	"os"
	"os/exec"
	"path/filepath"
	"runtime"
	"strconv"
	"strings"
	"sync"
	"time"

	"github.com/hashicorp/serf/serf"

	"verif/harness/internal/h"
)

// ---------------------------------------------------------------------------------- schedules

type schedCfg struct {
	Mcs  int    `json:"mcs"`  // minCompactSize (bytes)
	Ral  bool   `json:"ral"`  // rejoinAfterLeave
	NN   int    `json:"nn"`   // abstract names 1..NN
	NA   int    `json:"na"`   // abstract addresses 1..NA
	MaxT int    `json:"maxt"` // abstract times 0..MaxT
	Cls  string `json:"cls"`  // plain | hostile | newline
	TCls string `json:"tcls"` // small | wide
	Cid  int    `json:"cid"`  // concretization id: schedules with the same cid get the same concrete names
	Torn int    `json:"torn"` // torn-tail class: 0 none, 1 at shutdowns and crashes, 2 also after every write of the snapshot
	Serf bool   `json:"serf"` // Serf-level history: a real quiet serf.Serf with conf.SnapshotPath (see serf.go of this command)
}

type sched struct {
	ID    int      `json:"id"`
	Cfg   schedCfg `json:"cfg"`
	Steps []h.Step `json:"steps"`
}

func readScheds(path string) ([]sched, error) {
	f, err := os.Open(path)
	if err != nil {
		return nil, err
	}
	defer f.Close()
	var res []sched
	sc := bufio.NewScanner(f)
	sc.Buffer(make([]byte, 1<<20), 1<<28)
	for sc.Scan() {
		if len(bytes.TrimSpace(sc.Bytes())) == 0 {
			continue
		}
		var s sched
		if err := json.Unmarshal(sc.Bytes(), &s); err != nil {
			return nil, err
		}
		res = append(res, s)
	}
	return res, sc.Err()
}

// ---------------------------------------------------------------------------------- trace

type tracer struct {
	f  *os.File
	mu sync.Mutex
}

func (t *tracer) emit(act, obs interface{}) {
	b, err := json.Marshal(map[string]interface{}{"act": act, "obs": obs})
	if err != nil {
		h.Die("marshal: %v", err)
	}
	b = append(b, '\n')
	t.mu.Lock()
	if _, err := t.f.Write(b); err != nil { // one write per line: a dying process leaves whole lines
		h.Die("trace write: %v", err)
	}
	t.mu.Unlock()
}

// ---------------------------------------------------------------------------------- concretization

var plainNames = []string{"node-a", "node-b", "n3", "web-01.dc1", "db", "serf-agent-7"}
var hostileNames = []string{"node b", "n\tc", "alive: x", "not-alive: y 1.2.3.4:5", "ünï-çødé", "#hash", "leave",
	"clock: 7", "a ", " b", "x y z 1.1.1.1:1", "coordinate: z", "event-clock: 9", "node-a", "A",
	"long-" + strings.Repeat("n", 90) + " end", "q\r", "tab\there 10.0.0.1:1"}
var newlineNames = []string{"evil\nleave\nx", "n\nleave\n", "\nleave\n"}

type addr struct {
	ip   net.IP
	port uint16
}

var addrPool = []addr{{net.ParseIP("127.0.0.1").To4(), 7946}, {net.ParseIP("10.1.2.3").To4(), 80}, {net.ParseIP("::1"), 8301},
	{net.ParseIP("fe80::1"), 65535}, {nil, 0}, {net.ParseIP("192.168.100.200").To4(), 12345}}


func (a addr) String() string { t := net.TCPAddr{IP: a.ip, Port: int(a.port)}; return t.String() }

type conc struct {
	names []string // 1-based
	addrs []addr   // 1-based
	times []uint64 // 0-based: abstract t -> concrete
	evil  []int
	tags  []string
	nIdx  map[string]int
	aIdx  map[string]int
	tIdx  map[uint64]int
}

func concretize(c schedCfg, rng *rand.Rand) *conc {
	k := &conc{nIdx: map[string]int{}, aIdx: map[string]int{}, tIdx: map[uint64]int{}, evil: []int{}, tags: []string{}}
	var pool []string
	switch c.Cls {
	case "plain":
		pool = plainNames
	case "newline":
		pool = append(append([]string{}, plainNames...), hostileNames[:6]...)
	default:
		pool = hostileNames
	}
	p := rng.Perm(len(pool))
	k.names = make([]string, c.NN+1)
	for i := 1; i <= c.NN; i++ {
		k.names[i] = pool[p[(i-1)%len(p)]]
	}
	if c.Cls == "newline" { // exactly one name with an embedded "\nleave\n"
		e := 1 + rng.Intn(c.NN)
		k.names[e] = newlineNames[rng.Intn(len(newlineNames))]
		k.evil = []int{e}
		k.tags = []string{"nl_name"}
	}
	for i := 1; i <= c.NN; i++ {
		k.nIdx[k.names[i]] = i
	}
	ap := rng.Perm(len(addrPool))
	k.addrs = make([]addr, c.NA+1)
	for i := 1; i <= c.NA; i++ {
		k.addrs[i] = addrPool[ap[(i-1)%len(ap)]]
		k.aIdx[k.addrs[i].String()] = i
	}
	k.times = make([]uint64, c.MaxT+1)
	if c.TCls == "wide" {
		// monotone 64-bit values: small steps, and each of four big jumps at a random position (the sum of all
		// jumps stays below 2^64-2: Witness(2^64-1) wraps serf's clock to 0, finding C19-wrap-at-max, not this
		// family's subject)
		jumps := map[int]uint64{}
		for _, j := range []uint64{1 << 32, 1 << 53, 1 << 62, 1 << 63} {
			if c.MaxT >= 1 {
				jumps[1+rng.Intn(c.MaxT)] += j
			}
		}
		for t := 1; t <= c.MaxT; t++ {
			k.times[t] = k.times[t-1] + uint64(1+rng.Intn(9)) + jumps[t]
		}
	} else {
		for t := 0; t <= c.MaxT; t++ {
			k.times[t] = uint64(t)
		}
	}
	for t, v := range k.times {
		k.tIdx[v] = t
	}
	return k
}

func (k *conc) resetCfg(c schedCfg) map[string]interface{} {
	nlen := make([]int, c.NN)
	for i := 1; i <= c.NN; i++ {
		nlen[i-1] = len(k.names[i])
	}
	alen := make([]int, c.NA)
	for i := 1; i <= c.NA; i++ {
		alen[i-1] = len(k.addrs[i].String())
	}
	tlen := make([]int, c.MaxT+1)
	for t := 0; t <= c.MaxT; t++ {
		tlen[t] = len(strconv.FormatUint(k.times[t], 10))
	}
	return map[string]interface{}{"mcs": c.Mcs, "ral": c.Ral, "bpn": 256, "nlen": nlen, "alen": alen, "tlen": tlen,
		"evil": k.evil, "tags": k.tags}
}

// abstract <alive, lc, ec, qc>; x counts entries that are not one of the schedule's names/addresses/times
func (k *conc) absState(c schedCfg, alive map[string]string, lc, ec, qc uint64) map[string]interface{} {
	al := make([]int, c.NN)
	x := 0
	for n, a := range alive {
		ni, ok1 := k.nIdx[n]
		ai, ok2 := k.aIdx[a]
		if !ok1 || !ok2 {
			x++
			continue
		}
		al[ni-1] = ai
	}
	tm := func(v uint64) int {
		if t, ok := k.tIdx[v]; ok {
			return t
		}
		x++
		return -1
	}
	return map[string]interface{}{"alive": al, "lc": tm(lc), "ec": tm(ec), "qc": tm(qc), "x": x}
}

// ---------------------------------------------------------------------------------- runner

type ticker interface{ Fire(time.Duration) bool }

type image struct {
	cur, tmp []byte
	curEx    bool
	tmpEx    bool
}

type line struct {
	act, obs interface{}
	idx      int // index of the real operation (0 for bufw)
}

type runner struct {
	s       sched
	k       *conc
	tr      *tracer
	work    string
	root    string
	nroot   int
	recN    int
	recC    map[string]map[string]interface{}
	snap    *serf.Snapshotter
	inCh    chan<- serf.Event
	outCh   chan serf.Event
	shut    chan struct{}
	clock   *serf.LamportClock
	tk      ticker
	left    bool
	given   int // things handed to the stream loop in this session: events, ticks, leave
	images  map[int]image // real operation index -> image after it (0 = at session start)
	buffer  bool          // collect boundary lines instead of emitting them at once
	lines   []line
}

const waitLong = 60 * time.Second

func (r *runner) path() string { return filepath.Join(r.root, "snap") }

func readFile(p string) ([]byte, bool) {
	b, err := os.ReadFile(p)
	if err != nil {
		return nil, false
	}
	return b, true
}

func (r *runner) capture() image {
	var im image
	im.cur, im.curEx = readFile(r.path())
	im.tmp, im.tmpEx = readFile(r.path() + ".compact")
	return im
}

// recover runs the REAL replay: a fresh NewSnapshotter on a copy of the image.
func (r *runner) recover(im image) map[string]interface{} {
	key := "-"
	if im.curEx {
		key = "+" + string(im.cur)
	}
	if v, ok := r.recC[key]; ok {
		return v
	}
	r.recN++
	dir := filepath.Join(r.work, fmt.Sprintf("rec-%d-%d", r.s.ID, r.recN))
	if err := os.MkdirAll(dir, 0755); err != nil {
		h.Die("%v", err)
	}
	defer os.RemoveAll(dir)
	if im.curEx {
		if err := os.WriteFile(filepath.Join(dir, "snap"), im.cur, 0644); err != nil {
			h.Die("%v", err)
		}
	}
	if im.tmpEx {
		if err := os.WriteFile(filepath.Join(dir, "snap.compact"), im.tmp, 0644); err != nil {
			h.Die("%v", err)
		}
	}
	serf.VerifFS.SetMute(true)
	defer serf.VerifFS.SetMute(false)
	clock := new(serf.LamportClock)
	clock.Increment()
	sh := make(chan struct{})
	_, sn, err := serf.NewSnapshotter(filepath.Join(dir, "snap"), 1<<30, r.s.Cfg.Ral, log.New(io.Discard, "", 0), clock, nil, sh)
	if err != nil {
		h.Die("recovery NewSnapshotter failed: %v", err)
	}
	alive := map[string]string{}
	for _, p := range sn.AliveNodes() {
		alive[p.Name] = p.Addr
	}
	st := r.k.absState(r.s.Cfg, alive, uint64(sn.LastClock()), uint64(sn.LastEventClock()), uint64(sn.LastQueryClock()))
	close(sh)
	sn.Wait()
	serf.VerifLoopForget(sn)
	r.recC[key] = st
	return st
}

// torn: the torn-tail crash class.  The snapshot image is cut at EVERY byte offset inside its last line (the
// fragment keeps 1 .. len-1 bytes of the line, never its newline) and each cut file is replayed by the real
// NewSnapshotter; base = what the file cut at the start of that line (whole lines only) replays to.  A fragment
// without its newline is not a recorded line, so every cut must replay to base.
func (r *runner) torn(im image) (act, obs map[string]interface{}, ok bool) {
	n := len(im.cur)
	if !im.curEx || n < 2 || im.cur[n-1] != '\n' {
		return nil, nil, false
	}
	start := bytes.LastIndexByte(im.cur[:n-1], '\n') + 1
	cutAt := func(l int) map[string]interface{} {
		return r.recover(image{cur: append([]byte(nil), im.cur[:l]...), curEx: true, tmp: im.tmp, tmpEx: im.tmpEx})
	}
	base := cutAt(start)
	recs := []map[string]interface{}{}
	seen := map[string]bool{}
	for l := start + 1; l < n; l++ {
		st := cutAt(l)
		b, _ := json.Marshal(st)
		if !seen[string(b)] {
			seen[string(b)] = true
			recs = append(recs, st)
		}
	}
	return map[string]interface{}{"a": "torn", "n": n - 1 - start}, map[string]interface{}{"base": base, "recs": recs}, true
}

func (r *runner) emitTorn(im image) {
	if act, obs, ok := r.torn(im); ok {
		if r.buffer {
			r.lines = append(r.lines, line{act, obs, 0})
		} else {
			r.tr.emit(act, obs)
		}
	}
}

func (r *runner) memObs() map[string]interface{} {
	st := serf.VerifSnapshotState(r.snap)
	a := r.k.absState(r.s.Cfg, st.Alive, st.Clock, st.EvClock, st.QClock)
	a["lv"] = st.Leaving
	a["off"] = int(st.Offset)
	a["fh"] = !st.FhNil
	a["bw"] = !st.BufNil
	a["pend"] = st.Pending
	return a
}

func fileTag(base string) string {
	switch base {
	case "snap":
		return "cur"
	case "snap.compact":
		return "tmp"
	}
	return "other"
}

// after is the shim's boundary callback; it runs in the goroutine that performed the operation.
func (r *runner) after(op serf.VerifOp) {
	if r.snap == nil {
		return // operations of NewSnapshotter itself (open, stat, seek): the start is one step
	}
	im := r.capture()
	if op.Idx > 0 {
		r.images[op.Idx] = im
	}
	mem := r.memObs()
	pend := mem["pend"]
	delete(mem, "pend")
	wlen := 0
	nl := false
	if op.Op == "write" {
		wlen = len(op.Data)
		nl = strings.HasSuffix(op.Data, "\n")
	}
	act := map[string]interface{}{"a": "op", "op": op.Op, "f": fileTag(op.File), "ok": op.OK, "wlen": wlen, "nl": nl}
	obs := map[string]interface{}{"mem": mem, "pend": pend, "rec": r.recover(im), "nf": !im.curEx}
	if r.buffer {
		r.lines = append(r.lines, line{act, obs, op.Idx})
	} else {
		r.tr.emit(act, obs)
	}
	if r.s.Cfg.Torn >= 2 && op.Op == "write" && op.OK && fileTag(op.File) == "cur" {
		r.emitTorn(im)
	}
}

func (r *runner) newRoot(im *image) {
	r.nroot++
	r.root = filepath.Join(r.work, fmt.Sprintf("run-%d-%d", r.s.ID, r.nroot))
	if err := os.MkdirAll(r.root, 0755); err != nil {
		h.Die("%v", err)
	}
	if im != nil {
		if im.curEx {
			os.WriteFile(r.path(), im.cur, 0644)
		}
		if im.tmpEx {
			os.WriteFile(r.path()+".compact", im.tmp, 0755)
		}
	}
}

func (r *runner) start() {
	serf.VerifFS.Root = r.root
	serf.VerifFS.After = r.after
	serf.VerifFS.ResetOps()
	r.snap = nil
	r.left = false
	r.clock = new(serf.LamportClock)
	r.outCh = make(chan serf.Event, 8192)
	r.shut = make(chan struct{})
	r.given = 0
	inCh, snap, err := serf.NewSnapshotter(r.path(), r.s.Cfg.Mcs, r.s.Cfg.Ral, log.New(io.Discard, "", 0), r.clock, r.outCh, r.shut)
	if err != nil {
		h.Die("NewSnapshotter failed without an injected fault: %v", err)
	}
	tk := serf.VerifFS.NextTicker(waitLong)
	if tk == nil {
		h.Die("the stream loop did not create its ticker")
	}
	r.tk = tk
	serf.VerifFS.ResetOps()
	r.images = map[int]image{0: r.capture()}
	r.inCh = inCh
	r.snap = snap
	// Serf.Create: clock.Increment(); clock.Witness(oldClock)
	r.clock.Increment()
	r.clock.Witness(snap.LastClock())
	alive := map[string]string{}
	for _, p := range snap.AliveNodes() {
		alive[p.Name] = p.Addr
	}
	st := r.k.absState(r.s.Cfg, alive, uint64(snap.LastClock()), uint64(snap.LastEventClock()), uint64(snap.LastQueryClock()))
	// off = the offset the snapshotter starts from (the file size); used by the family to place thresholds
	r.tr.emit(map[string]interface{}{"a": "started"}, map[string]interface{}{"ok": true, "st": st,
		"off": int(serf.VerifSnapshotState(snap).Offset)})
}

// stopQuietly ends the current process image without letting it touch what the next session sees.
func (r *runner) abandon() {
	if r.snap == nil {
		return
	}
	serf.VerifFS.After = nil
	serf.VerifFS.SetFail(0)
	serf.VerifFS.SetFailKind("")
	close(r.shut)
	r.snap.Wait()
	serf.VerifLoopForget(r.snap)
	r.snap = nil
	os.RemoveAll(r.root)
}

func (r *runner) mkEvent(st h.Step) serf.Event {
	ty := st.Int("ty")
	switch ty {
	case 1, 2, 3, 4, 5:
		kinds := []serf.EventType{0, serf.EventMemberJoin, serf.EventMemberLeave, serf.EventMemberFailed, serf.EventMemberUpdate, serf.EventMemberReap}
		var ms []serf.Member
		for _, x := range st.List("ms") {
			pr, _ := x.([]interface{})
			n := h.ToInt(pr[0])
			a := h.ToInt(pr[1])
			m := serf.Member{Name: r.k.names[n]}
			if a >= 1 {
				m.Addr, m.Port = r.k.addrs[a].ip, r.k.addrs[a].port
			} else {
				m.Addr, m.Port = net.ParseIP("203.0.113.9").To4(), 9 // leave/failed/update/reap: the address is not recorded
			}
			ms = append(ms, m)
		}
		return serf.MemberEvent{Type: kinds[ty], Members: ms}
	case 6:
		return serf.UserEvent{LTime: serf.LamportTime(r.k.times[st.Int("t")]), Name: "deploy", Payload: []byte("p")}
	case 7:
		return &serf.Query{LTime: serf.LamportTime(r.k.times[st.Int("t")]), Name: "q"}
	}
	h.Die("bad event type %d", ty)
	return nil
}

func sameEvent(a, b serf.Event) bool {
	switch x := a.(type) {
	case serf.MemberEvent:
		y, ok := b.(serf.MemberEvent)
		if !ok || x.Type != y.Type || len(x.Members) != len(y.Members) {
			return false
		}
		for i := range x.Members {
			if x.Members[i].Name != y.Members[i].Name {
				return false
			}
		}
		return true
	case serf.UserEvent:
		y, ok := b.(serf.UserEvent)
		return ok && x.LTime == y.LTime && x.Name == y.Name
	case *serf.Query:
		y, ok := b.(*serf.Query)
		return ok && x == y
	}
	return false
}

// waitOut: the event must come out of outCh (the snapshotter forwards what it is fed).
func (r *runner) waitOut(ev serf.Event) bool {
	deadline := time.After(waitLong)
	for {
		select {
		case e := <-r.outCh:
			if sameEvent(ev, e) {
				return true
			}
		case <-deadline:
			return false
		}
	}
}

// barrier: returns when the stream loop has taken and completely handled everything it was given (the
// rewritten stream() counts its arrivals at the select and its departures from it, see the shim).
func (r *runner) barrier() {
	deadline := time.Now().Add(waitLong)
	for i := 0; ; i++ {
		idle, busy := serf.VerifLoopCounts(r.snap)
		if busy == r.given && idle == busy+1 {
			return
		}
		if busy > r.given {
			h.Die("stream loop woke up %d times for %d inputs", busy, r.given)
		}
		if time.Now().After(deadline) {
			h.Die("stream loop did not finish its input within %v (hang): given=%d idle=%d busy=%d", waitLong, r.given, idle, busy)
		}
		if i < 2000 {
			runtime.Gosched()
		} else {
			time.Sleep(100 * time.Microsecond)
		}
	}
}

func (r *runner) doneLine(of string, fwd bool) {
	r.tr.emit(map[string]interface{}{"a": "done", "of": of}, map[string]interface{}{"fwd": fwd, "mem": r.stripPend(r.memObs())})
}

func (r *runner) stripPend(m map[string]interface{}) map[string]interface{} { delete(m, "pend"); return m }

// input performs one input of the stream loop; crashAt >= 0: the process "dies" after the real operation
// with that session index (the rest of the input happens in a process image nobody will see).
// crashSel ("op:file", e.g. "close:tmp") selects the first operation of that kind of this input instead.
func (r *runner) input(st h.Step, crashAt int, crashSel string) (crashed bool, k int) {
	before := serf.VerifFS.Ops()
	if f := st.Int("fail"); f > 0 {
		serf.VerifFS.SetFail(before + f)
	}
	if fo := st.Str("failop"); fo != "" { // fault window: every operation of that kind fails during this input
		serf.VerifFS.SetFailKind(fo[:strings.Index(fo, ":")+1] + map[string]string{"cur": "snap", "tmp": "snap.compact"}[fo[strings.Index(fo, ":")+1:]])
	}
	r.buffer = crashAt >= 0
	r.lines = nil
	r.tr.emit(st, 0)
	fwd := true
	switch st.A() {
	case "feed":
		ev := r.mkEvent(st)
		r.inCh <- ev
		r.given++
		fwd = r.waitOut(ev)
		r.barrier()
	case "tick":
		if !r.tk.Fire(waitLong) {
			h.Die("stream loop did not take the tick (hang)")
		}
		r.given++
		r.barrier()
	case "leave":
		r.snap.Leave()
		r.given++
		r.left = true
		r.barrier()
	case "shutdown":
		close(r.shut)
		r.snap.Wait()
	}
	serf.VerifFS.SetFail(0)
	serf.VerifFS.SetFailKind("")
	after := serf.VerifFS.Ops()
	if crashAt >= 0 && after > before {
		k = crashAt
		if crashSel != "" {
			for _, l := range r.lines {
				a, _ := l.act.(map[string]interface{})
				if l.idx > 0 && fmt.Sprintf("%v:%v", a["op"], a["f"]) == crashSel {
					k = l.idx
					break
				}
			}
		}
		if k <= before {
			k = before + 1
		}
		if k > after {
			k = after
		}
		for _, l := range r.lines {
			r.tr.emit(l.act, l.obs)
			if l.idx == k {
				break
			}
		}
		r.buffer = false
		return true, k
	}
	for _, l := range r.lines {
		r.tr.emit(l.act, l.obs)
	}
	r.buffer = false
	if st.A() == "shutdown" {
		mem := r.stripPend(r.memObs())
		r.tr.emit(map[string]interface{}{"a": "done", "of": "shutdown"}, map[string]interface{}{"fwd": true, "mem": mem})
		r.snap = nil
		serf.VerifFS.After = nil
		if r.s.Cfg.Torn >= 1 {
			r.emitTorn(r.capture())
		}
	} else {
		r.doneLine(st.A(), fwd)
	}
	return false, after
}

func (r *runner) run() {
	up := false
	steps := r.s.Steps
	for i := 0; i < len(steps); i++ {
		st := steps[i]
		switch st.A() {
		case "started":
			if up {
				h.Die("schedule %d: start while up", r.s.ID)
			}
			if r.root == "" {
				r.newRoot(nil)
			}
			r.start()
			up = true
		case "feed", "tick", "leave", "shutdown":
			if !up {
				h.Die("schedule %d: %s while down", r.s.ID, st.A())
			}
			crashAt, crashSel := -1, ""
			if i+1 < len(steps) && steps[i+1].A() == "crash" {
				crashAt = steps[i+1].Int("k")
				crashSel = steps[i+1].Str("at")
			}
			crashed, k := r.input(st, crashAt, crashSel)
			if crashed {
				r.tr.emit(map[string]interface{}{"a": "crash", "k": k}, 0)
				im := r.images[k]
				if r.s.Cfg.Torn >= 1 {
					r.emitTorn(im)
				}
				if st.A() == "shutdown" { // the process image is gone already
					r.snap = nil
					serf.VerifFS.After = nil
					os.RemoveAll(r.root)
				} else {
					r.abandon()
				}
				r.newRoot(&im)
				up = false
				i++ // the crash record has been consumed
			} else if st.A() == "shutdown" {
				up = false
			}
		case "crash": // while idle: the files are as the last operation left them
			if !up {
				h.Die("schedule %d: crash while down", r.s.ID)
			}
			k := serf.VerifFS.Ops()
			r.tr.emit(map[string]interface{}{"a": "crash", "k": k}, 0)
			im := r.capture()
			if r.s.Cfg.Torn >= 1 {
				r.emitTorn(im)
			}
			r.abandon()
			r.newRoot(&im)
			up = false
		case "wit":
			r.clock.Witness(serf.LamportTime(r.k.times[st.Int("v")]))
			r.tr.emit(st, 0)
		case "burst":
			// events pushed into inCh WITHOUT waiting for them to be consumed; the schedule goes on with the shutdown,
			// so some are still buffered in streamCh / inCh when the shutdown channel closes
			if !up {
				h.Die("schedule %d: burst while down", r.s.ID)
			}
			r.tr.emit(st, 0)
			for _, x := range st.List("evs") {
				m, _ := x.(map[string]interface{})
				r.inCh <- r.mkEvent(h.Step(m))
				r.given++
			}
		case "adv":
			serf.VerifFS.Advance(time.Duration(st.Int("d")) * 100 * time.Millisecond)
			r.tr.emit(st, 0)
		default:
			h.Die("unknown action %q", st.A())
		}
	}
	if up {
		r.abandon()
	} else if r.root != "" {
		os.RemoveAll(r.root)
	}
}

func child(in, out, work string, from int) {
	scheds, err := readScheds(in)
	if err != nil {
		h.Die("%v", err)
	}
	f, err := os.OpenFile(out, os.O_APPEND|os.O_CREATE|os.O_WRONLY, 0644)
	if err != nil {
		h.Die("%v", err)
	}
	tr := &tracer{f: f}
	for i := from; i < len(scheds); i++ {
		s := scheds[i]
		fmt.Printf("BEGIN %d\n", i)
		rng := rand.New(rand.NewSource(h.Seed()*1000003 + int64(s.Cfg.Cid)))
		if s.Cfg.Serf {
			runSerf(s, tr, work, rng)
			fmt.Printf("END %d\n", i)
			continue
		}
		k := concretize(s.Cfg, rng)
		tr.emit(map[string]interface{}{"a": "reset", "id": s.ID, "cfg": k.resetCfg(s.Cfg)}, 0)
		r := &runner{s: s, k: k, tr: tr, work: work, recC: map[string]map[string]interface{}{}}
		r.run()
		fmt.Printf("END %d\n", i)
	}
	f.Close()
}

func supervise(in, out, work string) {
	scheds, err := readScheds(in)
	if err != nil {
		h.Die("%v", err)
	}
	os.Remove(out)
	if f, err := os.Create(out); err == nil {
		f.Close()
	}
	from := 0
	panics := 0
	var plog []string
	for from < len(scheds) {
		cmd := exec.Command(os.Args[0], "-mode", "child", "-in", in, "-out", out, "-work", work, "-from", strconv.Itoa(from))
		var stderr bytes.Buffer
		cmd.Stderr = &stderr
		stdout, _ := cmd.StdoutPipe()
		if err := cmd.Start(); err != nil {
			h.Die("%v", err)
		}
		begun, ended := -1, -1
		sc := bufio.NewScanner(stdout)
		for sc.Scan() {
			var n int
			if _, err := fmt.Sscanf(sc.Text(), "BEGIN %d", &n); err == nil {
				begun = n
			}
			if _, err := fmt.Sscanf(sc.Text(), "END %d", &n); err == nil {
				ended = n
			}
		}
		err := cmd.Wait()
		if err == nil {
			break
		}
		msg := stderr.String()
		ee, isExit := err.(*exec.ExitError)
		goPanic := isExit && ee.ExitCode() == 2 && (strings.Contains(msg, "panic:") || strings.Contains(msg, "fatal error:"))
		if !goPanic || begun < 0 || begun == ended {
			fmt.Fprintf(os.Stderr, "child failed (%v) at schedule index %d:\n%s\n", err, begun, tail(msg, 3000))
			os.Exit(3)
		}
		// the snapshotter's own goroutine panicked while schedule `begun` was running
		panics++
		first := ""
		for _, l := range strings.Split(msg, "\n") {
			if strings.HasPrefix(l, "panic:") || strings.HasPrefix(l, "fatal error:") {
				first = l
				break
			}
		}
		where := ""
		for _, l := range strings.Split(msg, "\n") {
			if strings.Contains(l, "serf.(*Snapshotter)") {
				where = strings.TrimSpace(l)
				break
			}
		}
		plog = append(plog, fmt.Sprintf("schedule id %d: %s @ %s", scheds[begun].ID, first, where))
		f, err2 := os.OpenFile(out, os.O_APPEND|os.O_WRONLY, 0644)
		if err2 != nil {
			h.Die("%v", err2)
		}
		f.WriteString("{\"act\":{\"a\":\"panic\"},\"obs\":0}\n")
		f.Close()
		from = begun + 1
	}
	os.WriteFile(out+".panics", []byte(strings.Join(plog, "\n")+"\n"), 0644)
	fmt.Printf("schedules=%d panics=%d\n", len(scheds), panics)
}

func tail(s string, n int) string {
	if len(s) > n {
		return s[len(s)-n:]
	}
	return s
}

func main() {
	mode := flag.String("mode", "run", "run | child")
	in := flag.String("in", "", "schedules ndjson")
	out := flag.String("out", "", "trace ndjson")
	work := flag.String("work", "", "scratch directory for snapshot files")
	from := flag.Int("from", 0, "child: first schedule index")
	flag.Parse()
	if *work == "" {
		h.Die("-work is required")
	}
	os.MkdirAll(*work, 0755)
	if *mode == "child" {
		child(*in, *out, *work, *from)
		return
	}
	supervise(*in, *out, *work)
}
