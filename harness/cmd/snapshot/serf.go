package main

// Serf-level histories of the snapshot family (C13): the graceful leave is issued through the REAL
// Serf.Leave of a quiet serf.Serf node whose configuration has SnapshotPath set, in every membership
// situation (some peer alive / all failed / all left / none in this incarnation but peers replayed from
// the snapshot).  Peer joins, failures and leaves are injected through the node's memberlist delegates.
// The trace carries the inputs the snapshotter saw (as the model's feed records) and, at every start, what
// a fresh real NewSnapshotter replays from the file; it is judged by the monitors only (tag serf_level:
// no step-by-step conformance, the snapshotter's file operations are not intercepted here).

import (
	"fmt"
	"io"
	"log"
	"math/rand"
	"net"
	"os"
	"path/filepath"
	"runtime"
	"time"

	"github.com/hashicorp/memberlist"
	"github.com/hashicorp/serf/serf"

	"verif/harness/internal/h"
	"verif/harness/internal/quiet"
)

type serfRun struct {
	s      sched
	k      *conc
	tr     *tracer
	dir    string
	work   string
	net    *quiet.Net
	trn    *quiet.Transport
	node   *quiet.Node
	snap   *serf.Snapshotter
	given  int // events that went through the snapshotter in this incarnation
	leaveN uint64
	recN   int
}

func (r *serfRun) path() string { return filepath.Join(r.dir, "snap") }

func (r *serfRun) mlnode(x int) *memberlist.Node {
	a := r.k.addrs[x]
	return &memberlist.Node{Name: r.k.names[x], Addr: a.ip, Port: a.port, Meta: nil,
		PMin: memberlist.ProtocolVersionMin, PMax: memberlist.ProtocolVersionMax, PCur: memberlist.ProtocolVersion2Compatible,
		DMin: serf.ProtocolVersionMin, DMax: serf.ProtocolVersionMax, DCur: serf.ProtocolVersionMax}
}

// replayed: what a fresh real NewSnapshotter rebuilds from (a copy of) the file as it is now.
func (r *serfRun) replayed() map[string]interface{} {
	r.recN++
	dir := filepath.Join(r.work, fmt.Sprintf("srec-%d-%d", r.s.ID, r.recN))
	os.MkdirAll(dir, 0755)
	defer os.RemoveAll(dir)
	if b, err := os.ReadFile(r.path()); err == nil {
		os.WriteFile(filepath.Join(dir, "snap"), b, 0644)
	}
	clock := new(serf.LamportClock)
	clock.Increment()
	sh := make(chan struct{})
	_, sn, err := serf.NewSnapshotter(filepath.Join(dir, "snap"), 1<<30, r.s.Cfg.Ral, log.New(io.Discard, "", 0), clock, nil, sh)
	if err != nil {
		h.Die("replay NewSnapshotter failed: %v", err)
	}
	alive := map[string]string{}
	for _, p := range sn.AliveNodes() {
		alive[p.Name] = p.Addr
	}
	st := r.k.absState(r.s.Cfg, alive, uint64(sn.LastClock()), uint64(sn.LastEventClock()), uint64(sn.LastQueryClock()))
	close(sh)
	sn.Wait()
	serf.VerifLoopForget(sn)
	return st
}

// quiesce: every event counted so far (and a leave, if Serf passed one on) has been handled by the snapshotter.
func (r *serfRun) quiesce() {
	deadline := time.Now().Add(waitLong)
	for i := 0; ; i++ {
		idle, busy := serf.VerifLoopCounts(r.snap)
		if busy >= r.given && idle == busy+1 {
			return
		}
		if time.Now().After(deadline) {
			h.Die("serf-level: snapshotter did not settle (given=%d idle=%d busy=%d)", r.given, idle, busy)
		}
		if i < 2000 {
			runtime.Gosched()
		} else {
			time.Sleep(100 * time.Microsecond)
		}
	}
}

// await waits for the member event Serf emits for the injected notification (it went through the snapshotter
// before it reached the application channel).
func (r *serfRun) await(ty serf.EventType, name string) {
	deadline := time.After(waitLong)
	for {
		select {
		case e := <-r.node.Events:
			r.given++
			if me, ok := e.(serf.MemberEvent); ok && me.Type == ty && len(me.Members) == 1 && me.Members[0].Name == name {
				r.quiesce()
				return
			}
		case <-deadline:
			h.Die("serf-level: no %v event for %q within %v", ty, name, waitLong)
		}
	}
}

func (r *serfRun) feedLine(ty, x, ad int) {
	r.tr.emit(map[string]interface{}{"a": "feed", "ty": ty, "ms": [][]int{{x, ad}}, "t": 0, "fail": 0}, 0)
}

func runSerf(s sched, tr *tracer, work string, rng *rand.Rand) {
	serf.VerifFS.Root = "" // nothing is intercepted: the snapshotter works on the real files, its ticker never fires
	serf.VerifFS.After = nil
	r := &serfRun{s: s, tr: tr, work: work, net: quiet.NewNet(), leaveN: 1000}
	r.dir = filepath.Join(work, fmt.Sprintf("serf-%d", s.ID))
	os.MkdirAll(r.dir, 0755)
	defer os.RemoveAll(r.dir)
	r.trn = r.net.NewTransport("self")
	// names: 1 = the node itself, 2.. = peers; addresses: one per name (peers live nowhere: a re-join attempt is refused)
	k := &conc{nIdx: map[string]int{}, aIdx: map[string]int{}, tIdx: map[uint64]int{0: 0}, evil: []int{}, tags: []string{"serf_level"}, times: []uint64{0}}
	pool := plainNames
	if s.Cfg.Cls == "hostile" {
		pool = hostileNames
	}
	p := rng.Perm(len(pool))
	k.names = make([]string, s.Cfg.NN+1)
	k.addrs = make([]addr, s.Cfg.NN+1)
	k.names[1] = fmt.Sprintf("self-%d", s.Cfg.Cid)
	k.addrs[1] = addr{r.trn.IP.To4(), uint16(r.trn.Port)}
	for i := 2; i <= s.Cfg.NN; i++ {
		k.names[i] = pool[p[i-2]]
		k.addrs[i] = addr{net.IPv4(10, 77, 0, byte(i)).To4(), 7946}
	}
	for i := 1; i <= s.Cfg.NN; i++ {
		k.nIdx[k.names[i]] = i
		k.aIdx[k.addrs[i].String()] = i
	}
	r.k = k
	cfg := s.Cfg
	cfg.NA, cfg.MaxT = cfg.NN, 0
	r.s.Cfg = cfg
	tr.emit(map[string]interface{}{"a": "reset", "id": s.ID, "cfg": k.resetCfg(cfg)}, 0)
	up := false
	for _, st := range s.Steps {
		switch st.A() {
		case "started":
			if up {
				h.Die("serf-level schedule %d: start while up", s.ID)
			}
			tr.emit(map[string]interface{}{"a": "started"}, map[string]interface{}{"ok": true, "st": r.replayed(), "off": 0})
			if r.node != nil {
				r.trn = r.net.Reuse(r.trn)
			}
			nd, err := quiet.NewNode(r.net, k.names[1], r.trn, func(c *serf.Config) {
				c.SnapshotPath = r.path()
				c.RejoinAfterLeave = cfg.Ral
				c.ValidateNodeNames = false
			})
			if err != nil {
				h.Die("serf-level: create: %v", err)
			}
			r.node, r.given = nd, 0
			r.snap = serf.VerifSerfSnapshotter(nd.Serf)
			if r.snap == nil {
				h.Die("serf-level: Serf created no snapshotter")
			}
			r.await(serf.EventMemberJoin, k.names[1]) // Serf announces itself
			r.feedLine(1, 1, 1)
			up = true
		case "pjoin":
			x := st.Int("x")
			r.node.Ev.NotifyJoin(r.mlnode(x))
			r.await(serf.EventMemberJoin, k.names[x])
			r.feedLine(1, x, x)
		case "pfail":
			x := st.Int("x")
			r.node.Ev.NotifyLeave(r.mlnode(x))
			r.await(serf.EventMemberFailed, k.names[x])
			r.feedLine(3, x, 0)
		case "pleave":
			x := st.Int("x")
			r.leaveN++
			r.node.Del.NotifyMsg(quiet.Encode(quiet.TLeave, quiet.MsgLeave{LTime: r.leaveN, Node: k.names[x]}))
			r.node.Ev.NotifyLeave(r.mlnode(x))
			r.await(serf.EventMemberLeave, k.names[x])
			r.feedLine(2, x, 0)
		case "leave":
			// the REAL Serf.Leave; the broadcast queues are drained meanwhile so that the leave intent counts as sent
			stop := make(chan struct{})
			done := make(chan struct{})
			go func() {
				defer close(done)
				for {
					select {
					case <-stop:
						return
					default:
						r.node.Drain()
						time.Sleep(200 * time.Microsecond)
					}
				}
			}()
			_ = r.node.Serf.Leave()
			close(stop)
			<-done
			// events Serf emitted while leaving (its own departure) pass the snapshotter too
			for settled := false; !settled; {
				select {
				case <-r.node.Events:
					r.given++
				case <-time.After(20 * time.Millisecond):
					settled = true
				}
			}
			r.quiesce()
			tr.emit(map[string]interface{}{"a": "leave", "fail": 0}, 0)
		case "shutdown":
			if err := r.node.Serf.Shutdown(); err != nil {
				h.Die("serf-level: shutdown: %v", err)
			}
			tr.emit(map[string]interface{}{"a": "shutdown", "fail": 0}, 0)
			stt := serf.VerifSnapshotState(r.snap)
			mem := k.absState(cfg, stt.Alive, stt.Clock, stt.EvClock, stt.QClock)
			mem["lv"], mem["off"], mem["fh"], mem["bw"] = stt.Leaving, int(stt.Offset), !stt.FhNil, !stt.BufNil
			tr.emit(map[string]interface{}{"a": "done", "of": "shutdown"}, map[string]interface{}{"fwd": true, "mem": mem})
			serf.VerifLoopForget(r.snap)
			up = false
		default:
			h.Die("serf-level: unknown action %q", st.A())
		}
	}
	if up {
		r.node.Serf.Shutdown()
	}
}
