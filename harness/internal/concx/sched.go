// Package concx is the "conc" family's variant of harness/internal/sched (same cooperative
// scheduling idea: exactly one managed goroutine runs at a time, from one yield point to the next, in
// an order chosen by the harness) with the changes the family needs:
//
//   - "blocked in the runtime" is decided by looking at the goroutine's state in runtime.Stack
//     (chan receive / select / IO wait / sleep / mutex ...) instead of a 100 ms watchdog, so code with
//     channel waits, sleeps and socket reads can be explored at thousands of schedules per second;
//   - after every step the scheduler waits for quiescence: threads that were blocked in the runtime and
//     were woken by the step are allowed to run to their next yield (or to block again) before the
//     next choice is made, and the move is reported as a step of its own (Step.Woke);
//   - goroutines started by the code under test are adopted when they reach a yield and may be daemons
//     (a run ends when only daemons blocked in the runtime are left);
//   - depth-first exploration can be continued from a given prefix (the driver runs batches in child
//     processes because a panic in a goroutine of the code under test kills the process), and a
//     schedule can be replayed by thread ids.
package concx

import (
	"bytes"
	"math/rand"
	"runtime"
	"strconv"
	"sync"
	"time"
)

type state int

const (
	stNew state = iota
	stParked
	stLockBlocked
	stRunning
	stRuntimeBlocked
	stDone
)

type Thread struct {
	ID        int
	Name      string
	Label     string
	Daemon    bool
	st        state
	grant     chan struct{}
	blockedAt int  // progress counter when its TryLock last failed
	retry     bool // one more try although nobody made progress (the lock may be held by unmanaged code)
	adopted   bool
	gid       uint64
	woke      bool
}

type event struct {
	t   *Thread
	seq int // step number at the time of the park (stale events are ignored)
}

type S struct {
	mu          sync.Mutex
	threads     []*Thread
	byGid       map[uint64]*Thread
	events      chan event
	stepNo      int
	progressNo  int           // number of parks / returns other than failed lock attempts
	Adopt       bool          // adopt unmanaged goroutines that reach a yield
	AdoptDaemon bool          // adopted goroutines are daemons
	Hard        time.Duration // a granted thread that neither yields nor blocks within this time counts as blocked
	Pending     func(*S) bool // scenario hook: true while asynchronous work (I/O in flight) is outstanding
	OnGrant     func(Step)    // called just before a thread is granted (crash forensics)
	stopped     bool
	aborted     bool
	stackBuf    []byte
}

func New() *S {
	return &S{byGid: map[uint64]*Thread{}, events: make(chan event, 4096), Hard: 2 * time.Second,
		stackBuf: make([]byte, 256<<10)}
}

func gid() uint64 {
	var buf [64]byte
	b := buf[:runtime.Stack(buf[:], false)]
	b = b[len("goroutine "):]
	b = b[:bytes.IndexByte(b, ' ')]
	n, _ := strconv.ParseUint(string(b), 10, 64)
	return n
}

// goroutineStates parses the headers of a full goroutine dump: id -> state text.
func (s *S) goroutineStates() map[uint64]string {
	for {
		n := runtime.Stack(s.stackBuf, true)
		if n < len(s.stackBuf) {
			return parseStates(s.stackBuf[:n])
		}
		s.stackBuf = make([]byte, 2*len(s.stackBuf))
	}
}

func parseStates(b []byte) map[uint64]string {
	res := map[uint64]string{}
	pfx := []byte("goroutine ")
	for len(b) > 0 {
		nl := bytes.IndexByte(b, '\n')
		line := b
		if nl >= 0 {
			line = b[:nl]
			b = b[nl+1:]
		} else {
			b = nil
		}
		if !bytes.HasPrefix(line, pfx) {
			continue
		}
		rest := line[len(pfx):]
		sp := bytes.IndexByte(rest, ' ')
		if sp <= 0 {
			continue
		}
		id, err := strconv.ParseUint(string(rest[:sp]), 10, 64)
		if err != nil {
			continue
		}
		lb := bytes.IndexByte(rest, '[')
		if lb < 0 {
			continue
		}
		st := rest[lb+1:]
		if e := bytes.IndexAny(st, ",]"); e >= 0 {
			st = st[:e]
		}
		state := string(st)
		// the frames of this goroutine follow up to the next empty line
		end := bytes.Index(b, []byte("\n\n"))
		frames := b
		if end >= 0 {
			frames = b[:end]
		}
		if bytes.Contains(frames, parkFrame) {
			state = "parking"
		}
		res[id] = state
	}
	return res
}

var parkFrame = []byte("concx.(*S).park")

var blockedStates = map[string]bool{
	"chan receive": true, "chan send": true, "select": true, "IO wait": true, "sleep": true,
	"sync.Mutex.Lock": true, "sync.RWMutex.RLock": true, "sync.RWMutex.Lock": true,
	"sync.Cond.Wait": true, "sync.WaitGroup.Wait": true, "semacquire": true,
	"chan receive (nil chan)": true, "chan send (nil chan)": true, "select (no cases)": true,
}

func isBlocked(st string) bool { return blockedStates[st] }

// Go registers a managed thread; it starts parked and runs fn when first granted.
func (s *S) Go(name string, fn func()) *Thread {
	s.mu.Lock()
	t := &Thread{ID: len(s.threads) + 1, Name: name, grant: make(chan struct{}, 1), st: stParked, Label: "start"}
	s.threads = append(s.threads, t)
	s.mu.Unlock()
	ready := make(chan struct{})
	go func() {
		g := gid()
		s.mu.Lock()
		t.gid = g
		s.byGid[g] = t
		s.mu.Unlock()
		close(ready)
		<-t.grant
		if s.isAborted() {
			return
		}
		fn()
		s.mu.Lock()
		if t.st == stRuntimeBlocked {
			t.woke = true
		}
		t.st = stDone
		t.Label = "done"
		s.progressNo++
		s.events <- event{t, s.stepNo} // under the mutex: whoever sees the new state also finds the event queued
		s.mu.Unlock()
	}()
	<-ready
	return t
}

func (s *S) isAborted() bool {
	s.mu.Lock()
	defer s.mu.Unlock()
	return s.aborted
}

func (s *S) park(label string, st state) {
	g := gid()
	s.mu.Lock()
	if s.stopped {
		s.mu.Unlock()
		return
	}
	t := s.byGid[g]
	if t == nil {
		if !s.Adopt {
			s.mu.Unlock()
			return
		}
		t = &Thread{ID: len(s.threads) + 1, Name: "adopted:" + label, grant: make(chan struct{}, 1), adopted: true,
			Daemon: s.AdoptDaemon, gid: g}
		s.threads = append(s.threads, t)
		s.byGid[g] = t
	}
	if t.st == stRuntimeBlocked {
		t.woke = true
	}
	t.Label = label
	t.st = st
	if st == stLockBlocked {
		t.blockedAt = s.progressNo
	} else {
		s.progressNo++
	}
	s.events <- event{t, s.stepNo} // under the mutex (see Go)
	s.mu.Unlock()
	<-t.grant
	if s.isAborted() {
		select {} // the schedule was abandoned ("the process died"): never run again
	}
}

func (s *S) Yield(label string)        { s.park(label, stParked) }
func (s *S) YieldBlocked(label string) { s.park(label, stLockBlocked) }

// NumThreads returns the number of threads known (managed + adopted).
func (s *S) NumThreads() int {
	s.mu.Lock()
	defer s.mu.Unlock()
	return len(s.threads)
}

// WaitThreads waits until n threads exist and all of them are parked.
func (s *S) WaitThreads(n int, d time.Duration) bool {
	dl := time.Now().Add(d)
	for time.Now().Before(dl) {
		s.mu.Lock()
		ok := len(s.threads) >= n
		for _, t := range s.threads {
			if t.st != stParked && t.st != stLockBlocked {
				ok = false
			}
		}
		s.mu.Unlock()
		if ok {
			return true
		}
		time.Sleep(20 * time.Microsecond)
	}
	return false
}

// RTBlocked tells whether thread id is currently blocked in the runtime (for Pending hooks).
func (s *S) RTBlocked(id int) bool {
	s.mu.Lock()
	defer s.mu.Unlock()
	return id >= 1 && id <= len(s.threads) && s.threads[id-1].st == stRuntimeBlocked
}

// GidOf returns the goroutine id of a thread (0 if unknown).
func (s *S) GidOf(id int) uint64 {
	s.mu.Lock()
	defer s.mu.Unlock()
	if id >= 1 && id <= len(s.threads) {
		return s.threads[id-1].gid
	}
	return 0
}

// GoroutineGone reports whether goroutine g no longer exists.
func (s *S) GoroutineGone(g uint64) bool {
	_, ok := s.goroutineStates()[g]
	return !ok
}

type Step struct {
	Thread  int
	Name    string
	From    string
	To      string // label reached; "done"; "blocked"
	Choice  int
	Alts    int
	Preempt bool
	Woke    bool // not a granted step: a thread blocked in the runtime came back to a yield (or finished)
}

type Result struct {
	Steps    []Step // granted steps and wake reports, in order
	Deadlock bool
	Hung     bool
	Aborted  bool
}

// Granted returns the granted steps only (the choice points of the exploration).
func (r Result) Granted() []Step {
	var g []Step
	for _, s := range r.Steps {
		if !s.Woke {
			g = append(g, s)
		}
	}
	return g
}

// Chooser picks among the eligible threads (first = the thread that ran last, if still eligible);
// step counts granted steps only.  Returning -1 aborts the run (replay: wanted thread never became eligible).
type Chooser func(step int, elig []*Thread) int

func (s *S) drain() {
	for {
		select {
		case <-s.events:
		default:
			return
		}
	}
}

func spin(d time.Duration) {
	t0 := time.Now()
	for time.Since(t0) < d {
		runtime.Gosched()
	}
}

// settle waits until no thread that was blocked in the runtime is running towards its next yield and
// the scenario reports no asynchronous work outstanding.
func (s *S) settle() {
	dl := time.Now().Add(50 * time.Millisecond)
	calm := 0
	for {
		s.drain()
		s.mu.Lock()
		var rt []*Thread
		for _, t := range s.threads {
			if t.st == stRuntimeBlocked {
				rt = append(rt, t)
			}
		}
		s.mu.Unlock()
		if len(rt) == 0 && s.Pending == nil {
			return
		}
		busy := false
		if len(rt) > 0 {
			states := s.goroutineStates()
			s.mu.Lock()
			for _, t := range rt {
				if t.st != stRuntimeBlocked {
					continue
				}
				gs, ok := states[t.gid]
				if !ok {
					if t.adopted { // the goroutine returned
						t.st = stDone
						t.Label = "done"
						t.woke = true
					} else {
						busy = true // about to report done
					}
				} else if !isBlocked(gs) {
					busy = true
				}
			}
			s.mu.Unlock()
		}
		if !busy && s.Pending != nil && s.Pending(s) {
			busy = true
		}
		if !busy {
			calm++
			if calm >= 2 || s.Pending == nil {
				return
			}
			spin(15 * time.Microsecond)
			continue
		}
		calm = 0
		if time.Now().After(dl) {
			return
		}
		spin(20 * time.Microsecond)
	}
}

// Abort abandons the run: Run returns after the current step; parked goroutines never run again.
func (s *S) Abort() {
	s.mu.Lock()
	s.aborted = true
	s.mu.Unlock()
}

// Run schedules until every non-daemon thread is done (and daemons are blocked in the runtime).
func (s *S) Run(choose Chooser, maxPreempt int, onStep func(Step)) Result {
	var res Result
	var last *Thread
	preempts := 0
	granted := 0
	retries := 0
	retryAt := -1
	var hungSince time.Time
	timer := time.NewTimer(time.Hour)
	defer timer.Stop()
	report := func(st Step) {
		res.Steps = append(res.Steps, st)
		if onStep != nil {
			onStep(st)
		}
	}
	s.settle()
	for {
		// wake reports
		s.mu.Lock()
		var woke []Step
		for _, t := range s.threads {
			if t.woke {
				t.woke = false
				to := t.Label
				if t.st == stDone {
					to = "done"
				}
				woke = append(woke, Step{Thread: t.ID, Name: t.Name, From: "blocked", To: to, Woke: true})
			}
		}
		s.mu.Unlock()
		for _, w := range woke {
			report(w)
		}
		if s.isAborted() {
			res.Aborted = true
			return res
		}
		s.mu.Lock()
		var elig []*Thread
		anyRT, anyLock := false, false
		for _, t := range s.threads {
			switch t.st {
			case stParked:
				elig = append(elig, t)
			case stLockBlocked:
				anyLock = true
				// retried only after somebody else made progress: two spinning threads must not starve the lock holder
				if s.progressNo > t.blockedAt || t.retry {
					elig = append(elig, t)
				}
			case stRuntimeBlocked:
				if !t.Daemon {
					anyRT = true
				}
			}
		}
		s.mu.Unlock()
		if len(elig) == 0 {
			if anyRT {
				if hungSince.IsZero() {
					hungSince = time.Now()
				} else if time.Since(hungSince) > 10*time.Second {
					res.Hung = true
					return res
				}
				s.waitEvent(timer, time.Millisecond)
				s.settle()
				continue
			}
			if anyLock {
				// the lock may be held by unmanaged code: every lock-blocked thread gets one more try
				s.mu.Lock()
				again := s.progressNo != retryAt
				if again {
					retryAt = s.progressNo
					for _, t := range s.threads {
						if t.st == stLockBlocked {
							t.retry = true
						}
					}
				}
				s.mu.Unlock()
				if again {
					continue
				}
				res.Deadlock = true
			}
			return res
		}
		hungSince = time.Time{}
		ordered := make([]*Thread, 0, len(elig))
		lastElig := false
		for _, t := range elig {
			if t == last {
				ordered = append(ordered, t)
				lastElig = true
			}
		}
		for _, t := range elig {
			if t != last {
				ordered = append(ordered, t)
			}
		}
		if lastElig && maxPreempt >= 0 && preempts >= maxPreempt {
			ordered = ordered[:1]
		}
		c := 0
		if len(ordered) > 1 || maxPreempt == -2 {
			c = choose(granted, ordered)
			if c == -1 {
				res.Aborted = true
				return res
			}
			if c == -2 && retries < 400 { // replay: the wanted thread is not eligible yet
				retries++
				s.waitEvent(timer, 50*time.Microsecond)
				s.settle()
				continue
			}
			retries = 0
			if c < 0 || c >= len(ordered) {
				c = 0
			}
		}
		t := ordered[c]
		pre := lastElig && t != last
		if pre {
			preempts++
		}
		st := Step{Thread: t.ID, Name: t.Name, From: t.Label, Choice: c, Alts: len(ordered), Preempt: pre}
		if s.OnGrant != nil {
			s.OnGrant(st)
		}
		s.mu.Lock()
		t.st = stRunning
		t.retry = false
		s.stepNo++
		s.mu.Unlock()
		granted++
		if granted > 50000 { // safety net: no scenario of this family needs that many steps
			res.Hung = true
			return res
		}
		t.grant <- struct{}{}
		s.await(t, timer)
		// quiescence before the step is observed: threads woken by this step run to their next yield
		s.settle()
		s.mu.Lock()
		switch t.st {
		case stDone:
			st.To = "done"
		case stRuntimeBlocked:
			st.To = "blocked"
		default:
			st.To = t.Label
		}
		s.mu.Unlock()
		last = t
		report(st)
		if s.isAborted() {
			res.Aborted = true
			return res
		}
	}
}

func (s *S) waitEvent(timer *time.Timer, d time.Duration) {
	timer.Reset(d)
	select {
	case <-s.events:
		if !timer.Stop() {
			select {
			case <-timer.C:
			default:
			}
		}
	case <-timer.C:
	}
}

// await waits until the granted thread parked, finished, or is blocked in the runtime.
func (s *S) await(t *Thread, timer *time.Timer) {
	s.mu.Lock()
	seq := s.stepNo
	s.mu.Unlock()
	start := time.Now()
	wait := 150 * time.Microsecond
	blockedSeen := 0
	for {
		timer.Reset(wait)
		select {
		case ev := <-s.events:
			if !timer.Stop() {
				select {
				case <-timer.C:
				default:
				}
			}
			if ev.t == t && ev.seq >= seq {
				return
			}
			continue
		case <-timer.C:
		}
		s.mu.Lock()
		running := t.st == stRunning
		s.mu.Unlock()
		if !running {
			s.drain()
			return
		}
		gs, ok := s.goroutineStates()[t.gid]
		if !ok && t.adopted { // an adopted goroutine returned: nobody reports that
			s.mu.Lock()
			if t.st == stRunning {
				t.st = stDone
				t.Label = "done"
			}
			s.mu.Unlock()
			return
		}
		if ok && isBlocked(gs) {
			blockedSeen++
		} else {
			blockedSeen = 0
		}
		if blockedSeen >= 2 || time.Since(start) > s.Hard {
			s.mu.Lock()
			if t.st == stRunning {
				t.st = stRuntimeBlocked
			}
			s.mu.Unlock()
			return
		}
		wait = 60 * time.Microsecond
	}
}

// Stop releases every parked goroutine and lets everything run unmanaged from now on.
func (s *S) Stop() {
	s.mu.Lock()
	s.stopped = true
	ts := append([]*Thread(nil), s.threads...)
	s.mu.Unlock()
	for _, t := range ts {
		select {
		case t.grant <- struct{}{}:
		default:
		}
	}
}

// ---------------------------------------------------------------------------------------------

// Scenario builds a fresh instance on s and returns the per-step recorder and a finisher.
type Scenario func(s *S) (onStep func(Step), finish func(Result))

func runOne(sc Scenario, choose Chooser, maxPreempt int) Result {
	s := New()
	onStep, finish := sc(s)
	res := s.Run(choose, maxPreempt, onStep)
	finish(res)
	return res
}

// NextPrefix: the next depth-first prefix after a schedule with the given granted steps (nil, false
// when the exploration is complete).
func NextPrefix(granted []Step) ([]int, bool) {
	i := len(granted) - 1
	for ; i >= 0; i-- {
		if granted[i].Choice+1 < granted[i].Alts {
			break
		}
	}
	if i < 0 {
		return nil, false
	}
	np := make([]int, i+1)
	for k := 0; k < i; k++ {
		np[k] = granted[k].Choice
	}
	np[i] = granted[i].Choice + 1
	return np, true
}

// RunPrefix runs one schedule: the choices of prefix, then always choice 0 (no preemption).
func RunPrefix(sc Scenario, prefix []int, maxPreempt int) Result {
	return runOne(sc, func(step int, elig []*Thread) int {
		if step < len(prefix) {
			return prefix[step]
		}
		return 0
	}, maxPreempt)
}

// RunRandom runs one seeded random schedule (no preemption bound).
func RunRandom(sc Scenario, seed int64) Result {
	rng := rand.New(rand.NewSource(seed))
	return runOne(sc, func(step int, elig []*Thread) int {
		if rng.Intn(3) != 0 {
			return 0
		}
		return rng.Intn(len(elig))
	}, -1)
}

// RunReplay re-executes a schedule given as the thread ids of its granted steps.  If the wanted thread
// is not eligible the chooser waits briefly for it (it may be coming back from the runtime); if it
// never shows up the remaining steps fall back to choice 0.
func RunReplay(sc Scenario, ids []int) Result {
	lost := false
	tries := 0
	return runOne(sc, func(step int, elig []*Thread) int {
		if lost || step >= len(ids) {
			return 0
		}
		for i, t := range elig {
			if t.ID == ids[step] {
				tries = 0
				return i
			}
		}
		tries++
		if tries <= 400 {
			return -2
		}
		lost = true
		return 0
	}, -2)
}

// RTState returns the runtime state text ("IO wait", "select", ...) of thread id's goroutine ("" if gone).
func (s *S) RTState(id int) string {
	g := s.GidOf(id)
	if g == 0 {
		return ""
	}
	return s.goroutineStates()[g]
}
