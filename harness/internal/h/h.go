// Package h: schedule input / trace output shared by every driver.
package h

import (
	"bufio"
	"encoding/json"
	"fmt"
	"os"
	"strconv"
)

// Step is one action record exactly as TLC printed it (field "a" = action name).
type Step map[string]interface{}

func (s Step) A() string { v, _ := s["a"].(string); return v }
func (s Step) Int(k string) int {
	switch v := s[k].(type) {
	case float64:
		return int(v)
	case json.Number:
		n, _ := v.Int64()
		return int(n)
	case int:
		return v
	}
	panic(fmt.Sprintf("step %v: field %q is not an int", s, k))
}
func (s Step) Str(k string) string { v, _ := s[k].(string); return v }
func (s Step) Bool(k string) bool  { v, _ := s[k].(bool); return v }
func (s Step) Ints(k string) []int {
	arr, _ := s[k].([]interface{})
	out := make([]int, 0, len(arr))
	for _, x := range arr {
		switch v := x.(type) {
		case float64:
			out = append(out, int(v))
		case json.Number:
			n, _ := v.Int64()
			out = append(out, int(n))
		}
	}
	return out
}
func (s Step) List(k string) []interface{} { arr, _ := s[k].([]interface{}); return arr }
func (s Step) Rec(k string) Step {
	m, _ := s[k].(map[string]interface{})
	return Step(m)
}

func ToInt(x interface{}) int {
	switch v := x.(type) {
	case float64:
		return int(v)
	case json.Number:
		n, _ := v.Int64()
		return int(n)
	case int:
		return v
	}
	panic(fmt.Sprintf("not an int: %v", x))
}

type Schedule struct {
	ID    int    `json:"id"`
	Steps []Step `json:"steps"`
}

func ReadSchedules(path string) ([]Schedule, error) {
	f, err := os.Open(path)
	if err != nil {
		return nil, err
	}
	defer f.Close()
	var res []Schedule
	sc := bufio.NewScanner(f)
	sc.Buffer(make([]byte, 1<<20), 1<<28)
	for sc.Scan() {
		if len(sc.Bytes()) == 0 {
			continue
		}
		var s Schedule
		if err := json.Unmarshal(sc.Bytes(), &s); err != nil {
			return nil, err
		}
		res = append(res, s)
	}
	return res, sc.Err()
}

// Tracer writes the NDJSON trace: a reset line per schedule, then one line per executed step.
type Tracer struct {
	f *os.File
	w *bufio.Writer
}

func NewTracer(path string) (*Tracer, error) {
	f, err := os.Create(path)
	if err != nil {
		return nil, err
	}
	return &Tracer{f: f, w: bufio.NewWriterSize(f, 1<<20)}, nil
}

type line struct {
	Act interface{} `json:"act"`
	Obs interface{} `json:"obs"`
}

func (t *Tracer) Reset(id int, extra map[string]interface{}) {
	act := map[string]interface{}{"a": "reset", "id": id}
	for k, v := range extra {
		act[k] = v
	}
	t.emit(line{Act: act, Obs: 0})
}

func (t *Tracer) Step(act interface{}, obs interface{}) { t.emit(line{Act: act, Obs: obs}) }

func (t *Tracer) emit(l line) {
	b, err := json.Marshal(l)
	if err != nil {
		panic(err)
	}
	t.w.Write(b)
	t.w.WriteByte('\n')
}

func (t *Tracer) Close() error {
	if err := t.w.Flush(); err != nil {
		return err
	}
	return t.f.Close()
}

func Seed() int64 {
	n, _ := strconv.ParseInt(os.Getenv("VERIF_SEED"), 10, 64)
	return n
}

func Die(format string, a ...interface{}) {
	fmt.Fprintf(os.Stderr, "driver: "+format+"\n", a...)
	os.Exit(3)
}
