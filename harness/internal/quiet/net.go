// Package quiet: real Serf nodes over an in-process memberlist transport that the harness controls
// (capture of every packet, partitions, loss), configured so that nothing happens unless the
// harness makes it happen (probe/gossip intervals of an hour, push/pull off, RetransmitMult 1).
package quiet

import (
	"encoding/binary"
	"fmt"
	"net"
	"sync"
	"time"

	"github.com/hashicorp/memberlist"
)

type Captured struct {
	From, To string // node names ("" if the destination is unknown)
	ToAddr   string
	Buf      []byte
}

type Net struct {
	mu      sync.Mutex
	byAddr  map[string]*Transport
	nextIP  int
	Cut     func(from, to string) bool           // true: no packets / streams from -> to
	Drop    func(from, to string, b []byte) bool // true: lose this packet
	Packets []Captured
	Capture bool
}

func NewNet() *Net { return &Net{byAddr: map[string]*Transport{}, Capture: true} }

type addr struct{ s string }

func (a addr) Network() string { return "verif" }
func (a addr) String() string  { return a.s }

type Transport struct {
	net      *Net
	Name     string
	IP       net.IP
	Port     int
	packetCh chan *memberlist.Packet
	streamCh chan net.Conn
	down     bool
	// gates (C34): block Shutdown / Dial until released
	ShutdownGate func()
	DialGate     func(to string)
}

var _ memberlist.NodeAwareTransport = (*Transport)(nil)

func (n *Net) NewTransport(name string) *Transport {
	n.mu.Lock()
	defer n.mu.Unlock()
	n.nextIP++
	t := &Transport{net: n, Name: name, IP: net.IPv4(127, 0, byte(n.nextIP/250), byte(1+n.nextIP%250)), Port: 7946,
		packetCh: make(chan *memberlist.Packet, 4096), streamCh: make(chan net.Conn, 64)}
	n.byAddr[t.Addr()] = t
	return t
}

// Reuse gives a restarted node the address of its previous incarnation.
func (n *Net) Reuse(old *Transport) *Transport {
	n.mu.Lock()
	defer n.mu.Unlock()
	t := &Transport{net: n, Name: old.Name, IP: old.IP, Port: old.Port,
		packetCh: make(chan *memberlist.Packet, 4096), streamCh: make(chan net.Conn, 64)}
	n.byAddr[t.Addr()] = t
	return t
}

func (t *Transport) Addr() string { return fmt.Sprintf("%s:%d", t.IP.String(), t.Port) }

func (t *Transport) FinalAdvertiseAddr(string, int) (net.IP, int, error) { return t.IP, t.Port, nil }

func (t *Transport) WriteTo(b []byte, a string) (time.Time, error) {
	return t.WriteToAddress(b, memberlist.Address{Addr: a})
}

func (t *Transport) WriteToAddress(b []byte, a memberlist.Address) (time.Time, error) {
	now := time.Now()
	n := t.net
	n.mu.Lock()
	dst := n.byAddr[a.Addr]
	to := ""
	if dst != nil {
		to = dst.Name
	}
	cp := append([]byte(nil), b...)
	if n.Capture {
		n.Packets = append(n.Packets, Captured{From: t.Name, To: to, ToAddr: a.Addr, Buf: cp})
	}
	cut, drop := n.Cut, n.Drop
	n.mu.Unlock()
	if dst == nil || dst.down || t.down {
		return now, nil // UDP: silently lost
	}
	if cut != nil && cut(t.Name, dst.Name) {
		return now, nil
	}
	if drop != nil && drop(t.Name, dst.Name, cp) {
		return now, nil
	}
	select {
	case dst.packetCh <- &memberlist.Packet{Buf: cp, From: addr{t.Addr()}, Timestamp: now}:
	default:
	}
	return now, nil
}

func (t *Transport) PacketCh() <-chan *memberlist.Packet { return t.packetCh }

func (t *Transport) DialTimeout(a string, timeout time.Duration) (net.Conn, error) {
	return t.DialAddressTimeout(memberlist.Address{Addr: a}, timeout)
}

func (t *Transport) DialAddressTimeout(a memberlist.Address, timeout time.Duration) (net.Conn, error) {
	n := t.net
	n.mu.Lock()
	dst := n.byAddr[a.Addr]
	cut := n.Cut
	n.mu.Unlock()
	if t.DialGate != nil {
		name := ""
		if dst != nil {
			name = dst.Name
		}
		t.DialGate(name)
	}
	if dst == nil || dst.down || t.down {
		return nil, fmt.Errorf("verif transport: connection refused (%s)", a.Addr)
	}
	if cut != nil && (cut(t.Name, dst.Name) || cut(dst.Name, t.Name)) {
		return nil, fmt.Errorf("verif transport: no route to %s", a.Addr)
	}
	c1, c2 := net.Pipe()
	select {
	case dst.streamCh <- c2:
		return c1, nil
	case <-time.After(timeout):
		return nil, fmt.Errorf("verif transport: dial timeout")
	}
}

func (t *Transport) StreamCh() <-chan net.Conn { return t.streamCh }

func (t *Transport) Shutdown() error {
	if t.ShutdownGate != nil {
		t.ShutdownGate()
	}
	t.net.mu.Lock()
	t.down = true
	if t.net.byAddr[t.Addr()] == t {
		delete(t.net.byAddr, t.Addr())
	}
	t.net.mu.Unlock()
	return nil
}

// TakePackets returns and clears the captured packets.
func (n *Net) TakePackets() []Captured {
	n.mu.Lock()
	defer n.mu.Unlock()
	p := n.Packets
	n.Packets = nil
	return p
}

// UserMsgs extracts the user (= serf) messages carried by a memberlist packet: strips the CRC
// prefix, unpacks compound messages, keeps userMsg parts (without the memberlist type byte).
func UserMsgs(buf []byte) [][]byte {
	const (
		compoundMsg = 7
		userMsg     = 8
		hasCrcMsg   = 12
	)
	if len(buf) >= 5 && buf[0] == hasCrcMsg {
		buf = buf[5:]
	}
	if len(buf) == 0 {
		return nil
	}
	switch buf[0] {
	case userMsg:
		return [][]byte{buf[1:]}
	case compoundMsg:
		buf = buf[1:]
		if len(buf) < 1 {
			return nil
		}
		n := int(buf[0])
		buf = buf[1:]
		if len(buf) < 2*n {
			return nil
		}
		lens := make([]int, n)
		for i := 0; i < n; i++ {
			lens[i] = int(binary.BigEndian.Uint16(buf[2*i : 2*i+2]))
		}
		buf = buf[2*n:]
		var out [][]byte
		for _, l := range lens {
			if len(buf) < l {
				break
			}
			out = append(out, UserMsgs(buf[:l])...)
			buf = buf[l:]
		}
		return out
	}
	return nil
}
