package quiet

import (
	"bytes"
	"io"
	"log"
	"sync"
	"time"

	"github.com/hashicorp/memberlist"
	"github.com/hashicorp/serf/serf"
)

// Node is a real serf.Serf on the harness network, with its delegates exposed.
type Node struct {
	Name    string
	Serf    *serf.Serf
	Conf    *serf.Config
	Tr      *Transport
	Events  chan serf.Event
	Del     memberlist.Delegate      // serf's delegate (NotifyMsg, LocalState, MergeRemoteState, GetBroadcasts)
	Ev      memberlist.EventDelegate // NotifyJoin / NotifyLeave / NotifyUpdate
	rec     *recDelegate
	LogBuf  *SyncBuf
}

type SyncBuf struct {
	mu sync.Mutex
	b  bytes.Buffer
}

func (s *SyncBuf) Write(p []byte) (int, error) {
	s.mu.Lock()
	defer s.mu.Unlock()
	return s.b.Write(p)
}
func (s *SyncBuf) String() string {
	s.mu.Lock()
	defer s.mu.Unlock()
	return s.b.String()
}

// recDelegate wraps serf's delegate: memberlist piggybacks GetBroadcasts onto every direct send,
// so everything any caller obtains from the queues is recorded here.
type recDelegate struct {
	memberlist.Delegate
	mu    sync.Mutex
	taken [][]byte
}

func (r *recDelegate) GetBroadcasts(overhead, limit int) [][]byte {
	msgs := r.Delegate.GetBroadcasts(overhead, limit)
	r.mu.Lock()
	for _, m := range msgs {
		r.taken = append(r.taken, append([]byte(nil), m...))
	}
	r.mu.Unlock()
	return msgs
}

type Opt func(*serf.Config)

// NewNode creates a quiet node. Options may adjust the configuration before serf.Create.
func NewNode(n *Net, name string, tr *Transport, opts ...Opt) (*Node, error) {
	if tr == nil {
		tr = n.NewTransport(name)
	}
	conf := serf.DefaultConfig()
	conf.Init()
	conf.NodeName = name
	mc := memberlist.DefaultLANConfig()
	mc.Name = name
	mc.Transport = tr
	mc.BindAddr = tr.IP.String()
	mc.BindPort = tr.Port
	mc.AdvertiseAddr = tr.IP.String()
	mc.AdvertisePort = tr.Port
	mc.ProbeInterval = time.Hour
	mc.GossipInterval = time.Hour
	mc.PushPullInterval = 0
	mc.RetransmitMult = 1
	mc.EnableCompression = false
	mc.GossipVerifyOutgoing = false
	mc.TCPTimeout = 2 * time.Second
	mc.DeadNodeReclaimTime = 0
	lb := &SyncBuf{}
	mc.LogOutput = lb
	conf.MemberlistConfig = mc
	conf.LogOutput = lb
	evs := make(chan serf.Event, 1<<14)
	conf.EventCh = evs
	conf.ReapInterval = time.Hour
	conf.ReconnectInterval = time.Hour
	conf.ReconnectTimeout = 24 * time.Hour
	conf.TombstoneTimeout = 48 * time.Hour
	conf.BroadcastTimeout = 20 * time.Millisecond
	conf.LeavePropagateDelay = time.Millisecond
	conf.CoalescePeriod = 0
	conf.UserCoalescePeriod = 0
	conf.QueueCheckInterval = time.Hour
	conf.DisableCoordinates = true
	conf.RecentIntentTimeout = 24 * time.Hour
	for _, o := range opts {
		o(conf)
	}
	s, err := serf.Create(conf)
	if err != nil {
		return nil, err
	}
	nd := &Node{Name: name, Serf: s, Conf: conf, Tr: tr, Events: evs, LogBuf: lb}
	nd.Del = mc.Delegate
	nd.Ev = mc.Events
	nd.rec = &recDelegate{Delegate: mc.Delegate}
	mc.Delegate = nd.rec // memberlist reads config.Delegate dynamically
	return nd, nil
}

var _ = io.Discard
var _ = log.Printf

// Drain empties the three broadcast queues through the real GetBroadcasts and returns everything
// that was queued since the last call (including what memberlist itself took in the meantime).
func (n *Node) Drain() [][]byte {
	for {
		got := n.rec.GetBroadcasts(3, 1<<20)
		if len(got) == 0 {
			break
		}
	}
	n.rec.mu.Lock()
	out := n.rec.taken
	n.rec.taken = nil
	n.rec.mu.Unlock()
	return out
}

// PushPullState decodes LocalState.
func (n *Node) PushPullState(join bool) (MsgPushPull, error) {
	var pp MsgPushPull
	buf := n.Del.LocalState(join)
	err := Decode(buf, &pp)
	return pp, err
}

func (n *Node) MLNode(name string, tr *Transport, meta []byte) *memberlist.Node {
	return &memberlist.Node{Name: name, Addr: tr.IP, Port: uint16(tr.Port), Meta: meta,
		PMin: memberlist.ProtocolVersionMin, PMax: memberlist.ProtocolVersionMax, PCur: memberlist.ProtocolVersion2Compatible,
		DMin: serf.ProtocolVersionMin, DMax: serf.ProtocolVersionMax, DCur: serf.ProtocolVersionMax}
}
