package quiet

import (
	"bytes"
	"fmt"
	"time"

	"github.com/hashicorp/go-msgpack/v2/codec"
)

// Mirror of serf's wire messages (serf/messages.go); encoded exactly like encodeMessage does:
// one type byte followed by the msgpack encoding of the struct (field names as map keys).
const (
	TLeave = iota
	TJoin
	TPushPull
	TUserEvent
	TQuery
	TQueryResponse
	TConflictResponse
	TKeyRequest
	TKeyResponse
	TRelay
)

const (
	FlagAck         uint32 = 1
	FlagNoBroadcast uint32 = 2
)

type MsgJoin struct {
	LTime uint64
	Node  string
}
type MsgLeave struct {
	LTime uint64
	Node  string
	Prune bool
}
type UserEventRec struct {
	Name    string
	Payload []byte
}
type UserEvents struct {
	LTime  uint64
	Events []UserEventRec
}
type MsgPushPull struct {
	LTime        uint64
	StatusLTimes map[string]uint64
	LeftMembers  []string
	EventLTime   uint64
	Events       []*UserEvents
	QueryLTime   uint64
}
type MsgUserEvent struct {
	LTime   uint64
	Name    string
	Payload []byte
	CC      bool
}
type MsgQuery struct {
	LTime       uint64
	ID          uint32
	Addr        []byte
	Port        uint16
	SourceNode  string
	Filters     [][]byte
	Flags       uint32
	RelayFactor uint8
	Timeout     time.Duration
	Name        string
	Payload     []byte
}
type MsgQueryResponse struct {
	LTime   uint64
	ID      uint32
	From    string
	Flags   uint32
	Payload []byte
}
type FilterTag struct {
	Tag  string
	Expr string
}

func Encode(t int, msg interface{}) []byte {
	buf := bytes.NewBuffer(nil)
	buf.WriteByte(uint8(t))
	h := codec.MsgpackHandle{}
	h.TimeNotBuiltin = true
	if err := codec.NewEncoder(buf, &h).Encode(msg); err != nil {
		panic(err)
	}
	return buf.Bytes()
}

func EncodeFilter(t int, f interface{}) []byte {
	buf := bytes.NewBuffer(nil)
	buf.WriteByte(uint8(t))
	h := codec.MsgpackHandle{}
	if err := codec.NewEncoder(buf, &h).Encode(f); err != nil {
		panic(err)
	}
	return buf.Bytes()
}

func Decode(buf []byte, out interface{}) error {
	if len(buf) < 1 {
		return fmt.Errorf("empty")
	}
	h := codec.MsgpackHandle{}
	return codec.NewDecoder(bytes.NewReader(buf[1:]), &h).Decode(out)
}

// Summary of a serf message for traces: [type, node/name, ltime, flag]
type MsgSummary struct {
	T     int    `json:"t"`
	Node  string `json:"node"`
	LTime uint64 `json:"lt"`
	Prune bool   `json:"prune"`
	ID    uint32 `json:"id"`
	Raw   []byte `json:"-"`
}

func Summarize(buf []byte) MsgSummary {
	s := MsgSummary{T: -1, Raw: buf}
	if len(buf) == 0 {
		return s
	}
	s.T = int(buf[0])
	switch s.T {
	case TJoin:
		var m MsgJoin
		if Decode(buf, &m) == nil {
			s.Node, s.LTime = m.Node, m.LTime
		}
	case TLeave:
		var m MsgLeave
		if Decode(buf, &m) == nil {
			s.Node, s.LTime, s.Prune = m.Node, m.LTime, m.Prune
		}
	case TUserEvent:
		var m MsgUserEvent
		if Decode(buf, &m) == nil {
			s.Node, s.LTime = m.Name, m.LTime
		}
	case TQuery:
		var m MsgQuery
		if Decode(buf, &m) == nil {
			s.Node, s.LTime, s.ID = m.Name, m.LTime, m.ID
		}
	case TQueryResponse:
		var m MsgQueryResponse
		if Decode(buf, &m) == nil {
			s.Node, s.LTime, s.ID = m.From, m.LTime, m.ID
		}
	}
	return s
}
