// Package sched is a cooperative scheduler for yield-instrumented code: exactly one managed
// goroutine runs at a time, from one yield point to the next, in an order chosen by the harness.
// It is a stateless model checker in miniature: Explore re-executes a scenario under every
// schedule (depth-first over the choice points, optionally preemption-bounded) or under seeded
// random schedules, and hands every step to a recorder.
package sched

import (
	"bytes"
	"math/rand"
	"runtime"
	"strconv"
	"sync"
	"time"
)

type state int

const (
	stNew state = iota
	stParked
	stLockBlocked
	stRunning
	stRuntimeBlocked // did not reach a yield within the watchdog: blocked in the runtime (channel, sleep, I/O)
	stDone
)

type Thread struct {
	ID        int
	Name      string
	Label     string // label of the yield it is parked at
	st        state
	grant     chan struct{}
	blockedAt int
	adopted   bool
}

type event struct {
	t *Thread
}

type S struct {
	mu       sync.Mutex
	threads  []*Thread
	byGid    map[uint64]*Thread
	events   chan event
	stepNo   int
	Adopt    bool          // adopt unmanaged goroutines that reach a yield (timer callbacks, `go` statements)
	Watchdog time.Duration // how long a granted thread may run without reaching a yield
	stopped  bool
}

func New() *S {
	return &S{byGid: map[uint64]*Thread{}, events: make(chan event, 1024), Watchdog: 100 * time.Millisecond}
}

func gid() uint64 {
	var buf [64]byte
	b := buf[:runtime.Stack(buf[:], false)]
	b = b[len("goroutine "):]
	b = b[:bytes.IndexByte(b, ' ')]
	n, _ := strconv.ParseUint(string(b), 10, 64)
	return n
}

// Go registers a managed thread; it starts parked and runs fn when first granted.
func (s *S) Go(name string, fn func()) *Thread {
	s.mu.Lock()
	t := &Thread{ID: len(s.threads) + 1, Name: name, grant: make(chan struct{}, 1), st: stParked, Label: "start"}
	s.threads = append(s.threads, t)
	s.mu.Unlock()
	ready := make(chan struct{})
	go func() {
		s.mu.Lock()
		s.byGid[gid()] = t
		s.mu.Unlock()
		close(ready)
		<-t.grant
		fn()
		s.mu.Lock()
		t.st = stDone
		t.Label = "done"
		s.mu.Unlock()
		s.events <- event{t}
	}()
	<-ready
	return t
}

func (s *S) park(label string, st state) {
	g := gid()
	s.mu.Lock()
	if s.stopped {
		s.mu.Unlock()
		return
	}
	t := s.byGid[g]
	if t == nil {
		if !s.Adopt {
			s.mu.Unlock()
			return
		}
		t = &Thread{ID: len(s.threads) + 1, Name: "adopted:" + label, grant: make(chan struct{}, 1), adopted: true}
		s.threads = append(s.threads, t)
		s.byGid[g] = t
	}
	t.Label = label
	t.st = st
	t.blockedAt = s.stepNo
	s.mu.Unlock()
	s.events <- event{t}
	<-t.grant
}

// Yield is installed as the package's VerifYield hook.
func (s *S) Yield(label string) { s.park(label, stParked) }

// YieldBlocked is installed as VerifYieldBlocked (a TryLock just failed).
func (s *S) YieldBlocked(label string) { s.park(label, stLockBlocked) }

// Step describes one scheduling step that was executed.
type Step struct {
	Thread  int
	Name    string
	From    string // label the thread was parked at
	To      string // label it reached ("done" when it finished, "blocked" when it blocked in the runtime)
	Choice  int    // index chosen among Alts
	Alts    int
	Preempt bool
}

type Result struct {
	Steps    []Step
	Deadlock bool // only lock-blocked threads left
	Hung     bool // runtime-blocked threads never came back
}

// Chooser picks among the eligible threads (first = the thread that ran last, if still eligible).
type Chooser func(step int, elig []*Thread) int

// Run schedules until every thread is done. onStep is called after each step with all managed
// threads parked (so shared state may be read without synchronisation).
func (s *S) Run(choose Chooser, maxPreempt int, onStep func(Step)) Result {
	var res Result
	var last *Thread
	preempts := 0
	for {
		s.mu.Lock()
		var elig []*Thread
		anyBlocked, anyRT, anyLock := false, false, false
		for _, t := range s.threads {
			switch t.st {
			case stParked:
				elig = append(elig, t)
			case stLockBlocked:
				anyLock = true
				if s.stepNo > t.blockedAt { // someone ran since it failed to take the lock
					elig = append(elig, t)
				} else {
					anyBlocked = true
				}
			case stRuntimeBlocked:
				anyRT = true
			}
		}
		s.mu.Unlock()
		_ = anyBlocked
		if len(elig) == 0 {
			if anyRT {
				// wait for a runtime-blocked thread to come back to a yield or finish
				select {
				case ev := <-s.events:
					_ = ev
					continue
				case <-time.After(3 * time.Second):
					res.Hung = true
					s.stop()
					return res
				}
			}
			if anyLock {
				res.Deadlock = true
				s.stop()
			}
			return res
		}
		// order: last-run thread first (choice 0 = no preemption), then by id
		ordered := make([]*Thread, 0, len(elig))
		lastElig := false
		for _, t := range elig {
			if t == last {
				ordered = append(ordered, t)
				lastElig = true
			}
		}
		for _, t := range elig {
			if t != last {
				ordered = append(ordered, t)
			}
		}
		if lastElig && maxPreempt >= 0 && preempts >= maxPreempt {
			ordered = ordered[:1]
		}
		c := 0
		if len(ordered) > 1 {
			c = choose(len(res.Steps), ordered)
			if c < 0 || c >= len(ordered) {
				c = 0
			}
		}
		t := ordered[c]
		pre := lastElig && t != last
		if pre {
			preempts++
		}
		st := Step{Thread: t.ID, Name: t.Name, From: t.Label, Choice: c, Alts: len(ordered), Preempt: pre}
		s.mu.Lock()
		t.st = stRunning
		s.stepNo++
		s.mu.Unlock()
		t.grant <- struct{}{}
		timer := time.NewTimer(s.Watchdog)
	wait:
		for {
			select {
			case ev := <-s.events:
				if ev.t == t {
					break wait
				}
				// another thread (runtime-blocked or adopted) reached a yield: it is parked now
			case <-timer.C:
				s.mu.Lock()
				if t.st == stRunning {
					t.st = stRuntimeBlocked
				}
				s.mu.Unlock()
				break wait
			}
		}
		timer.Stop()
		s.mu.Lock()
		switch t.st {
		case stDone:
			st.To = "done"
		case stRuntimeBlocked:
			st.To = "blocked"
		default:
			st.To = t.Label
		}
		s.mu.Unlock()
		last = t
		res.Steps = append(res.Steps, st)
		if onStep != nil {
			onStep(st)
		}
	}
}

// stop releases every parked goroutine and lets it run unmanaged to completion (used on deadlock/hang).
func (s *S) stop() {
	s.mu.Lock()
	s.stopped = true
	ts := append([]*Thread(nil), s.threads...)
	s.mu.Unlock()
	for _, t := range ts {
		select {
		case t.grant <- struct{}{}:
		default:
		}
	}
}

// ---------------------------------------------------------------------------------------------

// Scenario builds a fresh instance: it must create fresh objects, install s.Yield / s.YieldBlocked as
// the hooks, register the threads with s.Go and return the per-step recorder and a finisher.
type Scenario func(s *S) (onStep func(Step), finish func(Result))

type Stats struct {
	Schedules  int
	Exhaustive bool
	Deadlocks  int
	Hung       int
}

// Explore runs the scenario under every schedule with at most maxPreempt preemptions (depth-first),
// up to budget schedules; if the budget is hit it adds seeded random schedules instead.
func Explore(sc Scenario, maxPreempt, budget int, seed int64, adopt bool) Stats {
	var stt Stats
	prefix := []int{}
	for stt.Schedules < budget {
		s := New()
		s.Adopt = adopt
		onStep, finish := sc(s)
		res := s.Run(func(step int, elig []*Thread) int {
			if step < len(prefix) {
				return prefix[step]
			}
			return 0
		}, maxPreempt, onStep)
		finish(res)
		stt.Schedules++
		if res.Deadlock {
			stt.Deadlocks++
		}
		if res.Hung {
			stt.Hung++
		}
		// next prefix: bump the deepest choice point that still has an untried alternative
		i := len(res.Steps) - 1
		for ; i >= 0; i-- {
			if res.Steps[i].Choice+1 < res.Steps[i].Alts {
				break
			}
		}
		if i < 0 {
			stt.Exhaustive = true
			return stt
		}
		np := make([]int, i+1)
		for k := 0; k < i; k++ {
			np[k] = res.Steps[k].Choice
		}
		np[i] = res.Steps[i].Choice + 1
		prefix = np
	}
	return stt
}

// Random runs n seeded random schedules (no preemption bound).
func Random(sc Scenario, n int, seed int64, adopt bool) Stats {
	var stt Stats
	rng := rand.New(rand.NewSource(seed))
	for k := 0; k < n; k++ {
		s := New()
		s.Adopt = adopt
		onStep, finish := sc(s)
		res := s.Run(func(step int, elig []*Thread) int {
			// stay on the same thread with probability 2/3: fewer, more meaningful switches
			if rng.Intn(3) != 0 {
				return 0
			}
			return rng.Intn(len(elig))
		}, -1, onStep)
		finish(res)
		stt.Schedules++
		if res.Deadlock {
			stt.Deadlocks++
		}
		if res.Hung {
			stt.Hung++
		}
	}
	return stt
}
