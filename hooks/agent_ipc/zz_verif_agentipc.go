//go:build verif

package agent

// Read-only accessors for the agentipc family (added to package agent by the overlay).

// VerifHandlers returns the number of registered event handlers (event streams register here).
func (a *Agent) VerifHandlers() int {
	a.eventHandlersLock.Lock()
	defer a.eventHandlersLock.Unlock()
	return len(a.eventHandlers)
}

// VerifLogHandlers returns the number of log handlers (monitors) registered with the log writer.
func (i *AgentIPC) VerifLogHandlers() int {
	i.logWriter.Lock()
	defer i.logWriter.Unlock()
	return len(i.logWriter.handlers)
}

// VerifClients returns the number of registered (not yet deregistered) connections.
func (i *AgentIPC) VerifClients() int {
	i.Lock()
	defer i.Unlock()
	return len(i.clients)
}
