//go:build verif

package agent

// Yield hooks called by the instrumented copy of ipc_query_response_stream.go (see
// /verif/harness/cmd/instrument).  The agentipc harness installs its gate here.
var VerifYield = func(label string) {}
var VerifYieldBlocked = func(label string) {}

func verifYield(label string)        { VerifYield(label) }
func verifYieldBlocked(label string) { VerifYieldBlocked(label) }

// VerifPeek reads the gate's internal state while every managed goroutine is parked (used only to
// tighten trace conformance, never by the property monitors): flush flag, number of buffered
// lines, whether the lock is held by anybody (works for sync.Mutex and sync.RWMutex).
func (w *GatedWriter) VerifPeek() (flush bool, nbuf int, locked bool) {
	if w.lock.TryLock() {
		w.lock.Unlock()
	} else {
		locked = true
	}
	return w.flush, len(w.buf), locked
}

// VerifPeek: ring contents (as stored), next index, number of handlers, lock held.
func (l *logWriter) VerifPeek() (logs []string, index int, handlers int, locked bool) {
	if l.TryLock() {
		l.Unlock()
	} else {
		locked = true
	}
	return append([]string(nil), l.logs...), l.index, len(l.handlers), locked
}

// VerifLogWriter is the (unexported) concrete type behind NewLogWriter.
type VerifLogWriter = logWriter
