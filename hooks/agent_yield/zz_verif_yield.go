//go:build verif

package agent

// Yield hooks called by the instrumented copy of ipc_query_response_stream.go (see
// /verif/harness/cmd/instrument).  The agentipc harness installs its gate here.
var VerifYield = func(label string) {}
var VerifYieldBlocked = func(label string) {}

func verifYield(label string)        { VerifYield(label) }
func verifYieldBlocked(label string) { VerifYieldBlocked(label) }
