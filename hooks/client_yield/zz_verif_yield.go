//go:build verif

package client

import "net"

// Yield hooks called by the instrumented copies of this package's files (see
// /verif/harness/cmd/instrument).  The harness installs the cooperative scheduler here.
var VerifYield = func(label string) {}
var VerifYieldBlocked = func(label string) {}

func verifYield(label string)        { VerifYield(label) }
func verifYieldBlocked(label string) { VerifYieldBlocked(label) }

// VerifConn exposes the client's connection (the harness asks the kernel how many unread bytes are
// queued on it to know whether I/O is still in flight, and closes it when a schedule is abandoned).
func (c *RPCClient) VerifConn() *net.TCPConn { return c.conn }

// VerifPeek reads the dispatch table and the lock / shutdown state while every managed goroutine is
// parked (used only to tighten trace conformance, never by the property monitors).
func (c *RPCClient) VerifPeek() (seqs []uint64, dispatchLocked bool, shutdownLocked bool, shutdown bool) {
	if c.dispatchLock.TryLock() {
		c.dispatchLock.Unlock()
	} else {
		dispatchLocked = true
	}
	if c.shutdownLock.TryLock() {
		c.shutdownLock.Unlock()
	} else {
		shutdownLocked = true
	}
	for k := range c.dispatch {
		seqs = append(seqs, k)
	}
	return seqs, dispatchLocked, shutdownLocked, c.shutdown
}
