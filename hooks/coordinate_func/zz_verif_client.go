//go:build verif

package coordinate

// Read-only copy of the complete state of a Client (added to package coordinate by the overlay of the func
// family): "a rejected observation changes nothing" is checked on all of it, not only on the coordinate.

type VerifClientState struct {
	Coord      *Coordinate
	Origin     *Coordinate
	AdjIndex   uint
	AdjSamples []float64
	Latency    map[string][]float64 // per peer: the moving-median window of round-trip samples
	Resets     int
}

func (c *Client) VerifState() VerifClientState {
	c.mutex.RLock()
	defer c.mutex.RUnlock()
	st := VerifClientState{Coord: c.coord.Clone(), Origin: c.origin.Clone(), AdjIndex: c.adjustmentIndex,
		AdjSamples: append([]float64(nil), c.adjustmentSamples...), Latency: map[string][]float64{}, Resets: c.stats.Resets}
	for k, v := range c.latencyFilterSamples {
		st.Latency[k] = append([]float64(nil), v...)
	}
	return st
}
