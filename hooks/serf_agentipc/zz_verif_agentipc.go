//go:build verif

package serf

// VerifQueryOpen reports whether a query issued at the given Lamport time is still registered
// (registerQueryResponse's timer deletes the entry and closes the QueryResponse).
func (s *Serf) VerifQueryOpen(lt LamportTime) bool {
	s.queryLock.RLock()
	defer s.queryLock.RUnlock()
	_, ok := s.queryResponse[lt]
	return ok
}
