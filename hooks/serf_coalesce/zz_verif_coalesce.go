//go:build verif

package serf

import "time"

// Accessors for the unexported coalescers (added to package serf by `go build -overlay`
// from /verif/hooks; never part of /repo).

type VerifCoalescer interface {
	Handle(Event) bool
	Coalesce(Event)
	Flush(outChan chan<- Event)
}

func VerifNewMemberCoalescer() VerifCoalescer {
	return &memberEventCoalescer{
		lastEvents:   make(map[string]EventType),
		latestEvents: make(map[string]coalesceEvent),
	}
}

func VerifNewUserCoalescer() VerifCoalescer {
	return &userEventCoalescer{
		events: make(map[string]*latestUserEvents),
	}
}

func VerifCoalescedEventCh(outCh chan<- Event, shutdownCh <-chan struct{},
	cPeriod time.Duration, qPeriod time.Duration, c VerifCoalescer) chan<- Event {
	return coalescedEventCh(outCh, shutdownCh, cPeriod, qPeriod, c)
}
