//go:build verif

package serf

// Read-only projection of the user-event / query de-duplication state, and a setter for the
// eventJoinIgnore flag that Serf.Join(existing, ignoreOld=true) holds while memberlist joins
// (added to package serf by the overlay; nothing here is compiled into normal builds).
//
// No locks are taken: the sequential driver reads between calls, the concurrent driver reads while
// every managed goroutine is parked at a yield point (possibly inside a critical section).

type VerifEvt struct {
	Name    string
	Payload []byte
}

type VerifSlot struct {
	Nil    bool
	LTime  uint64
	Events []VerifEvt // event buffer slots
	IDs    []uint32   // query buffer slots
}

type VerifEventState struct {
	EventClock, EventMin uint64
	QueryClock, QueryMin uint64
	EventBuf, QueryBuf   []VerifSlot
	JoinIgnore           bool
	OpenQueries          []uint64 // Lamport times that have a registered QueryResponse
}

func (s *Serf) VerifEventsDump() VerifEventState {
	st := VerifEventState{
		EventClock: uint64(s.eventClock.Time()), EventMin: uint64(s.eventMinTime),
		QueryClock: uint64(s.queryClock.Time()), QueryMin: uint64(s.queryMinTime),
		JoinIgnore: s.eventJoinIgnore.Load().(bool),
	}
	for _, e := range s.eventBuffer {
		if e == nil {
			st.EventBuf = append(st.EventBuf, VerifSlot{Nil: true})
			continue
		}
		sl := VerifSlot{LTime: uint64(e.LTime)}
		for _, ue := range e.Events {
			sl.Events = append(sl.Events, VerifEvt{Name: ue.Name, Payload: ue.Payload})
		}
		st.EventBuf = append(st.EventBuf, sl)
	}
	for _, q := range s.queryBuffer {
		if q == nil {
			st.QueryBuf = append(st.QueryBuf, VerifSlot{Nil: true})
			continue
		}
		st.QueryBuf = append(st.QueryBuf, VerifSlot{LTime: uint64(q.LTime), IDs: append([]uint32(nil), q.QueryIDs...)})
	}
	for lt := range s.queryResponse {
		st.OpenQueries = append(st.OpenQueries, uint64(lt))
	}
	return st
}

// VerifSetJoinIgnore stores the flag exactly as Serf.Join does around memberlist.Join.
func (s *Serf) VerifSetJoinIgnore(b bool) { s.eventJoinIgnore.Store(b) }

// VerifQueryResponseTime is the Lamport time a QueryResponse is registered under.
func VerifQueryResponseTime(r *QueryResponse) uint64 { return uint64(r.lTime) }
