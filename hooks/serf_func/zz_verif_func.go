//go:build verif

package serf

import "github.com/hashicorp/serf/coordinate"

// VerifCoordClient exposes the node's coordinate client (nil when coordinates are disabled); added to package
// serf by the overlay of the func family.
func (s *Serf) VerifCoordClient() *coordinate.Client { return s.coordClient }
