//go:build verif

package serf

// Time0 reads the counter without passing through the (instrumented) Time method, so the
// harness can observe the clock between scheduling steps.
func (l *LamportClock) Time0() LamportTime {
	return LamportTime(l.counter.Load())
}
