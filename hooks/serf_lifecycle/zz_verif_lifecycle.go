//go:build verif

package serf

// VerifStateSample returns what a State() call completing right now would return, or -1 if the
// state lock is held (State() would block).  Used by the C34 driver after every scheduling step,
// when every managed goroutine is parked.
func (s *Serf) VerifStateSample() int {
	if !s.stateLock.TryLock() {
		return -1
	}
	v := int(s.state)
	s.stateLock.Unlock()
	return v
}

// VerifStateRaw reads the state field without the lock, and probes the join lock (conformance only).
func (s *Serf) VerifStateRaw() (state int, joinLocked bool) {
	if s.joinLock.TryLock() {
		s.joinLock.Unlock()
	} else {
		joinLocked = true
	}
	return int(s.state), joinLocked
}
