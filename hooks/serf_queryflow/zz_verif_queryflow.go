//go:build verif

package serf

import (
	"sort"
	"time"
)

// Hooks of the queryflow family (C07, C22, C23), added to package serf through the build overlay.
//
// Virtual time: the family's orchestration rewrites, in the yield-instrumented copies of serf/serf.go and
// serf/query.go only, `time.AfterFunc(` into `verifAfterFunc(` and `time.Now()` into `verifNow()`, so that the
// harness decides when a query's deadline passes and runs the (unchanged) timer body as a managed thread.
// In builds that use the unchanged files these two hooks are simply never called.
var VerifNow = time.Now
var VerifAfterFunc = func(d time.Duration, f func()) *time.Timer { return time.AfterFunc(d, f) }

func verifNow() time.Time                                  { return VerifNow() }
func verifAfterFunc(d time.Duration, f func()) *time.Timer { return VerifAfterFunc(d, f) }

// VerifQFEntry is one entry of Serf.queryResponse.
type VerifQFEntry struct {
	LTime uint64
	Resp  *QueryResponse
}

// VerifQFOpen reads the map of open queries.  With try=true it never blocks: when the lock is held by a
// (parked) thread it reports locked=true and reads the map without the lock (all managed threads are parked
// whenever the harness observes, so this is race free under the cooperative scheduler).
func (s *Serf) VerifQFOpen(try bool) (locked bool, out []VerifQFEntry) {
	if try {
		if s.queryLock.TryRLock() {
			defer s.queryLock.RUnlock()
		} else {
			locked = true
		}
	} else {
		s.queryLock.RLock()
		defer s.queryLock.RUnlock()
	}
	for lt, r := range s.queryResponse {
		out = append(out, VerifQFEntry{LTime: uint64(lt), Resp: r})
	}
	sort.Slice(out, func(i, j int) bool { return out[i].LTime < out[j].LTime })
	return locked, out
}

// VerifQFOpenUnlocked reads the map without touching the lock (only to be called from inside a critical
// section of queryLock, i.e. from the VerifAfterFunc hook).
func (s *Serf) VerifQFOpenUnlocked() []VerifQFEntry {
	var out []VerifQFEntry
	for lt, r := range s.queryResponse {
		out = append(out, VerifQFEntry{LTime: uint64(lt), Resp: r})
	}
	return out
}

func (s *Serf) VerifQueryClock() uint64 { return uint64(s.queryClock.Time()) }

type VerifQFResp struct {
	Locked    bool
	ID        uint32
	LTime     uint64
	Acks      []string
	Responses []string
	Closed    bool
	NAck      int
	NResp     int
	Cap       int
}

// VerifQFState projects a QueryResponse (same locking convention as VerifQFOpen).
func (r *QueryResponse) VerifQFState(try bool) VerifQFResp {
	st := VerifQFResp{ID: r.id, LTime: uint64(r.lTime)}
	if try {
		if r.closeLock.TryLock() {
			defer r.closeLock.Unlock()
		} else {
			st.Locked = true
		}
	} else {
		r.closeLock.Lock()
		defer r.closeLock.Unlock()
	}
	for n := range r.acks {
		st.Acks = append(st.Acks, n)
	}
	for n := range r.responses {
		st.Responses = append(st.Responses, n)
	}
	sort.Strings(st.Acks)
	sort.Strings(st.Responses)
	st.Closed = r.closed
	if r.ackCh != nil {
		st.NAck = len(r.ackCh)
	}
	st.NResp = len(r.respCh)
	st.Cap = cap(r.respCh)
	return st
}

func (r *QueryResponse) VerifID() uint32    { return r.id }
func (r *QueryResponse) VerifLTime() uint64 { return uint64(r.lTime) }
