//go:build verif

package serf

import "sort"

// Accessors for the queryrecv family (C08, C33, C35, C36); added to package serf by the overlay.

// VerifOpenQuery describes one query this node has issued and not yet closed.
type VerifOpenQuery struct {
	LTime   uint64
	ID      uint32
	Pending int // responses sitting in the response channel, not yet taken by the reader
	Cap     int // capacity of the response channel
	Got     int // distinct senders whose response was accepted so far
	Closed  bool
}

// VerifOpenQueries lists the registered query responses (read under queryLock / closeLock).
func (s *Serf) VerifOpenQueries() []VerifOpenQuery {
	s.queryLock.RLock()
	defer s.queryLock.RUnlock()
	var out []VerifOpenQuery
	for lt, q := range s.queryResponse {
		q.closeLock.Lock()
		out = append(out, VerifOpenQuery{LTime: uint64(lt), ID: q.id, Pending: len(q.respCh), Cap: cap(q.respCh),
			Got: len(q.responses), Closed: q.closed})
		q.closeLock.Unlock()
	}
	sort.Slice(out, func(i, j int) bool { return out[i].LTime < out[j].LTime })
	return out
}

// VerifKRandomMembers calls kRandomMembers with the exclusion filter relayResponse uses
// (not alive, memberlist protocol below 5, or the local node).
func VerifKRandomMembers(k int, members []Member, localName string) []Member {
	return kRandomMembers(k, members, func(m Member) bool {
		return m.Status != StatusAlive || m.ProtocolMax < 5 || m.Name == localName
	})
}
