//go:build verif

package serf

// File-operation shim for serf/snapshot.go (added to package serf by `go build -overlay`; never part
// of /repo).  harness/cmd/snaprewrite produces, from the CURRENT working tree, a copy of snapshot.go in
// which
//
//	os.OpenFile / os.Remove / os.Rename      -> verifOpenFile / verifRemove / verifRename
//	*os.File                                 -> *verifFile   (Stat, Seek, Read, Write, WriteString, Sync, Close)
//	bufio.NewWriter / *bufio.Writer          -> verifNewWriter / *verifBufWriter (WriteString, Write, Flush)
//	time.Now / time.NewTicker                -> verifNow / verifNewTicker
//
// Every redirected call forwards to the real thing.  For files below VerifFS.Root ("tracked" files)
// the shim additionally (a) numbers and logs the operation, (b) makes operation number FailAt return
// an error without performing it, (c) calls After(op) at the operation boundary, in the calling
// goroutine, before control returns to snapshot.go -- the harness copies the directory there: that
// copy is the image a process crash at this point would leave (files as the OS has them; the bufio
// buffer is process memory and is not in it), (d) the clock and the ticker are under harness control.
// Files outside Root (the recovery replays the harness runs on directory copies) pass through silently.

import (
	"bufio"
	"errors"
	"os"
	"path/filepath"
	"strings"
	"sync"
	"time"
)

// VerifOp is one tracked operation.
type VerifOp struct {
	Idx  int    // 1-based index since the last ResetOps
	Op   string // open | stat | seek | write | sync | close | remove | rename
	File string // base name of the path operated on (rename: the source)
	OK   bool
	Data string // write: the bytes handed to the OS (also when the write was failed by injection)
	Flag int    // open: flags
}

var ErrVerifInjected = errors.New("verif: injected I/O fault")

type verifFSState struct {
	mu      sync.Mutex
	Root    string              // directory whose files are tracked ("" = nothing tracked)
	FailAt  int                 // operation index that fails (0 = none)
	FailKind string             // "op:file": every operation of that kind fails while set ("" = none)
	After   func(op VerifOp)    // boundary callback
	n       int                 // operations so far
	now     time.Time           // controllable clock
	tickers []*verifTicker      // tickers created while Root != "" and not muted
	Mute    bool                // true while the harness runs recovery snapshotters: tickers are dummies
	tickCh  chan *verifTicker   // announces primary tickers
}

// VerifFS is the process-wide shim state (the driver runs one tracked snapshotter at a time).
var VerifFS = &verifFSState{now: time.Unix(1700000000, 0), tickCh: make(chan *verifTicker, 16)}

func (s *verifFSState) ResetOps() { s.mu.Lock(); s.n = 0; s.FailAt = 0; s.FailKind = ""; s.mu.Unlock() }
func (s *verifFSState) Ops() int  { s.mu.Lock(); defer s.mu.Unlock(); return s.n }
func (s *verifFSState) SetFail(k int) { s.mu.Lock(); s.FailAt = k; s.mu.Unlock() }
func (s *verifFSState) Advance(d time.Duration) { s.mu.Lock(); s.now = s.now.Add(d); s.mu.Unlock() }
func (s *verifFSState) SetMute(m bool) { s.mu.Lock(); s.Mute = m; s.mu.Unlock() }

// NextTicker waits for the ticker the next tracked snapshotter's stream loop creates.
func (s *verifFSState) NextTicker(timeout time.Duration) *verifTicker {
	select {
	case t := <-s.tickCh:
		return t
	case <-time.After(timeout):
		return nil
	}
}

func (s *verifFSState) tracked(path string) bool {
	if s.Root == "" {
		return false
	}
	return strings.HasPrefix(path, s.Root+string(filepath.Separator))
}

// begin numbers the operation and tells whether it must fail.
// A fault WINDOW (FailKind = "op:file", e.g. "rename:snap.compact") fails every operation of that kind while it is set.
func (s *verifFSState) begin(op, base string) (idx int, fail bool) {
	s.mu.Lock()
	s.n++
	idx = s.n
	fail = s.FailAt == idx || (s.FailKind != "" && s.FailKind == op+":"+base)
	s.mu.Unlock()
	return
}

func (s *verifFSState) SetFailKind(k string) { s.mu.Lock(); s.FailKind = k; s.mu.Unlock() }

func (s *verifFSState) end(op VerifOp) {
	if s.After != nil {
		s.After(op)
	}
}

func verifNow() time.Time {
	VerifFS.mu.Lock()
	defer VerifFS.mu.Unlock()
	return VerifFS.now
}

func verifSince(t time.Time) time.Duration { return verifNow().Sub(t) }

// ---------------------------------------------------------------------------------- stream loop hooks

// snaprewrite puts verifLoopIdle(s) in front of the stream loop's select and verifLoopBusy(s) first in each
// of its cases.  The loop of snapshotter s is at rest, having handled everything it was given, exactly when
// busy == (number of things it was given: events, ticks, leave) and idle == busy+1.
type verifLoopCount struct{ idle, busy int }

var verifLoops = struct {
	mu sync.Mutex
	m  map[*Snapshotter]*verifLoopCount
}{m: map[*Snapshotter]*verifLoopCount{}}

func verifLoopOf(s *Snapshotter) *verifLoopCount {
	c := verifLoops.m[s]
	if c == nil {
		c = &verifLoopCount{}
		verifLoops.m[s] = c
	}
	return c
}

func verifLoopIdle(s *Snapshotter) {
	verifLoops.mu.Lock()
	verifLoopOf(s).idle++
	verifLoops.mu.Unlock()
}

func verifLoopBusy(s *Snapshotter) {
	verifLoops.mu.Lock()
	verifLoopOf(s).busy++
	verifLoops.mu.Unlock()
}

// VerifLoopCounts returns how often the stream loop of s arrived at its select and how often it left it.
func VerifLoopCounts(s *Snapshotter) (idle, busy int) {
	verifLoops.mu.Lock()
	defer verifLoops.mu.Unlock()
	c := verifLoopOf(s)
	return c.idle, c.busy
}

// VerifLoopForget drops the bookkeeping of a snapshotter that is gone.
func VerifLoopForget(s *Snapshotter) {
	verifLoops.mu.Lock()
	delete(verifLoops.m, s)
	verifLoops.mu.Unlock()
}

// ---------------------------------------------------------------------------------- ticker

type verifTicker struct {
	C       chan time.Time
	stopped chan struct{}
	once    sync.Once
}

func (t *verifTicker) Stop() { t.once.Do(func() { close(t.stopped) }) }

// Fire delivers one tick; it returns once the loop has taken it (false: loop gone / timeout).
func (t *verifTicker) Fire(timeout time.Duration) bool {
	select {
	case t.C <- verifNow():
		return true
	case <-t.stopped:
		return false
	case <-time.After(timeout):
		return false
	}
}

func verifNewTicker(d time.Duration) *verifTicker {
	t := &verifTicker{C: make(chan time.Time), stopped: make(chan struct{})}
	VerifFS.mu.Lock()
	mute := VerifFS.Mute || VerifFS.Root == ""
	VerifFS.mu.Unlock()
	if !mute {
		VerifFS.tickCh <- t
	}
	return t
}

// ---------------------------------------------------------------------------------- files

type verifFile struct {
	f       *os.File
	path    string
	tracked bool
}

func verifOpenFile(path string, flag int, perm os.FileMode) (*verifFile, error) {
	tr := VerifFS.tracked(path)
	if !tr {
		f, err := os.OpenFile(path, flag, perm)
		if err != nil {
			return nil, err
		}
		return &verifFile{f: f, path: path}, nil
	}
	idx, fail := VerifFS.begin("open", filepath.Base(path))
	op := VerifOp{Idx: idx, Op: "open", File: filepath.Base(path), Flag: flag}
	if fail {
		VerifFS.end(op)
		return nil, &os.PathError{Op: "open", Path: path, Err: ErrVerifInjected}
	}
	f, err := os.OpenFile(path, flag, perm)
	op.OK = err == nil
	VerifFS.end(op)
	if err != nil {
		return nil, err
	}
	return &verifFile{f: f, path: path, tracked: true}, nil
}

func (v *verifFile) simple(name string, do func() error) error {
	if v == nil {
		return os.ErrInvalid // like a nil *os.File
	}
	if !v.tracked {
		return do()
	}
	idx, fail := VerifFS.begin(name, filepath.Base(v.path))
	op := VerifOp{Idx: idx, Op: name, File: filepath.Base(v.path)}
	var err error
	if fail {
		err = &os.PathError{Op: name, Path: v.path, Err: ErrVerifInjected}
		if name == "close" {
			_ = do() // release the descriptor anyway; the caller sees the injected error
		}
	} else {
		err = do()
	}
	op.OK = err == nil
	VerifFS.end(op)
	return err
}

func (v *verifFile) Stat() (os.FileInfo, error) {
	var fi os.FileInfo
	err := v.simple("stat", func() error { var e error; fi, e = v.f.Stat(); return e })
	if err != nil {
		return nil, err
	}
	return fi, nil
}

func (v *verifFile) Seek(off int64, whence int) (int64, error) {
	var n int64
	err := v.simple("seek", func() error { var e error; n, e = v.f.Seek(off, whence); return e })
	return n, err
}

func (v *verifFile) Read(p []byte) (int, error) {
	if v == nil {
		return 0, os.ErrInvalid
	}
	return v.f.Read(p)
}

func (v *verifFile) Sync() error  { return v.simple("sync", func() error { return v.f.Sync() }) }
func (v *verifFile) Close() error { return v.simple("close", func() error { return v.f.Close() }) }
func (v *verifFile) Name() string {
	if v == nil {
		panic("verif: Name on nil file") // (*os.File)(nil).Name() panics too
	}
	return v.f.Name()
}

func (v *verifFile) Write(p []byte) (int, error) {
	if v == nil {
		return 0, os.ErrInvalid
	}
	if !v.tracked {
		return v.f.Write(p)
	}
	idx, fail := VerifFS.begin("write", filepath.Base(v.path))
	op := VerifOp{Idx: idx, Op: "write", File: filepath.Base(v.path), Data: string(p)}
	var n int
	var err error
	if fail {
		err = &os.PathError{Op: "write", Path: v.path, Err: ErrVerifInjected}
	} else {
		n, err = v.f.Write(p)
	}
	op.OK = err == nil
	VerifFS.end(op)
	return n, err
}

func (v *verifFile) WriteString(s string) (int, error) { return v.Write([]byte(s)) }

func verifRemove(path string) error {
	if !VerifFS.tracked(path) {
		return os.Remove(path)
	}
	idx, fail := VerifFS.begin("remove", filepath.Base(path))
	op := VerifOp{Idx: idx, Op: "remove", File: filepath.Base(path)}
	var err error
	if fail {
		err = &os.PathError{Op: "remove", Path: path, Err: ErrVerifInjected}
	} else {
		err = os.Remove(path)
	}
	op.OK = err == nil
	VerifFS.end(op)
	return err
}

func verifRename(from, to string) error {
	if !VerifFS.tracked(from) && !VerifFS.tracked(to) {
		return os.Rename(from, to)
	}
	idx, fail := VerifFS.begin("rename", filepath.Base(from))
	op := VerifOp{Idx: idx, Op: "rename", File: filepath.Base(from)}
	var err error
	if fail {
		err = &os.LinkError{Op: "rename", Old: from, New: to, Err: ErrVerifInjected}
	} else {
		err = os.Rename(from, to)
	}
	op.OK = err == nil
	VerifFS.end(op)
	return err
}

// ---------------------------------------------------------------------------------- bufio

// verifBufWriter wraps a real bufio.Writer over a verifFile, so buffering, overflow flushes and the
// sticky error are bufio's own; the bytes reach the OS only through verifFile.Write.
type verifBufWriter struct {
	w *bufio.Writer
	f *verifFile
}

func verifNewWriter(f *verifFile) *verifBufWriter {
	return &verifBufWriter{w: bufio.NewWriter(f), f: f}
}

// A nil *bufio.Writer panics when used; so must the wrapper (b.w dereferences nil).
func (b *verifBufWriter) WriteString(s string) (int, error) {
	n, err := b.w.WriteString(s)
	if b.f != nil && b.f.tracked {
		// a boundary (the in-memory state changed, a line was produced), not a file operation: no index
		VerifFS.end(VerifOp{Op: "bufw", File: filepath.Base(b.f.path), OK: true, Data: s})
	}
	return n, err
}
func (b *verifBufWriter) Write(p []byte) (int, error)       { return b.w.Write(p) }
func (b *verifBufWriter) Flush() error                      { return b.w.Flush() }
func (b *verifBufWriter) Buffered() int                     { return b.w.Buffered() }
func (b *verifBufWriter) Available() int                    { return b.w.Available() }

// ---------------------------------------------------------------------------------- accessor

// VerifSnapState is the in-memory state of a Snapshotter, read in the goroutine that owns it (from
// the After callback) or while it is idle.
type VerifSnapState struct {
	Alive    map[string]string
	Clock    uint64
	EvClock  uint64
	QClock   uint64
	Leaving  bool
	Offset   int64
	FhNil    bool
	BufNil   bool
	Pending  int // bytes accepted by the live bufio.Writer and not yet handed to the OS
}

func VerifSnapshotState(s *Snapshotter) VerifSnapState {
	st := VerifSnapState{Alive: map[string]string{}, Clock: uint64(s.lastClock), EvClock: uint64(s.lastEventClock),
		QClock: uint64(s.lastQueryClock), Leaving: s.leaving, Offset: s.offset, FhNil: s.fh == nil, BufNil: s.buffered == nil}
	for k, v := range s.aliveNodes {
		st.Alive[k] = v
	}
	if s.buffered != nil {
		st.Pending = s.buffered.Buffered()
	}
	return st
}
