//go:build verif

package serf

// VerifSerfSnapshotter returns the snapshotter a Serf created for conf.SnapshotPath (nil if none):
// the Serf-level histories of the snapshot family wait on its stream loop and read its state.
func VerifSerfSnapshotter(s *Serf) *Snapshotter { return s.snapshotter }
