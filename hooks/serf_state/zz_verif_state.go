//go:build verif

package serf

import (
	"sort"
	"time"
)

// Read-only projection of the membership state (added to package serf by the overlay).

type VerifMember struct {
	Name   string
	Status int // 0 none, 1 alive, 2 leaving, 3 left, 4 failed (MemberStatus numbering)
	LTime  uint64
}

type VerifIntent struct {
	Name  string
	Type  int // messageLeaveType = 0, messageJoinType = 1
	LTime uint64
}

type VerifState struct {
	Clock      uint64
	EventClock uint64
	QueryClock uint64
	State      int
	Members    []VerifMember
	Failed     []string
	Left       []string
	Intents    []VerifIntent
}

func (s *Serf) VerifDump() VerifState {
	st := VerifState{State: int(s.State())}
	s.memberLock.RLock()
	defer s.memberLock.RUnlock()
	st.Clock = uint64(s.clock.Time())
	st.EventClock = uint64(s.eventClock.Time())
	st.QueryClock = uint64(s.queryClock.Time())
	for name, m := range s.members {
		st.Members = append(st.Members, VerifMember{Name: name, Status: int(m.Status), LTime: uint64(m.statusLTime)})
	}
	sort.Slice(st.Members, func(i, j int) bool { return st.Members[i].Name < st.Members[j].Name })
	for _, m := range s.failedMembers {
		st.Failed = append(st.Failed, m.Name)
	}
	for _, m := range s.leftMembers {
		st.Left = append(st.Left, m.Name)
	}
	for name, in := range s.recentIntents {
		st.Intents = append(st.Intents, VerifIntent{Name: name, Type: int(in.Type), LTime: uint64(in.LTime)})
	}
	sort.Slice(st.Intents, func(i, j int) bool { return st.Intents[i].Name < st.Intents[j].Name })
	return st
}

// VerifInnerEventCh is the channel the membership handlers write to (the head of the event
// pipeline); the harness sends marker events through it to know when the pipeline has drained.
func (s *Serf) VerifInnerEventCh() chan<- Event { return s.config.EventCh }

// VerifBroadcastJoin is the tail of Serf.Join after a successful memberlist join.
func (s *Serf) VerifBroadcastJoin() error { return s.broadcastJoin(s.clock.Time()) }

// VerifAgeIntents makes the buffered intents of the named nodes look d older: the passage of wall time as the
// reaper's reapIntents pass sees it (the harness cannot wait out RecentIntentTimeout).
func (s *Serf) VerifAgeIntents(names []string, d time.Duration) {
	s.memberLock.Lock()
	defer s.memberLock.Unlock()
	for _, n := range names {
		if in, ok := s.recentIntents[n]; ok {
			in.WallTime = in.WallTime.Add(-d)
			s.recentIntents[n] = in
		}
	}
}
