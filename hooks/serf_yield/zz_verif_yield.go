//go:build verif

package serf

// Yield hooks called by the instrumented copies of this package's files (see
// /verif/harness/cmd/instrument).  The harness installs the cooperative scheduler here.
var VerifYield = func(label string) {}
var VerifYieldBlocked = func(label string) {}

func verifYield(label string)        { VerifYield(label) }
func verifYieldBlocked(label string) { VerifYieldBlocked(label) }
