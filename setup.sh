#!/bin/sh
# Builds everything the checks need from files on disk only (offline), and warms the Go build cache.
set -e
cd "$(dirname "$0")"
export GOFLAGS=-mod=mod GOPROXY=off
unset GOSUMDB GOTOOLCHAIN
cp /repo/go.sum harness/go.sum
mkdir -p .build
( cd harness && for c in cmd/*; do
    [ -d "$c" ] || continue
    # hook-dependent drivers are built by the checks with their overlay; here we only warm the cache
    go build -o ../.build/$(basename $c) ./$c 2>/dev/null || true
  done )
# syntax-check every specification
for f in spec/*.tla; do
  case "$f" in spec/Trace_*|spec/Gen_*) continue;; esac
  ( cd spec && timeout 120 tla-sany "$(basename $f)" >/dev/null ) || { echo "SANY failed on $f"; exit 1; }
done
echo setup ok
