------------------------------ MODULE AgentIPC ------------------------------
(* cmd/serf/command/agent/ipc.go -- one RPC connection of the agent.            *)
(*                                                                             *)
(* The connection state IS the stream of msgpack objects the client puts on    *)
(* the wire (handleClient: Decode(&reqHeader); handleRequest -> handler that    *)
(* decodes its own body).  Objects (action records):                           *)
(*   [a |-> "hdr",  cmd, seq]   a request header {Command, Seq}                 *)
(*   [a |-> "body", cmd, v]     a well-formed body map of command cmd; v = 1:   *)
(*                              handshake version 1 / the right key; v = 0: a   *)
(*                              wrong key / handshake version 0; handshake v =  *)
(*                              2, 3: unsupported non-zero versions (2, 2^31-1) *)
(*   [a |-> "junk"]             a msgpack integer (not a map)                   *)
(*   [a |-> "close"]            the client hangs up; the harness waits until    *)
(*                              the server has deregistered the connection      *)
(*   [a |-> "batch", objs]      PIPELINING: the objects objs (complete requests)  *)
(*                              are written with ONE write before anything is   *)
(*                              read, so they all sit in the server's read      *)
(*                              buffer while the first one is handled           *)
(*   [a |-> "conf", keyed]      first step: agent with / without an auth key    *)
(* What the code does with them (modelled as it is):                           *)
(*  * the header variable is reused: a body map read as a header has neither    *)
(*    Command nor Seq, so the PREVIOUS command and Seq are dispatched again;    *)
(*  * a command rejected for missing authentication does not consume its body   *)
(*    (the body is the next "header"); before the handshake the rejection also  *)
(*    closes the connection;                                                    *)
(*  * a handler whose body is absent decodes the next header as its body: all   *)
(*    request fields stay zero ("zero" body class);                             *)
(*  * a non-map object closes the connection without a reply.                   *)
(*                                                                             *)
(* S   = server side of the connection, obs = what the harness observes per     *)
(* object: replies [seq, err, kind] (kind = kind of the data body, "" = none),  *)
(* eff = effects seen on the real agent (user event / query / leave intents in  *)
(* the broadcast queue, tags, dials, handler registrations, key queries), srec  *)
(* = number of stream records received, closed = EOF seen.                      *)
(* M   = monitor state for property C24, computed from action records and       *)
(* observations only.                                                          *)
EXTENDS Integers, Sequences, FiniteSets, TLC

CONSTANTS MaxObjs        \* objects per connection

VARIABLES S, M, obs, last, steps, cst

vars == <<S, M, obs, last, steps, cst>>

Cmds == { "handshake", "auth", "event", "force-leave", "join", "members", "members-filtered",
          "stream", "monitor", "stop", "leave", "query", "respond", "install-key", "use-key",
          "remove-key", "list-keys", "tags", "stats", "get-coordinate", "bogus" }
NoBody == { "members", "leave", "list-keys", "stats", "bogus" }
StreamKinds == { "qrec", "log", "uev", "mev", "qev" }

------------------------------------------------------------------------------
(* Server *)
NewS(keyed) == [ keyed |-> keyed, open |-> TRUE, ver |-> 0, auth |-> FALSE, wait |-> FALSE,
                 lh |-> [cmd |-> "", seq |-> 0], mon |-> FALSE, strs |-> {}, dead |-> FALSE ]

Ok(seq, k) == << [seq |-> seq, err |-> 0, kind |-> k] >>
Er(seq, k) == << [seq |-> seq, err |-> 1, kind |-> k] >>
R(s, rep, eff) == [S |-> s, rep |-> rep, eff |-> eff]

\* handler of cmd with decoded body class b \in {"v1", "v0", "zero"}
Exec(s0, cmd, seq, b) ==
  LET s == [s0 EXCEPT !.wait = FALSE] IN
  CASE cmd = "handshake" ->
         IF b = "v1" /\ s.ver = 0 THEN R([s EXCEPT !.ver = 1], Ok(seq, ""), {})
         ELSE R(s, Er(seq, ""), {})
    [] cmd = "auth" ->
         IF (s.keyed /\ b = "v1") \/ (~s.keyed /\ b \in {"zero", "empty"})     \* "empty": a body with AuthKey ""
         THEN R([s EXCEPT !.auth = TRUE], Ok(seq, ""), {})
         ELSE R(s, Er(seq, ""), {})
    [] cmd = "event"            -> R(s, Ok(seq, ""), {"event"})
    [] cmd = "force-leave"      -> R(s, Ok(seq, ""), {"fleave"})
    [] cmd = "join"             -> IF b = "zero" THEN R(s, Ok(seq, "join"), {})
                                   ELSE R(s, Er(seq, "join"), {"join"})
    [] cmd \in {"members", "members-filtered"} -> R(s, Ok(seq, "members"), {})
    [] cmd = "stream"           -> IF seq \in s.strs THEN R(s, Er(seq, ""), {})      \* "Stream with given sequence exists"
                                   ELSE R([s EXCEPT !.strs = @ \cup {seq}], Ok(seq, ""), {"reg"})
    [] cmd = "monitor"          -> IF b = "zero" \/ s.mon THEN R(s, Er(seq, ""), {})
                                   ELSE R([s EXCEPT !.mon = TRUE], Ok(seq, ""), {"reg"})
    [] cmd = "stop"             -> R(s, Ok(seq, ""), {})
    [] cmd = "leave"            -> R([s EXCEPT !.dead = TRUE], Ok(seq, ""), {"leave"})
    [] cmd = "query"            -> R(s, Ok(seq, ""), {"query"})
    [] cmd = "respond"          -> R(s, Er(seq, ""), {})
    [] cmd \in {"install-key", "use-key", "remove-key", "list-keys"} -> R(s, Er(seq, "keys"), {"keys"})
    [] cmd = "tags"             -> IF b = "zero" THEN R(s, Ok(seq, ""), {}) ELSE R(s, Ok(seq, ""), {"tags"})
    [] cmd = "stats"            -> R(s, Ok(seq, "stats"), {})
    [] cmd = "get-coordinate"   -> R(s, Ok(seq, "coord"), {})
    [] OTHER                    -> R([s EXCEPT !.open = FALSE], Er(seq, ""), {})   \* unsupported command

\* handleRequest after a header with effective command and Seq
Dispatch(s, cmd, seq) ==
  IF cmd # "handshake" /\ s.ver = 0 THEN R([s EXCEPT !.open = FALSE], Er(seq, ""), {})
  ELSE IF s.keyed /\ ~s.auth /\ cmd \notin {"auth", "handshake"} THEN R(s, Er(seq, ""), {})
  ELSE IF cmd \in NoBody \/ cmd \notin Cmds THEN Exec(s, cmd, seq, "zero")
  ELSE R([s EXCEPT !.wait = TRUE], <<>>, {})

Recv(s, o) ==
  IF ~s.open \/ s.dead THEN R(s, <<>>, {})
  ELSE IF o.a = "junk" THEN R([s EXCEPT !.open = FALSE], <<>>, {})
  ELSE IF s.wait THEN
         Exec(s, s.lh.cmd, s.lh.seq,
              IF o.a = "body" /\ o.cmd = s.lh.cmd
              THEN (IF o.v = 1 THEN "v1" ELSE IF o.cmd = "auth" /\ o.v = 2 THEN "empty" ELSE "v0") ELSE "zero")
  ELSE LET lh == IF o.a = "hdr" THEN [cmd |-> o.cmd, seq |-> o.seq] ELSE s.lh
       IN  Dispatch([s EXCEPT !.lh = lh], lh.cmd, lh.seq)

ObsOf(s, r) == [ rep |-> r.rep, eff |-> r.eff, srec |-> 0, closed |-> ~r.S.open ]
NoObs == [ rep |-> <<>>, eff |-> {}, srec |-> 0, closed |-> FALSE ]

------------------------------------------------------------------------------
(* Property C24 as a monitor over (action record, observation).                *)
(* Readings (weakest reasonable):                                              *)
(*  - "successful handshake" / "correct key presented": an error-free reply     *)
(*    carrying the Seq of a handshake (auth) header that was immediately        *)
(*    followed by a version-1 (right-key) body.                                 *)
(*  - "takes effect or returns data": an effect observed on the agent, a reply  *)
(*    with a data body, or a stream record, while that has not happened.        *)
(*  - "each rejected command gets an error reply": with a key configured, after *)
(*    the handshake and before authentication, every header of another command  *)
(*    sent while the client's framing is intact (every earlier request complete *)
(*    and well-formed) is answered by an error header with its Seq; before the  *)
(*    handshake the server hangs up after the first rejection, so only the      *)
(*    first rejected header is owed a reply.  Judged when the connection ends.  *)
(*  - "(and accepted ones their reply)": every complete request sent with       *)
(*    intact framing on a live connection that the server has no reason to      *)
(*    refuse gets a reply with its Seq (C24_no_reply); replies to pipelined     *)
(*    requests come in request order (C24_reply_order).                         *)
NewM == [ keyed |-> FALSE, hsSeqs |-> {}, auSeqs |-> {}, hsOK |-> FALSE, authOK |-> FALSE,
          sync |-> TRUE, cur |-> [cmd |-> "", seq |-> 0], owed |-> {}, rej |-> FALSE,
          owedR |-> {}, ending |-> FALSE, closed |-> FALSE, bad |-> {} ]

SeqsWith(o, e) == { o.rep[i].seq : i \in { j \in DOMAIN o.rep : o.rep[j].err = e } }
HasData(o) == o.srec > 0 \/ \E i \in DOMAIN o.rep : o.rep[i].kind # ""

MonStep(m, act, o) ==
  IF act.a = "conf" THEN [NewM EXCEPT !.keyed = act.keyed]
  ELSE
  LET took   == o.eff # {} \/ HasData(o)
      b1     == IF ~m.hsOK /\ took THEN {"C24_pre_handshake_effect"} ELSE {}
      b2     == IF m.keyed /\ m.hsOK /\ ~m.authOK /\ took THEN {"C24_pre_auth_effect"} ELSE {}
      isHdr  == act.a = "hdr"
      isBody == act.a = "body"
      \* requests completed by this object
      hsS    == IF isBody /\ act.cmd = "handshake" /\ act.v = 1 /\ m.cur.cmd = "handshake"
                THEN m.hsSeqs \cup {m.cur.seq} ELSE m.hsSeqs
      auS    == IF isBody /\ act.cmd = "auth" /\ act.v = 1 /\ m.cur.cmd = "auth"
                THEN m.auSeqs \cup {m.cur.seq} ELSE m.auSeqs
      sync2  == CASE isHdr  -> m.sync /\ m.cur.cmd = ""
                  [] isBody -> m.sync /\ m.cur.cmd = act.cmd
                  [] act.a = "junk" -> FALSE
                  [] OTHER  -> m.sync
      cur2   == IF isHdr /\ act.cmd \notin NoBody THEN [cmd |-> act.cmd, seq |-> act.seq]
                ELSE [cmd |-> "", seq |-> 0]
      owePre == isHdr /\ sync2 /\ ~m.closed /\ ~m.hsOK /\ act.cmd # "handshake" /\ ~m.rej
      oweAu  == isHdr /\ sync2 /\ ~m.closed /\ m.keyed /\ m.hsOK /\ ~m.authOK
                  /\ act.cmd \notin {"handshake", "auth"}
      owed2  == ((IF owePre \/ oweAu THEN m.owed \cup {act.seq} ELSE m.owed)) \ SeqsWith(o, 1)
      b3     == IF act.a = "close" /\ owed2 # {} THEN {"C24_no_error_reply"} ELSE {}
      \* a request that is complete with this object (framing intact, connection alive) and that the server has no
      \* reason to refuse or to leave unanswered: any reply with its Seq will do (C24_no_reply, judged at close).
      \* After an unknown command or a leave the server hangs up / the agent is gone: nothing more is owed.
      live   == sync2 /\ ~m.closed /\ ~m.ending /\ ~m.rej
      passed == m.hsOK /\ (~m.keyed \/ m.authOK)
      doneHd == isHdr /\ act.cmd \in NoBody /\ live /\ passed
      doneBd == isBody /\ live /\ m.cur.cmd = act.cmd
                  /\ (act.cmd = "handshake" \/ (act.cmd = "auth" /\ m.hsOK) \/ passed)
      owedR2 == ((IF doneHd THEN m.owedR \cup {act.seq} ELSE IF doneBd THEN m.owedR \cup {m.cur.seq} ELSE m.owedR))
                  \ (SeqsWith(o, 0) \cup SeqsWith(o, 1))
      b4     == IF act.a = "close" /\ owedR2 # {} THEN {"C24_no_reply"} ELSE {}
      ending2 == m.ending \/ (doneHd /\ act.cmd \in {"bogus", "leave"})
  IN [ m EXCEPT !.hsSeqs = hsS, !.auSeqs = auS,
                !.hsOK   = m.hsOK \/ (hsS \cap SeqsWith(o, 0) # {}),
                !.authOK = m.authOK \/ (auS \cap SeqsWith(o, 0) # {}),
                !.sync = sync2, !.cur = cur2, !.owed = owed2,
                !.rej = m.rej \/ owePre,
                !.owedR = owedR2, !.ending = ending2,
                !.closed = m.closed \/ o.closed,
                !.bad = m.bad \cup b1 \cup b2 \cup b3 \cup b4 ]

\* A batch is judged object by object.  Replies are attributed through their Seq to the LAST object of the request
\* they answer (so that a data reply behind a successful auth of the same batch is judged as authenticated);
\* effects, stream records and closure are only known for the batch as a whole and go with its last object.
\* C24_reply_order: the replies come in the order of the requests.
ReqSeq(objs, i) == IF objs[i].a = "hdr" THEN objs[i].seq
                   ELSE IF i > 1 /\ objs[i - 1].a = "hdr" THEN objs[i - 1].seq ELSE 0
ReqEnd(objs, i) ==
  \/ objs[i].a = "hdr" /\ ~(i < Len(objs) /\ objs[i + 1].a = "body" /\ objs[i + 1].cmd = objs[i].cmd)
  \/ objs[i].a = "body" /\ i > 1 /\ objs[i - 1].a = "hdr" /\ objs[i - 1].cmd = objs[i].cmd
BatchSeqs(objs) == { ReqSeq(objs, i) : i \in { j \in DOMAIN objs : ReqEnd(objs, j) } }
Part(objs, o, i) ==
  LET n == Len(objs) IN
  [ rep |-> SelectSeq(o.rep, LAMBDA r : (ReqEnd(objs, i) /\ r.seq = ReqSeq(objs, i)) \/ (i = n /\ r.seq \notin BatchSeqs(objs))),
    eff |-> IF i = n THEN o.eff ELSE {}, srec |-> IF i = n THEN o.srec ELSE 0, closed |-> i = n /\ o.closed ]
RECURSIVE MonFold(_, _, _, _)
MonFold(m, objs, o, i) == IF i > Len(objs) THEN m ELSE MonFold(MonStep(m, objs[i], Part(objs, o, i)), objs, o, i + 1)
PosOfSeq(objs, s) == IF \E i \in DOMAIN objs : objs[i].a = "hdr" /\ objs[i].seq = s
                     THEN CHOOSE i \in DOMAIN objs : objs[i].a = "hdr" /\ objs[i].seq = s ELSE 0
MonBatch(m, objs, o) ==
  LET m2 == MonFold(m, objs, o, 1)
      inOrder == \A i, j \in DOMAIN o.rep : i < j => PosOfSeq(objs, o.rep[i].seq) <= PosOfSeq(objs, o.rep[j].seq)
  IN  [m2 EXCEPT !.bad = @ \cup (IF inOrder THEN {} ELSE {"C24_reply_order"})]
MonAct(m, act, o) == IF act.a = "batch" THEN MonBatch(m, act.objs, o) ELSE MonStep(m, act, o)

------------------------------------------------------------------------------
(* Actions.  cst = command whose body the (disciplined) client may send next.  *)
Hints(r, s) == [ w |-> Len(r.rep), reg |-> IF "reg" \in r.eff THEN 1 ELSE 0,
                 cl |-> IF s.open /\ ~r.S.open THEN 1 ELSE 0 ]

Conf(k) ==
  /\ steps = 0
  /\ S' = NewS(k) /\ obs' = NoObs /\ cst' = ""
  /\ last' = [a |-> "conf", keyed |-> k]
  /\ M' = MonStep(M, last', obs')
  /\ steps' = 1

Send(o) ==
  /\ steps >= 1 /\ steps <= MaxObjs /\ last.a # "close" /\ ~S.dead
  /\ LET r == Recv(S, o) IN
       /\ S' = r.S
       /\ obs' = ObsOf(S, r)
       /\ last' = o @@ Hints(r, S)
       /\ M' = MonStep(M, o, obs')
  /\ steps' = steps + 1

\* the server reads the batch object by object, exactly as if they had been sent one after the other
RECURSIVE RecvAll(_, _, _)
RecvAll(r, objs, i) ==
  IF i > Len(objs) THEN r
  ELSE LET x == Recv(r.S, objs[i]) IN RecvAll(R(x.S, r.rep \o x.rep, r.eff \cup x.eff), objs, i + 1)
Batch(objs) ==
  /\ steps >= 1 /\ steps <= MaxObjs /\ last.a # "close" /\ ~S.dead /\ cst = ""
  /\ LET r == RecvAll(R(S, <<>>, {}), objs, 1) IN
       /\ S' = r.S
       /\ obs' = ObsOf(S, r)
       /\ last' = [a |-> "batch", objs |-> objs] @@ Hints(r, S)
       /\ M' = MonBatch(M, objs, obs')
  /\ steps' = steps + 1 /\ cst' = ""

\* requests as object sequences; Seqs inside a batch are 100 * step + position
RH(c, q)    == [a |-> "hdr", cmd |-> c, seq |-> q]
Rq(c, v, q) == IF c \in NoBody THEN <<RH(c, q)>> ELSE <<RH(c, q), [a |-> "body", cmd |-> c, v |-> v]>>
B2(r1, r2)     == Rq(r1[1], r1[2], 100 * steps + 1) \o Rq(r2[1], r2[2], 100 * steps + 2)
B3(r1, r2, r3) == B2(r1, r2) \o Rq(r3[1], r3[2], 100 * steps + 3)
\* the exhaustive configuration pipelines a small alphabet, the generator a large one (Gen_AgentIPC)
MCFirst == { <<"members", 1>>, <<"event", 1>> }
MCNext  == { <<"auth", 1>>, <<"stats", 1>> }

\* body variants: handshake 1 = version 1 (the only supported one), 0 = version 0, 2 = version 2, 3 = a large
\* version (2^31-1) -- all three well-formed but unsupported: error reply, the connection stays un-handshaken;
\* auth 1 = right key, 0 = wrong key, 2 = the empty key ""; every other command 1 (0 = the same valid body).
BodyVs(c) == IF c = "handshake" THEN {0, 1, 2, 3} ELSE IF c = "auth" THEN {0, 1, 2} ELSE {0, 1}
SendHdr(c)  == Send([a |-> "hdr", cmd |-> c, seq |-> steps]) /\ cst' = (IF c \in NoBody THEN "" ELSE c)
SendBody(v) == cst # "" /\ Send([a |-> "body", cmd |-> cst, v |-> v]) /\ cst' = ""
SendJunk    == Send([a |-> "junk"]) /\ cst' = ""
Close ==
  /\ steps >= 1 /\ last.a # "close"
  /\ S' = [S EXCEPT !.open = FALSE] /\ cst' = ""
  /\ obs' = [NoObs EXCEPT !.closed = TRUE]
  /\ last' = [a |-> "close"]
  /\ M' = MonStep(M, last', obs')
  /\ steps' = steps + 1

Init == /\ S = NewS(FALSE) /\ M = NewM /\ obs = NoObs /\ last = [a |-> "init"] /\ steps = 0 /\ cst = ""

Next == \/ \E k \in BOOLEAN : Conf(k)
        \/ \E c \in Cmds : SendHdr(c)
        \/ \E v \in BodyVs(cst) : SendBody(v)
        \/ SendJunk
        \/ \E r2 \in MCNext : Batch(B2(<<"members", 1>>, r2))
        \/ \E r1 \in MCFirst : Batch(B3(r1, <<"auth", 1>>, <<"stats", 1>>))
        \/ Close

Spec == Init /\ [][Next]_vars

View == <<S, M, steps, cst>>
C24 == M.bad = {}
\* the monitor's ground truth agrees with the server model
Agree == /\ (M.hsOK => S.ver = 1)
         /\ (M.keyed /\ M.authOK => S.auth)
=============================================================================
