----------------------------- MODULE AgentTags -----------------------------
(* Tag edits over RPC and the tags file:                                        *)
(*   cmd/serf/command/agent/ipc.go handleTags   new = (conf.Tags minus DeleteTags) then Tags copied over it  *)
(*   cmd/serf/command/agent/agent.go SetTags    serf.SetTags(new) first, writeTagsFile(new) only if accepted  *)
(*                                              (before 56d36c0 the file was written first: finding           *)
(*                                              C30-rejected-edit-persisted, now fixed)                       *)
(*   serf/serf.go SetTags                       encoded size > 512 (memberlist.MetaMaxSize) => error, else    *)
(*                                              config.Tags = new; UpdateNode                                 *)
(*   agent.go loadTagsFile (agent.Create)       conf.Tags = JSON of the file                                   *)
(* Keys are 1..NK (all two bytes long on the wire), values are ids: 1, 2 small  *)
(* (one byte), 3 = 249 bytes, 4 = 250 bytes; 0 = absent.  The encoded size is   *)
(* 1 magic byte + 1 map header + per entry 3 (key) + 2 / 252 / 253: two values  *)
(* of 249 bytes are exactly at the limit (512), 249 + 250 is one byte over.     *)
(*                                                                             *)
(* obs = what the harness observes after the reply: err, the effective tags     *)
(* (Serf LocalMember), the tags the agent's own loader (agent.Create with the   *)
(* same tags file) restores, whether the loader succeeded, and whether the      *)
(* serf configuration's tags equal the effective ones.                          *)
EXTENDS Integers, Sequences, FiniteSets, TLC

CONSTANTS NK, Vals, MaxSteps
Keys == 1..NK
Limit == 512

VARIABLES tags, file, obs, M, last, steps
vars == <<tags, file, obs, M, last, steps>>

Ent(v) == CASE v = 0 -> 0 [] v \in {1, 2} -> 5 [] v = 3 -> 255 [] v = 4 -> 256 [] OTHER -> 0
RECURSIVE Sum(_, _)
Sum(m, k) == IF k = 0 THEN 0 ELSE Ent(m[k]) + Sum(m, k - 1)
Size(m) == 2 + Sum(m, NK)

\* the documented result of an edit: previous minus deleted plus set, set keys winning
Apply(old, set, del) == [k \in Keys |-> IF set[k] # 0 THEN set[k] ELSE IF del[k] = 1 THEN 0 ELSE old[k]]

Initial == [k \in Keys |-> IF k = 1 THEN 1 ELSE 0]   \* what the tags file holds when the agent starts

ObsOf(t, f, e) == [err |-> e, tags |-> t, file |-> f, fileok |-> TRUE, cfgeq |-> TRUE]

------------------------------------------------------------------------------
(* Property C30 as a monitor over (edit, observation before, observation after) *)
(* Readings: an edit whose documented result fits the limit must be accepted    *)
(* and produce exactly that result; an accepted edit must produce exactly that  *)
(* result; after EVERY edit (accepted or rejected) the tags the agent's loader  *)
(* restores from the tags file equal the tags in effect.                        *)
NewM == [prev |-> Initial, bad |-> {}, tags |-> {}]
MonStep(m, act, o) ==
  LET want == Apply(m.prev, act.set, act.del)
      fits == Size(want) <= Limit
      b1 == IF (fits /\ o.err # 0) \/ (o.err = 0 /\ o.tags # want) THEN {"C30_edit_result"} ELSE {}
      b2 == IF ~o.fileok \/ o.file # o.tags THEN {"C30_persisted"} ELSE {}
  IN  [prev |-> o.tags, bad |-> b1 \cup b2, tags |-> IF o.err # 0 THEN {"rejected_edit"} ELSE {}]

------------------------------------------------------------------------------
Edit(set, del) ==
  LET new == Apply(tags, set, del) IN
  /\ steps < MaxSteps
  /\ IF Size(new) > Limit THEN tags' = tags /\ file' = file /\ obs' = ObsOf(tags, file, 1)   \* rejected: nothing written
                          ELSE tags' = new  /\ file' = new  /\ obs' = ObsOf(new, new, 0)      \* serf first, then the file
  /\ last' = [a |-> "edit", set |-> set, del |-> del]
  /\ M' = MonStep(M, last', obs')
  /\ steps' = steps + 1

Sets == [Keys -> {0} \cup Vals]
Dels == [Keys -> {0, 1}]

Init == tags = Initial /\ file = Initial /\ obs = ObsOf(Initial, Initial, 0) /\ M = NewM
        /\ last = [a |-> "init"] /\ steps = 0
Next == \E set \in Sets, del \in Dels : Edit(set, del)
Spec == Init /\ [][Next]_vars

View == <<tags, file, M.bad, M.tags, steps>>
C30 == M.bad = {}
TypeOK == M.prev = tags
=============================================================================
