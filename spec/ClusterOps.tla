----------------------------- MODULE ClusterOps -----------------------------
(* Operation-level model of a Serf cluster for property C01: which nodes run,    *)
(* which left gracefully, which crashed, which clusters were joined together,    *)
(* and whether the network is partitioned.  TLC generates fault scenarios from   *)
(* it; the harness runs them on 3-5 REAL Serf nodes over REAL memberlist (fast   *)
(* timers, in-process transport with partitions), heals the network, waits for   *)
(* the real cluster to become quiet and reports every running node's view.       *)
(* Converged (C01) is judged by TLC on that observed final line.                 *)
(*                                                                              *)
(* st[x]: 0 never started, 1 running, 2 left gracefully (and shut down), 3 dead  *)
(* view status: 0 absent, 1 alive, 2 leaving, 3 left, 4 failed                   *)
EXTENDS Integers, Sequences, FiniteSets, TLC

CONSTANTS NN, MaxOps,
          Snap        \* TRUE: every node keeps a snapshot file and re-joins the members it last knew alive when restarted
Nodes == 0..(NN - 1)

VARIABLES st, comp, know, part, ops, last, M, passive, unheard
vars == <<st, comp, know, part, ops, last, M, passive, unheard>>
\* unheard: nodes that came back after a graceful leave by a join which members holding the old leave could not hear
\* (they were cut off): those members keep exchanging the old leave by state sync, which raises its time by one per
\* exchange, past the time of the join they missed
\* passive: nodes started again after a graceful leave that have not issued a join of their own since (they were only
\* joined BY others, so they never broadcast a join intent newer than their old leave)
\* know[n][x]: what running node n should know about x: 0 nothing, 1 x is a live member of n's cluster,
\* 2 the incarnation of x that n knew left gracefully, 3 the incarnation of x that n knew died,
\* 5 the incarnation of x that left gracefully while n was cut off from it

Running == { x \in Nodes : st[x] = 1 }
SameSide(x, y) == part = {} \/ ((x \in part) <=> (y \in part))
Blank == [x \in Nodes |-> 0]

\* A restart after a CRASH is found again by its old peers (their reconnect loop dials failed members), so
\* it comes back into its old cluster; a start after a graceful leave (or a first start) is a fresh node
\* that nobody dials: its old peers keep what they knew about the previous incarnation.  With a snapshot a
\* crashed node also re-joins by itself whoever runs now at the address of a member it last knew alive
\* (handleRejoin; what a node knows is frozen while it is down: its snapshot cannot learn); a snapshot that
\* ends with a graceful leave re-joins nobody.
\* Knowledge value 6 ("uncertain acquaintance"): two members that were brought into one cluster while a partition
\* kept them apart.  Whether n ever hears of m depends on what the go-between still believed about m (memberlist
\* does not pass on members it holds dead): if m runs in n's cluster when the healed network is quiet n must list
\* it alive; if m went down before, absent, failed and left are all legitimate.
Finders(x) == { m \in Nodes \ {x} : st[m] = 1 /\ know[m][x] = 3 }
Targets(x) == IF Snap THEN { m \in Nodes \ {x} : st[m] = 1 /\ know[x][m] = 1 /\ SameSide(x, m) } ELSE {}
Meet(n, m, old) == IF SameSide(n, m) \/ old = 1 THEN 1 ELSE 6
Start(x) ==
  /\ st[x] # 1
  \* not generated: a restart after a graceful leave that some running member has not learned of yet (5).  That member
  \* holds the old incarnation as failed and dials it; whether it finds the new node before state sync tells it of the
  \* leave is a race with two legitimate outcomes (joined again / stays apart), which this deterministic model does not carry.
  /\ ~(st[x] = 2 /\ \E n \in Nodes \ {x} : st[n] = 1 /\ know[n][x] = 5)
  \* likewise not generated: a restart of a node about which a running member holds an uncertain acquaintance (6: it may
  \* or may not be dialling the old incarnation), or whose own snapshot may or may not list a running member (6)
  /\ ~(st[x] \in {2, 3} /\ \E n \in Nodes \ {x} : st[n] = 1 /\ know[n][x] = 6)
  /\ ~(st[x] = 3 /\ Snap /\ \E m \in Nodes \ {x} : st[m] = 1 /\ know[x][m] = 6)
  /\ st' = [st EXCEPT ![x] = 1]
  /\ IF st[x] = 3 /\ (Finders(x) \cup Targets(x)) # {}
       THEN LET grp  == UNION { comp[m] : m \in Finders(x) \cup Targets(x) } \cup {x}
                live == { m \in grp : st[m] = 1 } \cup {x} IN
            /\ comp' = [m \in Nodes |-> IF m \in grp THEN grp ELSE comp[m] \ {x}]
            /\ know' = [n \in Nodes |->
                          IF n = x THEN [m \in Nodes |-> IF m = x THEN 1 ELSE IF m \in live THEN Meet(x, m, 0) ELSE 0]
                          ELSE IF n \in live
                                 THEN [m \in Nodes |-> IF m \in live /\ m # n /\ know[n][m] # 1 THEN Meet(n, m, 0) ELSE know[n][m]]
                                 ELSE know[n]]
       ELSE /\ comp' = [m \in Nodes |-> IF m = x THEN {x} ELSE comp[m] \ {x}]
            /\ know' = [know EXCEPT ![x] = [Blank EXCEPT ![x] = 1]]
  /\ last' = [a |-> "start", x |-> x]
  /\ passive' = IF st[x] = 2 THEN passive \cup {x} ELSE passive \ {x}
  /\ unheard' = unheard \ {x}
  /\ UNCHANGED part
Join(x, y) ==
  /\ x # y /\ st[x] = 1 /\ st[y] = 1 /\ SameSide(x, y) /\ y \notin comp[x]
  /\ LET grp == comp[x] \cup comp[y]
         live == { m \in grp : st[m] = 1 } IN
     /\ comp' = [m \in Nodes |-> IF m \in grp THEN grp ELSE comp[m]]
     /\ know' = [n \in Nodes |-> IF n \in live THEN [m \in Nodes |-> IF m \in live /\ know[n][m] # 1 THEN Meet(n, m, 0) ELSE know[n][m]] ELSE know[n]]
  /\ last' = [a |-> "join", x |-> x, y |-> y]
  /\ passive' = passive \ {x}
  /\ unheard' = unheard \cup { m \in comp[x] \cup comp[y] : st[m] = 1 /\ \E n \in Nodes : st[n] = 1 /\ know[n][m] = 2 /\ ~SameSide(n, m) }
  /\ UNCHANGED <<st, part>>
Leave(x) ==         \* graceful leave followed by shutdown, issued while connected to a running member of its cluster
  /\ st[x] = 1 /\ \E y \in (comp[x] \cap Running) \ {x} : SameSide(x, y)
  /\ st' = [st EXCEPT ![x] = 2]
  \* members cut off from x at that moment (5) learn of the leave only by state sync after the heal; what a node
  \* that is down knew stays as it was
  /\ know' = [n \in Nodes |-> IF n # x /\ st[n] = 1 /\ know[n][x] = 1 THEN [know[n] EXCEPT ![x] = IF SameSide(n, x) THEN 2 ELSE 5] ELSE know[n]]
  /\ last' = [a |-> "leave", x |-> x]
  /\ UNCHANGED <<comp, part, passive, unheard>>
Crash(x) ==
  /\ st[x] = 1
  /\ st' = [st EXCEPT ![x] = 3]
  /\ know' = [n \in Nodes |-> IF n # x /\ st[n] = 1 /\ know[n][x] = 1 THEN [know[n] EXCEPT ![x] = 3] ELSE know[n]]
  /\ last' = [a |-> "crash", x |-> x]
  /\ UNCHANGED <<comp, part, passive, unheard>>
Partition(S) ==
  /\ part = {} /\ S # {} /\ S # Nodes
  /\ part' = S
  /\ last' = [a |-> "partition", s |-> [i \in 1..NN |-> IF (i - 1) \in S THEN 1 ELSE 0]]
  /\ UNCHANGED <<st, comp, know, passive, unheard>>
Heal ==
  /\ part # {} /\ part' = {}
  /\ last' = [a |-> "heal"]
  /\ UNCHANGED <<st, comp, know, passive, unheard>>
Wait ==
  /\ last' = [a |-> "wait"]
  /\ UNCHANGED <<st, comp, know, part, passive, unheard>>

------------------------------------------------------------------------------
(* C01 on the observed final views.  v[n+1][x+1] = status node n reports for x.  *)
\* 5: x left gracefully while n was cut off from it.  n must end up reporting it left if a witness of the leave
\* (a member that recorded it as left) is still running in n's cluster when the healed network is quiet -- state
\* sync carries it --, otherwise failed is all n can know.
Witnessed(n, x) == \E m \in Nodes \ {n, x} : st[m] = 1 /\ m \in comp[n] /\ know[m][x] = 2
Allowed(n, x) ==
  CASE know[n][x] = 1 -> {1}
    [] know[n][x] = 2 -> {3}
    [] know[n][x] = 3 -> {4}
    [] know[n][x] = 5 -> IF Witnessed(n, x) THEN {3} ELSE {3, 4}
    [] know[n][x] = 6 -> IF st[x] = 1 /\ x \in comp[n] THEN {1} ELSE {0, 3, 4}
    [] OTHER          -> {0}
Wrong(v) == { <<n, x>> \in Nodes \X Nodes : st[n] = 1 /\ n # x /\ v[n + 1][x + 1] \notin Allowed(n, x) }
SelfWrong(v) == { n \in Nodes : st[n] = 1 /\ v[n + 1][n + 1] # 1 }

MonInit == M = [bad |-> {}, wrong |-> {}, tags |-> {}]
MonQuiet(m, v) ==
  [ bad |-> m.bad \cup (IF Wrong(v) = {} THEN {} ELSE {"C01_view_not_converged"})
                  \cup (IF SelfWrong(v) = {} THEN {} ELSE {"C01_self_not_alive"}),
    wrong |-> Wrong(v),
    \* every wrong view is explained by a recorded finding: it shows a re-joined node still leaving/left, and that node
    \* was brought back passively (its peers hold the old leave claim, nothing newer was ever broadcast) or by a join
    \* that the holders of the old leave could not hear (the old leave's time kept growing by state sync meanwhile)
    tags |-> LET expl(w) == IF v[w[1] + 1][w[2] + 1] \in {2, 3} /\ w[2] \in passive THEN "passive_rejoin_after_leave"
                            ELSE IF v[w[1] + 1][w[2] + 1] \in {2, 3} /\ w[2] \in unheard THEN "rejoin_unheard_by_holders_of_old_leave"
                            ELSE "none"
             IN  IF Wrong(v) # {} /\ \A w \in Wrong(v) : expl(w) # "none" THEN { expl(w) : w \in Wrong(v) } ELSE {} ]

Init == /\ st = [x \in Nodes |-> 0] /\ comp = [x \in Nodes |-> {x}] /\ know = [x \in Nodes |-> Blank]
        /\ part = {} /\ ops = 0 /\ last = [a |-> "init"] /\ MonInit /\ passive = {} /\ unheard = {}

Op == \/ \E x \in Nodes : Start(x) \/ Leave(x) \/ Crash(x)
      \/ \E x, y \in Nodes : Join(x, y)
      \/ \E S \in SUBSET Nodes : Partition(S)
      \/ Heal \/ Wait
Next == ops < MaxOps /\ Op /\ ops' = ops + 1 /\ UNCHANGED M
Spec == Init /\ [][Next]_vars
=============================================================================
