-------------------------- MODULE CoalesceMember --------------------------
(* serf/coalesce_member.go -- memberEventCoalescer, driven synchronously       *)
(* (Coalesce / Flush), which is exactly what coalesceLoop does with it.        *)
(*                                                                             *)
(* Names are 1..NM, kinds are 1..5 (1 join, 2 leave, 3 failed, 4 update,       *)
(* 5 reap); 0 = "no entry".  One action per method call.                       *)
(*                                                                             *)
(* Model variables   latest   = c.latestEvents  (name -> kind)                 *)
(*                   lastSent = c.lastEvents    (name -> kind)                 *)
(*                   out      = what the last Flush put on outCh, as the       *)
(*                              sequence of <<name, kind>> sorted by name      *)
(* Monitor variables (property C17, updated only from the action record and    *)
(* the OBSERVED output, so the same text runs on the model and on traces of    *)
(* the real coalescer):                                                        *)
(*                   pend     = latest kind received since the previous flush  *)
(*                   appSaw   = kind the application last saw per member       *)
(*                   lastKind = kind of the latest event ever received         *)
(*                   bad      = names of the C17 clauses found false           *)
EXTENDS Integers, Sequences, FiniteSets, TLC

CONSTANTS NM          \* number of member names

Names  == 1..NM
Kinds  == 1..5
Update == 4

VARIABLES latest, lastSent, out, last,
          pend, appSaw, lastKind, bad

mvars   == <<latest, lastSent, out, last>>
monvars == <<pend, appSaw, lastKind, bad>>
vars    == <<mvars, monvars>>

None == [n \in Names |-> 0]

\* member lists a MemberEvent may carry: every non-empty strictly increasing sequence of names
RECURSIVE IncSeqs(_)
IncSeqs(lo) == IF lo > NM THEN {<<>>}
               ELSE IncSeqs(lo + 1) \cup { <<lo>> \o s : s \in IncSeqs(lo + 1) }
MemberLists == IncSeqs(1) \ {<<>>}

SeqToSet(s) == { s[i] : i \in DOMAIN s }

\* sorted (by name) sequence of <<n, f[n]>> for the names in S
RECURSIVE SortedPairs(_, _, _)
SortedPairs(f, S, lo) ==
  IF lo > NM THEN <<>>
  ELSE (IF lo \in S THEN << <<lo, f[lo]>> >> ELSE <<>>) \o SortedPairs(f, S, lo + 1)

------------------------------------------------------------------------------
(* Model actions *)

Coalesce(ms, k) ==
  /\ latest' = [n \in Names |-> IF n \in SeqToSet(ms) THEN k ELSE latest[n]]
  /\ out' = <<>>
  /\ UNCHANGED lastSent
  /\ last' = [a |-> "coalesce", ms |-> ms, k |-> k]

Reported == { n \in Names : /\ latest[n] # 0
                            /\ ~(lastSent[n] = latest[n] /\ latest[n] # Update) }

Flush ==
  /\ out' = SortedPairs(latest, Reported, 1)
  /\ lastSent' = [n \in Names |-> IF n \in Reported THEN latest[n] ELSE lastSent[n]]
  /\ latest' = None                        \* every flush starts a fresh quantum
  /\ last' = [a |-> "flush"]

ModelInit == latest = None /\ lastSent = None /\ out = <<>> /\ last = [a |-> "init"]

ModelNext == \/ \E ms \in MemberLists, k \in Kinds : Coalesce(ms, k)
             \/ Flush

------------------------------------------------------------------------------
(* Property C17 as a monitor over (action, observed output) *)

OutNames(o) == { o[i][1] : i \in DOMAIN o }
KindIn(o, n) == (CHOOSE i \in DOMAIN o : o[i][1] = n) \* index of n's first report
NewSaw(o) == [n \in Names |-> IF n \in OutNames(o) THEN o[KindIn(o, n)][2] ELSE appSaw[n]]

FlushClauses(o) ==
  LET once     == \A i, j \in DOMAIN o : o[i][1] = o[j][1] => i = j
      wellf    == \A i \in DOMAIN o : o[i][1] \in Names /\ o[i][2] \in Kinds
      latestOk == \A i \in DOMAIN o : o[i][1] \in Names => pend[o[i][1]] = o[i][2]
      suppress == \A n \in Names :
                     pend[n] # 0 =>
                       ((n \in OutNames(o)) <=> ~(appSaw[n] = pend[n] /\ pend[n] # Update))
      sawLatest == \A n \in Names : lastKind[n] # 0 => NewSaw(o)[n] = lastKind[n]
  IN  (IF once      THEN {} ELSE {"member_reported_twice"})
      \cup (IF wellf     THEN {} ELSE {"malformed_report"})
      \cup (IF latestOk  THEN {} ELSE {"not_latest_or_no_new_event"})
      \cup (IF suppress  THEN {} ELSE {"suppression_rule"})
      \cup (IF sawLatest THEN {} ELSE {"app_saw_not_latest_kind"})

MonInit == pend = None /\ appSaw = None /\ lastKind = None /\ bad = {}

MonNext(act, o) ==
  IF act.a = "coalesce" THEN
       /\ pend'     = [n \in Names |-> IF n \in SeqToSet(act.ms) THEN act.k ELSE pend[n]]
       /\ lastKind' = [n \in Names |-> IF n \in SeqToSet(act.ms) THEN act.k ELSE lastKind[n]]
       /\ UNCHANGED <<appSaw, bad>>
  ELSE IF act.a = "flush" THEN
       /\ bad'    = bad \cup FlushClauses(o)
       /\ appSaw' = NewSaw(o)
       /\ pend'   = None
       /\ UNCHANGED lastKind
  ELSE UNCHANGED monvars

------------------------------------------------------------------------------
Init == ModelInit /\ MonInit
Next == ModelNext /\ MonNext(last', out')
Spec == Init /\ [][Next]_vars

C17 == bad = {}

TypeOK == /\ latest \in [Names -> 0..5] /\ lastSent \in [Names -> 0..5]
          /\ pend = latest /\ appSaw = lastSent     \* the monitor's ground truth and the model agree
=============================================================================
