--------------------------- MODULE CoalesceUser ---------------------------
(* serf/coalesce_user.go (userEventCoalescer) together with the ingest half of  *)
(* serf/coalesce.go (coalesceLoop: "if !c.Handle(e) { outCh <- e; continue }"). *)
(*                                                                             *)
(* Event names are 1..NU, Lamport times 0..MaxLT, every event fed gets the next *)
(* id (the driver puts it in the payload so outputs can be identified).         *)
(* cls: 1 coalescable user event, 2 non-coalescable user event, 3 member event, *)
(* 4 query.                                                                     *)
EXTENDS Integers, Sequences, FiniteSets, TLC

CONSTANTS NU, MaxLT, MaxEv

UNames == 1..NU

VARIABLES ev,      \* c.events: name -> [lt, ids]   (lt = -1: no entry)
          cnt,     \* number of events fed so far
          out,     \* [pass |-> ids put on outCh by this step without coalescing,
                   \*  fl   |-> name -> ids flushed by this step]
          last,
          since,   \* monitor: name -> sequence of <<id, lt>> coalescable events since the last flush
          bad

mvars   == <<ev, cnt, out, last>>
monvars == <<since, bad>>
vars    == <<mvars, monvars>>

NoEv  == [u \in UNames |-> [lt |-> -1, ids |-> <<>>]]
NoFl  == [u \in UNames |-> <<>>]

Feed(cls, u, lt) ==
  /\ cnt < MaxEv
  /\ cnt' = cnt + 1
  /\ LET id == cnt + 1 IN
     /\ last' = [a |-> "feed", cls |-> cls, u |-> u, lt |-> lt, id |-> id]
     /\ IF cls = 1
          THEN /\ out' = [pass |-> <<>>, fl |-> NoFl]
               /\ ev' = IF ev[u].lt < lt
                          THEN [ev EXCEPT ![u] = [lt |-> lt, ids |-> <<id>>]]
                          ELSE IF ev[u].lt = lt
                                 THEN [ev EXCEPT ![u].ids = Append(@, id)]
                                 ELSE ev
          ELSE /\ out' = [pass |-> <<id>>, fl |-> NoFl]
               /\ UNCHANGED ev

Flush ==
  /\ out' = [pass |-> <<>>, fl |-> [u \in UNames |-> ev[u].ids]]
  /\ ev' = NoEv
  /\ UNCHANGED cnt
  /\ last' = [a |-> "flush"]

ModelInit == ev = NoEv /\ cnt = 0 /\ out = [pass |-> <<>>, fl |-> NoFl] /\ last = [a |-> "init"]
ModelNext == \/ \E cls \in 1..4, u \in UNames, lt \in 0..MaxLT : Feed(cls, u, lt)
             \/ Flush

------------------------------------------------------------------------------
(* Property C18 as a monitor over (action, observed output) *)

MaxOf(s) == IF s = <<>> THEN -1
            ELSE CHOOSE m \in { s[i][2] : i \in DOMAIN s } : \A i \in DOMAIN s : s[i][2] <= m
RECURSIVE Newest(_, _)
Newest(s, m) == IF s = <<>> THEN <<>>
                ELSE (IF Head(s)[2] = m THEN <<Head(s)[1]>> ELSE <<>>) \o Newest(Tail(s), m)

MonInit == since = [u \in UNames |-> <<>>] /\ bad = {}

MonNext(act, o) ==
  IF act.a = "feed" THEN
       /\ since' = IF act.cls = 1 THEN [since EXCEPT ![act.u] = Append(@, <<act.id, act.lt>>)] ELSE since
       /\ bad' = bad
                 \cup (IF act.cls = 1 /\ o.pass # <<>>            THEN {"coalescable_not_held"}    ELSE {})
                 \cup (IF act.cls # 1 /\ o.pass # <<act.id>>      THEN {"passthrough_not_immediate_or_changed"} ELSE {})
                 \cup (IF o.fl # NoFl                             THEN {"output_without_flush"}    ELSE {})
  ELSE IF act.a = "flush" THEN
       /\ bad' = bad
                 \cup (IF o.pass # <<>> THEN {"foreign_event_in_flush"} ELSE {})
                 \cup (IF \A u \in UNames : o.fl[u] = Newest(since[u], MaxOf(since[u]))
                         THEN {} ELSE {"not_exactly_newest_in_arrival_order"})
       /\ since' = [u \in UNames |-> <<>>]
  ELSE UNCHANGED monvars

------------------------------------------------------------------------------
Init == ModelInit /\ MonInit
Next == ModelNext /\ MonNext(last', out')
Spec == Init /\ [][Next]_vars
C18 == bad = {}
=============================================================================
