--------------------------- MODULE ConfigMerge ---------------------------
(* C31 -- cmd/serf/command/agent/config.go  MergeConfig / ReadConfigPaths /   *)
(* DecodeConfig, F-pattern.                                                    *)
(*                                                                             *)
(* Every exported field of agent.Config belongs to one KIND; the kinds and     *)
(* their merge rule are the property text:                                     *)
(*   "ov"   later source's value when it sets it, otherwise the earlier one    *)
(*          (0 = not set, 1 / 2 = two different set values)                    *)
(*   "or"   switch: on if either source turns it on             (0 / 1)        *)
(*   "lw"   the compression switch: always from the later source (0 / 1)       *)
(*   "map"  tags: combined, later source winning. <<n, v1, v2>>: n = 1 the Go   *)
(*          map is nil; vi = value of key i (0 = key absent)                   *)
(*   "list" concatenated in order (sequences over 1..2)                        *)
(*   "raw"  the *Raw duration strings: parse intermediates of DecodeConfig,    *)
(*          not settings (reading chosen); only "inputs unmodified" applies    *)
(* One input = <<k, x, y, z>>: three sources of kind k.  Merge is the          *)
(* definition; Laws are checked by TLC on it; Clauses is the monitor over an   *)
(* input and the OBSERVED outputs of the real code:                            *)
(*   ab = MergeConfig(x,y)   l = Merge(Merge(x,y),z)   r = Merge(x,Merge(y,z)) *)
(*   fs = ReadConfigPaths of three files, dir = of one directory               *)
(*   una/unb = inputs of Merge(x,y) unchanged, un3 = x,y,z unchanged after l   *)
(*   (slices compared over their whole capacity), unh = x,y of the history      *)
(*   hb, hx, hy = the history Merge(x,y); Merge(hb,z); Merge(hb,x) read at the end *)
EXTENDS Integers, Sequences, FiniteSets, TLC

CONSTANTS MaxList,  \* longest list
          MaxV2     \* values of the second tag key: 0..MaxV2 (1 quick, 2 thorough)

Kinds    == {"ov", "or", "lw", "map", "list"}
MapVals  == { m \in (0..1) \X (0..2) \X (0..MaxV2) : m[1] = 1 => (m[2] = 0 /\ m[3] = 0) }
ListVals == UNION { [1..n -> 1..2] : n \in 0..MaxList }

Dom(k) == CASE k = "ov"   -> 0..2
            [] k = "or"   -> 0..1
            [] k = "lw"   -> 0..1
            [] k = "raw"  -> 0..2
            [] k = "map"  -> MapVals
            [] k = "list" -> ListVals

Zero(k) == CASE k = "map" -> <<1, 0, 0>> [] k = "list" -> <<>> [] OTHER -> 0

Later(a, b) == IF b # 0 THEN b ELSE a

Merge(k, a, b) ==
  CASE k = "ov"   -> Later(a, b)
    [] k = "or"   -> IF a = 1 \/ b = 1 THEN 1 ELSE 0
    [] k = "lw"   -> b
    [] k = "map"  -> << IF a[1] = 1 /\ b[1] = 1 THEN 1 ELSE 0, Later(a[2], b[2]), Later(a[3], b[3]) >>
    [] k = "list" -> a \o b
    [] OTHER      -> a

\* nil-ness of the tag map is not a setting: compare contents
Same(k, p, q) == IF k = "map" THEN <<p[2], p[3]>> = <<q[2], q[3]>> ELSE p = q

Fold3(k, x, y, z) == Merge(k, Merge(k, Merge(k, Zero(k), x), y), z)

------------------------------------------------------------------------------
(* algebraic laws of the definition *)
Laws(k, x, y, z) ==
  /\ Same(k, Merge(k, Merge(k, x, y), z), Merge(k, x, Merge(k, y, z)))      \* associative
  /\ Same(k, Merge(k, Zero(k), x), x) /\ (k # "lw" => Same(k, Merge(k, x, Zero(k)), x))
  /\ Same(k, Fold3(k, x, y, z), Merge(k, Merge(k, x, y), z))                 \* files = one by one
  /\ Merge(k, x, y) \in Dom(k) \/ k = "list"

------------------------------------------------------------------------------
(* the property as a monitor over (input, observed outputs) *)
PairRule(k, a, b, o) ==
  CASE k = "ov"   -> o = (IF b # 0 THEN b ELSE a)
    [] k = "or"   -> (o = 1) <=> (a = 1 \/ b = 1)
    [] k = "lw"   -> o = b
    [] k = "map"  -> \A i \in 2..3 : o[i] = (IF b[i] # 0 THEN b[i] ELSE a[i])
    [] k = "list" -> o = a \o b
    [] OTHER      -> TRUE

RuleName(k) == CASE k = "ov" -> "C31_later_wins" [] k = "or" -> "C31_switch_or"
                 [] k = "lw" -> "C31_compression" [] k = "map" -> "C31_tags_combined"
                 [] k = "list" -> "C31_lists_concat" [] OTHER -> "C31_none"

Unmod(o) == (IF o.una = 0 \/ o.un3[1] = 0 \/ o.unh[1] = 0 THEN {"C31_mod_earlier"} ELSE {})
            \cup (IF o.unb = 0 \/ o.un3[2] = 0 \/ o.un3[3] = 0 \/ o.unh[2] = 0 THEN {"C31_mod_later"} ELSE {})

\* history of merges sharing the left operand: hb = Merge(x,y), then hx = Merge(hb,z), then hy = Merge(hb,x); all three
\* are read AFTER the last merge: a result must not be changed by later merges (no shared storage)
Stable(k, x, y, z, o) == /\ Same(k, o.hb, Merge(k, x, y))
                         /\ Same(k, o.hx, Merge(k, Merge(k, x, y), z))
                         /\ Same(k, o.hy, Merge(k, Merge(k, x, y), x))

Clauses(k, x, y, z, o) ==
  IF k = "raw" THEN Unmod(o)
  ELSE
    (IF /\ PairRule(k, x, y, o.ab)
        /\ Same(k, o.l, Merge(k, Merge(k, x, y), z))
        /\ Same(k, o.r, Merge(k, x, Merge(k, y, z))) THEN {} ELSE {RuleName(k)})
    \cup (IF Same(k, o.l, o.r) THEN {} ELSE {"C31_assoc"})
    \cup (IF Stable(k, x, y, z, o) THEN {} ELSE {"C31_results_stable"})
    \cup (IF Same(k, o.fs, Fold3(k, x, y, z)) /\ Same(k, o.dir, Fold3(k, x, y, z)) THEN {} ELSE {"C31_files_fold"})
    \cup Unmod(o)

=============================================================================
