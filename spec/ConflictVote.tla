---------------------------- MODULE ConflictVote ----------------------------
(* Name-conflict resolution (property C36): serf/serf.go handleNodeConflict    *)
(* (1451-1470) and resolveNodeConflict (1473-1524); the replies are what       *)
(* serf/internal_query.go handleConflict (135-163) sends.  F-pattern.          *)
(*                                                                            *)
(* Vector [a |-> "conflict", own, enabled, replies]                            *)
(*   own      memberlist reports the conflict about the node's own name        *)
(*   enabled  EnableNameConflictResolution                                     *)
(*   replies  sequence of reply kinds, each sent by a different node as a      *)
(*            query response to the "_serf_conflict" query before it times out *)
(*     "match4" / "match16"  conflict response, member has the node's address  *)
(*                           (4- or 16-byte form) and port                     *)
(*     "addr"   conflict response, other address, same port                    *)
(*     "port"   conflict response, same address, other port                    *)
(*     "nil"    conflict response carrying no member (replier does not know    *)
(*              the name): a well-formed reply that attributes nothing         *)
(*     "wrongtype"   payload starts with another message type byte             *)
(*     "undecodable" right type byte followed by bytes that do not decode      *)
(*     "typeonly"    right type byte and nothing else                          *)
(*     "empty"       zero-length payload                                       *)
(* Observation [query, shutdown, valid, matching]: a conflict query was        *)
(*   broadcast; Serf.State() = SerfShutdown after the resolution finished;     *)
(*   the counters the node logged ("[matching / responses]").                  *)
EXTENDS Integers, Sequences, FiniteSets, TLC

CONSTANTS MaxReplies

VARIABLES last, out, steps, M
vars == <<last, out, steps, M>>

ValidKinds    == {"match4", "match16", "addr", "port", "nil"}
MatchingKinds == {"match4", "match16"}
Malformed     == {"wrongtype", "undecodable", "typeonly", "empty"}
ReplyKinds    == ValidKinds \cup Malformed

Count(rs, S) == Cardinality({ i \in DOMAIN rs : rs[i] \in S })

\* the definition: strict majority of the VALID replies
Majority(n) == (n \div 2) + 1
ShouldShutdown(rs) == Count(rs, MatchingKinds) < Majority(Count(rs, ValidKinds))

Runs(v) == v.own /\ v.enabled

Expected(v) ==
  IF Runs(v) THEN [query |-> TRUE, shutdown |-> ShouldShutdown(v.replies),
                   valid |-> Count(v.replies, ValidKinds), matching |-> Count(v.replies, MatchingKinds)]
  ELSE [query |-> FALSE, shutdown |-> FALSE, valid |-> 0, matching |-> 0]

\* Monitor for C36: whenever the resolution ran (a conflict query went out), the node is shut
\* down afterwards exactly when the matching replies are fewer than a strict majority of the
\* valid ones.  (What starts a resolution is not part of the property; it is model conformance.)
Clauses(v, o) ==
  IF o.query /\ (o.shutdown # ShouldShutdown(v.replies))
  THEN { IF o.shutdown THEN "C36_shutdown_despite_majority" ELSE "C36_survived_without_majority" }
  ELSE {}

MonStep(m, v, o) == [m EXCEPT !.bad = @ \cup Clauses(v, o)]
MonInit == [bad |-> {}]
TagsOf(v) == (IF Count(v.replies, Malformed) > 0 THEN {"malformed_replies"} ELSE {})
             \cup (IF Count(v.replies, ValidKinds) = 0 THEN {"no_valid_reply"} ELSE {})

------------------------------------------------------------------------------
(* Vector domain: reply multisets (non-decreasing sequences of kind indices)  *)
KindSeq == <<"match4", "match16", "addr", "port", "nil", "wrongtype", "undecodable", "typeonly", "empty">>
SortedIdx(n) == { s \in [1..n -> 1..Len(KindSeq)] : \A i \in 1..(n - 1) : s[i] <= s[i + 1] }
Multisets == UNION { { [i \in 1..n |-> KindSeq[s[i]]] : s \in SortedIdx(n) } : n \in 0..MaxReplies }

Vectors == { [a |-> "conflict", own |-> TRUE, enabled |-> TRUE, replies |-> r] : r \in Multisets }
           \cup { [a |-> "conflict", own |-> o, enabled |-> e, replies |-> r] :
                    o \in BOOLEAN, e \in BOOLEAN, r \in { <<>>, <<"addr">>, <<"addr", "addr", "match4">> } }

Do(v) ==
  /\ last.a = "init"
  /\ out' = Expected(v)
  /\ last' = v
  /\ steps' = steps + 1
  /\ M' = MonStep(M, v, out')

Init == last = [a |-> "init"] /\ out = 0 /\ steps = 0 /\ M = MonInit
Next == last.a = "init" /\ \E v \in Vectors : Do(v)
Spec == Init /\ [][Next]_vars

C36 == M.bad = {}

\* laws of the definition
ASSUME \A n \in 0..12 : 2 * Majority(n) > n /\ 2 * (Majority(n) - 1) <= n
=============================================================================
