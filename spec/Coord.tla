------------------------------- MODULE Coord -------------------------------
(* C20 -- the network coordinate stays valid whatever peers report.              *)
(* coordinate/client.go Update, coordinate.go IsValid / ApplyForce,              *)
(* serf/ping_delegate.go NotifyPingComplete.  Protocol skeleton: TLA+ cannot     *)
(* derive the floating-point clauses, they are monitors over the REAL client's   *)
(* coordinate observed after every step.                                         *)
(*                                                                               *)
(* One action = one completed ping: peer p reports a coordinate of class cc with *)
(* a measured round-trip time of class rc.                                       *)
(*   cc: valid | nan | posinf | neginf (some component / error / adjustment /    *)
(*       height not finite) | wrongdim | huge (finite, up to 1.8e308) |          *)
(*       negerr (finite, negative error)                                         *)
(*   rc: neg (< 0) | zero | ok (<= 10 s) | big (> 10 s)                           *)
(* The harness picks concrete adversarial floats per class (fields fv, rv of the *)
(* action record, ignored here).                                                 *)
(* Observation after the step:                                                   *)
(*   acc    1: the update was accepted (local coordinate may move, peer cached)  *)
(*   same   1: local coordinate bit-for-bit as before the step                   *)
(*   cache  <<c1..cNP>> ci = 1: GetCachedCoordinate(peer i) has an entry          *)
(*   st     1: the COMPLETE client state (coordinate, origin, adjustment window,  *)
(*          latency windows, reset counter) is bit-for-bit as before the step     *)
(*   win    per peer, the client's latency window as sample ids (RttId)           *)
(*   cs     1: the entry of p is exactly the coordinate p sent in this step      *)
(*   cu     1: the entry of p (or its absence) is as before the step             *)
(*   fin, dim, hmin, elo, ehi  1: the local coordinate is finite / has the        *)
(*          configured dimensionality / height >= HeightMin / error >= 0 /        *)
(*          error <= VivaldiErrorMax                                              *)
EXTENDS Integers, Sequences, FiniteSets, TLC

CONSTANTS NP,        \* number of peers
          MaxSteps,
          WinSize    \* LatencyFilterSize: the per-peer moving-median window of round-trip samples

Peers == 1..NP
CClasses == {"valid", "nan", "posinf", "neginf", "wrongdim", "huge", "negerr"}
RClasses == {"neg", "zero", "ok", "big"}

\* identity of the concrete round-trip sample the harness uses for (rc, rv): neg 0..3, zero 4, ok 5..10, big 11..14
RttId(rc, rv) == CASE rc = "neg" -> rv % 4 [] rc = "zero" -> 4 [] rc = "ok" -> 5 + (rv % 6) [] rc = "big" -> 11 + (rv % 4)
\* the window after one more accepted sample
Push(w, id) == IF Len(w) < WinSize THEN Append(w, id) ELSE Tail(w) \o <<id>>

ValidCoord(cc) == cc \in {"valid", "huge", "negerr"}     \* right dimension and every number finite
InRange(rc)    == rc \in {"zero", "ok"}                   \* 0 <= rtt <= 10 s
Accept(cc, rc) == ValidCoord(cc) /\ InRange(rc)

VARIABLES cached,    \* model: peers with a cache entry
          win,       \* model: per peer, the last WinSize ACCEPTED round-trip samples (ids)
          last, obs, n,
          \* monitor state, from logged actions and OBSERVED outputs only
          mneg,      \* some accepted observation so far carried a negative error
          mwin,      \* per peer, the last WinSize samples of the observations OBSERVED as accepted
          bad
mvars   == <<cached, win, last, obs, n>>
monvars == <<mneg, mwin, bad>>
vars    == <<mvars, monvars>>

CacheTuple(S) == [i \in Peers |-> IF i \in S THEN 1 ELSE 0]

Observe(p, cc, rc) ==
  /\ n < MaxSteps /\ n' = n + 1
  /\ last' = [a |-> "obs", p |-> p, cc |-> cc, rc |-> rc, fv |-> 0, rv |-> 0]
  /\ cached' = IF Accept(cc, rc) THEN cached \cup {p} ELSE cached
  /\ win' = IF Accept(cc, rc) THEN [win EXCEPT ![p] = Push(win[p], RttId(rc, 0))] ELSE win
  /\ obs' = [acc |-> IF Accept(cc, rc) THEN 1 ELSE 0, same |-> IF Accept(cc, rc) THEN 0 ELSE 1,
             st |-> IF Accept(cc, rc) THEN 0 ELSE 1, win |-> win',
             cache |-> CacheTuple(cached'), cs |-> IF Accept(cc, rc) THEN 1 ELSE 0,
             cu |-> IF Accept(cc, rc) THEN 0 ELSE 1,
             fin |-> 1, dim |-> 1, hmin |-> 1, elo |-> 1, ehi |-> 1]

NoWin == [i \in Peers |-> <<>>]
ModelInit == cached = {} /\ win = NoWin /\ last = [a |-> "init"] /\ obs = 0 /\ n = 0
ModelNext == \E p \in Peers, cc \in CClasses, rc \in RClasses : Observe(p, cc, rc)

------------------------------------------------------------------------------
(* property C20 as a monitor over (action, observation) *)
StepClauses(act, o, neg, w) ==
  (IF (o.acc = 1) <=> Accept(act.cc, act.rc) THEN {} ELSE
      IF o.acc = 1 THEN {"C20_invalid_accepted"} ELSE {"C20_valid_rejected"})
  \* "rejected without changing anything": coordinate, cache entry AND the whole client state (origin, adjustment
  \* window, per-peer latency windows, reset counter; o.st, read through a verif hook) are bit-for-bit as before
  \cup (IF o.acc = 0 /\ (o.same # 1 \/ o.cu # 1 \/ o.st # 1) THEN {"C20_reject_changed_state"} ELSE {})
  \cup (IF o.acc = 0 /\ o.cu # 1 THEN {"C20_cached_without_accept"} ELSE {})
  \cup (IF o.acc = 1 /\ o.cs # 1 THEN {"C20_accepted_not_cached"} ELSE {})
  \cup (IF o.fin = 1 THEN {} ELSE {"C20_not_finite"})
  \cup (IF o.dim = 1 THEN {} ELSE {"C20_dimension"})
  \cup (IF o.fin = 1 /\ o.hmin # 1 THEN {"C20_height_below_min"} ELSE {})
  \cup (IF o.fin = 1 /\ ~neg /\ (o.elo # 1 \/ o.ehi # 1) THEN {"C20_error_bounds"} ELSE {})
  \* the latency windows hold exactly the last WinSize ACCEPTED samples of each peer (nothing of a rejected one)
  \cup (IF o.win = w THEN {} ELSE {"C20_window_not_accepted_samples"})

MonInit == mneg = FALSE /\ mwin = NoWin /\ bad = {}
MonNext(act, o) ==
  LET neg == mneg \/ (o.acc = 1 /\ act.cc = "negerr")      \* peers reported only non-negative errors so far?
      w   == IF o.acc = 1 THEN [mwin EXCEPT ![act.p] = Push(mwin[act.p], RttId(act.rc, act.rv))] ELSE mwin
  IN /\ mneg' = neg
     /\ mwin' = w
     /\ bad' = bad \cup StepClauses(act, o, neg, w)

Init == ModelInit /\ MonInit
Next == ModelNext /\ MonNext(last', obs')
C20 == bad = {}
=============================================================================
