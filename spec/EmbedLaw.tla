------------------------------ MODULE EmbedLaw ------------------------------
(* Unbounded companion of SerfEventOps.tla: the harness embeds model times    *)
(* 0..MAX into uint64 by E(t) = t for t <= H = MAX \div 2 and                  *)
(* E(t) = 2^64-1-(MAX-t) above.  SerfEventOps!SlotIx(b, t) claims to be the    *)
(* ring-buffer slot the real code computes, uint64(E(t)) % b, and Pos the      *)
(* order of the real values.  TLC cannot evaluate 2^64; Apalache (unbounded    *)
(* integers) shows both for EVERY MAX < 2^32, every time and buffer sizes 1..8.*)
EXTENDS Integers

VARIABLES
  \* @type: Int;
  MAX,
  \* @type: Int;
  b,
  \* @type: Int;
  t,
  \* @type: Int;
  u

TWO64 == 65536 * 65536 * 65536 * 65536      \* 2^64 (TLC cannot even parse the literal; it never evaluates this)
H == MAX \div 2
GAP == 100000
Pos(x) == IF x <= H THEN x ELSE x + GAP
E(x) == IF x <= H THEN x ELSE TWO64 - 1 - (MAX - x)

T64(k) == LET p == 65536 % k IN (p * p * p * p) % k
SlotIx(k, x) == IF x <= H THEN x % k ELSE (T64(k) + x + (k - 1) * (MAX + 1)) % k

Wrap(x) == x % (MAX + 1)
\* SerfEventOps!TooOld: "curTime > len(buffer) && lt < curTime - len(buffer)" on model times
TooOld(k, cc, lt) == Pos(cc) > k /\ Pos(lt) < Pos(cc) - k
\* the same test on the real uint64 values
RealTooOld(k, cc, lt) == E(cc) > k /\ E(lt) < E(cc) - k

Init == /\ MAX \in Nat /\ MAX >= 3 /\ MAX < 65536 * 65536
        /\ b \in 1..8
        /\ t \in Nat /\ t <= MAX
        /\ u \in Nat /\ u <= MAX
Next == UNCHANGED <<MAX, b, t, u>>

Law == /\ SlotIx(b, t) = E(t) % b                      \* the slot of the real value
       /\ 0 <= E(t) /\ E(t) < TWO64                    \* the embedding stays inside uint64
       /\ (Pos(t) < Pos(u)) <=> (E(t) < E(u))          \* model order = order of the real values
       /\ E(MAX) = TWO64 - 1 /\ E(0) = 0               \* top and bottom are the real top and bottom
       /\ (t < MAX /\ t # H) => E(t + 1) = E(t) + 1    \* +1 commutes except across the gap
       /\ t # H => E(Wrap(t + 1)) = (E(t) + 1) % TWO64  \* incl. the wrap of the real counter at 2^64-1
       /\ TooOld(b, t, u) <=> RealTooOld(b, t, u)       \* the buffer-window test (clock t, message time u)

\* sanity: the naive slot t % b is NOT the real slot (b = 3) -- a counterexample is expected
NaiveSlot == t % b = E(t) % b
=============================================================================
