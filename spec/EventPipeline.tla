---------------------------- MODULE EventPipeline ----------------------------
(* The member-event pipeline of a Serf node: membership handlers -> snapshot     *)
(* tee -> internal-query filter -> user-event coalescer -> member-event          *)
(* coalescer -> application (serf.go Create wires it in this order).  Every      *)
(* stage is a goroutine reading one channel and writing the next; the member     *)
(* coalescer holds the latest event per member until its quantum / quiescence    *)
(* timer fires (Flush, chosen by the environment) and suppresses a repeat of the *)
(* kind it last reported unless it is an update.                                 *)
(*                                                                              *)
(* Members 1..NM, kinds 1 join 2 leave 3 failed 4 update 5 reap.                 *)
(* C16: what the application has received for one member is always a             *)
(* subsequence of what the node emitted for it; when everything has drained, the *)
(* last kind received equals the last kind emitted.                              *)
EXTENDS Integers, Sequences, FiniteSets, TLC

CONSTANTS NM, MaxEmit, Coalescing

Members == 1..NM
Kinds == 1..5

VARIABLES q1,        \* handlers -> snapshot tee
          q2,        \* tee -> internal-query filter
          q3,        \* filter -> user coalescer (passes member events through)
          latest, lastSent,   \* member coalescer
          app,       \* what the application received, in order: <<member, kind>>
          emitted,   \* ground truth: what the handlers emitted, in order
          last, M

vars == <<q1, q2, q3, latest, lastSent, app, emitted, last, M>>
None == [m \in Members |-> 0]

Proj(s, m) == SelectSeq(s, LAMBDA e : e[1] = m)
RECURSIVE IsSubseq(_, _)
IsSubseq(a, b) == IF a = <<>> THEN TRUE
                  ELSE IF b = <<>> THEN FALSE
                  ELSE IF Head(a) = Head(b) THEN IsSubseq(Tail(a), Tail(b))
                  ELSE IsSubseq(a, Tail(b))

\* monitor over observed data: em = everything emitted so far, rc = everything received so far
OrderOK(em, rc) == \A m \in Members : IsSubseq(Proj(rc, m), Proj(em, m))
LastOK(em, rc) == \A m \in Members : Proj(em, m) # <<>> =>
                     (Proj(rc, m) # <<>> /\ Proj(rc, m)[Len(Proj(rc, m))] = Proj(em, m)[Len(Proj(em, m))])
\* the same clause against the status the node itself reports for the member when everything has drained
\* (st[m]: 0 not listed, 1 alive, 2 leaving, 3 left, 4 failed; kinds: 1 join, 2 leave, 3 failed, 4 update, 5 reap)
KindsFor(s) == CASE s = 0 -> {5} [] s = 1 -> {1, 4} [] s = 2 -> {1, 4} [] s = 3 -> {2} [] OTHER -> {3}
StatusOK(rc, st) == \A m \in Members : Proj(rc, m) # <<>> => Proj(rc, m)[Len(Proj(rc, m))][2] \in KindsFor(st[m + 1])
MonInit == M = [bad |-> {}]
MonStep(m, em, rc, drained) ==
  [bad |-> m.bad \cup (IF OrderOK(em, rc) THEN {} ELSE {"C16_not_a_subsequence"})
                 \cup (IF drained /\ ~LastOK(em, rc) THEN {"C16_last_event_not_current_status"} ELSE {})]

Emit(m, k) ==
  /\ Len(emitted) < MaxEmit
  /\ emitted' = Append(emitted, <<m, k>>)
  /\ q1' = Append(q1, <<m, k>>)
  /\ last' = [a |-> "emit", m |-> m, k |-> k]
  /\ UNCHANGED <<q2, q3, latest, lastSent, app>>
Tee ==    /\ q1 # <<>> /\ q1' = Tail(q1) /\ q2' = Append(q2, Head(q1)) /\ last' = [a |-> "tee"]
          /\ UNCHANGED <<q3, latest, lastSent, app, emitted>>
Filter == /\ q2 # <<>> /\ q2' = Tail(q2) /\ q3' = Append(q3, Head(q2)) /\ last' = [a |-> "filter"]
          /\ UNCHANGED <<q1, latest, lastSent, app, emitted>>
Ingest == /\ q3 # <<>> /\ q3' = Tail(q3) /\ last' = [a |-> "ingest"]
          /\ IF Coalescing
               THEN latest' = [latest EXCEPT ![Head(q3)[1]] = Head(q3)[2]] /\ UNCHANGED <<app, lastSent>>
               ELSE app' = Append(app, Head(q3)) /\ UNCHANGED <<latest, lastSent>>
          /\ UNCHANGED <<q1, q2, emitted>>
Reported == { m \in Members : latest[m] # 0 /\ ~(lastSent[m] = latest[m] /\ latest[m] # 4) }
RECURSIVE FlushSeq(_, _)
FlushSeq(S, lo) == IF lo > NM THEN <<>> ELSE (IF lo \in S THEN << <<lo, latest[lo]>> >> ELSE <<>>) \o FlushSeq(S, lo + 1)
Flush ==  /\ Coalescing /\ latest # None
          /\ app' = app \o FlushSeq(Reported, 1)
          /\ lastSent' = [m \in Members |-> IF m \in Reported THEN latest[m] ELSE lastSent[m]]
          /\ latest' = None
          /\ last' = [a |-> "flush"]
          /\ UNCHANGED <<q1, q2, q3, emitted>>

Drained == q1 = <<>> /\ q2 = <<>> /\ q3 = <<>> /\ latest = None

Init == /\ q1 = <<>> /\ q2 = <<>> /\ q3 = <<>> /\ latest = None /\ lastSent = None /\ app = <<>> /\ emitted = <<>>
        /\ last = [a |-> "init"] /\ MonInit
Step == \/ \E m \in Members, k \in Kinds : Emit(m, k)
        \/ Tee \/ Filter \/ Ingest \/ Flush
Next == Step /\ M' = MonStep(M, emitted', app', Drained')
Spec == Init /\ [][Next]_vars
\* with coalescing a repeat of the last reported kind is legitimately swallowed, so "last received = last
\* emitted" is stated on kinds: the same-kind suppression keeps the application's last kind equal anyway
C16 == M.bad = {}
=============================================================================
