--------------------------- MODULE Gen_AgentIPC ---------------------------
(* Schedule generator for AgentIPC.  First step: conf (keyed or not) and a plan *)
(* (forced prefix: nothing / handshake / handshake + right key / handshake +    *)
(* wrong key) so that behaviours regularly get past the two gates; then kinds   *)
(* of objects are picked first (sel), then an object of that kind.              *)
EXTENDS AgentIPC
VARIABLES sel, plan

H(c)    == [a |-> "hdr", cmd |-> c]
B(c, v) == [a |-> "body", cmd |-> c, v |-> v]
Plans == { <<>>,
           <<H("handshake"), B("handshake", 1)>>,
           <<H("handshake"), B("handshake", 1), H("auth"), B("auth", 1)>>,
           <<H("handshake"), B("handshake", 1), H("auth"), B("auth", 0)>>,
           <<H("auth"), B("auth", 1), H("handshake"), B("handshake", 1)>>,
           \* a well-formed handshake with an unsupported version must leave the connection un-handshaken
           <<H("handshake"), B("handshake", 0)>>, <<H("handshake"), B("handshake", 2)>>, <<H("handshake"), B("handshake", 3)>>,
           <<H("handshake"), B("handshake", 2), H("auth"), B("auth", 1)>>,
           <<H("handshake"), B("handshake", 3), H("handshake"), B("handshake", 1)>> }

GenInit == Init /\ sel = 0 /\ plan = <<>>

Start == steps = 0 /\ (\E k \in BOOLEAN : Conf(k)) /\ plan' \in Plans /\ sel' = 0

Forced ==
  /\ steps >= 1 /\ plan # <<>> /\ sel = 0
  /\ IF Head(plan).a = "hdr" THEN SendHdr(Head(plan).cmd) ELSE SendBody(Head(plan).v)
  /\ plan' = Tail(plan) /\ sel' = 0

AnyHdr == \E c \in Cmds : SendHdr(c)
Pick == steps >= 1 /\ plan = <<>> /\ sel = 0 /\ sel' \in 1..10 /\ UNCHANGED <<vars, plan>>
Do ==
  /\ sel # 0 /\ sel' = 0 /\ UNCHANGED plan
  /\ CASE sel \in 1..4 -> IF cst # "" THEN SendBody(1) ELSE AnyHdr
       [] sel = 5      -> IF cst # "" THEN (\E v \in BodyVs(cst) \ {1} : SendBody(v)) ELSE AnyHdr
       [] sel = 6      -> AnyHdr                          \* absent body when one is due
       [] sel = 7      -> IF cst # "" THEN SendBody(1) ELSE SendHdr("handshake")
       [] sel = 8      -> IF cst # "" THEN SendBody(1) ELSE SendHdr("auth")
       [] sel = 9      -> IF steps > 4 THEN SendJunk ELSE AnyHdr
       [] sel = 10     -> IF cst # "" THEN SendBody(1) ELSE AnyHdr
Skip == sel # 0 /\ sel' = 0 /\ UNCHANGED <<vars, plan>>
GenNext == Start \/ Forced \/ Pick \/ Do \/ Skip
=============================================================================
