--------------------------- MODULE Gen_AgentIPC ---------------------------
(* Schedule generator for AgentIPC.  First step: conf (keyed or not) and a plan *)
(* (forced prefix: nothing / handshake / handshake + right key / handshake +    *)
(* wrong key) so that behaviours regularly get past the two gates; then kinds   *)
(* of objects are picked first (sel), then an object of that kind.              *)
EXTENDS AgentIPC
VARIABLES sel, plan

H(c)    == [a |-> "hdr", cmd |-> c]
B(c, v) == [a |-> "body", cmd |-> c, v |-> v]
Plans == { <<>>,
           <<H("handshake"), B("handshake", 1)>>,
           <<H("handshake"), B("handshake", 1), H("auth"), B("auth", 1)>>,
           <<H("handshake"), B("handshake", 1), H("auth"), B("auth", 0)>>,
           <<H("auth"), B("auth", 1), H("handshake"), B("handshake", 1)>>,
           \* a well-formed handshake with an unsupported version must leave the connection un-handshaken
           <<H("handshake"), B("handshake", 0)>>, <<H("handshake"), B("handshake", 2)>>, <<H("handshake"), B("handshake", 3)>>,
           <<H("handshake"), B("handshake", 2), H("auth"), B("auth", 1)>>,
           <<H("handshake"), B("handshake", 3), H("handshake"), B("handshake", 1)>>,
           \* an empty key, and an auth whose body is absent (the next header is decoded as its body: empty key)
           <<H("handshake"), B("handshake", 1), H("auth"), B("auth", 2)>>,
           <<H("handshake"), B("handshake", 1), H("auth"), H("members"), H("stats")>>,
           <<H("handshake"), B("handshake", 1), H("auth"), H("stats"), H("event"), B("event", 1)>> }

\* pipelined requests: every command with its valid body, plus a wrong key and unsupported handshakes
\* (leave only as the last request of a batch: the agent is gone afterwards and the trace ends; no unknown command:
\* the hang-up that follows it deregisters a stream / monitor of the same batch before the harness can see it)
BReqs == { <<c, 1>> : c \in Cmds \ {"bogus"} } \cup { <<"auth", 0>>, <<"auth", 2>>, <<"handshake", 0>>, <<"handshake", 2>> }
BKey  == { <<"auth", 1>>, <<"auth", 0>>, <<"handshake", 1>>, <<"stats", 1>>, <<"event", 1>> }
BatchPlans == {  \* a rejected command, the right key and a command in ONE write (and relatives)
  <<H("handshake"), B("handshake", 1), [a |-> "b3", r |-> << <<"members", 1>>, <<"auth", 1>>, <<"stats", 1>> >>]>>,
  <<H("handshake"), B("handshake", 1), [a |-> "b3", r |-> << <<"event", 1>>, <<"auth", 1>>, <<"event", 1>> >>]>>,
  <<H("handshake"), B("handshake", 1), [a |-> "b3", r |-> << <<"members", 1>>, <<"stats", 1>>, <<"auth", 1>> >>]>>,
  <<[a |-> "b3", r |-> << <<"handshake", 1>>, <<"auth", 1>>, <<"stats", 1>> >>]>>,
  <<[a |-> "b3", r |-> << <<"handshake", 1>>, <<"members", 1>>, <<"auth", 1>> >>]>> }

GenInit == Init /\ sel = 0 /\ plan = <<>>

Start == steps = 0 /\ (\E k \in BOOLEAN : Conf(k)) /\ plan' \in Plans \cup BatchPlans /\ sel' = 0

Forced ==
  /\ steps >= 1 /\ plan # <<>> /\ sel = 0
  /\ CASE Head(plan).a = "hdr" -> SendHdr(Head(plan).cmd)
       [] Head(plan).a = "b3"  -> Batch(B3(Head(plan).r[1], Head(plan).r[2], Head(plan).r[3]))
       [] OTHER                -> SendBody(Head(plan).v)
  /\ plan' = Tail(plan) /\ sel' = 0

AnyHdr == \E c \in Cmds : SendHdr(c)
Pick == steps >= 1 /\ plan = <<>> /\ sel = 0 /\ sel' \in 1..13 /\ UNCHANGED <<vars, plan>>
Do ==
  /\ sel # 0 /\ sel' = 0 /\ UNCHANGED plan
  /\ CASE sel \in 1..4 -> IF cst # "" THEN SendBody(1) ELSE AnyHdr
       [] sel = 5      -> IF cst # "" THEN (\E v \in BodyVs(cst) \ {1} : SendBody(v)) ELSE AnyHdr
       [] sel = 6      -> AnyHdr                          \* absent body when one is due
       [] sel = 7      -> IF cst # "" THEN SendBody(1) ELSE SendHdr("handshake")
       [] sel = 8      -> IF cst # "" THEN SendBody(1) ELSE SendHdr("auth")
       [] sel = 9      -> IF steps > 4 THEN SendJunk ELSE AnyHdr
       [] sel \in {11, 12} -> IF cst # "" THEN SendBody(1) ELSE \E r1 \in BReqs \ {<<"leave", 1>>}, r2 \in BReqs : Batch(B2(r1, r2))
       [] sel = 13     -> IF cst # "" THEN SendBody(1) ELSE \E r1 \in BReqs \ {<<"leave", 1>>}, r2 \in BKey, r3 \in BKey : Batch(B3(r1, r2, r3))
       [] sel = 10     -> IF cst # "" THEN SendBody(1) ELSE AnyHdr
Skip == sel # 0 /\ sel' = 0 /\ UNCHANGED <<vars, plan>>
GenNext == Start \/ Forced \/ Pick \/ Do \/ Skip
=============================================================================
