--------------------------- MODULE Gen_AgentTags ---------------------------
(* Schedule generator: behaviours of AgentTags (edit sequences). *)
EXTENDS AgentTags
GenInit == Init
GenNext == Next
=============================================================================
