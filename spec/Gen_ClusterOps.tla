--------------------------- MODULE Gen_ClusterOps ---------------------------
EXTENDS ClusterOps
VARIABLES sel, steps
\* scenarios start from a formed cluster (the harness forms it with explicit start/join operations first)
GenInit == /\ st = [x \in Nodes |-> 1] /\ comp = [x \in Nodes |-> Nodes] /\ know = [x \in Nodes |-> [m \in Nodes |-> 1]]
           /\ part = {} /\ ops = 0 /\ last = [a |-> "init"] /\ MonInit /\ passive = {} /\ unheard = {}
           /\ sel = 0 /\ steps = 0
Pick == sel = 0 /\ sel' \in 1..8 /\ UNCHANGED <<vars, steps>>
Do ==
  /\ sel # 0 /\ sel' = 0 /\ steps' = steps + 1 /\ ops < MaxOps /\ ops' = ops + 1 /\ UNCHANGED M
  /\ CASE sel = 1 -> \E x, y \in Nodes : Join(x, y)
       [] sel = 2 -> IF \E x, y \in Nodes : ENABLED Join(x, y) THEN \E x, y \in Nodes : Join(x, y) ELSE \E x \in Nodes : Start(x)
       [] sel = 3 -> \E x \in Nodes : Start(x)
       [] sel = 4 -> \E x \in Nodes : Leave(x)
       [] sel = 5 -> \E x \in Nodes : Crash(x)
       [] sel = 6 -> \E S \in SUBSET Nodes : Partition(S)
       [] sel = 7 -> Heal
       [] sel = 8 -> Wait
Skip == sel # 0 /\ sel' = 0 /\ UNCHANGED <<vars, steps>>
GenNext == Pick \/ Do \/ Skip
=============================================================================
