------------------------ MODULE Gen_CoalesceMember ------------------------
(* Schedule generator: behaviours of CoalesceMember, printed as JSON action records. *)
EXTENDS CoalesceMember
VARIABLE steps
GenInit == Init /\ steps = 0
GenNext == Next /\ steps' = steps + 1
=============================================================================
