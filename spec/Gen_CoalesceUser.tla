------------------------- MODULE Gen_CoalesceUser -------------------------
EXTENDS CoalesceUser
VARIABLE steps
GenInit == Init /\ steps = 0
GenNext == Next /\ steps' = steps + 1
=============================================================================
