------------------------- MODULE Gen_ConfigMerge -------------------------
(* Input enumerator and exhaustive check for C31: Init picks an input <<k, x, y, z>> from the bounded  *)
(* domain, Eval computes the outputs with the definition.  TLC checks the laws of the definition and   *)
(* that the definition passes the monitor, and dumps every initial state = one input vector each.       *)
EXTENDS ConfigMerge
(* the trivial state machine: Init picks an input, Eval computes the outputs *)
CONSTANT Defect   \* "none": the definition.  Models of the defects found in the real code, used only to show
                  \* that the monitor can fire on them (configs that EXPECT the violation):
                  \* "never_merged": a switch the merge forgets (result keeps the earlier source's value)
                  \* "shared_tags":  the result's tag map IS the earlier source's map, the later tags are copied into it
                  \* "crossed_switch": a switch whose later-source guard tests a different switch (seeded C31-3)
                  \* "aliased_list": a result list built by appending onto the earlier source's slice (seeded C31-2)
VARIABLES k, x, y, z, ph, out
vars == <<k, x, y, z, ph, out>>

Good(kk, a, b, c) ==
  [ab |-> Merge(kk, a, b), l |-> Merge(kk, Merge(kk, a, b), c), r |-> Merge(kk, a, Merge(kk, b, c)),
   fs |-> Fold3(kk, a, b, c), dir |-> Fold3(kk, a, b, c), una |-> 1, unb |-> 1, un3 |-> <<1, 1, 1>>, unh |-> <<1, 1>>,
   hb |-> Merge(kk, a, b), hx |-> Merge(kk, Merge(kk, a, b), c), hy |-> Merge(kk, Merge(kk, a, b), a)]

Touched(a, b) == a[1] = 0 /\ ~Same("map", Merge("map", a, b), a)    \* copying b into a's own map changes a

ModelOut(kk, a, b, c) ==
  IF Defect = "never_merged" /\ kk = "or"
    THEN [Good(kk, a, b, c) EXCEPT !.ab = a, !.l = a, !.r = a, !.fs = 0, !.dir = 0]
  ELSE IF Defect = "shared_tags" /\ kk = "map"
    THEN [Good(kk, a, b, c) EXCEPT !.una = IF Touched(a, b) THEN 0 ELSE 1,
                                   !.un3 = <<IF a[1] = 0 /\ (Touched(a, b) \/ Touched(Merge(kk, a, b), c)) THEN 0 ELSE 1, 1, 1>>]
  ELSE IF Defect = "aliased_list" /\ kk = "list"
    \* the result list shares the earlier source's backing array: the later merge base+x overwrites the tail of base+z
    THEN [Good(kk, a, b, c) EXCEPT !.hx = Merge(kk, a, b) \o [i \in 1..Len(c) |-> IF i <= Len(a) THEN a[i] ELSE c[i]]]
  ELSE Good(kk, a, b, c)

\* k = "hot": switch INDEPENDENCE.  One switch field (the harness takes every bool field of agent.Config in turn) gets the
\* triple y, all the other switches get the triple x (one-hot and all-but-one patterns in each source); the selected
\* switch must follow its own sources only.
HotOthers == { <<0, 0, 0>>, <<0, 1, 0>>, <<1, 0, 0>>, <<0, 0, 1>>, <<1, 1, 1>> }
HotOut(o, s) ==
  IF Defect = "crossed_switch"      \* the later source's guard reads a neighbouring switch (seeded C31-3)
    THEN [Good("or", s[1], s[2], s[3]) EXCEPT !.ab = Merge("or", s[1], o[2]), !.hb = Merge("or", s[1], o[2])]
    ELSE Good("or", s[1], s[2], s[3])

Init == \/ /\ k \in Kinds
           /\ x \in Dom(k) /\ y \in Dom(k) /\ z \in Dom(k)
           /\ ph = "in" /\ out = 0
        \/ /\ k = "hot"
           /\ x \in HotOthers /\ y \in [1..3 -> 0..1] /\ y # x /\ z = 0
           /\ ph = "in" /\ out = 0

Eval == /\ ph = "in" /\ ph' = "out"
        /\ out' = IF k = "hot" THEN HotOut(x, y) ELSE ModelOut(k, x, y, z)
        /\ UNCHANGED <<k, x, y, z>>

Next == Eval
Spec == Init /\ [][Next]_vars

LawsHold == k # "hot" => Laws(k, x, y, z)
C31      == ph = "out" => IF k = "hot" THEN Clauses("or", y[1], y[2], y[3], out) = {} ELSE Clauses(k, x, y, z, out) = {}
=============================================================================
