-------------------------- MODULE Gen_ConflictVote --------------------------
(* Vector enumeration for C36: one TLC state per vector, checked against the   *)
(* model's own monitor (INVARIANT C36) and printed as a one-step schedule.     *)
EXTENDS ConflictVote, Json
Emit == (last.a # "init") => PrintT(<<"EDGE", ToJson(<<last>>)>>)
=============================================================================
