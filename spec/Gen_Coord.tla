----------------------------- MODULE Gen_Coord -----------------------------
(* Schedule generator: behaviours of Coord (sequences of completed pings). *)
EXTENDS Coord
VARIABLE steps
GenInit == Init /\ steps = 0
GenNext == Next /\ steps' = steps + 1
=============================================================================
