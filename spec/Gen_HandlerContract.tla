------------------------ MODULE Gen_HandlerContract ------------------------
(* Enumerator / exhaustive check for C27 *)
EXTENDS HandlerContract
VARIABLES inp, ph, out
vars == <<inp, ph, out>>
Init == inp \in Inputs /\ ph = "in" /\ out = 0
Eval == /\ ph = "in" /\ ph' = "out" /\ UNCHANGED inp /\ out' = Expected(inp)
Next == Eval
C27 == ph = "out" => Clauses(inp, out) = {}
\* laws of the definition: escaping removes every raw tab and newline; the payload rule ends non-empty input with a newline
Laws == /\ inp.ep = "members" => \A k \in DOMAIN inp.members :
                                    \A j \in DOMAIN Esc(inp.members[k].name) : Esc(inp.members[k].name)[j] \notin {TAB, NL}
        /\ inp.ep = "payload" /\ inp.payload # <<>> => StdinOf(inp.payload)[Len(StdinOf(inp.payload))] = NL
        /\ inp.ep = "filter" /\ inp.spec = <<>> => Match(inp.spec, inp.ev)
=============================================================================
