------------------------ MODULE Gen_HandlerContract ------------------------
(* Enumerator / exhaustive check for C27 *)
EXTENDS HandlerContract
CONSTANT Defect   \* "none", or "per_item": the code as found runs the script once per matching filter item (a config that
                  \* EXPECTS the monitor to fire, so that the recorded finding is not vacuous); "empty_update_ignored":
                  \* a reload to an empty handler list is ignored (seeded C27-3)
VARIABLES inp, ph, out
vars == <<inp, ph, out>>
Init == inp \in Inputs /\ ph = "in" /\ out = 0
PerItem(i) == [count |-> IF i.spec = <<>> THEN 1 ELSE Cardinality({ k \in DOMAIN i.spec : ItemMatch(i.spec[k], i.ev) })]
\* the code with seeded C27-3: an update to an EMPTY handler list is ignored, the previous handlers stay in force
RECURSIVE InForce(_, _)
InForce(hist, j) == LET u == LastCfg(hist, j) IN IF hist[u].op = "update" /\ hist[u].specs = <<>> THEN InForce(hist, u) ELSE u
StaleHandlers(i) ==
  [runs |-> [j \in DOMAIN i.hist |-> IF i.hist[j].op # "event" THEN <<>> ELSE
               LET u == InForce(i.hist, j)
               IN SeqOf({ <<u, h, 1>> : h \in { h \in DOMAIN i.hist[u].specs : Match(i.hist[u].specs[h], i.hist[j].ev) } })]]
Eval == /\ ph = "in" /\ ph' = "out" /\ UNCHANGED inp
        /\ out' = IF Defect = "per_item" /\ inp.ep = "filter" THEN PerItem(inp)
                  ELSE IF Defect = "empty_update_ignored" /\ inp.ep = "reload" THEN StaleHandlers(inp)
                  ELSE Expected(inp)
Next == Eval
C27 == ph = "out" => Clauses(inp, out) = {}
\* laws of the definition: escaping removes every raw tab and newline; the payload rule ends non-empty input with a newline
Laws == /\ inp.ep = "members" => \A k \in DOMAIN inp.members :
                                    \A j \in DOMAIN Esc(inp.members[k].name) : Esc(inp.members[k].name)[j] \notin {TAB, NL}
        /\ inp.ep = "payload" /\ inp.payload # <<>> => StdinOf(inp.payload)[Len(StdinOf(inp.payload))] = NL
        /\ inp.ep = "filter" /\ inp.spec = <<>> => Match(inp.spec, inp.ev)
=============================================================================
