--------------------------- MODULE Gen_IPCQuery ---------------------------
(* Schedule generator for IPCQuery: query first, then kinds of steps.          *)
EXTENDS IPCQuery
VARIABLE sel
GenInit == Init /\ sel = 0
Start == steps = 0 /\ sel = 0 /\ (\E b \in BOOLEAN : Query(b)) /\ sel' = 0
Pick == steps > 0 /\ sel = 0 /\ last.a # "end" /\ sel' \in 1..10 /\ UNCHANGED vars
Act ==
  /\ sel # 0 /\ sel' = 0
  /\ CASE sel \in {1, 2}    -> \E n \in Nodes : Inject(TRUE, n, 0)
       [] sel \in {3, 4}    -> \E n \in Nodes, p \in Pays : Inject(FALSE, n, p)
       [] sel \in {5, 6, 7} -> Step
       [] sel = 8           -> Expire
       [] sel = 9           -> IF Q.stalled THEN Unstall ELSE Stall
       [] sel = 10          -> IF steps > 3 THEN End ELSE Step
Skip == sel # 0 /\ sel' = 0 /\ UNCHANGED vars
GenNext == Start \/ Pick \/ Act \/ Skip
=============================================================================
