-------------------------- MODULE Gen_IPCStreams --------------------------
(* Schedule generator for IPCStreams: the kind of step is picked first.        *)
EXTENDS IPCStreams
VARIABLE sel
GenInit == Init /\ sel = 0
Pick == sel = 0 /\ last.a # "close" /\ sel' \in 1..15 /\ UNCHANGED vars
Act ==
  /\ sel # 0 /\ sel' = 0
  /\ CASE sel \in {1, 2, 3} -> \E s \in SeqIds, f \in Filters : Do([a |-> "stream", seq |-> s, f |-> f])
       [] sel = 4          -> \E s \in SeqIds : Do([a |-> "monitor", seq |-> s])
       [] sel = 5          -> \E s \in SeqIds, t \in SeqIds : Do([a |-> "stop", seq |-> s, stop |-> t])
       [] sel = 6          -> \E s \in SeqIds : Do([a |-> "members", seq |-> s])
       [] sel = 7          -> \E s \in SeqIds, n \in {1, 2} : Do([a |-> "query", seq |-> s, n |-> n, id |-> Id])
       [] sel \in 8..11    -> \E evs \in Bursts : Do([a |-> "emit", evs |-> evs])
       [] sel \in 13..15   -> \* slow reader, only worth it while some stream is open
                              IF \E s \in SeqIds : C.strs[s] # 0
                              THEN \E evs \in Bursts, q \in SlowReqs : Do([a |-> "slow", evs |-> evs, req |-> q])
                              ELSE \E s \in SeqIds, f \in Filters : Do([a |-> "stream", seq |-> s, f |-> f])
       [] sel = 12         -> IF steps > 3 /\ steps % 7 = 0 /\ C.mon = 0   \* (a debug monitor turns a burst into a log storm)
                              THEN Do([a |-> "burst", n |-> 1, m |-> BufSize + 88, id |-> Id * 1000])
                              ELSE \E evs \in Bursts : Do([a |-> "emit", evs |-> evs])
Skip == sel # 0 /\ sel' = 0 /\ UNCHANGED vars
GenNext == Pick \/ Act \/ Skip
=============================================================================
