------------------------------ MODULE Gen_KeyOps ------------------------------
(* Models / generators over KeyOps.tla, selected by INIT/NEXT in the config:      *)
(*   RingInit/RingNext    C22: every sequence of key requests, exhaustively       *)
(*                        (also the -simulate generator of request sequences)     *)
(*   AggInit/AggNext      C23: every reply multiset (<= MaxReplies replies over   *)
(*                        the reply variants) x member count x operation; each    *)
(*                        input is one behaviour of one step                      *)
(*   TruncInit/TruncNext  C23: key counts x key lengths x size limits around      *)
(*                        every size the truncation loop compares with            *)
(* In every mode `last` is the input record the driver executes, `obs` what the   *)
(* model expects to be observed, `bad` the monitor clauses violated by the model's *)
(* own observation (invariant Props).  With ACTION_CONSTRAINT Emit every step is   *)
(* printed as a one-step schedule.                                                *)
EXTENDS KeyOps, Json
CONSTANTS MaxSteps,      \* ring: length of request sequences
          MaxReplies, MaxMembers,
          TruncNs, TruncKCs, TruncNL
VARIABLES st, obs, last, steps, bad
vars == <<st, obs, last, steps, bad>>
Inits == { <<1>>, <<2, 1>>, <<1, 2, 3>>, <<3, 1>> }      \* ring: initial keyrings (what the operator's file lists at start)

------------------------------------------------------------------------------
\* the first step is the start of the node: the agent loads the operator's keyring file
RingInit == st = KR(<<>>, <<>>) /\ obs = 0 /\ last = [a |-> "init"] /\ steps = 0 /\ bad = {}
RingNext ==
  /\ steps < MaxSteps
  /\ IF steps = 0
       THEN \E r \in Inits :
              /\ st' = KR(r, r) /\ obs' = KObs(KR(r, r), TRUE, FALSE)
              /\ last' = [a |-> "kinit", init |-> r] /\ steps' = 1
              /\ bad' = C22Clauses(KObs(KR(r, r), TRUE, FALSE), KObs(KR(r, r), TRUE, FALSE))
       ELSE \E op \in {"install", "use", "remove", "list"}, k \in KeyArgs \cup {0} :
              /\ (op = "list") = (k = 0)
              /\ LET r == KApply(st, op, k)
                     o == KObs(r.s, r.ok, r.s.file # st.file) IN
                 /\ st' = r.s
                 /\ obs' = o
                 /\ last' = [a |-> "kop", op |-> op, k |-> k]
                 /\ steps' = steps + 1
                 /\ bad' = bad \cup C22Clauses(obs, o) \cup C22ListClauses(op, obs, o)

------------------------------------------------------------------------------
Variant(kind, keys, pk) == [kind |-> kind, keys |-> keys, pk |-> pk]
ListVariants == << Variant(1, <<1>>, 1), Variant(1, <<1, 2>>, 1), Variant(1, <<1, 2>>, 2), Variant(1, <<2, 3>>, 3),
                   Variant(2, <<1>>, 1), Variant(2, <<1, 2>>, 2),
                   Variant(3, <<>>, 0), Variant(4, <<>>, 0), Variant(5, <<>>, 0), Variant(6, <<>>, 0), Variant(7, <<>>, 0) >>
PlainVariants == << Variant(1, <<>>, 0), Variant(2, <<>>, 0), Variant(3, <<>>, 0), Variant(4, <<>>, 0),
                    Variant(5, <<>>, 0), Variant(6, <<>>, 0), Variant(7, <<>>, 0) >>
\* multisets as non-decreasing index sequences
RECURSIVE NonDec(_, _)
NonDec(n, len) == IF len = 0 THEN { <<>> }
                  ELSE { Append(s, i) : s \in NonDec(n, len - 1), i \in 1..n } \cap
                       { s \in [1..len -> 1..n] : \A a, b \in 1..len : a < b => s[a] <= s[b] }
Multisets(vs) == UNION { { [i \in 1..len |-> vs[s[i]]] : s \in NonDec(Len(vs), len) } : len \in 0..MaxReplies }
AggInputs ==
  { [a |-> "agg", op |-> op, nn |-> nn, rs |-> rs] :
      op \in {"list"}, nn \in 1..MaxMembers, rs \in { m \in Multisets(ListVariants) : Len(m) <= MaxMembers } }
  \cup
  { [a |-> "agg", op |-> op, nn |-> nn, rs |-> rs] :
      op \in {"install", "use", "remove"}, nn \in 1..MaxMembers, rs \in { m \in Multisets(PlainVariants) : Len(m) <= MaxMembers } }

AggInit == st = 0 /\ obs = 0 /\ last = [a |-> "init"] /\ steps = 0 /\ bad = {}
AggNext ==
  /\ steps = 0
  /\ \E inp \in { i \in AggInputs : Len(i.rs) <= i.nn } :
       LET a == Aggregate(inp.nn, inp.rs)
           o == [nn |-> a.nn, nr |-> a.nr, ne |-> a.ne, err |-> a.err,
                 keys |-> SetToSeqAny(FunPairs(a.keys)), pks |-> SetToSeqAny(FunPairs(a.pks))] IN
       /\ last' = inp /\ obs' = o /\ steps' = 1 /\ st' = 0
       /\ bad' = AggClauses(inp, o)

------------------------------------------------------------------------------
TruncLimits(n, kc) ==
  LET pc == IF n = 0 THEN 0 ELSE kc
      sizes == { ReplySize(TruncNL, n, kc, IF n = 0 THEN 41 ELSE 0, pc) }
               \cup { ReplySize(TruncNL, i, kc, TruncMsgLen(i, n), pc) : i \in 0..n }
               \cup { ReplySize(TruncNL, i + 1, kc, TruncMsgLen(i + 1, n), pc) - 1 : i \in 0..n }
  IN { s + d : s \in sizes, d \in {-1, 0, 1} } \cup {1024, 25 * n, 25 * n + 24}
TruncInit == st = 0 /\ obs = 0 /\ last = [a |-> "init"] /\ steps = 0 /\ bad = {}
TruncNext ==
  /\ steps = 0
  /\ \E n \in TruncNs, kc \in TruncKCs :
     \E limit \in TruncLimits(n, kc) :
       LET inp == [a |-> "trunc", n |-> n, kc |-> kc, nl |-> TruncNL, limit |-> limit]
           o == TruncObs(inp, Truncate(n, kc, TruncNL, limit)) IN
       /\ limit > 0
       /\ last' = inp /\ obs' = o /\ steps' = 1 /\ st' = 0
       /\ bad' = TruncClauses(inp, o)

------------------------------------------------------------------------------
Emit == PrintT(<<"EDGE", ToJson(<<last'>>)>>)
Props == bad = {}
=============================================================================
