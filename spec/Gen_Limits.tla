----------------------------- MODULE Gen_Limits -----------------------------
(* Vector enumeration for C33: TLC visits every vector of Limits!Vectors (one  *)
(* state per vector and environment choice), checks the model against its own  *)
(* monitor (INVARIANT C33) and prints each vector as a one-step schedule.      *)
EXTENDS Limits, Json
Emit == (last.a # "init") => PrintT(<<"EDGE", ToJson(<<last>>)>>)
=============================================================================
