------------------------- MODULE Gen_MemberFilter -------------------------
(* Exhaustive / generator wrapper of MemberFilter.  GPop: every string of       *)
(* length <= 2 as a name, statuses and tag values spread over them.  AllNext    *)
(* enumerates every single-pattern request of Reqs(Depth) (one TLC state per    *)
(* test vector, printed as EDGE lines); GenNext picks random single-pattern     *)
(* and mixed requests.                                                          *)
EXTENDS MemberFilter, Json, SequencesExt
CONSTANTS Depth
VARIABLE sel

Strs == SetToSeq(StrsUpTo(2) \ {<<>>})
GPop == [ x \in 1..Len(Strs) |->
            [ n |-> Strs[x], st |-> 1 + (x % 4), ht |-> (x % 3) # 0,
              t |-> Strs[1 + ((x * 5) % Len(Strs))] ] ]

AllInit == Init /\ sel = 0
AllNext == steps < MaxSteps /\ (\E q \in Reqs(Depth) : Ask(q)) /\ UNCHANGED sel
Emit == PrintT(<<"EDGE", ToJson(<<last'>>)>>)

\* the generator only chooses requests (TLC's simulator builds every successor before it picks one,
\* so outputs are not computed here: the trace spec computes them for the requests actually run)
GenAsk(q) ==
  /\ req' = q /\ UNCHANGED <<out, bad, tags>>
  /\ last' = [a |-> "filter", name |-> q.name, status |-> q.status, tag |-> q.tag]
  /\ steps' = steps + 1
GenInit == Init /\ sel = 0
Pick == sel = 0 /\ sel' \in 1..4 /\ UNCHANGED vars
Do == /\ sel # 0 /\ sel' = 0 /\ steps < MaxSteps
      /\ CASE sel \in {1, 2} -> \E q \in Reqs(Depth) : GenAsk(q)
           [] OTHER         -> \E q \in Mixed : GenAsk(q)
GenNext == Pick \/ Do

ASSUME LawsHold == Depth > 1 \/ Laws(1, 3)
=============================================================================
