--------------------------- MODULE Gen_MsgShapes ---------------------------
(* Enumerator for C09: every initial state is one input of MsgShapes!Inputs; Eval computes the expected  *)
(* observation (Defect = "none") or the one of the code as found (Defect = "code", a config that         *)
(* EXPECTS the monitor to fire).                                                                          *)
EXTENDS MsgShapes
CONSTANT Defect
VARIABLES inp, ph, out
vars == <<inp, ph, out>>
Init == inp \in Inputs /\ ph = "in" /\ out = 0
Eval == /\ ph = "in" /\ ph' = "out" /\ UNCHANGED inp
        /\ out' = IF Defect = "code" THEN CodeAsFound(inp) ELSE Expected(inp)
Next == Eval
C09 == ph = "out" => Clauses(inp, out) = {}
WellFormed == /\ inp.f = 0 => inp.f2 = 0
              /\ inp.cfg \in 0..3
=============================================================================
