-------------------------- MODULE Gen_QueryFilter --------------------------
(* Vector enumeration for C08 (F-pattern): the initial states are ALL scripts  *)
(* of the chosen slice; a script is a boot record followed by deliveries.      *)
(* TLC runs every script through QueryFilter (checking that the model passes   *)
(* its own monitor: INVARIANT C08) and prints it, with the action records, as  *)
(* <<"EDGE", json>> when it is finished.                                        *)
(*                                                                            *)
(* Pattern scripts: one per pattern of Patterns(RD): a node that carries every  *)
(*   string over {a,b,c} of length <= VL as the value of a tag, one delivery   *)
(*   per tag (and one for a missing tag) with the single filter <tag ~ pattern>*)
(* Combination scripts: one per (filter sequence over FAlpha up to a length,   *)
(*   ack, no-broadcast, name): first sight, exact repeat, same time / other    *)
(*   id, other time / same id.                                                 *)
(* Slices: "pat" = pattern scripts; "combo" = sequences <= 2, all names;       *)
(*   "quick" = patterns + sequences <= 1 with all names + sequences <= 2 with  *)
(*   the application name + histories; "deep" = sequences <= 3 with the        *)
(*   application name; "hist" = every sequence of HL deliveries over four      *)
(*   (lt, id) keys, each selecting or excluding the node.                      *)
EXTENDS QueryFilter, SequencesExt, Json

CONSTANTS Slice,   \* "pat" | "combo" | "quick" | "deep"
          RD,      \* regex AST depth of the pattern slice
          VL,      \* tag values: every string over {a,b,c} up to this length
          HL       \* length of the delivery histories

VARIABLES script, hist
gvars == <<vars, script, hist>>

Vals    == SetToSeq(StrsUpTo(VL))
ValTags == [i \in 1..Len(Vals) |-> [t |-> i, v |-> Vals[i]]]

PatScript(p) ==
  << [a |-> "boot", tags |-> ValTags] >> \o
  [i \in 1..(Len(Vals) + 1) |->
      \* tag Len(Vals)+1 is missing on the node
      Q(1, i, NmApp, TRUE, FALSE, << FTag(i, p) >>)]
PatScripts == { PatScript(p) : p \in Patterns(RD) }

AllNames == {NmApp, NmPing, NmUnknown, NmBare, NmShort, NmInfix, NmUpper}
TwoNames == {NmApp, NmUnknown}

ComboScript(fs, ack, nb, nm) ==
  << [a |-> "boot", tags |-> ComboTags],
     Q(1, 1, nm, ack, nb, fs), Q(1, 1, nm, ack, nb, fs), Q(1, 2, nm, ack, nb, fs), Q(2, 1, nm, ack, nb, fs) >>
ComboScripts(flen, names) ==
  { ComboScript(fs, ack, nb, nm) : fs \in SeqsUpTo(FAlpha, flen), ack \in BOOLEAN, nb \in BOOLEAN, nm \in names }

\* histories: every sequence of HL deliveries over (lt, id) in {1,2} x {1,2}, each either selecting
\* or excluding the node (ack requested, re-broadcast allowed)
HistQs == { Q(lt, id, NmApp, TRUE, FALSE, fs) : lt \in 1..2, id \in 1..2, fs \in { <<>>, << FNode(<<"n1">>) >> } }
HistScripts(n) == { << [a |-> "boot", tags |-> ComboTags] >> \o s : s \in [1..n -> HistQs] }

\* wire-field boundaries: query ids 0 / 2^32-1 / 2^31 (model ids 0, 900, 901), each seen twice, with
\* undefined flag bits 2 and 31 set besides every combination of the two defined ones
WireScripts ==
  { << [a |-> "boot", tags |-> ComboTags],
       QX(1, 0, NmApp, ack, nb, fs, xf), QX(1, 900, NmApp, ack, nb, fs, xf), QX(1, 901, NmApp, ack, nb, fs, xf),
       QX(1, 0, NmApp, ack, nb, fs, xf), QX(1, 900, NmApp, ack, nb, fs, xf) >> :
     ack \in BOOLEAN, nb \in BOOLEAN, fs \in { <<>>, << FNode(<<"n1">>) >> }, xf \in { <<>>, <<2>>, <<31>>, <<2, 31>> } }

Scripts ==
  CASE Slice = "pat"   -> PatScripts
    [] Slice = "combo" -> ComboScripts(2, AllNames)
    [] Slice = "quick" -> PatScripts \cup ComboScripts(1, AllNames) \cup ComboScripts(2, {NmApp}) \cup HistScripts(HL)
                            \cup WireScripts
    [] Slice = "deep"  -> ComboScripts(3, {NmApp})
    [] Slice = "hist"  -> HistScripts(HL) \cup WireScripts

GenInit == Init /\ script \in Scripts /\ hist = <<>>

Do(act) == IF act.a = "boot" THEN Boot(act.tags) ELSE Deliver(act)

GenNext ==
  /\ script # <<>>
  /\ Do(Head(script))
  /\ script' = Tail(script)
  /\ hist' = Append(hist, Head(script))

Emit == (script = <<>> /\ hist # <<>>) => PrintT(<<"EDGE", ToJson(hist)>>)

ASSUME RegexLaws(1, 3)
=============================================================================
