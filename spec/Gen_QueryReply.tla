---------------------------- MODULE Gen_QueryReply ----------------------------
(* Schedule generator for C07 (TLC -simulate): sequences of whole operations     *)
(* (Query() calls, reply deliveries, deadlines, timer bodies, application reads) *)
(* executed one after another.  Two-phase (Pick a kind, Do one operation of that *)
(* kind) so that the many reply variants do not starve the other operations.     *)
(* The driver also splits these sequences into concurrent threads (see the      *)
(* report), so they double as the programs of the scheduler runs.                *)
EXTENDS QueryReply
CONSTANTS MaxSteps
VARIABLES S, M, last, steps, sel, ntag
vars == <<S, M, last, steps>>

GenInit == S = InitS(1) /\ M = MonInit /\ last = [a |-> "init"] /\ steps = 0 /\ sel = 0 /\ ntag = 0

Apply(o) ==
  \E s2 \in Macro(S, 1, o) :
     /\ S' = s2
     /\ M' = MonStep(M, ModelObs(s2))
     /\ last' = [a |-> "op", o |-> o]
     /\ steps' = steps + 1
     /\ ntag' = IF o.op = "reply" THEN ntag + 1 ELSE ntag

Registered == { k \in Queries : S.q[k].st = 2 }

Pick == sel = 0 /\ sel' \in 1..8 /\ UNCHANGED <<vars, ntag>>
Do ==
  /\ sel # 0 /\ sel' = 0 /\ steps < MaxSteps
  /\ CASE sel = 1 -> \E k \in Queries : Apply(QueryOp(k))
       \* replies addressed to a registered query (right time and id)
       [] sel \in {2, 3} -> \E k \in Registered, from \in Nodes, ack \in {0, 1} :
                              Apply(ReplyOp(S.q[k].lt, k, from, ack, ntag + 1))
       \* any reply: other times, other ids
       [] sel = 4 -> \E lt \in 1..MaxLT, idr \in 0..NQ, from \in Nodes, ack \in {0, 1} :
                       Apply(ReplyOp(lt, idr, from, ack, ntag + 1))
       [] sel = 5 -> \E k \in Queries : Apply(DlOp(k))
       [] sel = 6 -> \E k \in Queries : Apply(TimerOp(k))
       [] sel = 7 -> \E k \in Queries : Apply(RecvOp(k))
       [] sel = 8 -> IF Registered = {} THEN \E k \in Queries : Apply(QueryOp(k))
                                        ELSE \E k \in Queries : Apply(RecvOp(k))
Skip == sel # 0 /\ sel' = 0 /\ UNCHANGED <<vars, ntag>>
GenNext == Pick \/ Do \/ Skip
Props == M.bad = {}
=============================================================================
