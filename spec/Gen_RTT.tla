------------------------------ MODULE Gen_RTT ------------------------------
(* Enumerator / exhaustive check for C21 *)
EXTENDS RTT
VARIABLES inp, ph, out
vars == <<inp, ph, out>>
Init == inp \in Inputs /\ ph = "in" /\ out = 0
Eval == /\ ph = "in" /\ ph' = "out" /\ UNCHANGED inp /\ out' = Expected(inp)
Next == Eval
C21 == ph = "out" => Clauses(inp, out) = {}
LawsHold == Laws(inp)
=============================================================================
