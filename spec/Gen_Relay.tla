------------------------------ MODULE Gen_Relay ------------------------------
(* Vector enumeration for C35: one TLC state per vector of Relay!Vectors,      *)
(* printed as a one-step schedule (the outcomes are produced by the real code; *)
(* the model's own outcomes are checked by Relay.tla's Next with INVARIANT C35)*)
EXTENDS Relay, Json
GenNext == last.a = "init" /\ \E v \in Vectors : Do(v, [runs |-> <<>>])
Emit == (last.a # "init") => PrintT(<<"EDGE", ToJson(<<last>>)>>)
=============================================================================
