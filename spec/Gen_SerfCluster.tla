-------------------------- MODULE Gen_SerfCluster --------------------------
(* Schedule generator: first pick the kind of step, then one step of that kind. *)
EXTENDS SerfCluster
VARIABLES sel, steps
GenInit == Init /\ sel = 0 /\ steps = 0
Pick == sel = 0 /\ sel' \in 1..9 /\ UNCHANGED <<vars, steps>>
Do ==
  /\ sel # 0 /\ sel' = 0 /\ steps' = steps + 1
  /\ CASE sel \in {1, 2} -> \E n \in Nodes, m \in pool : Deliver(n, m)
       [] sel = 3 -> \E n, m \in Nodes : PushPull(n, m)
       [] sel = 4 -> \E n, x \in Nodes : MLJoin(n, x) \/ MLLeave(n, x)
       [] sel = 5 -> phase = "run" /\ ops < MaxOps /\ \E n, x \in Nodes : OpForceLeave(n, x, 0)   \* prune sleeps BroadcastTimeout inside the handler; covered by the replica family
       [] sel = 6 -> phase = "run" /\ ops < MaxOps /\ \E n \in Nodes : OpLeaveA(n) \/ OpLeave(n)
       [] sel = 7 -> phase = "run" /\ ops < MaxOps /\ ((\E n \in Nodes : OpCrash(n)) \/ (\E n2, m2 \in Nodes : OpRejoin(n2, m2)))
       [] sel = 8 -> \/ \E n \in Nodes : OpLeaveB(n)
                     \/ phase = "run" /\ ops < MaxOps /\ \E n, m \in Nodes : OpJoin(n, m)
       [] sel = 9 -> IF ops >= MaxOps THEN BeginSync ELSE \E n \in Nodes, m \in pool : Deliver(n, m)
Skip == sel # 0 /\ sel' = 0 /\ UNCHANGED <<vars, steps>>
GenNext == Pick \/ Do \/ Skip
=============================================================================
