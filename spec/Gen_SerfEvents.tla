--------------------------- MODULE Gen_SerfEvents ---------------------------
(* Schedule generator for SerfEvents (tlc -simulate).  Two phases (Pick a kind,   *)
(* Do one input of that kind) so that the kinds with many variants do not starve  *)
(* the others; state-sync payloads are drawn with RandomElement (bound through a  *)
(* singleton set so that the action record and the step use the same value).      *)
EXTENDS SerfEvents
VARIABLE sel
GenInit == Init /\ sel = 0
Pick == sel = 0 /\ sel' \in 1..15 /\ UNCHANGED vars

KSeqs == SeqsUpTo(Contents, PPK) \ {<<>>}
RandSlot == [lt |-> RandomElement(MsgT), ks |-> RandomElement(KSeqs)]
RandPP == [elt |-> RandomElement(MsgT), qlt |-> RandomElement(MsgT \cup {0}),
           evs |-> [i \in 1..RandomElement(0..PPSlots) |-> RandSlot]]
\* what a peer in sync with this node would send: the node's own buffer and clocks
OwnPP == [elt |-> N.ec, qlt |-> N.qc,
          evs |-> LET idx == { i \in 0..(N.b - 1) : N.ebuf[i].lt >= 0 }
                      RECURSIVE Sq(_)
                      Sq(S) == IF S = {} THEN <<>> ELSE LET i == CHOOSE x \in S : \A y \in S : x <= y
                                                         IN <<[lt |-> N.ebuf[i].lt, ks |-> N.ebuf[i].xs]>> \o Sq(S \ {i})
                  IN Sq(idx)]
\* what a real peer can hold: event clock elt >= 1, slots strictly below it (not MAX) in ascending order, no repeats
KSeqsD == { ks \in KSeqs : \A a, c \in DOMAIN ks : a # c => ks[a] # ks[c] }
RECURSIVE Asc(_)
Asc(S) == IF S = {} THEN <<>> ELSE LET t == CHOOSE x \in S : \A y \in S : ~Lt(y, x)
                                   IN <<[lt |-> t, ks |-> RandomElement(KSeqsD)]>> \o Asc(S \ {t})
RandJoinPP == LET e == RandomElement(MsgT \ {0})
                  below == { t \in MsgT : Lt(t, e) /\ t # MAX }
                  pick == RandomElement({ S \in SUBSET below : Cardinality(S) <= PPSlots })
              IN [elt |-> e, qlt |-> RandomElement(MsgT \ {0}), evs |-> Asc(pick)]
Flags == {<<0, 0>>, <<1, 0>>, <<1, 1>>, <<0, 1>>}
Near(c) == { t \in MsgT : Pos(t) + N.b + 1 >= Pos(c) /\ Pos(t) <= Pos(c) + N.b + 1 }   \* around the window edge

Do ==
  /\ sel # 0 /\ sel' = 0 /\ steps < MaxSteps
  /\ CASE sel \in {1, 2} -> \E lt \in MsgT, k \in Contents : Ev(lt, k)
       [] sel = 3 -> \E lt \in Near(N.ec), k \in Contents : Ev(lt, k)
       [] sel = 4 -> \E e \in Kind(1, M.rcv) : Ev(e[2], e[3])                       \* duplicate
       [] sel = 5 -> \E lt \in MsgT, id \in QIds, nb \in {0, 1}, flt \in {0, 1} : Qry(lt, id, nb, flt)
       [] sel = 6 -> \E lt \in { t \in MsgT : Pos(t) + N.bq + 1 >= Pos(N.qc) /\ Pos(t) <= Pos(N.qc) + N.bq + 1 }, id \in QIds : Qry(lt, id, 0, 0)
       [] sel = 7 -> \E e \in Kind(2, M.rcv), nb \in {0, 1} : e[3] < 100 /\ Qry(e[2], e[3], nb, 0)
       [] sel \in {8, 9} -> \E pp \in {RandPP}, f \in {RandomElement(Flags)} : Merge(pp, f[1], f[2])
       [] sel = 10 -> \E f \in Flags : Merge(OwnPP, f[1], f[2])
       [] sel = 11 -> \E k \in Contents : Uev(k)
       [] sel = 12 -> Lq
       [] sel = 15 -> \E pp \in {RandJoinPP}, ign \in {0, 1} : Join(pp, ign)
       [] sel \in {13, 14} -> \E crash \in {0, 1}, re \in -1..MAX, rq \in -1..MAX : Restart(crash, re, rq)
Skip == sel # 0 /\ sel' = 0 /\ UNCHANGED vars
GenNext == Pick \/ Do \/ Skip
=============================================================================
