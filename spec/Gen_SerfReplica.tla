-------------------------- MODULE Gen_SerfReplica --------------------------
(* Schedule generator for SerfReplica.  TLC's simulator picks uniformly among    *)
(* successor STATES, and push/pull merges have hundreds of variants, so the      *)
(* generator first picks the KIND of input (sel) and then an input of that kind. *)
EXTENDS SerfReplica
VARIABLE sel
GenInit == Init /\ sel = 0
Pick == sel = 0 /\ sel' \in 1..9 /\ UNCHANGED vars
Do ==
  /\ sel # 0 /\ sel' = 0 /\ steps < MaxSteps
  /\ CASE sel = 1 -> \E x \in Foreign : MLJoin(x)
       [] sel = 2 -> \E x \in Foreign : MLLeave(x)
       [] sel \in {3, 4} -> \E ty \in {1, 2}, x \in Names, lt \in 0..MaxLT, prune \in {0, 1} :
                              (ty = 1 => prune = 0) /\ (sel = 4 => x = Self) /\ NetMsg(ty, x, lt, prune)
       [] sel = 5 -> \E pp \in PPs : NetMerge(pp)
       [] sel = 6 -> \E x \in Names, prune \in {0, 1} : ApiForceLeave(x, prune)
       [] sel = 7 -> ApiBroadcastJoin
       [] sel = 8 -> \/ \E f \in IncSubs(R.failedL), l \in IncSubs(R.leftL) : ApiReap(f, l)
                     \/ \E s \in IncSubs(IntSeq) : TimeExpire(s)
       [] sel = 9 -> IF steps > 12 THEN ApiLeave ELSE \E x \in Foreign : MLJoin(x) \/ MLLeave(x) \/ MLUpdate(x)
Skip == sel # 0 /\ sel' = 0 /\ UNCHANGED vars
GenNext == Pick \/ Do \/ Skip
=============================================================================
