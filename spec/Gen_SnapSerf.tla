---------------------------- MODULE Gen_SnapSerf ----------------------------
(* Generator of Serf-level histories for C13 (snapshot family): a real quiet serf.Serf node with a   *)
(* snapshot file, driven through its memberlist delegates and its public API.  Peers 2..NP+1 (name 1 *)
(* is the node itself).  st[p] is the peer's status in the member table of the CURRENT incarnation   *)
(* (0 unknown, 1 alive, 2 failed, 3 left): it is empty after every restart, while the snapshot may   *)
(* still know the peers -- the situation in which Serf.Leave sees no live peer.                       *)
(* Kinds: 1 peer joins, 2 peer fails, 3 peer leaves, 4 restart without leave (shutdown, start),       *)
(*        5 graceful Serf.Leave, 6 shutdown (after the leave: then start = the judged observation)    *)
EXTENDS Integers
CONSTANTS NP, MaxSteps
VARIABLES up, left, st, last, steps, sel
vars == <<up, left, st, last, steps>>
Peers == 2..(NP + 1)
GenInit == up = FALSE /\ left = FALSE /\ st = [p \in Peers |-> 0] /\ last = [a |-> "init"] /\ steps = 0 /\ sel = 0
Act(r) == last' = r /\ steps' = steps + 1
Start    == ~up /\ up' = TRUE /\ left' = FALSE /\ st' = [p \in Peers |-> 0] /\ Act([a |-> "started"])
PJoin(p) == up /\ ~left /\ st[p] # 1 /\ st' = [st EXCEPT ![p] = 1] /\ Act([a |-> "pjoin", x |-> p]) /\ UNCHANGED <<up, left>>
PFail(p) == up /\ ~left /\ st[p] = 1 /\ st' = [st EXCEPT ![p] = 2] /\ Act([a |-> "pfail", x |-> p]) /\ UNCHANGED <<up, left>>
PLeft(p) == up /\ ~left /\ st[p] = 1 /\ st' = [st EXCEPT ![p] = 3] /\ Act([a |-> "pleave", x |-> p]) /\ UNCHANGED <<up, left>>
Leave    == up /\ ~left /\ left' = TRUE /\ Act([a |-> "leave"]) /\ UNCHANGED <<up, st>>
Shutdown == up /\ up' = FALSE /\ Act([a |-> "shutdown"]) /\ UNCHANGED <<left, st>>
Pick == sel = 0 /\ sel' \in 1..6 /\ UNCHANGED vars
GenDo ==
  /\ sel # 0 /\ sel' = 0 /\ steps < MaxSteps
  /\ IF ~up THEN Start
     ELSE CASE sel = 1 -> \E p \in Peers : PJoin(p)
            [] sel = 2 -> \E p \in Peers : PFail(p)
            [] sel = 3 -> \E p \in Peers : PLeft(p)
            [] sel = 4 -> ~left /\ steps > 1 /\ Shutdown
            [] sel = 5 -> steps > 2 /\ Leave
            [] sel = 6 -> left /\ Shutdown
Skip == sel # 0 /\ sel' = 0 /\ UNCHANGED vars
GenNext == Pick \/ GenDo \/ Skip
=============================================================================
