---------------------------- MODULE Gen_Snapshot ----------------------------
(* Schedule generator for the snapshot family.  TLC's simulator picks uniformly among successor STATES *)
(* and feeds have many variants, so the generator first picks the KIND of input (sel) and then one     *)
(* input of that kind.  `last` (a sequence of one or two records: input, crash) is the schedule.       *)
(* Kinds: 1 join 2 leave/failed 3 update/reap 4 user 5 query 6 tick 7 clock advance 8 time advance     *)
(*        9 graceful leave 10 shutdown (then start) 11 crash inside an input 12 crash while idle       *)
EXTENDS Snapshot
VARIABLE sel
CONSTANTS GenKinds     \* kinds the simulator may pick

GenInit == Init /\ sel = 0
Pick == sel = 0 /\ sel' \in GenKinds /\ UNCHANGED vars
WithFault(a) == \E k \in FailSet(a) : Input([a EXCEPT !.fail = k])
Feeds(S) == \E e \in S : WithFault(e)
GenDo ==
  /\ sel # 0 /\ sel' = 0 /\ steps < MaxSteps
  /\ IF W.phase = "down" THEN W.sess < MaxSess /\ Start
     ELSE CASE sel = 1  -> Feeds({ e \in EvSet : e.ty = 1 })
            [] sel = 2  -> Feeds({ e \in EvSet : e.ty \in {2, 3} })
            [] sel = 3  -> Feeds({ e \in EvSet : e.ty \in {4, 5} })
            [] sel = 4  -> Feeds({ e \in EvSet : e.ty = 6 })
            [] sel = 5  -> Feeds({ e \in EvSet : e.ty = 7 })
            [] sel = 6  -> WithFault([a |-> "tick", fail |-> 0])
            [] sel = 7  -> \E v \in 1..MaxT : Wit(v)
            [] sel = 8  -> \E d \in {6, CAP} : Adv(d)
            [] sel = 9  -> LeaveOK /\ ~W.S.mem.lv /\ steps > 4 /\ WithFault([a |-> "leave", fail |-> 0])
            [] sel = 10 -> steps > 3 /\ WithFault([a |-> "shutdown", fail |-> 0])
            [] sel = 11 -> CrashOK /\ \E a \in Inputs : InputCrash(a)
            [] sel = 12 -> CrashOK /\ IdleCrash
Skip == sel # 0 /\ sel' = 0 /\ UNCHANGED vars
GenNext == Pick \/ GenDo \/ Skip
=============================================================================
