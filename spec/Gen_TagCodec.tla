---------------------------- MODULE Gen_TagCodec ----------------------------
(* Enumerator / exhaustive check for C32: initial states = inputs; TLC checks the codec laws over all tag  *)
(* maps and protocol versions and that the expected observation passes the monitor.                         *)
EXTENDS TagCodec
CONSTANT Defect
VARIABLES inp, ph, out
vars == <<inp, ph, out>>
Init == inp \in Inputs /\ ph = "in" /\ out = 0
Eval == /\ ph = "in" /\ ph' = "out" /\ UNCHANGED inp
        /\ out' = IF Defect = "code" THEN CodeAsFound(inp) ELSE Expected(inp)
Next == Eval
C32 == ph = "out" => Clauses(inp, out) = {}
Laws == inp.ep = "tags" => CodecLaw(inp.pv, inp.tags)
LawStrict == inp.ep = "tags" => CodecLawStrict(inp.pv, inp.tags)
=============================================================================
