-------------------------- MODULE HandlerContract --------------------------
(* C27 -- event handler scripts are invoked per the documented contract          *)
(* (cmd/serf/command/agent/event_handler.go, invoke.go,                          *)
(* docs/agent/event-handlers.html.markdown), F-pattern.                          *)
(*                                                                               *)
(* Strings are sequences of SYMBOLS: 1 'a', 2 TAB, 3 NL, 4 backslash, 5 '=',     *)
(* 6 ',', 7 't', 8 'n', 9 'A', 10 '-', 11 '_', 12 '7', 13 "role", 14 "ROLE"       *)
(* (a symbol may stand for several bytes); 100+c = the textual address of class   *)
(* c (1 IPv4, 2 IPv6, 3 none).  99 = any other byte.                              *)
(*                                                                               *)
(* Input [a, ep, spec, ev, ename, self, tags, lt, members, payload, exit, N,      *)
(*        limit, stream]; the families (ep):                                      *)
(*  "filter"   handler `spec=script` (spec = sequence of items [t, n]: event type *)
(*             or "*", n = 0 no name / 1..5 a user-event or query name) and an    *)
(*             event ev = [t, n]; observed: how often the script ran              *)
(*  "env"      event ev (name `ename`, Lamport time class lt) handled by a node   *)
(*             named `self` with `tags` (pairs <<name, value>>); observed: the    *)
(*             SERF_* environment the script saw                                  *)
(*  "members"  member event with `members` = [name, addr, tags]; observed: the    *)
(*             script's standard input, split at raw newlines and raw tabs        *)
(*  "payload"  user event / query with `payload`; observed: standard input        *)
(*  "reload"   hist = the handlers the agent starts with, then configuration       *)
(*             reloads (UpdateScripts) and events; observed per event: which      *)
(*             handlers (reload step, index) ran and how often                    *)
(*  "response" query; the script writes N bytes to `stream` and exits with        *)
(*             `exit`; the node's QueryResponseSizeLimit is `limit`; observed:    *)
(*             the reply packet on the transport                                  *)
EXTENDS Integers, Sequences, FiniteSets, TLC

TAB == 2  NL == 3  BSL == 4  EQ == 5  COMMA == 6
ROLE == <<13>>
MaxOut == 8192          \* the handler keeps the last 8 KB of output
Overhead == 200         \* bound on the encoding overhead of a reply (input classes stay clear of the boundary)

MemberTypes == {"member-join", "member-leave", "member-failed", "member-update", "member-reap"}
Types == MemberTypes \cup {"user", "query"}

------------------------------------------------------------------------------
(* filter grammar -> match predicate *)
ItemMatch(it, ev) == \/ it.t = "*"
                     \/ /\ it.t = ev.t
                        /\ (it.t \in {"user", "query"} /\ it.n # 0) => ev.n = it.n
Match(spec, ev) == spec = <<>> \/ \E i \in DOMAIN spec : ItemMatch(spec[i], ev)
Overlap(spec, ev) == Cardinality({ i \in DOMAIN spec : ItemMatch(spec[i], ev) }) > 1

(* escaping of standard input fields *)
RECURSIVE Esc(_)
Esc(s) == IF s = <<>> THEN <<>>
          ELSE (IF Head(s) = TAB THEN <<BSL, 7>> ELSE IF Head(s) = NL THEN <<BSL, 8>> ELSE <<Head(s)>>) \o Esc(Tail(s))

(* tag name sanitizing: upper-case, everything outside A-Z 0-9 _ becomes _ *)
SanSym(c) == CASE c = 1 -> 9 [] c = 9 -> 9 [] c = 12 -> 12 [] c = 11 -> 11 [] c = 13 -> 14 [] c = 14 -> 14 [] OTHER -> 11
SanSeq(s) == [i \in DOMAIN s |-> SanSym(s[i])]

RoleOf(tags) == IF \E i \in DOMAIN tags : tags[i][1] = ROLE
                THEN tags[CHOOSE i \in DOMAIN tags : tags[i][1] = ROLE][2] ELSE <<>>
Pair(t) == t[1] \o <<EQ>> \o t[2]
TagStrings(tags) == IF Len(tags) = 0 THEN {<<>>}
                    ELSE IF Len(tags) = 1 THEN {Pair(tags[1])}
                    ELSE {Pair(tags[1]) \o <<COMMA>> \o Pair(tags[2]), Pair(tags[2]) \o <<COMMA>> \o Pair(tags[1])}

Min(x, y) == IF x < y THEN x ELSE y
Responds(exit, N, limit) == exit = 0 /\ N > 0 /\ Min(N, MaxOut) + Overhead <= limit
StdinOf(payload) == IF payload # <<>> /\ payload[Len(payload)] # NL THEN payload \o <<NL>> ELSE payload

(* reload histories: hist = sequence of steps [op, specs, nilh, ev]; op = "init" (the handlers the agent starts with),  *)
(* "update" (a configuration reload: UpdateScripts(newConfig.EventScripts()); nilh = 1: EventHandlers is nil, else a     *)
(* possibly empty list) or "event".  The handlers in force at step j are those of the most recent init/update before j. *)
LastCfg(hist, j) == CHOOSE u \in 1..(j - 1) : hist[u].op # "event" /\ \A w \in (u + 1)..(j - 1) : hist[w].op = "event"
\* <<u, i, 1>>: handler i of the configuration given at step u ran exactly once
ExpectedRuns(hist, j) == LET u == LastCfg(hist, j)
                         IN { <<u, i, 1>> : i \in { h \in DOMAIN hist[u].specs : Match(hist[u].specs[h], hist[j].ev) } }
RECURSIVE SeqOf(_)
SeqOf(S) == IF S = {} THEN <<>> ELSE LET e == CHOOSE e \in S : TRUE IN <<e>> \o SeqOf(S \ {e})

------------------------------------------------------------------------------
(* monitor *)
TagVarsOK(tags, tv) ==
  /\ \A i \in DOMAIN tags : \E j \in DOMAIN tv : tv[j][1] = SanSeq(tags[i][1])
  /\ \A j \in DOMAIN tv : \E k \in DOMAIN tags : SanSeq(tags[k][1]) = tv[j][1] /\ tv[j][2] = tags[k][2]
  /\ \A j, k \in DOMAIN tv : tv[j][1] = tv[k][1] => j = k

Opt(present, v) == IF present THEN <<1, v>> ELSE <<0, <<>>>>
OptI(present, v) == IF present THEN <<1, v>> ELSE <<0, 0>>

MemberLineOK(m, fields) ==
  /\ Len(fields) = 4
  /\ fields[1] = Esc(m.name)
  /\ fields[2] = <<100 + m.addr>>
  /\ fields[3] = Esc(RoleOf(m.tags))
  /\ \E s \in TagStrings(m.tags) : fields[4] = Esc(s)

Clauses(i, o) ==
  CASE i.ep = "filter" ->
         (IF (o.count >= 1) <=> Match(i.spec, i.ev) THEN {} ELSE {"C27_runs_iff_match"})
         \cup (IF o.count > 1 THEN {"C27_runs_once"} ELSE {})
    [] i.ep = "env" ->
         IF o.count # 1 THEN {"C27_runs_iff_match"} ELSE
         (IF o.event = i.ev.t THEN {} ELSE {"C27_env_event"})
         \cup (IF o.selfname = i.self /\ o.selfrole = RoleOf(i.tags) THEN {} ELSE {"C27_env_self"})
         \cup (IF TagVarsOK(i.tags, o.tagvars) THEN {} ELSE {"C27_env_tags"})
         \cup (IF /\ o.uev = Opt(i.ev.t = "user", i.ename) /\ o.ult = OptI(i.ev.t = "user", i.lt)
                  /\ o.qn = Opt(i.ev.t = "query", i.ename) /\ o.qlt = OptI(i.ev.t = "query", i.lt)
               THEN {} ELSE {"C27_env_name_ltime"})
    [] i.ep = "members" ->
         IF o.count # 1 THEN {"C27_runs_iff_match"} ELSE
         (IF Len(o.lines) = Len(i.members) /\ (Len(i.members) > 0 => o.trail = 1) THEN {} ELSE {"C27_stdin_one_line_per_member"})
         \cup (IF Len(o.lines) = Len(i.members) /\ \A k \in DOMAIN i.members : MemberLineOK(i.members[k], o.lines[k])
               THEN {} ELSE {"C27_stdin_member_fields"})
    [] i.ep = "payload" ->
         IF o.count # 1 THEN {"C27_runs_iff_match"} ELSE
         (IF o.stdin = StdinOf(i.payload) THEN {} ELSE {"C27_stdin_payload"})
    [] i.ep = "response" ->
         IF o.count # 1 THEN {"C27_runs_iff_match"} ELSE
         IF Responds(i.exit, i.N, i.limit)
         THEN (IF o.sent = 1 /\ o.len = Min(i.N, MaxOut) /\ o.tail = 1 THEN {} ELSE {"C27_query_response"})
         ELSE (IF o.sent = 0 THEN {} ELSE {"C27_query_response_unexpected"})
    [] i.ep = "reload" ->
         \* the handlers that ran for an event = the handlers of the most recent update before it that match it, once each
         IF \A j \in DOMAIN i.hist : i.hist[j].op = "event" =>
               /\ { o.runs[j][m] : m \in DOMAIN o.runs[j] } = ExpectedRuns(i.hist, j)
               /\ Len(o.runs[j]) = Cardinality(ExpectedRuns(i.hist, j))
         THEN {} ELSE {"C27_runs_configured_handlers"}

Tags(i) == {i.ep} \cup (IF i.ep = "filter" /\ Overlap(i.spec, i.ev) THEN {"overlap"} ELSE {})
           \cup (IF i.ep = "reload" /\ \E j \in DOMAIN i.hist : i.hist[j].op = "update" /\ i.hist[j].specs = <<>> THEN {"to_empty"} ELSE {})

------------------------------------------------------------------------------
(* input domain *)
Rec(ep, spec, ev, ename, self, tags, lt, members, payload, exit, N, limit, stream) ==
  [a |-> "in", ep |-> ep, spec |-> spec, ev |-> ev, ename |-> ename, self |-> self, tags |-> tags, lt |-> lt,
   members |-> members, payload |-> payload, exit |-> exit, N |-> N, limit |-> limit, stream |-> stream, hist |-> <<>>]
It(t, n) == [t |-> t, n |-> n]
AnyEv == It("member-join", 0)

Specs == {<<>>} \cup { <<It(t, 0)>> : t \in Types \cup {"*", "bogus"} }
         \cup { <<It(t, n)>> : t \in {"user", "query"}, n \in 1..2 }
         \cup { <<It("member-join", 0), It("member-leave", 0)>>, <<It("user", 1), It("query", 2)>>,
                <<It("member-failed", 0), It("user", 2)>>, <<It("query", 1), It("member-update", 0)>>,
                <<It("user", 1), It("user", 2)>>,
                <<It("user", 0), It("user", 1)>>, <<It("*", 0), It("user", 0)>> }      \* the last two overlap
Events == { It(t, 0) : t \in MemberTypes } \cup { It(t, n) : t \in {"user", "query"}, n \in 0..2 }
\* specs listing several names of one kind where one name is a proper prefix of another (name ids: 1 "deploy",
\* 3 "d", 4 "de", 5 "deploy-prod"; names are matched by EQUALITY), both orders, exact duplicates, and mixed with
\* "*", a bare kind and member kinds; events carrying each of those names
PNames == {1, 3, 4, 5}
PrefixSpecs ==
  UNION { { <<It(k, p), It(k, q)>> : p \in PNames, q \in PNames }                      \* incl. p = q: exact duplicates
          \cup { <<It("*", 0), It(k, 4)>>, <<It(k, 5), It(k, 0)>>, <<It(k, 0), It(k, 3)>>,
                 <<It("member-join", 0), It(k, 3), It(k, 4)>>, <<It(k, 5), It("member-leave", 0), It(k, 1)>>,
                 <<It(k, 3), It(k, 4), It(k, 1)>>, <<It(k, 1), It(k, 4), It(k, 3)>> } : k \in {"user", "query"} }
  \cup { <<It("user", 3), It("query", 4)>>, <<It("query", 1), It("user", 5)>>, <<It("user", 4), It("query", 4)>> }
PrefixEvents == { It(t, n) : t \in {"user", "query"}, n \in {0} \cup PNames } \cup { It("member-join", 0) }
FilterIn == { Rec("filter", s, e, <<>>, <<1>>, <<>>, 0, <<>>, <<>>, 0, 0, 0, "-") : s \in Specs, e \in Events }
            \cup { Rec("filter", s, e, <<>>, <<1>>, <<>>, 0, <<>>, <<>>, 0, 0, 0, "-") : s \in PrefixSpecs, e \in PrefixEvents }

TagMaps == { <<>>, << <<ROLE, <<1>>>> >>, << <<ROLE, <<>>>> >>, << <<<<1>>, <<1>>>> >>,
             << <<<<1, 10, 1>>, <<1, NL, 1>>>> >>, << <<<<1, EQ, 12>>, <<EQ, 1>>>> >>,
             << <<<<1, 10, 1>>, <<1>>>>, <<<<1, 11, 1>>, <<12>>>> >>,          \* both sanitize to A_A
             << <<<<1>>, <<1>>>>, <<<<9>>, <<12>>>> >>,                        \* a and A
             << <<<<>>, <<1>>>> >>, << <<ROLE, <<1, TAB>>>>, <<<<12, 1>>, <<>>>> >> }
ENames == {<<>>, <<1>>, <<1, EQ, 1>>, <<NL, 1>>}
EnvIn == { Rec("env", <<>>, e, n, <<1>>, t, 7, <<>>, <<>>, 0, 0, 0, "-") :
             e \in {It("member-join", 0), It("member-reap", 0)}, n \in {<<>>}, t \in TagMaps }
         \cup { Rec("env", <<>>, It(ty, 0), n, <<1>>, t, 7, <<>>, <<>>, 0, 0, 0, "-") : ty \in {"user", "query"}, n \in ENames, t \in TagMaps }
         \cup { Rec("env", <<>>, It(ty, 0), <<1>>, s, << <<ROLE, <<1>>>> >>, l, <<>>, <<>>, 0, 0, 0, "-") :
                  ty \in {"user", "query"}, s \in {<<>>, <<1, NL, 1>>, <<10, EQ>>}, l \in {0, 7, 99} }

MNames == {<<1>>, <<1, TAB, 1>>, <<NL>>, <<BSL, 7>>}
MTags  == { <<>>, << <<ROLE, <<1, TAB>>>> >>, << <<ROLE, <<1>>>>, <<<<1>>, <<1, COMMA, 1>>>> >>, << <<<<1, 10>>, <<NL, EQ>>>> >> }
Mem(n, ad, t) == [name |-> n, addr |-> ad, tags |-> t]
Members1 == { <<Mem(n, ad, t)>> : n \in MNames, ad \in 1..3, t \in MTags }
\* tag KEYS (not only names, roles and values) from the hostile alphabet: tab, newline, backslash, comma, equals
KeyTags == { << <<<<1, TAB, 1>>, <<1>>>> >>, << <<<<NL>>, <<1>>>> >>, << <<<<1, NL, 1>>, <<TAB>>>> >>,
             << <<<<BSL, 7>>, <<1>>>> >>, << <<<<1, COMMA, 1>>, <<EQ>>>> >>, << <<<<EQ>>, <<1>>>> >>,
             << <<ROLE, <<1>>>>, <<<<TAB>>, <<NL>>>> >>, << <<<<1, TAB>>, <<1>>>>, <<<<NL, 1>>, <<COMMA>>>> >> }
Members3 == { <<Mem(<<1>>, 1, t)>> : t \in KeyTags } \cup { <<Mem(<<1>>, 2, <<>>), Mem(<<1, 1>>, 1, t)>> : t \in KeyTags }
Members2 == { <<Mem(<<1>>, 1, t), Mem(n, 2, <<>>)>> : n \in MNames, t \in MTags }
MembersIn == { Rec("members", <<>>, It(ty, 0), <<>>, <<1>>, <<>>, 0, m, <<>>, 0, 0, 0, "-") :
                 ty \in {"member-join", "member-failed"}, m \in {<<>>} \cup Members1 }
             \cup { Rec("members", <<>>, It(ty, 0), <<>>, <<1>>, <<>>, 0, m, <<>>, 0, 0, 0, "-") :
                 ty \in {"member-leave", "member-update", "member-reap"}, m \in Members2 }
             \cup { Rec("members", <<>>, It(ty, 0), <<>>, <<1>>, <<>>, 0, m, <<>>, 0, 0, 0, "-") :
                 ty \in {"member-join", "member-update"}, m \in Members3 }

Payloads == {<<>>, <<1>>, <<1, NL>>, <<NL>>, <<1, NL, 1>>, <<NL, NL>>, <<TAB, 1>>, <<1, 1, 1>>}
PayloadIn == { Rec("payload", <<>>, It(ty, 0), <<1>>, <<1>>, <<>>, 1, <<>>, p, 0, 0, 0, "-") : ty \in {"user", "query"}, p \in Payloads }

ResponseIn == { Rec("response", <<>>, It("query", 0), <<1>>, <<1>>, <<>>, 1, <<>>, <<>>, x, n, l, s) :
                  x \in {0, 3}, n \in {0, 1, 500, 5000, 9000}, l \in {1024, 12000}, s \in {"stdout", "stderr", "both"} }

\* reload histories (family "reload")
St(op, specs, nilh, ev) == [op |-> op, specs |-> specs, nilh |-> nilh, ev |-> ev]
H1 == <<It("user", 0)>>  H2 == <<It("*", 0)>>  H3 == <<It("user", 1)>>  H4 == <<It("member-join", 0)>>
Cfg0 == { <<H1>>, <<H2, H3>> }
Cfg1 == { <<<<>>, 1>>, <<<<>>, 0>>, << <<H4>>, 0>>, << <<H3>>, 0>> }       \* <<handler list, EventHandlers nil?>>
Cfg2 == { <<<<>>, 0>>, << <<H2, H3>>, 0>> }
REvents == { It("user", 1), It("member-join", 0) }
Hists == { << St("init", c0, 0, AnyEv), St("event", <<>>, 0, e), St("update", c1[1], c1[2], AnyEv), St("event", <<>>, 0, e),
              St("update", c2[1], c2[2], AnyEv), St("event", <<>>, 0, e) >> : c0 \in Cfg0, c1 \in Cfg1, c2 \in Cfg2, e \in REvents }
         \cup { << St("init", c0, 0, AnyEv), St("update", c1[1], c1[2], AnyEv), St("update", c2[1], c2[2], AnyEv),
                  St("event", <<>>, 0, e) >> : c0 \in Cfg0, c1 \in Cfg1, c2 \in Cfg2, e \in REvents }
         \cup { << St("init", c0, 0, AnyEv), St("update", c1[1], c1[2], AnyEv), St("event", <<>>, 0, e),
                  St("event", <<>>, 0, e) >> : c0 \in Cfg0, c1 \in Cfg1, e \in REvents }
ReloadIn == { [Rec("reload", <<>>, AnyEv, <<>>, <<1>>, <<>>, 0, <<>>, <<>>, 0, 0, 0, "-") EXCEPT !.hist = hh] : hh \in Hists }

Inputs == FilterIn \cup EnvIn \cup MembersIn \cup PayloadIn \cup ResponseIn \cup ReloadIn

(* expected observation: used to check that the definition passes its own monitor *)
Expected(i) ==
  CASE i.ep = "filter" -> [count |-> IF Match(i.spec, i.ev) THEN 1 ELSE 0]
    [] i.ep = "env" -> [count |-> 1, event |-> i.ev.t, selfname |-> i.self, selfrole |-> RoleOf(i.tags),
                        tagvars |-> IF i.tags = <<>> THEN <<>> ELSE
                                    IF Len(i.tags) = 2 /\ SanSeq(i.tags[1][1]) = SanSeq(i.tags[2][1])
                                    THEN << <<SanSeq(i.tags[1][1]), i.tags[2][2]>> >>
                                    ELSE [k \in DOMAIN i.tags |-> <<SanSeq(i.tags[k][1]), i.tags[k][2]>>],
                        uev |-> Opt(i.ev.t = "user", i.ename), ult |-> OptI(i.ev.t = "user", i.lt),
                        qn |-> Opt(i.ev.t = "query", i.ename), qlt |-> OptI(i.ev.t = "query", i.lt)]
    [] i.ep = "members" -> [count |-> 1, trail |-> 1,
                            lines |-> [k \in DOMAIN i.members |->
                                        <<Esc(i.members[k].name), <<100 + i.members[k].addr>>, Esc(RoleOf(i.members[k].tags)),
                                          Esc(CHOOSE s \in TagStrings(i.members[k].tags) : TRUE)>>]]
    [] i.ep = "payload" -> [count |-> 1, stdin |-> StdinOf(i.payload)]
    [] i.ep = "response" -> [count |-> 1, sent |-> IF Responds(i.exit, i.N, i.limit) THEN 1 ELSE 0,
                             len |-> IF Responds(i.exit, i.N, i.limit) THEN Min(i.N, MaxOut) ELSE 0, tail |-> 1]
    [] i.ep = "reload" -> [runs |-> [j \in DOMAIN i.hist |-> IF i.hist[j].op = "event" THEN SeqOf(ExpectedRuns(i.hist, j)) ELSE <<>>]]
=============================================================================
