------------------------------ MODULE IPCQuery ------------------------------
(* cmd/serf/command/agent/ipc_query_response_stream.go -- the goroutine that    *)
(* streams the results of one `query` RPC back to the client:                   *)
(*     done := time.After(until resp.Deadline()); ackCh, respCh := channels     *)
(*     for { select { case a := <-ackCh: send ack(a)                            *)
(*                    case r := <-respCh: send response(r.From, r.Payload)      *)
(*                    case <-done: send done; return } }                        *)
(* and the serf side that feeds it (serf/query.go, serf.go handleQueryResponse, *)
(* registerQueryResponse): acks/responses are de-duplicated per node and put    *)
(* into channels of capacity Cap (= number of memberlist members) without       *)
(* blocking; at the deadline a timer closes the QueryResponse, which CLOSES     *)
(* both channels.  A closed, drained channel is ready and yields ok = false:    *)
(* the loop then sets its copy of the channel to nil (never ready again) and    *)
(* goes round WITHOUT sending anything ("silent" iteration; at most one per     *)
(* channel).  [Before commit b4a2fad the loop sent the zero values as records:  *)
(* finding C25-closed-channel-zero-value, now fixed.]                           *)
(* ackCh is nil (never ready) when no acks were requested.                      *)
(*                                                                             *)
(* Scheduling is explicit: the harness holds the loop in front of its select    *)
(* (yield-instrumented copy) and lets it run one iteration at a time.           *)
(*   pc = "none" no query yet | "gate" held in front of the select | "sel"      *)
(*   blocked in the select, nothing ready | "send" blocked in Send (client not  *)
(*   reading) | "end" returned                                                  *)
(* Actions (records): query(ack) ; ack(n) / resp(n, p) a reply from node n      *)
(* arrives (NotifyMsg) ; step (one select iteration) ; expire (the deadline     *)
(* passes: the loop's timer fires and the QueryResponse is closed) ; stall /    *)
(* unstall (client stops / resumes reading) ; end (loop released for good).     *)
(* Records: [k, n, p], k = "ack" | "response" | "done", n = node (0 = empty     *)
(* From), p = payload id (0 = nil).                                             *)
EXTENDS Integers, Sequences, FiniteSets, TLC

CONSTANTS Nodes, Pays, Cap, MaxSteps

VARIABLES Q, M, obs, last, steps
vars == <<Q, M, obs, last, steps>>

NewQ == [ ack |-> FALSE, ackQ |-> <<>>, respQ |-> <<>>, acked |-> {}, resped |-> {},
          fired |-> FALSE, closed |-> FALSE, pc |-> "none", stalled |-> FALSE, pend |-> <<>>, nils |-> 0 ]

Ack(n)     == [k |-> "ack", n |-> n, p |-> 0]
Resp(n, p) == [k |-> "response", n |-> n, p |-> p]
DoneRec       == [k |-> "done", n |-> 0, p |-> 0]

\* records the select may produce next
Ready(q) ==
  (IF q.ack /\ q.ackQ # <<>> THEN {Ack(Head(q.ackQ))} ELSE {})
  \cup (IF q.respQ # <<>> THEN {Resp(Head(q.respQ).n, Head(q.respQ).p)} ELSE {})
  \cup (IF q.fired THEN {DoneRec} ELSE {})
\* closed and drained channels the loop may still find ready once each (it then nils them, silently)
Drained(q) == IF q.closed THEN (IF q.ack /\ q.ackQ = <<>> THEN {"a"} ELSE {}) \cup (IF q.respQ = <<>> THEN {"r"} ELSE {}) ELSE {}
CanSilent(q) == q.nils < Cardinality(Drained(q))
Silent(q) == [q EXCEPT !.nils = @ + 1, !.pc = "gate"]

\* one loop iteration producing r (r \in Ready(q)); the record reaches the client unless it is stalled
Iter(q, r) ==
  LET q1 == CASE r.k = "ack" /\ q.ackQ # <<>>       -> [q EXCEPT !.ackQ = Tail(@)]
              [] r.k = "response" /\ q.respQ # <<>> -> [q EXCEPT !.respQ = Tail(@)]
              [] OTHER -> q
  IN  IF q.stalled THEN [q1 EXCEPT !.pc = "send", !.pend = <<r>>]
      ELSE [q1 EXCEPT !.pc = IF r.k = "done" THEN "end" ELSE "gate"]
Out(q, r) == IF q.stalled THEN <<>> ELSE <<r>>

\* a reply arrives (handleQueryResponse)
Arrive(q, isAck, n, p) ==
  IF q.pc = "none" \/ q.closed \/ q.fired THEN q                   \* no such query / Finished()
  ELSE IF isAck THEN
         IF ~q.ack \/ n \in q.acked \/ Len(q.ackQ) >= Cap THEN q   \* nil channel / duplicate / channel full
         ELSE [q EXCEPT !.ackQ = Append(@, n), !.acked = @ \cup {n}]
  ELSE   IF n \in q.resped \/ Len(q.respQ) >= Cap THEN q
         ELSE [q EXCEPT !.respQ = Append(@, [n |-> n, p |-> p]), !.resped = @ \cup {n}]

NoObs == [recs |-> <<>>, err |-> 0, badseq |-> 0]
ObsR(recs) == [recs |-> recs, err |-> 0, badseq |-> 0]

------------------------------------------------------------------------------
(* Property C25 (query stream) as a monitor over action records and observed    *)
(* records: "a query stream carries only real acknowledgements and responses    *)
(* for its query and ends with exactly one completion record, after which       *)
(* nothing more is sent for it".  Real = injected by the harness for this query *)
(* (each at most as often as injected).                                         *)
NewM == [ acks |-> <<>>, resps |-> <<>>, got |-> <<>>, expired |-> FALSE, bad |-> {}, tags |-> {} ]
Count(s, x) == Cardinality({ i \in DOMAIN s : s[i] = x })

MonStep(m, a, o) ==
  LET acks2  == IF a.a = "ack" THEN Append(m.acks, a.n) ELSE m.acks
      resps2 == IF a.a = "resp" THEN Append(m.resps, <<a.n, a.p>>) ELSE m.resps
      got2   == m.got \o o.recs
      gotA   == [i \in 1..Len(SelectSeq(got2, LAMBDA r : r.k = "ack")) |-> SelectSeq(got2, LAMBDA r : r.k = "ack")[i].n]
      gotR   == [i \in 1..Len(SelectSeq(got2, LAMBDA r : r.k = "response")) |->
                   <<SelectSeq(got2, LAMBDA r : r.k = "response")[i].n, SelectSeq(got2, LAMBDA r : r.k = "response")[i].p>>]
      bogus  == \/ \E i \in DOMAIN gotA : Count(gotA, gotA[i]) > Count(acks2, gotA[i])
                \/ \E i \in DOMAIN gotR : Count(gotR, gotR[i]) > Count(resps2, gotR[i])
                \/ \E i \in DOMAIN got2 : got2[i].k \notin {"ack", "response", "done"}
      zero   == \E i \in DOMAIN o.recs : o.recs[i].k # "done" /\ o.recs[i].n = 0
      dones  == { i \in DOMAIN got2 : got2[i].k = "done" }
      after  == \E i \in dones : i < Len(got2)
      b1     == IF bogus THEN {"C25_q_bogus_record"} ELSE {}
      b2     == IF after \/ Cardinality(dones) > 1 \/ (a.a = "end" /\ Cardinality(dones) # 1) THEN {"C25_q_done"} ELSE {}
      b3     == IF o.badseq > 0 THEN {"C25_seq_unknown"} ELSE {}
      exp2   == m.expired \/ a.a \in {"expire", "end"}
  IN [ acks |-> acks2, resps |-> resps2, got |-> got2, expired |-> exp2,
       bad |-> m.bad \cup b1 \cup b2 \cup b3,
       tags |-> m.tags \cup (IF zero /\ exp2 THEN {"closed_channel_zero_value"} ELSE {}) ]

------------------------------------------------------------------------------
(* Actions.  Every action yields (q', recs).  Hints: w = records expected now,  *)
(* pc = where the loop is expected to be afterwards (the harness waits for it). *)
Fin(q2, recs, a) ==
  /\ Q' = q2 /\ obs' = ObsR(recs)
  /\ last' = a @@ [w |-> Len(recs), pc |-> q2.pc]
  /\ M' = MonStep(M, a, obs')
  /\ steps' = steps + 1

Guard == steps < MaxSteps /\ last.a # "end"

Query(ack) == Guard /\ Q.pc = "none" /\ Fin([NewQ EXCEPT !.ack = ack, !.pc = "gate"], <<>>, [a |-> "query", ack |-> ack])

\* a reply arrives; a loop blocked in the select takes it at once
Inject(isAck, n, p) ==
  /\ Guard /\ Q.pc # "none"
  /\ LET q1 == Arrive(Q, isAck, n, p)
         a  == IF isAck THEN [a |-> "ack", n |-> n] ELSE [a |-> "resp", n |-> n, p |-> p] IN
     IF q1 # Q /\ Q.pc = "sel"
     THEN LET r == CHOOSE x \in Ready(q1) : TRUE IN Fin(Iter(q1, r), Out(q1, r), a)
     ELSE Fin(q1, <<>>, a)

\* (a stalled client hides which case was taken until it reads again: only unambiguous iterations then)
Step ==
  /\ Guard /\ Q.pc = "gate" /\ (Q.stalled => Cardinality(Ready(Q)) + (IF CanSilent(Q) THEN 1 ELSE 0) <= 1)
  /\ IF Ready(Q) = {} /\ ~CanSilent(Q) THEN Fin([Q EXCEPT !.pc = "sel"], <<>>, [a |-> "step"])
     ELSE \/ \E r \in Ready(Q) : Fin(Iter(Q, r), Out(Q, r), [a |-> "step"])
          \/ CanSilent(Q) /\ Fin(Silent(Q), <<>>, [a |-> "step"])

\* the deadline passes: the loop's own timer (time.After(time.Until(deadline))) fires and serf's timer
\* (AfterFunc(timeout), started a few instructions after the deadline was computed) closes the
\* QueryResponse.  The two are microseconds apart and come in EITHER order (observed on the real code),
\* so a loop blocked in the select is woken by its timer (done) or by a closed channel (silent iteration).
\* (Not while the client is stalled: the case taken would stay hidden.)
Expire ==
  /\ Guard /\ Q.pc # "none" /\ ~Q.fired /\ ~(Q.pc = "sel" /\ Q.stalled)
  /\ LET q1 == [Q EXCEPT !.fired = TRUE, !.closed = TRUE] IN
     IF Q.pc = "sel" THEN \/ \E r \in Ready(q1) : Fin(Iter(q1, r), Out(q1, r), [a |-> "expire"])
                          \/ CanSilent(q1) /\ Fin(Silent(q1), <<>>, [a |-> "expire"])
     ELSE Fin(q1, <<>>, [a |-> "expire"])

Stall   == Guard /\ Q.pc \in {"gate", "sel"} /\ ~Q.stalled /\ Fin([Q EXCEPT !.stalled = TRUE], <<>>, [a |-> "stall"])
Unstall == /\ Guard /\ Q.stalled
           /\ Fin([Q EXCEPT !.stalled = FALSE, !.pend = <<>>,
                            !.pc = IF Q.pc = "send" THEN (IF Q.pend[1].k = "done" THEN "end" ELSE "gate") ELSE @],
                  Q.pend, [a |-> "unstall"])

\* the loop is released for good: the client reads again, the deadline passes (if it has not yet), and the
\* loop runs until it has sent done -- any run of the select.
UnstallQ(q) ==
  IF q.stalled
  THEN <<[q EXCEPT !.stalled = FALSE, !.pend = <<>>,
                   !.pc = IF q.pc = "send" THEN (IF q.pend[1].k = "done" THEN "end" ELSE "gate") ELSE @], q.pend>>
  ELSE <<q, <<>>>>
\* after the deadline a loop that was blocked in the select simply runs on (see Expire)
ExpireQ(q) ==
  IF q.fired THEN q
  ELSE [q EXCEPT !.fired = TRUE, !.closed = TRUE, !.pc = IF @ = "sel" THEN "gate" ELSE @]
RECURSIVE Runs(_)
Runs(q) ==   \* <<final q, records>> of the complete runs (silent iterations leave no trace)
  IF q.pc = "end" THEN { <<q, <<>>>> }
  ELSE UNION { { <<x[1], <<r>> \o x[2]>> : x \in Runs(Iter(q, r)) } : r \in Ready(q) }
End ==
  /\ Guard /\ Q.pc # "none"
  /\ LET u == UnstallQ(Q)  e == ExpireQ(u[1]) IN
     \E x \in Runs(e) : Fin(x[1], u[2] \o x[2], [a |-> "end"])

Init == Q = NewQ /\ M = NewM /\ obs = NoObs /\ last = [a |-> "init"] /\ steps = 0
Next == \/ \E b \in BOOLEAN : Query(b)
        \/ \E n \in Nodes : Inject(TRUE, n, 0)
        \/ \E n \in Nodes, p \in Pays : Inject(FALSE, n, p)
        \/ Step \/ Expire \/ Stall \/ Unstall \/ End
Spec == Init /\ [][Next]_vars

\* the model (= the code as it is, closed channels silenced) meets the query-stream clauses
C25Q == M.bad = {}
=============================================================================
