----------------------------- MODULE IPCStreams -----------------------------
(* cmd/serf/command/agent/ipc.go (handleStream / handleMonitor / handleStop /   *)
(* handleQuery / handleMembers), ipc_event_stream.go, ipc_log_stream.go -- one  *)
(* handshaken connection carrying requests, replies and stream records.         *)
(*                                                                             *)
(* Requests (complete, well-formed; Seq drawn from a SMALL set so that clients  *)
(* reuse sequence numbers):                                                    *)
(*   [a |-> "stream", seq, f]     f = filter id (see Filters)                   *)
(*   [a |-> "monitor", seq]       log level debug                               *)
(*   [a |-> "stop", seq, stop]                                                  *)
(*   [a |-> "members", seq]                                                     *)
(*   [a |-> "query", seq, n, id]  query named n issued through the RPC (15 ms): *)
(*                                the agent sees its own query as a query event *)
(* Environment:                                                                *)
(*   [a |-> "emit", evs]          events reach the agent in this order: user    *)
(*                                events (agent.UserEvent), member-join /       *)
(*                                member-failed (memberlist notifications),     *)
(*                                queries from the network (NotifyMsg)          *)
(*   [a |-> "burst", n, m]        the client stops reading, m user events named *)
(*                                n are emitted, the client reads again         *)
(*   [a |-> "slow", evs, req]     SLOW READER: the client stops reading, the    *)
(*                                events evs reach the agent, the request req   *)
(*                                (stream / stop / members) is sent meanwhile,  *)
(*                                then the client reads everything: several     *)
(*                                senders (stream goroutines, the request       *)
(*                                handler) are in IPCClient.Send while a socket *)
(*                                write is in flight (net.Pipe: for as long as  *)
(*                                the reader stalls)                            *)
(*   [a |-> "close"]              client hangs up; barrier                      *)
(* An event is [k, n, id]: k = event type, n = name id (0 = none), id unique.   *)
(*                                                                             *)
(* obs: rep = reply frames [seq, err, kind]; recs = stream records in arrival   *)
(* order [seq, k, n, id] (k = event type, or "done"/"ack"/"response" for query  *)
(* records); logs = Seqs seen on log records.  Streams are served by separate   *)
(* goroutines: only the order WITHIN one Seq is meaningful.                     *)
EXTENDS Integers, Sequences, FiniteSets, TLC

CONSTANTS SeqIds,      \* sequence numbers the client uses
          MaxSteps,
          BufSize      \* eventStream channel capacity (512)

VARIABLES C, M, obs, last, steps
vars == <<C, M, obs, last, steps>>

\* filter ids -> what ParseEventFilter makes of the Type string (the harness holds the strings)
\* 1 "*"  2 "user"  3 "user:u1"  4 "member-join"  5 "query"  6 "query:q1"  7 "user:u1,member-failed"  8 "bogus"
Filters == 1..8
Match(f, e) ==
  CASE f = 1 -> TRUE
    [] f = 2 -> e.k = "user"
    [] f = 3 -> e.k = "user" /\ e.n = 1
    [] f = 4 -> e.k = "member-join"
    [] f = 5 -> e.k = "query"
    [] f = 6 -> e.k = "query" /\ e.n = 1
    [] f = 7 -> (e.k = "user" /\ e.n = 1) \/ e.k = "member-failed"
    [] OTHER -> FALSE

Rep(seq, err, kind) == [seq |-> seq, err |-> err, kind |-> kind]
Rec(seq, e) == [seq |-> seq, k |-> e.k, n |-> e.n, id |-> e.id]
QDone(seq) == [seq |-> seq, k |-> "done", n |-> 0, id |-> 0]

RECURSIVE Cat(_)
Cat(ss) == IF ss = <<>> THEN <<>> ELSE Head(ss) \o Cat(Tail(ss))
RECURSIVE SetToSeq(_)
SetToSeq(S) == IF S = {} THEN <<>> ELSE LET x == CHOOSE y \in S : \A z \in S : y <= z IN <<x>> \o SetToSeq(S \ {x})
Proj(recs, s) == SelectSeq(recs, LAMBDA r : r.seq = s)
EvProj(recs, s) == SelectSeq(recs, LAMBDA r : r.seq = s /\ r.k \notin {"done", "ack", "response"})

------------------------------------------------------------------------------
(* Server *)
NewC == [strs |-> [s \in SeqIds |-> 0], mon |-> 0]

\* records the event streams produce for the events evs (per event, every matching active stream)
Deliver(c, evs) ==
  Cat([i \in 1..Len(evs) |->
         Cat([j \in 1..Len(SetToSeq(SeqIds)) |->
                LET s == SetToSeq(SeqIds)[j] IN
                IF c.strs[s] # 0 /\ Match(c.strs[s], evs[i]) THEN <<Rec(s, evs[i])>> ELSE <<>>])])

R(c, rep, recs) == [C |-> c, rep |-> rep, recs |-> recs]

React(c, a) ==
  CASE a.a = "stream" ->
         IF a.f = 8 THEN R(c, <<Rep(a.seq, 1, "")>>, <<>>)                       \* invalid filter
         ELSE IF c.strs[a.seq] # 0 THEN R(c, <<Rep(a.seq, 1, "")>>, <<>>)        \* stream exists
         ELSE R([c EXCEPT !.strs[a.seq] = a.f], <<Rep(a.seq, 0, "")>>, <<>>)
    [] a.a = "monitor" ->
         IF c.mon # 0 THEN R(c, <<Rep(a.seq, 1, "")>>, <<>>)
         ELSE R([c EXCEPT !.mon = a.seq], <<Rep(a.seq, 0, "")>>, <<>>)
    [] a.a = "stop" ->
         R([c EXCEPT !.mon = IF c.mon = a.stop THEN 0 ELSE c.mon,
                     !.strs = [s \in SeqIds |-> IF s = a.stop THEN 0 ELSE c.strs[s]]],
           <<Rep(a.seq, 0, "")>>, <<>>)
    [] a.a = "members" -> R(c, <<Rep(a.seq, 0, "members")>>, <<>>)
    [] a.a = "query" ->
         R(c, <<Rep(a.seq, 0, "")>>, Deliver(c, <<[k |-> "query", n |-> a.n, id |-> a.id]>>) \o <<QDone(a.seq)>>)
    [] a.a = "emit"  -> R(c, <<>>, Deliver(c, a.evs))
    [] a.a = "burst" -> R(c, <<>>, Deliver(c, [i \in 1..a.m |-> [k |-> "user", n |-> a.n, id |-> a.id + i]]))
    [] OTHER -> R(c, <<>>, <<>>)

\* slow reader: the events first (they are dispatched before the request is sent), then the request
ReactA(c, a) ==
  IF a.a = "slow"
  THEN LET r1 == React(c, [a |-> "emit", evs |-> a.evs])  r2 == React(r1.C, a.req)
       IN  R(r2.C, r2.rep, r1.recs \o r2.recs)
  ELSE React(c, a)

\* garbled = objects the client could not read as a header or as the body of the header before it (a body
\* without header, a header where a body was due, a msgpack decoding error before the connection ended)
ObsOf(r, logs) == [rep |-> r.rep, recs |-> r.recs, logs |-> logs, closed |-> FALSE, garbled |-> 0]
NoObs == [rep |-> <<>>, recs |-> <<>>, logs |-> {}, closed |-> FALSE, garbled |-> 0]

------------------------------------------------------------------------------
(* Property C25 (header correlation, event streams) as a monitor over action    *)
(* records and observations.  m.reqs = Seqs of the requests sent; m.regs =      *)
(* registrations of event streams the server acknowledged: [seq, f, from, to,   *)
(* got, ovf] with from/to = positions in the sequence m.evs of all events that  *)
(* reached the agent (to = -1: still registered), got = positions delivered so   *)
(* far, ovf = 0 or the last position that still fitted into the buffer when a     *)
(* burst larger than the buffer hit the stream while the client did not read;   *)
(* m.qs = Seqs of query requests; m.mons = Seqs of monitor requests.      *)
(* Clauses:                                                                    *)
(*  C25_seq_unknown       a header whose Seq is not the Seq of a request sent   *)
(*  C25_seq_wrong_stream  a record on a Seq that is not a stream of its kind    *)
(*                        (event record / log record / query record)            *)
(*  C25_ev_not_matching   an event record that is no emitted event matching the *)
(*                        filter of a registration of that Seq covering it      *)
(*  C25_ev_order          event records of one stream out of emission order or  *)
(*                        repeated                                              *)
(*  C25_ev_missing        (judged at stop / close, not after overflow) a        *)
(*                        matching event of the registration period not sent    *)
(*  C25_malformed         the bytes received are not a sequence of msgpack      *)
(*                        header / header+body pairs                            *)
(*  C25_reply_dup         more reply headers (non-stream frames) with a Seq     *)
(*                        than requests were sent with it: a reply that answers *)
(*                        no request                                            *)
(*  C25_q_done            a query stream without exactly one final "done"       *)
(*                        (judged at close) or with a record after it           *)
(*  C25_q_bogus_record    an ack / response record (nobody answers the queries  *)
(*                        of these traces; tag closed_channel_zero_value when   *)
(*                        From is empty).  The query stream itself is modelled  *)
(*                        in IPCQuery.tla.                                      *)
NewM == [ sent |-> <<>>, replied |-> <<>>, reqs |-> {}, regs |-> <<>>, evs |-> <<>>, qs |-> {}, qdone |-> {}, mons |-> {}, bad |-> {}, tags |-> {} ]

EventsOf(a) ==
  CASE a.a = "emit"  -> a.evs
    [] a.a = "burst" -> [i \in 1..a.m |-> [k |-> "user", n |-> a.n, id |-> a.id + i]]
    [] a.a = "query" -> <<[k |-> "query", n |-> a.n, id |-> a.id]>>
    [] OTHER -> <<>>

PosOf(evs, r) == { i \in DOMAIN evs : evs[i].k = r.k /\ evs[i].n = r.n /\ evs[i].id = r.id }
IsEv(r) == r.k \notin {"done", "ack", "response"}

MonStep(m, a, o) ==
  LET isReq  == a.a \in {"stream", "monitor", "stop", "members", "query"}
      reqs2  == IF isReq THEN m.reqs \cup {a.seq} ELSE m.reqs
      sent2  == IF isReq THEN Append(m.sent, a.seq) ELSE m.sent
      repl2  == m.replied \o [i \in DOMAIN o.rep |-> o.rep[i].seq]
      NumOf(q, x) == Cardinality({ i \in DOMAIN q : q[i] = x })
      b8     == IF o.garbled > 0 THEN {"C25_malformed"} ELSE {}
      b9     == IF \E i \in DOMAIN repl2 : NumOf(repl2, repl2[i]) > NumOf(sent2, repl2[i]) THEN {"C25_reply_dup"} ELSE {}
      evs2   == m.evs \o EventsOf(a)
      okRep  == isReq /\ \E i \in DOMAIN o.rep : o.rep[i].seq = a.seq /\ o.rep[i].err = 0
      \* a stream acknowledged in this line is registered AFTER the events of earlier lines
      regs1  == IF a.a = "stream" /\ okRep
                THEN Append(m.regs, [seq |-> a.seq, f |-> a.f, from |-> Len(m.evs) + 1, to |-> -1, got |-> <<>>, ovf |-> 0])
                ELSE m.regs
      qs2    == IF a.a = "query" /\ okRep THEN m.qs \cup {a.seq} ELSE m.qs
      mons2  == IF a.a = "monitor" /\ okRep THEN m.mons \cup {a.seq} ELSE m.mons
      hdrs   == { o.rep[i].seq : i \in DOMAIN o.rep } \cup { o.recs[i].seq : i \in DOMAIN o.recs } \cup o.logs
      b1     == IF hdrs \subseteq reqs2 THEN {} ELSE {"C25_seq_unknown"}
      evrecs == SelectSeq(o.recs, IsEv)
      qrecs  == SelectSeq(o.recs, LAMBDA r : ~IsEv(r))
      b2     == IF /\ \A i \in DOMAIN evrecs : \E j \in DOMAIN regs1 : regs1[j].seq = evrecs[i].seq
                   /\ \A i \in DOMAIN qrecs : qrecs[i].seq \in qs2
                   /\ o.logs \subseteq mons2
                THEN {} ELSE {"C25_seq_wrong_stream"}
      \* the registration a record belongs to: the latest one of its Seq
      RegOf(s) == IF \E j \in DOMAIN regs1 : regs1[j].seq = s
                  THEN CHOOSE j \in DOMAIN regs1 : regs1[j].seq = s /\ \A k \in DOMAIN regs1 : regs1[k].seq = s => k <= j
                  ELSE 0
      Covered(j, p) == p >= regs1[j].from /\ (regs1[j].to = -1 \/ p <= regs1[j].to)
      okMatch(r) == LET j == RegOf(r.seq) IN
                    j # 0 /\ \E p \in PosOf(evs2, r) : Covered(j, p) /\ Match(regs1[j].f, evs2[p])
      b3     == IF \A i \in DOMAIN evrecs : okMatch(evrecs[i]) THEN {} ELSE {"C25_ev_not_matching"}
      \* positions delivered, appended per registration in arrival order
      Got(j) == regs1[j].got \o
                  [i \in 1..Len(EvProj(o.recs, regs1[j].seq)) |->
                     LET r == EvProj(o.recs, regs1[j].seq)[i] IN
                     IF j = RegOf(r.seq) /\ PosOf(evs2, r) # {} THEN CHOOSE p \in PosOf(evs2, r) : TRUE ELSE 0]
      Increasing(g) == \A x, y \in DOMAIN g : x < y => g[x] < g[y]
      regs2  == [j \in DOMAIN regs1 |->
                   [regs1[j] EXCEPT
                      !.got = IF j = RegOf(regs1[j].seq) THEN Got(j) ELSE @,
                      !.ovf = IF @ = 0 /\ a.a = "burst" /\ a.m > BufSize /\ regs1[j].to = -1 /\ Match(regs1[j].f, [k |-> "user", n |-> a.n, id |-> 0])
                              THEN Len(m.evs) + BufSize ELSE @,
                      !.to  = IF @ = -1 /\ ((a.a = "stop" /\ a.stop = regs1[j].seq) \/ a.a = "close") THEN Len(m.evs) ELSE @]]
      b4     == IF \A j \in DOMAIN regs2 : Increasing(regs2[j].got) THEN {} ELSE {"C25_ev_order"}
      Want(j) == { p \in DOMAIN evs2 : p >= regs2[j].from /\ p <= regs2[j].to /\ Match(regs2[j].f, evs2[p]) }
      \* after an overflow only the events that still fitted into the buffer are owed
      Owed(j) == { p \in Want(j) : regs2[j].ovf = 0 \/ p <= regs2[j].ovf }
      b5     == IF a.a = "close" /\ \E j \in DOMAIN regs2 : ~(Owed(j) \subseteq { regs2[j].got[x] : x \in DOMAIN regs2[j].got })
                THEN {"C25_ev_missing"} ELSE {}
      doneNow == { qrecs[i].seq : i \in { x \in DOMAIN qrecs : qrecs[x].k = "done" } }
      b6     == IF \/ \E i \in DOMAIN qrecs : qrecs[i].seq \in m.qdone /\ ~(a.a = "query" /\ qrecs[i].seq = a.seq)
                   \/ \E i, j \in DOMAIN qrecs : i < j /\ qrecs[i].seq = qrecs[j].seq /\ qrecs[i].k = "done"
                   \/ (a.a = "close" /\ ~(qs2 \subseteq (m.qdone \cup doneNow)))
                THEN {"C25_q_done"} ELSE {}
      \* no node ever answers the queries of this family of traces: every ack / response record is unreal
      unreal == { i \in DOMAIN qrecs : qrecs[i].k # "done" }
      b7     == IF unreal # {} THEN {"C25_q_bogus_record"} ELSE {}
  IN [ sent |-> sent2, replied |-> repl2, reqs |-> reqs2, regs |-> regs2, evs |-> evs2, qs |-> qs2,
       tags |-> m.tags \cup (IF unreal # {} /\ \A i \in unreal : qrecs[i].n = 0 THEN {"closed_channel_zero_value"} ELSE {}),
       qdone |-> (IF a.a = "query" THEN m.qdone \ {a.seq} ELSE m.qdone) \cup doneNow,
       mons |-> mons2, bad |-> m.bad \cup b1 \cup b2 \cup b3 \cup b4 \cup b5 \cup b6 \cup b7 \cup b8 \cup b9 ]

\* a slow-reader step is judged as its two parts: the events (nothing is received meanwhile), then the request
\* together with everything that was received once the client read again
MonAct(m, a, o) ==
  IF a.a = "slow" THEN MonStep(MonStep(m, [a |-> "emit", evs |-> a.evs], NoObs), a.req, o)
  ELSE MonStep(m, a, o)

------------------------------------------------------------------------------
(* Actions *)
Hints(r, a) == [w |-> Len(r.rep) + Len(r.recs),
                reg |-> IF (a.a \in {"stream", "monitor"} \/ (a.a = "slow" /\ a.req.a = "stream")) /\ r.rep[1].err = 0 THEN 1 ELSE 0]

Do(a) ==
  /\ steps < MaxSteps /\ last.a # "close"
  /\ LET r == ReactA(C, a) IN
       /\ C' = r.C
       /\ obs' = ObsOf(r, IF r.C.mon # 0 THEN {r.C.mon} ELSE {})     \* log lines may come at any time
       /\ last' = a @@ Hints(r, a)
       /\ M' = MonAct(M, a, obs')
  /\ steps' = steps + 1

Close ==
  /\ last.a # "close" /\ steps > 0
  /\ C' = NewC /\ obs' = [NoObs EXCEPT !.closed = TRUE]
  /\ last' = [a |-> "close"]
  /\ M' = MonStep(M, last', obs')
  /\ steps' = steps + 1

Id == 10 * (steps + 1)
Ev(k, n, i) == [k |-> k, n |-> n, id |-> Id + i]
Bursts == { <<Ev("user", 1, 1)>>, <<Ev("user", 2, 1)>>, <<Ev("member-join", 0, 1)>>,
            <<Ev("member-join", 0, 1), Ev("member-failed", 0, 1)>>, <<Ev("query", 1, 1)>>, <<Ev("query", 2, 1)>>,
            <<Ev("user", 1, 1), Ev("user", 2, 2), Ev("user", 1, 3)>>,
            <<Ev("user", 1, 1), Ev("query", 1, 2), Ev("member-join", 0, 3)>> }

Bursts3 == <<Ev("user", 1, 1), Ev("query", 1, 2), Ev("member-join", 0, 3)>>

Requests ==
  { [a |-> "stream", seq |-> s, f |-> f] : s \in SeqIds, f \in Filters } \cup
  { [a |-> "monitor", seq |-> s] : s \in SeqIds } \cup
  { [a |-> "stop", seq |-> s, stop |-> t] : s \in SeqIds, t \in SeqIds } \cup
  { [a |-> "members", seq |-> s] : s \in SeqIds } \cup
  { [a |-> "query", seq |-> s, n |-> n, id |-> Id] : s \in SeqIds, n \in {1, 2} }

SlowReqs ==
  { [a |-> "stream", seq |-> s, f |-> f] : s \in SeqIds, f \in Filters } \cup
  { [a |-> "stop", seq |-> s, stop |-> t] : s \in SeqIds, t \in SeqIds } \cup
  { [a |-> "members", seq |-> s] : s \in SeqIds }

Init == C = NewC /\ M = NewM /\ obs = NoObs /\ last = [a |-> "init"] /\ steps = 0
Next == \/ \E a \in Requests : Do(a)
        \/ \E evs \in Bursts : Do([a |-> "emit", evs |-> evs])
        \/ \E q \in { x \in SlowReqs : x.seq = 1 /\ (x.a = "stream" => x.f \in {1, 8}) } : Do([a |-> "slow", evs |-> Bursts3, req |-> q])
        \/ Close
Spec == Init /\ [][Next]_vars

C25 == M.bad = {}
=============================================================================
