------------------------------- MODULE KeyOps -------------------------------
(* Cluster key operations of Serf (properties C22 and C23).                     *)
(*                                                                             *)
(* Part 1 (C22) -- a node's keyring and the keyring file it maintains:          *)
(*   serf/internal_query.go handleInstallKey / handleUseKey / handleRemoveKey,   *)
(*   memberlist Keyring.AddKey / UseKey / RemoveKey (first key = primary),       *)
(*   serf/serf.go writeKeyringFile, cmd/serf/command/agent loadKeyringFile.      *)
(* Part 2 (C23) -- KeyManager.streamKeyResp / handleKeyRequest: folding the      *)
(*   per-node replies of a key query into a KeyResponse, error conditions.       *)
(* Part 3 (C23) -- serfQueries.keyListResponseWithCorrectSize: the countdown     *)
(*   loop that truncates a _serf_list-keys reply, over the exact encoded size    *)
(*   (go-msgpack, old-spec raw strings) of the reply message.                    *)
(* Everything is functional: the model check, the generators and the trace      *)
(* specification evaluate the same operators.                                    *)
EXTENDS Integers, Sequences, FiniteSets, TLC

SeqSet(s) == { s[i] : i \in DOMAIN s }
InSeq(s, e) == \E i \in DOMAIN s : s[i] = e
Without(s, e) == SelectSeq(s, LAMBDA x : x # e)

------------------------------------------------------------------------------
(* Part 1.  Keys are small integers: 1..3 valid keys (16, 24, 32 bytes);        *)
(* 4, 5 = wrong length (15 and 33 bytes); 6 = request whose payload does not     *)
(* decode; 7 = KeyManager call with a key that is not base64 (no query sent);    *)
(* 8 = request with an empty payload.                                            *)
(* As in memberlist: only AddKey validates the length; UseKey of a key that is   *)
(* not installed fails; RemoveKey of the primary key fails, of any other key     *)
(* (installed or not, well-formed or not) succeeds; every accepted request       *)
(* rewrites the file.  Operation "list" (k = 0) is the _serf_list-keys query,    *)
(* interleaved with the others: it is answered and changes nothing.              *)
ValidKeys == 1..3
KeyArgs == 1..8

\* state: ring = sequence of keys, primary first; file = what the keyring file lists
KR(ring, file) == [ring |-> ring, file |-> file]

\* result of one request: [s |-> new state, ok |-> accepted]
KApply(s, op, k) ==
  IF op = "list" THEN [s |-> s, ok |-> TRUE]                          \* a _serf_list-keys query reads, nothing else
  ELSE IF k \in {6, 7, 8} THEN [s |-> s, ok |-> FALSE]                        \* rejected before the keyring is touched
  ELSE CASE op = "install" ->
              IF k \notin ValidKeys THEN [s |-> s, ok |-> FALSE]      \* AddKey validates the length
              ELSE LET r == IF InSeq(s.ring, k) THEN s.ring ELSE Append(s.ring, k) IN
                   [s |-> KR(r, r), ok |-> TRUE]
         [] op = "use" ->
              IF ~InSeq(s.ring, k) THEN [s |-> s, ok |-> FALSE]
              ELSE LET r == <<k>> \o Without(s.ring, k) IN [s |-> KR(r, r), ok |-> TRUE]
         [] op = "remove" ->
              IF s.ring[1] = k THEN [s |-> s, ok |-> FALSE]
              ELSE LET r == Without(s.ring, k) IN [s |-> KR(r, r), ok |-> TRUE]

\* the loader: first listed key becomes primary, duplicates dropped, order kept
RECURSIVE Dedup(_)
Dedup(s) == IF s = <<>> THEN <<>> ELSE <<s[1]>> \o Dedup(Without(Tail(s), s[1]))
Load(file) == Dedup(file)

(* C22 monitor over observations: pre / post = [ring, load = [ok, keys], res, fchg] *)
(*   ring  the live keyring (GetKeys order)                                        *)
(*   load  what the agent's loader makes of the file (ok = loaded without error)   *)
(*   res   the request was accepted (Result of the reply / no error from the API)  *)
(*   fchg  the file's bytes changed during the step                                *)
(*   rep   the request was answered (a request that got no decodable answer is not *)
(*         judged as "rejected")                                                   *)
(* The reload is an observed step: the driver starts the agent's own loader on the *)
(* file after every request (and on the operator's file at the start) and records  *)
(* whether it succeeded and what it loaded; nothing about it is asserted by the    *)
(* driver.                                                                         *)
C22Clauses(pre, post) ==
       (IF post.load.ok /\ SeqSet(post.load.keys) = SeqSet(post.ring) /\ Len(post.load.keys) = Len(post.ring)
           /\ post.load.keys[1] = post.ring[1]
          THEN {} ELSE {"C22_reload_differs_from_keyring"})
  \cup (IF post.rep /\ ~post.res /\ (post.ring # pre.ring \/ post.fchg) THEN {"C22_rejected_request_changed_state"} ELSE {})

\* a list-keys query is read-only: neither the live keyring (order included: the first key is the primary) nor
\* the file may change during it
C22ListClauses(op, pre, post) ==
  IF op = "list" /\ (post.ring # pre.ring \/ post.fchg) THEN {"C22_list_changed_keyring"} ELSE {}

KObs(s, ok, fchg) == [ring |-> s.ring, load |-> [ok |-> TRUE, keys |-> Load(s.file)], res |-> ok, fchg |-> fchg, rep |-> TRUE]

------------------------------------------------------------------------------
(* Part 2.  A reply: [kind, keys (sequence, increasing), pk].  Kinds:            *)
(*   1 ok   2 ok with a message   3 failed (Result = false, message)             *)
(*   4 wrong type byte   5 payload does not decode   6 empty payload             *)
(*   7 failed WITHOUT a message (Result = false, Message = "": what a real node  *)
(*     answers to a key request it cannot decode)                                *)
(* Keys are integers >= 1 (0 = the empty string).  Replies come from distinct    *)
(* nodes, at most one per member.                                                *)
Decodes(r) == r.kind \in {1, 2, 3, 7}
Failed(r) == r.kind \in {3, 4, 5, 6, 7}

RECURSIVE Fold(_, _, _)
\* streamKeyResp: stops reading as soon as NumResp = NumNodes
Fold(acc, nn, rs) ==
  IF rs = <<>> \/ acc.nr = nn THEN acc
  ELSE LET r == rs[1]
           a1 == [acc EXCEPT !.nr = @ + 1,
                             !.ne = IF Failed(r) THEN @ + 1 ELSE @,
                             !.keys = IF Decodes(r) THEN @ \o r.keys ELSE @,
                             !.pks = IF Decodes(r) THEN Append(@, r.pk) ELSE @,
                             !.msgs = IF r.kind # 1 THEN @ + 1 ELSE @]
       IN Fold(a1, nn, Tail(rs))

Count(seq, e) == Cardinality({ i \in DOMAIN seq : seq[i] = e })
\* the KeyResponse and the error flag of a key operation with nn members and replies rs
Aggregate(nn, rs) ==
  LET a == Fold([nr |-> 0, ne |-> 0, keys |-> <<>>, pks |-> <<>>, msgs |-> 0], nn, rs) IN
  [ nn |-> nn, nr |-> a.nr, ne |-> a.ne, nmsg |-> a.msgs,
    keys |-> [k \in SeqSet(a.keys) |-> Count(a.keys, k)],
    pks  |-> [k \in SeqSet(a.pks) |-> Count(a.pks, k)],
    err  |-> a.ne # 0 \/ a.nr # nn ]

(* C23 aggregation monitor: inp = [nn, rs], o = observed [nn, nr, ne, err, keys, pks] with keys / pks *)
(* as sequences of <<key, count>>.  Literal reading, for reply sets with at most one reply per member: *)
(* NumResp = number of replies; NumErr = number of failed + undecodable replies; every (non-empty)     *)
(* key is listed with the number of replies that list it, every (non-empty) primary key with the      *)
(* number of replies naming it; an error is returned iff some reply failed or NumResp < members.       *)
PairsFun(ps) == [k \in { p[1] : p \in SeqSet(ps) } |-> (CHOOSE p \in SeqSet(ps) : p[1] = k)[2]]
AggClauses(inp, o) ==
  LET rs == inp.rs
      good == { i \in DOMAIN rs : Decodes(rs[i]) }
      nfail == Cardinality({ i \in DOMAIN rs : Failed(rs[i]) })
      allKeys == UNION { SeqSet(rs[i].keys) : i \in good } \ {0}
      allPks == { rs[i].pk : i \in good } \ {0}
      kf == PairsFun(o.keys)
      pf == PairsFun(o.pks)
      HoldCnt(k) == Cardinality({ i \in good : InSeq(rs[i].keys, k) })
      PkCnt(k) == Cardinality({ i \in good : rs[i].pk = k })
  IN   (IF o.nr = Len(rs) THEN {} ELSE {"C23_wrong_number_of_replies"})
  \cup (IF o.ne = nfail THEN {} ELSE {"C23_wrong_failure_count"})
  \cup (IF (DOMAIN kf) \ {0} = allKeys /\ \A k \in allKeys : kf[k] = HoldCnt(k) THEN {} ELSE {"C23_wrong_key_counts"})
  \cup (IF (DOMAIN pf) \ {0} = allPks /\ \A k \in allPks : pf[k] = PkCnt(k) THEN {} ELSE {"C23_wrong_primary_key_counts"})
  \cup (IF o.err = (nfail > 0 \/ Len(rs) < inp.nn) THEN {} ELSE {"C23_error_iff_failure_or_missing_reply"})

FunPairs(f) == { <<k, f[k]>> : k \in DOMAIN f }
RECURSIVE SetToSeqAny(_)
SetToSeqAny(S) == IF S = {} THEN <<>> ELSE LET x == CHOOSE y \in S : TRUE IN <<x>> \o SetToSeqAny(S \ {x})
AggObs(a) == [nn |-> a.nn, nr |-> a.nr, ne |-> a.ne, err |-> a.err, nmsg |-> a.nmsg, keys |-> a.keys, pks |-> a.pks]

------------------------------------------------------------------------------
(* Part 3.  Encoded size of the reply message of a _serf_list-keys query         *)
(* (encodeMessage = 1 type byte + msgpack map keyed by field names):             *)
(*   messageQueryResponse{LTime, ID, From, Flags, Payload}                       *)
(*   Payload = 1 type byte + nodeKeyResponse{Result, Message, Keys, PrimaryKey}  *)
(* The harness uses LTime < 128, 65536 <= ID < 2^32, Flags = 0.                  *)
RawHdr(n) == IF n <= 31 THEN 1 ELSE IF n <= 65535 THEN 3 ELSE 5         \* raw / string header
ArrHdr(n) == IF n <= 15 THEN 1 ELSE IF n <= 65535 THEN 3 ELSE 5
Digits(n) == IF n < 10 THEN 1 ELSE IF n < 100 THEN 2 ELSE IF n < 1000 THEN 3 ELSE 4
TruncMsgLen(i, n) == 52 + Digits(i) + Digits(n)   \* "truncated key list response, showing first %d of %d keys"

\* nk keys of kc characters each listed, message of ml characters, primary key of pc characters, name of nl
PayloadLen(nk, kc, ml, pc) ==
  1 + 1 + (7 + 1) + (8 + RawHdr(ml) + ml) + (5 + ArrHdr(nk) + nk * (RawHdr(kc) + kc)) + (11 + RawHdr(pc) + pc)
RespLen(nl, p) == 1 + 1 + (6 + 1) + (3 + 5) + (5 + RawHdr(nl) + nl) + (6 + 1) + (8 + RawHdr(p) + p)
ReplySize(nl, nk, kc, ml, pc) == RespLen(nl, PayloadLen(nk, kc, ml, pc))

(* the loop: i from min(limit \div 25, n) down to 0; encode what is currently listed; if it does not fit, *)
(* cut the list to its first i keys, set the message, try again.  Result: [sent, nk, ml, i].              *)
RECURSIVE TruncLoop(_, _, _, _, _, _, _, _, _)
TruncLoop(i, nk, ml, mi, n, kc, pc, nl, limit) ==
  IF i < 0 THEN [sent |-> FALSE, nk |-> nk, ml |-> ml, mi |-> mi, size |-> 0]
  ELSE LET sz == ReplySize(nl, nk, kc, ml, pc) IN
       IF sz > limit THEN TruncLoop(i - 1, IF i < nk THEN i ELSE nk, TruncMsgLen(i, n), i, n, kc, pc, nl, limit)
       ELSE [sent |-> TRUE, nk |-> nk, ml |-> ml, mi |-> mi, size |-> sz]

\* a node with n keys of kc characters, name of nl characters, limit.  n = 0: no keyring -- the reply is the
\* failure "Keyring is empty (encryption not enabled)" (41 characters) with no keys and no primary key.
Truncate(n, kc, nl, limit) ==
  LET mx == IF limit \div 25 > n THEN n ELSE limit \div 25 IN
  TruncLoop(mx, n, IF n = 0 THEN 41 ELSE 0, -1, n, kc, IF n = 0 THEN 0 ELSE kc, nl, limit)

(* C23 truncation monitor.  inp = [n, kc, nl, limit]; o = observed reply:                              *)
(*   sent, size (encoded length), nk (keys listed), prefix (they are the first nk keys of the node),   *)
(*   mi, mn (the "i of n" the message states, -1 if it states none).                                   *)
(* "When one key fits": the smallest reply that still lists one key (one key + the truncation note)    *)
(* is within the limit.                                                                                *)
OneKeyFits(inp) ==
  inp.n >= 1 /\ ReplySize(inp.nl, 1, inp.kc, IF inp.n > 1 THEN TruncMsgLen(1, inp.n) ELSE 0, inp.kc) <= inp.limit
TruncClauses(inp, o) ==
  IF ~o.sent THEN {}
  ELSE (IF OneKeyFits(inp) /\ o.size > inp.limit THEN {"C23_reply_exceeds_limit"} ELSE {})
  \cup (IF o.prefix /\ o.nk <= inp.n THEN {} ELSE {"C23_listed_keys_not_a_prefix"})
  \cup (IF o.nk < inp.n /\ ~(o.mi = o.nk /\ o.mn = inp.n) THEN {"C23_truncation_not_stated"} ELSE {})

TruncObs(inp, t) ==
  [sent |-> t.sent, size |-> t.size, nk |-> IF t.sent THEN t.nk ELSE 0, prefix |-> TRUE,
   mi |-> IF t.sent THEN t.mi ELSE -1, mn |-> IF t.sent /\ t.mi >= 0 THEN inp.n ELSE -1]
=============================================================================
