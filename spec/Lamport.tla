------------------------------ MODULE Lamport ------------------------------
(* serf/lamport.go -- LamportClock under concurrent Time / Increment / Witness. *)
(*                                                                             *)
(* One action per atomic access, as in the code:                               *)
(*   Time      : ret := counter.Load()                                         *)
(*   Increment : ret := counter.Add(1)            (wraps at MAX like uint64)   *)
(*   Witness(v): WL  cur := counter.Load()                                     *)
(*               WT  if v < cur then return                                    *)
(*               WC  if CAS(cur, v+1) then return else goto WL                 *)
(*   Fin       : the call returns to its caller                                *)
(* Clock values live in 0..MAX; the harness embeds them into uint64 with       *)
(* MAX |-> 2^64-1 (values above MAX \div 2 are counted down from the top), so   *)
(* the overflow of the real counter is the model's wrap-around.                *)
(*                                                                             *)
(* The specification is written functionally (state record S, Acts(S,t) = set   *)
(* of successor records) so that the trace specification can compose a step     *)
(* with the return of the call.                                                 *)
EXTENDS Integers, Sequences, FiniteSets, TLC

CONSTANTS MAX,       \* largest clock value (stands for 2^64-1)
          NT,        \* threads
          Progs      \* set of programs: each a sequence (one per thread) of sequences of [op, v]

Threads == 1..NT

VARIABLES S,         \* [c |-> counter, th |-> thread -> [pc, cur, i, ret], prog |-> program]
          M,         \* monitor: [bad, tags, incs, fins]
          last

vars == <<S, M, last>>

Wrap(x) == x % (MAX + 1)

IdleTh == [pc |-> "idle", cur |-> 0, i |-> 0, ret |-> -1]
InitS(p) == [c |-> 0, th |-> [t \in Threads |-> IdleTh], prog |-> p]

CurOp(s, t) == s.prog[t][s.th[t].i + 1]
HasOp(s, t) == s.th[t].i < Len(s.prog[t])

\* successor records of one atomic action of thread t (empty when t has finished its program)
Acts(s, t) ==
  LET th == s.th[t] IN
  IF th.pc = "idle" THEN
     IF ~HasOp(s, t) THEN {}
     ELSE LET o == CurOp(s, t) IN
          CASE o.op = "time" -> { [s EXCEPT !.th[t].pc = "ret", !.th[t].ret = s.c] }
            [] o.op = "inc"  -> { [s EXCEPT !.c = Wrap(s.c + 1), !.th[t].pc = "ret", !.th[t].ret = Wrap(s.c + 1)] }
            [] o.op = "wit"  -> { [s EXCEPT !.th[t].pc = "wt", !.th[t].cur = s.c] }
  ELSE IF th.pc = "wl" THEN { [s EXCEPT !.th[t].pc = "wt", !.th[t].cur = s.c] }
  ELSE IF th.pc = "wt" THEN
       IF CurOp(s, t).v < th.cur THEN { [s EXCEPT !.th[t].pc = "ret", !.th[t].ret = 0] }
                                 ELSE { [s EXCEPT !.th[t].pc = "wc"] }
  ELSE IF th.pc = "wc" THEN
       IF s.c = th.cur THEN { [s EXCEPT !.c = Wrap(CurOp(s, t).v + 1), !.th[t].pc = "ret", !.th[t].ret = 0] }
                       ELSE { [s EXCEPT !.th[t].pc = "wl"] }
  ELSE {}

CanFin(s, t) == s.th[t].pc = "ret"
Fin(s, t) == [s EXCEPT !.th[t] = [pc |-> "idle", cur |-> 0, i |-> s.th[t].i + 1, ret |-> -1]]

------------------------------------------------------------------------------
(* Property C19 as a monitor over observed data:                               *)
(*   pre, post : counter before / after the step                               *)
(*   fin       : <<>> or <<[t, op, v, ret]>> when a call returned in this step *)
MonInit == M = [bad |-> {}, tags |-> {}, incs |-> {}]

TopTag(prog, post) ==
  IF post = MAX \/ \E t \in DOMAIN prog : \E k \in DOMAIN prog[t] : prog[t][k].op = "wit" /\ prog[t][k].v = MAX
    THEN {"at_top"} ELSE {}

MonStep(m, prog, pre, post, fin) ==
  LET f == IF fin = <<>> THEN [op |-> "none", v |-> 0, ret |-> 0] ELSE fin[1] IN
  [ bad  |-> m.bad
             \cup (IF post < pre THEN {"clock_went_backwards"} ELSE {})
             \cup (IF f.op = "inc" /\ f.ret \in m.incs THEN {"increment_not_distinct"} ELSE {})
             \cup (IF f.op = "wit" /\ ~(post > f.v) THEN {"witness_not_passed"} ELSE {}),
    tags |-> m.tags \cup TopTag(prog, post) \cup TopTag(prog, pre),
    incs |-> IF f.op = "inc" THEN m.incs \cup {f.ret} ELSE m.incs ]

------------------------------------------------------------------------------
Init == /\ \E p \in Progs : S = InitS(p)
        /\ MonInit
        /\ last = [a |-> "init"]

StepAct(t) ==
  \E s2 \in Acts(S, t) :
     /\ S' = s2
     /\ M' = MonStep(M, S.prog, S.c, s2.c, <<>>)
     /\ last' = [a |-> "step", t |-> t]

FinAct(t) ==
  /\ CanFin(S, t)
  /\ S' = Fin(S, t)
  /\ M' = MonStep(M, S.prog, S.c, S.c,
                  << [op |-> CurOp(S, t).op, v |-> CurOp(S, t).v, ret |-> S.th[t].ret] >>)
  /\ last' = [a |-> "fin", t |-> t]

Next == \E t \in Threads : StepAct(t) \/ FinAct(t)
Spec == Init /\ [][Next]_vars

\* C19 with the recorded finding carved out: the clock is unsound once 2^64-1 is witnessed or reached
C19 == M.bad # {} => "at_top" \in M.tags
\* and the finding itself is reachable (checked by a separate config that expects a violation)
C19Strict == M.bad = {}
=============================================================================
