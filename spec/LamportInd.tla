---------------------------- MODULE LamportInd ----------------------------
(* Unbounded companion of spec/Lamport.tla: the same atomic accesses of     *)
(* serf/lamport.go (Time load, Increment add, Witness load / test / CAS),    *)
(* flat variables with Apalache type annotations, MAX symbolic (any natural  *)
(* >= 2, standing for 2^64-1).  IndInv is an inductive invariant: it holds   *)
(* initially and is preserved by every step for EVERY value of MAX and every *)
(* reachable or unreachable state satisfying it, so C19 (below the recorded  *)
(* wrap at the top) holds for histories of any length -- the bounded TLC     *)
(* runs of MC_Lamport only cover MAX = 31 and two calls per thread.          *)
EXTENDS Integers

CONSTANTS
  \* @type: Int;
  MAX,
  \* @type: Set(Int);
  Threads

VARIABLES
  \* @type: Int;
  c,
  \* @type: Int;
  prev,
  \* @type: Int -> Str;
  pc,
  \* @type: Int -> Int;
  cur,
  \* @type: Int -> Int;
  v,
  \* @type: Int;
  maxinc,
  \* @type: Bool;
  top,
  \* @type: Bool;
  bad

ConstInit == /\ MAX \in Nat
             /\ MAX >= 2
             /\ Threads = {1, 2, 3, 4, 5, 6}

Vals == Int   \* TLC: overridden by 0..MAX

Wrap(x) == IF x > MAX THEN x - (MAX + 1) ELSE x

Init == /\ c = 0 /\ prev = 0 /\ maxinc = 0 /\ top = FALSE /\ bad = FALSE
        /\ pc = [t \in Threads |-> "idle"]
        /\ cur = [t \in Threads |-> 0]
        /\ v = [t \in Threads |-> 0]

\* ret := counter.Load()
Time(t) == /\ pc[t] = "idle"
           /\ UNCHANGED <<c, pc, cur, v, maxinc, top, bad>>
           /\ prev' = c

\* ret := counter.Add(1); every Increment result must be new (greater than all earlier ones)
Inc(t) == /\ pc[t] = "idle"
          /\ c' = Wrap(c + 1)
          /\ prev' = c
          /\ top' = (top \/ c' = MAX \/ c = MAX)
          /\ bad' = (bad \/ c' < c \/ c' <= maxinc)
          /\ maxinc' = IF c' > maxinc THEN c' ELSE maxinc
          /\ UNCHANGED <<pc, cur, v>>

\* Witness(x): cur := counter.Load()
WitLoad(t) == /\ pc[t] = "idle"
              /\ \E x \in Vals :
                    /\ 0 <= x /\ x <= MAX
                    /\ v' = [v EXCEPT ![t] = x]
                    /\ top' = (top \/ x = MAX)
              /\ cur' = [cur EXCEPT ![t] = c]
              /\ pc' = [pc EXCEPT ![t] = "wt"]
              /\ prev' = c
              /\ UNCHANGED <<c, maxinc, bad>>

ReLoad(t) == /\ pc[t] = "wl"
             /\ cur' = [cur EXCEPT ![t] = c]
             /\ pc' = [pc EXCEPT ![t] = "wt"]
             /\ prev' = c
             /\ UNCHANGED <<c, v, maxinc, top, bad>>

\* if v < cur { return }  -- the call returns: the clock must be past v
WitTest(t) == /\ pc[t] = "wt"
              /\ IF v[t] < cur[t]
                   THEN /\ pc' = [pc EXCEPT ![t] = "idle"]
                        /\ bad' = (bad \/ ~(c > v[t]))
                   ELSE /\ pc' = [pc EXCEPT ![t] = "wc"]
                        /\ bad' = bad
              /\ prev' = c
              /\ UNCHANGED <<c, cur, v, maxinc, top>>

\* if CAS(cur, v+1) { return } else retry
WitCAS(t) == /\ pc[t] = "wc"
             /\ IF c = cur[t]
                  THEN /\ c' = Wrap(v[t] + 1)
                       /\ pc' = [pc EXCEPT ![t] = "idle"]
                       /\ bad' = (bad \/ c' < c \/ ~(c' > v[t]))
                       /\ top' = (top \/ c' = MAX)
                  ELSE /\ c' = c
                       /\ pc' = [pc EXCEPT ![t] = "wl"]
                       /\ bad' = bad
                       /\ top' = top
             /\ prev' = c
             /\ UNCHANGED <<cur, v, maxinc>>

Next == \E t \in Threads : Time(t) \/ Inc(t) \/ WitLoad(t) \/ ReLoad(t) \/ WitTest(t) \/ WitCAS(t)

------------------------------------------------------------------------------
TypeOK == /\ c \in Int /\ 0 <= c /\ c <= MAX
          /\ prev \in Int /\ 0 <= prev /\ prev <= MAX
          /\ maxinc \in Int /\ 0 <= maxinc /\ maxinc <= MAX
          /\ top \in BOOLEAN /\ bad \in BOOLEAN
          /\ pc \in [Threads -> {"idle", "wl", "wt", "wc"}]
          /\ cur \in [Threads -> Int]
          /\ v \in [Threads -> Int]
          /\ \A t \in Threads : 0 <= cur[t] /\ cur[t] <= MAX /\ 0 <= v[t] /\ v[t] <= MAX

\* C19 below the top: no clause has been broken, the clock has not gone back in the last step
C19 == ~top => (~bad /\ prev <= c)

IndInv == /\ TypeOK
          /\ ~top => /\ ~bad
                     /\ prev <= c
                     /\ c < MAX
                     /\ maxinc <= c
                     /\ \A t \in Threads :
                          /\ pc[t] # "idle" => (v[t] < MAX /\ cur[t] <= c)
                          /\ pc[t] = "wc" => cur[t] <= v[t]

IndInit == IndInv

\* not an invariant: the recorded finding (wrap at the top) breaks it within four steps
NeverBad == ~bad
=============================================================================
