----------------------------- MODULE Lifecycle -----------------------------
(* serf/serf.go: Serf.Join / Leave / Shutdown / State on one node, concurrently.     *)
(*                                                                                   *)
(* state: 0 alive, 1 leaving, 2 left, 3 shutdown (SerfState numbering).              *)
(* Actions follow the code's statements and lock scopes:                             *)
(*  Leave:    v_lk stateLock; v_sw switch s.state (left: unlock, nil | leaving:       *)
(*            unlock, "already in progress" | shutdown: unlock, "after Shutdown");    *)
(*            v_set state = leaving; v_ul unlock; (snapshot, local intent, broadcast  *)
(*            wait: no shared lifecycle state) v_ml memberlist.Leave -- panics        *)
(*            "leave after shutdown" if memberlist was shut down; (sleep) v_lk2 lock;  *)
(*            v_fin state = left unless shutdown; v_ul2 unlock; return nil            *)
(*  Shutdown: d_lk lock (held to the end); d_chk already shutdown -> nil; d_set       *)
(*            state = shutdown; d_ml memberlist.Shutdown; d_r return nil (+ unlock)   *)
(*  Join:     j_slk/j_srd the unlocked-looking State() read; refused unless alive;    *)
(*            j_jlk joinLock; j_ml memberlist.Join; j_r return (+ unlock)             *)
(*  State:    s_lk lock; s_rd read (+ unlock)                                         *)
EXTENDS Integers, Sequences, FiniteSets, TLC

CONSTANTS Progs     \* set of programs: one sequence of [op |-> "join"|"leave"|"shutdown"|"state"] per thread

VARIABLES S, M, last
vars == <<S, M, last>>

IdleTh == [pc |-> "idle", i |-> 0, ret |-> "", rv |-> -1]
InitS(prog) == [state |-> 0, sl |-> 0, jl |-> 0, mlShut |-> FALSE,
                th |-> [t \in DOMAIN prog |-> IdleTh], prog |-> prog]

HasOp(s, t) == s.th[t].i < Len(s.prog[t])
CurOp(s, t) == s.prog[t][s.th[t].i + 1]
CanStart(s, t) == s.th[t].pc = "idle" /\ HasOp(s, t)
Start(s, t) ==
  LET o == CurOp(s, t) IN
  [s EXCEPT !.th[t].pc = CASE o.op = "leave" -> "v_lk" [] o.op = "shutdown" -> "d_lk"
                           [] o.op = "join" -> "j_slk" [] OTHER -> "s_lk"]

Ret(s, t, r) == [s EXCEPT !.th[t].pc = "ret", !.th[t].ret = r]

Acts(s, t) ==
  LET th == s.th[t]  pc == th.pc IN
  CASE pc = "v_lk"  -> IF s.sl = 0 THEN { [s EXCEPT !.sl = t, !.th[t].pc = "v_sw"] } ELSE {}
    [] pc = "v_sw"  -> { [s EXCEPT !.th[t].pc = CASE s.state = 2 -> "v_u1" [] s.state = 1 -> "v_u2"
                                                  [] s.state = 3 -> "v_u3" [] OTHER -> "v_set"] }
    [] pc = "v_u1"  -> { [s EXCEPT !.sl = 0, !.th[t].pc = "v_r1"] }
    [] pc = "v_r1"  -> { Ret(s, t, "nil") }
    [] pc = "v_u2"  -> { [s EXCEPT !.sl = 0, !.th[t].pc = "v_r2"] }
    [] pc = "v_r2"  -> { Ret(s, t, "inprogress") }
    [] pc = "v_u3"  -> { [s EXCEPT !.sl = 0, !.th[t].pc = "v_r3"] }
    [] pc = "v_r3"  -> { Ret(s, t, "aftershutdown") }
    [] pc = "v_set" -> { [s EXCEPT !.state = 1, !.th[t].pc = "v_ul"] }
    [] pc = "v_ul"  -> { [s EXCEPT !.sl = 0, !.th[t].pc = "v_ml"] }
    [] pc = "v_ml"  -> IF s.mlShut THEN { Ret(s, t, "panic_ml") } ELSE { [s EXCEPT !.th[t].pc = "v_lk2"] }
    [] pc = "v_lk2" -> IF s.sl = 0 THEN { [s EXCEPT !.sl = t, !.th[t].pc = "v_fin"] } ELSE {}
    [] pc = "v_fin" -> { [s EXCEPT !.state = IF s.state # 3 THEN 2 ELSE 3, !.th[t].pc = "v_ul2"] }
    [] pc = "v_ul2" -> { [s EXCEPT !.sl = 0, !.th[t].pc = "v_r"] }
    [] pc = "v_r"   -> { Ret(s, t, "nil") }
    [] pc = "d_lk"  -> IF s.sl = 0 THEN { [s EXCEPT !.sl = t, !.th[t].pc = "d_chk"] } ELSE {}
    [] pc = "d_chk" -> IF s.state = 3 THEN { Ret([s EXCEPT !.sl = 0], t, "nil") } ELSE { [s EXCEPT !.th[t].pc = "d_set"] }
    [] pc = "d_set" -> { [s EXCEPT !.state = 3, !.th[t].pc = "d_ml"] }
    [] pc = "d_ml"  -> { [s EXCEPT !.mlShut = TRUE, !.th[t].pc = "d_r"] }
    [] pc = "d_r"   -> { Ret([s EXCEPT !.sl = 0], t, "nil") }
    [] pc = "j_slk" -> IF s.sl = 0 THEN { [s EXCEPT !.sl = t, !.th[t].pc = "j_srd"] } ELSE {}
    [] pc = "j_srd" -> { [s EXCEPT !.sl = 0, !.th[t].pc = IF s.state # 0 THEN "j_ref" ELSE "j_jlk"] }
    [] pc = "j_ref" -> { Ret(s, t, "refused") }
    [] pc = "j_jlk" -> IF s.jl = 0 THEN { [s EXCEPT !.jl = t, !.th[t].pc = "j_ml"] } ELSE {}
    [] pc = "j_ml"  -> { [s EXCEPT !.th[t].pc = "j_r"] }
    [] pc = "j_r"   -> { Ret([s EXCEPT !.jl = 0], t, "nil"), Ret([s EXCEPT !.jl = 0], t, "other") }
    [] pc = "s_lk"  -> IF s.sl = 0 THEN { [s EXCEPT !.sl = t, !.th[t].pc = "s_rd"] } ELSE {}
    [] pc = "s_rd"  -> { [s EXCEPT !.sl = 0, !.th[t].pc = "ret", !.th[t].ret = "nil", !.th[t].rv = s.state] }
    [] OTHER -> {}

CanFin(s, t) == s.th[t].pc = "ret"
Fin(s, t) == [s EXCEPT !.th[t] = [IdleTh EXCEPT !.i = s.th[t].i + 1]]
AllDone(s) == \A t \in DOMAIN s.prog : s.th[t].pc = "idle" /\ ~HasOp(s, t)
\* what a State() call completing now would return (-1: it would block)
Sample(s) == IF s.sl = 0 THEN s.state ELSE -1

------------------------------------------------------------------------------
(* Property C34 as a monitor over logged inputs (program, which thread ran, call      *)
(* invocations) and observed outputs (State() sampled after every step when the       *)
(* state lock is free, results of completed calls).  Readings:                        *)
(*  C34_state_went_back        a sample is lower than an earlier sample / State()     *)
(*                             result (alive < leaving < left < shutdown)             *)
(*  C34_state_result_stale     State() returned less than a sample taken before it    *)
(*                             was invoked                                            *)
(*  C34_shutdown_again_failed  a Shutdown invoked after a Shutdown had returned did   *)
(*                             not return nil                                         *)
(*  C34_leave_again_failed     a Leave invoked after a Leave had returned nil did not *)
(*                             return nil although no Shutdown had been invoked by    *)
(*                             the time it returned                                   *)
(*  C34_join_not_refused       a Join invoked after a sample showed a state other     *)
(*                             than alive ("a leave or shutdown had begun" = its      *)
(*                             state change is visible) was not refused               *)
MonInit(prog) ==
  [ bad |-> {}, tags |-> {}, oi |-> [t \in DOMAIN prog |-> 0], mx |-> 0,
    leaveDone |-> FALSE, sdInv |-> FALSE, sdDone |-> FALSE,
    at |-> [t \in DOMAIN prog |-> [mx |-> 0, leaveDone |-> FALSE, sdDone |-> FALSE]], ended |-> FALSE ]

Max(a, b) == IF a > b THEN a ELSE b

\* e = [t, inv, fin, st, ret, rv, end, dead]
MonStep(m, prog, e) ==
  LET isT == e.t \in DOMAIN prog
      o   == IF isT /\ (e.inv \/ e.fin) /\ m.oi[e.t] < Len(prog[e.t]) THEN prog[e.t][m.oi[e.t] + 1] ELSE [op |-> "none"]
      \* invocation: remember what was known when the call began
      at1 == IF e.inv /\ isT THEN [m.at EXCEPT ![e.t] = [mx |-> m.mx, leaveDone |-> m.leaveDone, sdDone |-> m.sdDone]] ELSE m.at
      sdInv1 == m.sdInv \/ (e.inv /\ o.op = "shutdown")
      a   == IF isT THEN at1[e.t] ELSE [mx |-> 0, leaveDone |-> FALSE, sdDone |-> FALSE]
      back == e.st >= 0 /\ e.st < m.mx
      mx1 == IF e.st > m.mx THEN e.st ELSE m.mx
      b == (IF back THEN {"C34_state_went_back"} ELSE {})
           \cup (IF e.fin /\ o.op = "state" /\ e.rv < a.mx THEN {"C34_state_result_stale"} ELSE {})
           \cup (IF e.fin /\ o.op = "shutdown" /\ a.sdDone /\ e.ret # "nil" THEN {"C34_shutdown_again_failed"} ELSE {})
           \cup (IF e.fin /\ o.op = "leave" /\ a.leaveDone /\ ~sdInv1 /\ e.ret # "nil" THEN {"C34_leave_again_failed"} ELSE {})
           \cup (IF e.fin /\ o.op = "join" /\ a.mx > 0 /\ e.ret # "refused" THEN {"C34_join_not_refused"} ELSE {})
           \cup (IF e.end /\ e.dead THEN {"C34_deadlock"} ELSE {})
  IN [m EXCEPT !.bad = @ \cup b,
               !.tags = @ \cup (IF e.fin /\ e.ret = "panic_ml" THEN {"memberlist_leave_after_shutdown_panic"} ELSE {}),
               !.at = at1, !.sdInv = sdInv1,
               !.mx = IF e.fin /\ o.op = "state" THEN Max(mx1, e.rv) ELSE mx1,
               !.leaveDone = @ \/ (e.fin /\ o.op = "leave" /\ e.ret = "nil"),
               !.sdDone = @ \/ (e.fin /\ o.op = "shutdown" /\ e.ret = "nil"),
               !.oi = IF isT /\ e.fin THEN [@ EXCEPT ![e.t] = @ + 1] ELSE @,
               !.ended = @ \/ e.end]

Ev(t, inv, fin, s, pre, end) ==
  [t |-> t, inv |-> inv, fin |-> fin, st |-> Sample(s),
   ret |-> IF fin THEN pre.th[t].ret ELSE "", rv |-> IF fin THEN pre.th[t].rv ELSE -1, end |-> end, dead |-> FALSE]

------------------------------------------------------------------------------
Init == /\ \E p \in Progs : S = InitS(p) /\ M = MonInit(p)
        /\ last = [a |-> "init"]

StartAct(t) ==
  /\ CanStart(S, t)
  /\ S' = Start(S, t)
  /\ M' = MonStep(M, S.prog, Ev(t, TRUE, FALSE, S', S, FALSE))
  /\ last' = [a |-> "start", t |-> t]

StepAct(t) ==
  \E s2 \in Acts(S, t) :
     /\ S' = s2
     /\ M' = MonStep(M, S.prog, Ev(t, FALSE, FALSE, s2, S, FALSE))
     /\ last' = [a |-> "step", t |-> t]

FinAct(t) ==
  /\ CanFin(S, t)
  /\ S' = Fin(S, t)
  /\ M' = MonStep(M, S.prog, Ev(t, FALSE, TRUE, S', S, FALSE))
  /\ last' = [a |-> "fin", t |-> t]

EndAct ==
  /\ AllDone(S) /\ ~M.ended
  /\ S' = S
  /\ M' = MonStep(M, S.prog, Ev(0, FALSE, FALSE, S, S, TRUE))
  /\ last' = [a |-> "end"]

Next == (\E t \in DOMAIN S.prog : StartAct(t) \/ StepAct(t) \/ FinAct(t)) \/ EndAct
Spec == Init /\ [][Next]_vars

NoDeadlock == AllDone(S) \/ \E t \in DOMAIN S.prog : CanStart(S, t) \/ Acts(S, t) # {} \/ CanFin(S, t)
C34 == M.bad = {}
\* the memberlist panic (outside C34) is reachable: Leave racing Shutdown
NoMlPanic == "memberlist_leave_after_shutdown_panic" \notin M.tags
=============================================================================
