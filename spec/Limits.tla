------------------------------- MODULE Limits -------------------------------
(* Size gates (property C33): serf/serf.go UserEvent (464-521), Query          *)
(* (576-579), serf/event.go respondWithMessageAndResponse / checkResponseSize, *)
(* serf/query.go relayResponse (size gate of the relayed copy).                *)
(* F-pattern: one step per vector.  All sizes are real byte counts.            *)
(*                                                                            *)
(* Action records (the vector chosen by TLC):                                  *)
(*  [a |-> "event", cfg, anchor, at, nl, k, mem]                               *)
(*        UserEvent on a node whose UserEventSizeLimit is cfg (cfg > Hard is   *)
(*        only reachable by changing the configuration after Create);          *)
(*        anchor = "raw": len(name)+len(payload) = at                          *)
(*        anchor = "enc": encoded message length = at;  nl = name length hint  *)
(*  [a |-> "query", cfg, anchor = "enc", at, nl, k, mem]                       *)
(*        Query on a node whose QuerySizeLimit is cfg, encoded length = at     *)
(*  [a |-> "respond", cfg, anchor, at, nl, k, mem]                             *)
(*        Query.Respond on a node whose QueryResponseSizeLimit is cfg, for a   *)
(*        query with relay factor k, the node knowing mem other (alive,        *)
(*        relay-capable) members; anchor = "enc": encoded response = at,       *)
(*        anchor = "relay": encoded relay wrapper = at                         *)
(* Observation (obs): the sizes the harness realised (raw, enc, renc), and     *)
(*   err     the call returned an error                                        *)
(*   deliv   events/queries with that name handed to the local application     *)
(*   queued  copies on the broadcast queues                                    *)
(*   sent    direct responses on the transport, relayed: relay packets         *)
(*   maxmsg  largest serf message of the kind seen in the queues / transport   *)
(*   dclock  change of the event (query) clock (conformance only, no clause)   *)
EXTENDS Integers, Sequences, FiniteSets, TLC

CONSTANTS Hard,        \* serf.UserEventSizeLimit = 9216
          OVS,         \* possible encoder overheads: enc - raw of a user event
          ROVS,        \* possible relay wrapper overheads: renc - enc
          Dmax         \* offsets -Dmax..Dmax around each boundary

VARIABLES last, out, steps, M
vars == <<last, out, steps, M>>

Min(a, b) == IF a < b THEN a ELSE b
Max(a, b) == IF a > b THEN a ELSE b

------------------------------------------------------------------------------
(* The definition *)
EventWithin(cfg, raw, enc) == raw <= cfg /\ raw <= Hard /\ enc <= cfg /\ enc <= Hard
QueryWithin(cfg, enc)      == enc <= cfg
RespWithin(cfg, enc)       == enc <= cfg

\* is the relay attempted at all (relayResponse gates before encoding)
RelayTried(v) == v.k >= 1 /\ v.mem + 1 >= v.k + 1

\* expected observation as the code computes it; sz = [raw, enc, renc]; rl = number of relays that
\* found a target (kRandomMembers may come back short)
Expected(v, sz, rl) ==
  CASE v.a = "event" ->
         LET acc == EventWithin(v.cfg, sz.raw, sz.enc) n == IF acc THEN 1 ELSE 0
             \* the Lamport time is taken (Increment) after the raw-size checks and before the encoded-size
             \* checks (/repo 82cb47c): an event rejected for its encoded size burns a time
             rawok == sz.raw <= v.cfg /\ sz.raw <= Hard
         IN  [raw |-> sz.raw, enc |-> sz.enc, renc |-> 0, err |-> ~acc, deliv |-> n, queued |-> n,
              sent |-> 0, relayed |-> 0, maxmsg |-> IF acc THEN sz.enc ELSE 0, dclock |-> IF rawok THEN 1 ELSE 0]
    [] v.a = "query" ->
         LET acc == QueryWithin(v.cfg, sz.enc) n == IF acc THEN 1 ELSE 0
             \* the query clock is advanced before the size check: a rejected query burns a time too
         IN  [raw |-> sz.raw, enc |-> sz.enc, renc |-> 0, err |-> ~acc, deliv |-> n, queued |-> n,
              sent |-> 0, relayed |-> 0, maxmsg |-> IF acc THEN sz.enc ELSE 0, dclock |-> 1]
    [] v.a = "respond" ->
         LET direct == RespWithin(v.cfg, sz.enc)
             tried  == direct /\ RelayTried(v)
             rfits  == sz.renc <= v.cfg
             nrel   == IF tried /\ rfits THEN rl ELSE 0
         IN  [raw |-> sz.raw, enc |-> sz.enc, renc |-> sz.renc,
              err |-> ~direct \/ (tried /\ ~rfits),
              deliv |-> 0, queued |-> 0, sent |-> IF direct THEN 1 ELSE 0, relayed |-> nrel,
              maxmsg |-> IF ~direct THEN 0 ELSE IF nrel > 0 THEN Max(sz.enc, sz.renc) ELSE sz.enc,
              dclock |-> 0]

------------------------------------------------------------------------------
(* Monitor for C33 over the vector and the observation only.                  *)
(* Reading: accepted <=> within every applicable limit (a limit L admits      *)
(* sizes <= L); a rejected call returns an error and leaves no trace (nothing *)
(* delivered, queued or sent); an accepted event is delivered once and queued *)
(* once; no message larger than the limit ever shows up in the queues or on   *)
(* the transport.                                                             *)
Clauses(v, o) ==
  LET lim == IF v.a = "event" THEN Min(v.cfg, Hard) ELSE v.cfg
      within == CASE v.a = "event"   -> EventWithin(v.cfg, o.raw, o.enc)
                  [] v.a = "query"   -> QueryWithin(v.cfg, o.enc)
                  [] v.a = "respond" -> RespWithin(v.cfg, o.enc)
      effects == o.deliv + o.queued + o.sent + o.relayed
  IN  (IF o.maxmsg > lim THEN {"C33_oversize_message_seen"} ELSE {})
      \cup (IF v.a = "event" /\ ~o.err /\ ~within THEN {"C33_event_accepted_beyond_limit"} ELSE {})
      \cup (IF v.a = "event" /\ o.err /\ within THEN {"C33_event_within_limit_rejected"} ELSE {})
      \cup (IF v.a = "event" /\ o.err /\ (o.deliv > 0) THEN {"C33_rejected_event_delivered"} ELSE {})
      \cup (IF v.a = "event" /\ o.err /\ (o.queued > 0) THEN {"C33_rejected_event_broadcast"} ELSE {})
      \cup (IF v.a = "event" /\ ~o.err /\ (o.deliv # 1 \/ o.queued # 1) THEN {"C33_accepted_event_not_delivered_once_and_queued"} ELSE {})
      \cup (IF v.a = "query" /\ (o.queued > 0 \/ o.deliv > 0) /\ ~within THEN {"C33_query_sent_beyond_limit"} ELSE {})
      \cup (IF v.a = "query" /\ within /\ (o.err \/ o.queued # 1) THEN {"C33_query_within_limit_not_sent"} ELSE {})
      \cup (IF v.a = "query" /\ ~within /\ ~o.err THEN {"C33_query_beyond_limit_no_error"} ELSE {})
      \cup (IF v.a = "respond" /\ o.sent > 0 /\ ~within THEN {"C33_response_sent_beyond_limit"} ELSE {})
      \cup (IF v.a = "respond" /\ within /\ o.sent # 1 THEN {"C33_response_within_limit_not_sent"} ELSE {})
      \cup (IF v.a = "respond" /\ ~within /\ (~o.err \/ effects > 0) THEN {"C33_response_beyond_limit_no_error"} ELSE {})
      \cup (IF v.a = "respond" /\ o.relayed > 0 /\ o.renc > v.cfg THEN {"C33_relay_sent_beyond_limit"} ELSE {})

MonStep(m, v, o) == [m EXCEPT !.bad = @ \cup Clauses(v, o)]
MonInit == [bad |-> {}]

TagsOf(v) == {v.a, v.anchor}

------------------------------------------------------------------------------
(* Vector domain *)
Offs == (0 - Dmax)..Dmax

V(a, cfg, anchor, at, nl, k, mem) ==
  [a |-> a, cfg |-> cfg, anchor |-> anchor, at |-> at, nl |-> nl, k |-> k, mem |-> mem]

EventCfgs == {64, 512, Hard - 1, Hard, Hard + 1, Hard + 3000}
EventVectors ==
  UNION { { V("event", c, an, b + d, nl, 0, 0) :
              an \in {"raw", "enc"}, b \in {c, Hard}, d \in Offs, nl \in {0, 1, 32} } : c \in EventCfgs }
  \cup { V("event", c, "raw", x, 1, 0, 0) : c \in EventCfgs, x \in {1, 20} }

QueryCfgs == {256, 1024, 4096}
QueryVectors == { V("query", c, "enc", c + d, nl, 0, 0) : c \in QueryCfgs, d \in Offs, nl \in {1, 40} }
                \cup { V("query", c, "enc", 200, 1, 0, 0) : c \in QueryCfgs }

RespCfgs == {256, 1024}
RespVectors ==
  { V("respond", c, "enc", c + d, 0, k, m) : c \in RespCfgs, d \in Offs, k \in 0..1, m \in 0..1 }
  \cup { V("respond", c, "relay", c + d, 0, 1, 1) : c \in RespCfgs, d \in Offs }
  \cup { V("respond", c, "enc", 100, 0, k, m) : c \in RespCfgs, k \in 0..1, m \in 0..1 }
  \* relay factor at the top of its uint8 range: with at most one peer nothing may be relayed, no error
  \cup { V("respond", c, "enc", c + d, 0, k, m) : c \in RespCfgs, d \in {0, 1}, k \in {254, 255}, m \in 0..1 }

Vectors == EventVectors \cup QueryVectors \cup RespVectors

\* what the environment (the real encoder) may make of a vector
Realize(v) ==
  CASE v.a = "event" ->
         { [raw  |-> IF v.anchor = "raw" THEN v.at ELSE v.at - ov,
            enc  |-> IF v.anchor = "raw" THEN v.at + ov ELSE v.at,
            renc |-> 0] : ov \in { o \in OVS : v.anchor = "raw" \/ v.at - o >= 0 } }
    [] v.a = "query" -> { [raw |-> 0, enc |-> v.at, renc |-> 0] }
    [] v.a = "respond" ->
         IF v.anchor = "enc"
         THEN { [raw |-> 0, enc |-> v.at, renc |-> IF v.k >= 1 THEN v.at + ro ELSE 0] : ro \in ROVS }
         ELSE { [raw |-> 0, enc |-> v.at - ro, renc |-> v.at] : ro \in ROVS }

Relays(v) == IF v.a = "respond" /\ RelayTried(v) THEN 0..Min(v.k, v.mem) ELSE {0}

Do(v, sz, rl) ==
  /\ last.a = "init"
  /\ out' = Expected(v, sz, rl)
  /\ last' = v
  /\ steps' = steps + 1
  /\ M' = MonStep(M, v, out')

Init == last = [a |-> "init"] /\ out = 0 /\ steps = 0 /\ M = MonInit
Next == last.a = "init" /\ \E v \in Vectors : \E sz \in Realize(v) : \E rl \in Relays(v) : Do(v, sz, rl)
Spec == Init /\ [][Next]_vars

C33 == M.bad = {}
=============================================================================
