------------------------------ MODULE LogPipe ------------------------------
(* cmd/serf/command/agent: GatedWriter (gated_writer.go) and logWriter            *)
(* (log_writer.go) under concurrent writers, Flush and RegisterHandler.           *)
(*                                                                                *)
(* Thread programs are sequences of calls                                         *)
(*   gw v : GatedWriter.Write(line v)     fl : GatedWriter.Flush()                 *)
(*   rw v : logWriter.Write(line v)       reg: logWriter.RegisterHandler(monitor)  *)
(* One action per statement (or per run of statements between two yield points)   *)
(* of the code, following its lock scopes:                                        *)
(*   Write:  w_rl  RLock            w_chk  if w.flush                              *)
(*           w_out return w.Writer.Write(p) (+ deferred RUnlock)                   *)
(*           w_app w.buf = append(w.buf, p2)  -- done under the READ lock, so it   *)
(*                 is a read-modify-write: w_rd (load w.buf) ; w_wr (store)        *)
(*           w_ret return (+ RUnlock)                                              *)
(*   Flush:  f_lk Lock, f_set flush = true, f_ul Unlock, f_rng range w.buf         *)
(*           (snapshot), per element the inner Write (fw_rl, fw_chk, fw_out |      *)
(*           fw_app, fw_ret), f_clr w.buf = nil                                    *)
(*   logWriter.Write: r_lk Lock, r_st store, r_ix advance index, r_nt notify       *)
(*           handlers, r_rt return (+ Unlock)                                      *)
(*   RegisterHandler: g_lk Lock, g_chk registered? register, g_old the wrap test   *)
(*           logs[index] # "", g_r1 replay index..N-1, g_r2 replay 0..index-1      *)
(* Functional style: state record, Acts(s,t) = successor states of one action of   *)
(* thread t, so that the trace specification can compose start / action / return. *)
EXTENDS Integers, Sequences, FiniteSets, TLC

CONSTANTS Progs      \* set of scenarios [prog |-> <<thread programs>>, n |-> ring size, fx |-> fixed-code variant?]

VARIABLES S,         \* state record, see InitS
          M,         \* monitor
          last

vars == <<S, M, last>>

IdleTh == [pc |-> "idle", i |-> 0, a |-> <<>>, k |-> 0]

\* fx = TRUE: the code with the proposed fix (reports/conc-fix-1.diff): one mutex, taken exclusively by Write
\* and held by Flush across the replay, which writes to the underlying writer directly
InitSx(prog, n, fx) ==
  [ fx |-> fx, fl |-> FALSE, buf |-> <<>>, rd |-> 0, wr |-> 0, out |-> <<>>,
    logs |-> [j \in 1..n |-> 0], idx |-> 0, reg |-> FALSE, mon |-> <<>>, rl |-> 0, n |-> n,
    th |-> [t \in DOMAIN prog |-> IdleTh], prog |-> prog ]
InitS(prog, n) == InitSx(prog, n, FALSE)

HasOp(s, t) == s.th[t].i < Len(s.prog[t])
CurOp(s, t) == s.prog[t][s.th[t].i + 1]

CanStart(s, t) == s.th[t].pc = "idle" /\ HasOp(s, t)
Start(s, t) ==
  LET o == CurOp(s, t) IN
  [s EXCEPT !.th[t].pc = CASE o.op = "gw" -> "w_rl" [] o.op = "fl" -> "f_lk"
                           [] o.op = "rw" -> "r_lk" [] OTHER -> "g_lk"]

Acts(s, t) ==
  LET th == s.th[t]  pc == th.pc IN
  IF pc \in {"idle", "ret"} THEN {}
  ELSE LET o == CurOp(s, t) IN
  CASE pc = "w_rl"  -> IF s.fx THEN (IF s.wr = 0 /\ s.rd = 0 THEN { [s EXCEPT !.wr = t, !.th[t].pc = "w_chk"] } ELSE {})
                       ELSE IF s.wr = 0 THEN { [s EXCEPT !.rd = @ + 1, !.th[t].pc = "w_chk"] } ELSE {}
    [] pc = "w_chk" -> IF s.fl THEN { [s EXCEPT !.th[t].pc = "w_out"] }
                       ELSE { [s EXCEPT !.th[t].pc = "w_app"], [s EXCEPT !.th[t].pc = "w_rd"] }
    [] pc = "w_out" -> { [s EXCEPT !.out = Append(@, o.v), !.rd = IF s.fx THEN @ ELSE @ - 1, !.wr = IF s.fx THEN 0 ELSE @, !.th[t].pc = "ret"] }
    [] pc = "w_app" -> { [s EXCEPT !.buf = Append(@, o.v), !.th[t].pc = "w_ret"] }
    [] pc = "w_rd"  -> { [s EXCEPT !.th[t].a = s.buf, !.th[t].pc = "w_wr"] }
    [] pc = "w_wr"  -> { [s EXCEPT !.buf = Append(th.a, o.v), !.th[t].a = <<>>, !.th[t].pc = "w_ret"] }
    [] pc = "w_ret" -> { [s EXCEPT !.rd = IF s.fx THEN @ ELSE @ - 1, !.wr = IF s.fx THEN 0 ELSE @, !.th[t].pc = "ret"] }
    [] pc = "f_lk"  -> IF s.rd = 0 /\ s.wr = 0 THEN { [s EXCEPT !.wr = t, !.th[t].pc = "f_set"] } ELSE {}
    [] pc = "f_set" -> { [s EXCEPT !.fl = TRUE, !.th[t].pc = IF s.fx THEN "f_rng" ELSE "f_ul"] }
    [] pc = "f_ul"  -> { [s EXCEPT !.wr = 0, !.th[t].pc = "f_rng"] }
    [] pc = "f_rng" -> { [s EXCEPT !.th[t].a = s.buf, !.th[t].k = 1,
                                   !.th[t].pc = IF Len(s.buf) = 0 THEN "f_clr" ELSE IF s.fx THEN "fx_out" ELSE "fw_rl"] }
    [] pc = "fx_out" -> { [s EXCEPT !.out = Append(@, th.a[th.k]), !.th[t].k = @ + 1,
                                    !.th[t].pc = IF th.k + 1 > Len(th.a) THEN "f_clr" ELSE "fx_out"] }
    [] pc = "fw_rl" -> IF s.wr = 0 THEN { [s EXCEPT !.rd = @ + 1, !.th[t].pc = "fw_chk"] } ELSE {}
    [] pc = "fw_chk" -> { [s EXCEPT !.th[t].pc = IF s.fl THEN "fw_out" ELSE "fw_app"] }
    [] pc = "fw_out" -> { [s EXCEPT !.out = Append(@, th.a[th.k]), !.rd = @ - 1, !.th[t].k = @ + 1,
                                    !.th[t].pc = IF th.k + 1 > Len(th.a) THEN "f_clr" ELSE "fw_rl"] }
    [] pc = "fw_app" -> { [s EXCEPT !.buf = Append(@, th.a[th.k]), !.th[t].pc = "fw_ret"] }
    [] pc = "fw_ret" -> { [s EXCEPT !.rd = @ - 1, !.th[t].k = @ + 1,
                                    !.th[t].pc = IF th.k + 1 > Len(th.a) THEN "f_clr" ELSE "fw_rl"] }
    [] pc = "f_clr" -> { [s EXCEPT !.buf = <<>>, !.wr = IF s.fx THEN 0 ELSE @, !.th[t].a = <<>>, !.th[t].k = 0, !.th[t].pc = "ret"] }
    [] pc = "r_lk"  -> IF s.rl = 0 THEN { [s EXCEPT !.rl = t, !.th[t].pc = "r_st"] } ELSE {}
    [] pc = "r_st"  -> { [s EXCEPT !.logs[s.idx + 1] = o.v, !.th[t].pc = "r_ix"] }
    [] pc = "r_ix"  -> { [s EXCEPT !.idx = (s.idx + 1) % s.n, !.th[t].pc = "r_nt"] }
    [] pc = "r_nt"  -> { [s EXCEPT !.mon = IF s.reg THEN Append(@, o.v) ELSE @, !.th[t].pc = "r_rt"] }
    [] pc = "r_rt"  -> { [s EXCEPT !.rl = 0, !.th[t].pc = "ret"] }
    [] pc = "g_lk"  -> IF s.rl = 0 THEN { [s EXCEPT !.rl = t, !.th[t].pc = "g_chk"] } ELSE {}
    [] pc = "g_chk" -> IF s.reg THEN { [s EXCEPT !.rl = 0, !.th[t].pc = "ret"] }
                       ELSE { [s EXCEPT !.reg = TRUE, !.th[t].pc = "g_old"] }
    [] pc = "g_old" -> IF s.logs[s.idx + 1] # 0 THEN { [s EXCEPT !.th[t].k = s.idx, !.th[t].pc = "g_r1"] }
                       ELSE { [s EXCEPT !.th[t].k = 0, !.th[t].pc = "g_r2"] }
    [] pc = "g_r1"  -> { [s EXCEPT !.mon = Append(@, s.logs[th.k + 1]),
                                   !.th[t].k = IF th.k + 1 < s.n THEN th.k + 1 ELSE 0,
                                   !.th[t].pc = IF th.k + 1 < s.n THEN "g_r1" ELSE "g_r2"] }
    [] pc = "g_r2"  -> IF th.k < s.idx
                       THEN { IF th.k + 1 < s.idx
                              THEN [s EXCEPT !.mon = Append(@, s.logs[th.k + 1]), !.th[t].k = th.k + 1]
                              ELSE [s EXCEPT !.mon = Append(@, s.logs[th.k + 1]), !.th[t].k = 0, !.rl = 0, !.th[t].pc = "ret"] }
                       ELSE { [s EXCEPT !.th[t].k = 0, !.rl = 0, !.th[t].pc = "ret"] }
    [] OTHER -> {}

CanFin(s, t) == s.th[t].pc = "ret"
Fin(s, t) == [s EXCEPT !.th[t] = [pc |-> "idle", i |-> s.th[t].i + 1, a |-> <<>>, k |-> 0]]
AllDone(s) == \A t \in DOMAIN s.prog : s.th[t].pc = "idle" /\ ~HasOp(s, t)

------------------------------------------------------------------------------
(* Property C29 as a monitor over logged inputs (program, which thread ran, call   *)
(* invocations and returns) and observed outputs (lines received by the underlying *)
(* writer `out`, lines received by the monitor handler `mon`).                     *)
(* Readings:                                                                       *)
(*  - "exactly once": no line twice in out, nothing that was not written, and at   *)
(*    the end (all calls returned, Flush included) every written line is in out.   *)
(*  - "lines written before the gate opened precede later ones": a line whose      *)
(*    Write returned before Flush was invoked precedes every line whose Write was  *)
(*    invoked after Flush was invoked.  (Writes overlapping the invocation of      *)
(*    Flush are unordered.)                                                        *)
(*  - monitor: with the logWriter writes totally ordered consistently with their   *)
(*    call intervals, the monitor received the last <= N lines written before its  *)
(*    attachment point, oldest first, then every later line exactly once.          *)
MonInit(prog) ==
  [ bad |-> {}, tags |-> {}, oi |-> [t \in DOMAIN prog |-> 0],
    ginv |-> {}, gret |-> {}, cur |-> {}, ovl |-> FALSE, fst |-> 0, pre |-> {}, dur |-> {}, aft |-> {},
    rinv |-> {}, rret |-> {}, rb |-> {}, gst |-> 0, regPre |-> {}, regPost |-> {},
    out |-> <<>>, mon |-> <<>>, ended |-> FALSE ]

NoOp == [op |-> "none", v |-> 0]

MonInv(m, o) ==
  CASE o.op = "gw" -> [m EXCEPT !.ginv = @ \cup {o.v}, !.cur = @ \cup {o.v}, !.ovl = @ \/ (m.cur # {}),
                                !.dur = IF m.fst = 1 THEN @ \cup {o.v} ELSE @,
                                !.aft = IF m.fst = 2 THEN @ \cup {o.v} ELSE @]
    [] o.op = "fl" -> IF m.fst = 0 THEN [m EXCEPT !.fst = 1, !.pre = m.gret] ELSE m
    [] o.op = "rw" -> [m EXCEPT !.rinv = @ \cup {o.v}, !.rb = @ \cup { <<a, o.v>> : a \in m.rret },
                                !.regPost = IF m.gst = 2 THEN @ \cup {o.v} ELSE @]
    [] o.op = "reg" -> IF m.gst = 0 THEN [m EXCEPT !.gst = 1, !.regPre = m.rret] ELSE m
    [] OTHER -> m

MonFin(m, o, t) ==
  LET m1 == [m EXCEPT !.oi[t] = @ + 1] IN
  CASE o.op = "gw" -> [m1 EXCEPT !.gret = @ \cup {o.v}, !.cur = @ \ {o.v}]
    [] o.op = "fl" -> [m1 EXCEPT !.fst = 2]
    [] o.op = "rw" -> [m1 EXCEPT !.rret = @ \cup {o.v}]
    [] o.op = "reg" -> [m1 EXCEPT !.gst = IF @ = 1 THEN 2 ELSE @]
    [] OTHER -> m1

IsPrefix(a, b) == Len(a) <= Len(b) /\ SubSeq(b, 1, Len(a)) = a
Before(seq, p) == { seq[q] : q \in 1..(p - 1) }

MonObs(m, out, mon) ==
  LET newO == IF IsPrefix(m.out, out) THEN (Len(m.out) + 1)..Len(out) ELSE {}
      newM == IF IsPrefix(m.mon, mon) THEN (Len(m.mon) + 1)..Len(mon) ELSE {}
      \* a pre-gate line arrives after a later line (a line that never arrives is the exactly-once clause's business)
      ordDur == \E p \in newO : out[p] \in m.pre /\ Before(out, p) \cap m.dur # {}
      ordAft == \E p \in newO : out[p] \in m.pre /\ Before(out, p) \cap m.aft # {}
      b == (IF ~IsPrefix(m.out, out) \/ ~IsPrefix(m.mon, mon) THEN {"C29_output_rewritten"} ELSE {})
           \cup (IF \E p \in newO : out[p] \in Before(out, p) THEN {"C29_out_duplicate"} ELSE {})
           \cup (IF \E p \in newO : out[p] \notin m.ginv THEN {"C29_out_unwritten"} ELSE {})
           \cup (IF ordDur THEN {"C29_pregate_order"} ELSE {})
           \cup (IF ordAft THEN {"C29_pregate_order_after_flush"} ELSE {})
           \cup (IF \E p \in newM : mon[p] \in Before(mon, p) THEN {"C29_mon_duplicate"} ELSE {})
           \cup (IF \E p \in newM : mon[p] \notin m.rinv THEN {"C29_mon_unwritten"} ELSE {})
  IN [m EXCEPT !.bad = @ \cup b, !.tags = @ \cup (IF ordDur THEN {"write_during_flush"} ELSE {}),
               !.out = out, !.mon = mon]

RECURSIVE PermSeqs(_)
PermSeqs(X) == IF X = {} THEN { <<>> } ELSE UNION { { <<x>> \o p : p \in PermSeqs(X \ {x}) } : x \in X }
Pos(seq, x) == CHOOSE i \in 1..Len(seq) : seq[i] = x

LinOK(m, n) ==
  \E p \in PermSeqs(m.rinv) : \E k \in 0..Len(p) :
     /\ \A pr \in m.rb : Pos(p, pr[1]) < Pos(p, pr[2])
     /\ \A a \in m.regPre : Pos(p, a) <= k
     /\ \A b \in m.regPost : Pos(p, b) > k
     /\ m.mon = SubSeq(p, IF k > n THEN k - n + 1 ELSE 1, k) \o SubSeq(p, k + 1, Len(p))

HasFlush(prog) == \E t \in DOMAIN prog : \E j \in DOMAIN prog[t] : prog[t][j].op = "fl"
LinesOf(prog, kind) == UNION { { prog[t][j].v : j \in { jj \in DOMAIN prog[t] : prog[t][jj].op = kind } } : t \in DOMAIN prog }

MonEnd(m, prog, n, dead) ==
  LET missing == HasFlush(prog) /\ ~(LinesOf(prog, "gw") \subseteq { m.out[q] : q \in 1..Len(m.out) })
      monBad == m.gst = 2 /\ m.rret = m.rinv /\ ~LinOK(m, n)
  IN [m EXCEPT !.ended = TRUE,
               !.bad = @ \cup (IF missing THEN {"C29_out_missing"} ELSE {})
                         \cup (IF monBad THEN {"C29_mon_replay_then_live"} ELSE {})
                         \cup (IF dead THEN {"C29_deadlock"} ELSE {}),
               !.tags = @ \cup (IF missing /\ m.ovl THEN {"overlapping_writes"} ELSE {})]

\* e = [t, inv, fin, out, mon, end, dead, panic]
MonStep(m, prog, n, e) ==
  LET o  == IF (e.inv \/ e.fin) /\ e.t \in DOMAIN prog /\ m.oi[e.t] < Len(prog[e.t])
              THEN prog[e.t][m.oi[e.t] + 1] ELSE NoOp
      m1 == IF e.inv THEN MonInv(m, o) ELSE m
      m2 == MonObs(m1, e.out, e.mon)
      m3 == IF e.fin THEN MonFin(m2, o, e.t) ELSE m2
      m4 == IF e.end THEN MonEnd(m3, prog, n, e.dead) ELSE m3
  IN IF e.panic # "" THEN [m4 EXCEPT !.bad = @ \cup {"C29_panic"}] ELSE m4

Ev(t, inv, fin, s, end) == [t |-> t, inv |-> inv, fin |-> fin, out |-> s.out, mon |-> s.mon,
                            end |-> end, dead |-> FALSE, panic |-> ""]

------------------------------------------------------------------------------
Init == /\ \E p \in Progs : S = InitSx(p.prog, p.n, p.fx) /\ M = MonInit(p.prog)
        /\ last = [a |-> "init"]

StartAct(t) ==
  /\ CanStart(S, t)
  /\ S' = Start(S, t)
  /\ M' = MonStep(M, S.prog, S.n, Ev(t, TRUE, FALSE, S', FALSE))
  /\ last' = [a |-> "start", t |-> t]

StepAct(t) ==
  \E s2 \in Acts(S, t) :
     /\ S' = s2
     /\ M' = MonStep(M, S.prog, S.n, Ev(t, FALSE, FALSE, s2, FALSE))
     /\ last' = [a |-> "step", t |-> t]

FinAct(t) ==
  /\ CanFin(S, t)
  /\ S' = Fin(S, t)
  /\ M' = MonStep(M, S.prog, S.n, Ev(t, FALSE, TRUE, S', FALSE))
  /\ last' = [a |-> "fin", t |-> t]

EndAct ==
  /\ AllDone(S) /\ ~M.ended
  /\ S' = S
  /\ M' = MonStep(M, S.prog, S.n, Ev(0, FALSE, FALSE, S, TRUE))
  /\ last' = [a |-> "end"]

Next == (\E t \in DOMAIN S.prog : StartAct(t) \/ StepAct(t) \/ FinAct(t)) \/ EndAct
Spec == Init /\ [][Next]_vars

\* the model never deadlocks before every call returned
NoDeadlock == AllDone(S) \/ \E t \in DOMAIN S.prog : CanStart(S, t) \/ Acts(S, t) # {} \/ CanFin(S, t)

\* C29 with the two recorded findings carved out by their tags
Known(m) == \A c \in m.bad : \/ (c = "C29_pregate_order" /\ "write_during_flush" \in m.tags)
                              \/ (c = "C29_out_missing" /\ "overlapping_writes" \in m.tags)
C29 == Known(M)
C29Strict == M.bad = {}
NoOrderFinding == "C29_pregate_order" \notin M.bad
NoLostFinding == "C29_out_missing" \notin M.bad
=============================================================================
