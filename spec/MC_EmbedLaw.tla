---------------------------- MODULE MC_EmbedLaw ----------------------------
(* Binds EmbedLaw (unbounded, Apalache) to SerfEventOps (used by the events   *)
(* family's models and trace specifications): the operators transcribed into  *)
(* EmbedLaw agree with SerfEventOps' on every time and buffer size of the     *)
(* checked configurations (TLC evaluates the invariants; E itself needs 2^64 and   *)
(* is only evaluated by Apalache).                                            *)
EXTENDS SerfEventOps
VARIABLE x
EL(mx) == INSTANCE EmbedLaw WITH MAX <- mx, b <- 0, t <- 0, u <- 0
AgreeAll == \A mx \in 3..40 : \A k \in 1..8 : \A y \in 0..mx :
          LET HH == mx \div 2
              PosHere == IF y <= HH THEN y ELSE y + GAP
              SlotHere == IF y <= HH THEN y % k ELSE (T64(k) + y + (k - 1) * (mx + 1)) % k
          IN /\ EL(mx)!SlotIx(k, y) = SlotHere
             /\ EL(mx)!Pos(y) = PosHere
             /\ EL(mx)!T64(k) = T64(k)
\* and with this configuration's own MAX the very operators of SerfEventOps
AgreeHere == \A k \in 1..8 : \A y \in 0..MAX :
                /\ EL(MAX)!SlotIx(k, y) = SlotIx(k, y) /\ EL(MAX)!Pos(y) = Pos(y)
                /\ EL(MAX)!Wrap(y + 1) = Wrap(y + 1)
                /\ \A z \in 0..MAX : EL(MAX)!TooOld(k, y, z) = TooOld(k, y, z)
Init == x = 0
Next == UNCHANGED x
=============================================================================
