---------------------------- MODULE MC_Lamport ----------------------------
EXTENDS Lamport
CONSTANTS OpLen, Vals      \* ops per thread, witness values
Ops == {[op |-> "time", v |-> 0], [op |-> "inc", v |-> 0]} \cup { [op |-> "wit", v |-> x] : x \in Vals }
RECURSIVE SeqsUpTo(_, _)
SeqsUpTo(A, n) == IF n = 0 THEN {<<>>} ELSE SeqsUpTo(A, n - 1) \cup { Append(s, a) : s \in SeqsUpTo(A, n - 1), a \in A }
ThreadProgs == { s \in SeqsUpTo(Ops, OpLen) : Len(s) = OpLen }
MCProgs == [1..NT -> ThreadProgs]
\* programs as tuples so that JSON round-trips them as arrays
=============================================================================
