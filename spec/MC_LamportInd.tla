--------------------------- MODULE MC_LamportInd ---------------------------
(* Ties LamportInd (the unbounded, Apalache-typed transcription) to          *)
(* spec/Lamport.tla (the specification the real LamportClock is trace-       *)
(* validated against): TLC checks, on every reachable step at small          *)
(* constants, that the step is one of Lamport!Acts for the acting thread     *)
(* (followed by Lamport!Fin when the call returns in the same step), i.e.    *)
(* the two modules describe the same atomic accesses.                        *)
EXTENDS LamportInd, Sequences, TLC

MCVals == 0..MAX
L == INSTANCE Lamport WITH NT <- 2, Progs <- {}, S <- 0, M <- 0, last <- 0

MapPc(p) == p
\* Lamport record for the current state, thread t being inside (or about to start) call o
Sof(t, o) == [c |-> c,
              th |-> [u \in Threads |-> [pc |-> pc[u], cur |-> IF pc[u] = "idle" THEN 0 ELSE cur[u], i |-> 0, ret |-> -1]],
              prog |-> [u \in Threads |-> IF u = t THEN <<o>> ELSE << [op |-> "wit", v |-> v[u]] >>]]

OpsOf(t) == IF pc[t] = "idle"
              THEN {[op |-> "time", v |-> 0], [op |-> "inc", v |-> 0]} \cup {[op |-> "wit", v |-> x] : x \in MCVals}
              ELSE {[op |-> "wit", v |-> v[t]]}

Matches(t, o, s2) ==
  /\ s2.c = c'
  /\ \A u \in Threads \ {t} : pc'[u] = pc[u] /\ cur'[u] = cur[u] /\ v'[u] = v[u]
  /\ IF s2.th[t].pc = "ret"
       THEN pc'[t] = "idle"                       \* LamportInd returns in the same step
       ELSE /\ pc'[t] = s2.th[t].pc
            /\ cur'[t] = s2.th[t].cur
            /\ v'[t] = o.v

Refines == \E t \in Threads : \E o \in OpsOf(t) : \E s2 \in L!Acts(Sof(t, o), t) : Matches(t, o, s2)
RefinesLamport == [][Refines]_<<c, pc, cur, v>>
=============================================================================
