--------------------------- MODULE MC_Lifecycle ---------------------------
(* Exhaustive configurations of Lifecycle: every interleaving of the listed programs. *)
EXTENDS Lifecycle
J == [op |-> "join"]
Lv == [op |-> "leave"]
Sd == [op |-> "shutdown"]
St == [op |-> "state"]
P1 == << <<Lv, Lv>>, <<Sd, Sd>>, <<J, St>> >>
P2 == << <<Lv>>, <<Lv>>, <<Sd>>, <<J>> >>
P3 == << <<Lv, J>>, <<Sd, Lv>>, <<St, St>> >>
P4 == << <<J, Lv, Sd>>, <<St, J>> >>
P5 == << <<J>>, <<Lv>>, <<Lv>>, <<Sd>>, <<Sd>> >>
P6 == << <<Lv, Lv, Sd, Sd, J>>, <<St, St, St>> >>
MCAll == {P1, P2, P3, P4, P5, P6}
MCQuick == {P1, P3, P4, P6}
=============================================================================
