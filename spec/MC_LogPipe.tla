---------------------------- MODULE MC_LogPipe ----------------------------
(* Exhaustive configurations of LogPipe: every interleaving of the listed programs. *)
EXTENDS LogPipe
Gw(v) == [op |-> "gw", v |-> v]
Rw(v) == [op |-> "rw", v |-> v]
Fl == [op |-> "fl", v |-> 0]
Reg == [op |-> "reg", v |-> 0]
\* gate: one writer (no overlapping writes possible), two writers x two lines, three writers x one line
Gate1 == [prog |-> << <<Gw(1), Gw(2), Gw(3)>>, <<Fl>> >>, n |-> 1, fx |-> FALSE]
Gate22 == [prog |-> << <<Gw(1), Gw(2)>>, <<Gw(3), Gw(4)>>, <<Fl>> >>, n |-> 1, fx |-> FALSE]
Gate111 == [prog |-> << <<Gw(1)>>, <<Gw(2)>>, <<Gw(3)>>, <<Fl>> >>, n |-> 1, fx |-> FALSE]
\* ring sizes 1..3: two writers x two lines, monitor attached at any point
Ring22(n) == [prog |-> << <<Rw(1), Rw(2)>>, <<Rw(3), Rw(4)>>, <<Reg>> >>, n |-> n, fx |-> FALSE]
Ring13(n) == [prog |-> << <<Rw(1), Rw(2), Rw(3), Rw(4)>>, <<Reg>> >>, n |-> n, fx |-> FALSE]
Ring111(n) == [prog |-> << <<Rw(1)>>, <<Rw(2)>>, <<Rw(3)>>, <<Reg>> >>, n |-> n, fx |-> FALSE]
MCGate == {Gate1, Gate22, Gate111}
MCGateSeq == {Gate1}
MCRing == { Ring22(n) : n \in 1..3 } \cup { Ring13(n) : n \in 1..3 } \cup { Ring111(n) : n \in 1..2 }
MCAll == MCGate \cup MCRing
\* quick tier: the same shapes with fewer lines
Gate12 == [prog |-> << <<Gw(1), Gw(2)>>, <<Fl>> >>, n |-> 1, fx |-> FALSE]
Gate21 == [prog |-> << <<Gw(1), Gw(2)>>, <<Gw(3)>>, <<Fl>> >>, n |-> 1, fx |-> FALSE]
Ring21(n) == [prog |-> << <<Rw(1), Rw(2)>>, <<Rw(3)>>, <<Reg>> >>, n |-> n, fx |-> FALSE]
MCQuick == {Gate12, Gate21} \cup { Ring21(n) : n \in 1..3 } \cup { Ring13(n) : n \in 2..3 }
MCGateOverlap == {Gate21}
\* the same gate programs on the fixed-code variant: C29 must hold with no waiver (INVARIANT C29Strict)
Fixed(p) == [p EXCEPT !.fx = TRUE]
MCFixed == { Fixed(p) : p \in MCGate }
MCFixedQuick == { Fixed(p) : p \in {Gate12, Gate21, Gate1} }
=============================================================================
