--------------------------- MODULE MC_MajorityLaw ---------------------------
(* Binds MajorityLaw (unbounded, Apalache) to ConflictVote (the module the    *)
(* real resolveNodeConflict is validated against): the two Majority formulas  *)
(* and verdicts agree on 0..64, checked by TLC when it evaluates the ASSUME.  *)
EXTENDS ConflictVote
ML == INSTANCE MajorityLaw WITH n <- 0, m <- 0
Verdict(nn, mm) == mm < Majority(nn)     \* ConflictVote!ShouldShutdown on counts
ASSUME \A k \in 0..64 : ML!Majority(k) = Majority(k)
ASSUME \A k \in 0..64 : \A j \in 0..k : Verdict(k, j) <=> (2 * j <= k)
=============================================================================
