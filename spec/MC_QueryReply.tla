---------------------------- MODULE MC_QueryReply ----------------------------
(* Exhaustive model for C07: every interleaving, at lock-scope granularity, of   *)
(*   threads 1..NQ       : one Query() call each (concurrent calls of one node)  *)
(*   threads NQ+1..2NQ   : deadline and timer body of query 1..NQ                *)
(*   thread 2NQ+1        : the packet handler, delivering up to MaxReplies       *)
(*                         replies one after another, each chosen freely (any    *)
(*                         time, id, node, ack or response: duplicates, replies  *)
(*                         to other queries, late replies)                       *)
(*   thread 2NQ+2        : the application draining the channels up to MaxRecv   *)
(*                         times                                                 *)
EXTENDS QueryReply
CONSTANTS MaxReplies, MaxRecv, ReplyLTs, ReplyIds, ReplyAcks
VARIABLES S, M
vars == <<S, M>>
NT == 2 * NQ + 2

NextOps(s, t) ==
  LET n == s.th[t].n IN
  IF t <= NQ THEN (IF n = 0 THEN { QueryOp(t) } ELSE {})
  ELSE IF t <= 2 * NQ THEN (IF n = 0 THEN { DlOp(t - NQ) } ELSE IF n = 1 THEN { TimerOp(t - NQ) } ELSE {})
  ELSE IF t = 2 * NQ + 1
    THEN (IF n < MaxReplies
            THEN { ReplyOp(lt, idr, from, ack, n + 1) : lt \in ReplyLTs, idr \in ReplyIds, from \in Nodes, ack \in ReplyAcks }
            ELSE {})
  ELSE (IF n < MaxRecv THEN { RecvOp(k) : k \in Queries } ELSE {})

Init == S = InitS(NT) /\ M = MonInit
Next == \E t \in 1..NT : \E s2 \in Acts(S, t, NextOps(S, t)) : S' = s2 /\ M' = MonStep(M, ModelObs(s2))
Spec == Init /\ [][Next]_vars

View == <<[S EXCEPT !.out = NoOut], M>>
Props == M.bad = {}
\* reachability of the situations the report talks about (configs that EXPECT a violation)
NoSameLT == "same_ltime_queries" \notin M.tags
NoDiscard == "addressed_reply_discarded" \notin M.tags
=============================================================================
