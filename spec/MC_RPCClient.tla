--------------------------- MODULE MC_RPCClient ---------------------------
(* Exhaustive configurations of RPCClient: every interleaving of the listener with the user threads. *)
EXTENDS RPCClient
R(h, ty) == [h |-> h, ty |-> ty]
Stop(h) == [op |-> "stop", h |-> h, ty |-> ""]
Close == [op |-> "close", h |-> 0, ty |-> ""]
Feed(h, ty) == [op |-> "feed", h |-> h, ty |-> ty]
ScA == [subs |-> <<"stream">>, pre |-> <<R(1, "rec"), R(1, "rec")>>, prog |-> << <<Stop(1)>>, <<Close>> >>, fx |-> FALSE]
ScB == [subs |-> <<"monitor">>, pre |-> <<R(1, "rec")>>, prog |-> << <<Stop(1), Feed(1, "rec")>>, <<Stop(1)>> >>, fx |-> FALSE]
ScC == [subs |-> <<"query">>, pre |-> <<R(1, "ack"), R(1, "resp"), R(1, "done")>>, prog |-> << <<Close>> >>, fx |-> FALSE]
ScD == [subs |-> <<"query">>, pre |-> <<R(1, "ack")>>, prog |-> << <<Feed(1, "resp"), Feed(1, "done")>>, <<Close>> >>, fx |-> FALSE]
ScE == [subs |-> <<"stream", "query">>, pre |-> <<R(1, "rec"), R(2, "resp"), R(2, "done")>>, prog |-> << <<Stop(1)>>, <<Close>> >>, fx |-> FALSE]
ScF == [subs |-> <<"stream">>, pre |-> <<>>, prog |-> << <<Stop(1)>>, <<Feed(1, "rec"), Close>> >>, fx |-> FALSE]
ScG == [subs |-> <<"stream", "monitor">>, pre |-> <<R(1, "rec"), R(2, "rec")>>, prog |-> << <<Stop(1), Stop(2)>>, <<Close, Close>> >>, fx |-> FALSE]
\* no record is ever in flight when a channel is closed: the property must hold without any waiver
ScN1 == [subs |-> <<"stream">>, pre |-> <<>>, prog |-> << <<Stop(1), Feed(1, "rec")>>, <<Stop(1), Close>> >>, fx |-> FALSE]
ScN2 == [subs |-> <<"query">>, pre |-> <<>>, prog |-> << <<Feed(1, "done")>>, <<Close>> >>, fx |-> FALSE]
MCAll == {ScA, ScB, ScC, ScD, ScE, ScF, ScG, ScN1, ScN2}
MCQuick == {ScA, ScB, ScC, ScD, ScF, ScN1, ScN2}
MCFinding == {ScA}
MCNoFlight == {ScN1, ScN2}
\* the same scenarios on the fixed-code variant: C28 must hold with no waiver (INVARIANT C28Strict)
MCFixed == { [sc EXCEPT !.fx = TRUE] : sc \in MCAll }
MCFixedQuick == { [sc EXCEPT !.fx = TRUE] : sc \in {ScA, ScC, ScD, ScF} }
=============================================================================
