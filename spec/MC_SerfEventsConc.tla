------------------------- MODULE MC_SerfEventsConc -------------------------
(* Program sets for the exhaustive check of SerfEventsConc: NL threads of local  *)
(* calls (UserEvent / Query, LocLen each) and, if InLen > 0, one thread of        *)
(* incoming user events / queries with times from Vals.                           *)
EXTENDS SerfEventsConc
CONSTANTS BsC, NL, LocLen, InLen, Vals, LocalOps
RECURSIVE SeqsOf(_, _)
SeqsOf(A, n) == IF n = 0 THEN {<<>>} ELSE { Append(s, a) : s \in SeqsOf(A, n - 1), a \in A }
Loc == { [op |-> o, lt |-> 0, x |-> 0] : o \in LocalOps }
Inc == { [op |-> o, lt |-> v, x |-> 1] : o \in {"ev", "qry"}, v \in Vals }
ThreadSets == [t \in 1..NT |-> IF t <= NL THEN SeqsOf(Loc, LocLen) ELSE SeqsOf(Inc, InLen)]
RECURSIVE Tuples(_)
Tuples(n) == IF n = 0 THEN {<<>>} ELSE { Append(p, s) : p \in Tuples(n - 1), s \in ThreadSets[n] }
MCProgs == { [b |-> b, th |-> p] : b \in BsC, p \in Tuples(NT) }
=============================================================================
