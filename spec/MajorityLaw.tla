---------------------------- MODULE MajorityLaw ----------------------------
(* Unbounded companion of ConflictVote.tla (C36).  ConflictVote defines the   *)
(* verdict with the formula the code uses (serf/serf.go resolveNodeConflict:  *)
(* majority := responses/2 + 1; survive iff matching >= majority) and checks  *)
(* its laws by ASSUME for 0..12 replies only.  Here n (valid replies) and m   *)
(* (matching ones) are arbitrary naturals: Apalache shows that the formula is *)
(* the strict majority for EVERY n -- the node is shut down exactly when the  *)
(* matching replies are not more than half of the valid ones.                 *)
EXTENDS Integers

VARIABLES
  \* @type: Int;
  n,
  \* @type: Int;
  m

Majority(k) == (k \div 2) + 1
ShouldShutdown == m < Majority(n)

Init == n \in Nat /\ m \in Nat /\ m <= n
Next == UNCHANGED <<n, m>>

Law == /\ 2 * Majority(n) > n                     \* a majority is more than half
       /\ 2 * (Majority(n) - 1) <= n              \* and the least such number
       /\ ShouldShutdown <=> 2 * m <= n           \* verdict = "not more than half match"
       /\ (n = 0 => ShouldShutdown)               \* nobody vouches for the node: it goes
       /\ (m = n /\ n > 0 => ~ShouldShutdown)     \* unanimous support: it stays

\* sanity: an off-by-one verdict (m <= Majority) is NOT the strict majority -- a counterexample is expected
WrongLaw == (m <= Majority(n)) <=> 2 * m <= n
=============================================================================
