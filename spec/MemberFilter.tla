---------------------------- MODULE MemberFilter ----------------------------
(* cmd/serf/command/agent/ipc.go handleMembers / filterMembers -- the           *)
(* members-filtered RPC (F-pattern: one input, one output).                     *)
(*                                                                             *)
(* ORACLE (the property, docs/commands/members.html.markdown: "The regexp is    *)
(* anchored at the start and end, and must be a full match"): a member is       *)
(* listed iff its name, its status and the value of each requested tag (a       *)
(* missing tag counts as the empty string) are matched AS A WHOLE by the        *)
(* corresponding pattern.  An empty name / status pattern is how the RPC says   *)
(* "no filter" (k = "none").  An invalid pattern yields an error and no list.   *)
(*                                                                             *)
(* CODE (as it is since a8ceccf): "^(?:" + expr + ")$" -- the oracle.  Until     *)
(* then "^" + expr + "$" WITHOUT grouping: a top-level alternation r1|...|rn was *)
(* (^r1)|r2|...|(rn$) (CodeMatch keeps that meaning for the record).            *)
(*                                                                             *)
(* Names and tag values are strings over Regex!Sigma, patterns come from        *)
(* Regex!RE(d).  Statuses are the words alive/leaving/left/failed; status       *)
(* patterns use one more AST node <<"word", w>> and are matched by MatchW, a    *)
(* splitting matcher that works over any alphabet (law: it agrees with          *)
(* Regex!FullMatch on the common domain, see Laws).                             *)
EXTENDS Regex, TLC

CONSTANTS Pop,           \* the member population: sequence of [n, st, ht, t]
          MaxSteps

VARIABLES req, out, bad, tags, last, steps
vars == <<req, out, bad, tags, last, steps>>

W(s) == s   \* words are written as tuples of letters
StatusWord(st) == CASE st = 1 -> <<"a","l","i","v","e">>
                    [] st = 2 -> <<"l","e","a","v","i","n","g">>
                    [] st = 3 -> <<"l","e","f","t">>
                    [] st = 4 -> <<"f","a","i","l","e","d">>

\* whole-string matcher by splitting (any alphabet; "any" = any one letter)
RECURSIVE MatchW(_, _)
MatchW(r, s) ==
  CASE r[1] = "lit"  -> s = <<r[2]>>
    [] r[1] = "word" -> s = r[2]
    [] r[1] = "any"  -> Len(s) = 1
    [] r[1] = "cat"  -> \E i \in 0..Len(s) : MatchW(r[2], SubSeq(s, 1, i)) /\ MatchW(r[3], SubSeq(s, i + 1, Len(s)))
    [] r[1] = "alt"  -> MatchW(r[2], s) \/ MatchW(r[3], s)
    [] r[1] = "opt"  -> s = <<>> \/ MatchW(r[2], s)
    [] r[1] = "star" -> s = <<>> \/ \E i \in 1..Len(s) : MatchW(r[2], SubSeq(s, 1, i)) /\ MatchW(r, SubSeq(s, i + 1, Len(s)))

\* branches of a top-level alternation, left to right (a|b|c however it is bracketed)
RECURSIVE Alts(_)
Alts(r) == IF r[1] = "alt" THEN Alts(r[2]) \o Alts(r[3]) ELSE <<r>>

\* what "^" + render(r) + "$" matches (F = whole-string matcher)
CodeMatch(F(_, _), r, s) ==
  LET bs == Alts(r)  n == Len(bs) IN
  IF n = 1 THEN F(r, s)
  ELSE \E k \in 1..n : \E i \in 1..(Len(s) + 1) : \E j \in (i - 1)..Len(s) :
         /\ (k = 1 => i = 1) /\ (k = n => j = Len(s))
         /\ F(bs[k], SubSeq(s, i, j))

------------------------------------------------------------------------------
(* Requests: three optional patterns.  p = [k, re, i]: k = "none" | "re" |      *)
(* "bad" (i = index into the harness' list of invalid patterns).                *)
None    == [k |-> "none", re |-> <<"any">>, i |-> 0]
Pat(r)  == [k |-> "re", re |-> r, i |-> 0]
Bad(i)  == [k |-> "bad", re |-> <<"any">>, i |-> i]
NBad    == 8

Wd(w) == <<"word", w>>
StatusPats ==
  { Wd(StatusWord(st)) : st \in 1..4 } \cup
  { <<"alt", Wd(StatusWord(1)), Wd(StatusWord(3))>>,                       \* alive|left
    <<"alt", Wd(StatusWord(4)), Wd(<<"l","e","a">>)>>,                     \* failed|lea
    <<"alt", Wd(<<"a">>), Wd(<<"d">>)>>,                                   \* a|d
    <<"alt", Wd(<<"l","e">>), <<"alt", Wd(<<"i">>), Wd(<<"x">>)>>>>,       \* le|i|x
    <<"cat", Wd(<<"l">>), <<"star", <<"any">>>>>>,                         \* l.*
    <<"cat", <<"star", <<"any">>>>, Wd(<<"e","d">>)>>,                     \* .*ed
    <<"cat", Wd(<<"l","e">>), <<"cat", <<"opt", Wd(<<"a","v","i","n","g">>)>>, <<"opt", Wd(<<"f","t">>)>>>>>>,
    <<"star", <<"any">>>>,
    Wd(<<"a","l","i","v">>) }

Val(m) == IF m.ht THEN m.t ELSE <<>>

Invalid(q) == q.name.k = "bad" \/ q.status.k = "bad" \/ q.tag.k = "bad"
TopAlt(q)  == \/ q.name.k = "re" /\ Len(Alts(q.name.re)) > 1
              \/ q.status.k = "re" /\ Len(Alts(q.status.re)) > 1
              \/ q.tag.k = "re" /\ Len(Alts(q.tag.re)) > 1

MaxLen == 3   \* names and tag values have at most MaxLen letters

\* Languages are computed once per request (TLC caches LET definitions), members are then looked up.
Statuses(r) == { st \in 1..4 : MatchW(r, StatusWord(st)) }
CodeStatuses(r) == Statuses(r)
\* Since a8ceccf the server compiles "^(?:" + expr + ")$": whole-string matching, like the oracle.
\* (Before, "^" + expr + "$" anchored a top-level alternation only at its outer ends -- CodeMatch above
\* describes that -- and made the invalid patterns "*a" and "\" valid: findings C26-top-level-alternation and
\* C26-anchored-valid, now fixed.)
CodeLang(r) == Lang(r, MaxLen)

\* the documented meaning
Expected(pop, q) ==
  LET ns == IF q.name.k = "re" THEN Lang(q.name.re, MaxLen) ELSE {}
      ts == IF q.tag.k = "re" THEN Lang(q.tag.re, MaxLen) ELSE {}
      ss == IF q.status.k = "re" THEN Statuses(q.status.re) ELSE {}
  IN  { x \in DOMAIN pop : /\ q.name.k = "re"   => pop[x].n \in ns
                           /\ q.status.k = "re" => pop[x].st \in ss
                           /\ q.tag.k = "re"    => Val(pop[x]) \in ts }

AnchoredValid == {3, 7}     \* "*a" and "\": were valid between bare ^ and $ (historic, see above)
CodeEff(p) == p
CodeReq(q0) == [name |-> CodeEff(q0.name), status |-> CodeEff(q0.status), tag |-> CodeEff(q0.tag)]

\* what the code computes
CodeMembers(pop, q0) ==
  LET q  == CodeReq(q0)
      ns == IF q.name.k = "re" THEN CodeLang(q.name.re) ELSE {}
      ts == IF q.tag.k = "re" THEN CodeLang(q.tag.re) ELSE {}
      ss == IF q.status.k = "re" THEN CodeStatuses(q.status.re) ELSE {}
  IN  { x \in DOMAIN pop : /\ q.name.k = "re"   => pop[x].n \in ns
                           /\ q.status.k = "re" => pop[x].st \in ss
                           /\ q.tag.k = "re"    => Val(pop[x]) \in ts }
\* invalid pattern: filterMembers returns an error, handleMembers returns it: no reply, connection dropped
CodeOut(pop, q) ==
  IF Invalid(CodeReq(q)) THEN [err |-> 0, closed |-> TRUE, list |-> FALSE, members |-> {}]
  ELSE [err |-> 0, closed |-> FALSE, list |-> TRUE, members |-> CodeMembers(pop, q)]

------------------------------------------------------------------------------
(* Property C26 as a monitor over (request, population, observed output).       *)
(* o = [err, closed, list, members]: err = an error header came back, closed =  *)
(* the server dropped the connection, list = a member list came back.           *)
(* Reading: "an invalid pattern yields an error" is satisfied by an error       *)
(* reply or by the server dropping the connection, as long as no list is sent.  *)
Clauses(pop, q, o) ==
  IF Invalid(q) THEN (IF o.list THEN {"C26_invalid_listed"} ELSE {})
  ELSE (IF o.list /\ o.err = 0 /\ o.members = Expected(pop, q) THEN {} ELSE {"C26_wrong_members"})
BadIdx(q) == { p.i : p \in { x \in {q.name, q.status, q.tag} : x.k = "bad" } }
Tags(q) == (IF TopAlt(q) THEN {"top_level_alternation"} ELSE {})
           \cup (IF BadIdx(q) \cap AnchoredValid # {} THEN {"anchored_valid"} ELSE {})
\* the tags that go with one clause (MONITOR lines are printed per clause and must stay short)
TagsOf(q, c) == IF c = "C26_wrong_members" THEN Tags(q) \cap {"top_level_alternation"} ELSE Tags(q) \cap {"anchored_valid"}

------------------------------------------------------------------------------
\* an invalid pattern in ONE field while each other field is absent, valid and matching many members, or valid and
\* matching few: "any invalid pattern anywhere => error and no list" must not depend on the other fields
NameOpts   == { None, Pat(<<"star", <<"any">>>>), Pat(<<"lit", "a">>) }
StatusOpts == { None, Pat(<<"star", <<"any">>>>), Pat(Wd(StatusWord(3))) }
TagOpts    == { None, Pat(<<"star", <<"any">>>>), Pat(<<"lit", "b">>) }
BadCross ==
  { [name |-> Bad(i), status |-> b, tag |-> c] : i \in 1..NBad, b \in StatusOpts, c \in TagOpts } \cup
  { [name |-> a, status |-> Bad(i), tag |-> c] : i \in 1..NBad, a \in NameOpts, c \in TagOpts } \cup
  { [name |-> a, status |-> b, tag |-> Bad(i)] : i \in 1..NBad, a \in NameOpts, b \in StatusOpts } \cup
  { [name |-> Bad(i), status |-> Bad(j), tag |-> None] : i \in {1, 5}, j \in {2, 6} }

Reqs(d) ==
  LET P == { Pat(r) : r \in RE(d) } IN
  { [name |-> p, status |-> None, tag |-> None] : p \in P } \cup
  { [name |-> None, status |-> None, tag |-> p] : p \in P } \cup
  { [name |-> None, status |-> Pat(r), tag |-> None] : r \in StatusPats } \cup
  { [name |-> Bad(i), status |-> None, tag |-> None] : i \in 1..NBad } \cup
  { [name |-> None, status |-> Bad(i), tag |-> None] : i \in 1..NBad } \cup
  { [name |-> None, status |-> None, tag |-> Bad(i)] : i \in 1..NBad } \cup BadCross

Mixed ==
  LET P == { Pat(r) : r \in RE(1) } \cup {None}
      SP == { Pat(r) : r \in StatusPats } \cup {None}
  IN  { [name |-> a, status |-> b, tag |-> c] : a \in P, b \in SP, c \in P }

Ask(q) ==
  /\ req' = q
  /\ out' = CodeOut(Pop, q)
  /\ bad' = Clauses(Pop, q, out')
  /\ tags' = Tags(q)
  /\ last' = [a |-> "filter", name |-> q.name, status |-> q.status, tag |-> q.tag]
  /\ steps' = steps + 1

Init == req = [name |-> None, status |-> None, tag |-> None] /\ out = CodeOut(Pop, req) /\ bad = {} /\ tags = {}
        /\ last = [a |-> "init"] /\ steps = 0

------------------------------------------------------------------------------
\* the model (= the code as it is) satisfies C26
C26 == bad = {}

\* laws of the definitions
Laws(d, L) ==
  /\ \A r \in RE(d) : \A s \in StrsUpTo(L) : MatchW(r, s) <=> FullMatch(r, s)
  /\ \A r \in RE(d) : Lang(r, MaxLen) = { s \in StrsUpTo(MaxLen) : FullMatch(r, s) }
  /\ \A r \in RE(d) : \A s \in StrsUpTo(L) : Len(Alts(r)) = 1 => (CodeMatch(FullMatch, r, s) <=> FullMatch(r, s))
  /\ \A r \in RE(d) : \A s \in StrsUpTo(L) : FullMatch(r, s) => CodeMatch(FullMatch, r, s)
  /\ \A r \in RE(d) : \A s \in StrsUpTo(L) :
        CodeMatch(FullMatch, r, s) <=>
          LET bs == Alts(r) n == Len(bs) IN
          \E k \in 1..n : PartialMatch([bol |-> k = 1, eol |-> k = n, re |-> bs[k]], s)
  /\ \A r \in StatusPats : \A st \in 1..4 : MatchW(r, StatusWord(st)) => CodeMatch(MatchW, r, StatusWord(st))
=============================================================================
