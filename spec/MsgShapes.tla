----------------------------- MODULE MsgShapes -----------------------------
(* C09 -- no network input crashes a node (F-pattern).                          *)
(*                                                                              *)
(* The input domain is the union of structured SHAPE families, one per entry    *)
(* point of serf that consumes bytes received from the network.  An input is a  *)
(* record  [a, ep, kind, f, s, f2, s2, c1, c2, c3, fl, cfg]  (all fields always *)
(* present; "-" / 0 = not used by this family).  The harness concretizes it     *)
(* with a hand-written msgpack writer / the real encoder, feeds it to the real  *)
(* entry point of a real quiet node in a CHILD process, and observes            *)
(*    alive   the process (and the calling goroutine) survived,                 *)
(*    members Members() answered and still lists the node itself as alive,      *)
(*    served  a well-formed user event issued afterwards was delivered.         *)
(* The definition of the property is  Expected(i) = [alive, members, served =1] *)
(* for EVERY input; the monitor is that record compared with the observation.   *)
(*                                                                              *)
(*  ep = "msg"    Delegate.NotifyMsg, message `kind` encoded field by field;     *)
(*                up to two fields (f, f2 = 1-based index in Fields(kind))       *)
(*                deviate from a valid value by shape s / s2; c1 = type byte     *)
(*  ep = "query"  NotifyMsg(query): c1 = query name class (plain or internal     *)
(*                _serf_ names), c2 = payload class, c3 = filter class, fl = flags *)
(*  ep = "relay"  NotifyMsg(relay envelope): c1 = body class, c2 = destination   *)
(*  ep = "resp"   NotifyMsg(query response) while the node has an OPEN query      *)
(*                (kind = its context, see RespCtx): c1 = payload class, c2 =     *)
(*                From class ("dup": the same sender twice), c3 = id/time match,  *)
(*                fl = ack flag (also on queries that did not ask for acks)       *)
(*  ep = "merge"  Delegate.MergeRemoteState: push/pull message with deviating    *)
(*                fields; c1 = prefix class, c2 = Events class, fl = isJoin      *)
(*  ep = "ping"   pingDelegate.NotifyPingComplete: c1 = payload class, c2 = rtt  *)
(*  ep = "meta"   c1 = via (NotifyJoin/Update/Leave, NotifyMerge, NotifyAlive,   *)
(*                NotifyConflict), c2 = metadata class, c3 = name class,         *)
(*                fl = address class                                             *)
(*  ep = "trunc"  every proper prefix of the valid encoding `kind`, fed to the   *)
(*                entry point of that encoding (one evaluation per encoding;     *)
(*                the harness reports the number of prefixes)                    *)
(*  cfg = node configuration: 0 plain, 1 keyring (+ keyring file), 2             *)
(*        coordinates, 3 both                                                    *)
EXTENDS Integers, Sequences, FiniteSets, TLC

CONSTANT W     \* maximal number of deviating fields per message (1 or 2)

Bad == {"absent", "nil", "empty", "one", "wrong", "big", "lie"}

NF(kind) == CASE kind = "leave" -> 3 [] kind = "join" -> 2 [] kind = "user" -> 4
              [] kind = "query" -> 11 [] kind = "resp" -> 5 [] kind = "pushpull" -> 6

Devs(kind) ==
  {<<0, "valid", 0, "valid">>}
  \cup { <<f, s, 0, "valid">> : f \in 1..NF(kind), s \in Bad }
  \cup (IF W < 2 THEN {}
        ELSE { d \in (1..NF(kind)) \X Bad \X (1..NF(kind)) \X Bad : d[1] < d[3] })

Rec(ep, kind, d, c1, c2, c3, fl, cfg) ==
  [a |-> "in", ep |-> ep, kind |-> kind, f |-> d[1], s |-> d[2], f2 |-> d[3], s2 |-> d[4],
   c1 |-> c1, c2 |-> c2, c3 |-> c3, fl |-> fl, cfg |-> cfg]
NoDev == <<0, "valid", 0, "valid">>

MsgKinds   == {"leave", "join", "user", "query", "resp"}
TypeBytes  == {"ok", "pushpull", "conflictresp", "keyreq", "keyresp", "unknown10", "unknown255"}
Msg == UNION { { Rec("msg", k, d, "ok", "-", "-", "-", 0) : d \in Devs(k) } : k \in MsgKinds }
       \cup { Rec("msg", k, NoDev, t, "-", "-", "-", 0) : k \in {"join", "query"}, t \in TypeBytes \ {"ok"} }
       \cup { Rec("msg", "none", NoDev, t, "-", "-", "-", 0) : t \in TypeBytes }      \* the type byte alone

QNames   == {"plain", "ping", "conflict", "install-key", "use-key", "remove-key", "list-keys", "unknown"}
KeyMod   == {"install-key", "use-key", "remove-key"}
QPays    == {"empty", "typebyte", "garbage", "validkey", "shortkey", "ownname", "othername", "big"}
QFilts   == {"none", "emptyfilter", "typeonly", "unknowntype", "badnode", "badtag", "badregex",
             "nodematch", "nodemiss", "tagmatch", "tagmiss"}
PassFilt == {"none", "nodematch", "tagmatch"}
QFlags   == {"none", "ack", "ackrelay", "nobcast"}
Query == { Rec("query", "query", NoDev, n, p, ft, "ack", c) : n \in QNames, p \in QPays, ft \in QFilts, c \in {0, 3} }
         \cup { Rec("query", "query", NoDev, n, p, "none", g, c) : n \in QNames, p \in QPays, g \in QFlags, c \in 0..3 }

Relay == { Rec("relay", "relay", NoDev, b, d, "-", "-", 0) :
             b \in {"none", "onebyte", "resp", "garbage", "nested", "user"},
             d \in {"peer", "unknown", "zero", "badip", "self"} }
         \cup { Rec("relay", "relay", NoDev, h, "-", "-", "-", 0) : h \in {"nohdr", "hdrnil", "hdrwrong", "hdrlie", "addrwrong"} }

\* kind = the OPEN query of the node the reply is addressed to: issued with / without RequestAck, closed, the key
\* manager's list-keys in flight, name conflict resolution in flight (replies with no open query: family "msg")
RespCtx == {"ack", "noack", "closed", "key", "conflict"}
Resp == { Rec("resp", cx, NoDev, p, fr, m, g, 0) :
            cx \in RespCtx, p \in {"absent", "empty", "nil", "one", "big", "conflictresp", "keyresp"},
            fr \in {"peer", "empty", "self", "dup"}, m \in {"match", "wrongid", "wrongltime"}, g \in {"none", "ack"} }

Merge == { Rec("merge", "pushpull", d, "ok", "valid", "-", j, 0) : d \in Devs("pushpull"), j \in {"join", "nojoin"} }
         \cup { Rec("merge", "pushpull", NoDev, p, "valid", "-", "nojoin", 0) : p \in {"emptybuf", "wrongtype", "typeonly", "garbage"} }
         \cup { Rec("merge", "pushpull", NoDev, "ok", e, "-", j, 0) :
                  e \in {"nilentry", "nilpayload", "maxltime", "noevents", "dup", "leftunknown"}, j \in {"join", "nojoin"} }

Ping == { Rec("ping", "coord", NoDev, p, r, "-", "-", c) :
            p \in {"empty", "veronly", "badver", "garbage", "valid", "vecnil", "vecwrongdim", "vecnan", "vecinf", "vechuge",
                   "errnan", "errneg", "heightneg", "adjinf", "wrongtype", "lie", "vecbig"},
            r \in {"neg", "zero", "ok", "huge"}, c \in {2, 3} }

MetaClasses == {"empty", "onebyte", "magiconly", "magicbad", "magicarray", "magicnil", "valid", "oversized", "role", "magiclie"}
Meta == { Rec("meta", "node", NoDev, v, m, n, ad, 0) :
            v \in {"join", "update", "leave", "merge", "alive", "conflict"}, m \in MetaClasses,
            n \in {"normal", "empty", "hostile", "long"}, ad \in {"v4", "v6", "nil", "three"} }
        \* memberlist reports a conflict, never a join/leave, about the local node's own name
        \cup { Rec("meta", "node", NoDev, "conflict", m, "self", ad, 0) : m \in MetaClasses, ad \in {"v4", "v6", "nil", "three"} }

Trunc == { Rec("trunc", k, NoDev, "-", "-", "-", "-", c) :
             k \in {"leave", "join", "user", "query", "resp", "relay", "pushpull", "ping", "meta", "keyquery", "filter"}, c \in {3} }

Inputs == Msg \cup Query \cup Relay \cup Resp \cup Merge \cup Ping \cup Meta \cup Trunc

------------------------------------------------------------------------------
(* the property: whatever the input, the node survives and keeps serving *)
Expected(i) == [alive |-> 1, members |-> 1, served |-> 1]

Clauses(i, o) ==
  (IF o.alive = Expected(i).alive THEN {} ELSE {"C09_survives"})
  \cup (IF o.alive = 1 /\ o.members # Expected(i).members THEN {"C09_members"} ELSE {})
  \cup (IF o.alive = 1 /\ o.served # Expected(i).served THEN {"C09_serving"} ELSE {})

(* input predicates that delimit the defects found in the code (tags of the monitor reports) *)
EmptyFilter(i)     == i.ep = "query" /\ i.c3 = "emptyfilter"
KeyPayloadEmpty(i) == i.ep = "query" /\ i.c1 \in KeyMod /\ i.c2 = "empty" /\ i.c3 \in PassFilt
Tags(i) == (IF EmptyFilter(i) THEN {"empty_filter"} ELSE {}) \cup (IF KeyPayloadEmpty(i) THEN {"key_payload_empty"} ELSE {})
           \cup {i.ep}

(* model of the code as found (only to show that the recorded findings are reachable) *)
CodeAsFound(i) == [alive |-> IF EmptyFilter(i) \/ KeyPayloadEmpty(i) THEN 0 ELSE 1, members |-> 1, served |-> 1]
=============================================================================
