---------------------------- MODULE QueryFilter ----------------------------
(* Receiver side of a query: serf/serf.go handleQuery + serf/query.go          *)
(* shouldProcessQuery + serf/internal_query.go serfQueries.stream, for ONE     *)
(* node.  F-pattern inside a B-shell: the only state is the node's tag map and *)
(* the set of (LTime, ID) pairs it has recorded in its query buffer; each      *)
(* Deliver step computes the expected observation with the operators below,    *)
(* which ARE the definition property C08 talks about.                          *)
(*                                                                            *)
(* Action records                                                              *)
(*   [a |-> "boot", tags |-> << [t |-> n, v |-> string], ... >>]               *)
(*        serf.Create with conf.Tags (tag n is called "tag<n>" in the driver;  *)
(*        a tag not listed is missing)                                         *)
(*   [a |-> "deliver", lt, id, name, ack, nb, fs, xf]                          *)
(*        NotifyMsg(messageQuery{LTime lt, ID id, Name name, Flags, Filters})  *)
(*        xf = further (undefined) bits set in Flags                           *)
(*        name = sequence of letters; fs = sequence of filter records          *)
(*   filter record [k, ty, names, tag, pat]                                    *)
(*        k = "node"    type byte 0 + msgpack list of node names (tokens;      *)
(*                      "self" stands for the receiving node's name)           *)
(*        k = "tag"     type byte 1 + msgpack {Tag, Expr = render(pat)}        *)
(*        k = "badre"   tag filter whose Expr does not compile (variant ty)    *)
(*        k = "garbage" type byte ty (0/1) followed by undecodable bytes       *)
(*        k = "unknown" an unassigned type byte (variant ty)                   *)
(*        k = "empty"   a zero-length filter (invalid: excludes the node)      *)
(* Observation  out = [deliv, ack, rebro, panic]: Query events that reached    *)
(* the application, ack packets sent to the query's origin, copies of the      *)
(* query put on the broadcast queue, whether NotifyMsg panicked (never         *)
(* expected; the driver calls it under recover).                               *)
EXTENDS Regex, TLC

CONSTANTS MaxSteps

VARIABLES tags,    \* conf.Tags of the node
          seen,    \* {<<lt, id>>} recorded in queryBuffer
          out,     \* expected observation of the last step
          last,    \* last action record
          steps,
          M        \* monitor state [tags, seen, deliv, bad]

vars == <<tags, seen, out, last, steps, M>>

------------------------------------------------------------------------------
(* The definition (property C08) *)

IsPrefix(p, s) == Len(p) <= Len(s) /\ SubSeq(s, 1, Len(p)) = p
InternalPrefix == <<"_", "s", "e", "r", "f", "_">>
Internal(name) == IsPrefix(InternalPrefix, name)

\* value of a tag; a missing tag counts as the empty string
TagVal(tg, t) == IF \E i \in DOMAIN tg : tg[i].t = t
                 THEN tg[CHOOSE i \in DOMAIN tg : tg[i].t = t].v
                 ELSE <<>>

InSeq(s, e) == \E i \in DOMAIN s : s[i] = e

\* one filter selects the node
FilterOK(tg, f) ==
  CASE f.k = "node" -> InSeq(f.names, "self")
    [] f.k = "tag"  -> PartialMatch(f.pat, TagVal(tg, f.tag))
    [] OTHER        -> FALSE          \* invalid pattern, undecodable, unknown type, empty

\* the node is selected iff every filter selects it
Selected(tg, fs) == \A i \in DOMAIN fs : FilterOK(tg, fs[i])

------------------------------------------------------------------------------
(* The model of the code: sequential evaluation, the first excluding filter    *)
(* ends it.  A zero-length filter is logged and excludes the node (since       *)
(* /repo 054cdc5; before that fix the node panicked on filter[0]).            *)
RECURSIVE Eval(_, _, _)
Eval(tg, fs, i) ==
  IF i > Len(fs) THEN "pass"
  ELSE IF FilterOK(tg, fs[i]) THEN Eval(tg, fs, i + 1)
  ELSE "fail"

Quiet == [deliv |-> 0, ack |-> 0, rebro |-> 0, panic |-> FALSE]

Expected(tg, sn, q) ==
  IF <<q.lt, q.id>> \in sn THEN Quiet
  ELSE LET res == Eval(tg, q.fs, 1)
       IN  [ deliv |-> IF res = "pass" /\ ~Internal(q.name) THEN 1 ELSE 0,
             ack   |-> IF res = "pass" /\ q.ack THEN 1 ELSE 0,
             rebro |-> IF q.nb THEN 0 ELSE 1,
             panic |-> FALSE ]

------------------------------------------------------------------------------
(* Monitor for C08 over (action record, observed output) only.                *)
(* Reading: on the first sight of (lt, id) the node hands the query to the    *)
(* application iff Selected and the name has no internal prefix; it sends an  *)
(* ack iff Selected and the ack flag is set; it queues the query for          *)
(* re-broadcast iff the no-broadcast flag is clear.  A later sight of the     *)
(* same (lt, id) is neither delivered nor re-broadcast.  A zero-length filter *)
(* is an invalid filter like any other: it excludes the node.                 *)
MonInit == [tags |-> <<>>, seen |-> {}, deliv |-> {}, bad |-> {}]

DeliverClauses(m, q, o) ==
  LET key   == <<q.lt, q.id>>
      first == key \notin m.seen
      sel   == Selected(m.tags, q.fs)
      int   == Internal(q.name)
      got   == o.deliv >= 1
  IN  (IF (got => sel) /\ ((first /\ sel /\ ~int) => got) THEN {} ELSE {"C08_deliver_iff_selected"})
        \cup (IF q.ack /\ first /\ ((o.ack >= 1) # sel) THEN {"C08_ack_iff_selected"} ELSE {})
        \cup (IF o.ack >= 1 /\ ~sel THEN {"C08_ack_iff_selected"} ELSE {})
        \cup (IF ~q.ack /\ o.ack >= 1 THEN {"C08_ack_only_when_asked"} ELSE {})
        \cup (IF first /\ ((o.rebro >= 1) # ~q.nb) THEN {"C08_rebroadcast_first_sight"} ELSE {})
        \cup (IF ~first /\ o.rebro >= 1 THEN {"C08_rebroadcast_only_first_sight"} ELSE {})
        \cup (IF o.deliv >= 2 \/ (got /\ key \in m.deliv) \/ (got /\ ~first)
              THEN {"C08_delivered_at_most_once"} ELSE {})
        \cup (IF int /\ got THEN {"C08_internal_never_to_app"} ELSE {})

MonStep(m, act, o) ==
  IF act.a = "boot" THEN [m EXCEPT !.tags = act.tags, !.seen = {}, !.deliv = {}]
  ELSE IF act.a = "deliver" THEN
     [m EXCEPT !.seen  = @ \cup {<<act.lt, act.id>>},
               !.deliv = IF o.deliv >= 1 THEN @ \cup {<<act.lt, act.id>>} ELSE @,
               !.bad   = @ \cup DeliverClauses(m, act, o)]
  ELSE m

\* history tags printed with a monitor report
TagsOf(m, act) ==
  IF act.a # "deliver" THEN {}
  ELSE (IF <<act.lt, act.id>> \in m.seen THEN {"repeat"} ELSE {"first_sight"})
       \cup (IF Internal(act.name) THEN {"internal_name"} ELSE {})
       \cup (IF Selected(m.tags, act.fs) THEN {"selected"} ELSE {"not_selected"})

------------------------------------------------------------------------------
(* Actions *)
Boot(tg) ==
  /\ last.a = "init"
  /\ tags' = tg /\ seen' = {} /\ out' = Quiet
  /\ last' = [a |-> "boot", tags |-> tg]
  /\ steps' = steps + 1
  /\ M' = MonStep(M, last', out')

Deliver(q) ==
  /\ last.a # "init"
  /\ out' = Expected(tags, seen, q)
  /\ seen' = seen \cup {<<q.lt, q.id>>}
  /\ last' = q
  /\ steps' = steps + 1
  /\ UNCHANGED tags
  /\ M' = MonStep(M, q, out')

Init ==
  /\ tags = <<>> /\ seen = {} /\ out = Quiet /\ last = [a |-> "init"] /\ steps = 0
  /\ M = MonInit

------------------------------------------------------------------------------
(* Input domain pieces shared by the exhaustive configuration and the         *)
(* generator *)
F(k, ty, names, tag, pat) == [k |-> k, ty |-> ty, names |-> names, tag |-> tag, pat |-> pat]
NoPat == [bol |-> FALSE, eol |-> FALSE, re |-> <<"any">>]
P(bol, eol, re) == [bol |-> bol, eol |-> eol, re |-> re]
FNode(names)  == F("node", 0, names, 0, NoPat)
FTag(t, pat)  == F("tag", 1, <<>>, t, pat)
FBadRe(t, v)  == F("badre", v, <<>>, t, NoPat)
FGarbage(ty)  == F("garbage", ty, <<>>, 0, NoPat)
FUnknown(v)   == F("unknown", v, <<>>, 0, NoPat)
FEmpty        == F("empty", 0, <<>>, 0, NoPat)

\* xf: positions of further bits set in the uint32 Flags word (only bit 0 = ack and bit 1 = no-broadcast
\* are defined; the others must not matter).  Ids are compared for equality only; the driver concretises
\* 0 -> 0, 900 -> 2^32-1, 901 -> 2^31 (boundary values of the uint32 wire field), any other id -> itself.
QX(lt, id, name, ack, nb, fs, xf) ==
  [a |-> "deliver", lt |-> lt, id |-> id, name |-> name, ack |-> ack, nb |-> nb, fs |-> fs, xf |-> xf]
Q(lt, id, name, ack, nb, fs) == QX(lt, id, name, ack, nb, fs, <<>>)

NmApp      == <<"q">>
NmPing     == <<"_", "s", "e", "r", "f", "_", "p", "i", "n", "g">>
NmUnknown  == <<"_", "s", "e", "r", "f", "_", "x", "y", "z">>
NmBare     == <<"_", "s", "e", "r", "f", "_">>
NmShort    == <<"_", "s", "e", "r", "f">>
NmInfix    == <<"x", "_", "s", "e", "r", "f", "_", "p">>
NmUpper    == <<"_", "S", "e", "r", "f", "_", "p">>

\* tags of the node in the filter-combination slice:
\* tag1 = "ab", tag2 = "" (present, empty), tag3 missing
ComboTags == << [t |-> 1, v |-> <<"a", "b">>], [t |-> 2, v |-> <<>>] >>

\* the filter alphabet: every kind, selecting and excluding variants
FAlpha ==
  { FNode(<<"self">>), FNode(<<"n1">>), FNode(<<"n1", "self", "n2">>), FNode(<<>>),
    FNode(<<"selfx">>), FNode(<<"sel", "SELF">>),
    FTag(1, P(FALSE, FALSE, <<"lit", "a">>)),                       \* "a" ~ ab        selects
    FTag(1, P(TRUE, TRUE, <<"lit", "a">>)),                         \* "^a$" ~ ab      excludes
    FTag(1, P(TRUE, TRUE, <<"cat", <<"any">>, <<"lit", "b">>>>)),   \* "^.b$" ~ ab     selects
    FTag(3, P(TRUE, TRUE, <<"star", <<"lit", "a">>>>)),             \* "^a*$" ~ missing selects
    FTag(3, P(FALSE, FALSE, <<"any">>)),                            \* "." ~ missing   excludes
    FTag(2, P(FALSE, FALSE, <<"opt", <<"lit", "b">>>>)),            \* "b?" ~ ""       selects
    FTag(2, P(FALSE, TRUE, <<"lit", "b">>)),                        \* "b$" ~ ""       excludes
    FBadRe(1, 0), FBadRe(3, 1), FGarbage(0), FGarbage(1), FUnknown(0), FUnknown(1), FEmpty }

SeqsUpTo(S, n) == UNION { [1..k -> S] : k \in 0..n }

------------------------------------------------------------------------------
(* Exhaustive open configuration: any interleaving of deliveries of queries   *)
(* drawn from a reduced alphabet, (lt, id) \in {1,2} x {1,2}.                  *)
OpenF == { FNode(<<"self">>), FNode(<<"n1">>), FTag(1, P(TRUE, TRUE, <<"lit", "a">>)),
           FTag(3, P(TRUE, TRUE, <<"star", <<"lit", "a">>>>)), FBadRe(1, 0), FGarbage(1), FEmpty }
OpenQ == { Q(lt, id, nm, ack, nb, fs) : lt \in 1..2, id \in 1..2, nm \in {NmApp, NmPing},
                                         ack \in BOOLEAN, nb \in BOOLEAN, fs \in SeqsUpTo(OpenF, 1) }

Next == /\ steps < MaxSteps
        /\ \/ Boot(ComboTags)
           \/ \E q \in OpenQ : Deliver(q)

Spec == Init /\ [][Next]_vars

C08 == M.bad = {}
\* the model's bookkeeping and the monitor's (built from logged data only) agree
TypeOK == M.seen = seen /\ M.tags = tags
=============================================================================
