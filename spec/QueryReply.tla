----------------------------- MODULE QueryReply -----------------------------
(* Query reply routing of one Serf node (property C07).                        *)
(*   serf/serf.go : Query, registerQueryResponse (+ its time.AfterFunc body),   *)
(*                  handleQuery (clock witness), handleQueryResponse            *)
(*   serf/query.go: QueryResponse.Finished / sendAck / sendResponse / Close     *)
(*                                                                             *)
(* Shared state, as in the code:                                                *)
(*   clock            Serf.queryClock                                           *)
(*   open[lt]         Serf.queryResponse, keyed BY LAMPORT TIME (value = query) *)
(*   qlock            Serf.queryLock held for writing across several steps      *)
(*                    (only the timer body does that; 0 = free)                 *)
(*   q[k]             the QueryResponse object of the k-th Query() call:        *)
(*                    acks/responses maps, closed flag, the two channels, dl =  *)
(*                    "time.Now() is after the deadline", armed = timer pending *)
(* Threads execute operations (op records); one action per critical section:   *)
(*   query k : q_time  LTime := queryClock.Time()  -- or, since commit 82cb47c   *)
(*                     of /repo, LTime := queryClock.Increment() - 1 (time taken *)
(*                     and clock advanced in one atomic step); both variants are *)
(*                     in the model, the trace specification accepts either      *)
(*             q_reg   [queryLock] queryResponse[LTime] := resp; arm the timer  *)
(*             q_wit   handleQuery: queryClock.Witness(LTime); return           *)
(*   reply m : r_look  [queryLock.R] lookup by LTime, then the ID comparison    *)
(*             r_fin   [closeLock] Finished(): closed or past the deadline      *)
(*             r_send  duplicate test on acks/responses, then [closeLock]       *)
(*                     closed? / non-blocking send / record                     *)
(*   timer k : t_del   queryLock.Lock(); delete(queryResponse, resp.lTime)      *)
(*             t_cl1   [closeLock] Close(): closed := true; close(ackCh)        *)
(*             t_cl2   close(respCh); queryLock.Unlock()   (the application     *)
(*                     reads the channels without any lock, so it can see one   *)
(*                     channel closed and the other not yet)                    *)
(* Merged steps (sound reductions): the duplicate test reads maps only the one  *)
(* packet-handler thread writes; the unlock after Close commutes with every     *)
(* action enabled in between; handleQuery's own queryLock section has no effect *)
(* on this state.                                                               *)
(*   dl k    : the clock passes the query's deadline (environment)              *)
(*   recv k  : the application drains AckCh()/ResponseCh() without blocking     *)
(* Query ids: distinct Query() calls have distinct ids (rand.Int31; the harness *)
(* checks it), so "reply.ID = query.id" is "reply.idr = k"; idr = 0 is an id    *)
(* no query has.                                                                *)
(*                                                                             *)
(* The specification is functional (Acts(s, t, ops) = successor records) so the *)
(* exhaustive model, the schedule generator and the trace specification share   *)
(* it.                                                                          *)
EXTENDS Integers, Sequences, FiniteSets, TLC

CONSTANTS NQ,        \* Query() calls
          NN,        \* responding node names
          MaxLT,     \* Lamport times 0..MaxLT
          Cap        \* channel capacity (= memberlist.NumMembers() at Query time)

Queries == 1..NQ
Nodes == 1..NN
NodesX == Nodes \cup {99}        \* 99 = a name the harness does not know
LTs == 0..MaxLT

NoOp == [op |-> "none", k |-> 0, lt |-> 0, idr |-> 0, from |-> 0, ack |-> 0, tag |-> 0]
QueryOp(k) == [NoOp EXCEPT !.op = "query", !.k = k]
DlOp(k)    == [NoOp EXCEPT !.op = "dl", !.k = k]
TimerOp(k) == [NoOp EXCEPT !.op = "timer", !.k = k]
RecvOp(k)  == [NoOp EXCEPT !.op = "recv", !.k = k]
ReplyOp(lt, idr, from, ack, tag) ==
  [op |-> "reply", k |-> 0, lt |-> lt, idr |-> idr, from |-> from, ack |-> ack, tag |-> tag]

Q0 == [st |-> 0, lt |-> 0, acks |-> {}, resps |-> {}, closed |-> FALSE, dl |-> FALSE, armed |-> FALSE,
       ackCh |-> <<>>, respCh |-> <<>>, ackCl |-> FALSE, respCl |-> FALSE]
NoRcv == [k |-> 0, ack |-> <<>>, resp |-> <<>>, ackClosed |-> FALSE, respClosed |-> FALSE]
NoOut == [rcv |-> NoRcv, beg |-> NoOp, fin |-> NoOp]
IdleTh == [pc |-> "idle", op |-> NoOp, x |-> 0, n |-> 0]

InitS(nt) == [clock |-> 1, qlock |-> 0, open |-> [l \in LTs |-> 0], q |-> [k \in Queries |-> Q0],
              th |-> [t \in 1..nt |-> IdleTh], out |-> NoOut]

Fin(s, t) == [s EXCEPT !.th[t].pc = "idle", !.th[t].n = @ + 1, !.out.fin = s.th[t].op]

\* first action of operation o by thread t ({} when o cannot start in s)
Begin(s0, t, o) ==
  LET s == [s0 EXCEPT !.th[t].op = o, !.th[t].x = 0, !.out = [NoOut EXCEPT !.beg = o]] IN
  CASE o.op = "query" ->
         IF s.q[o.k].st # 0 THEN {}
         ELSE { [s EXCEPT !.q[o.k].st = 1, !.q[o.k].lt = s.clock, !.th[t].pc = "q_reg"],
                [s EXCEPT !.q[o.k].st = 1, !.q[o.k].lt = s.clock, !.clock = s.clock + 1, !.th[t].pc = "q_reg"] }
    [] o.op = "reply" ->
         IF ~(o.idr = 0 \/ s.q[o.idr].st = 2) \/ s.qlock # 0 THEN {}
         ELSE LET x == s.open[o.lt] IN
              IF x = 0 \/ x # o.idr THEN { Fin(s, t) }
              ELSE { [s EXCEPT !.th[t].pc = "r_fin", !.th[t].x = x] }
    [] o.op = "dl" ->
         IF s.q[o.k].st # 2 \/ s.q[o.k].dl THEN {}
         ELSE { Fin([s EXCEPT !.q[o.k].dl = TRUE], t) }
    [] o.op = "timer" ->
         IF ~s.q[o.k].armed \/ ~s.q[o.k].dl \/ s.qlock # 0 THEN {}
         ELSE { [s EXCEPT !.qlock = t, !.q[o.k].armed = FALSE, !.open[s.q[o.k].lt] = 0, !.th[t].pc = "t_cl1"] }
    [] o.op = "recv" ->
         IF s.q[o.k].st # 2 THEN {}
         ELSE LET qq == s.q[o.k] IN
              { Fin([s EXCEPT !.q[o.k].ackCh = <<>>, !.q[o.k].respCh = <<>>,
                              !.out.rcv = [k |-> o.k, ack |-> qq.ackCh, resp |-> qq.respCh,
                                           ackClosed |-> qq.ackCl, respClosed |-> qq.respCl]], t) }
    [] OTHER -> {}

\* next action of the operation thread t is executing
Cont(s0, t) ==
  LET s == [s0 EXCEPT !.out = NoOut]
      th == s.th[t]
      o == th.op IN
  CASE th.pc = "q_reg" ->
         IF s.qlock # 0 THEN {}
         ELSE { [s EXCEPT !.open[s.q[o.k].lt] = o.k, !.q[o.k].st = 2, !.q[o.k].armed = TRUE, !.th[t].pc = "q_wit"] }
    [] th.pc = "q_wit" ->
         { Fin([s EXCEPT !.clock = IF s.q[o.k].lt + 1 > @ THEN s.q[o.k].lt + 1 ELSE @], t) }
    [] th.pc = "r_fin" ->
         IF s.q[th.x].closed \/ s.q[th.x].dl THEN { Fin(s, t) } ELSE { [s EXCEPT !.th[t].pc = "r_send"] }
    [] th.pc = "r_send" ->
         LET qq == s.q[th.x] IN
         IF o.from \in (IF o.ack = 1 THEN qq.acks ELSE qq.resps) THEN { Fin(s, t) }
         ELSE IF qq.closed THEN { Fin(s, t) }
         ELSE IF o.ack = 1
           THEN IF Len(qq.ackCh) < Cap
                  THEN { Fin([s EXCEPT !.q[th.x].ackCh = Append(@, o.from), !.q[th.x].acks = @ \cup {o.from}], t) }
                  ELSE { Fin(s, t) }       \* channel full: dropped, not recorded
           ELSE IF Len(qq.respCh) < Cap
                  THEN { Fin([s EXCEPT !.q[th.x].respCh = Append(@, <<o.from, o.tag>>), !.q[th.x].resps = @ \cup {o.from}], t) }
                  ELSE { Fin(s, t) }
    [] th.pc = "t_cl1" ->
         IF s.q[o.k].closed THEN { Fin([s EXCEPT !.qlock = 0], t) }      \* Close() is idempotent
         ELSE { [s EXCEPT !.q[o.k].closed = TRUE, !.q[o.k].ackCl = TRUE, !.th[t].pc = "t_cl2"] }
    [] th.pc = "t_cl2" ->
         { Fin([s EXCEPT !.q[o.k].respCl = TRUE, !.qlock = 0], t) }
    [] OTHER -> {}

\* one atomic action of thread t; ops = the operations t may start next
Acts(s, t, ops) ==
  IF s.th[t].pc = "idle" THEN UNION { Begin(s, t, o) : o \in ops } ELSE Cont(s, t)

\* a whole operation executed without interference (sequential schedules)
RECURSIVE Run(_, _)
Run(s, t) == IF s.th[t].pc = "idle" THEN s
             ELSE LET c == Cont(s, t) IN IF c = {} THEN s ELSE Run(CHOOSE x \in c : TRUE, t)
Macro(s, t, o) ==
  { [e EXCEPT !.out.beg = o, !.out.fin = o] : e \in { x \in { Run(b, t) : b \in Begin(s, t, o) } : x.th[t].pc = "idle" } }
\* "expire k" (real-time runs): the deadline passes and the timer fires right behind it
ExpireOp(k) == [NoOp EXCEPT !.op = "expire", !.k = k]
MacroX(s, t, o) ==
  IF o.op = "expire"
    THEN UNION { { [y EXCEPT !.out.beg = o, !.out.fin = o] : y \in Macro(x, t, TimerOp(o.k)) } : x \in Macro(s, t, DlOp(o.k)) }
    ELSE Macro(s, t, o)

------------------------------------------------------------------------------
(* Property C07 as a monitor over logged inputs and observed outputs only:      *)
(*   o.beg / o.fin  operation begun / finished in this step (what the harness   *)
(*                  called and saw return; "dl k" = the deadline of k passed)   *)
(*   o.q[k].st, lt  query k is registered, its Lamport time (read off the       *)
(*                  QueryResponse the application holds)                        *)
(*   o.rcv          what the application received on AckCh()/ResponseCh() of    *)
(*                  query rcv.k in this step, and whether it saw them closed    *)
(*   o.pan          1: "close of closed channel", 2: "send on closed channel"   *)
(* Readings: a reply is "addressed to" query k iff its LTime and ID equal k's.  *)
(* "Nothing after the query has finished": a reply whose handling BEGAN after   *)
(* the deadline of k had passed (Finished() true) is never delivered to k; a    *)
(* reply already in flight at the deadline may still be delivered until Close.  *)
(* "Closed exactly once when the query times out": never observed closed before *)
(* the deadline; both channels observed closed once the timer body has run; no  *)
(* close-of-closed-channel panic.                                               *)
MonInit == [bad |-> {}, tags |-> {}, rep |-> {},
            fin |-> [k \in Queries |-> FALSE], tmd |-> [k \in Queries |-> FALSE],
            ackc |-> [k \in Queries |-> [n \in NodesX |-> 0]],
            respc |-> [k \in Queries |-> [n \in NodesX |-> 0]]]

CountIn(seq, n) == Cardinality({ i \in DOMAIN seq : seq[i] = n })
CountFrom(seq, n) == Cardinality({ i \in DOMAIN seq : seq[i][1] = n })
Min2(x) == IF x > 2 THEN 2 ELSE x

MonStep(m, o) ==
  LET b == o.beg
      f == o.fin
      r == o.rcv
      rep1 == IF b.op = "reply"
                THEN m.rep \cup {[lt |-> b.lt, idr |-> b.idr, from |-> b.from, ack |-> b.ack, tag |-> b.tag, late |-> m.fin]}
                ELSE m.rep
      fin1 == [k \in Queries |-> m.fin[k] \/ (f.op \in {"dl", "expire"} /\ f.k = k)]
      tmd1 == [k \in Queries |-> m.tmd[k] \/ (f.op \in {"timer", "expire"} /\ f.k = k)]
      k == r.k
      ltk == IF k = 0 THEN 0 ELSE o.q[k].lt
      Addr(x) == x.lt = ltk /\ x.idr = k
      ackItems == { r.ack[i] : i \in DOMAIN r.ack }
      respItems == { r.resp[i] : i \in DOMAIN r.resp }
      CA(n) == { x \in rep1 : x.ack = 1 /\ x.from = n /\ Addr(x) }
      CR(it) == { x \in rep1 : x.ack = 0 /\ x.from = it[1] /\ x.tag = it[2] /\ Addr(x) }
      ackc1 == IF k = 0 THEN m.ackc
               ELSE [m.ackc EXCEPT ![k] = [n \in NodesX |-> Min2(@[n] + CountIn(r.ack, n))]]
      respc1 == IF k = 0 THEN m.respc
                ELSE [m.respc EXCEPT ![k] = [n \in NodesX |-> Min2(@[n] + CountFrom(r.resp, n))]]
      recvBad ==
        IF k = 0 THEN {}
        ELSE (IF \E n \in NodesX : ackc1[k][n] >= 2 THEN {"C07_duplicate_ack"} ELSE {})
          \cup (IF \E n \in NodesX : respc1[k][n] >= 2 THEN {"C07_duplicate_response"} ELSE {})
          \cup (IF (\E n \in ackItems : CA(n) = {}) \/ (\E it \in respItems : CR(it) = {})
                  THEN {"C07_reply_not_addressed_to_query"} ELSE {})
          \cup (IF (\E n \in ackItems : CA(n) # {} /\ \A x \in CA(n) : x.late[k])
                   \/ (\E it \in respItems : CR(it) # {} /\ \A x \in CR(it) : x.late[k])
                  THEN {"C07_reply_after_finish"} ELSE {})
          \cup (IF (r.ackClosed \/ r.respClosed) /\ ~fin1[k] THEN {"C07_closed_before_deadline"} ELSE {})
          \cup (IF tmd1[k] /\ ~(r.ackClosed /\ r.respClosed) THEN {"C07_not_closed_after_timeout"} ELSE {})
      sameLT == \E i, j \in Queries : i < j /\ o.q[i].st = 2 /\ o.q[j].st = 2 /\ o.q[i].lt = o.q[j].lt
      \* not a clause of C07, only recorded: a reply addressed to a registered query that was neither past its
      \* deadline nor closed, had not delivered this node's reply yet and had room in its channel, was discarded
      dropped == /\ f.op = "reply" /\ f.idr # 0
                 /\ LET a == o.q[f.idr] IN
                    /\ a.st = 2 /\ a.lt = f.lt /\ ~fin1[f.idr] /\ ~a.locked /\ ~a.closed
                    /\ IF f.ack = 1 THEN f.from \notin { a.acks[i] : i \in DOMAIN a.acks } /\ a.na < Cap
                                    ELSE f.from \notin { a.resps[i] : i \in DOMAIN a.resps } /\ a.nr < Cap
  IN [ bad  |-> m.bad \cup recvBad
                 \cup (IF o.pan = 1 THEN {"C07_closed_twice"} ELSE {})
                 \cup (IF o.pan = 2 THEN {"C07_send_after_close"} ELSE {})
                 \cup (IF o.pan > 2 THEN {"C07_panic"} ELSE {}),
       tags |-> m.tags \cup (IF sameLT THEN {"same_ltime_queries"} ELSE {})
                       \cup (IF dropped THEN {"addressed_reply_discarded"} ELSE {}),
       rep  |-> rep1, fin |-> fin1, tmd |-> tmd1, ackc |-> ackc1, respc |-> respc1 ]

\* the monitor's inputs as the model itself produces them
RECURSIVE SetSeq(_)
SetSeq(S) == IF S = {} THEN <<>> ELSE LET x == CHOOSE y \in S : TRUE IN <<x>> \o SetSeq(S \ {x})
ModelObs(s) ==
  [ q   |-> [k \in Queries |-> [st |-> IF s.q[k].st = 2 THEN 2 ELSE 0, lt |-> s.q[k].lt, locked |-> FALSE,
                                 acks |-> SetSeq(s.q[k].acks), resps |-> SetSeq(s.q[k].resps), closed |-> s.q[k].closed,
                                 na |-> Len(s.q[k].ackCh), nr |-> Len(s.q[k].respCh)]],
    beg |-> s.out.beg, fin |-> s.out.fin, rcv |-> s.out.rcv, pan |-> 0 ]
=============================================================================
