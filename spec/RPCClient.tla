----------------------------- MODULE RPCClient -----------------------------
(* client/rpc_client.go: the listener goroutine against Stop and Close.             *)
(*                                                                                  *)
(* Thread 1 is the client's own listen goroutine, threads 2.. are user threads      *)
(* running programs of                                                              *)
(*   stop h : RPCClient.Stop(handle of subscription h)    close : RPCClient.Close()  *)
(*   feed h ty : the agent sends one more record of type ty for subscription h       *)
(* Subscriptions (stream | monitor | query) are set up and initialised before the    *)
(* run; `pre` are records already on the wire.  Actions follow the code's            *)
(* statements and lock scopes:                                                       *)
(*  listen:      l_hdr  Decode(&respHeader)  (inbox empty: blocked; conn closed:     *)
(*                      l_x -> deferred Close)                                       *)
(*  respondSeq:  l_lk Lock, l_get lookup, l_ul Unlock, l_h Handle ->                 *)
(*               callback: errCh <- ; stream/monitor/query ack+response: l_snd the   *)
(*               non-blocking send on the subscriber channel; query done:            *)
(*               deregisterHandler                                                   *)
(*  deregisterHandler: d_lk Lock, d_get lookup+delete, d_ul Unlock, then Cleanup     *)
(*  Cleanup:     (k_lk) k_chk if !closed, k_c1 close(ch) (k_c2 close(respCh)), k_fl    *)
(*               = true   -- the closed / init flags are not synchronised            *)
(*  Stop:        deregisterHandler; genericRPC: s_rlk/s_reg handleSeq, s_send send   *)
(*               (IsClosed under the shutdown lock), s_wait select(errCh,            *)
(*               shutdownCh), deferred deregisterHandler                             *)
(*  Close:       c_lk shutdownLock, c_chk shutdown flag, deregisterAll: c_dlk Lock,  *)
(*               c_it Cleanup of every handler, c_new new map + Unlock, c_cc         *)
(*               conn.Close + Unlock                                                 *)
(* A send on a closed channel or a second close of a channel panics: the process     *)
(* dies (no further action).                                                         *)
EXTENDS Integers, Sequences, FiniteSets, TLC

CONSTANTS Scens     \* set of scenarios [subs |-> <<kinds>>, pre |-> <<[h, ty]>>, prog |-> <<user programs>>, fx |-> variant]

VARIABLES S, M, last
vars == <<S, M, last>>

L == 1
Nop == [h |-> 0, ty |-> "nop"]
IdleTh == [pc |-> "idle", i |-> 0, cur |-> 0, ok |-> FALSE, rec |-> Nop, rpc |-> "", rpk |-> "", todo |-> {}, pmsg |-> ""]

Users(sc) == { u + 1 : u \in DOMAIN sc.prog }
Subs(s) == DOMAIN s.subs

\* fx = TRUE: the code with the proposed fix (reports/conc-fix-2.diff): a mutex per handler, held by Handle
\* around "if closed return; send" and by Cleanup around "if !closed { close; closed = true }"
InitSx(sc, fx) ==
  [ fx |-> fx, hl |-> [h \in DOMAIN sc.subs |-> 0], disp |-> DOMAIN sc.subs, dl |-> 0, sl |-> 0, shut |-> FALSE, cc |-> FALSE,
    hcl |-> [h \in DOMAIN sc.subs |-> FALSE],
    cls |-> [h \in DOMAIN sc.subs |-> <<0, 0>>],
    got |-> [h \in DOMAIN sc.subs |-> <<0, 0>>],
    inbox |-> sc.pre, errch |-> [t \in Users(sc) |-> 0], panic |-> "",
    th |-> [t \in {L} \cup Users(sc) |-> IF t = L THEN [IdleTh EXCEPT !.pc = "l_lk"] ELSE IdleTh],
    subs |-> sc.subs, prog |-> sc.prog ]
InitS(sc) == InitSx(sc, FALSE)

Prog(s, t) == s.prog[t - 1]
HasOp(s, t) == t # L /\ s.th[t].i < Len(Prog(s, t))
CurOp(s, t) == Prog(s, t)[s.th[t].i + 1]
CanStart(s, t) == s.panic = "" /\ s.th[t].pc = "idle" /\ HasOp(s, t)
Start(s, t) ==
  LET o == CurOp(s, t) IN
  CASE o.op = "stop"  -> [s EXCEPT !.th[t].pc = "d_lk", !.th[t].cur = o.h, !.th[t].rpc = "s_rlk"]
    [] o.op = "close" -> [s EXCEPT !.th[t].pc = "c_lk", !.th[t].rpc = "ret"]
    [] OTHER          -> [s EXCEPT !.th[t].pc = "fd"]

IsQuery(s, h) == s.subs[h] = "query"
Goto(s, t, pc) == [s EXCEPT !.th[t].pc = pc]
Panic(s, msg) == [s EXCEPT !.panic = msg]
\* A panic in a user thread kills the process at once.  A panic in the listener first runs listen's
\* `defer c.Close()` (the goroutine is panicking but Close executes normally, yield points included)
\* and kills the process when Close returns.  (A panic of the listener inside that Close is fatal at once.)
PanicIn(s, t, msg) ==
  IF t = L /\ s.th[t].rpc # "l_die" /\ s.th[t].rpc # "l_end"
    THEN [s EXCEPT !.th[t].pc = "c_lk", !.th[t].rpc = "l_die", !.th[t].pmsg = msg]
    ELSE Panic(s, msg)
\* return from Close to th.rpc
CloseRet(s, t) == IF s.th[t].rpc = "l_die" THEN Panic(s, s.th[t].pmsg) ELSE [s EXCEPT !.th[t].pc = s.th[t].rpc]

CloseCh(s, t, h, j, next) ==
  IF s.cls[h][j] >= 1 THEN PanicIn(s, t, "close of closed channel")
  ELSE [s EXCEPT !.cls[h][j] = @ + 1, !.th[t].pc = next]

Acts(s, t) ==
  LET th == s.th[t]  pc == th.pc IN
  IF s.panic # "" \/ pc \in {"idle", "ret", "l_end"} THEN {}
  ELSE
  CASE pc = "l_hdr" -> (IF s.inbox # <<>> THEN { [s EXCEPT !.th[t].rec = Head(s.inbox), !.inbox = Tail(s.inbox), !.th[t].pc = "l_lk"] } ELSE {})
                       \cup (IF s.cc THEN { Goto(s, t, "l_x") } ELSE {})
    [] pc = "l_lk"  -> IF s.dl = 0 THEN { [s EXCEPT !.dl = t, !.th[t].pc = "l_get"] } ELSE {}
    [] pc = "l_get" -> { [s EXCEPT !.th[t].cur = IF th.rec.h \in s.disp THEN th.rec.h ELSE 0, !.th[t].pc = "l_ul"] }
    \* nobody registered: the record's body stays on the wire and is decoded as the next header (its map has
    \* no Seq field, so the sequence number of the previous header is looked up once more)
    [] pc = "l_ul"  -> { [s EXCEPT !.dl = 0, !.th[t].pc = IF th.cur = 0 THEN "l_hdr" ELSE "l_h",
                                   !.inbox = IF th.cur = 0 /\ th.rec.ty \in {"rec", "ack", "resp", "done"}
                                               THEN << [h |-> th.rec.h, ty |-> "body"] >> \o @ ELSE @] }
    [] pc = "l_h"   -> IF th.cur >= 100 THEN { [s EXCEPT !.errch[th.cur - 100] = 1, !.th[t].pc = "l_hdr"] }
                       ELSE IF th.rec.ty = "done" THEN { [s EXCEPT !.th[t].pc = "d_lk", !.th[t].rpc = "l_hdr"] }
                       ELSE { Goto(s, t, IF s.fx THEN "l_hlk" ELSE "l_snd") }
    [] pc = "l_hlk" -> IF s.hl[th.cur] = 0 THEN { [s EXCEPT !.hl[th.cur] = t, !.th[t].pc = "l_ck"] } ELSE {}
    [] pc = "l_ck"  -> IF s.hcl[th.cur] THEN { [s EXCEPT !.hl[th.cur] = 0, !.th[t].pc = "l_hdr"] } ELSE { Goto(s, t, "l_snd") }
    [] pc = "l_snd" -> LET j == IF th.rec.ty = "resp" THEN 2 ELSE 1 IN
                       IF s.cls[th.cur][j] >= 1 THEN { PanicIn(s, t, "send on closed channel") }
                       ELSE { [s EXCEPT !.got[th.cur][j] = @ + 1, !.hl[th.cur] = IF s.fx THEN 0 ELSE @, !.th[t].pc = "l_hdr"] }
    [] pc = "l_x"   -> IF s.sl = 0 THEN { [s EXCEPT !.th[t].pc = "c_lk", !.th[t].rpc = "l_end"] } ELSE {}
    \* deregisterHandler(th.cur), returns to th.rpc
    [] pc = "d_lk"  -> IF s.dl = 0 THEN { [s EXCEPT !.dl = t, !.th[t].pc = "d_get"] } ELSE {}
    [] pc = "d_get" -> { [s EXCEPT !.th[t].ok = th.cur \in s.disp, !.disp = @ \ {th.cur}, !.th[t].pc = "d_ul"] }
    [] pc = "d_ul"  -> { [s EXCEPT !.dl = 0, !.th[t].rpk = th.rpc,
                                   !.th[t].pc = IF th.ok /\ th.cur < 100 THEN (IF s.fx THEN "k_lk" ELSE "k_chk") ELSE th.rpc] }
    \* Cleanup of subscription th.cur, returns to th.rpk
    [] pc = "k_lk"  -> IF s.hl[th.cur] = 0 THEN { [s EXCEPT !.hl[th.cur] = t, !.th[t].pc = "k_chk"] } ELSE {}
    [] pc = "k_chk" -> { IF s.hcl[th.cur] THEN [s EXCEPT !.hl[th.cur] = 0, !.th[t].pc = th.rpk] ELSE Goto(s, t, "k_c1") }
    [] pc = "k_c1"  -> { CloseCh(s, t, th.cur, 1, IF IsQuery(s, th.cur) THEN "k_c2" ELSE "k_fl") }
    [] pc = "k_c2"  -> { CloseCh(s, t, th.cur, 2, "k_fl") }
    [] pc = "k_fl"  -> { [s EXCEPT !.hcl[th.cur] = TRUE, !.hl[th.cur] = 0, !.th[t].pc = th.rpk] }
    \* Stop after the deregistration: the stop RPC
    [] pc = "s_rlk" -> IF s.dl = 0 THEN { [s EXCEPT !.dl = t, !.th[t].pc = "s_reg"] } ELSE {}
    [] pc = "s_reg" -> { [s EXCEPT !.disp = @ \cup {100 + t}, !.dl = 0, !.th[t].pc = "s_send"] }
    [] pc = "s_send" -> IF s.sl # 0 THEN {}
                        ELSE IF s.shut THEN { [s EXCEPT !.th[t].cur = 100 + t, !.th[t].rpc = "ret", !.th[t].pc = "d_lk"] }
                        ELSE { [s EXCEPT !.inbox = Append(@, [h |-> 100 + t, ty |-> "cb"]), !.th[t].pc = "s_wait"] }
    [] pc = "s_wait" -> IF s.errch[t] = 1 \/ s.shut
                        THEN { [s EXCEPT !.th[t].cur = 100 + t, !.th[t].rpc = "ret", !.th[t].pc = "d_lk"] } ELSE {}
    \* Close, returns to th.rpc
    [] pc = "c_lk"  -> IF s.sl = 0 THEN { [s EXCEPT !.sl = t, !.th[t].pc = "c_chk"] } ELSE {}
    [] pc = "c_chk" -> IF s.shut THEN { CloseRet([s EXCEPT !.sl = 0], t) }
                       ELSE { [s EXCEPT !.shut = TRUE, !.th[t].pc = "c_dlk"] }
    [] pc = "c_dlk" -> IF s.dl = 0 THEN { [s EXCEPT !.dl = t, !.th[t].todo = s.disp, !.th[t].pc = "c_it"] } ELSE {}
    [] pc = "c_it"  -> IF th.todo = {} THEN { [s EXCEPT !.disp = {}, !.dl = 0, !.th[t].pc = "c_cc"] }
                       ELSE { IF h >= 100 THEN [s EXCEPT !.th[t].todo = @ \ {h}]
                              ELSE [s EXCEPT !.th[t].todo = @ \ {h}, !.th[t].cur = h, !.th[t].rpk = "c_it",
                                             !.th[t].pc = IF s.fx THEN "k_lk" ELSE "k_chk"]
                              : h \in th.todo }
    [] pc = "c_cc"  -> { CloseRet([s EXCEPT !.cc = TRUE, !.sl = 0], t) }
    \* the agent sends one more record
    [] pc = "fd"    -> LET o == CurOp(s, t) IN
                       { [s EXCEPT !.inbox = IF s.cc THEN @ ELSE Append(@, [h |-> o.h, ty |-> o.ty]), !.th[t].pc = "ret"] }
    [] OTHER -> {}

CanFin(s, t) == s.panic = "" /\ s.th[t].pc = "ret"
Fin(s, t) == [s EXCEPT !.th[t] = [IdleTh EXCEPT !.i = s.th[t].i + 1]]
UsersDone(s) == \A t \in DOMAIN s.th : t = L \/ (s.th[t].pc = "idle" /\ ~HasOp(s, t))

\* the harness's final Close (run to completion, nobody else is running)
FinalClose(s) ==
  IF s.shut THEN s
  ELSE LET tgt == { h \in s.disp : h < 100 /\ ~s.hcl[h] }
           twice == \E h \in tgt : s.cls[h][1] >= 1 \/ (IsQuery(s, h) /\ s.cls[h][2] >= 1)
       IN IF twice THEN Panic(s, "close of closed channel")
          ELSE [s EXCEPT !.shut = TRUE, !.cc = TRUE, !.disp = {},
                         !.cls = [h \in DOMAIN s.cls |-> IF h \in tgt THEN <<1, IF IsQuery(s, h) THEN 1 ELSE 0>> ELSE s.cls[h]],
                         !.hcl = [h \in DOMAIN s.hcl |-> s.hcl[h] \/ h \in tgt]]

ClosedView(s) == [h \in DOMAIN s.cls |-> <<s.cls[h][1] >= 1, s.cls[h][2] >= 1>>]

------------------------------------------------------------------------------
(* Property C28 as a monitor over logged inputs (scenario, which thread ran, call    *)
(* invocations) and observed outputs (per subscriber channel: closed?, number of     *)
(* values received; the panic message if the process died).                          *)
(*  C28_panic             the process panicked                                       *)
(*  C28_send_after_close  ... with "send on closed channel"                          *)
(*  C28_closed_twice      ... with "close of closed channel"                         *)
(*  C28_not_closed_at_end after every call returned and the client was closed some   *)
(*                        subscriber channel is still open                           *)
(*  C28_delivery_after_close a value arrived on a channel already seen closed        *)
(* Tag record_in_flight_at_close: when a subscriber channel was first seen closed,   *)
(* records for that subscription had been put on the wire and not yet delivered.     *)
Sends(ty) == ty \in {"rec", "ack", "resp"}
CountFed(sc, h) == Cardinality({ k \in DOMAIN sc.pre : sc.pre[k].h = h /\ Sends(sc.pre[k].ty) })

MonInit(sc) ==
  [ bad |-> {}, tags |-> {}, oi |-> [t \in Users(sc) |-> 0],
    fed |-> [h \in DOMAIN sc.subs |-> CountFed(sc, h)],
    cl |-> [h \in DOMAIN sc.subs |-> <<FALSE, FALSE>>],
    got |-> [h \in DOMAIN sc.subs |-> <<0, 0>>], ended |-> FALSE ]

\* e = [t, inv, fin, cl, got, panic, end, dead]
MonStep(m, sc, e) ==
  LET isU == e.t \in DOMAIN m.oi
      o   == IF isU /\ (e.inv \/ e.fin) /\ m.oi[e.t] < Len(sc.prog[e.t - 1]) THEN sc.prog[e.t - 1][m.oi[e.t] + 1]
             ELSE [op |-> "none", h |-> 0, ty |-> ""]
      fed == IF e.inv /\ o.op = "feed" /\ Sends(o.ty) THEN [m.fed EXCEPT ![o.h] = @ + 1] ELSE m.fed
      H   == DOMAIN m.cl
      newly == { h \in H : \E j \in 1..2 : e.cl[h][j] /\ ~m.cl[h][j] }
      infl == \E h \in newly : fed[h] > e.got[h][1] + e.got[h][2]
      late == \E h \in H : \E j \in 1..2 : m.cl[h][j] /\ e.got[h][j] > m.got[h][j]
      open == \E h \in H : ~e.cl[h][1] \/ (sc.subs[h] = "query" /\ ~e.cl[h][2])
      b == (IF e.panic # "" THEN {"C28_panic"} ELSE {})
           \cup (IF e.panic = "send on closed channel" THEN {"C28_send_after_close"} ELSE {})
           \cup (IF e.panic = "close of closed channel" THEN {"C28_closed_twice"} ELSE {})
           \cup (IF late THEN {"C28_delivery_after_close"} ELSE {})
           \cup (IF e.end /\ e.dead THEN {"C28_deadlock"} ELSE {})
           \cup (IF e.end /\ ~e.dead /\ e.panic = "" /\ open THEN {"C28_not_closed_at_end"} ELSE {})
  IN [m EXCEPT !.bad = @ \cup b,
               !.tags = @ \cup (IF infl THEN {"record_in_flight_at_close"} ELSE {}),
               !.fed = fed, !.cl = e.cl, !.got = e.got,
               !.oi = IF isU /\ e.fin THEN [@ EXCEPT ![e.t] = @ + 1] ELSE @,
               !.ended = @ \/ e.end]

Ev(t, inv, fin, s, end) == [t |-> t, inv |-> inv, fin |-> fin, cl |-> ClosedView(s), got |-> s.got,
                            panic |-> s.panic, end |-> end, dead |-> FALSE]
Scen(s) == [subs |-> s.subs, prog |-> s.prog]

------------------------------------------------------------------------------
Init == /\ \E sc \in Scens : S = InitSx(sc, sc.fx) /\ M = MonInit(sc)
        /\ last = [a |-> "init"]

StartAct(t) ==
  /\ CanStart(S, t)
  /\ S' = Start(S, t)
  /\ M' = MonStep(M, Scen(S), Ev(t, TRUE, FALSE, S', FALSE))
  /\ last' = [a |-> "start", t |-> t]

StepAct(t) ==
  \E s2 \in Acts(S, t) :
     /\ S' = s2
     /\ M' = MonStep(M, Scen(S), Ev(t, FALSE, FALSE, s2, FALSE))
     /\ last' = [a |-> "step", t |-> t]

FinAct(t) ==
  /\ CanFin(S, t)
  /\ S' = Fin(S, t)
  /\ M' = MonStep(M, Scen(S), Ev(t, FALSE, TRUE, S', FALSE))
  /\ last' = [a |-> "fin", t |-> t]

EndAct ==
  /\ S.panic = "" /\ ~M.ended /\ UsersDone(S) /\ Acts(S, L) = {}
  /\ S' = FinalClose(S)
  /\ M' = MonStep(M, Scen(S), Ev(0, FALSE, FALSE, S', TRUE))
  /\ last' = [a |-> "end"]

Next == (\E t \in DOMAIN S.th : StartAct(t) \/ StepAct(t) \/ FinAct(t)) \/ EndAct
Spec == Init /\ [][Next]_vars

\* every run ends: panicked, or ended, or somebody can move
NoDeadlock == \/ S.panic # "" \/ M.ended
              \/ \E t \in DOMAIN S.th : CanStart(S, t) \/ Acts(S, t) # {} \/ CanFin(S, t)
              \/ (UsersDone(S) /\ Acts(S, L) = {})

Known(m) == \A c \in m.bad : c \in {"C28_panic", "C28_send_after_close"} /\ "record_in_flight_at_close" \in m.tags
C28 == Known(M)
C28Strict == M.bad = {}
=============================================================================
