-------------------------------- MODULE RTT --------------------------------
(* C21 -- coordinate/coordinate.go DistanceTo / rawDistanceTo against the        *)
(* documented formula (docs/internals/coordinates.html.markdown), F-pattern.      *)
(*                                                                                *)
(* Exact sub-lattice: components, heights and adjustments are small INTEGERS in a *)
(* unit of 2^sc seconds (sc chosen by the harness, -9..10, so one unit is a whole *)
(* number of nanoseconds), and only pairs whose Euclidean distance is an integer  *)
(* (Pythagorean differences) are used.  On this lattice every IEEE-754 operation  *)
(* of the implementation (subtract, square, add, sqrt, add, multiply by 1e9,      *)
(* truncate) is exact, so the real result, divided by the unit, must EQUAL the     *)
(* integer model.  The formula is homogeneous, so the unit does not matter.        *)
(*                                                                                *)
(* Input [a, ep, v1, v2, h1, h2, a1, a2, sc, m1, m2, ac]:                          *)
(*   ep = "exact": coordinates <<v1, h1, a1>>, <<v2, h2, a2>> on the lattice        *)
(*   ep = "float": classes only (m1, m2 magnitudes, ac adjustment class); the       *)
(*                 harness draws seeded floats; only the clauses that need no       *)
(*                 oracle (non-negative, symmetric within 1 ns) are judged          *)
EXTENDS Integers, Sequences, FiniteSets, TLC

CONSTANTS R2,   \* component range -R2..R2 in dimension 1 and 2
          R3,   \* component range -R3..R3 in dimension 3
          Rich  \* TRUE: all height pairs and adjustment offsets (thorough tier)

Sq(x) == x * x
RECURSIVE SumSq(_, _, _)
SumSq(u, v, i) == IF i > Len(u) THEN 0 ELSE Sq(u[i] - v[i]) + SumSq(u, v, i + 1)
IsSquare(n) == \E r \in 0..n : r * r = n
ISqrt(n) == CHOOSE r \in 0..n : r * r = n

DimErr == -1
Raw(v1, h1, v2, h2) == ISqrt(SumSq(v1, v2, 1)) + h1 + h2

\* the documented formula: Euclidean distance plus both heights, plus both adjustments when that stays positive
Dist(v1, h1, a1, v2, h2, a2) ==
  IF Len(v1) # Len(v2) THEN DimErr
  ELSE LET raw == Raw(v1, h1, v2, h2)
           adj == raw + a1 + a2
       IN IF adj > 0 THEN adj ELSE raw

Vecs(d) == IF d = 3 THEN [1..3 -> -R3..R3] ELSE [1..d -> -R2..R2]
\* adjustment pairs placed around the point where the adjusted distance changes sign (<<0, p, dl>>: the pair
\* <<p, dl - raw - p>>, whose adjusted distance is dl) and two absolute pairs (<<1, a1, a2>>)
AdjSpecs == { <<0, p, dl>> : p \in (IF Rich THEN {-3, 0, 4} ELSE {-3, 4}), dl \in {-1, 0, 1, 6} } \cup {<<1, 0, 0>>, <<1, 2, 3>>}
AdjOf(raw, sp) == IF sp[1] = 1 THEN <<sp[2], sp[3]>> ELSE <<sp[2], sp[3] - raw - sp[2]>>
HeightPairs == IF Rich THEN {<<0, 0>>, <<2, 0>>, <<0, 5>>, <<2, 5>>} ELSE {<<0, 0>>, <<2, 5>>}

Rec(v1, h1, a1, v2, h2, a2) ==
  [a |-> "in", ep |-> "exact", v1 |-> v1, v2 |-> v2, h1 |-> h1, h2 |-> h2, a1 |-> a1, a2 |-> a2,
   sc |-> 0, m1 |-> "-", m2 |-> "-", ac |-> "-"]

Pairs(d) == { p \in Vecs(d) \X Vecs(d) : IsSquare(SumSq(p[1], p[2], 1)) }
AllPairs == Pairs(1) \cup Pairs(2) \cup Pairs(3)
SameDim == { Rec(p[1], hh[1], AdjOf(Raw(p[1], hh[1], p[2], hh[2]), sp)[1], p[2], hh[2], AdjOf(Raw(p[1], hh[1], p[2], hh[2]), sp)[2]) :
               p \in AllPairs, hh \in HeightPairs, sp \in AdjSpecs }
MVecs == {<<1>>, <<1, 2>>, <<3, 4>>, <<0, 0, 0>>, <<>>}
Mismatch == { Rec(p[1], 1, 0, p[2], 1, 0) : p \in { q \in MVecs \X MVecs : Len(q[1]) # Len(q[2]) } }
FloatIn == { [a |-> "in", ep |-> "float", v1 |-> <<>>, v2 |-> <<>>, h1 |-> 0, h2 |-> 0, a1 |-> 0, a2 |-> 0, sc |-> 0,
              m1 |-> m, m2 |-> n, ac |-> c] :
             m \in {"zero", "ns", "ms", "s", "max"}, n \in {"zero", "ns", "ms", "s", "max"},
             c \in {"none", "small", "cancel", "negbig", "posbig", "huge"} }
\* the boundary of the seconds -> time.Duration conversion: d0 = the one float64 whose product with 1e9 is exactly 2^63 ns
\* (Duration(MaxInt64).Seconds()) and its -2..+2 ulp neighbours, reached as adjusted distance of ordinary coordinates
\* (raw distance 6 s) through the adjustment split `ac`; observed: bnd = <<MaxInt64 - result>> per neighbour (-1: the
\* result was negative; capped), neg / dns over both directions
BoundIn == { [a |-> "in", ep |-> "bound", v1 |-> <<>>, v2 |-> <<>>, h1 |-> 0, h2 |-> 0, a1 |-> 0, a2 |-> 0, sc |-> 0,
              m1 |-> "-", m2 |-> "-", ac |-> c] : c \in {"split0", "split1", "split2", "split3"} }
Inputs == SameDim \cup Mismatch \cup FloatIn \cup BoundIn

------------------------------------------------------------------------------
(* laws of the definition (checked by TLC on every exact input) *)
Laws(i) == i.ep = "exact" =>
  LET d  == Dist(i.v1, i.h1, i.a1, i.v2, i.h2, i.a2)
      dr == Dist(i.v2, i.h2, i.a2, i.v1, i.h1, i.a1)
  IN /\ d = dr                                              \* symmetric
     /\ Len(i.v1) = Len(i.v2) => d >= 0                      \* non-negative (heights are non-negative)
     /\ Len(i.v1) = Len(i.v2) => d >= Raw(i.v1, i.h1, i.v2, i.h2) \/ d = Raw(i.v1, i.h1, i.v2, i.h2) + i.a1 + i.a2

(* observation: ab, ba = DistanceTo both ways in units (exact inputs), rem = 1 if a result was not a whole    *)
(* number of units, err = 1 both calls panicked with DimensionalityConflictError, 2 anything else, 0 none;    *)
(* neg = 1 a result was negative, dns = |ab - ba| in nanoseconds (capped)                                      *)
Expected(i) == IF i.ep = "exact"
  THEN LET d == Dist(i.v1, i.h1, i.a1, i.v2, i.h2, i.a2)
       IN [ab |-> IF d = DimErr THEN 0 ELSE d, ba |-> IF d = DimErr THEN 0 ELSE d, rem |-> 0,
           err |-> IF d = DimErr THEN 1 ELSE 0, neg |-> 0, dns |-> 0]
  ELSE IF i.ep = "bound" THEN [ab |-> 0, ba |-> 0, rem |-> 0, err |-> 0, neg |-> 0, dns |-> 0, bnd |-> <<2047, 1023, 0, 0, 0>>]
  ELSE [ab |-> 0, ba |-> 0, rem |-> 0, err |-> 0, neg |-> 0, dns |-> 0]

Clauses(i, o) ==
  LET e == Expected(i) IN
  (IF i.ep = "exact" /\ e.err = 0 /\ (o.err # 0 \/ o.rem # 0 \/ o.ab # e.ab \/ o.ba # e.ba) THEN {"C21_formula"} ELSE {})
  \cup (IF e.err = 1 /\ o.err # 1 THEN {"C21_dimension_error"} ELSE {})
  \cup (IF e.err = 0 /\ o.err = 0 /\ o.neg # 0 THEN {"C21_non_negative"} ELSE {})
  \cup (IF e.err = 0 /\ o.err = 0 /\ o.dns > 1 THEN {"C21_symmetric"} ELSE {})
  \* around the saturation boundary the estimate is non-negative and does not decrease as the distance grows
  \* (bnd[k] = MaxInt64 - estimate: non-negative and non-increasing)
  \cup (IF i.ep = "bound" /\ \E k \in DOMAIN o.bnd : o.bnd[k] < 0 THEN {"C21_non_negative"} ELSE {})
  \cup (IF i.ep = "bound" /\ \E k \in 1..(Len(o.bnd) - 1) : o.bnd[k] >= 0 /\ o.bnd[k + 1] >= 0 /\ o.bnd[k] < o.bnd[k + 1]
        THEN {"C21_monotone_boundary"} ELSE {})

Tags(i) == {i.ep} \cup (IF i.ep \in {"float", "bound"} THEN {i.ac} ELSE {})
=============================================================================
