------------------------------- MODULE Regex -------------------------------
(* A small regular-expression semantics used as the ORACLE for tag filters    *)
(* (serf/query.go shouldProcessQuery -> regexp.MatchString).                  *)
(*                                                                            *)
(* Strings are sequences of letters (one-character TLA+ strings).             *)
(* AST (tuples, so that they survive the JSON round trip unchanged):          *)
(*    <<"lit", c>>      the letter c                                          *)
(*    <<"any">>         any one letter            (Go: .)                     *)
(*    <<"cat", r, s>>   r followed by s           (Go: (?:r)(?:s))            *)
(*    <<"alt", r, s>>   r or s                    (Go: (?:r)|(?:s))           *)
(*    <<"star", r>>     zero or more r            Go: (?:r) followed by a star   *)
(*    <<"opt", r>>      zero or one r             (Go: (?:r)?)                *)
(* A pattern is [bol, eol, re]: optional anchors ^ and $ around the AST       *)
(* (Go: ^(?:re)$).  The renderer to Go syntax lives in the harness            *)
(* (harness/cmd/queryrecv/main.go render()).                                  *)
(*                                                                            *)
(* Lang(r, L)       = strings of length <= L that r matches as a WHOLE        *)
(* FullMatch(r, s)  = s \in Lang(r, Len(s))                                   *)
(* PartialMatch(p,s)= some substring of s (the empty one included) is in the  *)
(*                    language, starting at 1 if p.bol, ending at Len(s) if   *)
(*                    p.eol -- the meaning of regexp.MatchString.             *)
EXTENDS Integers, Sequences, FiniteSets

Sigma    == {"a", "b", "c"}      \* letters of tag values
LitSigma == {"a", "b"}           \* letters patterns mention literally

StrsOfLen(n) == [1..n -> Sigma]
StrsUpTo(L)  == UNION { StrsOfLen(n) : n \in 0..L }

\* S \cup S.B \cup S.B.B ... (n rounds), strings longer than L dropped
RECURSIVE Closure(_, _, _, _)
Closure(S, B, L, n) ==
  IF n = 0 THEN S
  ELSE LET T == S \cup { x \in { u \o v : u \in S, v \in B } : Len(x) <= L }
       IN  IF T = S THEN S ELSE Closure(T, B, L, n - 1)

RECURSIVE Lang(_, _)
Lang(r, L) ==
  CASE r[1] = "lit"  -> IF L >= 1 THEN { <<r[2]>> } ELSE {}
    [] r[1] = "any"  -> IF L >= 1 THEN { <<c>> : c \in Sigma } ELSE {}
    [] r[1] = "cat"  -> { x \in { u \o v : u \in Lang(r[2], L), v \in Lang(r[3], L) } : Len(x) <= L }
    [] r[1] = "alt"  -> Lang(r[2], L) \cup Lang(r[3], L)
    [] r[1] = "opt"  -> { <<>> } \cup Lang(r[2], L)
    [] r[1] = "star" -> Closure({ <<>> }, Lang(r[2], L) \ { <<>> }, L, L)

FullMatch(r, s) == s \in Lang(r, Len(s))

PartialMatch(p, s) ==
  LET lg == Lang(p.re, Len(s))
  IN  \E i \in 1..(Len(s) + 1) : \E j \in (i - 1)..Len(s) :
        /\ SubSeq(s, i, j) \in lg
        /\ (p.bol => i = 1)
        /\ (p.eol => j = Len(s))

------------------------------------------------------------------------------
(* The bounded AST domain *)
Atoms == { <<"lit", c>> : c \in LitSigma } \cup { <<"any">> }

RECURSIVE RE(_)
RE(d) == IF d = 0 THEN Atoms
         ELSE LET P == RE(d - 1)
              IN  P \cup { <<"star", r>> : r \in P } \cup { <<"opt", r>> : r \in P }
                    \cup { <<"cat", r, s>> : r \in P, s \in P }
                    \cup { <<"alt", r, s>> : r \in P, s \in P }

Patterns(d) == { [bol |-> b, eol |-> e, re |-> r] : b \in BOOLEAN, e \in BOOLEAN, r \in RE(d) }

------------------------------------------------------------------------------
(* Laws of the definition (checked by TLC in the exhaustive configuration of  *)
(* QueryFilter: ASSUME RegexLaws(1, 3)).                                      *)
RegexLaws(d, L) ==
  /\ \A r \in RE(d) : Lang(r, L) \subseteq StrsUpTo(L)
  /\ \A r \in RE(d) : Lang(<<"star", <<"star", r>>>>, L) = Lang(<<"star", r>>, L)
  /\ \A r \in RE(d) : Lang(<<"opt", r>>, L) = Lang(<<"alt", r, <<"opt", r>>>>, L)
  /\ \A r \in RE(d), s \in RE(0) : Lang(<<"alt", r, s>>, L) = Lang(<<"alt", s, r>>, L)
  /\ \A r \in RE(d) : \A s \in StrsUpTo(L) :
        /\ FullMatch(r, s) <=> PartialMatch([bol |-> TRUE, eol |-> TRUE, re |-> r], s)
        /\ FullMatch(r, s) => PartialMatch([bol |-> FALSE, eol |-> FALSE, re |-> r], s)
        /\ PartialMatch([bol |-> TRUE, eol |-> FALSE, re |-> r], s)
             <=> \E n \in 0..Len(s) : FullMatch(r, SubSeq(s, 1, n))
        /\ PartialMatch([bol |-> FALSE, eol |-> FALSE, re |-> r], s)
             <=> \E i \in 1..(Len(s) + 1), j \in 0..Len(s) : i - 1 <= j /\ FullMatch(r, SubSeq(s, i, j))
=============================================================================
