------------------------------- MODULE Relay -------------------------------
(* Relay choice for query replies (property C35): serf/query.go relayResponse  *)
(* (262-307) and kRandomMembers (309-336), reached from handleQuery (ack) and  *)
(* Query.Respond.  F-pattern with a nondeterministic output: the definition is *)
(* the PREDICATE RelayOK on (member table, k, observed destinations).          *)
(*                                                                            *)
(* Vector  [a |-> "relay", via, k, mem]                                        *)
(*   mem = sequence of [nm, st, pm]: name (0 = the replying node itself),      *)
(*         status 1 alive / 2 leaving / 3 left / 4 failed, memberlist protocol *)
(*         maximum (relaying needs >= 5)                                       *)
(*   via = "node": a real node whose member table holds itself plus mem (names *)
(*         1..n, distinct) receives queries with relay factor k and the ack    *)
(*         flag and the application responds: both reply paths are observed    *)
(*   via = "pick": kRandomMembers(k, mem, filter) called through an accessor   *)
(*         with the filter relayResponse uses; mem may repeat names and may    *)
(*         contain the node itself                                             *)
(* Observation  runs = sequence of [direct, relays]: replies sent straight to  *)
(*   the origin and the names relayed copies were sent to, one entry per       *)
(*   reply (the choice is random, every vector is run many times).             *)
EXTENDS Integers, Sequences, FiniteSets, TLC

CONSTANTS NM,      \* members besides the node itself (node path): 0..NM
          NP,      \* list length for the pick path: 0..NP
          Runs     \* replies per vector in the model's own exhaustive check

VARIABLES last, out, steps, M
vars == <<last, out, steps, M>>

Alive == 1
RelayProto == 5

Known(v) == IF v.via = "node" THEN Len(v.mem) + 1 ELSE Len(v.mem)

EligibleNames(mem) ==
  { mem[i].nm : i \in { j \in DOMAIN mem : mem[j].st = Alive /\ mem[j].pm >= RelayProto /\ mem[j].nm # 0 } }

NoDup(s) == \A i, j \in DOMAIN s : s[i] = s[j] => i = j

\* the definition: which clauses of C35 one observed reply violates
RunClauses(v, r) ==
  (IF v.via = "node" /\ r.direct # 1 THEN {"C35_one_direct_reply"} ELSE {})
  \cup (IF Len(r.relays) > v.k THEN {"C35_more_than_k_relays"} ELSE {})
  \cup (IF ~NoDup(r.relays) THEN {"C35_relays_not_distinct"} ELSE {})
  \cup (IF \E i \in DOMAIN r.relays : r.relays[i] = 0 THEN {"C35_relayed_through_itself"} ELSE {})
  \cup (IF \E i \in DOMAIN r.relays : r.relays[i] # 0 /\ r.relays[i] \notin EligibleNames(v.mem)
        THEN {"C35_relay_not_eligible"} ELSE {})
  \cup (IF v.via = "node" /\ Known(v) < v.k + 1 /\ Len(r.relays) > 0 THEN {"C35_relayed_with_too_few_members"} ELSE {})

Clauses(v, o) == UNION { RunClauses(v, o.runs[i]) : i \in DOMAIN o.runs }

MonStep(m, v, o) == [m EXCEPT !.bad = @ \cup Clauses(v, o)]
MonInit == [bad |-> {}]
TagsOf(v) == {v.via}

------------------------------------------------------------------------------
(* The model of the code: every duplicate-free sequence of eligible names of  *)
(* length <= k is a possible outcome (the 3n random probes may come up short);*)
(* relayResponse sends nothing when k = 0 or the node knows fewer than k+1    *)
(* members.                                                                   *)
RECURSIVE Arr(_, _)
Arr(S, n) == IF n = 0 THEN { <<>> }
             ELSE LET P == Arr(S, n - 1)
                  IN  P \cup { Append(p, x) : p \in { q \in P : Len(q) = n - 1 }, x \in S }
Min(a, b) == IF a < b THEN a ELSE b
Outcomes(v) ==
  IF v.via = "node" /\ (v.k = 0 \/ Known(v) < v.k + 1) THEN { <<>> }
  ELSE LET E == EligibleNames(v.mem)
       IN  { s \in Arr(E, Min(v.k, Cardinality(E))) : NoDup(s) }   \* k may be as large as 255

PossibleIn(oc, v, r) == r.relays \in oc /\ (v.via = "node" => r.direct = 1) /\ (v.via = "pick" => r.direct = 0)
Possible(v, r) == PossibleIn(Outcomes(v), v, r)

------------------------------------------------------------------------------
(* Vector domain: member kinds are (status, protocol max); a table is a       *)
(* non-decreasing sequence of kinds (names are interchangeable).              *)
Kinds == { <<st, pm>> : st \in 1..4, pm \in {4, 5} }
KLess(a, b) == a[1] < b[1] \/ (a[1] = b[1] /\ a[2] <= b[2])
SortedKindSeqs(n) == { s \in [1..n -> Kinds] : \A i \in 1..(n - 1) : KLess(s[i], s[i + 1]) }

NodeTables == UNION { { [i \in 1..n |-> [nm |-> i, st |-> s[i][1], pm |-> s[i][2]]] : s \in SortedKindSeqs(n) } : n \in 0..NM }

\* pick path: names 0..2 (0 = self), so that repeats are frequent; kinds restricted to the
\* interesting ones (alive+capable, alive+old protocol, failed+capable)
PKinds == { <<1, 5>>, <<1, 4>>, <<4, 5>> }
PickTables == UNION { { [i \in 1..n |-> [nm |-> s[i][1], st |-> s[i][2][1], pm |-> s[i][2][2]]] :
                          s \in [1..n -> ((0..2) \X PKinds)] } : n \in 0..NP }

\* The relay factor is a uint8 on the wire (messageQuery.RelayFactor, QueryParam.RelayFactor): besides the
\* small values that straddle the member count (k = members-1, members, members+1 all occur for tables of
\* 0..NM members) the boundary classes of the type are enumerated: 127/128 (sign bit), 254, 255 (maximum;
\* k+1 does not fit the type).
NodeKs == (0..5) \cup {127, 128, 254, 255}
PickKs == (0..3) \cup {255}
Vectors == { [a |-> "relay", via |-> "node", k |-> k, mem |-> t] : k \in NodeKs, t \in NodeTables }
           \cup { [a |-> "relay", via |-> "pick", k |-> k, mem |-> t] : k \in PickKs, t \in PickTables }

Do(v, o) ==
  /\ last.a = "init"
  /\ out' = o
  /\ last' = v
  /\ steps' = steps + 1
  /\ M' = MonStep(M, v, o)

Init == last = [a |-> "init"] /\ out = 0 /\ steps = 0 /\ M = MonInit
\* the model's own runs: Runs replies, each any possible outcome
Next == last.a = "init" /\ \E v \in Vectors :
          \E rs \in [1..Runs -> { [direct |-> IF v.via = "node" THEN 1 ELSE 0, relays |-> s] : s \in Outcomes(v) }] :
             Do(v, [runs |-> rs])
Spec == Init /\ [][Next]_vars

C35 == M.bad = {}
=============================================================================
