---------------------------- MODULE SerfCluster ----------------------------
(* NN Serf nodes (names 0..NN-1), each a replica record of SerfHandlers, with    *)
(* memberlist and the network as the environment:                                *)
(*   pool     every gossip message ever broadcast; any running node may receive  *)
(*            any of them at any time, any number of times, or never             *)
(*            (= arbitrary reordering, duplication and loss at no state cost)    *)
(*   linked[n] nodes whose memberlists have been connected to n's (by joins)     *)
(*   ml[n]    the nodes memberlist currently reports alive to n                  *)
(*   push/pull merges happen between any two running linked nodes at any time,   *)
(*            one direction per action, with the sender's CURRENT LocalState     *)
(* Run phase: lifecycle operations (join, leave, force-leave, crash/shutdown)    *)
(* interleaved with deliveries, merges and up/down notifications in causal       *)
(* order (plus a bounded number of spurious failure detections).  Sync phase:    *)
(* no new operations, notifications tell the truth.                              *)
(*                                                                              *)
(* Serf.Leave: with an alive peer the call blocks after queueing the leave until *)
(* the broadcast went out (leave1 ... leave2); without one it runs straight      *)
(* through (leave).  SplitAlways = TRUE explores the split in both cases.        *)
(*                                                                              *)
(* C02 (agreement clause): in every quiet sync state -- no delivery, merge or     *)
(* truthful notification changes any view -- every running, not-leaving replica  *)
(* that lists x reports Expected(x).  G is the ground truth of operations issued.*)
EXTENDS SerfHandlers, SequencesExt

CONSTANTS MaxOps,        \* lifecycle operations in the run phase
          MaxClock,      \* state constraint on Lamport clocks
          MaxSpurious,   \* spurious failure detections
          Formed,        \* TRUE: start from a formed cluster; FALSE: from isolated nodes (joins are ops)
          SplitAlways    \* TRUE: Leave is always two steps (design level); FALSE: as the real call behaves

VARIABLES R, up, ml, linked, pool, G, phase, ops, spur, last, obs, M

vars == <<R, up, ml, linked, pool, G, phase, ops, spur, last, obs, M>>

Nodes == Names

\* LocalState of a replica as the push/pull record of SerfHandlers!Merge
PPOf(r) == [ lt  |-> r.clock, lo |-> r.leftL,
             ent |-> [x \in Names |-> [ p    |-> IF r.mem[x].st # 0 THEN 1 ELSE 0,
                                        lt   |-> IF r.mem[x].st # 0 THEN r.mem[x].lt ELSE 0,
                                        left |-> IF \E i \in DOMAIN r.leftL : r.leftL[i] = x THEN 1 ELSE 0 ]] ]

SeqSet(s) == { s[i] : i \in DOMAIN s }

FormedReplica(n) ==
  [ self |-> n, sstate |-> 0, clock |-> 2,
    mem |-> [x \in Names |-> [st |-> 1, lt |-> 1]],
    failedL |-> <<>>, leftL |-> <<>>, intents |-> [x \in Names |-> NoInt] ]

NoG == [join |-> 0, leave |-> -1, sil |-> -1]

------------------------------------------------------------------------------
(* Observation of the whole cluster: what the harness reads from every node.    *)
ObsNode(r, isup) ==
  [ up |-> isup, clock |-> r.clock, sstate |-> r.sstate,
    mem |-> [i \in 1..NN |-> r.mem[i - 1]],
    failed |-> r.failedL, left |-> r.leftL,
    intents |-> [i \in 1..NN |-> r.intents[i - 1]] ]
MsgLess(a, b) ==
  \/ a[1] < b[1]
  \/ a[1] = b[1] /\ a[2] < b[2]
  \/ a[1] = b[1] /\ a[2] = b[2] /\ a[3] < b[3]
  \/ a[1] = b[1] /\ a[2] = b[2] /\ a[3] = b[3] /\ a[4] < b[4]
\* nodes: per-node projection; q: what was handed out of the acting nodes' broadcast queues in this step
ObsOf(rs, u, q) == [nodes |-> [i \in 1..NN |-> ObsNode(rs[i - 1], u[i - 1])], q |-> SortSeq(q, MsgLess)]

------------------------------------------------------------------------------
(* Ground truth and the agreement clause, over observed views only.             *)
\* o = observed nodes, g = ground truth [x -> [join, leave]]
Running(o, x) == o[x + 1].up /\ o[x + 1].sstate < 2
Expected(o, g, x) ==
  IF o[x + 1].up /\ o[x + 1].sstate = 0 THEN {1}
  ELSE IF o[x + 1].up /\ o[x + 1].sstate = 1 THEN {1, 2}
  ELSE IF g[x].leave > g[x].join THEN {3}
  ELSE IF g[x].sil > g[x].join THEN {3, 4}      \* left silently (no alive peer known): others may or may not learn of it
  ELSE {4}

Viewer(o, n) == o[n + 1].up /\ o[n + 1].sstate = 0        \* running members that have not begun leaving
Disagreements(o, g) ==
  { <<n, x>> \in Nodes \X Nodes :
       /\ Viewer(o, n)
       /\ o[n + 1].mem[x + 1].st # 0
       /\ o[n + 1].mem[x + 1].st \notin Expected(o, g, x) }
\* When undelivered gossip may be lost for good, a leave can only be known if it reached some member that is
\* still running: then state sync must spread it to every viewer; otherwise "failed" is all anyone can know.
ExpectedSync(o, g, x) ==
  IF Expected(o, g, x) = {3} /\ ~(\E v \in Nodes : Viewer(o, v) /\ o[v + 1].mem[x + 1].st \in {2, 3})
    THEN {3, 4} ELSE Expected(o, g, x)
DisagreementsSync(o, g) ==
  { <<n, x>> \in Nodes \X Nodes :
       /\ Viewer(o, n)
       /\ o[n + 1].mem[x + 1].st # 0
       /\ o[n + 1].mem[x + 1].st \notin ExpectedSync(o, g, x) }

\* fl: force-leave claims <<x, time>> aimed at a running member that have not reached it (yet); flx: members ever
\* force-left while running.  The recorded finding "forceleave_of_running_member" covers exactly: a claim that never
\* reached its target (it cannot be refuted), a target that went down after being claimed (the refutation may have
\* died with it) and a claimed target spuriously declared dead while running.  A claim that reached its running target must be refuted and the views must converge.
MonInit == M = [bad |-> {}, tags |-> {}, fl |-> {}, flx |-> {}, dis |-> {}, g |-> [x \in Nodes |-> IF Formed THEN [join |-> 1, leave |-> -1, sil |-> -1] ELSE NoG]]

\* act = action record; pre/post = observed nodes before/after; g = ground truth after the step
MonStep(m, act, pre, post, g) ==
  LET g0 == m.g
      mono == \A n \in Nodes, x \in Names :
                (pre[n + 1].up /\ post[n + 1].up /\ pre[n + 1].mem[x + 1].st # 0 /\ post[n + 1].mem[x + 1].st # 0)
                   => post[n + 1].mem[x + 1].lt >= pre[n + 1].mem[x + 1].lt
      selfAlive == \A n \in Nodes : (post[n + 1].up /\ post[n + 1].sstate = 0) => post[n + 1].mem[n + 1].st = 1
      dis == IF act.a = "quiet" THEN Disagreements(post, g)
             ELSE IF act.a = "synced" THEN DisagreementsSync(post, g) ELSE {}
      flx2 == IF act.a = "forceleave" /\ Running(pre, act.x) THEN m.flx \cup {act.x} ELSE m.flx
      fl2 == IF act.a = "forceleave" /\ Running(pre, act.x) THEN m.fl \cup {<<act.x, pre[act.n + 1].clock>>}
             ELSE IF act.a = "deliver" /\ act.ty = 2 /\ act.x = act.n /\ pre[act.n + 1].sstate = 0
                     /\ act.lt > pre[act.n + 1].mem[act.n + 1].lt
                    THEN m.fl \ {<<act.x, act.lt>>}
             ELSE m.fl
      \* a state sync copied a member's "leaving at t" entry as a plain status time: the receiver now
      \* holds time t for a member it still lists alive (or failed), so the leave intent at t itself will be stale
      laundered(n, mm) ==
        \E x \in Names : /\ pre[mm + 1].mem[x + 1].st = 2
                         /\ post[n + 1].mem[x + 1].st \in {1, 4}
                         /\ post[n + 1].mem[x + 1].lt = pre[mm + 1].mem[x + 1].lt
                         /\ pre[n + 1].mem[x + 1].lt < post[n + 1].mem[x + 1].lt
      newtags ==
        (IF act.a \in {"crash", "leave", "leave1", "leave2"} /\ act.n \in m.flx THEN {"forceleave_of_running_member"} ELSE {})
        \* ... is listed "left" somewhere while still running (declared dead by a failure detector before or after the
        \* claim): "left" travels on by state sync one past its time, where the refutation may not be newer any more
        \cup (IF \E x \in flx2, n \in Nodes : Running(post, x) /\ post[n + 1].up /\ post[n + 1].mem[x + 1].st = 3
                THEN {"forceleave_of_running_member"} ELSE {})
        \* the issuer had not witnessed the target's latest join: the claim's time is not above it
        \cup (IF act.a = "forceleave" /\ pre[act.n + 1].clock <= g0[act.x].join THEN {"forceleave_time_not_above_join"} ELSE {})
        \* memberlist reports a member alive again (flap) after a leave intent newer than its join was applied:
        \* handleNodeJoin resets the status to alive and the leave is forgotten
        \cup (IF act.a = "mljoin" /\ pre[act.n + 1].mem[act.x + 1].st \in {2, 3}
                  /\ g0[act.x].join < pre[act.n + 1].mem[act.x + 1].lt THEN {"alive_again_after_leave_intent"} ELSE {})
        \cup (IF act.a = "pushpull" /\ laundered(act.n, act.m) THEN {"leaving_laundered_by_pushpull"} ELSE {})
        \cup (IF act.a = "join" /\ (laundered(act.n, act.m) \/ laundered(act.m, act.n)) THEN {"leaving_laundered_by_pushpull"} ELSE {})
  IN  [ bad  |-> m.bad \cup (IF mono THEN {} ELSE {"C02_status_time_decreased"})
                       \cup (IF selfAlive THEN {} ELSE {"C03_self_not_alive"})
                       \cup (IF dis # {} /\ act.a = "quiet" THEN {"C02_views_disagree_when_quiet"} ELSE {})
                       \cup (IF dis # {} /\ act.a = "synced" THEN {"C02_views_disagree_after_sync"} ELSE {}),
        tags |-> m.tags \cup newtags
                  \cup (IF fl2 # {} /\ act.a \in {"quiet", "synced"} THEN {"forceleave_of_running_member"} ELSE {}),
        fl   |-> fl2,
        flx  |-> flx2,
        dis  |-> dis,
        g    |-> g ]

------------------------------------------------------------------------------
(* Ground-truth bookkeeping from action records and queued messages (also used  *)
(* by the trace specification, from logged data).                               *)
Bump(g, x, field, v) == IF field = "join" THEN [g EXCEPT ![x].join = IF v > @ THEN v ELSE @]
                                           ELSE [g EXCEPT ![x].leave = IF v > @ THEN v ELSE @]
\* joins queued by refutations / broadcastJoin raise the join time of their node; leave and
\* force-leave operations raise the leave time with the issuer's clock before the call
RECURSIVE BumpJoins(_, _)
BumpJoins(g, q) == IF q = <<>> THEN g
                   ELSE BumpJoins(IF Head(q)[1] = 1 THEN Bump(g, Head(q)[2], "join", Head(q)[3]) ELSE g, Tail(q))
GAfter(g, act, pre, q) ==
  LET g1 == IF act.a = "forceleave" THEN Bump(g, act.x, "leave", pre[act.n + 1].clock)
            \* a graceful leave counts once its intent was actually handed to the network; a node that believes
            \* it has no alive peer leaves silently (hasAliveMembers) and is indistinguishable from a failure
            ELSE IF act.a \in {"leave", "leave1"}
                   THEN IF \E i \in DOMAIN q : q[i] = <<2, act.n, pre[act.n + 1].clock, 0>>
                          THEN Bump(g, act.n, "leave", pre[act.n + 1].clock)
                          ELSE [g EXCEPT ![act.n].sil = pre[act.n + 1].clock]
            ELSE g
  IN  BumpJoins(g1, q)

------------------------------------------------------------------------------
\* q: messages that enter the pool in this step; qo: messages seen leaving the queues in this step
\* (they differ only for Serf.Leave, whose leave intent is queued in leave1 and handed out in leave2)
PublishQ(R2, q, qo, act, up2, ml2, lk2, isop, sp) ==
  /\ R' = R2 /\ up' = up2 /\ ml' = ml2 /\ linked' = lk2
  /\ pool' = pool \cup SeqSet(q)
  /\ G' = GAfter(G, act, obs.nodes, q)
  /\ ops' = IF isop THEN ops + 1 ELSE ops
  /\ spur' = sp
  /\ last' = act
  /\ obs' = ObsOf(R2, up2, qo)
  /\ M' = MonStep(M, act, obs.nodes, ObsOf(R2, up2, qo).nodes, GAfter(G, act, obs.nodes, q))
  /\ UNCHANGED phase
Publish(R2, q, act, up2, ml2, lk2, isop, sp) == PublishQ(R2, q, q, act, up2, ml2, lk2, isop, sp)

One(n, res0, act, up2, ml2, isop, sp) ==
  LET res == RunRefutes(res0) IN
  Publish([R EXCEPT ![n] = res.r], res.q, [act EXCEPT !.w = Len(res0.ref)], up2, ml2, linked, isop, sp)

\* while a node is blocked inside Serf.Leave the harness cannot hand it anything without releasing the call
Free(n) == R[n].sstate # 1 \/ SplitAlways

Deliver(n, m) ==
  /\ up[n] /\ m \in pool /\ Free(n)
  /\ LET h == IF m[1] = 1 THEN HJoinIntent(R[n], m[2], m[3]) ELSE HLeaveIntent(R[n], m[2], m[3], m[4]) IN
     One(n, [h EXCEPT !.q = IF h.rb THEN <<m>> ELSE <<>>],
         [a |-> "deliver", n |-> n, ty |-> m[1], x |-> m[2], lt |-> m[3], prune |-> m[4], w |-> 0], up, ml, FALSE, spur)

PushPull(n, m) ==          \* n merges m's current LocalState
  /\ n # m /\ up[n] /\ up[m] /\ m \in linked[n] /\ Free(n)
  /\ One(n, Merge(R[n], PPOf(R[m])), [a |-> "pushpull", n |-> n, m |-> m, w |-> 0], up, ml, FALSE, spur)

Truthful(x) == up[x] /\ R[x].sstate < 2
MLJoin(n, x) ==
  /\ n # x /\ up[n] /\ x \notin ml[n] /\ Truthful(x) /\ x \in linked[n] /\ Free(n)
  /\ One(n, HNodeJoin(R[n], x), [a |-> "mljoin", n |-> n, x |-> x, w |-> 0], up, [ml EXCEPT ![n] = @ \cup {x}], FALSE, spur)
MLLeave(n, x) ==
  /\ n # x /\ up[n] /\ x \in ml[n] /\ Free(n)
  /\ \/ ~Truthful(x) /\ One(n, HNodeLeave(R[n], x), [a |-> "mlleave", n |-> n, x |-> x, w |-> 0], up, [ml EXCEPT ![n] = @ \ {x}], FALSE, spur)
     \/ /\ Truthful(x) /\ phase = "run" /\ spur < MaxSpurious
        /\ One(n, HNodeLeave(R[n], x), [a |-> "mlleave", n |-> n, x |-> x, w |-> 0], up, [ml EXCEPT ![n] = @ \ {x}], FALSE, spur + 1)

OpForceLeave(n, x, prune) ==
  /\ up[n] /\ R[n].sstate = 0
  /\ One(n, ForceLeave(R[n], x, prune), [a |-> "forceleave", n |-> n, x |-> x, prune |-> prune, w |-> 0], up, ml, TRUE, spur)

\* Serf.Leave.  First half: state, local intent, queue the leave if somebody is alive.
LeaveFirst(n) ==
  LET lt == R[n].clock
      r1 == [R[n] EXCEPT !.sstate = 1, !.clock = @ + 1]
      h  == HLeaveIntent(r1, n, lt, 0)
  IN  [r |-> h.r, ev |-> h.ev, q |-> IF HasAlive(h.r) THEN << <<2, n, lt, 0>> >> ELSE <<>>]
\* Second half: memberlist.Leave reports the local node dead locally, state becomes left.
LeaveSecond(r) == LET h == HNodeLeave(r, r.self) IN [h.r EXCEPT !.sstate = 2]

OpLeaveA(n) ==        \* blocks after queueing (the message is handed out when the call is released: leave2)
  /\ up[n] /\ R[n].sstate = 0
  /\ LeaveFirst(n).q # <<>> \/ SplitAlways
  /\ PublishQ([R EXCEPT ![n] = LeaveFirst(n).r], LeaveFirst(n).q, <<>>, [a |-> "leave1", n |-> n], up, ml, linked, TRUE, spur)
OpLeaveB(n) ==
  /\ up[n] /\ R[n].sstate = 1
  /\ PublishQ([R EXCEPT ![n] = LeaveSecond(R[n])], <<>>,
              IF <<2, n, R[n].mem[n].lt, 0>> \in pool THEN << <<2, n, R[n].mem[n].lt, 0>> >> ELSE <<>>,
              [a |-> "leave2", n |-> n], up, ml, linked, FALSE, spur)
OpLeave(n) ==         \* nobody alive: the call does not block anywhere
  /\ up[n] /\ R[n].sstate = 0 /\ ~SplitAlways
  /\ LeaveFirst(n).q = <<>>
  /\ Publish([R EXCEPT ![n] = LeaveSecond(LeaveFirst(n).r)], <<>>, [a |-> "leave", n |-> n], up, ml, linked, TRUE, spur)

OpCrash(n) ==            \* process death, or Shutdown (with or without a completed leave)
  /\ up[n] /\ (R[n].sstate # 1 \/ SplitAlways)
  /\ Publish(R, <<>>, [a |-> "crash", n |-> n], [up EXCEPT ![n] = FALSE], ml, linked, TRUE, spur)

\* Serf.Join of n to m (both running, memberlists not yet connected): memberlist exchanges state both
\* ways (each side sends its pre-merge state; memberlist reports the new node before serf merges the
\* user state), then n broadcasts its join intent.
JoinEffect(RR, n, m, act, upx, mlx) ==
  LET jn == Then(HNodeJoin(RR[n], m), Merge(HNodeJoin(RR[n], m).r, PPOf(RR[m])))
      jm == RunRefutes(Then(HNodeJoin(RR[m], n), Merge(HNodeJoin(RR[m], n).r, PPOf(RR[n]))))
      rn == RunRefutes(Then(jn, BroadcastJoin(jn.r, jn.r.clock)))
      grp == linked[n] \cup linked[m] \cup {n, m}
  IN  Publish([RR EXCEPT ![n] = rn.r, ![m] = jm.r], rn.q \o jm.q, act,
              upx, [mlx EXCEPT ![n] = @ \cup {m}, ![m] = @ \cup {n}],
              [x \in Nodes |-> IF x \in grp THEN grp \ {x} ELSE linked[x]], TRUE, spur)
OpJoin(n, m) ==
  /\ n # m /\ up[n] /\ up[m] /\ R[n].sstate = 0 /\ R[m].sstate = 0 /\ m \notin linked[n]
  /\ JoinEffect(R, n, m, [a |-> "join", n |-> n, m |-> m], up, ml)

\* A node that went down (crash, or shutdown after a leave) is started again under the same name and address
\* with empty state (no snapshot: its Lamport clock starts over) and joins a running peer at once, as an agent
\* configured with a join address does.  Its old peers keep what they knew until then.
OpRejoin(n, m) ==
  /\ n # m /\ ~up[n] /\ up[m] /\ R[m].sstate = 0
  \* only after a plain crash: without a snapshot the restarted node's Lamport clock starts over, so leave or
  \* force-leave claims about its previous life (times it can now reuse) may legitimately still apply to it;
  \* that is what snapshots are for (C10, C13, C14)
  /\ G[n].leave = -1 /\ G[n].sil = -1
  /\ JoinEffect([R EXCEPT ![n] = NewReplica(n)], n, m, [a |-> "rejoin", n |-> n, m |-> m],
                [up EXCEPT ![n] = TRUE], [ml EXCEPT ![n] = {}])

BeginSync ==
  /\ phase = "run" /\ phase' = "sync"
  /\ last' = [a |-> "sync"]
  /\ UNCHANGED <<R, up, ml, linked, pool, G, ops, spur, obs, M>>

\* Quiet: no delivery, merge or truthful notification would change any view or queue anything
\* (status times keep growing: two nodes that both list x as left raise x's time by one on every exchange,
\*  so quiescence is about statuses, lists and queues, not about times and clocks)
View(r) == [st |-> [x \in Names |-> r.mem[x].st], failed |-> SeqSet(r.failedL), left |-> SeqSet(r.leftL), ss |-> r.sstate]
NoChange(n, res) == View(RunRefutes(res).r) = View(R[n]) /\ RunRefutes(res).q = <<>>
Quiet ==
  /\ phase = "sync"
  /\ \A n \in Nodes : up[n] =>
       /\ R[n].sstate # 1
       /\ \A m \in pool : NoChange(n, [(IF m[1] = 1 THEN HJoinIntent(R[n], m[2], m[3]) ELSE HLeaveIntent(R[n], m[2], m[3], m[4])) EXCEPT !.q = <<>>])
       /\ \A m \in Nodes : (m # n /\ up[m] /\ m \in linked[n]) => NoChange(n, Merge(R[n], PPOf(R[m])))
       /\ \A x \in linked[n] : (x \in ml[n]) <=> Truthful(x)

\* Synced: every gossip message still undelivered may be lost for good; state-sync exchanges (and truthful
\* notifications) alone have been run to a fixpoint.  The property promises agreement here too.
Synced ==
  /\ phase = "sync"
  /\ \A n \in Nodes : up[n] =>
       /\ R[n].sstate # 1
       /\ \A m \in Nodes : (m # n /\ up[m] /\ m \in linked[n]) => NoChange(n, Merge(R[n], PPOf(R[m])))
       /\ \A x \in linked[n] : (x \in ml[n]) <=> Truthful(x)
DeclareSynced ==
  /\ Synced /\ last.a \notin {"quiet", "synced"}
  /\ last' = [a |-> "synced"]
  /\ obs' = [obs EXCEPT !.q = <<>>]
  /\ M' = MonStep(M, [a |-> "synced"], obs.nodes, obs.nodes, G)
  /\ UNCHANGED <<R, up, ml, linked, pool, G, phase, ops, spur>>

\* the harness's "quiet" line: judged by the monitor
DeclareQuiet ==
  /\ Quiet /\ last.a # "quiet"
  /\ last' = [a |-> "quiet"]
  /\ obs' = [obs EXCEPT !.q = <<>>]
  /\ M' = MonStep(M, [a |-> "quiet"], obs.nodes, obs.nodes, G)
  /\ UNCHANGED <<R, up, ml, linked, pool, G, phase, ops, spur>>

InitR == [n \in Nodes |-> IF Formed THEN FormedReplica(n) ELSE NewReplica(n)]
Init ==
  /\ R = InitR
  /\ up = [n \in Nodes |-> TRUE]
  /\ ml = [n \in Nodes |-> IF Formed THEN Nodes \ {n} ELSE {}]
  /\ linked = [n \in Nodes |-> IF Formed THEN Nodes \ {n} ELSE {}]
  /\ pool = IF Formed THEN { <<1, x, 1, 0>> : x \in Nodes } ELSE {}
  /\ G = [x \in Nodes |-> IF Formed THEN [join |-> 1, leave |-> -1, sil |-> -1] ELSE NoG]
  /\ phase = "run" /\ ops = 0 /\ spur = 0
  /\ last = [a |-> "init"]
  /\ obs = ObsOf(InitR, [n \in Nodes |-> TRUE], <<>>)
  /\ MonInit

RunOps ==
  /\ phase = "run" /\ ops < MaxOps
  /\ \/ \E n, x \in Nodes, prune \in {0, 1} : OpForceLeave(n, x, prune)
     \/ \E n \in Nodes : OpLeaveA(n) \/ OpLeave(n) \/ OpCrash(n)
     \/ \E n, m \in Nodes : OpJoin(n, m)
     \/ \E n, m \in Nodes : OpRejoin(n, m)

Next ==
  \/ RunOps
  \/ \E n \in Nodes : OpLeaveB(n)
  \/ \E n \in Nodes, m \in pool : Deliver(n, m)
  \/ \E n, m \in Nodes : PushPull(n, m)
  \/ \E n, x \in Nodes : MLJoin(n, x) \/ MLLeave(n, x)
  \/ BeginSync
  \/ DeclareSynced
  \/ DeclareQuiet

Spec == Init /\ [][Next]_vars

ClockBound == \A n \in Nodes : R[n].clock <= MaxClock

\* the agreement clause with the recorded findings carved out
KnownTags == {"forceleave_of_running_member", "leaving_laundered_by_pushpull", "forceleave_time_not_above_join",
              "alive_again_after_leave_intent"}
C02Agreement == (M.bad \cap {"C02_views_disagree_when_quiet", "C02_views_disagree_after_sync"} # {}) => (M.tags \cap KnownTags # {})
C02Strict == M.bad \cap {"C02_views_disagree_when_quiet", "C02_views_disagree_after_sync"} = {}
StepClauses == "C02_status_time_decreased" \notin M.bad /\ "C03_self_not_alive" \notin M.bad
=============================================================================
