---------------------------- MODULE SerfEventOps ----------------------------
(* Constant-level operators shared by SerfEvents.tla (sequential) and           *)
(* SerfEventsConc.tla (concurrent originators): the time embedding and the       *)
(* handler of serf/serf.go handleUserEvent / handleQuery.                        *)
(*                                                                               *)
(* Times are 0..MAX with MAX standing for 2^64-1.  The harness maps t |-> t for  *)
(* t <= H = MAX \div 2 and t |-> 2^64-1-(MAX-t) above: monotone, commutes with   *)
(* +1 (including the wrap MAX+1 = 0) everywhere except between H and H+1.        *)
(* uint64 comparisons become comparisons of Pos(t); the slot index lt % b of the *)
(* real value is SlotIx(b, t) (2^64 is not a multiple of 3, so for b = 3 the     *)
(* residues of the upper values are shifted).                                    *)
EXTENDS Integers, Sequences, FiniteSets, TLC
CONSTANT MAX        \* largest time (stands for 2^64-1)

H == MAX \div 2
GAP == 100000
Pos(t) == IF t <= H THEN t ELSE t + GAP          \* order of the real uint64 values
Lt(a, b) == Pos(a) < Pos(b)
Wrap(x) == x % (MAX + 1)

T64(b) == LET p == 65536 % b IN (p * p * p * p) % b            \* 2^64 mod b
SlotIx(b, t) == IF t <= H THEN t % b ELSE (T64(b) + t + (b - 1) * (MAX + 1)) % b

Range(s) == { s[i] : i \in DOMAIN s }

------------------------------------------------------------------------------
(* The code, as operators.                                                      *)
\* LamportClock.Witness (serf/lamport.go): no-op if v < cur, else cur := v+1 (wraps at MAX)
Witness(c, v) == IF Lt(v, c) THEN c ELSE Wrap(v + 1)
\* "curTime > len(buffer) && lt < curTime - len(buffer)"
TooOld(b, c, lt) == Pos(c) > b /\ Pos(lt) < Pos(c) - b

NilSlot == [lt |-> -1, xs |-> <<>>]
EmptyBuf(b) == [i \in 0..(b - 1) |-> NilSlot]

\* handleUserEvent / handleQuery up to the point where the message is known to be new:
\* witness; min-time test; too-old test; slot lookup; duplicate test; append.
Handle(b, c, min, buf, lt, x) ==
  LET c1 == Witness(c, lt) IN
  IF Lt(lt, min) \/ TooOld(b, c1, lt) THEN [c |-> c1, buf |-> buf, new |-> FALSE]
  ELSE LET i == SlotIx(b, lt)
           s == buf[i] IN
       IF s.lt = lt /\ x \in Range(s.xs) THEN [c |-> c1, buf |-> buf, new |-> FALSE]
       ELSE [c |-> c1, new |-> TRUE,
             buf |-> [buf EXCEPT ![i] = IF s.lt = lt THEN [s EXCEPT !.xs = Append(@, x)]
                                                     ELSE [lt |-> lt, xs |-> <<x>>]]]
=============================================================================
