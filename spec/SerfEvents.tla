------------------------------ MODULE SerfEvents ------------------------------
(* User-event and query de-duplication of one Serf node (serf/serf.go:          *)
(* handleUserEvent, handleQuery, UserEvent, Query; serf/delegate.go: NotifyMsg,  *)
(* MergeRemoteState events part; serf.Create's restore of clocks and minimum     *)
(* times from the snapshot).  Sequential model: one call at a time (the          *)
(* concurrent originators of C06 are in SerfEventsConc.tla, which reuses the     *)
(* handler operators of this module).                                            *)
(*                                                                               *)
(* Times are 0..MAX with MAX standing for 2^64-1.  The harness maps t |-> t for  *)
(* t <= MAX \div 2 and t |-> 2^64-1-(MAX-t) above.  The map is monotone and       *)
(* commutes with +1 (including the wrap MAX+1 = 0) everywhere except between      *)
(* H = MAX \div 2 and H+1, so the constants are chosen such that no clock can     *)
(* cross that point (ASSUME below).  uint64 comparisons become comparisons of     *)
(* Pos(t); the slot index lt % B of the real value is SlotIx(t) (2^64 is not a    *)
(* multiple of 3, so for B = 3 the residues of the upper values are shifted).     *)
(*                                                                               *)
(* The model says what the code DOES (including the wrap of the Lamport clock at  *)
(* 2^64-1, finding C19-wrap-at-max); properties are monitors over the action      *)
(* record and the observation (Obs records) only.                                *)
EXTENDS SerfEventOps

CONSTANTS Snaps,      \* subset of {0, 1}: node without / with Config.SnapshotPath, chosen at Init (field N.snap)
          Bs,         \* Config.EventBuffer sizes, chosen at Init (field N.b)
          BQs,        \* Config.QueryBuffer sizes, chosen independently at Init (field N.bq): the event window is judged
                      \* against the event ring and the query window against the query ring
          LowT, HighT,\* Lamport times carried by incoming messages
          NC,         \* event contents 1..NC (a <<name, payload>> pair each)
          QIds,       \* query ids of incoming queries (small ints; local queries get 100, 101, ..)
          Kinds,      \* enabled inputs: subset of {"ev","qry","merge","join","uev","lq","restart"}
          PPSlots,    \* push/pull: at most this many buffer slots ...
          PPK,        \* ... with at most this many events each
          LocalMax,   \* at most this many local UserEvent/Query calls per behaviour
          MaxSteps

MsgT == LowT \cup HighT

ASSUME /\ \A b \in Bs \cup BQs : b \in 1..4 /\ b < H
       /\ \A t \in LowT : t >= 0 /\ t + 2 + LocalMax < H        \* clocks that start low stay below H
       /\ \A t \in HighT : t <= MAX /\ t - 2 > H                \* EventLTime-1 stays in the upper part

\* node: event clock / min time / buffer, the same for queries, what the snapshot file records
\* (se, sq: newest event / query time recorded, -1 none; seh, sqh: the values it went through since
\* the last restart -- a crash may lose a suffix), counters of local calls
\* With a SnapshotPath serf.Create sets both minimum times to (recorded time, 0 if none) + 1, also on the very
\* first start; without one they stay 0.
NewNode(b, bq, sn) ==
           [b |-> b, bq |-> bq, snap |-> sn, ec |-> 1, emin |-> sn, ebuf |-> EmptyBuf(b), qc |-> 1, qmin |-> sn, qbuf |-> EmptyBuf(bq),
            se |-> -1, sq |-> -1, seh |-> {-1}, sqh |-> {-1}, nlq |-> 0, nloc |-> 0]

\* Snapshotter.processUserEvent / processQuery: "if e.LTime <= last then ignore" (last starts at 0)
Rec(s, lt) == IF lt > 0 /\ Lt(s, lt) THEN lt ELSE s
RECURSIVE Record(_, _)
Record(n, dl) ==
  IF dl = <<>> THEN n
  ELSE LET d == Head(dl) IN
       Record(IF d[1] = 1 THEN [n EXCEPT !.se = Rec(@, d[2]), !.seh = @ \cup {Rec(n.se, d[2])}]
                          ELSE [n EXCEPT !.sq = Rec(@, d[2]), !.sqh = @ \cup {Rec(n.sq, d[2])}], Tail(dl))

\* result of a call: node, deliveries <<kind, lt, id>> in order (kind 1 user event, 2 query), queued broadcasts
Res(n, dl, rb) == [n |-> Record(n, dl), dl |-> dl, rb |-> rb]

EvStep(n, lt, k) ==                         \* NotifyMsg(messageUserEvent)
  LET h == Handle(n.b, n.ec, n.emin, n.ebuf, lt, k)
      o == IF h.new THEN << <<1, lt, k>> >> ELSE <<>> IN
  Res([n EXCEPT !.ec = h.c, !.ebuf = h.buf], o, o)

QryStep(n, lt, id, nb, flt) ==              \* NotifyMsg(messageQuery); nb = no-broadcast flag, flt = filtered out
  LET h == Handle(n.bq, n.qc, n.qmin, n.qbuf, lt, id) IN
  Res([n EXCEPT !.qc = h.c, !.qbuf = h.buf],
      IF h.new /\ flt = 0 THEN << <<2, lt, id>> >> ELSE <<>>,
      IF h.new /\ nb = 0 THEN << <<2, lt, id>> >> ELSE <<>>)

RECURSIVE Flat(_)
Flat(evs) ==                                \* sequence of slots [lt, ks] -> sequence of <<lt, k>>
  IF evs = <<>> THEN <<>>
  ELSE [i \in 1..Len(Head(evs).ks) |-> <<Head(evs).lt, Head(evs).ks[i]>>] \o Flat(Tail(evs))

RECURSIVE Replay(_, _, _)
Replay(n, es, dl) ==                        \* handleUserEvent for each, result ignored (no re-broadcast)
  IF es = <<>> THEN [n |-> n, dl |-> dl]
  ELSE LET h == Handle(n.b, n.ec, n.emin, n.ebuf, Head(es)[1], Head(es)[2]) IN
       Replay([n EXCEPT !.ec = h.c, !.ebuf = h.buf], Tail(es),
              IF h.new THEN Append(dl, <<1, Head(es)[1], Head(es)[2]>>) ELSE dl)

MergeStep(n, pp, join, ign) ==              \* MergeRemoteState, events part; ign = eventJoinIgnore
  LET n1 == [n EXCEPT !.ec = IF pp.elt > 0 THEN Witness(@, pp.elt - 1) ELSE @,
                      !.qc = IF pp.qlt > 0 THEN Witness(@, pp.qlt - 1) ELSE @,
                      !.emin = IF join = 1 /\ ign = 1 /\ Lt(@, pp.elt) THEN pp.elt ELSE @]
      r == Replay(n1, Flat(pp.evs), <<>>) IN
  Res(r.n, r.dl, <<>>)

UevStep(n, k) ==                            \* Serf.UserEvent: lt := Increment() - 1 (one step), handled, queued
  LET lt == n.ec
      n1 == [n EXCEPT !.ec = Wrap(@ + 1), !.nloc = @ + 1]
      h == Handle(n.b, n1.ec, n1.emin, n1.ebuf, lt, k) IN
  Res([n1 EXCEPT !.ec = h.c, !.ebuf = h.buf],
      IF h.new THEN << <<1, lt, k>> >> ELSE <<>>, << <<1, lt, k>> >>)

LqStep(n) ==                                \* Serf.Query: lt := Increment() - 1 (one step), handled, queued
  LET lt == n.qc
      id == 100 + n.nlq
      h == Handle(n.bq, Wrap(n.qc + 1), n.qmin, n.qbuf, lt, id) IN
  Res([n EXCEPT !.qc = h.c, !.qbuf = h.buf, !.nlq = @ + 1, !.nloc = @ + 1],
      IF h.new THEN << <<2, lt, id>> >> ELSE <<>>, << <<2, lt, id>> >>)

\* serf.Create on a snapshot that recorded re / rq (-1: nothing recorded = 0 for the code)
RestartStep(n, re, rq) ==
  LET e0 == IF re < 0 THEN 0 ELSE re
      q0 == IF rq < 0 THEN 0 ELSE rq IN
  [n |-> [b |-> n.b, bq |-> n.bq, snap |-> n.snap, ec |-> Witness(1, e0), emin |-> Wrap(e0 + 1), ebuf |-> EmptyBuf(n.b),
          qc |-> Witness(1, q0), qmin |-> Wrap(q0 + 1), qbuf |-> EmptyBuf(n.bq),
          se |-> re, sq |-> rq, seh |-> {re}, sqh |-> {rq}, nlq |-> n.nlq, nloc |-> n.nloc],
   dl |-> <<>>, rb |-> <<>>]

------------------------------------------------------------------------------
VARIABLES N,      \* the node
          rst,    \* <<re, rq>> recorded values the last restart started from (-1, -1 before any)
          obs,    \* observation of the last step
          last, steps,
          M       \* monitor state

vars == <<N, rst, obs, last, steps, M>>

ObsOf(n, dl, rb, r) ==
  [ ec |-> n.ec, emin |-> n.emin, ebuf |-> [i \in 1..n.b |-> n.ebuf[i - 1]],
    qc |-> n.qc, qmin |-> n.qmin, qbuf |-> [i \in 1..n.bq |-> n.qbuf[i - 1]],
    ji |-> 0,      \* eventJoinIgnore as read after the call: only ever true inside Serf.Join(ignoreOld = true)
    dl |-> dl, rb |-> rb, re |-> r[1], rq |-> r[2] ]

------------------------------------------------------------------------------
(* Monitors.  m = monitor state, act = action record, pre / post = observations. *)
(* Only act, pre.ec/pre.qc (observed clocks), post.dl, post.rb, post.re/rq (read   *)
(* from the snapshot file at the restart) are used: logged inputs and outputs.    *)
Kind(k, s) == { e \in s : e[1] = k }
RecvOf(act, post) ==                        \* the messages this call handed to the node
  CASE act.a = "ev" -> { <<1, act.lt, act.k>> }
    [] act.a = "qry" -> { <<2, act.lt, act.id>> }
    [] act.a \in {"merge", "join"} -> { <<1, e[1], e[2]>> : e \in Range(Flat(act.evs)) }
    [] act.a \in {"uev", "lq"} -> Range(post.rb)
    [] OTHER -> {}

\* C05: at most once per node.  Reading: the history survives restarts as far as the snapshot recorded it.
TwiceIn(dl, k) == \E i, j \in DOMAIN dl : i < j /\ dl[i] = dl[j] /\ dl[i][1] = k
AtMostOnce(m, post, k) == /\ Kind(k, Range(post.dl)) \cap m.delv = {}
                          /\ ~TwiceIn(post.dl, k)
\* C05: first receipt, not older than the cut-off (restart: recorded time + 1; ignore-old join: the sender's
\* event clock), inside the window as of the observed clock before the call (gossip) resp. after it (state
\* sync: the clock only grows during the call, so this is the weakest reading) => delivered in this call.
CutAfter(m, act) ==
  IF act.a \in {"merge", "join"} /\ act.join = 1 /\ act.ign = 1 /\ Lt(m.cut, act.elt) THEN act.elt ELSE m.cut
FreshDelivered(m, act, pre, post) ==
  /\ act.a = "ev" =>
       LET e == <<1, act.lt, act.k>> IN
       (e \notin m.rcv /\ ~Lt(act.lt, m.cut) /\ ~TooOld(Len(pre.ebuf), pre.ec, act.lt)) => e \in Range(post.dl)
  /\ act.a \in {"merge", "join"} =>
       \A x \in Range(Flat(act.evs)) :
          LET e == <<1, x[1], x[2]>> IN
          (e \notin m.rcv /\ ~Lt(x[1], CutAfter(m, act)) /\ ~TooOld(Len(post.ebuf), post.ec, x[1])) => e \in Range(post.dl)

\* C04 (user events and queries): a given message is re-broadcast at most once (remembered until the node
\* restarts: at least as long as the retention window); state sync queues nothing; a call queues nothing
\* but the message it was given.
MsgOf(act) == IF act.a = "ev" THEN <<1, act.lt, act.k>> ELSE <<2, act.lt, act.id>>
RebroadcastOnce(m, act, post, a) ==
  (act.a = a /\ MsgOf(act) \in m.rbs) => MsgOf(act) \notin Range(post.rb)
MergeSilent(act, post) == act.a \in {"merge", "join"} => post.rb = <<>>   \* (join: user events / queries; the join intent is not listed)
OnlyEcho(act, post) == act.a \in {"ev", "qry"} => (Len(post.rb) <= 1 /\ Range(post.rb) \subseteq {MsgOf(act)})

\* C14: after a restart nothing at or below the newest recorded time is delivered.  "Recorded in the snapshot before
\* the restart": what the snapshot file holds when the new instance starts (read by the harness) and, for a graceful
\* restart (Shutdown hands every delivered event to the snapshotter and flushes), at least the newest time delivered
\* before it -- a time the snapshotter wrote and later lost (e.g. in a compaction) still counts as recorded.
MaxT(a, b) == IF Lt(a, b) THEN b ELSE a
RECURSIVE Newest(_, _)
Newest(nd, dl) == IF dl = <<>> THEN nd
                  ELSE Newest([nd EXCEPT ![Head(dl)[1]] = IF Head(dl)[2] > 0 THEN MaxT(@, Head(dl)[2]) ELSE @], Tail(dl))
NoOld(post, k, r) == r >= 0 => \A i \in DOMAIN post.dl : post.dl[i][1] = k => Lt(r, post.dl[i][2])

EventClauses == {"C05_event_delivered_twice", "C05_fresh_event_not_delivered", "C04_event_rebroadcast_twice",
                 "C04_merge_rebroadcast", "C04_event_foreign_message_queued", "C14_old_event_delivered_after_restart"}
Clauses(m, act, pre, post) ==
       (IF AtMostOnce(m, post, 1)               THEN {} ELSE {"C05_event_delivered_twice"})
  \cup (IF FreshDelivered(m, act, pre, post)    THEN {} ELSE {"C05_fresh_event_not_delivered"})
  \cup (IF AtMostOnce(m, post, 2)               THEN {} ELSE {"Q05_query_delivered_twice"})
  \cup (IF RebroadcastOnce(m, act, post, "ev")  THEN {} ELSE {"C04_event_rebroadcast_twice"})
  \cup (IF RebroadcastOnce(m, act, post, "qry") THEN {} ELSE {"C04_query_rebroadcast_twice"})
  \cup (IF MergeSilent(act, post)               THEN {} ELSE {"C04_merge_rebroadcast"})
  \cup (IF act.a # "ev" \/ OnlyEcho(act, post)  THEN {} ELSE {"C04_event_foreign_message_queued"})
  \cup (IF act.a # "qry" \/ OnlyEcho(act, post) THEN {} ELSE {"C04_query_foreign_message_queued"})
  \cup (IF NoOld(post, 1, m.c14[1])             THEN {} ELSE {"C14_old_event_delivered_after_restart"})
  \cup (IF NoOld(post, 2, m.c14[2])             THEN {} ELSE {"C14_old_query_delivered_after_restart"})

\* tag "witnessed_max": a message carrying time MAX (= 2^64-1) has been processed (per clock)
TopIn(act, post, k) == \E e \in RecvOf(act, post) : e[1] = k /\ e[2] = MAX

\* sn = 1: the node runs with a snapshot, so its first start already is a "restart" with nothing recorded (cut-off 1)
\* nd = newest event / query time delivered so far (what a flushed snapshot has recorded), c14 = the C14 cut-offs
MonNew(sn) == [bad |-> {}, delv |-> {}, rcv |-> {}, rbs |-> {}, cut |-> sn, topE |-> FALSE, topQ |-> FALSE,
               nd |-> <<-1, -1>>, c14 |-> <<-1, -1>>]
MonStep(m, act, pre, post) ==
  IF act.a = "restart" THEN
     [ m EXCEPT !.delv = { e \in @ : LET r == IF e[1] = 1 THEN post.re ELSE post.rq IN r >= 0 /\ ~Lt(r, e[2]) },
                !.rbs = {},
                !.cut = Wrap((IF post.re < 0 THEN 0 ELSE post.re) + 1),
                !.c14 = IF act.crash = 0 THEN <<MaxT(post.re, m.nd[1]), MaxT(post.rq, m.nd[2])>> ELSE <<post.re, post.rq>>,
                !.nd = IF act.crash = 0 THEN @ ELSE <<post.re, post.rq>> ]
  ELSE
     [ bad  |-> m.bad \cup Clauses(m, act, pre, post),
       delv |-> m.delv \cup Range(post.dl),
       rcv  |-> m.rcv \cup RecvOf(act, post),
       rbs  |-> m.rbs \cup (IF act.a \in {"ev", "qry"} THEN Range(post.rb) ELSE {}),
       cut  |-> CutAfter(m, act),
       topE |-> m.topE \/ TopIn(act, post, 1),
       topQ |-> m.topQ \/ TopIn(act, post, 2),
       nd   |-> Newest(m.nd, post.dl),
       c14  |-> m.c14 ]

TagsFor(m, cl) == IF (cl \in EventClauses /\ m.topE) \/ (cl \notin EventClauses /\ m.topQ)
                    THEN {"witnessed_max"} ELSE {}

------------------------------------------------------------------------------
Init == /\ \E b \in Bs, bq \in BQs, sn \in Snaps :
             N = NewNode(b, bq, sn) /\ obs = ObsOf(NewNode(b, bq, sn), <<>>, <<>>, <<-1, -1>>) /\ M = MonNew(sn)
        /\ rst = <<-1, -1>>
        /\ last = [a |-> "init"] /\ steps = 0

Apply(res, act, r) ==
  /\ N' = res.n /\ rst' = r
  /\ obs' = ObsOf(res.n, res.dl, res.rb, r)
  /\ last' = act /\ steps' = steps + 1
  /\ M' = MonStep(M, act, obs, ObsOf(res.n, res.dl, res.rb, r))

Ev(lt, k)  == Apply(EvStep(N, lt, k), [a |-> "ev", lt |-> lt, k |-> k], rst)
Qry(lt, id, nb, flt) ==
  Apply(QryStep(N, lt, id, nb, flt), [a |-> "qry", lt |-> lt, id |-> id, nb |-> nb, flt |-> flt], rst)
Merge(pp, join, ign) ==
  Apply(MergeStep(N, pp, join, ign),
        [a |-> "merge", elt |-> pp.elt, qlt |-> pp.qlt, evs |-> pp.evs, join |-> join, ign |-> ign], rst)
\* Serf.Join([peer], ignoreOld): memberlist's push/pull hands the peer's state to MergeRemoteState with isJoin = TRUE while
\* eventJoinIgnore = ignoreOld; the flag is false again when Join returns (ObsOf.ji).  The peer is a real node, so what it
\* sends is its own state: clocks >= 1, buffer slots in ascending order of time, all below its event clock, none at MAX.
JoinPPOk(pp) ==
  /\ pp.elt # 0 /\ pp.qlt # 0
  /\ \A i \in DOMAIN pp.evs : /\ Lt(pp.evs[i].lt, pp.elt) /\ pp.evs[i].lt # MAX
                               /\ \A j \in DOMAIN pp.evs : i < j => Lt(pp.evs[i].lt, pp.evs[j].lt)
                               /\ \A a, c \in DOMAIN pp.evs[i].ks : a # c => pp.evs[i].ks[a] # pp.evs[i].ks[c]
Join(pp, ign) ==
  /\ JoinPPOk(pp)
  /\ Apply(MergeStep(N, pp, 1, ign),
           [a |-> "join", elt |-> pp.elt, qlt |-> pp.qlt, evs |-> pp.evs, join |-> 1, ign |-> ign], rst)
Uev(k) == N.nloc < LocalMax /\ Apply(UevStep(N, k), [a |-> "uev", k |-> k], rst)
Lq     == N.nloc < LocalMax /\ Apply(LqStep(N), [a |-> "lq"], rst)
\* graceful (Shutdown flushes everything) or crash (the file holds some prefix of what was recorded)
Restart(crash, re, rq) ==
  /\ N.snap = 1
  /\ re \in (IF crash = 1 THEN N.seh ELSE {N.se})
  /\ rq \in (IF crash = 1 THEN N.sqh ELSE {N.sq})
  /\ Apply(RestartStep(N, re, rq), [a |-> "restart", crash |-> crash], <<re, rq>>)

\* inputs of the exhaustive model
Contents == 1..NC
RECURSIVE SeqsUpTo(_, _)
SeqsUpTo(A, n) == IF n = 0 THEN {<<>>} ELSE SeqsUpTo(A, n - 1) \cup { Append(s, a) : s \in SeqsUpTo(A, n - 1), a \in A }
PPSlot == { [lt |-> lt, ks |-> ks] : lt \in MsgT, ks \in SeqsUpTo(Contents, PPK) \ {<<>>} }
PPs == { [elt |-> e, qlt |-> q, evs |-> s] : e \in MsgT, q \in {0} \cup (IF "qry" \in Kinds \/ "lq" \in Kinds THEN MsgT ELSE {}),
                                              s \in SeqsUpTo(PPSlot, PPSlots) }

Next ==
  /\ steps < MaxSteps
  /\ \/ "ev" \in Kinds /\ \E lt \in MsgT, k \in Contents : Ev(lt, k)
     \/ "qry" \in Kinds /\ \E lt \in MsgT, id \in QIds, nb \in {0, 1}, flt \in {0, 1} : Qry(lt, id, nb, flt)
     \/ "merge" \in Kinds /\ \E pp \in PPs, join \in {0, 1}, ign \in {0, 1} : (join = 0 => ign = 0) /\ Merge(pp, join, ign)
     \/ "join" \in Kinds /\ \E pp \in PPs, ign \in {0, 1} : Join(pp, ign)
     \/ "uev" \in Kinds /\ \E k \in Contents : Uev(k)
     \/ "lq" \in Kinds /\ Lq
     \/ "restart" \in Kinds /\ \E crash \in {0, 1}, re \in -1..MAX, rq \in -1..MAX : Restart(crash, re, rq)

Spec == Init /\ [][Next]_vars

\* the properties, with the recorded consequence of the clock wrap carved out by its tag
Props == \A cl \in M.bad : TagsFor(M, cl) # {}
\* the finding is reachable (configs with these invariants are expected to be violated)
PropsStrict == M.bad = {}
StrictC05 == \A cl \in M.bad : cl \notin {"C05_event_delivered_twice", "C05_fresh_event_not_delivered"}
StrictC04 == \A cl \in M.bad : cl \notin {"C04_event_rebroadcast_twice", "C04_query_rebroadcast_twice"}
StrictC14 == \A cl \in M.bad : cl \notin {"C14_old_event_delivered_after_restart", "C14_old_query_delivered_after_restart"}
=============================================================================
