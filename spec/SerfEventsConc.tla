--------------------------- MODULE SerfEventsConc ---------------------------
(* Concurrent originators (C06): Serf.UserEvent / Serf.Query called from several *)
(* goroutines while NotifyMsg delivers user events / queries (serf/serf.go).      *)
(*                                                                               *)
(* One action per shared access, as in the code:                                 *)
(*   UserEvent(x): Begin; Take  lt := eventClock.Increment() - 1  (one atomic     *)
(*                              fetch-and-add: time taken and clock advanced)     *)
(*                        handleUserEvent: Wit; Cur; Del                         *)
(*   Query:        Begin; Take  lt := queryClock.Increment() - 1                 *)
(*                        Reg   registerQueryResponse (under queryLock)          *)
(*                        handleQuery: Wit; Cur; Del                             *)
(* (Before commit 82cb47c the time was read with Time() and the clock advanced in  *)
(* a separate step -- Increment() resp. the witness in handleQuery --, so two      *)
(* concurrent callers could share a time: finding C06-concurrent-callers-share-    *)
(* time, fixed.  mutants/m_c06_unfix.diff restores that code; the check catches it.)*)
(*   NotifyMsg(user event / query at lt): Begin; Wit; Cur; Del                   *)
(*   Wit  clock.Witness(lt), at the granularity of serf/lamport.go (the harness    *)
(*        yields inside lamport.go too):                                          *)
(*          WL  wcur := counter.Load()                                            *)
(*          WT  if lt < wcur then return                                          *)
(*          WC  if CAS(wcur, lt+1) then return else goto WL                       *)
(*        A local Increment landing between WL and WC makes the CAS fail; the retry *)
(*        is what keeps later local times above the witnessed one (first clause of  *)
(*        C06).  Increment and Time are single atomic accesses.                     *)
(*   Cur  lock taken; min-time test; curTime := clock.Time(); too-old test        *)
(*   Del  slot lookup, duplicate test, append, delivery on EventCh; lock released *)
(*   Fin  the call returns                                                        *)
(* The lock is modelled from Cur to Del: the code takes it earlier and releases it *)
(* at the return, but between the real acquisition and Cur, and between Del and    *)
(* the return, the holder touches nothing shared, so the model allows a superset   *)
(* of the code's interleavings and the same results.                              *)
(*                                                                               *)
(* Written functionally (state record S, Acts(s, t) = set of successor records)   *)
(* so that the trace specification can do a subset construction over the          *)
(* unlogged program counters and locals.                                          *)
EXTENDS SerfEventOps

CONSTANTS NT,        \* threads
          Progs      \* set of programs: [b |-> buffer size, th |-> <<ops of thread 1, ...>>], an op is
                     \* [op |-> "uev" | "lq" | "ev" | "qry", lt |-> time (incoming only), x |-> content / id]

Threads == 1..NT

VARIABLES S, M, last
vars == <<S, M, last>>

IdleTh == [pc |-> "idle", i |-> 0, lt |-> -1, wcur |-> -1, drop |-> FALSE]
InitS(p) == [b |-> p.b, ec |-> 1, emin |-> 0, ebuf |-> EmptyBuf(p.b), qc |-> 1, qmin |-> 0, qbuf |-> EmptyBuf(p.b),
             el |-> 0, ql |-> 0, th |-> [t \in DOMAIN p.th |-> IdleTh], prog |-> p.th, dl |-> <<>>]

CurOp(s, t) == s.prog[t][s.th[t].i + 1]
HasOp(s, t) == s.th[t].i < Len(s.prog[t])
IsE(o) == o.op \in {"uev", "ev"}           \* user-event kind (else query kind)
IsLocal(o) == o.op \in {"uev", "lq"}
KindOf(o) == IF IsE(o) THEN 1 ELSE 2
\* content of a local call: unique per call (the harness names it after thread and position)
LocalX(t, i) == 100 + 10 * t + i
XOf(s, t) == LET o == CurOp(s, t) IN IF IsLocal(o) THEN LocalX(t, s.th[t].i) ELSE o.x

\* successor records of one atomic action of thread t; every successor carries the deliveries of that action in dl
Acts(s0, t) ==
  LET s == [s0 EXCEPT !.dl = <<>>]
      th == s.th[t] IN
  IF th.pc = "idle" THEN (IF HasOp(s, t) THEN { [s EXCEPT !.th[t].pc = "go"] } ELSE {})
  ELSE LET o == CurOp(s, t) IN
  CASE th.pc = "go" ->
         IF o.op = "uev" THEN { [s EXCEPT !.th[t].lt = s.ec, !.ec = Wrap(s.ec + 1), !.th[t].pc = "wl"] }
         ELSE IF o.op = "lq" THEN { [s EXCEPT !.th[t].lt = s.qc, !.qc = Wrap(s.qc + 1), !.th[t].pc = "reg"] }
         ELSE { [s EXCEPT !.th[t].lt = o.lt, !.th[t].pc = "wl"] }          \* incoming: the time is in the message
    [] th.pc = "reg" -> IF s.ql = 0 THEN { [s EXCEPT !.th[t].pc = "wl"] } ELSE {}
    [] th.pc = "wl" -> { [s EXCEPT !.th[t].wcur = IF IsE(o) THEN s.ec ELSE s.qc, !.th[t].pc = "wt"] }
    [] th.pc = "wt" -> IF Lt(th.lt, th.wcur) THEN { [s EXCEPT !.th[t].pc = "cur"] } ELSE { [s EXCEPT !.th[t].pc = "wc"] }
    [] th.pc = "wc" ->
         IF (IF IsE(o) THEN s.ec ELSE s.qc) # th.wcur THEN { [s EXCEPT !.th[t].pc = "wl"] }      \* CAS failed: retry
         ELSE IF IsE(o) THEN { [s EXCEPT !.ec = Wrap(th.lt + 1), !.th[t].pc = "cur"] }
                        ELSE { [s EXCEPT !.qc = Wrap(th.lt + 1), !.th[t].pc = "cur"] }
    [] th.pc = "cur" ->
         IF IsE(o) THEN (IF s.el # 0 THEN {} ELSE
              { [s EXCEPT !.el = t, !.th[t].pc = "del",
                          !.th[t].drop = Lt(th.lt, s.emin) \/ TooOld(s.b, s.ec, th.lt)] })
         ELSE (IF s.ql # 0 THEN {} ELSE
              { [s EXCEPT !.ql = t, !.th[t].pc = "del",
                          !.th[t].drop = Lt(th.lt, s.qmin) \/ TooOld(s.b, s.qc, th.lt)] })
    [] th.pc = "del" ->
         LET x == XOf(s, t)
             buf == IF IsE(o) THEN s.ebuf ELSE s.qbuf
             ix == SlotIx(s.b, th.lt)
             sl == buf[ix]
             new == ~th.drop /\ ~(sl.lt = th.lt /\ x \in Range(sl.xs))
             buf2 == IF ~new THEN buf
                     ELSE [buf EXCEPT ![ix] = IF sl.lt = th.lt THEN [sl EXCEPT !.xs = Append(@, x)]
                                                               ELSE [lt |-> th.lt, xs |-> <<x>>]]
             d == IF new THEN << <<KindOf(o), th.lt, x>> >> ELSE <<>> IN
         IF IsE(o) THEN { [s EXCEPT !.ebuf = buf2, !.el = 0, !.th[t].pc = "ret", !.dl = d] }
                   ELSE { [s EXCEPT !.qbuf = buf2, !.ql = 0, !.th[t].pc = "ret", !.dl = d] }
    [] OTHER -> {}

CanFin(s, t) == s.th[t].pc = "ret"
Fin(s, t) == [s EXCEPT !.th[t] = [IdleTh EXCEPT !.i = s.th[t].i + 1]]

------------------------------------------------------------------------------
(* Property C06 as a monitor over logged data only: the program, which thread ran,  *)
(* whether this was the first step of a call (begin), and when a call returned      *)
(* (fin) the Lamport time its message carries (local calls: read from the queued     *)
(* broadcast; incoming: the time in the message).                                    *)
(*   processed = the event / query has been delivered to the application (seen on    *)
(*   EventCh) or the call handling it has returned, whichever is observed first      *)
MonNew(prog) ==
  [ bad |-> {},                                 \* <<clause, tags at the time of the violation>>
    top |-> FALSE,                              \* a message with time MAX has been processed or begun (sticky)
    loc  |-> {},                                \* <<kind, lt, t, i>> of finished local calls
    proc |-> <<-1, -1>>,                        \* newest processed time per kind
    beg  |-> [t \in DOMAIN prog |-> -1],        \* newest processed time of its kind when t's local call began
    infl |-> [t \in DOMAIN prog |-> <<0, 0>>],  \* <<kind, i>> of the local call t has in flight
    ovl  |-> {} ]                               \* {<<t, i>>, <<t2, i2>>}: local calls of one kind that overlapped

MaxT(a, b) == IF Lt(a, b) THEN b ELSE a

MonBegin(m, prog, t, i) ==
  LET o == prog[t][i + 1] IN
  IF ~IsLocal(o) THEN [m EXCEPT !.top = @ \/ o.lt = MAX]
  ELSE [ m EXCEPT !.beg[t] = m.proc[KindOf(o)],
                  !.infl[t] = <<KindOf(o), i>>,
                  !.ovl = @ \cup { {<<t, i>>, <<u, m.infl[u][2]>>} : u \in { v \in DOMAIN prog : v # t /\ m.infl[v][1] = KindOf(o) } } ]

\* deliveries <<kind, lt, x>> observed on EventCh: the node has processed these
RECURSIVE MonDeliver(_, _)
MonDeliver(m, dl) ==
  IF dl = <<>> THEN m
  ELSE MonDeliver([m EXCEPT !.proc[Head(dl)[1]] = MaxT(@, Head(dl)[2]), !.top = @ \/ Head(dl)[2] = MAX], Tail(dl))

MonFin(m, prog, t, i, lt) ==
  LET o == prog[t][i + 1]
      k == KindOf(o)
      same == { e \in m.loc : e[1] = k /\ e[2] = lt }
      shared == IsLocal(o) /\ same # {}
      notlater == IsLocal(o) /\ m.beg[t] >= 0 /\ ~Lt(m.beg[t], lt) IN
  LET top2 == m.top \/ lt = MAX
      tg == (IF shared /\ \E e \in same : {<<t, i>>, <<e[3], e[4]>>} \in m.ovl THEN {"concurrent_local_calls"} ELSE {})
            \cup (IF top2 THEN {"witnessed_max"} ELSE {}) IN
  [ m EXCEPT
      !.bad = @ \cup (IF shared THEN {<<IF k = 1 THEN "C06_local_event_time_shared" ELSE "C06_local_query_time_shared", tg>>} ELSE {})
                \cup (IF notlater THEN {<<IF k = 1 THEN "C06_local_event_time_not_later" ELSE "C06_local_query_time_not_later",
                                          tg \ {"concurrent_local_calls"}>>} ELSE {}),
      !.top = top2,
      !.loc = IF IsLocal(o) THEN @ \cup {<<k, lt, t, i>>} ELSE @,
      !.proc[k] = MaxT(@, lt),
      !.infl[t] = <<0, 0>> ]

------------------------------------------------------------------------------
Init == /\ \E p \in Progs : S = InitS(p) /\ M = MonNew(p.th)
        /\ last = [a |-> "init"]

StepAct(t) ==
  \E s2 \in Acts(S, t) :
     /\ S' = s2
     /\ M' = MonDeliver(IF S.th[t].pc = "idle" THEN MonBegin(M, S.prog, t, S.th[t].i) ELSE M, s2.dl)
     /\ last' = [a |-> "step", t |-> t]

FinAct(t) ==
  /\ CanFin(S, t)
  /\ S' = [Fin(S, t) EXCEPT !.dl = <<>>]
  /\ M' = MonFin(M, S.prog, t, S.th[t].i, S.th[t].lt)
  /\ last' = [a |-> "fin", t |-> t]

Next == \E t \in Threads : StepAct(t) \/ FinAct(t)
Spec == Init /\ [][Next]_vars

Shared == {"C06_local_event_time_shared", "C06_local_query_time_shared"}
\* C06 with the remaining finding carved out by its tag: anything once a message with time 2^64-1 was
\* processed (C19-wrap-at-max).  The tag concurrent_local_calls is still computed (history predicate: the two
\* calls sharing a time overlapped) but waives nothing any more.
C06 == \A v \in M.bad : "witnessed_max" \in v[2]
\* without any message at MAX nothing may be violated at all
C06Strict == M.bad = {}
\* the wrap finding is reachable (a config with this invariant is expected to be violated)
C06StrictLater == \A v \in M.bad : v[1] \in Shared
C06StrictShared == \A v \in M.bad : v[1] \notin Shared
=============================================================================
