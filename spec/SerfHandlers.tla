---------------------------- MODULE SerfHandlers ----------------------------
(* The membership handlers of serf/serf.go and serf/delegate.go as pure         *)
(* operators over one replica record, so that the single-replica ("open")       *)
(* specification and the cluster specification share one text.                  *)
(*                                                                             *)
(* Names are integers 0..NN-1 (the replica's own name is r.self).               *)
(* Member status: 0 none, 1 alive, 2 leaving, 3 left, 4 failed.                 *)
(* Serf state:    0 alive, 1 leaving, 2 left, 3 shutdown.                       *)
(* Intent type:   0 none, 1 join, 2 leave.                                      *)
(* Messages:      <<ty, node, lt, prune>>  ty 1 join / 2 leave, prune 0/1       *)
(* Events:        <<kind, node>>  kind 1 join 2 leave 3 failed 4 update 5 reap  *)
(*                                                                             *)
(* Every handler returns a "result" record [r, rb, ev, q, ref]:                 *)
(*   r   the replica after the handler                                          *)
(*   rb  the boolean the real handler returns (re-broadcast?)                   *)
(*   ev  member events put on the event channel, in order                       *)
(*   q   messages the handler queued for broadcast itself                       *)
(*   ref clock values of refutation goroutines spawned (go s.broadcastJoin(t))  *)
EXTENDS Integers, Sequences, FiniteSets, TLC

CONSTANT NN            \* number of names
Names == 0..(NN - 1)

NoMem == [st |-> 0, lt |-> 0]
NoInt == [ty |-> 0, lt |-> 0]

NewReplica(self) ==
  [ self |-> self, sstate |-> 0, clock |-> 1,      \* serf.Create increments the clock once
    mem |-> [x \in Names |-> IF x = self THEN [st |-> 1, lt |-> 0] ELSE NoMem],
    failedL |-> <<>>, leftL |-> <<>>,
    intents |-> [x \in Names |-> NoInt] ]

Res(r, rb, ev, q, ref) == [r |-> r, rb |-> rb, ev |-> ev, q |-> q, ref |-> ref]

Witness(c, v) == IF v < c THEN c ELSE v + 1

\* removeOldMember: swap the first occurrence with the last element and truncate
RemoveOld(s, x) ==
  IF \E i \in DOMAIN s : s[i] = x
    THEN LET i == CHOOSE i \in DOMAIN s : s[i] = x /\ \A j \in DOMAIN s : s[j] = x => i <= j
             n == Len(s)
         IN  SubSeq([s EXCEPT ![i] = s[n]], 1, n - 1)
    ELSE s

\* upsertIntent
Upsert(r, x, ty, lt) ==
  IF r.intents[x].ty = 0 \/ lt > r.intents[x].lt
    THEN Res([r EXCEPT !.intents[x] = [ty |-> ty, lt |-> lt]], TRUE, <<>>, <<>>, <<>>)
    ELSE Res(r, FALSE, <<>>, <<>>, <<>>)

\* eraseNode (+ the left-list clean-up handlePrune does first)
Prune(r, x) ==
  LET r1 == IF r.mem[x].st \in {2, 3} THEN [r EXCEPT !.leftL = RemoveOld(@, x)] ELSE r
  IN  [r1 EXCEPT !.mem[x] = NoMem]

\* handleNodeLeaveIntent
HLeaveIntent(r0, x, lt, prune) ==
  LET r == [r0 EXCEPT !.clock = Witness(@, lt)] IN
  IF r.mem[x].st = 0 THEN Upsert(r, x, 2, lt)
  ELSE IF lt <= r.mem[x].lt THEN Res(r, FALSE, <<>>, <<>>, <<>>)
  ELSE IF x = r.self /\ r0.sstate = 0
         THEN Res(r, FALSE, <<>>, <<>>, <<r.clock>>)             \* go s.broadcastJoin(s.clock.Time())
  ELSE LET r1 == [r EXCEPT !.mem[x].lt = lt] IN
       CASE r1.mem[x].st = 1 ->
              LET r2 == [r1 EXCEPT !.mem[x].st = 2] IN
              IF prune = 1 THEN Res(Prune(r2, x), TRUE, << <<5, x>> >>, <<>>, <<>>)
                           ELSE Res(r2, TRUE, <<>>, <<>>, <<>>)
         [] r1.mem[x].st = 4 ->
              LET r2 == [r1 EXCEPT !.mem[x].st = 3, !.failedL = RemoveOld(@, x), !.leftL = Append(@, x)] IN
              IF prune = 1 THEN Res(Prune(r2, x), TRUE, << <<2, x>>, <<5, x>> >>, <<>>, <<>>)
                           ELSE Res(r2, TRUE, << <<2, x>> >>, <<>>, <<>>)
         [] r1.mem[x].st \in {2, 3} ->
              IF prune = 1 THEN Res(Prune(r1, x), TRUE, << <<5, x>> >>, <<>>, <<>>)
                           ELSE Res(r1, TRUE, <<>>, <<>>, <<>>)
         [] OTHER -> Res(r1, FALSE, <<>>, <<>>, <<>>)

\* handleNodeJoinIntent
HJoinIntent(r0, x, lt) ==
  LET r == [r0 EXCEPT !.clock = Witness(@, lt)] IN
  IF r.mem[x].st = 0 THEN Upsert(r, x, 1, lt)
  ELSE IF lt <= r.mem[x].lt THEN Res(r, FALSE, <<>>, <<>>, <<>>)
  ELSE LET r1 == [r EXCEPT !.mem[x].lt = lt] IN
       IF r1.mem[x].st = 2 THEN Res([r1 EXCEPT !.mem[x].st = 1], TRUE, <<>>, <<>>, <<>>)
                           ELSE Res(r1, TRUE, <<>>, <<>>, <<>>)

\* handleNodeJoin (memberlist NotifyJoin)
HNodeJoin(r, x) ==
  IF r.mem[x].st = 0
    THEN LET m == IF r.intents[x].ty = 2 THEN [st |-> 2, lt |-> r.intents[x].lt]
                  ELSE IF r.intents[x].ty = 1 THEN [st |-> 1, lt |-> r.intents[x].lt]
                  ELSE [st |-> 1, lt |-> 0]
         IN  Res([r EXCEPT !.mem[x] = m], FALSE, << <<1, x>> >>, <<>>, <<>>)
    ELSE LET old == r.mem[x].st
             r1  == [r EXCEPT !.mem[x].st = 1]
             r2  == IF old \in {3, 4} THEN [r1 EXCEPT !.failedL = RemoveOld(@, x), !.leftL = RemoveOld(@, x)] ELSE r1
         IN  Res(r2, FALSE, << <<1, x>> >>, <<>>, <<>>)

\* handleNodeLeave (memberlist NotifyLeave)
HNodeLeave(r, x) ==
  CASE r.mem[x].st = 2 -> Res([r EXCEPT !.mem[x].st = 3, !.leftL = Append(@, x)], FALSE, << <<2, x>> >>, <<>>, <<>>)
    [] r.mem[x].st = 1 -> Res([r EXCEPT !.mem[x].st = 4, !.failedL = Append(@, x)], FALSE, << <<3, x>> >>, <<>>, <<>>)
    [] OTHER           -> Res(r, FALSE, <<>>, <<>>, <<>>)

\* handleNodeUpdate (memberlist NotifyUpdate: the member's meta data changed)
HNodeUpdate(r, x) ==
  IF r.mem[x].st = 0 THEN Res(r, FALSE, <<>>, <<>>, <<>>)
                     ELSE Res(r, FALSE, << <<4, x>> >>, <<>>, <<>>)

\* broadcastJoin(lt): Witness, handle locally, queue the join whatever the local handler said
BroadcastJoin(r, lt) ==
  LET h == HJoinIntent([r EXCEPT !.clock = Witness(@, lt)], r.self, lt) IN
  Res(h.r, FALSE, h.ev, << <<1, r.self, lt, 0>> >>, <<>>)

HasAlive(r) == \E x \in Names : x # r.self /\ r.mem[x].st = 1

\* forceLeave: the intent is applied locally BEFORE hasAliveMembers is asked
ForceLeave(r, x, prune) ==
  LET lt == r.clock
      h  == HLeaveIntent([r EXCEPT !.clock = @ + 1], x, lt, prune)
  IN  Res(h.r, FALSE, h.ev, IF HasAlive(h.r) THEN << <<2, x, lt, prune>> >> ELSE <<>>, h.ref)

\* sequential composition of results (second handler runs on the first one's replica)
Then(a, b) == Res(b.r, b.rb, a.ev \o b.ev, a.q \o b.q, a.ref \o b.ref)

\* MergeRemoteState (membership part).  pp = [lt, ent] with ent[x] = [p, lt, left]:
\* p = 1 iff x is in StatusLTimes, left = 1 iff x is in LeftMembers.  Left members first, each as a
\* leave intent one past its status time; the others as join intents.  Re-broadcast results dropped.
\* LeftMembers is processed in the order the sender listed it (pp.lo when the record carries it, else by name)
RECURSIVE MergeLefts(_, _, _), MergeJoins(_, _, _), MergeLeftSeq(_, _, _)
MergeLeftSeq(res, pp, lo) ==
  IF lo = <<>> THEN res
  ELSE LET x == Head(lo) IN
       MergeLeftSeq(Then(res, HLeaveIntent(res.r, x, (IF pp.ent[x].p = 1 THEN pp.ent[x].lt ELSE 0) + 1, 0)), pp, Tail(lo))
MergeLefts(res, pp, x) ==
  IF "lo" \in DOMAIN pp THEN MergeLeftSeq(res, pp, pp.lo)
  ELSE IF x >= NN THEN res
  ELSE IF pp.ent[x].left = 1
         THEN MergeLefts(Then(res, HLeaveIntent(res.r, x, (IF pp.ent[x].p = 1 THEN pp.ent[x].lt ELSE 0) + 1, 0)), pp, x + 1)
         ELSE MergeLefts(res, pp, x + 1)
MergeJoins(res, pp, x) ==
  IF x >= NN THEN res
  ELSE IF pp.ent[x].p = 1 /\ pp.ent[x].left = 0
         THEN MergeJoins(Then(res, HJoinIntent(res.r, x, pp.ent[x].lt)), pp, x + 1)
         ELSE MergeJoins(res, pp, x + 1)
Merge(r, pp) ==
  LET r1 == IF pp.lt > 0 THEN [r EXCEPT !.clock = Witness(@, pp.lt - 1)] ELSE r
      a  == MergeLefts(Res(r1, FALSE, <<>>, <<>>, <<>>), pp, 0)
      b  == MergeJoins(a, pp, 0)
  IN  [b EXCEPT !.rb = FALSE]

\* the refutation goroutines spawned by a handler, run to completion in spawn order
RECURSIVE RunRefutes(_)
RunRefutes(res) ==
  IF res.ref = <<>> THEN res
  ELSE LET b == BroadcastJoin(res.r, Head(res.ref)) IN
       RunRefutes(Res(b.r, res.rb, res.ev \o b.ev, res.q \o b.q, Tail(res.ref)))

\* reap(list, expired): walks the list with the code's swap-delete, erasing expired members
RECURSIVE ReapWalk(_, _, _, _)
ReapWalk(lst, i, expired, acc) ==      \* acc = erased names in order
  IF i > Len(lst) THEN [lst |-> lst, erased |-> acc]
  ELSE IF lst[i] \in expired
         THEN LET n == Len(lst) IN ReapWalk(SubSeq([lst EXCEPT ![i] = lst[n]], 1, n - 1), i, expired, Append(acc, lst[i]))
         ELSE ReapWalk(lst, i + 1, expired, acc)

RECURSIVE EraseAll(_, _)
EraseAll(r, s) == IF s = <<>> THEN r ELSE EraseAll([r EXCEPT !.mem[Head(s)] = NoMem], Tail(s))
ReapEvents(s) == [i \in DOMAIN s |-> <<5, s[i]>>]

Reap(r, F, L) ==
  LET wf == ReapWalk(r.failedL, 1, F, <<>>)
      wl == ReapWalk(r.leftL, 1, L, <<>>)
      r1 == EraseAll([r EXCEPT !.failedL = wf.lst, !.leftL = wl.lst], wf.erased \o wl.erased)
  IN  Res(r1, FALSE, ReapEvents(wf.erased \o wl.erased), <<>>, <<>>)
=============================================================================
