---------------------------- MODULE SerfReplica ----------------------------
(* One real Serf node (name 0) in an open environment: every input the network, *)
(* memberlist or the local API can hand to the membership code, in any order.   *)
(* The environment is unconstrained except for what memberlist guarantees       *)
(* (no leave notification for a node it has not reported joined, no             *)
(* notifications about the local node).                                         *)
(*                                                                             *)
(* Properties C02 (step clauses), C03, C04 (intents), C15 are monitors over the *)
(* action record and the OBSERVED state before/after the step (Obs records), so *)
(* the same text is evaluated on the model and on traces of the real node.      *)
EXTENDS SerfHandlers, SequencesExt

CONSTANTS MaxLT,       \* message Lamport times 0..MaxLT
          MaxSteps

VARIABLES R,           \* the replica record (SerfHandlers)
          mlUp,        \* names memberlist currently reports alive to this node
          obs,         \* observation of the last step (what the harness records)
          last,
          steps,
          M            \* monitor state

vars == <<R, mlUp, obs, last, steps, M>>

Self == 0
Foreign == Names \ {Self}

------------------------------------------------------------------------------
(* Observation *)
MsgLess(a, b) ==
  \/ a[1] < b[1]
  \/ a[1] = b[1] /\ a[2] < b[2]
  \/ a[1] = b[1] /\ a[2] = b[2] /\ a[3] < b[3]
  \/ a[1] = b[1] /\ a[2] = b[2] /\ a[3] = b[3] /\ a[4] < b[4]

ObsOf(r, res) ==
  [ clock |-> r.clock, sstate |-> r.sstate,
    mem |-> [i \in 1..NN |-> r.mem[i - 1]],
    failed |-> r.failedL, left |-> r.leftL,
    intents |-> [i \in 1..NN |-> r.intents[i - 1]],
    out |-> SortSeq(res.q, MsgLess),
    ev |-> res.ev,
    \* what the public API reports: Stats() failed/left, and the same counted from Members()
    api |-> [ nf |-> Len(r.failedL), nl |-> Len(r.leftL),
              cf |-> Cardinality({ x \in Names : r.mem[x].st = 4 }),
              cl |-> Cardinality({ x \in Names : r.mem[x].st = 3 }), dup |-> 0 ] ]

NoRes(r) == Res(r, FALSE, <<>>, <<>>, <<>>)

------------------------------------------------------------------------------
(* Monitors.  m = [bad, rbSeen]; act = action record; pre/post = Obs records.   *)
Mem(o, x) == o.mem[x + 1]
Count(o, st) == Cardinality({ i \in 1..NN : o.mem[i].st = st })
InSeq(s, e) == \E i \in DOMAIN s : s[i] = e
NumOf(s, e) == Cardinality({ i \in DOMAIN s : s[i] = e })

\* C02 step clauses
StatusTimeMonotone(pre, post) ==
  \A x \in Names : (Mem(pre, x).st # 0 /\ Mem(post, x).st # 0) => Mem(post, x).lt >= Mem(pre, x).lt
StaleInert(act, pre, post) ==
  (act.a = "msg" /\ Mem(pre, act.x).st # 0 /\ act.lt <= Mem(pre, act.x).lt)
     => (post.mem = pre.mem /\ post.failed = pre.failed /\ post.left = pre.left)

\* a member that is not known yet has its pending status in the intent buffer: the buffered time only grows too
\* (the buffer is emptied only by expiry, which shows as "no intent" in between)
BufferedTimeMonotone(pre, post) ==
  \A i \in 1..NN : (pre.intents[i].ty # 0 /\ post.intents[i].ty # 0) => post.intents[i].lt >= pre.intents[i].lt

\* the same for the intents a state sync carries (left members: a leave one past the listed time;
\* the others: a join at the listed time)
MergeStaleInert(act, pre, post) ==
  act.a = "merge" =>
    \A x \in Names :
      LET e == act.pp.ent[x + 1]
          t == IF e.left = 1 THEN (IF e.p = 1 THEN e.lt ELSE 0) + 1 ELSE e.lt
      IN  ((e.p = 1 \/ e.left = 1) /\ Mem(pre, x).st # 0 /\ t <= Mem(pre, x).lt) => Mem(post, x) = Mem(pre, x)

\* C03
SelfAlive(post) == post.sstate = 0 => Mem(post, Self).st = 1
IsSelfClaim(act, pre) ==           \* a leave / force-leave / prune claim about the local node, newer than its join
  \/ act.a = "msg" /\ act.ty = 2 /\ act.x = Self /\ act.lt > Mem(pre, Self).lt
ClaimLT(act) == act.lt
Refuted(act, pre, post) ==
  (pre.sstate = 0 /\ IsSelfClaim(act, pre))
     => \E i \in DOMAIN post.out : post.out[i][1] = 1 /\ post.out[i][2] = Self /\ post.out[i][3] > ClaimLT(act)
MergeClaimRefuted(act, pre, post) ==   \* state sync listing the local node as left, one past a time >= its join time
  (act.a = "merge" /\ pre.sstate = 0 /\ act.pp.ent[Self + 1].left = 1
      /\ (IF act.pp.ent[Self + 1].p = 1 THEN act.pp.ent[Self + 1].lt ELSE 0) + 1 > Mem(pre, Self).lt)
     => \E i \in DOMAIN post.out : post.out[i][1] = 1 /\ post.out[i][2] = Self
                                   /\ post.out[i][3] > (IF act.pp.ent[Self + 1].p = 1 THEN act.pp.ent[Self + 1].lt ELSE 0) + 1

\* C04 (intents)
MsgOf(act) == <<act.ty, act.x, act.lt, act.prune>>
RebroadcastOnce(m, act, post) ==
  (act.a = "msg" /\ MsgOf(act) \in m.rbSeen) => ~InSeq(post.out, MsgOf(act))
MergeSilent(act, post) ==
  act.a = "merge" => \A i \in DOMAIN post.out : post.out[i][1] = 1 /\ post.out[i][2] = Self
OnlyOwnOrEcho(act, pre, post) ==     \* a network message queues at most itself (once) and own refutations
  act.a = "msg" => /\ NumOf(post.out, MsgOf(act)) <= 1
                   /\ \A i \in DOMAIN post.out : post.out[i] = MsgOf(act) \/ (post.out[i][1] = 1 /\ post.out[i][2] = Self)

\* C15
CountsMatch(post) ==
  /\ post.api.nf = post.api.cf /\ post.api.nl = post.api.cl /\ post.api.dup = 0
  /\ Len(post.failed) = Count(post, 4) /\ Len(post.left) = Count(post, 3)
  /\ \A i, j \in DOMAIN post.failed : post.failed[i] = post.failed[j] => i = j
  /\ \A i, j \in DOMAIN post.left : post.left[i] = post.left[j] => i = j
  /\ \A i \in DOMAIN post.failed : Mem(post, post.failed[i]).st = 4
  /\ \A i \in DOMAIN post.left : Mem(post, post.left[i]).st = 3
SeqSet(s) == { s[i] : i \in DOMAIN s }
ReapExact(act, pre, post) ==
  act.a = "reap" =>
    LET gone == (SeqSet(pre.failed) \cap SeqSet(act.f)) \cup (SeqSet(pre.left) \cap SeqSet(act.l)) IN
    /\ \A x \in Names : Mem(post, x) = (IF x \in gone THEN NoMem ELSE Mem(pre, x))
    /\ \A x \in gone : NumOf(post.ev, <<5, x>>) = 1
    /\ Len(post.ev) = Cardinality(gone)
PrunedGone(act, pre, post) ==
  (act.a = "msg" /\ act.ty = 2 /\ act.prune = 1 /\ Mem(pre, act.x).st # 0 /\ act.lt > Mem(pre, act.x).lt
      /\ ~(act.x = Self /\ pre.sstate = 0))
     => (Mem(post, act.x).st = 0 /\ NumOf(post.ev, <<5, act.x>>) = 1)

Clauses(m, act, pre, post) ==
       (IF StatusTimeMonotone(pre, post)   THEN {} ELSE {"C02_status_time_decreased"})
  \cup (IF StaleInert(act, pre, post)      THEN {} ELSE {"C02_stale_intent_changed_state"})
  \cup (IF BufferedTimeMonotone(pre, post) THEN {} ELSE {"C02_buffered_intent_time_decreased"})
  \cup (IF MergeStaleInert(act, pre, post) THEN {} ELSE {"C02_stale_synced_intent_changed_state"})
  \cup (IF SelfAlive(post)                 THEN {} ELSE {"C03_self_not_alive"})
  \cup (IF Refuted(act, pre, post)         THEN {} ELSE {"C03_claim_not_refuted"})
  \cup (IF MergeClaimRefuted(act, pre, post) THEN {} ELSE {"C03_sync_claim_not_refuted"})
  \cup (IF RebroadcastOnce(m, act, post)   THEN {} ELSE {"C04_rebroadcast_twice"})
  \cup (IF MergeSilent(act, post)          THEN {} ELSE {"C04_merge_rebroadcast"})
  \cup (IF OnlyOwnOrEcho(act, pre, post)   THEN {} ELSE {"C04_foreign_message_queued"})
  \cup (IF CountsMatch(post)               THEN {} ELSE {"C15_counts_or_lists_inconsistent"})
  \cup (IF ReapExact(act, pre, post)       THEN {} ELSE {"C15_reap_not_exact"})
  \cup (IF PrunedGone(act, pre, post)      THEN {} ELSE {"C15_pruned_member_still_listed"})

MonInit == M = [bad |-> {}, rbSeen |-> {}]
MonStep(m, act, pre, post) ==
  [ bad    |-> m.bad \cup Clauses(m, act, pre, post),
    rbSeen |-> LET kept == { s \in m.rbSeen : /\ Mem(post, s[2]).st # 0 \/ Mem(pre, s[2]).st = 0     \* forget when the member is erased
                                             \* ... and when the buffered intent of an unknown member left the retention window
                                             /\ ~(act.a = "expire" /\ InSeq(act.s, s[2]) /\ Mem(pre, s[2]).st = 0) }
               IN  IF act.a = "msg" /\ InSeq(post.out, MsgOf(act)) /\ (Mem(post, act.x).st # 0 \/ Mem(pre, act.x).st = 0)
                     THEN kept \cup {MsgOf(act)} ELSE kept ]

------------------------------------------------------------------------------
(* Actions.  Each computes a handler result, runs the spawned refutations, and  *)
(* publishes the observation.                                                   *)
Apply(res0, act, up) ==
  LET res == RunRefutes(res0) IN
  /\ R' = res.r
  /\ mlUp' = up
  /\ obs' = ObsOf(res.r, res)
  /\ last' = act
  /\ steps' = steps + 1
  /\ M' = MonStep(M, act, obs, ObsOf(res.r, res))

MLJoin(x) ==
  /\ x \notin mlUp
  /\ Apply(HNodeJoin(R, x), [a |-> "mljoin", x |-> x], mlUp \cup {x})
MLLeave(x) ==
  /\ x \in mlUp
  /\ Apply(HNodeLeave(R, x), [a |-> "mlleave", x |-> x], mlUp \ {x})

MLUpdate(x) ==       \* memberlist only reports updates for nodes it lists alive
  /\ x \in mlUp
  /\ Apply(HNodeUpdate(R, x), [a |-> "mlupdate", x |-> x], mlUp)

NetMsg(ty, x, lt, prune) ==
  LET h == IF ty = 1 THEN HJoinIntent(R, x, lt) ELSE HLeaveIntent(R, x, lt, prune)
      \* NotifyMsg queues the message again when the handler says so
      res == [h EXCEPT !.q = IF h.rb THEN << <<ty, x, lt, prune>> >> ELSE <<>>]
  IN  Apply(res, [a |-> "msg", ty |-> ty, x |-> x, lt |-> lt, prune |-> prune, w |-> Len(h.ref)], mlUp)

\* push/pull states mentioning at most two names (constructed, not filtered)
Absent == [p |-> 0, lt |-> 0, left |-> 0]
Entries == { [p |-> 1, lt |-> t, left |-> lf] : t \in 0..MaxLT, lf \in {0, 1} } \cup { [p |-> 0, lt |-> 0, left |-> 1] }
PPOf(lt, x1, e1, x2, e2) ==
  [lt |-> lt, ent |-> [i \in 1..NN |-> IF i = x1 + 1 THEN e1 ELSE IF i = x2 + 1 THEN e2 ELSE Absent]]
PPs == { PPOf(lt, x1, e1, x1, e1) : lt \in {0, MaxLT}, x1 \in Names, e1 \in Entries }
       \cup { PPOf(lt, xs[1], e1, xs[2], e2) : lt \in {0, MaxLT}, xs \in { ys \in Names \X Names : ys[1] < ys[2] },
                                                e1 \in Entries, e2 \in Entries }
PPFun(pp) == [lt |-> pp.lt, ent |-> [x \in Names |-> pp.ent[x + 1]]]
NetMerge(pp) ==
  LET h == Merge(R, PPFun(pp)) IN
  Apply(h, [a |-> "merge", pp |-> pp, w |-> Len(h.ref)], mlUp)

ApiForceLeave(x, prune) ==
  /\ R.sstate = 0
  /\ LET h == ForceLeave(R, x, prune) IN
     Apply(h, [a |-> "forceleave", x |-> x, prune |-> prune, w |-> Len(h.ref)], mlUp)

ApiBroadcastJoin ==
  /\ R.sstate = 0
  /\ Apply(BroadcastJoin(R, R.clock), [a |-> "bjoin"], mlUp)

\* Serf.Leave on a node whose memberlist then reports the local node dead
ApiLeave ==
  /\ R.sstate = 0
  /\ LET lt == R.clock
         r1 == [R EXCEPT !.sstate = 1, !.clock = @ + 1]
         h  == HLeaveIntent(r1, Self, lt, 0)
         q  == IF HasAlive(h.r) THEN << <<2, Self, lt, 0>> >> ELSE <<>>
         n  == HNodeLeave(h.r, Self)
         r2 == [n.r EXCEPT !.sstate = 2]
     IN  Apply(Res(r2, FALSE, h.ev \o n.ev, q, <<>>), [a |-> "leave"], mlUp)

IncSubs(s) == { t \in UNION { [1..k -> SeqSet(s)] : k \in 0..Len(s) } : \A i, j \in DOMAIN t : i < j => t[i] < t[j] }
ApiReap(f, l) ==
  /\ Len(R.failedL) + Len(R.leftL) > 0
  /\ Apply(Reap(R, SeqSet(f), SeqSet(l)), [a |-> "reap", f |-> f, l |-> l], mlUp)

\* Wall time passes: the buffered intents of the names in s get older than RecentIntentTimeout and the reaper's next
\* pass (handleReap -> reapIntents) drops them; nothing is gossiped and no member changes.
IntSeq == SelectSeq([i \in 1..NN |-> i - 1], LAMBDA x : R.intents[x].ty # 0)
TimeExpire(s) ==
  /\ s # <<>>
  /\ Apply(NoRes([R EXCEPT !.intents = [x \in Names |-> IF x \in SeqSet(s) THEN NoInt ELSE R.intents[x]]]),
           [a |-> "expire", s |-> s], mlUp)

Init == /\ R = NewReplica(Self) /\ mlUp = {}
        /\ obs = ObsOf(NewReplica(Self), NoRes(NewReplica(Self)))
        /\ last = [a |-> "init"] /\ steps = 0 /\ MonInit

Next ==
  /\ steps < MaxSteps
  /\ \/ \E x \in Foreign : MLJoin(x) \/ MLLeave(x) \/ MLUpdate(x)
     \/ \E ty \in {1, 2}, x \in Names, lt \in 0..MaxLT, prune \in {0, 1} : (ty = 1 => prune = 0) /\ NetMsg(ty, x, lt, prune)
     \/ \E pp \in PPs : NetMerge(pp)
     \/ \E x \in Names, prune \in {0, 1} : ApiForceLeave(x, prune)
     \/ ApiBroadcastJoin
     \/ ApiLeave
     \/ \E f \in IncSubs(R.failedL), l \in IncSubs(R.leftL) : ApiReap(f, l)
     \/ \E s \in IncSubs(IntSeq) : TimeExpire(s)

Spec == Init /\ [][Next]_vars
Props == M.bad = {}
=============================================================================
