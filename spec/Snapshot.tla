------------------------------ MODULE Snapshot ------------------------------
(* serf/snapshot.go -- the Snapshotter, its two files and process crashes / I/O faults.     *)
(*                                                                                          *)
(* The code is modelled as it is, as a sequential machine whose steps are the calls that    *)
(* leave the process ("operations", exactly what the harness shim intercepts):               *)
(*   open/close/sync/write of the snapshot ("cur") and of <path>.compact ("tmp"), remove,    *)
(*   rename, plus "bufw" = bufio.Writer.WriteString (memory only; cannot be failed).         *)
(* One environment input (Feed an event, Tick, Leave, Shutdown) runs the stream loop's      *)
(* handler to completion; the handler is the pure function Proc*(m) below, which returns     *)
(* the list `out` of operation boundaries with the machine state at each of them.  The spec  *)
(* then executes that list one boundary per step (OpStep), so a Crash can strike between     *)
(* any two operations, e.g. between the REMOVE of the old snapshot and the RENAME of the     *)
(* new one inside compact().  Fault(k) = "the k-th operation of this input returns an error".*)
(*                                                                                          *)
(* Names 1..NN, addresses 1..NA (0 = not alive), Lamport times 0..MaxT; the concrete strings *)
(* behind them only matter through their byte lengths (cfg.nlen/alen/tlen: offset and        *)
(* compaction threshold arithmetic is the code's own) and through cfg.evil = names that      *)
(* contain "\nleave\n" (the line grammar of replay() is line based).                         *)
(*                                                                                          *)
(* Properties C10..C13 are monitors (MonStep) over logged inputs and OBSERVED outputs only:  *)
(* the in-memory state read at each boundary, the state a fresh NewSnapshotter recovers from *)
(* the directory image at that boundary (`rec`), the state recovered at a restart, process   *)
(* survival, event forwarding.  The same text runs on the model's own observation           *)
(* (exhaustive check) and on traces of the real code (Trace_Snapshot).                       *)
EXTENDS Integers, Sequences, FiniteSets, SequencesExt, TLC

CONSTANTS NN, NA, MaxT,
          RmFirst,   \* compact() removes the old snapshot before renaming the new one (the code as found)
          NilH     \* compact() sets s.buffered / s.fh to nil before the swap (the code as found)

Names == 1..NN
FI  == 5      \* flushInterval                 (unit: 100 ms)
RI  == 300    \* snapshotErrorRecoveryInterval
CAP == 301    \* ages saturate here ("older than everything")

VARIABLES cfg,     \* [mcs, ral, bpn, nlen, alen, tlen, evil, tags] -- configuration / concretization
          W,       \* the world, one record (so that a step evaluates the handler once):
                   \*   S      persistent machine state [mem, buf, closed, fs, fage, aage, n]
                   \*   clk    serf's Lamport clock minus one (= what updateClock reads)
                   \*   phase  "down" | "up"
                   \*   faults, sess   faults injected / sessions started so far
                   \*   M      monitor state
          last,    \* the input record(s) of the step, as a sequence (the schedule the driver executes)
          steps

vars  == <<cfg, W, last, steps>>

------------------------------------------------------------------------------
(* Lines and the replay() grammar *)

L(k, n, ad, t) == [k |-> k, n |-> n, ad |-> ad, t |-> t]

LineLen(l) ==
  CASE l.k = "alive"    -> 9 + cfg.nlen[l.n] + cfg.alen[l.ad]      \* "alive: " name " " addr "\n"
    [] l.k = "notalive" -> 12 + cfg.nlen[l.n]                      \* "not-alive: " name "\n"
    [] l.k = "clock"    -> 8 + cfg.tlen[l.t + 1]                   \* "clock: " digits "\n"
    [] l.k = "eclock"   -> 14 + cfg.tlen[l.t + 1]                  \* "event-clock: " / "query-clock: "
    [] l.k = "qclock"   -> 14 + cfg.tlen[l.t + 1]
    [] l.k = "leave"    -> 6

SumLen(ls) == FoldLeft(LAMBDA acc, l : acc + LineLen(l), 0, ls)

NoAlive == [i \in 1..NN |-> 0]
ZeroSt  == [alive |-> NoAlive, lc |-> 0, ec |-> 0, qc |-> 0]

\* a `leave` line (or what a name with embedded "\nleave\n" turns its own line into)
LeaveEff(st) == IF cfg.ral THEN st ELSE ZeroSt

ApplyLine(st, l) ==
  CASE l.k = "alive"    -> IF l.n \in cfg.evil THEN LeaveEff(st) ELSE [st EXCEPT !.alive[l.n] = l.ad]
    [] l.k = "notalive" -> IF l.n \in cfg.evil THEN LeaveEff(st) ELSE [st EXCEPT !.alive[l.n] = 0]
    [] l.k = "clock"    -> [st EXCEPT !.lc = l.t]
    [] l.k = "eclock"   -> [st EXCEPT !.ec = l.t]
    [] l.k = "qclock"   -> [st EXCEPT !.qc = l.t]
    [] l.k = "leave"    -> LeaveEff(st)

Replay(ls) == FoldLeft(ApplyLine, ZeroSt, ls)

NoFile == [ex |-> FALSE, lines |-> <<>>]
\* what NewSnapshotter would rebuild from the files as they are now (a missing file is created empty)
Rec(fs) == Replay(fs.cur.lines)

------------------------------------------------------------------------------
(* The machine.  m = [mem, buf, closed, fs, fage, aage, n, fail, failop, clk, out, panic, err] *)
(*   mem  = [alive, lc, ec, qc, lv (leaving), off (offset), fh, bw (handles non-nil)]          *)
(*   buf  = the live bufio.Writer: [data (lines not yet handed to the OS), err (sticky)]       *)
(*   closed = s.fh is non-nil but refers to a closed file (only when ~NilH)              *)
(*   fs   = [cur, tmp], each [ex, lines]                                                       *)
(*   fage/aage = now - lastFlush / now - lastAttemptedCompaction (saturating)                  *)
(*   n = file operations so far in this session, fail = index of the one that fails (0: none) *)
(*   err = the error register (return value of the last call), panic = nil dereference         *)

PendOf(m) == IF m.mem.bw THEN SumLen(m.buf.data) ELSE 0

Bd(m, op, f, ok, wlen) ==
  [op |-> op, f |-> f, ok |-> ok, wlen |-> wlen, nl |-> (op = "write"), mem |-> m.mem, pend |-> PendOf(m),
   fs |-> m.fs, n |-> m.n]

\* a real file operation: numbered, may be failed by injection, may fail naturally (~can)
DoOp(m, op, f, can, newfs, wlen) ==
  LET ok == can /\ m.fail # m.n + 1 /\ m.failop # op \o ":" \o f
      m1 == [m EXCEPT !.n = @ + 1, !.fs = IF ok THEN newfs ELSE @, !.err = ~ok]
  IN  [m1 EXCEPT !.out = Append(@, Bd(m1, op, f, ok, wlen))]

\* bufio.Writer.WriteString on a writer over file f: a boundary, not a file operation
Bufw(m, f) == [m EXCEPT !.out = Append(@, Bd(m, "bufw", f, TRUE, 0))]

Panic(m) == [m EXCEPT !.panic = TRUE]

\* s.buffered.WriteString(l)
BWrite(m, l) ==
  IF m.panic THEN m
  ELSE IF ~m.mem.bw THEN Panic(m)                       \* nil *bufio.Writer
  ELSE IF m.buf.err THEN Bufw([m EXCEPT !.err = TRUE], "cur")
  ELSE Bufw([m EXCEPT !.buf.data = Append(@, l), !.err = FALSE], "cur")

\* s.buffered.Flush()
BFlush(m) ==
  IF m.panic THEN m
  ELSE IF ~m.mem.bw THEN Panic(m)
  ELSE IF m.buf.err THEN [m EXCEPT !.err = TRUE]
  ELSE IF m.buf.data = <<>> THEN [m EXCEPT !.err = FALSE]
  ELSE LET m1 == DoOp(m, "write", "cur", m.fs.cur.ex /\ ~m.closed,
                      [m.fs EXCEPT !.cur.lines = @ \o m.buf.data], SumLen(m.buf.data))
       IN  IF m1.err THEN [m1 EXCEPT !.buf.err = TRUE] ELSE [m1 EXCEPT !.buf.data = <<>>]

AliveLines(al) ==
  LET idx == SelectSeq([i \in 1..NN |-> i], LAMBDA i : al[i] # 0)
  IN  [j \in 1..Len(idx) |-> L("alive", idx[j], al[idx[j]], 0)]

RECURSIVE BufwN(_, _, _)
BufwN(m, f, k) == IF k = 0 THEN m ELSE BufwN(Bufw(m, f), f, k - 1)

\* compact(): the steps in the code's order
Compact(m0) ==
  IF m0.panic THEN m0 ELSE
  LET a1 == DoOp(m0, "open", "tmp", TRUE, [m0.fs EXCEPT !.tmp = [ex |-> TRUE, lines |-> <<>>]], 0) IN
  IF a1.err THEN a1 ELSE
  LET lines == AliveLines(a1.mem.alive) \o
               << L("clock", 0, 0, a1.mem.lc), L("eclock", 0, 0, a1.mem.ec), L("qclock", 0, 0, a1.mem.qc) >>
      a2 == BufwN(a1, "tmp", Len(lines))
      a3 == DoOp(a2, "write", "tmp", TRUE, [a2.fs EXCEPT !.tmp.lines = lines], SumLen(lines)) IN
  IF a3.err THEN a3 ELSE                                  \* (the temp handle leaks; nothing else)
  LET a4 == DoOp(a3, "sync", "tmp", TRUE, a3.fs, 0) IN
  IF a4.err THEN [DoOp(a4, "close", "tmp", TRUE, a4.fs, 0) EXCEPT !.err = TRUE] ELSE
  LET a5 == DoOp(a4, "close", "tmp", TRUE, a4.fs, 0)
      a6 == BFlush(a5) IN                                 \* _ = s.buffered.Flush()
  IF a6.panic THEN a6 ELSE
  LET a7  == IF NilH THEN [a6 EXCEPT !.mem.bw = FALSE] ELSE a6             \* s.buffered = nil
      a8  == IF a7.mem.fh THEN DoOp(a7, "close", "cur", ~a7.closed, a7.fs, 0) ELSE a7   \* nil *os.File: ErrInvalid
      a9  == IF NilH THEN [a8 EXCEPT !.mem.fh = FALSE, !.err = FALSE]        \* s.fh = nil
                           ELSE [a8 EXCEPT !.closed = TRUE, !.err = FALSE]         \* (handles kept, file closed)
      a10 == IF RmFirst THEN DoOp(a9, "remove", "cur", a9.fs.cur.ex, [a9.fs EXCEPT !.cur = NoFile], 0)
                            ELSE a9 IN
  IF a10.err THEN a10 ELSE
  LET a11 == DoOp(a10, "rename", "tmp", a10.fs.tmp.ex, [cur |-> a10.fs.tmp, tmp |-> NoFile], 0) IN
  IF a11.err THEN a11 ELSE
  LET a12 == DoOp(a11, "open", "cur", TRUE, [a11.fs EXCEPT !.cur.ex = TRUE], 0) IN
  IF a12.err THEN a12 ELSE
  [a12 EXCEPT !.mem.fh = TRUE, !.mem.bw = TRUE, !.buf = [data |-> <<>>, err |-> FALSE], !.closed = FALSE,
              !.mem.off = SumLen(lines), !.fage = 0, !.err = FALSE]

MaxSize(m) ==
  LET est == Cardinality({i \in 1..NN : m.mem.alive[i] # 0}) * cfg.bpn
  IN  IF est > cfg.mcs THEN est ELSE cfg.mcs

\* appendLine(l)
AppendLine(m, l) ==
  LET m1 == BWrite(m, l) IN
  IF m1.panic \/ m1.err THEN m1 ELSE
  LET fl == m1.fage > FI
      m2 == IF fl THEN BFlush([m1 EXCEPT !.fage = 0]) ELSE m1 IN
  IF m2.panic \/ (fl /\ m2.err) THEN m2 ELSE
  LET m3 == [m2 EXCEPT !.mem.off = @ + LineLen(l), !.err = FALSE] IN
  IF m3.mem.off > MaxSize(m3) THEN Compact(m3) ELSE m3

\* tryAppend(l)
TryAppend(m, l) ==
  IF m.panic THEN m ELSE
  LET m1 == AppendLine(m, l) IN
  IF m1.panic \/ ~m1.err THEN m1
  ELSE IF m1.aage > RI
       THEN LET m2 == Compact([m1 EXCEPT !.aage = 0]) IN [m2 EXCEPT !.err = FALSE]
       ELSE [m1 EXCEPT !.err = FALSE]

UpdateClock(m) ==
  IF m.panic THEN m
  ELSE IF m.clk > m.mem.lc THEN TryAppend([m EXCEPT !.mem.lc = m.clk], L("clock", 0, 0, m.clk))
  ELSE m

RECURSIVE Members(_, _, _, _)
Members(m, join, ms, i) ==
  IF i > Len(ms) \/ m.panic THEN m
  ELSE LET n == ms[i][1]   ad == ms[i][2]
           m1 == IF join THEN TryAppend([m EXCEPT !.mem.alive[n] = ad], L("alive", n, ad, 0))
                         ELSE TryAppend([m EXCEPT !.mem.alive[n] = 0], L("notalive", n, 0, 0))
       IN  Members(m1, join, ms, i + 1)

\* event types: 1 join 2 leave 3 failed 4 update 5 reap 6 user 7 query
ProcEvent(m, e) ==
  IF m.mem.lv THEN m                                       \* nothing is recorded after a leave
  ELSE CASE e.ty = 1       -> UpdateClock(Members(m, TRUE, e.ms, 1))
         [] e.ty \in {2, 3} -> UpdateClock(Members(m, FALSE, e.ms, 1))
         [] e.ty \in {4, 5} -> UpdateClock(m)
         [] e.ty = 6       -> IF e.t > m.mem.ec THEN TryAppend([m EXCEPT !.mem.ec = e.t], L("eclock", 0, 0, e.t)) ELSE m
         [] e.ty = 7       -> IF e.t > m.mem.qc THEN TryAppend([m EXCEPT !.mem.qc = e.t], L("qclock", 0, 0, e.t)) ELSE m

SyncFh(m) == IF m.panic \/ ~m.mem.fh THEN m ELSE DoOp(m, "sync", "cur", ~m.closed, m.fs, 0)

ProcLeave(m) ==
  LET m1 == [m EXCEPT !.mem.lv = TRUE, !.mem.alive = IF cfg.ral THEN @ ELSE NoAlive]
      m2 == TryAppend(m1, L("leave", 0, 0, 0))
  IN  SyncFh(BFlush(m2))

ProcShutdown(m) ==
  LET m1 == SyncFh(BFlush(UpdateClock(m)))
  IN  IF m1.panic \/ ~m1.mem.fh THEN m1 ELSE DoOp(m1, "close", "cur", ~m1.closed, m1.fs, 0)

\* w = the world record [S, clk, ...] (see the variables)
\* a fault WINDOW: an input record may carry failop = "op:file" (e.g. "rename:tmp"): every operation of that kind
\* fails while the input is handled (the resource is unavailable for a while), then the fault is gone
FailOp(act) == IF "failop" \in DOMAIN act THEN act.failop ELSE ""

Machine(w, fail, failop) ==
  [mem |-> w.S.mem, buf |-> w.S.buf, closed |-> w.S.closed, fs |-> w.S.fs, fage |-> w.S.fage, aage |-> w.S.aage, n |-> w.S.n,
   fail |-> IF fail = 0 THEN 0 ELSE w.S.n + fail, failop |-> failop, clk |-> w.clk, out |-> <<>>, panic |-> FALSE, err |-> FALSE]

ProcOf(w, act) ==
  CASE act.a = "feed"     -> ProcEvent(Machine(w, act.fail, FailOp(act)), act)
    [] act.a = "tick"     -> UpdateClock(Machine(w, act.fail, FailOp(act)))
    [] act.a = "leave"    -> ProcLeave(Machine(w, act.fail, FailOp(act)))
    [] act.a = "shutdown" -> ProcShutdown(Machine(w, act.fail, FailOp(act)))

------------------------------------------------------------------------------
(* Observations: what the harness records *)
\* x = number of recovered entries that are none of the schedule's names / addresses / times (always 0 here)
StOf(mem) == [alive |-> mem.alive, lc |-> mem.lc, ec |-> mem.ec, qc |-> mem.qc, x |-> 0]
MemObs(mem) == [alive |-> mem.alive, lc |-> mem.lc, ec |-> mem.ec, qc |-> mem.qc, x |-> 0,
                lv |-> mem.lv, off |-> mem.off, fh |-> mem.fh, bw |-> mem.bw]
RecObs(fs) == LET r == Rec(fs) IN [alive |-> r.alive, lc |-> r.lc, ec |-> r.ec, qc |-> r.qc, x |-> 0]
ObsOp(bd) == [mem |-> MemObs(bd.mem), pend |-> bd.pend, rec |-> RecObs(bd.fs), nf |-> ~bd.fs.cur.ex]
OpAct(bd) == [a |-> "op", op |-> bd.op, f |-> bd.f, ok |-> bd.ok, wlen |-> bd.wlen, nl |-> bd.nl]

------------------------------------------------------------------------------
(* Monitors.  M = [viol, exp, eclk, left, atLeave, clean, had, faulted, fop, tn, tc, cands, durable]  *)
(*   exp     : <alive, lc, ec, qc> the property expects a clean restart to recover, from inputs         *)
(*   eclk    : the Lamport clock (minus one) as the inputs set it                                       *)
(*   left/atLeave : a graceful leave was issued this session / rejoin set known at that moment          *)
(*   clean   : the session ended with Shutdown (and the process survived it)                            *)
(*   faulted/fop  : an operation failed this session / which one                                        *)
(*   tn, tc  : names / clocks changed by inputs AFTER the faulting input                                *)
(*   cands   : in-memory states observed since the last moment all data was with the OS                 *)

C10Clauses == {"C10_rejoin_set", "C10_clock", "C10_event_clock", "C10_query_clock", "C10_torn_tail"}
C11Clauses == {"C11_crash_safe", "C11_snapshot_missing", "C11_torn_tail"}
C12Clauses == {"C12_no_panic", "C12_forwarded", "C12_later_recorded"}
C13Clauses == {"C13_no_rejoin", "C13_set_at_leave", "C13_torn_tail"}

V(c, t) == [c |-> c, t |-> t \cup cfg.tags]
MonInit == [viol |-> {}, exp |-> ZeroSt, eclk |-> 0, left |-> FALSE, atLeave |-> NoAlive, clean |-> FALSE,
            had |-> FALSE, faulted |-> FALSE, fop |-> "", tn |-> {}, tc |-> {}, cands |-> {}, written |-> FALSE]

Max2(a, b) == IF a > b THEN a ELSE b
Proj(mem) == [alive |-> mem.alive, lc |-> mem.lc, ec |-> mem.ec, qc |-> mem.qc, lv |-> mem.lv]
\* after a graceful leave without rejoin-after-leave the clocks are forgotten by design: only the rejoin set counts
Match(r, c) == /\ r.alive = c.alive /\ r.x = 0
               /\ (c.lv /\ ~cfg.ral) \/ (r.lc = c.lc /\ r.ec = c.ec /\ r.qc = c.qc)

SwapOps == {"remove", "rename"}

MonFeed(m, e) ==
  IF m.left THEN m
  ELSE LET ns == { e.ms[i][1] : i \in DOMAIN e.ms }
           al == CASE e.ty = 1 -> [n \in 1..NN |-> IF \E i \in DOMAIN e.ms : e.ms[i][1] = n
                                                    THEN e.ms[CHOOSE i \in DOMAIN e.ms : e.ms[i][1] = n /\ \A j \in DOMAIN e.ms : e.ms[j][1] = n => j <= i][2]
                                                    ELSE m.exp.alive[n]]
                    [] e.ty \in {2, 3} -> [n \in 1..NN |-> IF n \in ns THEN 0 ELSE m.exp.alive[n]]
                    [] OTHER -> m.exp.alive
           ec == IF e.ty = 6 THEN Max2(m.exp.ec, e.t) ELSE m.exp.ec
           qc == IF e.ty = 7 THEN Max2(m.exp.qc, e.t) ELSE m.exp.qc
       IN  [m EXCEPT !.exp = [alive |-> al, lc |-> m.exp.lc, ec |-> ec, qc |-> qc],
                     !.tn = IF m.faulted /\ e.ty \in {1, 2, 3} THEN @ \cup ns ELSE @,
                     !.tc = IF m.faulted THEN @ \cup (IF ec # m.exp.ec THEN {"e"} ELSE {}) \cup (IF qc # m.exp.qc THEN {"q"} ELSE {})
                            ELSE @]

MonOp(m, act, o) ==
  LET cur  == Proj(o.mem)
      dur  == \/ act.op = "write" /\ act.f = "cur" /\ act.ok /\ act.wlen = o.pend /\ act.nl
              \/ act.op = "rename" /\ act.ok
      cs   == IF dur THEN {cur} ELSE m.cands \cup {cur}
      safe == \E c \in cs : Match(o.rec, c)
      wr   == m.written \/ (act.op = "write" /\ act.f = "cur" /\ act.ok)
      tg   == IF act.op = "remove" /\ act.ok THEN {"rm_window"} ELSE {}
      nofault == ~m.faulted /\ act.ok
      v1   == IF nofault /\ ~safe THEN {V("C11_crash_safe", tg)} ELSE {}
      v2   == IF nofault /\ o.nf /\ wr THEN {V("C11_snapshot_missing", tg)} ELSE {}
  IN  [m EXCEPT !.cands = cs, !.written = wr, !.viol = @ \cup v1 \cup v2,
                !.faulted = @ \/ (~act.ok), !.fop = IF ~m.faulted /\ ~act.ok THEN act.op \o ":" \o act.f ELSE @]

RestartClauses(m, st) ==
  IF ~m.had \/ ~m.clean THEN {}
  ELSE IF m.left /\ m.faulted THEN {}
  ELSE IF m.left THEN
         (IF ~cfg.ral /\ st.alive # NoAlive THEN {V("C13_no_rejoin", {})} ELSE {})
         \cup (IF cfg.ral /\ st.alive # m.atLeave THEN {V("C13_set_at_leave", {})} ELSE {})
  ELSE IF m.faulted THEN
         (IF \/ \E n \in m.tn : st.alive[n] # m.exp.alive[n]
             \/ "c" \in m.tc /\ st.lc # m.exp.lc
             \/ "e" \in m.tc /\ st.ec # m.exp.ec
             \/ "q" \in m.tc /\ st.qc # m.exp.qc
          THEN {V("C12_later_recorded", {})} ELSE {})
  ELSE IF "serf_level" \in cfg.tags THEN {}       \* Serf-level history: Serf's own clocks are not inputs of the trace
  ELSE (IF st.alive # m.exp.alive \/ st.x # 0 THEN {V("C10_rejoin_set", {})} ELSE {})
       \cup (IF st.lc # m.exp.lc THEN {V("C10_clock", {})} ELSE {})
       \cup (IF st.ec # m.exp.ec THEN {V("C10_event_clock", {})} ELSE {})
       \cup (IF st.qc # m.exp.qc THEN {V("C10_query_clock", {})} ELSE {})

FaultTags(m) == IF m.fop \in {"remove:cur", "rename:tmp", "open:cur"} THEN {"swap_fault"} ELSE {}

MonStep(m, act, o) ==
  CASE act.a = "feed"     -> MonFeed(m, act)
    [] act.a = "wit"      -> [m EXCEPT !.eclk = Max2(@, act.v),
                                       !.tc = IF m.faulted /\ act.v > m.eclk /\ ~m.left THEN @ \cup {"c"} ELSE @]
    [] act.a = "leave"    -> [m EXCEPT !.left = TRUE, !.atLeave = m.exp.alive]
    [] act.a = "shutdown" -> [m EXCEPT !.exp.lc = Max2(@, m.eclk)]
    [] act.a = "op"       -> MonOp(m, act, o)
    [] act.a = "done"     -> LET m1 == [m EXCEPT !.cands = @ \cup {Proj(o.mem)},
                                                  !.viol = @ \cup (IF act.of = "feed" /\ ~o.fwd
                                                                   THEN {V("C12_forwarded", FaultTags(m))} ELSE {})]
                             IN  IF act.of = "shutdown" THEN [m1 EXCEPT !.clean = TRUE] ELSE m1
    [] act.a = "panic"    -> [m EXCEPT !.viol = @ \cup {V("C12_no_panic", FaultTags(m))}, !.clean = FALSE]
    [] act.a = "started"  -> IF ~o.ok THEN m
                             ELSE [MonInit EXCEPT !.viol = m.viol \cup RestartClauses(m, o.st),
                                                  !.eclk = o.st.lc, !.had = TRUE,
                                                  !.exp = [alive |-> o.st.alive, lc |-> o.st.lc, ec |-> o.st.ec, qc |-> o.st.qc],
                                                  !.cands = {[alive |-> o.st.alive, lc |-> o.st.lc, ec |-> o.st.ec,
                                                              qc |-> o.st.qc, lv |-> FALSE]}]
    \* a burst of events pushed without waiting, right before a shutdown: which of them the main loop and which the
    \* shutdown drain loop sees is a race; after a leave none may be recorded whoever sees them, so the restart is judged
    \* as usual; before a leave the expected state would be ambiguous and the session is not judged
    [] act.a = "burst"    -> IF m.left THEN m ELSE [m EXCEPT !.had = FALSE]
    \* torn-tail crash class: the snapshot image cut at every byte offset inside its last line, each cut replayed by the
    \* real NewSnapshotter (o.recs = the distinct results); o.base = what the image cut at the START of that line replays
    \* to.  A fragment without its newline is not a recorded line: every cut must recover exactly base.
    [] act.a = "torn"     -> IF \A i \in DOMAIN o.recs : o.recs[i] = o.base THEN m
                             ELSE [m EXCEPT !.viol = @ \cup {V("C10_torn_tail", {}), V("C11_torn_tail", {})}
                                                      \cup (IF m.left THEN {V("C13_torn_tail", {})} ELSE {})]
    [] OTHER              -> m          \* tick, adv, start, crash: nothing to judge at the input itself

------------------------------------------------------------------------------
(* Steps.  One step = one environment input handled to completion (the operations of an input are    *)
(* strictly sequential, so nothing is lost by taking them together): the monitor is run over the input  *)
(* record, then over every operation boundary in order, then over the completion / panic record --      *)
(* exactly the lines the harness writes for that input.  A crash may end the input after any boundary.  *)
(* Each step is a function from the world to the next world.                                            *)
FinState(m) == [mem |-> m.mem, buf |-> m.buf, closed |-> m.closed, fs |-> m.fs, fage |-> m.fage, aage |-> m.aage, n |-> m.n]

RECURSIVE MonOps(_, _, _, _)
MonOps(m, out, i, k) ==
  IF i > k THEN m ELSE MonOps(MonStep(m, OpAct(out[i]), ObsOp(out[i])), out, i + 1, k)

DoneAct(act) == [a |-> "done", of |-> act.a]

\* NewSnapshotter on the files as they are (the snapshot file is created when missing)
StartState(w) ==
  LET fs1 == [w.S.fs EXCEPT !.cur.ex = TRUE]
      st  == Rec(fs1)
  IN  [mem |-> [alive |-> st.alive, lc |-> st.lc, ec |-> st.ec, qc |-> st.qc, lv |-> FALSE,
                off |-> SumLen(fs1.cur.lines), fh |-> TRUE, bw |-> TRUE],
       buf |-> [data |-> <<>>, err |-> FALSE], closed |-> FALSE, fs |-> fs1, fage |-> CAP, aage |-> CAP, n |-> 0]

StartW(w) ==
  LET s1 == StartState(w)
  IN  [w EXCEPT !.S = s1, !.clk = s1.mem.lc,    \* Serf.Create: clock.Increment(); clock.Witness(LastClock())
                !.phase = "up", !.sess = @ + 1,
                !.M = MonStep(w.M, [a |-> "started"], [ok |-> TRUE, st |-> StOf(s1.mem)])]

\* the world after an input was handled completely / panicked / was cut short by a crash after k boundaries
Charge(w, act) == [w EXCEPT !.faults = @ + (IF act.fail > 0 THEN 1 ELSE 0)]
DoneW(w, act, c)  == [Charge(w, act) EXCEPT !.S = FinState(c), !.phase = IF act.a = "shutdown" THEN "down" ELSE "up"]
CutW(w, c, k)     == [w EXCEPT !.S = [w.S EXCEPT !.fs = IF k = 0 THEN w.S.fs ELSE c.out[k].fs,
                                                 !.n  = IF k = 0 THEN w.S.n ELSE c.out[k].n],
                               !.phase = "down"]
PanicW(w, act, c) == CutW(Charge(w, act), c, Len(c.out))

\* an input handled by the stream loop, to completion (or to the panic)
InputW(w, act) ==
  LET c  == ProcOf(w, act)
      m1 == MonOps(MonStep(w.M, act, 0), c.out, 1, Len(c.out))
  IN  IF c.panic
      THEN [PanicW(w, act, c) EXCEPT !.M = MonStep(m1, [a |-> "panic"], 0)]
      ELSE [DoneW(w, act, c) EXCEPT !.M = MonStep(m1, DoneAct(act), [fwd |-> TRUE, mem |-> MemObs(c.mem)])]

\* the process dies after k boundaries of the input: memory (mem, the bufio buffer, the rest of the input)
\* is lost, the files stay as they are
CrashPoints(c) == { k \in 1..Len(c.out) : c.out[k].op # "bufw" }
CrashRec(n) == [a |-> "crash", k |-> n]
InputCrashW(w, act, k) ==
  LET c == ProcOf(w, act)
  IN  [CutW(w, c, k) EXCEPT !.M = MonStep(MonOps(MonStep(w.M, act, 0), c.out, 1, k), CrashRec(c.out[k].n), 0)]

IdleCrashW(w) == [w EXCEPT !.M = MonStep(w.M, CrashRec(w.S.n), 0), !.phase = "down"]

WitW(w, v) == [w EXCEPT !.clk = v, !.M = MonStep(w.M, [a |-> "wit", v |-> v], 0)]

Sat(x, d) == IF x + d > CAP THEN CAP ELSE x + d
AdvW(w, d) == [w EXCEPT !.S.fage = Sat(@, d), !.S.aage = Sat(@, d)]

InitW ==
  [S |-> [mem |-> [alive |-> NoAlive, lc |-> 0, ec |-> 0, qc |-> 0, lv |-> FALSE, off |-> 0, fh |-> FALSE, bw |-> FALSE],
          buf |-> [data |-> <<>>, err |-> FALSE], closed |-> FALSE, fs |-> [cur |-> NoFile, tmp |-> NoFile],
          fage |-> CAP, aage |-> CAP, n |-> 0],
   clk |-> 0, phase |-> "down", faults |-> 0, sess |-> 0, M |-> MonInit]

------------------------------------------------------------------------------
(* Actions and the bounded environment of the exhaustive check *)
CONSTANTS MaxSteps,    \* environment inputs per behaviour
          MaxSess,     \* process starts per behaviour
          MaxFaults,   \* injected faults per behaviour (C12: a single one)
          CrashOK,     \* crashes allowed
          LeaveOK,     \* graceful leave allowed
          McsSet,      \* minCompactSize values
          RalSet,      \* rejoinAfterLeave values
          Evil,        \* names containing "\nleave\n"
          Bpn          \* snapshotBytesPerNode * snapshotCompactionThreshold (256 in the code)

ModelCfg(mcs, ral) ==
  [mcs |-> mcs, ral |-> ral, bpn |-> Bpn, nlen |-> [n \in 1..NN |-> 6], alen |-> [a \in 1..NA |-> 14],
   tlen |-> [t \in 1..MaxT + 1 |-> 1], evil |-> Evil, tags |-> IF Evil = {} THEN {} ELSE {"nl_name"}]

Ev(ty, ms, t) == [a |-> "feed", ty |-> ty, ms |-> ms, t |-> t, fail |-> 0]
EvSet ==
  { Ev(1, << <<n, ad>> >>, 0) : n \in 1..NN, ad \in 1..NA }
  \cup (IF NN >= 2 THEN { Ev(1, << <<1, 1>>, <<2, NA>> >>, 0), Ev(2, << <<1, 0>>, <<2, 0>> >>, 0) } ELSE {})
  \cup { Ev(ty, << <<n, 0>> >>, 0) : ty \in 2..5, n \in 1..NN }
  \cup { Ev(ty, <<>>, t) : ty \in {6, 7}, t \in 1..MaxT }

Inputs == EvSet \cup {[a |-> "tick", fail |-> 0], [a |-> "shutdown", fail |-> 0]}
          \cup (IF LeaveOK /\ ~W.S.mem.lv THEN {[a |-> "leave", fail |-> 0]} ELSE {})

\* the fault choices of an input: none, or any operation the fault-free handling performs
FailSet(act) == IF W.faults >= MaxFaults THEN {0} ELSE 0..(ProcOf(W, act).n - W.S.n)

Idle == W.phase = "up"
Do(w, acts) == W' = w /\ last' = acts /\ steps' = steps + 1 /\ UNCHANGED cfg

Start      == W.phase = "down" /\ Do(StartW(W), <<[a |-> "started"]>>)
Input(act) == Idle /\ Do(InputW(W, act), <<act>>)
InputCrash(act) ==
  /\ Idle
  /\ \E k \in CrashPoints(ProcOf(W, act)) :
        Do(InputCrashW(W, act, k), <<act, CrashRec(ProcOf(W, act).out[k].n)>>)
IdleCrash  == Idle /\ Do(IdleCrashW(W), <<CrashRec(W.S.n)>>)
Wit(v)     == Idle /\ v > W.clk /\ Do(WitW(W, v), <<[a |-> "wit", v |-> v]>>)
Adv(d)     == Idle /\ Do(AdvW(W, d), <<[a |-> "adv", d |-> d]>>)

Init == /\ \E mcs \in McsSet, ral \in RalSet : cfg = ModelCfg(mcs, ral)
        /\ W = InitW /\ last = <<[a |-> "init"]>> /\ steps = 0

Next ==
  /\ steps < MaxSteps
  /\ \/ W.sess < MaxSess /\ Start
     \/ \E a \in Inputs : \E k \in FailSet(a) : Input([a EXCEPT !.fail = k])
     \/ CrashOK /\ \E a \in Inputs : InputCrash(a)
     \/ CrashOK /\ IdleCrash
     \/ \E v \in 1..MaxT : Wit(v)
     \/ \E d \in {6, CAP} : Adv(d)

Spec == Init /\ [][Next]_vars

\* the model's own monitors: everything except the recorded findings must hold
Waived(v) == \/ v.c = "C11_crash_safe"  /\ "rm_window" \in v.t
             \/ v.c = "C11_snapshot_missing" /\ "rm_window" \in v.t
             \/ v.c = "C12_no_panic"    /\ "swap_fault" \in v.t
             \/ v.c \in C10Clauses \cup C11Clauses \cup C13Clauses /\ "nl_name" \in v.t
Props      == \A v \in W.M.viol : Waived(v)
\* reachability of each recorded finding: these are EXPECTED to be violated (one config each)
NoFinding(c) == \A v \in W.M.viol : v.c # c
Clean        == W.M.viol = {}
NoC11safe    == NoFinding("C11_crash_safe")
NoC11missing == NoFinding("C11_snapshot_missing")
NoC12panic   == NoFinding("C12_no_panic")
NoC10rejoin  == NoFinding("C10_rejoin_set")
=============================================================================
