------------------------------ MODULE TagCodec ------------------------------
(* C32 -- tags and gossip messages survive encoding unchanged (F-pattern).      *)
(* serf/serf.go encodeTags / decodeTags / SetTags / Create, serf/messages.go,   *)
(* serf/delegate.go (NodeMeta, relay branch of NotifyMsg).                      *)
(*                                                                              *)
(* Strings are sequences over the byte classes 0 = 0xFF (the tag magic byte),   *)
(* 1 = 'a', 2 = 0x00; the empty string is <<>>.  A tag map is a triple of       *)
(* <<present, value>> for the keys 1 = "role", 2 = "" (empty key), 3 = 0xFF k.  *)
(*                                                                              *)
(* Input record [a, ep, pv, pvb, via, tags, L, s1, s2, s3, cc]:                 *)
(*  ep = "tags"  node A (protocol pv) gets `tags` (via = "create": Config.Tags, *)
(*               "settags": Serf.SetTags); its NodeMeta(512) bytes are given to *)
(*               node B (protocol pvb) as member metadata (NotifyJoin /         *)
(*               NotifyUpdate); observed: B's Members() tags of A               *)
(*  ep = "size"  tags whose encoding has exactly L bytes; observed: accepted?   *)
(*               and the length of the metadata actually produced               *)
(*  ep = "event" A.UserEvent(s1, s2, cc): A's broadcast bytes -> B.NotifyMsg;   *)
(*               observed: the event B's application receives                   *)
(*  ep = "query" A.Query(s1, s2) -> B.NotifyMsg; B answers s3 (q.Respond) with   *)
(*               relay factor 1: direct reply B->A, relayed reply B->C->A;      *)
(*               observed: query at B, reply at A, relay bytes; via = "named":    *)
(*               RequireNodeNames everywhere and the direct reply is dropped, so   *)
(*               the reply can only arrive through the relay                       *)
(*  ep = "relay" a relay envelope around a reply with payload s1 for a peer     *)
(*               named s2 is given to B.NotifyMsg; observed: bytes B forwards   *)
EXTENDS Integers, Sequences, FiniteSets, TLC

CONSTANTS MaxRole,   \* longest role string
          MaxVal,    \* longest other tag value
          MaxStr     \* longest user event / query / reply string

MAGIC == 0
Limit == 512
Alphabet == 0..2
Strs(n) == UNION { [1..m -> Alphabet] : m \in 0..n }
Opt(n)  == {<<0, <<>>>>} \cup { <<1, s>> : s \in Strs(n) }
TagMaps == Opt(MaxRole) \X Opt(MaxVal) \X Opt(MaxVal)
NoTags  == << <<0, <<>>>>, <<0, <<>>>>, <<0, <<>>>> >>

------------------------------------------------------------------------------
(* the codec as the property defines it: what a peer must see *)
Role(tags)   == IF tags[1][1] = 1 THEN tags[1][2] ELSE <<>>
RoleOnly(r)  == << <<1, r>>, <<0, <<>>>>, <<0, <<>>>> >>
Seen(pv, tags) == IF pv >= 3 THEN tags ELSE RoleOnly(Role(tags))

(* the codec as an abstract byte-level function (what the code does), for the laws *)
Encode(pv, tags) == IF pv < 3 THEN [k |-> "raw", s |-> Role(tags), m |-> NoTags]
                              ELSE [k |-> "map", s |-> <<>>, m |-> tags]
Decode(e) == IF e.k = "map" THEN e.m
             ELSE IF e.s # <<>> /\ e.s[1] = MAGIC THEN NoTags      \* bytes after the magic byte are not a map
             ELSE RoleOnly(e.s)

RoleMagic(pv, tags) == pv < 3 /\ Role(tags) # <<>> /\ Role(tags)[1] = MAGIC

\* laws: the byte-level codec realizes the property exactly where the role does not start with the magic byte
CodecLaw(pv, tags) == RoleMagic(pv, tags) \/ Decode(Encode(pv, tags)) = Seen(pv, tags)
CodecLawStrict(pv, tags) == Decode(Encode(pv, tags)) = Seen(pv, tags)     \* expected to FAIL: the recorded finding

Fits(L) == L <= Limit

------------------------------------------------------------------------------
Rec(ep, pv, pvb, via, tags, L, s1, s2, s3, cc) ==
  [a |-> "in", ep |-> ep, pv |-> pv, pvb |-> pvb, via |-> via, tags |-> tags, L |-> L, s1 |-> s1, s2 |-> s2, s3 |-> s3, cc |-> cc]

Versions == 2..5
TagIn   == { Rec("tags", pv, pvb, via, t, 0, <<>>, <<>>, <<>>, 0) :
               pv \in Versions, pvb \in {2, 5}, via \in {"create", "settags"}, t \in TagMaps }
SizeIn  == { Rec("size", pv, 5, via, NoTags, L, <<>>, <<>>, <<>>, 0) :
               pv \in Versions, via \in {"create", "settags"}, L \in {8, 300, 510, 511, 512, 513, 514, 600} }
EventIn == { Rec("event", pv, 5, "-", NoTags, 0, n, p, <<>>, c) : pv \in {2, 5}, n \in Strs(MaxStr), p \in Strs(MaxStr), c \in 0..1 }
\* via = "named": every node involved runs memberlist with RequireNodeNames (as Consul does): a message can only be sent
\* to an address that carries the destination's node name.  For queries the DIRECT reply is then dropped on the
\* transport, so that only the relayed copy can reach the origin; for hand-made envelopes the destination name is the
\* destination's real name.
QueryIn == { Rec("query", 5, 5, "-", NoTags, 0, n, p, r, 0) : n \in Strs(1), p \in Strs(MaxStr), r \in Strs(MaxStr) }
           \cup { Rec("query", 5, 5, "named", NoTags, 0, <<1>>, p, r, 0) : p \in Strs(MaxStr), r \in Strs(MaxStr) }
RelayIn == { Rec("relay", 5, 5, "-", NoTags, 0, p, d, <<>>, 0) : p \in Strs(MaxStr), d \in Strs(1) }
           \cup { Rec("relay", 5, 5, "named", NoTags, 0, p, <<>>, <<>>, 0) : p \in Strs(MaxStr) }
Inputs == TagIn \cup SizeIn \cup EventIn \cup QueryIn \cup RelayIn

------------------------------------------------------------------------------
(* expected observation and monitor *)
Expected(i) ==
  CASE i.ep = "tags"  -> [seen |-> Seen(i.pv, i.tags), ok |-> 1]
    [] i.ep = "size"  -> [ok |-> IF Fits(i.L) THEN 1 ELSE 0, len |-> i.L]
    [] i.ep = "event" -> [name |-> i.s1, payload |-> i.s2, cc |-> i.cc, n |-> 1]
    [] i.ep = "query" -> [name |-> i.s1, payload |-> i.s2, reply |-> i.s3, replies |-> 1, same |-> 1]
    [] i.ep = "relay" -> [same |-> 1, n |-> 1]

Clauses(i, o) ==
  LET e == Expected(i) IN
  CASE i.ep = "tags"  -> (IF o.ok = 1 /\ o.seen # e.seen THEN {"C32_tags_roundtrip"} ELSE {})
                         \* a (small) tag set may be refused only if the protocol cannot carry it
                         \cup (IF o.ok = 0 /\ ~RoleMagic(i.pv, i.tags) THEN {"C32_tags_refused"} ELSE {})
    [] i.ep = "size"  -> (IF o.ok = 1 /\ ~Fits(o.len) THEN {"C32_accepted_too_large"} ELSE {})
                         \cup (IF o.ok = 1 /\ ~Fits(i.L) THEN {"C32_accepted_too_large"} ELSE {})
                         \cup (IF o.ok = 0 /\ Fits(i.L) THEN {"C32_fitting_rejected"} ELSE {})
    [] i.ep = "event" -> IF o.n = 1 /\ o.name = e.name /\ o.payload = e.payload /\ o.cc = e.cc THEN {} ELSE {"C32_event_roundtrip"}
    [] i.ep = "query" -> (IF o.name = e.name /\ o.payload = e.payload THEN {} ELSE {"C32_query_roundtrip"})
                         \cup (IF o.replies = 1 /\ o.reply = e.reply THEN {} ELSE {"C32_reply_roundtrip"})
                         \cup (IF o.same = 1 THEN {} ELSE {"C32_relay_bytes"})
    [] i.ep = "relay" -> IF o.same = 1 /\ o.n = 1 THEN {} ELSE {"C32_relay_bytes"}

Tags(i) == {i.ep} \cup (IF i.ep = "tags" /\ RoleMagic(i.pv, i.tags) THEN {"role_magic_pv2"} ELSE {})
           \cup (IF i.ep \in {"query", "relay"} /\ i.via = "named" THEN {"named"} ELSE {})

(* model of the code as found: used only by the config that EXPECTS the monitor to fire *)
CodeAsFound(i) == IF i.ep = "tags" THEN [seen |-> Decode(Encode(i.pv, i.tags)), ok |-> 1] ELSE Expected(i)
=============================================================================
