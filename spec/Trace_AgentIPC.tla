-------------------------- MODULE Trace_AgentIPC --------------------------
(* One line per msgpack object the raw client put on the wire of a real         *)
(* AgentIPC: act = the object (with the generator's wait hints), obs = replies  *)
(* received, effects seen on the real agent, stream records, EOF.  The server   *)
(* model is deterministic: a line conforms iff the predicted replies, effects   *)
(* and closure equal the observed ones; otherwise the model keeps its own       *)
(* prediction (hidden state cannot be re-read) and the line is reported.  The   *)
(* C24 monitor runs on the observation of every line.                           *)
EXTENDS AgentIPC, Json
Trace == ndJsonDeserialize("trace.ndjson")
VARIABLES l
tvars == <<vars, l>>
Line == Trace[l]
ToSet(s) == { s[i] : i \in DOMAIN s }

Seen(o) == [ rep |-> o.rep, eff |-> ToSet(o.eff), srec |-> o.srec, closed |-> o.closed ]
Obj(act) ==
  CASE act.a = "hdr"  -> [a |-> "hdr", cmd |-> act.cmd, seq |-> act.seq]
    [] act.a = "body" -> [a |-> "body", cmd |-> act.cmd, v |-> act.v]
    [] act.a = "batch" -> [a |-> "batch", objs |-> act.objs]
    [] OTHER          -> [a |-> act.a]

TraceInit == Init /\ l = 1

Reset == S' = NewS(FALSE) /\ M' = NewM /\ obs' = NoObs /\ last' = [a |-> "init"] /\ steps' = 0 /\ cst' = ""

Step ==
  /\ l <= Len(Trace)
  /\ l' = l + 1
  /\ IF Line.act.a = "reset" THEN Reset
     ELSE IF Line.act.a = "conf" THEN
            /\ S' = NewS(Line.act.keyed) /\ obs' = NoObs /\ cst' = "" /\ steps' = 1
            /\ last' = Line.act /\ M' = MonStep(M, Line.act, NoObs)
     ELSE LET o    == Obj(Line.act)
              r    == IF o.a = "close" THEN R([S EXCEPT !.open = FALSE], <<>>, {})
                      ELSE IF o.a = "batch" THEN RecvAll(R(S, <<>>, {}), o.objs, 1) ELSE Recv(S, o)
              pred == ObsOf(S, r)
              seen == Seen(Line.obs)
          IN  /\ S' = r.S /\ obs' = seen /\ last' = Line.act /\ steps' = steps + 1 /\ cst' = ""
              /\ M' = MonAct(M, o, seen)
              /\ (pred.rep # seen.rep \/ pred.eff # seen.eff \/ pred.closed # seen.closed)
                    => PrintT(<<"DIVERGE", l>>)
  /\ \A c \in M'.bad \ M.bad : PrintT(<<"MONITOR", l, {c}, {}>>)    \* one short line per clause (TLC wraps long ones)

TraceNext == Step
TraceSpec == TraceInit /\ [][TraceNext]_tvars
Done == l = Len(Trace) + 1 => PrintT(<<"DONE", l>>)
=============================================================================
