-------------------------- MODULE Trace_AgentTags --------------------------
(* One line per `tags` RPC on a real agent with a tags file: act = the edit,    *)
(* obs = reply error flag, effective tags (LocalMember), tags restored by the   *)
(* agent's own loader from the file.  The state is fully observed: a line that  *)
(* does not conform re-synchronises the model from the observation.             *)
EXTENDS AgentTags, Json
Trace == ndJsonDeserialize("trace.ndjson")
VARIABLES l
tvars == <<vars, l>>
Line == Trace[l]
Fn(s) == [k \in Keys |-> s[k]]
Seen(o) == [err |-> o.err, tags |-> Fn(o.tags), file |-> Fn(o.file), fileok |-> o.fileok, cfgeq |-> o.cfgeq]
Act(a) == [a |-> "edit", set |-> Fn(a.set), del |-> Fn(a.del)]

TraceInit == Init /\ l = 1
Step ==
  /\ l <= Len(Trace)
  /\ l' = l + 1
  /\ IF Line.act.a = "reset" THEN
          /\ tags' = Initial /\ file' = Initial /\ obs' = ObsOf(Initial, Initial, 0) /\ M' = NewM
          /\ last' = [a |-> "init"] /\ steps' = 0
     ELSE LET a == Act(Line.act)  o == Seen(Line.obs)
              new == Apply(tags, a.set, a.del)
              pred == IF Size(new) > Limit THEN ObsOf(tags, file, 1) ELSE ObsOf(new, new, 0)
          IN  /\ tags' = o.tags /\ file' = o.file /\ obs' = o /\ last' = a /\ steps' = steps + 1
              /\ M' = MonStep(M, a, o)
              /\ (pred # o) => PrintT(<<"DIVERGE", l>>)
              /\ \A c \in M'.bad : PrintT(<<"MONITOR", l, {c}, IF c = "C30_persisted" THEN M'.tags ELSE {}>>)
TraceNext == Step
TraceSpec == TraceInit /\ [][TraceNext]_tvars
Done == l = Len(Trace) + 1 => PrintT(<<"DONE", l>>)
=============================================================================
