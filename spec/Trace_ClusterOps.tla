-------------------------- MODULE Trace_ClusterOps --------------------------
(* Trace lines: the operations the harness executed on the real cluster (the     *)
(* model must accept each one: the generator's causal guards are re-checked),    *)
(* then one "quiet" line carrying every node's observed view.                    *)
EXTENDS ClusterOps, Json
Trace == ndJsonDeserialize("trace.ndjson")
VARIABLES l
tvars == <<vars, l>>
Line == Trace[l]
SetOf(s) == { i - 1 : i \in { j \in DOMAIN s : s[j] = 1 } }
ActFor(act) ==
  CASE act.a = "start"     -> Start(act.x)
    [] act.a = "join"      -> Join(act.x, act.y)
    [] act.a = "leave"     -> Leave(act.x)
    [] act.a = "crash"     -> Crash(act.x)
    [] act.a = "partition" -> Partition(SetOf(act.s))
    [] act.a = "heal"      -> Heal
    [] act.a = "wait"      -> Wait
    [] OTHER -> FALSE
TraceInit == Init /\ l = 1
Reset == /\ st' = [x \in Nodes |-> 0] /\ comp' = [x \in Nodes |-> {x}] /\ know' = [x \in Nodes |-> Blank]
         /\ part' = {} /\ ops' = 0 /\ last' = [a |-> "init"] /\ M' = [bad |-> {}, wrong |-> {}, tags |-> {}] /\ passive' = {} /\ unheard' = {}
Step ==
  /\ l <= Len(Trace)
  /\ l' = l + 1
  /\ IF Line.act.a = "reset" THEN Reset
     ELSE IF Line.act.a = "quiet"
            THEN /\ M' = MonQuiet(M, Line.obs.views)
                 /\ last' = Line.act
                 /\ UNCHANGED <<st, comp, know, part, ops, passive, unheard>>
     ELSE \/ ActFor(Line.act) /\ ops' = ops + 1 /\ UNCHANGED M
          \/ /\ ~ENABLED (ActFor(Line.act) /\ ops' = ops + 1 /\ UNCHANGED M)
             /\ PrintT(<<"DIVERGE", l>>)
             /\ UNCHANGED vars
  /\ ~(M'.bad \subseteq M.bad) => PrintT(<<"MONITOR", l, M'.bad \ M.bad, M'.tags>>)
TraceNext == Step
TraceSpec == TraceInit /\ [][TraceNext]_tvars
Done == l = Len(Trace) + 1 => PrintT(<<"DONE", l>>)
=============================================================================
