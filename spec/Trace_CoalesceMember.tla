----------------------- MODULE Trace_CoalesceMember -----------------------
(* Trace validation: every line of trace.ndjson is one call on the real         *)
(* memberEventCoalescer: act = the action record, obs.out = what Flush put on   *)
(* the channel.  Conforming lines step the model; the C17 monitor runs on every *)
(* line from logged data only.                                                  *)
EXTENDS CoalesceMember, Json
Trace == ndJsonDeserialize("trace.ndjson")
VARIABLES l, div
tvars == <<vars, l, div>>

Line == Trace[l]
Conform == ModelNext /\ last' = Line.act /\ out' = Line.obs.out

TraceInit == Init /\ l = 1 /\ div = FALSE

Reset ==
  /\ latest' = None /\ lastSent' = None /\ out' = <<>> /\ last' = [a |-> "init"]
  /\ pend' = None /\ appSaw' = None /\ lastKind' = None /\ bad' = {}
  /\ div' = FALSE

Step ==
  /\ l <= Len(Trace)
  /\ l' = l + 1
  /\ IF Line.act.a = "reset" THEN Reset
     ELSE /\ MonNext(Line.act, Line.obs.out)
          /\ IF div THEN UNCHANGED <<mvars, div>>
             ELSE \/ Conform /\ div' = FALSE
                  \/ /\ ~ENABLED Conform
                     /\ PrintT(<<"DIVERGE", l>>)
                     /\ UNCHANGED mvars /\ div' = TRUE
  /\ ~(bad' \subseteq bad) => PrintT(<<"MONITOR", l, bad', {}>>)

TraceNext == Step
TraceSpec == TraceInit /\ [][TraceNext]_tvars
Done == l = Len(Trace) + 1 => PrintT(<<"DONE", l>>)
=============================================================================
