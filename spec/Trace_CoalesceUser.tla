------------------------ MODULE Trace_CoalesceUser ------------------------
EXTENDS CoalesceUser, Json
Trace == ndJsonDeserialize("trace.ndjson")
VARIABLES l, div
tvars == <<vars, l, div>>
Line == Trace[l]
Conform == ModelNext /\ last' = Line.act /\ out' = Line.obs
TraceInit == Init /\ l = 1 /\ div = FALSE
Reset ==
  /\ ev' = NoEv /\ cnt' = 0 /\ out' = [pass |-> <<>>, fl |-> NoFl] /\ last' = [a |-> "init"]
  /\ since' = [u \in UNames |-> <<>>] /\ bad' = {}
  /\ div' = FALSE
Step ==
  /\ l <= Len(Trace)
  /\ l' = l + 1
  /\ IF Line.act.a = "reset" THEN Reset
     ELSE /\ MonNext(Line.act, Line.obs)
          /\ IF div THEN UNCHANGED <<mvars, div>>
             ELSE \/ Conform /\ div' = FALSE
                  \/ /\ ~ENABLED Conform
                     /\ PrintT(<<"DIVERGE", l>>)
                     /\ UNCHANGED mvars /\ div' = TRUE
  /\ ~(bad' \subseteq bad) => PrintT(<<"MONITOR", l, bad', {}>>)
TraceNext == Step
TraceSpec == TraceInit /\ [][TraceNext]_tvars
Done == l = Len(Trace) + 1 => PrintT(<<"DONE", l>>)
=============================================================================
