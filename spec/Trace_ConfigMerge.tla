------------------------- MODULE Trace_ConfigMerge -------------------------
(* Trace validation for C31: every line is one field of agent.Config under one  *)
(* TLC-generated input vector: act = [a |-> "field", f, k, x, y, z], obs = the  *)
(* abstract projections of what the real MergeConfig / ReadConfigPaths returned. *)
(* The monitor (ConfigMerge!Clauses) is evaluated per line; tag = field name.     *)
EXTENDS ConfigMerge, Json
Trace == ndJsonDeserialize("trace.ndjson")
VARIABLES ln
tvars == <<ln>>

Line == Trace[ln]

TraceInit == ln = 1

Step ==
  /\ ln <= Len(Trace)
  /\ ln' = ln + 1
  /\ IF Line.act.a = "reset" THEN TRUE
     ELSE LET a == Line.act
              bad == Clauses(a.k, a.x, a.y, a.z, Line.obs)
          IN \A c \in bad : PrintT(<<"MONITOR", ln, {c}, {a.f}>>)   \* one short line per clause (TLC wraps at 80 columns)

TraceNext == Step
TraceSpec == TraceInit /\ [][TraceNext]_tvars
Done == ln = Len(Trace) + 1 => PrintT(<<"DONE", ln>>)
=============================================================================
