------------------------- MODULE Trace_ConflictVote -------------------------
(* One line per vector run on a real quiet Serf node: NotifyConflict through   *)
(* serf's conflict delegate, the replies injected through NotifyMsg while the  *)
(* "_serf_conflict" query is open, then State() once the node has logged the   *)
(* outcome.  act = the vector, obs = [query, shutdown, valid, matching].       *)
EXTENDS ConflictVote, Json
Trace == ndJsonDeserialize("trace.ndjson")
VARIABLES l
tvars == <<vars, l>>
Line == Trace[l]

ObsOf(o) == [query |-> o.query, shutdown |-> o.shutdown, valid |-> o.valid, matching |-> o.matching]
Conform == Do(Line.act) /\ out' = ObsOf(Line.obs)

TraceInit == Init /\ l = 1
Reset == last' = [a |-> "init"] /\ out' = 0 /\ steps' = 0 /\ M' = MonInit

Step ==
  /\ l <= Len(Trace)
  /\ l' = l + 1
  /\ IF Line.act.a = "reset" THEN Reset
     ELSE \/ Conform
          \/ /\ ~ENABLED Conform
             /\ PrintT(<<"DIVERGE", l>>)
             /\ out' = ObsOf(Line.obs) /\ last' = Line.act /\ steps' = steps + 1
             /\ M' = MonStep(M, Line.act, ObsOf(Line.obs))
  /\ ~(M'.bad \subseteq M.bad) => PrintT(<<"MONITOR", l, M'.bad \ M.bad, TagsOf(Line.act), "\"">>)
\* (the last element, a string with an escaped quote, keeps TLC from wrapping the line at 80 columns)

TraceNext == Step
TraceSpec == TraceInit /\ [][TraceNext]_tvars
Done == l = Len(Trace) + 1 => PrintT(<<"DONE", l>>)
=============================================================================
