---------------------------- MODULE Trace_Coord ----------------------------
(* Trace validation for C20: every line is one NotifyPingComplete on a real node; the model state (the  *)
(* cache) is fully observed: a line the model cannot explain is reported as DIVERGE and the model is      *)
(* re-synchronised from the observation.  The monitor runs on every line from logged data only.           *)
EXTENDS Coord, Json
Trace == ndJsonDeserialize("trace.ndjson")
VARIABLES ln
tvars == <<vars, ln>>
Line == Trace[ln]

TraceInit == Init /\ ln = 1

Reset == /\ cached' = {} /\ win' = NoWin /\ last' = [a |-> "init"] /\ obs' = 0 /\ n' = 0
         /\ mneg' = FALSE /\ mwin' = NoWin /\ bad' = {}

FromObs(o) == { i \in Peers : o.cache[i] = 1 }

Step ==
  /\ ln <= Len(Trace)
  /\ ln' = ln + 1
  /\ IF Line.act.a = "reset" THEN Reset
     ELSE LET a == Line.act
              o == Line.obs
              exp == IF Accept(a.cc, a.rc) THEN cached \cup {a.p} ELSE cached
              expw == IF Accept(a.cc, a.rc) THEN [win EXCEPT ![a.p] = Push(win[a.p], RttId(a.rc, a.rv))] ELSE win
          IN /\ MonNext(a, o)
             /\ last' = a /\ obs' = o /\ n' = 0
             /\ IF o.acc = (IF Accept(a.cc, a.rc) THEN 1 ELSE 0) /\ FromObs(o) = exp /\ o.win = expw
                THEN cached' = exp /\ win' = expw
                ELSE PrintT(<<"DIVERGE", ln>>) /\ cached' = FromObs(o) /\ win' = o.win
             /\ \A c \in bad' \ bad : PrintT(<<"MONITOR", ln, {c}, {a.cc, a.rc}>>)

TraceNext == Step
TraceSpec == TraceInit /\ [][TraceNext]_tvars
Done == ln = Len(Trace) + 1 => PrintT(<<"DONE", ln>>)
=============================================================================
