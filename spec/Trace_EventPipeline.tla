------------------------ MODULE Trace_EventPipeline ------------------------
(* C16 on a real node with snapshot, internal-query filter and both coalescers   *)
(* in the pipeline: every line carries the member events the handlers emitted    *)
(* during the step (serf logs each one synchronously) and the member events the  *)
(* application channel delivered since the previous line; the last line is taken *)
(* after the channel has been silent for ten coalescing periods.  The pipeline's *)
(* internal queues are not observable, so this specification only accumulates    *)
(* both histories and lets the C16 monitor of EventPipeline judge them; the       *)
(* design itself is checked exhaustively on EventPipeline.                        *)
EXTENDS EventPipeline, Json
Trace == ndJsonDeserialize("trace.ndjson")
VARIABLES l, em, rc
tvars == <<vars, l, em, rc>>
Line == Trace[l]
TraceInit == Init /\ l = 1 /\ em = <<>> /\ rc = <<>>
\* events about the local node (member id 0) are outside Members 1..NM: drop them
Keep(s) == SelectSeq(s, LAMBDA e : e[1] \in Members)
TStep ==
  /\ l <= Len(Trace)
  /\ l' = l + 1
  /\ UNCHANGED <<q1, q2, q3, latest, lastSent, app, emitted>>
  /\ IF Line.act.a = "reset"
       THEN em' = <<>> /\ rc' = <<>> /\ M' = [bad |-> {}] /\ last' = [a |-> "init"]
       ELSE /\ em' = em \o Keep(Line.obs.em)
            /\ rc' = rc \o Keep(Line.obs.rc)
            /\ M' = LET m1 == MonStep(M, em', rc', Line.obs.drained) IN
                    IF Line.obs.drained /\ ~StatusOK(rc', Line.obs.st)
                      THEN [m1 EXCEPT !.bad = @ \cup {"C16_last_event_contradicts_reported_status"}] ELSE m1
            /\ last' = [a |-> Line.act.a]
  /\ ~(M'.bad \subseteq M.bad) => PrintT(<<"MONITOR", l, M'.bad \ M.bad, {}>>)
TraceNext == TStep
TraceSpec == TraceInit /\ [][TraceNext]_tvars
Done == l = Len(Trace) + 1 => PrintT(<<"DONE", l>>)
=============================================================================
