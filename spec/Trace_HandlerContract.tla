----------------------- MODULE Trace_HandlerContract -----------------------
(* Trace validation for C27: act = input, obs = what the script saw / what was sent. *)
EXTENDS HandlerContract, Json
Trace == ndJsonDeserialize("trace.ndjson")
VARIABLES ln
Line == Trace[ln]
TraceInit == ln = 1
Step ==
  /\ ln <= Len(Trace)
  /\ ln' = ln + 1
  /\ IF Line.act.a = "reset" THEN TRUE
     ELSE \A c \in Clauses(Line.act, Line.obs) : PrintT(<<"MONITOR", ln, {c}, Tags(Line.act)>>)
TraceNext == Step
TraceSpec == TraceInit /\ [][TraceNext]_<<ln>>
Done == ln = Len(Trace) + 1 => PrintT(<<"DONE", ln>>)
=============================================================================
