-------------------------- MODULE Trace_IPCQuery --------------------------
(* One line per step of one `query` RPC on a real agent whose stream loop is    *)
(* yield-instrumented: act = the step, obs.recs = the query records the raw     *)
(* client received during it.  Which select case the loop took is visible in    *)
(* the record it sent, so every line is explained deterministically (Explain);  *)
(* a line that cannot be explained is reported and the model continues from its *)
(* own prediction.  The C25 query-stream monitor runs on every observation.     *)
EXTENDS IPCQuery, Json
Trace == ndJsonDeserialize("trace.ndjson")
VARIABLES l
tvars == <<vars, l>>
Line == Trace[l]
Strip(a) == [x \in DOMAIN a \ {"w", "pc"} |-> a[x]]
Seen(o) == [recs |-> o.recs, err |-> o.err, badseq |-> o.badseq]

No(q) == [ok |-> FALSE, q |-> q]
Yes(q) == [ok |-> TRUE, q |-> q]

\* the loop, free running, sends exactly recs and ends
RECURSIVE Replay(_, _)
Replay(q, recs) ==
  IF recs = <<>> THEN (IF q.pc = "end" THEN Yes(q) ELSE No(q))
  ELSE IF q.pc # "end" /\ Head(recs) \in Ready(q) THEN Replay(Iter(q, Head(recs)), Tail(recs)) ELSE No(q)

Explain(q, a, recs) ==
  CASE a.a = "query" -> IF recs = <<>> THEN Yes([NewQ EXCEPT !.ack = a.ack, !.pc = "gate"]) ELSE No(q)
    [] a.a \in {"ack", "resp"} ->
         LET q1 == IF a.a = "ack" THEN Arrive(q, TRUE, a.n, 0) ELSE Arrive(q, FALSE, a.n, a.p) IN
         IF q1 # q /\ q.pc = "sel"
         THEN LET r == CHOOSE x \in Ready(q1) : TRUE IN
              IF recs = Out(q1, r) THEN Yes(Iter(q1, r)) ELSE No(Iter(q1, r))
         ELSE IF recs = <<>> THEN Yes(q1) ELSE No(q1)
    [] a.a = "step" ->
         IF q.pc # "gate" THEN (IF recs = <<>> THEN Yes(q) ELSE No(q))
         ELSE IF q.stalled /\ Ready(q) # {} THEN LET r == CHOOSE x \in Ready(q) : TRUE IN (IF recs = <<>> THEN Yes(Iter(q, r)) ELSE No(Iter(q, r)))
         ELSE IF recs = <<>> /\ CanSilent(q) THEN Yes(Silent(q))
         ELSE IF Ready(q) = {} THEN (IF recs = <<>> THEN Yes([q EXCEPT !.pc = "sel"]) ELSE No([q EXCEPT !.pc = "sel"]))
         ELSE IF Len(recs) = 1 /\ recs[1] \in Ready(q) THEN Yes(Iter(q, recs[1]))
         ELSE No(Iter(q, CHOOSE x \in Ready(q) : TRUE))
    [] a.a = "expire" ->
         LET q1 == [q EXCEPT !.fired = TRUE, !.closed = TRUE] IN
         IF q.fired \/ q.pc = "none" THEN (IF recs = <<>> THEN Yes(q) ELSE No(q))
         ELSE IF q.pc = "sel" /\ ~q.stalled /\ recs = <<>> /\ CanSilent(q1) THEN Yes(Silent(q1))
         ELSE IF q.pc = "sel" /\ ~q.stalled
         THEN (IF Len(recs) = 1 /\ recs[1] \in Ready(q1) THEN Yes(Iter(q1, recs[1])) ELSE No(Iter(q1, DoneRec)))
         ELSE IF recs = <<>> THEN Yes(q1) ELSE No(q1)
    [] a.a = "stall"   -> IF recs = <<>> THEN Yes([q EXCEPT !.stalled = TRUE]) ELSE No([q EXCEPT !.stalled = TRUE])
    [] a.a = "unstall" -> LET u == UnstallQ(q) IN IF recs = u[2] THEN Yes(u[1]) ELSE No(u[1])
    [] a.a = "end" ->
         LET u == UnstallQ(q)
             e == ExpireQ(u[1])
             pre == u[2]
         IN  IF Len(recs) >= Len(pre) /\ SubSeq(recs, 1, Len(pre)) = pre
             THEN Replay(e, SubSeq(recs, Len(pre) + 1, Len(recs)))
             ELSE No(e)
    [] OTHER -> No(q)

TraceInit == Init /\ l = 1
TStep ==
  /\ l <= Len(Trace)
  /\ l' = l + 1
  /\ IF Line.act.a = "reset" THEN
          Q' = NewQ /\ M' = NewM /\ obs' = NoObs /\ last' = [a |-> "init"] /\ steps' = 0
     ELSE LET a == Strip(Line.act)
              o == Seen(Line.obs)
              x == Explain(Q, a, o.recs)
          IN  /\ Q' = x.q /\ obs' = o /\ last' = Line.act /\ steps' = steps + 1
              /\ M' = MonStep(M, a, o)
              /\ ~x.ok => PrintT(<<"DIVERGE", l>>)
  /\ \A c \in M'.bad \ M.bad : PrintT(<<"MONITOR", l, {c}, IF c = "C25_q_bogus_record" THEN M'.tags ELSE {}>>)
TraceNext == TStep
TraceSpec == TraceInit /\ [][TraceNext]_tvars
Done == l = Len(Trace) + 1 => PrintT(<<"DONE", l>>)
=============================================================================
