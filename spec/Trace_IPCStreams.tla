------------------------- MODULE Trace_IPCStreams -------------------------
(* One line per request / environment step on one handshaken connection of a    *)
(* real AgentIPC.  Conformance is judged per Seq (streams are served by         *)
(* separate goroutines): replies equal, and for every Seq the records equal the *)
(* predicted ones -- after a burst with a stalled client: an in-order           *)
(* sub-sequence of at least BufSize records.  Log records are only required to  *)
(* carry the Seq of the monitor.  The C25 monitor runs on every observation.    *)
EXTENDS IPCStreams, Json
Trace == ndJsonDeserialize("trace.ndjson")
VARIABLES l
tvars == <<vars, l>>
Line == Trace[l]
ToSet(s) == { s[i] : i \in DOMAIN s }
Seen(o) == [rep |-> o.rep, recs |-> o.recs, logs |-> ToSet(o.logs), closed |-> o.closed, garbled |-> o.garbled]
Strip(a) == [x \in DOMAIN a \ {"w", "reg"} |-> a[x]]

RECURSIVE IsSubSeq(_, _)
IsSubSeq(x, y) == IF x = <<>> THEN TRUE ELSE IF y = <<>> THEN FALSE
                  ELSE IF Head(x) = Head(y) THEN IsSubSeq(Tail(x), Tail(y)) ELSE IsSubSeq(x, Tail(y))

Conforms(a, pred, o) ==
  /\ pred.rep = o.rep /\ o.garbled = 0
  /\ \A s \in SeqIds :
       IF a.a = "burst" THEN /\ IsSubSeq(Proj(o.recs, s), Proj(pred.recs, s))
                             /\ (Len(Proj(pred.recs, s)) <= BufSize => Proj(o.recs, s) = Proj(pred.recs, s))
                             /\ (Len(Proj(pred.recs, s)) > BufSize => Len(Proj(o.recs, s)) >= BufSize)
       ELSE Proj(o.recs, s) = Proj(pred.recs, s)
  /\ \A i \in DOMAIN o.recs : o.recs[i].seq \in SeqIds
  \* log lines buffered before a stop may still arrive after it: any monitor acknowledged so far
  /\ o.logs \subseteq M.mons \cup (IF a.a = "monitor" THEN {a.seq} ELSE {})

TraceInit == Init /\ l = 1
Step ==
  /\ l <= Len(Trace)
  /\ l' = l + 1
  /\ IF Line.act.a = "reset" THEN
          C' = NewC /\ M' = NewM /\ obs' = NoObs /\ last' = [a |-> "init"] /\ steps' = 0
     ELSE LET a == Strip(Line.act)
              o == Seen(Line.obs)
              r == IF a.a = "close" THEN R(NewC, <<>>, <<>>) ELSE ReactA(C, a)
          IN  /\ C' = r.C /\ obs' = o /\ last' = Line.act /\ steps' = steps + 1
              /\ M' = MonAct(M, a, o)
              /\ ~Conforms(a, r, o) => PrintT(<<"DIVERGE", l>>)
  /\ \A c \in M'.bad \ M.bad : PrintT(<<"MONITOR", l, {c}, IF c = "C25_q_bogus_record" THEN M'.tags ELSE {}>>)
TraceNext == Step
TraceSpec == TraceInit /\ [][TraceNext]_tvars
Done == l = Len(Trace) + 1 => PrintT(<<"DONE", l>>)
=============================================================================
