---------------------------- MODULE Trace_KeyOps ----------------------------
(* Trace validation for C22 / C23 (spec/KeyOps.tla).  Traces of three kinds:     *)
(*   keyring : reset [init], "kinit" (state after the agent loaded the file),    *)
(*             then one "kop" line per key request: obs = live keyring, what the *)
(*             agent's loader makes of the file, accepted?, file bytes changed?  *)
(*   agg     : one "agg" line: act = operation, members, replies injected;       *)
(*             obs = the KeyResponse and whether an error was returned           *)
(*   trunc   : one "trunc" line: act = keys held, key length, name length, size  *)
(*             limit; obs = the reply captured on the transport                  *)
(* Everything is observed, so a non-conforming line is reported (DIVERGE) and,   *)
(* for keyring traces, the model is re-synchronised from the observation.        *)
EXTENDS KeyOps, Json
Trace == ndJsonDeserialize("trace.ndjson")
VARIABLES st, pre, bad, l
tvars == <<st, pre, bad, l>>
Line == Trace[l]
NoObs == [ring |-> <<>>, load |-> [ok |-> FALSE, keys |-> <<>>], res |-> TRUE, fchg |-> FALSE, rep |-> TRUE]

TraceInit == st = KR(<<>>, <<>>) /\ pre = NoObs /\ bad = {} /\ l = 1

FromObs(o) == KR(o.ring, IF o.load.ok THEN o.load.keys ELSE <<>>)

RingStep ==
  LET a == Line.act
      o == Line.obs IN
  IF a.a = "kinit"
    THEN /\ st' = FromObs(o) /\ pre' = o
         /\ bad' = C22Clauses(o, o)
         /\ (o # KObs(st, TRUE, FALSE)) => PrintT(<<"DIVERGE", l>>)
    ELSE LET r == KApply(st, a.op, a.k)
             e == KObs(r.s, r.ok, r.s.file # st.file) IN
         /\ bad' = bad \cup C22Clauses(pre, o) \cup C22ListClauses(a.op, pre, o)
         /\ pre' = o
         /\ IF o = e THEN st' = r.s
            ELSE /\ PrintT(<<"DIVERGE", l>>) /\ st' = FromObs(o)

AggStep ==
  LET inp == Line.act
      o == Line.obs
      a == Aggregate(inp.nn, inp.rs) IN
  /\ bad' = AggClauses(inp, o)
  /\ UNCHANGED <<st, pre>>
  /\ ~( o.nn = a.nn /\ o.nr = a.nr /\ o.ne = a.ne /\ o.err = a.err /\ o.nmsg = a.nmsg
        /\ SeqSet(o.keys) = FunPairs(a.keys) /\ SeqSet(o.pks) = FunPairs(a.pks) ) => PrintT(<<"DIVERGE", l>>)

TruncStep ==
  LET inp == Line.act
      o == Line.obs
      e == TruncObs(inp, Truncate(inp.n, inp.kc, inp.nl, inp.limit)) IN
  /\ bad' = TruncClauses(inp, o)
  /\ UNCHANGED <<st, pre>>
  /\ ~( o.sent = e.sent /\ o.size = e.size /\ o.nk = e.nk /\ o.mi = e.mi /\ o.mn = e.mn /\ o.prefix ) => PrintT(<<"DIVERGE", l>>)

Step ==
  /\ l <= Len(Trace)
  /\ l' = l + 1
  /\ IF Line.act.a = "reset"
       THEN /\ bad' = {} /\ pre' = NoObs
            /\ st' = IF Line.act.kind = "keyring" THEN KR(Line.act.init, Line.act.init) ELSE KR(<<>>, <<>>)
       ELSE /\ CASE Line.act.a \in {"kinit", "kop"} -> RingStep
                 [] Line.act.a = "agg" -> AggStep
                 [] Line.act.a = "trunc" -> TruncStep
            /\ ~(bad' \subseteq bad) => PrintT(<<"MONITOR", l, bad' \ bad, {}>>)

TraceNext == Step
TraceSpec == TraceInit /\ [][TraceNext]_tvars
Done == l = Len(Trace) + 1 => PrintT(<<"DONE", l>>)
=============================================================================
