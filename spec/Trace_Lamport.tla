--------------------------- MODULE Trace_Lamport ---------------------------
(* One line per scheduling step of the cooperative scheduler on the real,       *)
(* yield-instrumented LamportClock: act.t = thread that ran, obs.c = counter     *)
(* after the step, obs.fin/obs.ret = a call returned in this step with result.   *)
(* A code step is a local step (nothing shared touched) or one atomic access;    *)
(* TLC infers which from the observed counter and results.                       *)
EXTENDS Lamport, Json
Trace == ndJsonDeserialize("trace.ndjson")
VARIABLES l, div, pc0, fc, SS
tvars == <<vars, l, div, pc0, fc, SS>>
Line == Trace[l]

(* The code's local variables and program counters are not logged, so the trace   *)
(* spec tracks the SET of model states consistent with everything observed so far *)
(* (SS); a line diverges exactly when that set becomes empty.  S keeps the program.*)
TraceInit == /\ S = InitS(<< <<>> >>) /\ MonInit /\ last = [a |-> "init"]
             /\ l = 1 /\ div = FALSE /\ pc0 = 0 /\ fc = <<0>> /\ SS = {}

Reset ==
  /\ S' = [c |-> 0, th |-> [t \in DOMAIN Line.act.prog |-> IdleTh], prog |-> Line.act.prog]
  /\ SS' = { [c |-> 0, th |-> [t \in DOMAIN Line.act.prog |-> IdleTh], prog |-> Line.act.prog] }
  /\ M' = [bad |-> {}, tags |-> {}, incs |-> {}]
  /\ last' = [a |-> "init"]
  /\ div' = FALSE /\ pc0' = 0 /\ fc' = [t \in DOMAIN Line.act.prog |-> 0]

Cands(s, t) == {s} \cup Acts(s, t)

\* successors of s consistent with the line: a local step or one atomic access, then the return if logged
ConfSucc(s) ==
  LET t == Line.act.t  o == Line.obs IN
  { IF o.fin THEN Fin(s1, t) ELSE s1 :
       s1 \in { x \in Cands(s, t) : x.c = o.c /\ (o.fin => (CanFin(x, t) /\ x.th[t].ret = o.ret)) } }

\* the monitor sees only logged data: the program, which thread ran, counters, returned results
FinRec == LET t == Line.act.t  o == Line.obs IN
          IF o.fin /\ fc[t] < Len(S.prog[t])
            THEN << [op |-> S.prog[t][fc[t] + 1].op, v |-> S.prog[t][fc[t] + 1].v, ret |-> o.ret] >>
            ELSE <<>>

Step ==
  /\ l <= Len(Trace)
  /\ l' = l + 1
  /\ IF Line.act.a = "reset" THEN Reset
     ELSE /\ M' = MonStep(M, S.prog, pc0, Line.obs.c, FinRec)
          /\ pc0' = Line.obs.c
          /\ fc' = IF Line.obs.fin THEN [fc EXCEPT ![Line.act.t] = @ + 1] ELSE fc
          /\ last' = Line.act
          /\ UNCHANGED S
          /\ IF div THEN UNCHANGED <<SS, div>>
             ELSE LET nxt == UNION { ConfSucc(s) : s \in SS } IN
                  IF nxt # {} THEN SS' = nxt /\ div' = FALSE
                  ELSE /\ PrintT(<<"DIVERGE", l>>)
                       /\ UNCHANGED SS /\ div' = TRUE
  /\ ~(M'.bad \subseteq M.bad) => PrintT(<<"MONITOR", l, M'.bad, M'.tags>>)

TraceNext == Step
TraceSpec == TraceInit /\ [][TraceNext]_tvars
Done == l = Len(Trace) + 1 => PrintT(<<"DONE", l>>)
=============================================================================
