-------------------------- MODULE Trace_Lifecycle --------------------------
(* One line per scheduling step of the cooperative scheduler on a real quiet serf     *)
(* node with yield-instrumented Serf.Join / Leave / Shutdown / State:                 *)
(* act.t = thread that ran, obs.st = what State() would return now (-1: the state     *)
(* lock is held), obs.inv / obs.fin = a call of the thread's program was invoked /    *)
(* returned in this step, obs.ret / obs.rv = its result class / the state it          *)
(* returned, obs.x.raw = the state field, obs.x.jl = join lock held (conformance      *)
(* only).  Program counters and the state lock holder are not logged: the SET of      *)
(* consistent model states is kept.  Yield labels are not used.                       *)
EXTENDS Lifecycle, Json
Trace == ndJsonDeserialize("trace.ndjson")
VARIABLES l, div, SS
tvars == <<vars, l, div, SS>>
Line == Trace[l]

NoProg == << <<>> >>
TraceInit == /\ S = InitS(NoProg) /\ M = MonInit(NoProg) /\ last = [a |-> "init"]
             /\ l = 1 /\ div = FALSE /\ SS = {}

Reset ==
  /\ S' = InitS(Line.act.prog)
  /\ SS' = { InitS(Line.act.prog) }
  /\ M' = MonInit(Line.act.prog)
  /\ last' = [a |-> "init"]
  /\ div' = FALSE

Cands(s, t, inv) ==
  IF inv THEN (IF CanStart(s, t) THEN {Start(s, t)} \cup Acts(Start(s, t), t) ELSE {})
         ELSE {s} \cup Acts(s, t)

ConfSucc(s) ==
  LET t == Line.act.t  o == Line.obs IN
  { IF o.fin THEN Fin(x, t) ELSE x :
       x \in { y \in Cands(s, t, o.inv) : /\ y.state = o.x.raw /\ (y.jl # 0) = o.x.jl
                                          /\ (o.fin => (CanFin(y, t) /\ y.th[t].ret = o.ret /\ y.th[t].rv = o.rv)) } }

Step ==
  /\ l <= Len(Trace)
  /\ l' = l + 1
  /\ IF Line.act.a = "reset" THEN Reset
     ELSE IF Line.act.a = "end" THEN
          \* a run that was given up after a timeout (hung) allows no conclusion: the end clauses are skipped
          /\ M' = IF Line.act.hung THEN M ELSE MonStep(M, S.prog, [t |-> 0, inv |-> FALSE, fin |-> FALSE, st |-> Line.obs.st, ret |-> "", rv |-> -1,
                                      end |-> TRUE, dead |-> Line.act.dead])
          /\ last' = [a |-> "end"]
          /\ UNCHANGED <<S, SS, div>>
     ELSE /\ M' = MonStep(M, S.prog, [t |-> Line.act.t, inv |-> Line.obs.inv, fin |-> Line.obs.fin, st |-> Line.obs.st,
                                      ret |-> Line.obs.ret, rv |-> Line.obs.rv, end |-> FALSE, dead |-> FALSE])
          /\ last' = [a |-> "step", t |-> Line.act.t]
          /\ UNCHANGED S
          /\ IF div THEN UNCHANGED <<SS, div>>
             ELSE LET nxt == UNION { ConfSucc(s) : s \in SS } IN
                  IF nxt # {} THEN SS' = nxt /\ div' = FALSE
                  ELSE /\ PrintT(<<"DIVERGE", l>>)
                       /\ UNCHANGED SS /\ div' = TRUE
  /\ (Line.act.a # "reset" /\ ~(M'.bad \subseteq M.bad)) => PrintT(<<"MONITOR", l, M'.bad \ M.bad, M'.tags>>)

TraceNext == Step
TraceSpec == TraceInit /\ [][TraceNext]_tvars
Done == l = Len(Trace) + 1 => PrintT(<<"DONE", l>>)
=============================================================================
