---------------------------- MODULE Trace_Limits ----------------------------
(* One line per vector executed on a real quiet Serf node (UserEvent, Query,   *)
(* Query.Respond): act = the vector, obs = realised sizes and what was seen on *)
(* the event channel, the broadcast queues and the transport.  The step is     *)
(* stateless; a line the model cannot explain is reported and skipped.  The    *)
(* C33 monitor runs on every line.                                             *)
EXTENDS Limits, Json
Trace == ndJsonDeserialize("trace.ndjson")
VARIABLES l
tvars == <<vars, l>>
Line == Trace[l]

ObsOf(o) == [raw |-> o.raw, enc |-> o.enc, renc |-> o.renc, err |-> o.err, deliv |-> o.deliv,
             queued |-> o.queued, sent |-> o.sent, relayed |-> o.relayed, maxmsg |-> o.maxmsg,
             dclock |-> o.dclock]

Conform ==
  LET v == Line.act o == Line.obs
      sz == [raw |-> o.raw, enc |-> o.enc, renc |-> o.renc]
  IN  /\ sz \in Realize(v)
      /\ o.relayed \in Relays(v)
      /\ Do(v, sz, o.relayed)
      /\ out' = ObsOf(o)

TraceInit == Init /\ l = 1
Reset == last' = [a |-> "init"] /\ out' = 0 /\ steps' = 0 /\ M' = MonInit

Step ==
  /\ l <= Len(Trace)
  /\ l' = l + 1
  /\ IF Line.act.a = "reset" THEN Reset
     ELSE \/ Conform
          \/ /\ ~ENABLED Conform
             /\ PrintT(<<"DIVERGE", l>>)
             /\ out' = ObsOf(Line.obs) /\ last' = Line.act /\ steps' = steps + 1
             /\ M' = MonStep(M, Line.act, ObsOf(Line.obs))
  /\ ~(M'.bad \subseteq M.bad) => PrintT(<<"MONITOR", l, M'.bad \ M.bad, TagsOf(Line.act), "\"">>)
\* (the last element, a string with an escaped quote, keeps TLC from wrapping the line at 80 columns)

TraceNext == Step
TraceSpec == TraceInit /\ [][TraceNext]_tvars
Done == l = Len(Trace) + 1 => PrintT(<<"DONE", l>>)
=============================================================================
