--------------------------- MODULE Trace_LogPipe ---------------------------
(* One line per scheduling step of the cooperative scheduler on the real,          *)
(* yield-instrumented GatedWriter / logWriter:  act.t = thread that ran,            *)
(* obs.out = lines received so far by the gate's underlying writer, obs.mon =       *)
(* lines received so far by the attached monitor handler, obs.inv / obs.fin = a     *)
(* call of the thread's program was invoked / returned in this step.  A code step   *)
(* is the start of a call, a local step, or one action of LogPipe; locals and       *)
(* program counters are not logged, so the SET of consistent model states is kept.  *)
(* The labels of the yield points are not used.                                     *)
EXTENDS LogPipe, Json
Trace == ndJsonDeserialize("trace.ndjson")
VARIABLES l, div, SS
tvars == <<vars, l, div, SS>>
Line == Trace[l]

NoProg == << <<>> >>
TraceInit == /\ S = InitS(NoProg, 1) /\ M = MonInit(NoProg) /\ last = [a |-> "init"]
             /\ l = 1 /\ div = FALSE /\ SS = {}

Reset ==
  /\ S' = InitS(Line.act.prog, Line.act.n)
  /\ SS' = { InitSx(Line.act.prog, Line.act.n, fx) : fx \in BOOLEAN }   \* either variant of the gate may explain the trace
  /\ M' = MonInit(Line.act.prog)
  /\ last' = [a |-> "init"]
  /\ div' = FALSE

Cands(s, t, inv) ==
  IF inv THEN (IF CanStart(s, t) THEN {Start(s, t)} \cup Acts(Start(s, t), t) ELSE {})
         ELSE {s} \cup Acts(s, t)

\* internal state read by the harness after the step (flush flag, buffered lines, lock holders, ring)
Peek(y, x) == /\ y.fl = x.fl /\ Len(y.buf) = x.nbuf /\ (y.wr # 0 \/ y.rd > 0) = x.lk
              /\ y.logs = x.logs /\ y.idx = x.idx /\ y.reg = x.reg /\ (y.rl # 0) = x.rl

ConfSucc(s) ==
  LET t == Line.act.t  o == Line.obs IN
  { IF o.fin THEN Fin(x, t) ELSE x :
       x \in { y \in Cands(s, t, o.inv) : y.out = o.out /\ y.mon = o.mon /\ (o.fin => CanFin(y, t)) /\ Peek(y, o.x) } }

Step ==
  /\ l <= Len(Trace)
  /\ l' = l + 1
  /\ IF Line.act.a = "reset" THEN Reset
     ELSE IF Line.act.a = "end" THEN
          \* a run that was given up after a timeout (hung) allows no conclusion: the end clauses are skipped
          /\ M' = IF Line.act.hung THEN M ELSE MonStep(M, S.prog, S.n, [t |-> 0, inv |-> FALSE, fin |-> FALSE, out |-> Line.obs.out, mon |-> Line.obs.mon,
                                          end |-> TRUE, dead |-> Line.act.dead, panic |-> Line.obs.panic])
          /\ last' = [a |-> "end"]
          /\ UNCHANGED <<S, SS, div>>
     ELSE /\ M' = MonStep(M, S.prog, S.n, [t |-> Line.act.t, inv |-> Line.obs.inv, fin |-> Line.obs.fin,
                                          out |-> Line.obs.out, mon |-> Line.obs.mon,
                                          end |-> FALSE, dead |-> FALSE, panic |-> Line.obs.panic])
          /\ last' = [a |-> "step", t |-> Line.act.t]
          /\ UNCHANGED S
          /\ IF div \/ Line.obs.panic # "" THEN UNCHANGED <<SS, div>>
             ELSE LET nxt == UNION { ConfSucc(s) : s \in SS } IN
                  IF nxt # {} THEN SS' = nxt /\ div' = FALSE
                  ELSE /\ PrintT(<<"DIVERGE", l>>)
                       /\ UNCHANGED SS /\ div' = TRUE
  /\ (Line.act.a # "reset" /\ ~(M'.bad \subseteq M.bad)) => PrintT(<<"MONITOR", l, M'.bad \ M.bad, M'.tags>>)

TraceNext == Step
TraceSpec == TraceInit /\ [][TraceNext]_tvars
Done == l = Len(Trace) + 1 => PrintT(<<"DONE", l>>)
=============================================================================
