------------------------ MODULE Trace_MemberFilter ------------------------
(* One line per members-filtered request sent to a real agent through the real  *)
(* IPC: act = the request (pattern ASTs), obs = error flag, connection dropped, *)
(* list flag, indices (into the population of the reset line) of the members    *)
(* returned.  The reset line carries the population the harness created through *)
(* serf's memberlist event delegate.  Conformance: the observed output equals   *)
(* CodeOut (the code as modelled); the C26 monitor compares it with Expected.   *)
EXTENDS MemberFilter, Json
Trace == ndJsonDeserialize("trace.ndjson")
VARIABLES l, pop
tvars == <<vars, l, pop>>
Line == Trace[l]
ToSet(s) == { s[i] : i \in DOMAIN s }
TPop == <<>>

Seen(o) == [ err |-> o.err, closed |-> o.closed, list |-> o.list, members |-> ToSet(o.members) ]
Q(act) == [ name |-> act.name, status |-> act.status, tag |-> act.tag ]

TraceInit == Init /\ l = 1 /\ pop = <<>>

Step ==
  /\ l <= Len(Trace)
  /\ l' = l + 1
  /\ IF Line.act.a = "reset" THEN
          /\ pop' = Line.act.pop
          /\ UNCHANGED <<req, out, tags>> /\ bad' = {} /\ last' = [a |-> "init"] /\ steps' = 0
     ELSE LET q == Q(Line.act)  o == Seen(Line.obs) IN
          /\ req' = q /\ out' = o /\ last' = Line.act /\ steps' = steps + 1 /\ pop' = pop
          /\ bad' = Clauses(pop, q, o)
          /\ tags' = Tags(q)
          /\ (o # CodeOut(pop, q)) => PrintT(<<"DIVERGE", l>>)
          /\ \A c \in bad' : PrintT(<<"MONITOR", l, {c}, TagsOf(q, c)>>)

TraceNext == Step
TraceSpec == TraceInit /\ [][TraceNext]_tvars
Done == l = Len(Trace) + 1 => PrintT(<<"DONE", l>>)
=============================================================================
