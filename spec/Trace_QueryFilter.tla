------------------------- MODULE Trace_QueryFilter -------------------------
(* One line per call on a real quiet Serf node: act = the action record as TLC *)
(* generated it (boot = serf.Create with the tags, deliver = NotifyMsg of the  *)
(* encoded query), obs = [deliv, ack, rebro, panic] counted from the event     *)
(* channel (marker technique), the packets captured on the transport and the   *)
(* broadcast queues.  The state (seen) is determined by the logged inputs, so  *)
(* a non-conforming line keeps the model going; the C08 monitor runs on every  *)
(* line over logged data only.                                                 *)
EXTENDS QueryFilter, Json
Trace == ndJsonDeserialize("trace.ndjson")
VARIABLES l
tvars == <<vars, l>>
Line == Trace[l]

ActFor(act) == CASE act.a = "boot"    -> Boot(act.tags)
                 [] act.a = "deliver" -> Deliver(act)
                 [] OTHER             -> FALSE

ObsOf(o) == [deliv |-> o.deliv, ack |-> o.ack, rebro |-> o.rebro, panic |-> o.panic]

Conform == ActFor(Line.act) /\ out' = ObsOf(Line.obs)

TraceInit == Init /\ l = 1

Reset == /\ tags' = <<>> /\ seen' = {} /\ out' = Quiet /\ last' = [a |-> "init"] /\ steps' = 0
         /\ M' = MonInit

Step ==
  /\ l <= Len(Trace)
  /\ l' = l + 1
  /\ IF Line.act.a = "reset" THEN Reset
     ELSE \/ Conform
          \/ /\ ~ENABLED Conform
             /\ PrintT(<<"DIVERGE", l>>)
             /\ tags' = (IF Line.act.a = "boot" THEN Line.act.tags ELSE tags)
             /\ seen' = (IF Line.act.a = "deliver" THEN seen \cup {<<Line.act.lt, Line.act.id>>} ELSE seen)
             /\ out' = ObsOf(Line.obs) /\ last' = Line.act /\ steps' = steps + 1
             /\ M' = MonStep(M, Line.act, ObsOf(Line.obs))
  /\ ~(M'.bad \subseteq M.bad) => PrintT(<<"MONITOR", l, M'.bad \ M.bad, TagsOf(M, Line.act), "\"">>)
\* (the last element, a string with an escaped quote, keeps TLC from wrapping the line at 80 columns)

TraceNext == Step
TraceSpec == TraceInit /\ [][TraceNext]_tvars
Done == l = Len(Trace) + 1 => PrintT(<<"DONE", l>>)
=============================================================================
