--------------------------- MODULE Trace_QueryReply ---------------------------
(* Trace validation for C07.  One trace = one execution of a program on a real   *)
(* quiet Serf node built from the yield-instrumented working tree with virtual   *)
(* time:                                                                         *)
(*   reset line : act = [a |-> "reset", id, nt, prog] -- prog[t] = operations of *)
(*                managed thread t (nt = 0: purely sequential schedule)          *)
(*   "op" line  : a whole operation executed by the driver itself, nothing else  *)
(*                running (sequential schedules; prefix/suffix of concurrent     *)
(*                runs)                                                          *)
(*   "step" line: a maximal run of consecutive scheduling steps of thread act.t  *)
(*                under the cooperative scheduler, cut when an operation of the  *)
(*                thread returns; the model may perform 0..MaxActs atomic        *)
(*                actions of that thread                                         *)
(* obs = projection of the real state at the end of the line (open-query map,    *)
(* every QueryResponse: acks/responses/closed/channel lengths; parts guarded by  *)
(* a lock some parked thread holds are flagged and not compared), what the       *)
(* application received, which operation began / returned, panics.               *)
(* Program counters and locals of the code are not logged: the trace spec keeps  *)
(* the SET of model states consistent with everything observed so far.           *)
EXTENDS QueryReply, Json
Trace == ndJsonDeserialize("trace.ndjson")
VARIABLES SS, M, P, fc, l, div
tvars == <<SS, M, P, fc, l, div>>
Line == Trace[l]
MaxActs == 4

SeqSet(s) == { s[i] : i \in DOMAIN s }

Match(x, o) ==
  /\ x.clock = o.clock
  /\ o.qlocked \/ { <<lt, x.open[lt]>> : lt \in { y \in LTs : x.open[y] # 0 } } = SeqSet(o.open)
  /\ \A k \in Queries :
       LET a == o.q[k] IN
       /\ (a.st = 2) = (x.q[k].st = 2)
       /\ a.st = 2 =>
            /\ a.lt = x.q[k].lt
            /\ a.locked \/ ( /\ SeqSet(a.acks) = x.q[k].acks
                             /\ SeqSet(a.resps) = x.q[k].resps
                             /\ a.closed = x.q[k].closed
                             /\ a.na = Len(x.q[k].ackCh)
                             /\ a.nr = Len(x.q[k].respCh) )
  /\ o.fin.op = "recv" => x.out.rcv = o.rcv

\* operations thread t may start next in model state x: only the one the real thread is at (the model may
\* finish an operation before the real call has returned -- its last effect precedes the return -- but it
\* does not start the next one before the return was logged)
NextOps(x, t) ==
  IF t <= Len(P) /\ x.th[t].n = fc[t] /\ fc[t] < Len(P[t]) THEN { P[t][fc[t] + 1] } ELSE {}

RECURSIVE Reach(_, _, _)
Reach(ss, t, n) ==
  IF n = 0 THEN ss ELSE Reach(ss \cup UNION { Acts(x, t, NextOps(x, t)) : x \in ss }, t, n - 1)

Main == Len(P) + 1     \* the driver's own thread (whole operations)

StepSucc(s) ==
  LET t == Line.act.t
      o == Line.obs IN
  { x \in Reach({s}, t, MaxActs) :
       /\ IF o.fin.op # "none" THEN x.th[t].n = fc[t] + 1 /\ x.th[t].pc = "idle"
          ELSE x.th[t].n = fc[t] \/ (x.th[t].n = fc[t] + 1 /\ x.th[t].pc = "idle")
       /\ Match(x, o) }

OpSucc(s) == { x \in MacroX(s, Main, Line.act.o) : Match(x, Line.obs) }

TraceInit == SS = {InitS(1)} /\ M = MonInit /\ P = <<>> /\ fc = <<0>> /\ l = 1 /\ div = FALSE

Reset ==
  /\ P' = Line.act.prog
  /\ SS' = {InitS(Len(Line.act.prog) + 1)}
  /\ fc' = [t \in 1..(Len(Line.act.prog) + 1) |-> 0]
  /\ M' = MonInit
  /\ div' = FALSE

Step ==
  /\ l <= Len(Trace)
  /\ l' = l + 1
  /\ IF Line.act.a = "reset" THEN Reset
     ELSE /\ M' = MonStep(M, Line.obs)
          /\ UNCHANGED P
          /\ fc' = IF Line.act.a = "step" /\ Line.obs.fin.op # "none" THEN [fc EXCEPT ![Line.act.t] = @ + 1] ELSE fc
          /\ IF div THEN UNCHANGED <<SS, div>>
             ELSE LET nxt == UNION { IF Line.act.a = "step" THEN StepSucc(s) ELSE OpSucc(s) : s \in SS } IN
                  IF nxt # {} THEN SS' = nxt /\ div' = FALSE
                  ELSE /\ PrintT(<<"DIVERGE", l>>)
                       /\ UNCHANGED SS /\ div' = TRUE
          /\ ~(M'.bad \subseteq M.bad) => PrintT(<<"MONITOR", l, M'.bad \ M.bad, M'.tags>>)
          /\ ~(M'.tags \subseteq M.tags) => PrintT(<<"INFO", l, M'.tags \ M.tags>>)

TraceNext == Step
TraceSpec == TraceInit /\ [][TraceNext]_tvars
Done == l = Len(Trace) + 1 => PrintT(<<"DONE", l>>)
=============================================================================
