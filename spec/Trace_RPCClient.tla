-------------------------- MODULE Trace_RPCClient --------------------------
(* One line per scheduling step of the cooperative scheduler on the real,           *)
(* yield-instrumented client.RPCClient talking to a scripted loopback server:        *)
(* act.t = thread that ran (1 = the client's listen goroutine, 2.. = user threads),  *)
(* obs.cl[h][j] = subscriber channel j of subscription h has been closed, obs.got =  *)
(* values received on it so far, obs.inv / obs.fin = a call of the thread's program   *)
(* was invoked / returned in this step, obs.panic = message if the process died in    *)
(* this step (the line is then written by the parent process).  Program counters,     *)
(* locks, the dispatch table and the wire are not logged: the SET of consistent       *)
(* model states is kept.  Yield labels are not used.                                  *)
EXTENDS RPCClient, Json
Trace == ndJsonDeserialize("trace.ndjson")
VARIABLES l, div, SS
tvars == <<vars, l, div, SS>>
Line == Trace[l]

NoScen == [subs |-> <<>>, pre |-> <<>>, prog |-> <<>>]
TraceInit == /\ S = InitS(NoScen) /\ M = MonInit(NoScen) /\ last = [a |-> "init"]
             /\ l = 1 /\ div = FALSE /\ SS = {}

ScenOf(a) == [subs |-> a.subs, pre |-> a.pre, prog |-> a.prog]

Reset ==
  /\ S' = InitS(ScenOf(Line.act))
  /\ SS' = { InitSx(ScenOf(Line.act), fx) : fx \in BOOLEAN }   \* either variant of the handlers may explain the trace
  /\ M' = MonInit(ScenOf(Line.act))
  /\ last' = [a |-> "init"]
  /\ div' = FALSE

Cands(s, t, inv) ==
  IF inv THEN (IF CanStart(s, t) THEN {Start(s, t)} \cup Acts(Start(s, t), t) ELSE {})
         ELSE {s} \cup Acts(s, t)

\* internal state read by the harness after the step (dispatch table, lock holders, shutdown flag)
Peek(y, x) == /\ { h \in y.disp : h < 100 } = { x.subs[k] : k \in DOMAIN x.subs }
              /\ Cardinality({ h \in y.disp : h >= 100 }) = x.ncb
              /\ (y.dl # 0) = x.dl /\ (y.sl # 0) = x.sl /\ y.shut = x.shut

ConfSucc(s) ==
  LET t == Line.act.t  o == Line.obs IN
  { IF o.fin THEN Fin(x, t) ELSE x :
       x \in { y \in Cands(s, t, o.inv) : /\ y.panic = o.panic
                                          /\ o.panic = "" => /\ ClosedView(y) = o.cl /\ y.got = o.got
                                                             /\ (o.fin => CanFin(y, t)) /\ Peek(y, o.x) } }

Step ==
  /\ l <= Len(Trace)
  /\ l' = l + 1
  /\ IF Line.act.a = "reset" THEN Reset
     ELSE IF Line.act.a = "end" THEN
          \* a run that was given up after a timeout (hung) allows no conclusion: the end clauses are skipped
          /\ M' = IF Line.act.hung THEN M ELSE MonStep(M, Scen(S), [t |-> 0, inv |-> FALSE, fin |-> FALSE, cl |-> Line.obs.cl, got |-> Line.obs.got,
                                       panic |-> Line.obs.panic, end |-> TRUE, dead |-> Line.act.dead])
          /\ last' = [a |-> "end"]
          /\ UNCHANGED <<S, SS, div>>
     ELSE /\ M' = MonStep(M, Scen(S), [t |-> Line.act.t, inv |-> Line.obs.inv, fin |-> Line.obs.fin,
                                       cl |-> Line.obs.cl, got |-> Line.obs.got,
                                       panic |-> Line.obs.panic, end |-> FALSE, dead |-> FALSE])
          /\ last' = [a |-> "step", t |-> Line.act.t]
          /\ UNCHANGED S
          /\ IF div THEN UNCHANGED <<SS, div>>
             ELSE LET nxt == UNION { ConfSucc(s) : s \in SS } IN
                  IF nxt # {} THEN SS' = nxt /\ div' = FALSE
                  ELSE /\ PrintT(<<"DIVERGE", l>>)
                       /\ UNCHANGED SS /\ div' = TRUE
  /\ (Line.act.a # "reset" /\ ~(M'.bad \subseteq M.bad)) => PrintT(<<"MONITOR", l, M'.bad \ M.bad, M'.tags>>)

TraceNext == Step
TraceSpec == TraceInit /\ [][TraceNext]_tvars
Done == l = Len(Trace) + 1 => PrintT(<<"DONE", l>>)
=============================================================================
