----------------------------- MODULE Trace_Relay -----------------------------
(* One line per vector: act = the vector, obs.runs = what the real code did    *)
(* for each reply (node path: packets captured on the transport, classified    *)
(* into direct replies to the origin and relay wrappers per destination; pick  *)
(* path: names returned by kRandomMembers).  A line conforms when every run is *)
(* one of the model's outcomes; the C35 monitor runs on every line.            *)
EXTENDS Relay, Json
Trace == ndJsonDeserialize("trace.ndjson")
VARIABLES l
tvars == <<vars, l>>
Line == Trace[l]

ObsOf(o) == [runs |-> [i \in DOMAIN o.runs |-> [direct |-> o.runs[i].direct, relays |-> o.runs[i].relays]]]

Conform ==
  /\ LET oc == Outcomes(Line.act)
     IN  \A i \in DOMAIN Line.obs.runs : PossibleIn(oc, Line.act, Line.obs.runs[i])
  /\ Do(Line.act, ObsOf(Line.obs))

TraceInit == Init /\ l = 1
Reset == last' = [a |-> "init"] /\ out' = 0 /\ steps' = 0 /\ M' = MonInit

Step ==
  /\ l <= Len(Trace)
  /\ l' = l + 1
  /\ IF Line.act.a = "reset" THEN Reset
     ELSE \/ Conform
          \/ /\ ~ENABLED Conform
             /\ PrintT(<<"DIVERGE", l>>)
             /\ out' = ObsOf(Line.obs) /\ last' = Line.act /\ steps' = steps + 1
             /\ M' = MonStep(M, Line.act, ObsOf(Line.obs))
  /\ ~(M'.bad \subseteq M.bad) => PrintT(<<"MONITOR", l, M'.bad \ M.bad, TagsOf(Line.act), "\"">>)
\* (the last element, a string with an escaped quote, keeps TLC from wrapping the line at 80 columns)

TraceNext == Step
TraceSpec == TraceInit /\ [][TraceNext]_tvars
Done == l = Len(Trace) + 1 => PrintT(<<"DONE", l>>)
=============================================================================
