------------------------- MODULE Trace_SerfCluster -------------------------
(* One line per step executed on NN real, quiet Serf nodes: act = the action     *)
(* record (w = refutation goroutines observed), obs = every node's projected     *)
(* state plus what left the acting nodes' broadcast queues.  The projection is   *)
(* complete, so a non-conforming line re-synchronises the model.  After the      *)
(* generated schedule the harness closes the history itself (sync, then every    *)
(* delivery / merge / truthful notification until nothing changes) and declares  *)
(* "quiet"; those lines are validated like all others.                           *)
EXTENDS SerfCluster, Json
Trace == ndJsonDeserialize("trace.ndjson")
VARIABLES l
tvars == <<vars, l>>
Line == Trace[l]

FromObsNode(o, n) ==
  [ self |-> n, sstate |-> o.sstate, clock |-> o.clock,
    mem |-> [x \in Names |-> o.mem[x + 1]],
    failedL |-> o.failed, leftL |-> o.left,
    intents |-> [x \in Names |-> o.intents[x + 1]] ]

ActFor(act) ==
  CASE act.a = "deliver"    -> Deliver(act.n, <<act.ty, act.x, act.lt, act.prune>>)
    [] act.a = "pushpull"   -> PushPull(act.n, act.m)
    [] act.a = "mljoin"     -> MLJoin(act.n, act.x)
    [] act.a = "mlleave"    -> MLLeave(act.n, act.x)
    [] act.a = "forceleave" -> OpForceLeave(act.n, act.x, act.prune)
    [] act.a = "leave1"     -> OpLeaveA(act.n)
    [] act.a = "leave2"     -> OpLeaveB(act.n)
    [] act.a = "leave"      -> OpLeave(act.n)
    [] act.a = "crash"      -> OpCrash(act.n)
    [] act.a = "join"       -> OpJoin(act.n, act.m)
    [] act.a = "rejoin"     -> OpRejoin(act.n, act.m)
    [] act.a = "sync"       -> BeginSync
    [] act.a = "quiet"      -> DeclareQuiet
    [] act.a = "synced"     -> DeclareSynced
    [] OTHER                -> FALSE

Conform == ActFor(Line.act) /\ last' = Line.act
           /\ (Line.act.a # "sync" => obs' = Line.obs)

TraceInit == Init /\ l = 1

Reset ==
  /\ R' = InitR
  /\ up' = [n \in Nodes |-> TRUE]
  /\ ml' = [n \in Nodes |-> IF Formed THEN Nodes \ {n} ELSE {}]
  /\ linked' = [n \in Nodes |-> IF Formed THEN Nodes \ {n} ELSE {}]
  /\ pool' = IF Formed THEN { <<1, x, 1, 0>> : x \in Nodes } ELSE {}
  /\ G' = [x \in Nodes |-> IF Formed THEN [join |-> 1, leave |-> -1, sil |-> -1] ELSE NoG]
  /\ phase' = "run" /\ ops' = 0 /\ spur' = 0
  /\ last' = [a |-> "init"]
  /\ obs' = ObsOf(InitR, [n \in Nodes |-> TRUE], <<>>)
  /\ M' = [bad |-> {}, tags |-> {}, fl |-> {}, flx |-> {}, dis |-> {}, g |-> [x \in Nodes |-> IF Formed THEN [join |-> 1, leave |-> -1, sil |-> -1] ELSE NoG]]

Resync ==
  LET act == Line.act  o == Line.obs
      g2  == GAfter(G, act, obs.nodes, o.q)
      grp(n, m) == linked[n] \cup linked[m] \cup {n, m}
  IN
  /\ R' = [n \in Nodes |-> FromObsNode(o.nodes[n + 1], n)]
  /\ up' = [n \in Nodes |-> o.nodes[n + 1].up]
  /\ ml' = CASE act.a = "mljoin"  -> [ml EXCEPT ![act.n] = @ \cup {act.x}]
             [] act.a = "mlleave" -> [ml EXCEPT ![act.n] = @ \ {act.x}]
             [] act.a = "join"    -> [ml EXCEPT ![act.n] = @ \cup {act.m}, ![act.m] = @ \cup {act.n}]
             [] act.a = "rejoin"  -> [ml EXCEPT ![act.n] = {act.m}, ![act.m] = @ \cup {act.n}]
             [] OTHER -> ml
  /\ linked' = IF act.a \in {"join", "rejoin"}
                 THEN [x \in Nodes |-> IF x \in grp(act.n, act.m) THEN grp(act.n, act.m) \ {x} ELSE linked[x]]
                 ELSE linked
  /\ pool' = pool \cup SeqSet(o.q)
  /\ G' = g2
  /\ phase' = IF act.a = "sync" THEN "sync" ELSE phase
  /\ ops' = ops /\ spur' = spur
  /\ last' = act
  /\ obs' = o
  /\ M' = MonStep(M, act, obs.nodes, o.nodes, g2)

Step ==
  /\ l <= Len(Trace)
  /\ l' = l + 1
  /\ IF Line.act.a = "reset" THEN Reset
     ELSE \/ Conform
          \/ /\ ~ENABLED Conform
             /\ PrintT(<<"DIVERGE", l>>)
             /\ Resync
  /\ ~(M'.bad \subseteq M.bad) => PrintT(<<"MONITOR", l, M'.bad \ M.bad, M'.tags>>)

TraceNext == Step
TraceSpec == TraceInit /\ [][TraceNext]_tvars
Done == l = Len(Trace) + 1 => PrintT(<<"DONE", l>>)
=============================================================================
