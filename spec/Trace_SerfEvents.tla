-------------------------- MODULE Trace_SerfEvents --------------------------
(* One line per input applied to a real quiet Serf node: act = the action record, *)
(* obs = clocks, minimum times, both buffers (read through the accessor of         *)
(* hooks/serf_events), the deliveries that came out of the event pipeline and what *)
(* was queued for broadcast during the call, and the times the snapshot file held  *)
(* at the last restart.  The projection is complete except for the snapshot        *)
(* recorder (se/sq), which is observed at restarts; a non-conforming line          *)
(* re-synchronises the model from the observation.                                 *)
EXTENDS SerfEvents, Json
Trace == ndJsonDeserialize("trace.ndjson")
VARIABLES l
tvars == <<vars, l>>
Line == Trace[l]

ActFor(act) ==
  CASE act.a = "ev"      -> Ev(act.lt, act.k)
    [] act.a = "qry"     -> Qry(act.lt, act.id, act.nb, act.flt)
    [] act.a = "merge"   -> Merge([elt |-> act.elt, qlt |-> act.qlt, evs |-> act.evs], act.join, act.ign)
    [] act.a = "join"    -> Join([elt |-> act.elt, qlt |-> act.qlt, evs |-> act.evs], act.ign)
    [] act.a = "uev"     -> Uev(act.k)
    [] act.a = "lq"      -> Lq
    [] act.a = "restart" -> \E re \in -1..MAX, rq \in -1..MAX : Restart(act.crash, re, rq)
    [] OTHER             -> FALSE

Conform == ActFor(Line.act) /\ last' = Line.act /\ obs' = Line.obs

TraceInit == Init /\ l = 1

Reset == /\ N' = NewNode(Line.act.b, Line.act.bq, Line.act.snap) /\ rst' = <<-1, -1>>
         /\ obs' = ObsOf(NewNode(Line.act.b, Line.act.bq, Line.act.snap), <<>>, <<>>, <<-1, -1>>)
         /\ last' = [a |-> "init"] /\ steps' = 0
         /\ M' = MonNew(Line.act.snap)

FromObs(o, act) ==
  LET n0 == [b |-> N.b, bq |-> N.bq, snap |-> N.snap, ec |-> o.ec, emin |-> o.emin, ebuf |-> [i \in 0..(N.b - 1) |-> o.ebuf[i + 1]],
             qc |-> o.qc, qmin |-> o.qmin, qbuf |-> [i \in 0..(N.bq - 1) |-> o.qbuf[i + 1]],
             se |-> N.se, sq |-> N.sq, seh |-> N.seh, sqh |-> N.sqh,
             nlq |-> N.nlq + (IF act.a = "lq" THEN 1 ELSE 0), nloc |-> N.nloc] IN
  IF act.a = "restart" THEN [n0 EXCEPT !.se = o.re, !.sq = o.rq, !.seh = {o.re}, !.sqh = {o.rq}]
  ELSE Record(n0, o.dl)

Step ==
  /\ l <= Len(Trace)
  /\ l' = l + 1
  /\ IF Line.act.a = "reset" THEN Reset
     ELSE \/ Conform
          \/ /\ ~ENABLED Conform
             /\ PrintT(<<"DIVERGE", l>>)
             /\ N' = FromObs(Line.obs, Line.act)
             /\ rst' = <<Line.obs.re, Line.obs.rq>>
             /\ obs' = Line.obs /\ last' = Line.act /\ steps' = steps + 1
             /\ M' = MonStep(M, Line.act, obs, Line.obs)
  /\ LET new == M'.bad \ M.bad
         ne == new \cap EventClauses
         nq == new \ EventClauses IN
     /\ ne # {} => PrintT(<<"MONITOR", l, ne, IF M'.topE THEN {"witnessed_max"} ELSE {}>>)
     /\ nq # {} => PrintT(<<"MONITOR", l, nq, IF M'.topQ THEN {"witnessed_max"} ELSE {}>>)

TraceNext == Step
TraceSpec == TraceInit /\ [][TraceNext]_tvars
Done == l = Len(Trace) + 1 => PrintT(<<"DONE", l>>)
=============================================================================
