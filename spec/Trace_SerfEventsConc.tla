------------------------ MODULE Trace_SerfEventsConc ------------------------
(* One line per SEGMENT of scheduling steps of the cooperative scheduler (act.n    *)
(* consecutive steps of thread act.t within one call; nobody else ran in between)   *)
(* on the real,                                                                     *)
(* yield-instrumented Serf.UserEvent / Serf.Query / handleUserEvent / handleQuery: *)
(* act.t = thread that ran; obs.ec / obs.qc = the two clocks after the step,       *)
(* obs.dl = what came out of the event pipeline during the step, obs.fin = the     *)
(* thread's current call returned in this step, obs.lt = the Lamport time carried  *)
(* by the broadcast that call queued (local calls; -1 otherwise).                  *)
(* A code step is a local step or one atomic action of the specification, so a     *)
(* segment is any number (at most 14: one call incl. one witness retry) of actions of that thread; program *)
(* counters and locals are not logged, so the trace spec tracks the SET of model   *)
(* states consistent with everything observed so far (SS); a line diverges exactly *)
(* when that set becomes empty.  The monitor sees logged data only.                *)
EXTENDS SerfEventsConc, Json
Trace == ndJsonDeserialize("trace.ndjson")
VARIABLES l, div, fc, run, SS
tvars == <<vars, l, div, fc, run, SS>>
Line == Trace[l]

NoProg == [b |-> 1, th |-> << <<>> >>]
TraceInit == /\ S = InitS(NoProg) /\ M = MonNew(NoProg.th) /\ last = [a |-> "init"]
             /\ l = 1 /\ div = FALSE /\ fc = <<0>> /\ run = <<FALSE>> /\ SS = {}

Reset ==
  /\ S' = InitS(Line.act.prog) /\ SS' = { InitS(Line.act.prog) }
  /\ M' = MonNew(Line.act.prog.th)
  /\ last' = [a |-> "init"] /\ div' = FALSE
  /\ fc' = [t \in DOMAIN Line.act.prog.th |-> 0]
  /\ run' = [t \in DOMAIN Line.act.prog.th |-> FALSE]

\* states reachable by up to k more actions of thread t, deliveries accumulated in dl
RECURSIVE ReachK(_, _, _)
ReachK(R, t, k) ==
  IF k = 0 THEN R
  ELSE ReachK(R \cup UNION { { [y EXCEPT !.dl = x.dl \o y.dl] : y \in Acts(x, t) } : x \in R }, t, k - 1)

ConfSucc(s) ==
  LET t == Line.act.t
      o == Line.obs
      cands == ReachK({ [s EXCEPT !.dl = <<>>] }, t, IF Line.act.n < 14 THEN Line.act.n ELSE 14)
      ok == { x \in cands : /\ x.ec = o.ec /\ x.qc = o.qc /\ x.dl = o.dl
                            /\ o.fin => (CanFin(x, t) /\ (IsLocal(CurOp(x, t)) => x.th[t].lt = o.lt)) } IN
  { IF o.fin THEN Fin(x, t) ELSE x : x \in ok }

MonLine(m) ==
  LET t == Line.act.t
      o == Line.obs
      has == fc[t] < Len(S.prog[t])
      m0 == IF has /\ ~run[t] THEN MonBegin(m, S.prog, t, fc[t]) ELSE m
      m1 == MonDeliver(m0, o.dl)
      op == S.prog[t][fc[t] + 1] IN
  IF has /\ o.fin THEN MonFin(m1, S.prog, t, fc[t], IF IsLocal(op) THEN o.lt ELSE op.lt) ELSE m1

Step ==
  /\ l <= Len(Trace)
  /\ l' = l + 1
  /\ IF Line.act.a = "reset" THEN Reset
     ELSE /\ M' = MonLine(M)
          /\ fc' = IF Line.obs.fin THEN [fc EXCEPT ![Line.act.t] = @ + 1] ELSE fc
          /\ run' = [run EXCEPT ![Line.act.t] = ~Line.obs.fin /\ fc[Line.act.t] < Len(S.prog[Line.act.t])]
          /\ last' = Line.act
          /\ UNCHANGED S
          /\ IF div THEN UNCHANGED <<SS, div>>
             ELSE LET nxt == UNION { ConfSucc(s) : s \in SS } IN
                  IF nxt # {} THEN SS' = nxt /\ div' = FALSE
                  ELSE /\ PrintT(<<"DIVERGE", l>>)
                       /\ UNCHANGED SS /\ div' = TRUE
  /\ \A v \in M'.bad \ M.bad : PrintT(<<"MONITOR", l, {v[1]}, v[2]>>)

TraceNext == Step
TraceSpec == TraceInit /\ [][TraceNext]_tvars
Done == l = Len(Trace) + 1 => PrintT(<<"DONE", l>>)
=============================================================================
