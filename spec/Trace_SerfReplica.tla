------------------------- MODULE Trace_SerfReplica -------------------------
(* One line per input applied to a real, quiet Serf node: act = the action      *)
(* record, obs = the projected state read back through the accessor and the     *)
(* public API (members, status times, lists, intent buffer, clock, what was     *)
(* queued for broadcast, member events delivered).  The projection is complete, *)
(* so a non-conforming line re-synchronises the model from the observation.     *)
EXTENDS SerfReplica, Json
Trace == ndJsonDeserialize("trace.ndjson")
VARIABLES l
tvars == <<vars, l>>
Line == Trace[l]

FromObs(o) ==
  [ self |-> Self, sstate |-> o.sstate, clock |-> o.clock,
    mem |-> [x \in Names |-> o.mem[x + 1]],
    failedL |-> o.failed, leftL |-> o.left,
    intents |-> [x \in Names |-> o.intents[x + 1]] ]

ActFor(act) ==
  CASE act.a = "mljoin"     -> MLJoin(act.x)
    [] act.a = "mlleave"    -> MLLeave(act.x)
    [] act.a = "mlupdate"   -> MLUpdate(act.x)
    [] act.a = "msg"        -> NetMsg(act.ty, act.x, act.lt, act.prune)
    [] act.a = "merge"      -> NetMerge(act.pp)
    [] act.a = "forceleave" -> ApiForceLeave(act.x, act.prune)
    [] act.a = "bjoin"      -> ApiBroadcastJoin
    [] act.a = "leave"      -> ApiLeave
    [] act.a = "reap"       -> ApiReap(act.f, act.l)
    [] act.a = "expire"     -> TimeExpire(act.s)
    [] OTHER                -> FALSE

Conform == ActFor(Line.act) /\ last' = Line.act /\ obs' = Line.obs

TraceInit == Init /\ l = 1

Reset ==
  /\ R' = NewReplica(Self) /\ mlUp' = {}
  /\ obs' = ObsOf(NewReplica(Self), NoRes(NewReplica(Self)))
  /\ last' = [a |-> "init"] /\ steps' = 0 /\ M' = [bad |-> {}, rbSeen |-> {}]

Step ==
  /\ l <= Len(Trace)
  /\ l' = l + 1
  /\ IF Line.act.a = "reset" THEN Reset
     ELSE \/ Conform
          \/ /\ ~ENABLED Conform
             /\ PrintT(<<"DIVERGE", l>>)
             /\ R' = FromObs(Line.obs)
             /\ mlUp' = (IF Line.act.a = "mljoin" THEN mlUp \cup {Line.act.x}
                         ELSE IF Line.act.a = "mlleave" THEN mlUp \ {Line.act.x} ELSE mlUp)
             /\ obs' = Line.obs /\ last' = Line.act /\ steps' = steps + 1
             /\ M' = MonStep(M, Line.act, obs, Line.obs)
  /\ ~(M'.bad \subseteq M.bad) => PrintT(<<"MONITOR", l, M'.bad \ M.bad, {}>>)

TraceNext == Step
TraceSpec == TraceInit /\ [][TraceNext]_tvars
Done == l = Len(Trace) + 1 => PrintT(<<"DONE", l>>)
=============================================================================
