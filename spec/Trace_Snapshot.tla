--------------------------- MODULE Trace_Snapshot ---------------------------
(* Trace validation for the snapshot family.  trace.ndjson holds, per schedule: a reset line with the   *)
(* configuration / concretization (thresholds, byte lengths of the concrete names, addresses and        *)
(* times), then for every input executed on the REAL serf.Snapshotter                                   *)
(*    the input record, one line per operation boundary the shim saw (act = [a |-> "op", op, f, ok,     *)
(*    wlen, nl], obs = [mem = in-memory state read at the boundary, pend = bytes in the live            *)
(*    bufio.Writer, rec = state a fresh NewSnapshotter recovers from the directory image captured       *)
(*    there, nf = snapshot file missing]), and a "done" / "panic" / "crash" line.                       *)
(* The model (Snapshot.tla) is deterministic given the inputs, so conformance is plain stepping: the    *)
(* handler result c = ProcOf(W, input) is computed at the input line and its boundaries c.out are       *)
(* compared one by one with the op lines.  The property monitors (TM) run on every line from logged     *)
(* data only, also after a divergence.                                                                  *)
EXTENDS Snapshot, Json
Trace == ndJsonDeserialize("trace.ndjson")
VARIABLES l, div, run, TM
tvars == <<vars, l, div, run, TM>>
Line == Trace[l]

SeqSet(s) == { s[i] : i \in DOMAIN s }
CfgOf(c) == [mcs |-> c.mcs, ral |-> c.ral, bpn |-> c.bpn, nlen |-> c.nlen, alen |-> c.alen, tlen |-> c.tlen,
             evil |-> SeqSet(c.evil), tags |-> SeqSet(c.tags)]

NoRun == [busy |-> FALSE, act |-> [a |-> "none"], pc |-> 0, c |-> 0]
IsInput(a) == a \in {"feed", "tick", "leave", "shutdown"}

\* the model explains the line: the next world / run
Conform(w2, r2) == W' = w2 /\ run' = r2 /\ div' = FALSE

Explain ==
  LET a == Line.act.a IN
  CASE a = "started" ->
         /\ W.phase = "down" /\ ~run.busy /\ Line.obs.ok
         /\ Line.obs.st = StOf(StartW(W).S.mem)
         /\ Conform(StartW(W), NoRun)
    [] IsInput(a) ->
         /\ W.phase = "up" /\ ~run.busy
         /\ Conform(W, [busy |-> TRUE, act |-> Line.act, pc |-> 0, c |-> ProcOf(W, Line.act)])
    [] a = "op" ->
         /\ run.busy /\ run.pc < Len(run.c.out)
         /\ LET bd == run.c.out[run.pc + 1] IN OpAct(bd) = Line.act /\ ObsOp(bd) = Line.obs
         /\ Conform(W, [run EXCEPT !.pc = @ + 1])
    [] a = "done" ->
         /\ run.busy /\ run.pc = Len(run.c.out) /\ ~run.c.panic /\ Line.act.of = run.act.a
         /\ Line.obs.fwd /\ Line.obs.mem = MemObs(run.c.mem)
         /\ Conform(DoneW(W, run.act, run.c), NoRun)
    [] a = "panic" ->
         /\ run.busy /\ run.pc = Len(run.c.out) /\ run.c.panic
         /\ Conform(PanicW(W, run.act, run.c), NoRun)
    [] a = "crash" ->
         /\ W.phase = "up"
         /\ IF run.busy THEN /\ Line.act.k = (IF run.pc = 0 THEN W.S.n ELSE run.c.out[run.pc].n)
                             /\ Conform(CutW(W, run.c, run.pc), NoRun)
                        ELSE /\ Line.act.k = W.S.n
                             /\ Conform(CutW(W, 0, 0), NoRun)
    [] a = "wit" -> /\ W.phase = "up" /\ ~run.busy     \* Witness of an older time is a no-op
                    /\ Conform(IF Line.act.v > W.clk THEN WitW(W, Line.act.v) ELSE W, run)
    [] a = "adv" -> W.phase = "up" /\ ~run.busy /\ Conform(AdvW(W, Line.act.d), run)
    \* events pushed after a leave are dropped, by the main loop or by the shutdown drain loop
    \* torn-tail class: the model's file without its last line is what the whole-lines cut replays to
    [] a = "torn" ->
         LET fs == IF run.busy /\ run.pc > 0 THEN run.c.out[run.pc].fs ELSE W.S.fs
         IN  /\ Len(fs.cur.lines) > 0
             /\ Line.obs.base = RecObs([fs EXCEPT !.cur.lines = SubSeq(@, 1, Len(@) - 1)])
             /\ Conform(W, run)
    [] a = "burst" -> W.phase = "up" /\ ~run.busy /\ W.S.mem.lv /\ Conform(W, run)
    [] OTHER -> FALSE

TraceInit ==
  /\ cfg = ModelCfg(0, FALSE) /\ W = InitW /\ last = <<>> /\ steps = 0
  /\ l = 1 /\ div = FALSE /\ run = NoRun /\ TM = MonInit

Step ==
  /\ l <= Len(Trace)
  /\ l' = l + 1
  /\ UNCHANGED <<last, steps>>
  /\ IF Line.act.a = "reset"
     THEN /\ cfg' = CfgOf(Line.act.cfg) /\ W' = InitW /\ run' = NoRun /\ TM' = MonInit
          \* Serf-level histories (tag serf_level) are judged by the monitors only: no step-by-step conformance
          /\ div' = \E i \in DOMAIN Line.act.cfg.tags : Line.act.cfg.tags[i] = "serf_level"
     ELSE /\ UNCHANGED cfg
          /\ TM' = MonStep(TM, Line.act, Line.obs)
          /\ IF div THEN UNCHANGED <<W, run, div>>
             ELSE \/ Explain
                  \/ /\ ~ENABLED Explain
                     /\ PrintT(<<"DIVERGE", l>>)
                     /\ UNCHANGED <<W, run>> /\ div' = TRUE
          \* one report per new violation (kept short: TLC wraps printed values at 80 columns)
          /\ \A v \in TM'.viol \ TM.viol : PrintT(<<"MONITOR", l, {v.c}, v.t>>)

TraceNext == Step
TraceSpec == TraceInit /\ [][TraceNext]_tvars
Done == l = Len(Trace) + 1 => PrintT(<<"DONE", l>>)
=============================================================================
