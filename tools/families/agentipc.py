"""C24, C25, C26, C30: the agent's RPC server (spec/AgentIPC.tla, IPCStreams.tla, IPCQuery.tla, MemberFilter.tla, AgentTags.tla)."""
PROPS = ["C24", "C25", "C26", "C30"]
CLAIMS = {
    'C24': (
        'model_checking',
        'TLC checks the C24 monitors (no effect on the agent and no data-bearing reply or stream record before an error-free reply to a version-1 handshake, resp. -- with an auth key configured -- before an error-free reply to an auth request carrying the right key; every header of another command sent with intact framing while authentication is missing is answered by an error header with its Seq, judged at a close barrier) exhaustively on spec/AgentIPC.tla (every sequence of wire objects up to the bound: 20 commands + an unknown one, bodies valid / wrong / absent / malformed, handshake versions 1 / 0 / 2 / 2^31-1, keyed and unkeyed agent; the model includes the reuse of the header variable and the unconsumed bodies of rejected commands) and on every object of TLC-simulated sequences put on the wire of a real AgentIPC of a real quiet Agent by a raw msgpack client; requests are also PIPELINED (k >= 2 complete requests handed over with one write before anything is read): every complete request the server has no reason to leave unanswered gets a reply with its Seq, in request order (C24_no_reply, C24_reply_order); every line (replies, effects, closure) is validated by TLC against the model.',
        'Trusts TLC, the raw client and its framing rule (a body belongs to the header whose write it shares), the effect observers (broadcast queues drained through the real GetBroadcasts, LocalMember tags, transport dial gate, overlay accessors for handler / client counts, Serf.State) and the quiet configuration built like quiet.NewNode but handed to agent.Create.',
        'TLA+ spec (AgentIPC) + TLC exhaustive check of the monitor; TLC-simulated object sequences replayed on the real agent RPC server; TLC trace validation of every object with the property monitor on observed replies and effects',
        '5 C24',
    ),
    'C25': (
        'model_checking',
        'TLC checks the C25 monitors exhaustively on spec/IPCStreams.tla (requests stream / monitor / stop / members / query with reused Seqs interleaved with user, member and query events: every header Seq is the Seq of a request sent, every record sits on a stream of its kind, event records are emitted events matching the filter of the registration covering them, in emission order, complete at close up to what fitted the 512-slot buffer when a burst overflowed it while the client did not read; the received bytes are well-formed msgpack header / header+body pairs; no reply header without a request; a slow-reader step class puts stream goroutines and the request handler into IPCClient.Send concurrently while a pipe write is in flight) and on spec/IPCQuery.tla (one query RPC: all orders of ack arrives / response arrives / loop iteration / deadline+close / client stalls and resumes: records are exactly acks and responses that were injected, exactly one done, nothing after it), and on TLC-simulated behaviours of both executed on a real agent through a raw msgpack client (replies injected through NotifyMsg in the real wire format; the yield-instrumented stream loop released one select iteration at a time); every received frame is validated by TLC.',
        'Trusts TLC, the yield instrumenter and the gate in front of the select, the goroutine-dump test for "blocked in the select / in Send", the raw client, the mirror of the query-response wire format, and that which ready case a Go select takes is uniformly random (a zero-value record after expiry shows with probability >= 1/2 per iteration, so the recorded finding is seen in nearly every run but not in every trace).',
        'TLA+ specs (IPCStreams, IPCQuery) + TLC exhaustive check of the monitors; TLC-simulated schedules replayed on the real agent (event streams end to end; query stream loop yield-instrumented and scheduled by the harness); TLC trace validation with property monitors on observed frames',
        '5 C25',
    ),
    'C26': (
        'model_checking',
        'TLC enumerates every single-pattern members-filtered request of the regex AST domain (spec/Regex.tla RE(d) over {a, b, .} with concatenation, alternation, star, optional; 13 status patterns; 8 invalid patterns per field, and the cross product of an invalid pattern in one field with absent / valid-matching / valid-non-matching patterns in the others) plus sampled mixed name/status/tag requests, one RPC per TLC state against a real agent holding 39 members (every name of length <= 3 over {a,b,c}, seeded statuses alive/leaving/left/failed and tag values, missing tags); TLC compares the returned member set with the documented whole-string meaning (Regex!Lang) and checks that an invalid pattern yields no list; the model of the code is the oracle since the grouping fix a8ceccf (0 divergences expected); laws relating the whole-string matcher, the splitting matcher used for statuses and the historic ungrouped anchoring are checked as ASSUME.',
        'Trusts TLC, spec/Regex.tla as the meaning of the pattern ASTs, the renderer from ASTs to Go syntax with minimal bracketing, and the population set-up through NotifyJoin / NotifyLeave and leave intents (verified against Serf.Members before the requests).',
        'TLA+ functional oracle (MemberFilter over Regex) + TLC enumeration of the bounded input domain; every request executed on the real agent through the real IPC; TLC trace validation comparing observed and documented result',
        '5 C26',
    ),
    'C30': (
        'model_checking',
        'TLC checks the C30 monitors (an edit whose documented result -- previous tags minus deleted keys plus set keys, set keys winning -- fits the 512-byte limit is accepted and yields exactly that result; after EVERY edit, accepted or rejected, the tags restored by the agent\'s own loader from the tags file equal the tags in effect) exhaustively on spec/AgentTags.tla (3 keys, small values and values of 249 / 250 bytes placed exactly at and one byte over the limit, all edit sequences up to the bound) and on TLC-simulated edit sequences sent as `tags` RPCs to a real agent with a tags file (seeded non-ASCII keys and JSON-hostile values), reloading through agent.Create after every edit; every step is validated by TLC.',
        'Trusts TLC, the raw client, that agent.Create on the same tags file stands for the next start, and the model\'s size formula (keys of two bytes; mirrored from serf\'s encodeTags: magic byte + msgpack map, raw16 for strings of 32 bytes and more).',
        'TLA+ spec (AgentTags) + TLC exhaustive check of the monitors; TLC-simulated edit sequences replayed on a real agent with a tags file; TLC trace validation with property monitors on effective and reloaded tags',
        '5 C30',
    ),
}
import json
import os
import re
import threading

import vlib

TRACE_CFG = "SPECIFICATION TraceSpec\nINVARIANT Done\n"


def build(ctx, instrumented=False):
    replaced = None
    if instrumented:
        replaced = vlib.instrument(ctx, [{"file": "cmd/serf/command/agent/ipc_query_response_stream.go",
                                          "funcs": ["queryResponseStream.Stream"], "locks": False,
                                          "require": ["queryResponseStream.Stream"]}])
    ov = vlib.overlay_for(ctx, hook_pkgs=[("cmd/serf/command/agent", "agent_ipc"), ("cmd/serf/command/agent", "agent_yield"),
                                          ("serf", "serf_agentipc")], replaced=replaced)
    return vlib.go_build(ctx, "agentipc", overlay=ov, name="bin-agentipc" + ("-i" if instrumented else "")), replaced


def execute(ctx, binary, mode, scheds, tag, extra=None, timeout=1800):
    sp = os.path.join(ctx.scratch, "sched-%s.ndjson" % tag)
    tp = os.path.join(ctx.scratch, "trace-%s.ndjson" % tag)
    vlib.write_schedules(sp, scheds)
    rc, out = vlib.run_driver(ctx, binary, ["-mode", mode, "-in", sp, "-out", tp, "-scratch", ctx.sub("drv")] + (extra or []),
                              timeout=timeout)
    if rc != 0:
        raise vlib.Inconclusive("agentipc driver (%s) failed rc=%d:\n%s" % (mode, rc, out[-3000:]))
    return tp


def confirm(ctx, rep, scheds, prefix, rerun, per_key=2, limit=6):
    """Monitor reports -> violations confirmed by a second, independent execution from scratch.
    rerun(schedule, tag) -> TraceReport of the re-execution (C25 re-executes the schedule several times in one go:
    which ready case a Go select takes is random, see run_c25)."""
    viol, seen = [], {}
    for (tid, line, clauses, tags) in rep.monitors:
        mine = sorted(c for c in clauses if c.startswith(prefix))
        if not mine:
            continue
        key = ",".join(mine) + "|" + ",".join(sorted(tags))
        if seen.get(key, 0) >= per_key or len(viol) >= limit:
            continue
        seen[key] = seen.get(key, 0) + 1
        rep2 = rerun(scheds[tid], "re%d" % tid)
        again = sorted(set(c for m in rep2.monitors for c in m[2] if c in mine))
        tags2 = sorted(set(t for m in rep2.monitors for t in m[3] if set(m[2]) & set(mine)))
        if again:
            viol.append({"clauses": again, "tags": tags2, "schedule": scheds[tid]})
        else:
            ctx.log("report %s on trace %d not reproduced; ignored" % (mine, tid))
    return viol


def classify(ctx, viol):
    """vlib.classify against known_findings.json.  For the family's own self-tests only, the findings this family
    PROPOSES (reports/agentipc-proposed-findings.json) are honoured as well when VERIF_AGENTIPC_PROPOSED=1; by
    default they are not, so an unregistered genuine defect is reported as a VIOLATION."""
    new, known = vlib.classify(ctx.prop, viol)
    if os.environ.get("VERIF_AGENTIPC_PROPOSED") == "1" and new:
        path = os.path.join(vlib.VERIF, "reports", "agentipc-proposed-findings.json")
        prop = [k for k in json.load(open(path))["findings"] if k["property"] == ctx.prop]
        rest = []
        for v in new:
            hit = [k for k in prop if set(v["clauses"]) <= set(k["clauses"]) and set(k.get("requires_tags", [])) <= set(v.get("tags", []))]
            if hit:
                ctx.log("PROPOSED-FINDING (self-test mode): %s %s" % (hit[0]["id"], v["clauses"]))
            else:
                rest.append(v)
        new = rest
    return new, known


def kinds_of(scheds):
    k = {}
    for s in scheds:
        for st in s:
            k[st["a"]] = k.get(st["a"], 0) + 1
    return k


def run(ctx, replay=None):
    return {"C24": run_c24, "C25": run_c25, "C26": run_c26, "C30": run_c30}[ctx.prop](ctx, replay)


def run_c24(ctx, replay):
    binary, _ = build(ctx)
    mc = None
    tcfg = TRACE_CFG + "CONSTANT MaxObjs = 1000\n"
    nobj = 7 if ctx.thorough() else 6
    if replay:
        scheds = [json.load(open(replay))["schedule"]]
    else:
        mc = vlib.tlc(ctx, "AgentIPC", "CONSTANT MaxObjs = %d\nINIT Init\nNEXT Next\nINVARIANT C24\nINVARIANT Agree\nVIEW View\n" % nobj, workers=8 if ctx.thorough() else 4, timeout=3000)
        if mc.violated:
            raise vlib.Inconclusive("the model violates its own monitor %s -- spec error, no verdict" % mc.violated)
        num, depth = (4000, 40) if ctx.thorough() else (450, 36)
        _, scheds = vlib.simulate_schedules(ctx, "Gen_AgentIPC", "CONSTANT MaxObjs = 12\nINIT GenInit\nNEXT GenNext\n", num, depth)
        for s in scheds:
            if s[-1]["a"] != "close":
                s.append({"a": "close"})
    tp = execute(ctx, binary, "c24", scheds, "a")
    rep = vlib.validate(ctx, "Trace_AgentIPC", tcfg, tp)

    def rerun(sched, tag):
        return vlib.validate(ctx, "Trace_AgentIPC", tcfg, execute(ctx, binary, "c24", [sched], tag))
    viol = confirm(ctx, rep, scheds, "C24_", rerun)
    new, known = classify(ctx, viol)
    cmds = {}
    for s in scheds:
        for st in s:
            if st["a"] == "hdr":
                cmds[st["cmd"]] = cmds.get(st["cmd"], 0) + 1
    cov = {
        "states": mc.distinct if mc else 1, "transitions": mc.generated if mc else 1, "exhaustive": bool(mc),
        "model_constants": "exhaustive: every sequence of <= %d wire objects (21 commands incl. an unknown one x body classes valid/"
                           "wrong/absent/malformed) on a keyed and an unkeyed agent; simulation: <= 12 objects per connection" % nobj,
        "traces_validated_against_impl": rep.traces, "trace_lines": rep.lines, "divergences": len(rep.diverged),
        "evaluations": sum(len(s) for s in scheds), "distinct_nontrivial": len(set(json.dumps(s) for s in scheds)),
        "inputs_by_kind": kinds_of(scheds), "headers_by_command": cmds,
        "rule": "TLC -simulate behaviours of AgentIPC (object sequences on one connection) put on the wire of a real AgentIPC of a real "
                "quiet Agent by a raw msgpack client; per object the replies and the effects observed on the agent (broadcast queue, "
                "tags, dials, handler registrations, serf state) are validated by TLC against the model and judged by the C24 monitor; "
                "distinct = distinct object sequences",
        "samples": [scheds[0][:10]] if scheds else [],
    }
    assume = ["effects are observed through the broadcast queues, LocalMember tags, transport dials, handler counts (overlay accessors) "
              "and Serf.State(); an effect outside these channels would not be seen",
              "every connection ends with a close barrier (the server has deregistered the connection) before the last judgement",
              "the client keeps the header-then-own-body discipline (a body object only ever follows its own header); bodies may be absent, wrong or malformed"]
    vlib.finish(ctx, "model_checking", cov, assume, new, known)


# ----------------------------------------------------------------------------- C26

MF_CONST = "CONSTANT Pop <- %s\nCONSTANT MaxSteps = %d\n"


def batches(reqs, n):
    return [reqs[i:i + n] for i in range(0, len(reqs), n)]


def run_c26(ctx, replay):
    binary, _ = build(ctx)
    tcfg = TRACE_CFG + MF_CONST % ("TPop", 1000000)
    mc = None
    if replay:
        scheds = [json.load(open(replay))["schedule"]]
    else:
        depth = 2 if ctx.thorough() else 1
        # exhaustive: every single-pattern request of the AST domain on the model's population; the model (= the code as it
        # is since a8ceccf) meets the monitor; the laws of the definitions (ASSUME, depth 1)
        cfg = MF_CONST % ("GPop", 1) + "CONSTANT Depth = %d\nINIT AllInit\nNEXT AllNext\n" % depth
        mc = vlib.tlc(ctx, "Gen_MemberFilter", cfg + "INVARIANT C26\nACTION_CONSTRAINT Emit\n", workers=1, timeout=3000)
        if mc.violated:
            raise vlib.Inconclusive("the model violates C26 -- spec error, no verdict")
        reqs = [e[0] for e in vlib.edge_schedules(mc)]
        num, depth_s = (260, 24) if ctx.thorough() else (70, 24)
        _, sim = vlib.simulate_schedules(ctx, "Gen_MemberFilter", MF_CONST % ("GPop", 12) + "CONSTANT Depth = 2\nINIT GenInit\nNEXT GenNext\n",
                                         num, depth_s, workers=4)
        scheds = batches(reqs, 120) + sim
    tp = execute(ctx, binary, "filter", scheds, "a")
    rep = vlib.validate(ctx, "Trace_MemberFilter", tcfg, tp, timeout=3000)

    # a report names one request of a batch: re-run exactly that request on a fresh agent / population
    lines = vlib.read_ndjson(tp)
    viol, seen = [], {}
    for (tid, line, clauses, tags) in rep.monitors:
        key = ",".join(sorted(clauses)) + "|" + ",".join(sorted(tags))
        if seen.get(key, 0) >= 2:
            continue
        seen[key] = seen.get(key, 0) + 1
        act = lines[line - 1]["act"]
        rep2 = vlib.validate(ctx, "Trace_MemberFilter", tcfg, execute(ctx, binary, "filter", [[act]], "re%d" % line))
        again = sorted(set(c for m in rep2.monitors for c in m[2] if c in clauses))
        if again:
            viol.append({"clauses": again, "tags": sorted(set(t for m in rep2.monitors for t in m[3])), "schedule": [act],
                         "observed": lines[line - 1]["obs"]})
        else:
            ctx.log("report %s at line %d not reproduced; ignored" % (clauses, line))
    new, known = classify(ctx, viol)
    nreq = sum(len(s) for s in scheds)
    cov = {
        "states": mc.distinct if mc else 1, "transitions": mc.generated if mc else 1, "exhaustive": bool(mc),
        "model_constants": "patterns: Regex!RE(%s) over {a,b,.} (cat, alt, star, opt) for name and tag, 13 status patterns, 8 invalid "
                           "patterns per field; names / tag values: strings of length <= 3 over {a,b,c}; statuses alive/leaving/left/failed"
                           % ("2" if ctx.thorough() else "1 exhaustively, 2 sampled"),
        "traces_validated_against_impl": rep.traces, "trace_lines": rep.lines, "divergences": len(rep.diverged),
        "evaluations": nreq, "distinct_nontrivial": len(set(json.dumps(st, sort_keys=True) for s in scheds for st in s)),
        "monitor_reports": len(rep.monitors),
        "rule": "one members-filtered RPC per TLC state (request) against a real agent with 39 members (every name of length <= 3, seeded "
                "statuses and tag values, created through NotifyJoin/NotifyLeave and leave intents); the returned member set is compared "
                "by TLC with the documented whole-string meaning; distinct = distinct requests",
        "samples": [scheds[0][:3]] if scheds else [],
    }
    assume = ["patterns are rendered to Go syntax with minimal bracketing (a top-level alternation is written a|b, as a user would)",
              "a dropped connection counts as the error for an invalid pattern (no error header is sent by the code)"]
    vlib.finish(ctx, "model_checking", cov, assume, new, known)


# ----------------------------------------------------------------------------- C30

def tags_consts(vals, steps):
    return "CONSTANT NK = 3\nCONSTANT Vals = {%s}\nCONSTANT MaxSteps = %d\n" % (", ".join(str(v) for v in vals), steps)


def run_c30(ctx, replay):
    binary, _ = build(ctx)
    tcfg = TRACE_CFG + tags_consts([1, 2, 3, 4], 1000000)
    mc = None
    if replay:
        scheds = [json.load(open(replay))["schedule"]]
    else:
        vals, steps = ([1, 2, 3, 4], 3) if ctx.thorough() else ([1, 3, 4], 3)
        mc = vlib.tlc(ctx, "AgentTags", tags_consts(vals, steps) + "INIT Init\nNEXT Next\nVIEW View\nINVARIANT C30\nINVARIANT TypeOK\n",
                      workers=8, timeout=3000)
        if mc.violated:
            raise vlib.Inconclusive("the model violates %s -- spec error, no verdict" % mc.violated)
        num, depth = (3000, 6) if ctx.thorough() else (500, 4)
        _, scheds = vlib.simulate_schedules(ctx, "Gen_AgentTags", tags_consts([1, 2, 3, 4], depth) + "INIT GenInit\nNEXT GenNext\n", num, depth)
    tp = execute(ctx, binary, "tags", scheds, "a")
    rep = vlib.validate(ctx, "Trace_AgentTags", tcfg, tp)

    def rerun(sched, tag):
        return vlib.validate(ctx, "Trace_AgentTags", tcfg, execute(ctx, binary, "tags", [sched], tag))
    viol = confirm(ctx, rep, scheds, "C30_", rerun)
    new, known = classify(ctx, viol)
    nrej = sum(1 for l in vlib.read_ndjson(tp) if l["act"]["a"] == "edit" and l["obs"]["err"] == 1)
    cov = {
        "states": mc.distinct if mc else 1, "transitions": mc.generated if mc else 1, "exhaustive": bool(mc),
        "model_constants": "3 keys, values {small, small', 249 bytes, 250 bytes} (two 249-byte values are exactly at the 512-byte limit, "
                           "249+250 one byte over); exhaustive: every edit sequence (set any subset of keys to any value, delete any subset) "
                           "of length <= %d over %s values; simulation: 4 values, length <= %d" % ((3, 4, 6) if ctx.thorough() else (3, 3, 4)),
        "traces_validated_against_impl": rep.traces, "trace_lines": rep.lines, "divergences": len(rep.diverged),
        "evaluations": sum(len(s) for s in scheds), "distinct_nontrivial": len(set(json.dumps(s) for s in scheds)),
        "rejected_edits_observed": nrej, "monitor_reports": len(rep.monitors),
        "rule": "TLC -simulate edit sequences of AgentTags sent as `tags` RPCs to a real agent with a tags file (seeded concrete keys / values: "
                "non-ASCII, quotes, '=', JSON-escaped characters); after every edit the effective tags (Serf LocalMember) and the tags "
                "restored by agent.Create from the same file are validated by TLC and judged by the C30 monitor; distinct = distinct sequences",
        "samples": [scheds[0][:4]] if scheds else [],
    }
    assume = ["the next start is represented by agent.Create (loadTagsFile) on the same tags file with a fresh configuration",
              "keys are two bytes long so that the model's size formula is exact; values are valid UTF-8"]
    vlib.finish(ctx, "model_checking", cov, assume, new, known)


# ----------------------------------------------------------------------------- C25

def gate_label(replaced):
    """The yield label the instrumenter put in front of the select of queryResponseStream.Stream."""
    src = open(list(replaced.values())[0]).read()
    m = re.search(r'verifYield\("(queryResponseStream\.Stream#\d+)"\)\s*select\s*{', src)
    if not m:
        raise vlib.Inconclusive("cannot find the select of queryResponseStream.Stream in the instrumented copy")
    return m.group(1)


def execute_parallel(ctx, binary, mode, scheds, tag, extra, procs):
    """Runs the driver on `procs` slices of the schedules concurrently; returns one concatenated trace (ids = positions)."""
    procs = max(1, min(procs, len(scheds)))
    slices = [list(range(i, len(scheds), procs)) for i in range(procs)]
    outs, errs = {}, []

    def work(k):
        try:
            sp = os.path.join(ctx.scratch, "sched-%s-%d.ndjson" % (tag, k))
            tp = os.path.join(ctx.scratch, "trace-%s-%d.ndjson" % (tag, k))
            with open(sp, "w") as f:
                for i in slices[k]:
                    f.write(json.dumps({"id": i, "steps": scheds[i]}, separators=(",", ":")) + "\n")
            rc, out = vlib.run_driver(ctx, binary, ["-mode", mode, "-in", sp, "-out", tp, "-scratch", ctx.sub("drv")] + extra, timeout=3000)
            if rc != 0:
                errs.append("driver (%s) rc=%d: %s" % (mode, rc, out[-2000:]))
            outs[k] = tp
        except Exception as e:  # noqa
            errs.append(str(e))
    ths = [threading.Thread(target=work, args=(k,)) for k in range(procs)]
    for t in ths:
        t.start()
    for t in ths:
        t.join()
    if errs:
        raise vlib.Inconclusive("agentipc driver failed: " + errs[0])
    tp = os.path.join(ctx.scratch, "trace-%s.ndjson" % tag)
    with open(tp, "w") as f:
        for k in range(procs):
            f.write(open(outs[k]).read())
    return tp


def trace_ids(tp):
    ids = []
    for ln in vlib.read_ndjson(tp):
        if ln["act"]["a"] == "reset":
            ids.append(ln["act"]["id"])
    return ids


ST_CONST = "CONSTANT SeqIds = {%s}\nCONSTANT MaxSteps = %d\nCONSTANT BufSize = 512\n"
Q_CONST = "CONSTANT Nodes = {1, 2}\nCONSTANT Pays = {%s}\nCONSTANT Cap = 1\nCONSTANT MaxSteps = %d\n"


def run_c25(ctx, replay):
    binary, replaced = build(ctx, instrumented=True)
    label = gate_label(replaced)
    st_cfg = TRACE_CFG + ST_CONST % ("1, 2, 3", 1000000)
    q_cfg = TRACE_CFG + Q_CONST % ("1, 2", 1000000)
    mcs, mcq = None, None
    if replay:
        v = json.load(open(replay))
        parts = {v.get("part", "stream"): [v["schedule"]]}
    else:
        mcs = vlib.tlc(ctx, "IPCStreams", ST_CONST % (("1, 2, 3", 3) if ctx.thorough() else ("1, 2", 3)) + "INIT Init\nNEXT Next\nINVARIANT C25\n",
                       workers=8, timeout=3000)
        if mcs.violated:
            raise vlib.Inconclusive("IPCStreams violates its own monitor -- spec error, no verdict")
        mcq = vlib.tlc(ctx, "IPCQuery", Q_CONST % (("1, 2", 8) if ctx.thorough() else ("1", 7)) + "INIT Init\nNEXT Next\nINVARIANT C25Q\n",
                       workers=8, timeout=3000)
        if mcq.violated:
            raise vlib.Inconclusive("IPCQuery violates its own monitor -- spec error, no verdict")
        ns, ds, nq, dq = (1500, 40, 640, 36) if ctx.thorough() else (160, 30, 80, 30)
        _, ss = vlib.simulate_schedules(ctx, "Gen_IPCStreams", ST_CONST % ("1, 2, 3", ds) + "INIT GenInit\nNEXT GenNext\n", ns, ds)
        for s in ss:
            if s[-1]["a"] != "close":
                s.append({"a": "close"})
        _, qs = vlib.simulate_schedules(ctx, "Gen_IPCQuery", Q_CONST % ("1, 2", dq) + "INIT GenInit\nNEXT GenNext\n", nq, dq)
        for s in qs:
            if s[-1]["a"] != "end":
                s.append({"a": "end", "w": 0})
        parts = {"stream": ss, "query": qs}
    viol, cov_parts = [], {}
    for part, scheds in parts.items():
        module, cfg, mode = ("Trace_IPCStreams", st_cfg, "stream") if part == "stream" else ("Trace_IPCQuery", q_cfg, "query")
        extra = ["-gate", label]
        tp = execute_parallel(ctx, binary, mode, scheds, part, extra, 1 if part == "stream" and len(scheds) < 8 else 8)
        order = trace_ids(tp)
        rep = vlib.validate(ctx, module, cfg, tp, timeout=3000)

        def rerun(sched, tag, module=module, cfg=cfg, mode=mode, extra=extra):
            # which ready case a Go select takes is random (and, un-gated, which of two timers fires first): the schedule
            # is re-executed from scratch 6 times, one more failure confirms
            return vlib.validate(ctx, module, cfg, execute(ctx, binary, mode, [sched] * 6, tag, extra=extra))
        vs = confirm(ctx, rep, scheds, "C25_", rerun, per_key=4)
        for v in vs:
            v["part"] = part
        viol += vs
        cov_parts[part] = {"traces": rep.traces, "lines": rep.lines, "divergences": len(rep.diverged), "monitor_reports": len(rep.monitors),
                           "steps_by_kind": kinds_of(scheds)}
    new, known = classify(ctx, viol)
    allscheds = [s for p in parts.values() for s in p]
    cov = {
        "states": (mcs.distinct + mcq.distinct) if mcs else 1, "transitions": (mcs.generated + mcq.generated) if mcs else 1,
        "exhaustive": bool(mcs),
        "model_constants": "IPCStreams: %d Seqs, 8 filters, 8 event bursts, all step sequences of length <= 3; IPCQuery: 2 nodes, channel "
                           "capacity 1, all orders of {ack, response, step, expire, stall/unstall, end} of length <= %d; simulation: 3 Seqs, "
                           "longer sequences, bursts of 600 events with a stalled client" % ((3, 8) if ctx.thorough() else (2, 7)),
        "traces_validated_against_impl": sum(p["traces"] for p in cov_parts.values()),
        "trace_lines": sum(p["lines"] for p in cov_parts.values()),
        "divergences": sum(p["divergences"] for p in cov_parts.values()),
        "parts": cov_parts,
        "evaluations": sum(len(s) for s in allscheds), "distinct_nontrivial": len(set(json.dumps(s) for s in allscheds)),
        "rule": "TLC -simulate behaviours of IPCStreams (requests stream/monitor/stop/members/query with reused Seqs interleaved with user, "
                "member and query events, slow-client bursts) and of IPCQuery (one query RPC; replies injected through NotifyMsg; the "
                "yield-instrumented stream loop released one select iteration at a time; deadline; slow client) executed on a real agent "
                "through a raw msgpack client; every frame received is validated by TLC and judged by the C25 monitors",
        "samples": [allscheds[0][:8]] if allscheds else [],
    }
    assume = ["the loop's own deadline timer and the timer that closes the QueryResponse fire within microseconds of each other and cannot be "
              "separated by the harness: a loop blocked in its select at the deadline takes the done case",
              "which ready select case Go picks is random; since b4a2fad a closed, drained channel costs a silent iteration (no record)",
              "events reach the agent one at a time in the logged order (user events through agent.UserEvent, member events through "
              "NotifyJoin/NotifyLeave, queries through NotifyMsg); registration of a stream is awaited before the next step"]
    vlib.finish(ctx, "model_checking", cov, assume, new, known)
