"""C02 agreement clause on multi-node histories (spec/SerfCluster.tla); helper for the C02 check."""
import json
import os

import vlib

KNOWN_TAGS = ["forceleave_of_running_member", "leaving_laundered_by_pushpull", "forceleave_time_not_above_join",
              "alive_again_after_leave_intent"]


# directed histories (3 formed nodes) in which a status must travel by state sync alone: the gossip that carried
# it reached only one member.  They are executed and validated like the simulated ones.
MUST3 = [
    # member 2 dies, node 0 force-leaves it; node 1 never receives the intent
    [{"a": "crash", "n": 2}, {"a": "mlleave", "n": 0, "x": 2, "w": 0}, {"a": "mlleave", "n": 1, "x": 2, "w": 0},
     {"a": "forceleave", "n": 0, "x": 2, "prune": 0, "w": 0}, {"a": "sync"}],
    # member 2 leaves gracefully, only node 0 receives the leave intent
    [{"a": "leave1", "n": 2}, {"a": "deliver", "n": 0, "ty": 2, "x": 2, "lt": 2, "prune": 0, "w": 0}, {"a": "leave2", "n": 2},
     {"a": "crash", "n": 2}, {"a": "mlleave", "n": 0, "x": 2, "w": 0}, {"a": "mlleave", "n": 1, "x": 2, "w": 0}, {"a": "sync"}],
    # node 0 force-leaves a dead member that node 1 still believes alive
    [{"a": "crash", "n": 2}, {"a": "mlleave", "n": 0, "x": 2, "w": 0}, {"a": "forceleave", "n": 0, "x": 2, "prune": 0, "w": 0},
     {"a": "sync"}],
    # a refutation that reaches only one peer: node 1 force-leaves the running node 2, node 2 refutes, only node 0 hears it
    [{"a": "forceleave", "n": 1, "x": 2, "prune": 0, "w": 0}, {"a": "deliver", "n": 2, "ty": 2, "x": 2, "lt": 2, "prune": 0, "w": 1},
     {"a": "deliver", "n": 0, "ty": 1, "x": 2, "lt": 3, "prune": 0, "w": 0}, {"a": "sync"}],
    # the same, and the refutation reaches nobody by gossip: state sync alone must restore the running node's status
    [{"a": "forceleave", "n": 1, "x": 2, "prune": 0, "w": 0}, {"a": "deliver", "n": 2, "ty": 2, "x": 2, "lt": 2, "prune": 0, "w": 1},
     {"a": "sync"}],
    [{"a": "forceleave", "n": 1, "x": 2, "prune": 0, "w": 0}, {"a": "deliver", "n": 0, "ty": 2, "x": 2, "lt": 2, "prune": 0, "w": 0},
     {"a": "deliver", "n": 2, "ty": 2, "x": 2, "lt": 2, "prune": 0, "w": 1}, {"a": "sync"}],
]


# 4 formed nodes: a leave learned SECOND-HAND must still be passed on.  Member 3 leaves, only node 0 hears the intent; nodes 1
# and 2 see it fail; node 1 learns the leave from node 0 by push/pull; node 0 dies; node 2 can now learn it only from node 1.
MUST4 = [
    [{"a": "leave1", "n": 3}, {"a": "deliver", "n": 0, "ty": 2, "x": 3, "lt": 2, "prune": 0, "w": 0}, {"a": "leave2", "n": 3},
     {"a": "crash", "n": 3}, {"a": "mlleave", "n": 0, "x": 3, "w": 0}, {"a": "mlleave", "n": 1, "x": 3, "w": 0},
     {"a": "mlleave", "n": 2, "x": 3, "w": 0}, {"a": "pushpull", "n": 1, "m": 0, "w": 0}, {"a": "crash", "n": 0},
     {"a": "mlleave", "n": 1, "x": 0, "w": 0}, {"a": "mlleave", "n": 2, "x": 0, "w": 0}, {"a": "sync"}],
]


def build(ctx):
    ov = vlib.overlay_for(ctx, hook_pkgs=[("serf", "serf_state")])
    return vlib.go_build(ctx, "cluster", overlay=ov)


def cfg(nn, ops, clock, spur, formed, split):
    return ("CONSTANT NN = %d\nCONSTANT MaxOps = %d\nCONSTANT MaxClock = %d\nCONSTANT MaxSpurious = %d\n"
            "CONSTANT Formed = %s\nCONSTANT SplitAlways = %s\n" % (nn, ops, clock, spur, "TRUE" if formed else "FALSE",
                                                                 "TRUE" if split else "FALSE"))


def execute(ctx, binary, nn, formed, scheds, tag):
    sp = os.path.join(ctx.scratch, "csched-%s.ndjson" % tag)
    tp = os.path.join(ctx.scratch, "ctrace-%s.ndjson" % tag)
    vlib.write_schedules(sp, scheds)
    rc, out = vlib.run_driver(ctx, binary, ["-in", sp, "-out", tp, "-nn", str(nn), "-formed=%s" % ("true" if formed else "false")],
                              timeout=3000)
    if rc != 0:
        raise vlib.Inconclusive("cluster driver failed rc=%d:\n%s" % (rc, out[-3000:]))
    return tp, json.loads(out.strip().splitlines()[-1])


def model_check(ctx):
    """Design level: the agreement clause with the recorded findings carved out, exhaustively."""
    res = []
    if ctx.thorough():
        # 3 formed nodes with 2 operations did not finish (> 6 M distinct states after 50 minutes at MaxClock 4): one operation there
        confs = [(2, 2, 5, 1, True, True), (2, 3, 6, 0, True, True), (3, 1, 4, 1, True, True), (2, 3, 5, 1, False, True)]
    else:
        confs = [(2, 2, 5, 0, True, True), (2, 2, 4, 0, False, True)]
    for c in confs:
        r = vlib.tlc(ctx, "SerfCluster", cfg(*c) + "INIT Init\nNEXT Next\nCONSTRAINT ClockBound\nINVARIANT StepClauses\nINVARIANT C02Agreement\n",
                     timeout=3000)
        if r.violated:
            raise vlib.Inconclusive("cluster model violates %s beyond the recorded findings (config %s) -- model-level "
                                    "counterexample, needs triage; no verdict" % (r.violated, c))
        res.append((c, r))
    # the recorded findings must be reachable in the model
    r = vlib.tlc(ctx, "SerfCluster", cfg(2, 2, 5, 0, True, True) + "INIT Init\nNEXT Next\nCONSTRAINT ClockBound\nINVARIANT C02Strict\n",
                 timeout=3000)
    if not r.violated:
        raise vlib.Inconclusive("the recorded agreement findings are not reachable in the model (waiver vacuous)")
    return res


def run_agreement(ctx, binary=None):
    """Returns (violations, coverage) for the agreement clause; violations carry tags."""
    binary = binary or build(ctx)
    mcs = model_check(ctx)
    viol = []
    cov = {"cluster_model": [{"constants": "NN=%d MaxOps=%d MaxClock=%d MaxSpurious=%d Formed=%s" % c[:5],
                               "states": r.distinct, "transitions": r.generated} for c, r in mcs],
           "cluster_traces": 0, "cluster_lines": 0, "cluster_divergences": 0, "cluster_not_quiet": 0, "cluster_quiet_judged": 0}
    plans = [(3, True, 4, 200 if ctx.thorough() else 40, 50), (2, False, 4, 160 if ctx.thorough() else 30, 50), (4, True, 4, 0, 50)]
    samples = []
    for nn, formed, ops, num, depth in plans:
        gcfg = cfg(nn, ops, 30, 1, formed, False)
        if num:
            _, scheds = vlib.simulate_schedules(ctx, "Gen_SerfCluster", gcfg + "INIT GenInit\nNEXT GenNext\n", num, depth, timeout=3000)
        else:
            scheds = []
        if nn == 3 and formed:
            scheds = MUST3 + scheds
        if nn == 4 and formed:
            scheds = MUST4 + scheds
        tag = "%d%s" % (nn, "f" if formed else "s")
        tp, summ = execute(ctx, binary, nn, formed, scheds, tag)
        tcfg = "SPECIFICATION TraceSpec\nINVARIANT Done\n" + cfg(nn, 100000, 100000, 100000, formed, False)
        rep = vlib.validate(ctx, "Trace_SerfCluster", tcfg, tp, timeout=3000)
        cov["cluster_traces"] += rep.traces
        cov["cluster_lines"] += rep.lines
        cov["cluster_divergences"] += len(rep.diverged)
        cov["cluster_not_quiet"] += summ["not_quiet"]
        cov["cluster_quiet_judged"] += rep.traces - summ["not_quiet"]
        samples.append(scheds[0][:10] if scheds else [])
        # confirm: the reported schedules (at most two per kind of report) are executed a second time, in one batch
        seen, pick = {}, []
        for (tid, line, clauses, tags) in rep.monitors:
            key = ",".join(sorted(clauses)) + "|" + ",".join(sorted(t for t in tags if t in KNOWN_TAGS))
            if seen.get(key, 0) >= 2 or tid in [p[0] for p in pick]:
                continue
            seen[key] = seen.get(key, 0) + 1
            pick.append((tid, clauses))
        if pick:
            t2, _ = execute(ctx, binary, nn, formed, [scheds[tid] for tid, _ in pick], "re-%s" % tag)
            rep2 = vlib.validate(ctx, "Trace_SerfCluster", tcfg, t2)
            for i, (tid, clauses) in enumerate(pick):
                mine = [m for m in rep2.monitors if m[0] == i]
                again = sorted(set(c for m in mine for c in m[2]))
                if again:
                    tg = sorted(set(t for m in mine for t in m[3]))
                    viol.append({"clauses": again, "tags": tg, "schedule": scheds[tid], "nn": nn, "formed": formed, "kind": "cluster"})
                else:
                    ctx.log("cluster report %s on trace %d not reproduced; ignored" % (clauses, tid))
    cov["cluster_samples"] = samples
    return viol, cov
