"""C17 / C18: member and user event coalescing (spec/CoalesceMember.tla, spec/CoalesceUser.tla)."""
PROPS = ["C17", "C18"]
# id: (level, what the check establishes, trusted base / assumptions, technique, DESIGN.md section)
CLAIMS = {
    'C17': (
        'model_checking',
        'TLC checks the C17 monitor exhaustively on spec/CoalesceMember.tla (all event/flush sequences over NM names x 5 kinds); TLC-simulated behaviours are executed on the real memberEventCoalescer and every recorded call is validated against the spec by TLC (Trace_CoalesceMember), with the same monitor evaluated on the observed outputs.',
        'Trusts TLC, the overlay accessor that constructs the coalescer as serf.Create does, and that coalesceLoop calls Coalesce/Flush from one goroutine.',
        'TLA+ spec + TLC exhaustive check; TLC-generated schedules replayed on the real code; TLC trace validation with property monitors',
        '5 C17',
    ),
    'C18': (
        'model_checking',
        'TLC checks the C18 monitor exhaustively on spec/CoalesceUser.tla (feeds of coalescable/plain user events, member events and queries with Lamport-time ties, flush anywhere); simulated behaviours run on the real userEventCoalescer and through the real coalesceLoop goroutine; every recorded step is validated by TLC against the spec with the monitor on observed outputs.',
        'Trusts TLC and the overlay accessor; loop-mode runs flush only at shutdown (timers never fire).',
        'TLA+ spec + TLC exhaustive check; TLC-generated schedules replayed on the real code; TLC trace validation with property monitors',
        '5 C18',
    ),
}
import json
import os

import vlib

TRACE_CFG = """SPECIFICATION TraceSpec
INVARIANT Done
%s
"""


def run(ctx, replay=None):
    if ctx.prop == "C17":
        return run_member(ctx, replay)
    return run_user(ctx, replay)


def _build(ctx):
    ov = vlib.overlay_for(ctx, hook_pkgs=[("serf", "serf_coalesce")])
    return vlib.go_build(ctx, "coalesce", overlay=ov)


def _exec(ctx, binary, mode, n, scheds, tag):
    sp = os.path.join(ctx.scratch, "sched-%s.ndjson" % tag)
    tp = os.path.join(ctx.scratch, "trace-%s.ndjson" % tag)
    vlib.write_schedules(sp, scheds)
    rc, out = vlib.run_driver(ctx, binary, ["-mode", mode, "-in", sp, "-out", tp, "-n", str(n)])
    if rc != 0:
        raise vlib.Inconclusive("coalesce driver failed rc=%d:\n%s" % (rc, out[-3000:]))
    return tp


def _violations(ctx, rep, scheds, binary, mode, n, module, consts, tag):
    """Monitor reports -> violations confirmed by a second, independent execution."""
    res = []
    done = set()
    for (tid, line, clauses, tags) in rep.monitors:
        if tid in done:
            continue
        done.add(tid)
        sched = scheds[tid]
        tp = _exec(ctx, binary, mode, n, [sched], "%s-re%d" % (tag, tid))
        rep2 = vlib.validate(ctx, module, TRACE_CFG % consts, tp)
        if rep2.monitors:
            res.append({"clauses": sorted(set(c for m in rep2.monitors for c in m[2])), "tags": tags,
                        "schedule": sched, "mode": mode, "n": n})
        else:
            ctx.log("monitor report on trace %d not reproduced; ignored" % tid)
        if len(res) >= 5:
            break
    return res


def run_member(ctx, replay):
    nm = 3 if ctx.thorough() else 2
    consts = "CONSTANT NM = %d" % nm
    binary = _build(ctx)
    if replay:
        v = json.load(open(replay))
        scheds = [v["schedule"]]
        nm = v.get("n", nm)
        consts = "CONSTANT NM = %d" % nm
        mc = None
    else:
        mc = vlib.tlc(ctx, "CoalesceMember", consts + "\nINIT Init\nNEXT Next\nINVARIANT C17\nINVARIANT TypeOK\n")
        if mc.violated:
            raise vlib.Inconclusive("the model itself violates %s -- spec error, no verdict" % mc.violated)
        num, depth = (3000, 60) if ctx.thorough() else (400, 40)
        _, scheds = vlib.simulate_schedules(ctx, "Gen_CoalesceMember",
                                            consts + "\nINIT GenInit\nNEXT GenNext\n", num, depth)
    tp = _exec(ctx, binary, "member", nm, scheds, "m")
    rep = vlib.validate(ctx, "Trace_CoalesceMember", TRACE_CFG % consts, tp)
    viol = _violations(ctx, rep, scheds, binary, "member", nm, "Trace_CoalesceMember", consts, "m")
    new, known = vlib.classify(ctx.prop, viol)
    flushes = sum(1 for s in scheds for st in s if st["a"] == "flush")
    distinct = len(set(json.dumps(s) for s in scheds))
    cov = {
        "states": mc.distinct if mc else 1, "transitions": mc.generated if mc else 1,
        "exhaustive": bool(mc), "model_constants": consts,
        "traces_validated_against_impl": rep.traces,
        "trace_lines": rep.lines, "divergences": len(rep.diverged),
        "evaluations": flushes, "distinct_nontrivial": distinct,
        "rule": "TLC -simulate behaviours of CoalesceMember (Coalesce with 1..NM members x 5 kinds, Flush at "
                "arbitrary points) executed on the real memberEventCoalescer; a schedule is non-trivial if "
                "distinct as an action sequence; evaluations = Flush calls whose output the C17 monitor judged",
        "samples": [scheds[0][:12]] if scheds else [],
    }
    assume = ["coalesceLoop calls Coalesce/Flush exactly as the driver does (one goroutine, Flush between events)",
              "MemberEvent member lists contain no duplicate names"]
    vlib.finish(ctx, "model_checking", cov, assume, new, known)


def run_user(ctx, replay):
    nu, maxlt, maxev = (2, 3, 6) if ctx.thorough() else (2, 2, 5)
    consts = "CONSTANT NU = %d\nCONSTANT MaxLT = %d\nCONSTANT MaxEv = %d" % (nu, maxlt, maxev)
    gconsts = "CONSTANT NU = %d\nCONSTANT MaxLT = %d\nCONSTANT MaxEv = 1000" % (nu, maxlt + 1)
    binary = _build(ctx)
    mc = None
    if replay:
        v = json.load(open(replay))
        modes = {v.get("mode", "user"): [v["schedule"]]}
    else:
        mc = vlib.tlc(ctx, "CoalesceUser", consts + "\nINIT Init\nNEXT Next\nINVARIANT C18\n")
        if mc.violated:
            raise vlib.Inconclusive("the model itself violates %s -- spec error, no verdict" % mc.violated)
        num, depth = (3000, 50) if ctx.thorough() else (400, 30)
        _, scheds = vlib.simulate_schedules(ctx, "Gen_CoalesceUser", gconsts + "\nINIT GenInit\nNEXT GenNext\n", num, depth)
        nloop = 120 if ctx.thorough() else 25
        loops = []
        for s in scheds[:nloop]:
            # the real loop flushes once, at shutdown: keep the feeds, end with one flush
            feeds = [st for st in s if st["a"] == "feed"][:12]
            for i, st in enumerate(feeds):
                st = dict(st)
                st["id"] = i + 1
                feeds[i] = st
            loops.append(feeds + [{"a": "flush"}])
        modes = {"user": scheds, "userloop": loops}
    viol, traces, lines, div, evals = [], 0, 0, 0, 0
    allscheds = []
    for mode, scheds in modes.items():
        tp = _exec(ctx, binary, mode, nu, scheds, mode)
        rep = vlib.validate(ctx, "Trace_CoalesceUser", TRACE_CFG % gconsts, tp)
        viol += _violations(ctx, rep, scheds, binary, mode, nu, "Trace_CoalesceUser", gconsts, mode)
        traces += rep.traces
        lines += rep.lines
        div += len(rep.diverged)
        evals += sum(1 for s in scheds for st in s)
        allscheds += scheds
    new, known = vlib.classify(ctx.prop, viol)
    cov = {
        "states": mc.distinct if mc else 1, "transitions": mc.generated if mc else 1,
        "exhaustive": bool(mc), "model_constants": consts,
        "traces_validated_against_impl": traces, "trace_lines": lines, "divergences": div,
        "evaluations": evals, "distinct_nontrivial": len(set(json.dumps(s) for s in allscheds)),
        "rule": "TLC -simulate behaviours of CoalesceUser (feeds of coalescable / plain user events, member events, "
                "queries over NU names and Lamport times with ties; Flush anywhere) executed on the real "
                "userEventCoalescer, and feed-only prefixes executed through the real coalesceLoop goroutine with a "
                "shutdown flush; evaluations = steps judged by the C18 monitor; distinct = distinct action sequences",
        "samples": [allscheds[0][:10]] if allscheds else [],
    }
    assume = ["loop mode uses timers that never fire; flush points inside the loop are the synchronous-mode schedules"]
    vlib.finish(ctx, "model_checking", cov, assume, new, known)
